package main

import (
	"bytes"
	"fmt"
	"io"
	"strings"
	"unsafe"

	"seehuhn.de/go/pdf"
	"seehuhn.de/go/pdf/internal/filter/ccittfax"
	"seehuhn.de/go/pdf/internal/filter/dct/jpeg"
	"seehuhn.de/go/pdf/internal/filter/jbig2"
	"seehuhn.de/go/pdf/internal/filter/lzw"
	"seehuhn.de/go/pdf/internal/filter/predict"
)

// chargeCases: every allocation site that charges the stream budget, run
// through the real code (pass-through hooks) and compared with coq/C08/Charge.v;
// directly on the implementation: what is allocated must not exceed what was charged.
func (h *H) chargeCases() {
	e, g := h.e, h.g
	under := func(what string, charged, allocated int64, c any) {
		if allocated > charged {
			h.perSig["charge-below-allocation"]++
			if h.perSig["charge-below-allocation"] <= 12 {
				e.Fail("charge-below-allocation", fmt.Sprintf("%s: %d bytes allocated, %d charged to the stream budget", what, allocated, charged), c)
			}
		}
	}
	// DCT planes: 1, 3, 4 components x all sampling factors 1..4 of the components the formulas read
	for _, n := range []int{1, 3, 4} {
		lim := [6]int{4, 4, 1, 1, 1, 1}
		if n >= 3 {
			lim[2], lim[3] = 4, 4
		}
		if n == 4 {
			lim[4], lim[5] = 4, 4
		}
		var f [6]int
		for f[0] = 1; f[0] <= lim[0]; f[0]++ {
			for f[1] = 1; f[1] <= lim[1]; f[1]++ {
				for f[2] = 1; f[2] <= lim[2]; f[2]++ {
					for f[3] = 1; f[3] <= lim[3]; f[3]++ {
						for f[4] = 1; f[4] <= lim[4]; f[4]++ {
							for f[5] = 1; f[5] <= lim[5]; f[5]++ {
								mxx, myy, width := 1+g.intn(6), 1+g.intn(6), g.intn(300)
								streaming := g.intn(3) == 0
								hv := [4][2]int{{f[0], f[1]}, {f[2], f[3]}, {f[2], f[3]}, {f[4], f[5]}}
								formula, charged, allocated, err := jpeg.VerifPlaneBytes(n, hv, width, mxx, myy, streaming)
								if err != nil {
									continue
								}
								smyy := myy
								if streaming {
									smyy = 1
								}
								desc := fmt.Sprintf("A dct %d %d %d %d %d %d %d %d %d %d", n, f[0], f[1], f[2], f[3], f[4], f[5], width, mxx, smyy)
								h.both(h.id("a"), desc, fmt.Sprintf("%d %d", formula, allocated))
								e.Count(true, desc, "A:dct")
								under("jpeg makeImg ("+desc+")", charged, allocated, desc)
							}
						}
					}
				}
			}
		}
	}
	pc, ps := jpeg.VerifProgBlock()
	h.both(h.id("a"), "A prog", fmt.Sprintf("%d %d", pc, ps))
	under("progressive coefficient block", int64(pc), int64(ps), "A prog")
	// predictor buffers
	for i := e.Pick(600, 6000); i > 0; i-- {
		p := predict.Params{
			Predictor:        []int{2, 10, 11, 12, 13, 14, 15}[g.intn(7)],
			Colors:           1 + g.intn(60),
			BitsPerComponent: []int{1, 2, 4, 8, 16}[g.intn(5)],
			Columns:          1 + g.intn(2000),
		}
		if g.intn(4) == 0 {
			p.Columns = 1 + g.intn(65536)
			p.Colors = 1 + g.intn(8)
		}
		if p.Validate() != nil {
			continue
		}
		charged, allocated, err := predict.VerifBufferLens(&p)
		if err != nil {
			continue
		}
		desc := fmt.Sprintf("A pred %d %d %d %d", p.Predictor, p.Colors, p.BitsPerComponent, p.Columns)
		h.both(h.id("a"), desc, fmt.Sprintf("%d %d", charged, allocated))
		e.Count(true, desc, "A:pred")
		under("predictor initBuffers ("+desc+")", charged, allocated, desc)
	}
	// CCITT line buffers (the changing-element index is counted at its largest: one int per column)
	for _, k := range []int{-1, 0, 2} {
		for i := 0; i < 80; i++ {
			cols := 1 + g.intn(1<<uint(1+g.intn(20)))
			p := &ccittfax.Params{Columns: cols, K: k}
			lineCap, refLen, err := ccittfax.VerifBufferLens(p)
			if err != nil {
				continue
			}
			alloc := int64(lineCap + refLen)
			if k != 0 {
				alloc += 8 * int64(cols)
			}
			desc := fmt.Sprintf("A ccitt %d %d", cols, k)
			h.both(h.id("a"), desc, fmt.Sprintf("%d %d", ccittfax.BufferBytes(p), alloc))
			e.Count(true, desc, "A:ccitt")
			under("ccittfax NewReader ("+desc+")", int64(ccittfax.BufferBytes(p)), alloc, desc)
		}
	}
	// JBIG2 pool: live / peak / budget
	for i := e.Pick(300, 3000); i > 0; i-- {
		limit := int64(g.intn(5000))
		var ops []int
		var toks []string
		for j := 1 + g.intn(12); j > 0; j-- {
			n := g.intn(800)
			if g.intn(3) == 0 {
				n = -g.intn(600)
			}
			ops = append(ops, n)
			toks = append(toks, fmt.Sprint(n))
		}
		live, peak, taken, done := jbig2.VerifPoolTrace(limit, ops)
		desc := fmt.Sprintf("A pool %d %s", limit, strings.Join(toks, ","))
		h.both(h.id("a"), desc, fmt.Sprintf("%d %d %d %d", live, peak, taken, done))
		e.Count(true, desc, "A:pool")
		if int64(live) > limit {
			e.Fail("charge-below-allocation", fmt.Sprintf("jbig2 pool holds %d live bytes against a budget of %d", live, limit), desc)
		}
	}
	h.both(h.id("a"), fmt.Sprintf("A lzw %d", unsafe.Sizeof(lzw.Reader{})), "1")
	// the real code tables, checked by the validators of coq/C08/CCITT.v
	st, w, p := ccittfax.VerifMainTable()
	var ents []string
	for i := range st {
		ents = append(ents, fmt.Sprintf("%d,%d,%d", st[i], w[i], p[i]))
	}
	h.both(h.id("x"), "X main "+strings.Join(ents, ";"), "1")
	ww, wp, bw, bp := ccittfax.VerifRunTables()
	for _, t := range [][2][]int{{ww, wp}, {bw, bp}} {
		ents = ents[:0]
		for i := range t[0] {
			ents = append(ents, fmt.Sprintf("%d,%d", t[0][i], t[1][i]))
		}
		h.both(h.id("x"), "X run "+strings.Join(ents, ";"), "1")
	}
	e.Count(true, "tables", "X:tables")
}

// ---- CCITT rows ----

type code struct {
	v uint16
	w uint
}

var (
	vertCode  = map[int]code{0: {1, 1}, 1: {3, 3}, 2: {3, 6}, 3: {3, 7}, -1: {2, 3}, -2: {2, 6}, -3: {2, 7}}
	passCode  = code{1, 4}
	horizCode = code{1, 3}
	whiteRun  = map[int]code{0: {0x35, 8}, 1: {7, 6}, 2: {7, 4}, 3: {8, 4}, 4: {11, 4}, 8: {0x13, 5}, 63: {0x34, 8}}
	blackRun  = map[int]code{0: {0x37, 10}, 1: {2, 3}, 2: {3, 2}, 3: {2, 2}, 4: {3, 3}, 8: {5, 6}, 63: {0x67, 12}}
	whiteMk64 = code{0x1b, 5}
	blackMk64 = code{0x0f, 10}
)

var runChoices = []int{0, 1, 2, 3, 4, 8, 63, 64 + 3, 64 + 63, 128 + 8}

func pdfCCITT(cols, k int) pdf.Filter { return pdf.FilterCCITTFax{K: k, Columns: cols} }

// pickRun draws a run length whose make-up part stays within the row (decodeFullRun stops
// reading a run as soon as the make-up codes alone exceed Columns).
func (g *gen) pickRun(cols int) int {
	for {
		r := runChoices[g.intn(len(runChoices))]
		if r/64*64 <= cols {
			return r
		}
	}
}

func putRun(p *bitPacker, n int, white bool) {
	for n >= 64 {
		if white {
			p.put(whiteMk64.v, whiteMk64.w)
		} else {
			p.put(blackMk64.v, blackMk64.w)
		}
		n -= 64
	}
	c := blackRun[n]
	if white {
		c = whiteRun[n]
	}
	p.put(c.v, c.w)
}

// firstRow: a Group 4 body whose first row is a chosen sequence of 2-D codes.  Against the
// all-white reference line of a first row b1 = b2 = Columns, so the events the decoder sees
// are known: the model's cursor arithmetic (CCITT.row2d) must give the length of the row
// the real reader delivers.
func (h *H) firstRow() {
	g := h.g
	cols := []int{1, 5, 8, 9, 16, 24, 61, 64, 200, 1728}[g.intn(10)]
	var p bitPacker
	var evs []string
	pos, white := -1, true
	for k := g.intn(4); k > 0; k-- {
		r1, r2 := g.pickRun(cols), g.pickRun(cols)
		if max(pos, 0)+r1+r2 >= cols || r1+r2 == 0 {
			break
		}
		p.put(horizCode.v, horizCode.w)
		putRun(&p, r1, white)
		putRun(&p, r2, !white)
		evs = append(evs, fmt.Sprintf("h%d,%d", r1, r2))
		pos = max(pos, 0) + r1 + r2
	}
	switch g.intn(5) {
	case 0:
		p.put(passCode.v, passCode.w)
		evs = append(evs, fmt.Sprintf("p%d", cols))
	case 1: // a run that overshoots the margin
		r1 := []int{64 + 63, 128 + 8, 63}[g.intn(3)]
		if r1/64*64 > cols {
			r1 = 63
		}
		p.put(horizCode.v, horizCode.w)
		putRun(&p, r1, white)
		putRun(&p, 0, !white)
		evs = append(evs, fmt.Sprintf("h%d,0", r1))
		if max(pos, 0)+r1 < cols {
			d := g.intn(4)
			p.put(vertCode[d].v, vertCode[d].w)
			evs = append(evs, fmt.Sprintf("v%d,%d", cols, d))
		}
	case 2: // step back from the margin, then beyond it
		d := -1 - g.intn(3)
		if cols+d > max(pos, 0) {
			p.put(vertCode[d].v, vertCode[d].w)
			evs = append(evs, fmt.Sprintf("v%d,%d", cols, d))
		}
		d2 := g.intn(4)
		p.put(vertCode[d2].v, vertCode[d2].w)
		evs = append(evs, fmt.Sprintf("v%d,%d", cols, d2))
	default:
		d := g.intn(4)
		p.put(vertCode[d].v, vertCode[d].w)
		evs = append(evs, fmt.Sprintf("v%d,%d", cols, d))
	}
	body := append(p.flush(), 0xFF, 0xFF) // more rows follow; MaxRows = 1 ends the stream after the first
	rd, err := ccittfax.NewReader(bytes.NewReader(body), &ccittfax.Params{Columns: cols, K: -1, MaxRows: 1, IgnoreEndOfBlock: true})
	if err != nil {
		return
	}
	buf := make([]byte, cols/8+64)
	n, _ := rd.Read(buf)
	h.both(h.id("e"), fmt.Sprintf("E %d %s", cols, strings.Join(evs, ";")), fmt.Sprint(n))
	h.e.Count(true, fmt.Sprint(cols, evs), "E:firstrow")
	desc := fmt.Sprintf("cols=%d K=-1 first row %v body=%x", cols, evs, body)
	if n > (cols+7)/8 && n > simFirstRow(cols, evs) {
		// longer than a first horizontal run clipped to Columns+1 (the defect F46 removed) explains:
		// the vertical-mode cause (F41)
		h.e.Fail("ccitt-row-longer-than-columns", fmt.Sprintf("a decoded row has %d bytes, the image row has %d (Columns = %d)", n, (cols+7)/8, cols), desc)
		return
	}
	h.rowOracle(cols, 1, []int{n}, desc)
}

// simFirstRow: the length of a first row when vertical-mode targets are clipped to Columns
// (F41) but a horizontal run is clipped to Columns - a0 with the unclamped a0 (as before F46).
// It only serves to tell the two repaired causes apart when a row is too long.
func simFirstRow(cols int, evs []string) int {
	a0, length := -1, 0
	fill := func(a, b int) {
		if a < b {
			length = max(length, (b+7)/8)
		}
	}
	for _, e := range evs {
		if a0 >= cols {
			break
		}
		var x, y int
		switch e[0] {
		case 'p':
			fmt.Sscanf(e[1:], "%d", &x)
			fill(a0, x)
			a0 = x
		case 'v':
			fmt.Sscanf(e[1:], "%d,%d", &x, &y)
			a1 := min(x+y, cols)
			fill(a0, a1)
			a0 = a1
		case 'h':
			fmt.Sscanf(e[1:], "%d,%d", &x, &y)
			r1 := min(x, cols-a0)
			a0 = max(a0, 0)
			fill(a0, a0+r1)
			a0 += r1
			r2 := min(y, cols-a0)
			fill(a0, a0+r2)
			a0 += r2
		}
	}
	return length
}

// rowOracle: no row longer than the image is wide, no more rows than MaxRows.
func (h *H) rowOracle(cols, maxRows int, rows []int, desc string) {
	if maxRows > 0 && len(rows) > maxRows {
		h.e.Fail("ccitt-row-cap", fmt.Sprintf("%d rows delivered, MaxRows is %d", len(rows), maxRows), desc)
	}
	for _, n := range rows {
		if n > (cols+7)/8 {
			// the bound ceil(Columns/8) is proved of the model (ccitt_row_cap_as_documented); on hostile
			// bodies the cause cannot be told: reported under the signature of the repair made last (F46)
			h.perSig["ccitt-first-run-longer-than-columns"]++
			if h.perSig["ccitt-first-run-longer-than-columns"] <= 12 {
				h.e.Fail("ccitt-first-run-longer-than-columns", fmt.Sprintf("a decoded row has %d bytes, the image row has %d (Columns = %d)", n, (cols+7)/8, cols), desc)
			}
			return
		}
	}
}

// hostileRows: the real reader on hostile bodies, row by row.
func (h *H) hostileRows() {
	g := h.g
	cols := []int{1, 5, 8, 9, 16, 24, 64, 1728, 4096, 1 << 16}[g.intn(10)]
	k := []int{-1, -1, 0, 4}[g.intn(4)]
	maxRows := []int{1, 2, 7, 100, 0}[g.intn(5)]
	var body []byte
	switch g.intn(5) {
	case 0:
		body = g.bytes(1 + g.intn(400))
	case 1: // vertical codes only
		var p bitPacker
		for i := 5 + g.intn(300); i > 0; i-- {
			c := vertCode[g.intn(7)-3]
			p.put(c.v, c.w)
		}
		body = p.flush()
	case 2:
		body = bytes.Repeat([]byte{[]byte{0xFF, 0x06, 0x0C, 0x00, 0x35, 0x24, 0x92}[g.intn(7)]}, 1+g.intn(300))
	case 3:
		enc := encodeFilter(pdfCCITT(cols, k), g.bytes((cols+7)/8*(1+g.intn(6))))
		body = g.mutate(enc)
	default: // horizontal codes with long runs
		var p bitPacker
		for i := 2 + g.intn(60); i > 0; i-- {
			p.put(horizCode.v, horizCode.w)
			putRun(&p, runChoices[g.intn(len(runChoices))], g.intn(2) == 0)
			putRun(&p, runChoices[g.intn(len(runChoices))], g.intn(2) == 0)
			if g.intn(3) == 0 {
				c := vertCode[g.intn(7)-3]
				p.put(c.v, c.w)
			}
		}
		body = p.flush()
	}
	prm := &ccittfax.Params{Columns: cols, K: k, MaxRows: maxRows, IgnoreEndOfBlock: g.intn(2) == 0,
		EndOfLine: g.intn(4) == 0, EncodedByteAlign: g.intn(6) == 0, BlackIs1: g.intn(2) == 0}
	desc := fmt.Sprintf("cols=%d K=%d MaxRows=%d eob=%v body=%x", cols, k, maxRows, !prm.IgnoreEndOfBlock, body)
	var rows []int
	func() {
		defer func() {
			if r := recover(); r != nil {
				h.e.Fail("panic", fmt.Sprintf("ccittfax reader: %v", r), desc)
			}
		}()
		rd, err := ccittfax.NewReader(bytes.NewReader(body), prm)
		if err != nil {
			return
		}
		buf := make([]byte, cols/8+64)
		for len(rows) < 100000 {
			n, err := rd.Read(buf)
			if n > 0 {
				rows = append(rows, n)
			}
			if err != nil {
				if err != io.EOF && n == 0 {
					break
				}
				break
			}
			if n == 0 {
				break
			}
		}
	}()
	h.e.Count(len(rows) > 0, desc, fmt.Sprintf("R:K%d", k))
	h.rowOracle(cols, maxRows, rows, desc)
}
