package main

import (
	"fmt"
	"os"
	"strings"

	"seehuhn.de/go/pdf/internal/filter/dct/jpeg"
	"seehuhn.de/go/pdf/internal/limits"
)

// pscan is one SOS of a progressive JPEG: the components it lists and its
// spectral selection / successive approximation parameters.
type pscan struct {
	comps          []int
	ss, se, ah, al int
}

// jpegProgScript builds a progressive JPEG of w x h pixels with nComp
// components (all sampled 1x1) whose coefficients are all zero, from a script
// of scans.  The Huffman tables are as small as the format allows: DC table 0
// has one 1-bit code (difference category 0); AC table 0 has two 2-bit codes,
// "00" = EOB run with 14 extra bits (one 16-bit token skips 16384 blocks) and
// "01" = end of block.  So every scan consists of zero bytes: one bit per
// block for DC scans (first pass and refinement alike), two bytes per 16384
// blocks for AC scans.  ri > 0 adds a restart interval of ri MCUs.
// plan lists, per scan, the coefficient blocks allocated for components seen
// for the first time and the blocks the scan walks.
func jpegProgScript(w, h, nComp, ri int, scans []pscan) (body []byte, plan [][2]int64) {
	b := []byte{0xFF, 0xD8, 0xFF, 0xDB, 0, 67, 0}
	for i := 0; i < 64; i++ {
		b = append(b, 1)
	}
	b = append(b, 0xFF, 0xC2, 0, byte(8+3*nComp), 8, byte(h>>8), byte(h), byte(w>>8), byte(w), byte(nComp))
	for i := 0; i < nComp; i++ {
		b = append(b, byte(i+1), 0x11, 0)
	}
	b = append(b, 0xFF, 0xC4, 0, 20, 0x00, 1, 0, 0, 0, 0, 0, 0, 0, 0, 0, 0, 0, 0, 0, 0, 0, 0) // DC 0: "0" -> 0
	b = append(b, 0xFF, 0xC4, 0, 21, 0x10, 0, 2, 0, 0, 0, 0, 0, 0, 0, 0, 0, 0, 0, 0, 0, 0, 0xE0, 0x00)
	if ri > 0 {
		b = append(b, 0xFF, 0xDD, 0, 4, byte(ri>>8), byte(ri))
	}
	blocks := ((w + 7) / 8) * ((h + 7) / 8)
	seen := map[int]bool{}
	for _, s := range scans {
		b = append(b, 0xFF, 0xDA, 0, byte(6+2*len(s.comps)), byte(len(s.comps)))
		fresh := 0
		for _, c := range s.comps {
			b = append(b, byte(c+1), 0)
			if !seen[c] {
				seen[c] = true
				fresh += blocks
			}
		}
		b = append(b, byte(s.ss), byte(s.se), byte(s.ah<<4|s.al))
		plan = append(plan, [2]int64{int64(fresh), int64(blocks * len(s.comps))})
		// entropy-coded data: zero bytes, in restart intervals
		left, rst := blocks, 0
		for left > 0 {
			n := left
			if ri > 0 && n > ri {
				n = ri
			}
			if s.ss == 0 {
				b = append(b, make([]byte, (n*len(s.comps)+7)/8)...)
			} else {
				b = append(b, make([]byte, 2*((n+16383)/16384))...)
			}
			left -= n
			if left > 0 {
				b = append(b, 0xFF, byte(0xD0+rst%8))
				rst++
			}
		}
	}
	return append(b, 0xFF, 0xD9), plan
}

// progScript draws a script: DC first / refinement scans (interleaved or per
// component), AC first / refinement scans over random bands, repeated.
func (g *gen) progScript(nComp, n int) []pscan {
	all := make([]int, nComp)
	for i := range all {
		all[i] = i
	}
	var s []pscan
	if g.intn(4) > 0 {
		s = append(s, pscan{all, 0, 0, 0, 1})
	}
	for len(s) < n {
		c := []int{g.intn(nComp)}
		switch g.intn(6) {
		case 0:
			s = append(s, pscan{all, 0, 0, 0, g.intn(3)})
		case 1:
			al := g.intn(3)
			s = append(s, pscan{c, 0, 0, al + 1, al})
		case 2, 3:
			ss := 1 + g.intn(63)
			s = append(s, pscan{c, ss, ss + g.intn(64-ss), 0, g.intn(3)})
		default:
			ss := 1 + g.intn(63)
			al := g.intn(3)
			s = append(s, pscan{c, ss, ss + g.intn(64-ss), al + 1, al})
		}
	}
	return s
}

// progCases: multi-scan formats, where work per input byte is the danger: many tiny scans
// over a large frame.  (1) The real decoder's pass counter against the model of the cap
// (Charge.run_scans); (2) the time oracle on scripts of thousands of scans of each kind.
func (h *H) progCases() {
	e, g := h.e, h.g
	// (1) the counter
	for i := e.Pick(120, 1500); i > 0 && !h.aborted; i-- {
		nComp := []int{1, 3, 4}[g.intn(3)]
		w, ht := 8*(1+g.intn(40)), 8*(1+g.intn(40))
		if g.intn(4) == 0 {
			w, ht = 1+g.intn(700), 1+g.intn(700)
		}
		ri := 0
		if g.intn(3) == 0 {
			ri = 8 * (1 + g.intn(64))
		}
		script := g.progScript(nComp, 1+g.intn(e.Pick(90, 200)))
		body, plan := jpegProgScript(w, ht, nComp, ri, script)
		visits, total, err := jpeg.VerifProgVisits(body, limits.StreamBudget(int64(len(body))))
		var toks []string
		for _, p := range plan {
			toks = append(toks, fmt.Sprintf("%d:%d", p[0], p[1]))
		}
		h.both(h.id("w"), "W "+strings.Join(toks, ","), fmt.Sprintf("%d %d", visits, total))
		cl := "done"
		if err != nil {
			cl = "refused"
		}
		e.Count(true, string(body), "W:"+cl)
		if total > 0 && visits > 64*total+1 {
			e.Fail("pass-cap", fmt.Sprintf("the progressive decoder walked %d blocks, its buffers hold %d", visits, total), fmt.Sprintf("%dx%d %d components, %d scans", w, ht, nComp, len(script)))
		}
	}
	// (2) time: thousands of scans of one kind (and mixed) over a frame of 2896 x 2896
	// (131 044 blocks): a scan of 26 bytes can walk all of them
	dim, n := 2896, e.Pick(10000, 30000)
	kinds := map[string]func(i int) pscan{
		"AC refinement": func(i int) pscan { return pscan{[]int{0}, 1, 63, 1, 0} },
		"AC first pass": func(i int) pscan { return pscan{[]int{0}, 1, 63, 0, 0} },
		"AC refinement, narrow bands": func(i int) pscan {
			return pscan{[]int{0}, 1 + i%63, 1 + i%63, 1 + i%2, i % 2}
		},
		"mixed": func(i int) pscan {
			switch i % 4 {
			case 0:
				return pscan{[]int{0}, 5, 9, 0, 1}
			case 1:
				return pscan{[]int{0}, 5, 9, 1, 0}
			case 2:
				return pscan{[]int{0}, 10, 63, 2, 1}
			}
			return pscan{[]int{0}, 1, 4, 0, 0}
		},
	}
	for _, name := range []string{"AC refinement", "AC first pass", "AC refinement, narrow bands", "mixed"} {
		if h.aborted {
			break
		}
		var script []pscan
		for i := 0; i < n; i++ {
			script = append(script, kinds[name](i))
		}
		for _, ri := range []int{0, 16384}[:e.Pick(1, 2)] {
			body, _ := jpegProgScript(dim, dim, 1, ri, script)
			c := h.one("DCTDecode", parm{Kind: "null"}, body, fmt.Sprintf("progressive jpeg, %d scans: %s", n, name))
			c.Own = true
			c.Work = admittedJPEG(dim, dim, 1)
			h.chainCase(c)
		}
	}
	// three components, refinement scans cycling over them
	if !h.aborted {
		var script []pscan
		for i := 0; i < n/2; i++ {
			script = append(script, pscan{[]int{i % 3}, 1, 63, 1, 0})
		}
		body, _ := jpegProgScript(1600, 1600, 3, 0, script)
		c := h.one("DCTDecode", parm{Kind: "null"}, body, "progressive jpeg, refinement scans over three components")
		c.Own = true
		c.Work = admittedJPEG(1600, 1600, 3)
		h.chainCase(c)
	}
	// JBIG2: more pixel work than workLimit(rawLen) allows must be refused, not done
	if !h.aborted && e.Thorough {
		c := h.one("JBIG2Decode", parm{Kind: "null"}, jbig2ManyRegions(200, 1, 1<<20, 38, 8, 8), "jbig2: 200 Mi pixels of region work for 6 KB")
		c.Live = true // one bitmap per region is allocated and freed: judge what is held, not the cumulative total
		c.Work = admittedJBIG2(int64(len(c.Body())), 200<<20)
		o, ok := h.triple(c, false)
		if ok && o.Class == "ok" {
			h.fail("work-over-limit", "200 Mi pixel operations were carried out for a JBIG2 input of a few kilobytes", c, o)
		}
	}
	// JBIG2: a referred-to list that names the same dictionary again and again, lists at the
	// longest length the decoder admits, dictionaries re-exported through chains
	if !h.aborted {
		for _, cfg := range [][4]int{{16384, 400, 0, 0}, {65536, 8, 0, 0}, {300, 300, 3, 0}, {4, 40, 12, 0}, {16384, 400, 1, 1}} {
			c := h.one("JBIG2Decode", parm{Kind: "null"}, jbig2RepeatedRefs(cfg[0], cfg[1], cfg[2], cfg[3] == 1),
				fmt.Sprintf("jbig2: text region referring %d times to a dictionary of %d symbols (chain of %d, repeated inside the dictionary: %d)", cfg[0], cfg[1], cfg[2], cfg[3]))
			c.Live = true
			o, _ := h.triple(c, false)
			if os.Getenv("VERIF_C08_DEBUG") != "" {
				fmt.Fprintf(os.Stderr, "c08 debug: %s: %d raw bytes -> %s %q, %d out, TotalAlloc %d, live %d, %.1f ms\n",
					c.Note, len(c.Body()), o.Class, o.Err, o.N, o.Alloc, o.Live, float64(o.DurNS)/1e6)
			}
		}
	}
	// JBIG2 analogue: thousands of tiny regions composited onto a page close to the budget
	if !h.aborted {
		body := jbig2ManyRegions(e.Pick(3000, 20000), 1, 1, 38, 7000, 7000)
		c := h.one("JBIG2Decode", parm{Kind: "null"}, body, "jbig2: thousands of one-pixel regions on a large page")
		c.Tight = true
		h.chainCase(c)
	}
}
