package main

import (
	"syscall"
	"bytes"
	"crypto/md5"
	"encoding/hex"
	"encoding/json"
	"errors"
	"fmt"
	"hash"
	"io"
	"os"
	"os/exec"
	"runtime"
	"runtime/debug"
	"strings"
	"sync/atomic"
	"time"

	"seehuhn.de/go/pdf"
	"seehuhn.de/go/pdf/internal/limits"
)

// ---- case description (serialisable, so a case can be replayed in a fresh process) ----

// pval is one value of a parameter dictionary: any PDF type, any magnitude.
type pval struct {
	T string `json:"t"` // i b name real array string dict null ref
	I int64  `json:"i,omitempty"`
	B bool   `json:"b,omitempty"`
	S string `json:"s,omitempty"`
}

type kv struct {
	K string `json:"k"`
	V pval   `json:"v"`
}

// parm is one entry of /DecodeParms: a dictionary, null, or an object of a wrong type.
type parm struct {
	Kind string `json:"kind"` // dict null int name array string real bool
	D    []kv   `json:"d,omitempty"`
}

type tcase struct {
	ID     string   `json:"id"`
	Names  []string `json:"names"`          // entries of /Filter ("" = a non-name entry)
	Single bool     `json:"single"`         // /Filter is a single name (len(Names) == 1)
	Parms  []parm   `json:"parms"`          // entries of /DecodeParms
	PField string   `json:"pfield"`         // arr | none | dict | int | name
	FField string   `json:"ffield"`         // "" (as given by Names) | none | int
	Hex    string   `json:"body"`           // body bytes, hex
	Note   string   `json:"note,omitempty"` // generator label
	Tight  bool     `json:"tight,omitempty"` // body built from chosen codes: the tighter time allowance applies
	Own    bool     `json:"own,omitempty"`   // body built to cost time: runs in a process of its own, under the general allowance
	Work   int64    `json:"work,omitempty"`  // elementary operations the decoder's documented work caps admit for this body (admittedJPEG, admittedJBIG2)
	Live   bool     `json:"live,omitempty"`  // sample the live heap during the decode
	MaxOut int64    `json:"max_out,omitempty"` // the image the body declares has this many bytes: no more may be decoded
	body   []byte
}

func (c *tcase) Body() []byte {
	if c.body == nil && c.Hex != "" {
		c.body, _ = hex.DecodeString(c.Hex)
	}
	return c.body
}

func (c *tcase) setBody(b []byte) {
	c.body = b
	c.Hex = hex.EncodeToString(b)
}

func (v pval) obj() pdf.Object {
	switch v.T {
	case "i":
		return pdf.Integer(v.I)
	case "b":
		return pdf.Boolean(v.B)
	case "name":
		return pdf.Name(v.S)
	case "real":
		return pdf.Real(1e30)
	case "array":
		return pdf.Array{pdf.Integer(1)}
	case "string":
		return pdf.String("s")
	case "dict":
		return pdf.Dict{}
	case "ref":
		return pdf.NewReference(uint32(v.I), 0)
	}
	return nil
}

func (p parm) obj() pdf.Object {
	switch p.Kind {
	case "dict":
		d := pdf.Dict{}
		for _, e := range p.D {
			d[pdf.Name(e.K)] = e.V.obj()
		}
		return d
	case "int":
		return pdf.Integer(5)
	case "name":
		return pdf.Name("x")
	case "array":
		return pdf.Array{pdf.Integer(1)}
	case "string":
		return pdf.String("s")
	case "real":
		return pdf.Real(2.5)
	case "bool":
		return pdf.Boolean(true)
	}
	return nil
}

func (c *tcase) dict() pdf.Dict {
	d := pdf.Dict{}
	switch c.FField {
	case "none":
	case "int":
		d["Filter"] = pdf.Integer(1)
	default:
		if c.Single && len(c.Names) == 1 && c.Names[0] != "" {
			d["Filter"] = pdf.Name(c.Names[0])
		} else {
			a := pdf.Array{}
			for _, n := range c.Names {
				if n == "" {
					a = append(a, pdf.Integer(3))
				} else {
					a = append(a, pdf.Name(n))
				}
			}
			d["Filter"] = a
		}
	}
	switch c.PField {
	case "none":
	case "dict":
		if len(c.Parms) > 0 {
			d["DecodeParms"] = c.Parms[0].obj()
		}
	case "int":
		d["DecodeParms"] = pdf.Integer(5)
	case "name":
		d["DecodeParms"] = pdf.Name("x")
	default:
		a := pdf.Array{}
		for _, p := range c.Parms {
			a = append(a, p.obj())
		}
		d["DecodeParms"] = a
	}
	return d
}

// ---- a Getter for streams that live outside any file ----

type getter struct{}

func (getter) GetMeta() *pdf.MetaInfo { return &pdf.MetaInfo{Version: pdf.V2_0} }

// object 1 is a small JBIG2 globals stream, object 2 refers to itself through
// its own /JBIG2Globals, everything else is null
func (getter) Get(ref pdf.Reference, canObjStm bool) (pdf.Native, error) {
	switch ref.Number() {
	case 1:
		return pdf.NewStream(pdf.Dict{}, jbig2Globals), nil
	case 2:
		return pdf.NewStream(pdf.Dict{
			"Filter":      pdf.Name("JBIG2Decode"),
			"DecodeParms": pdf.Dict{"JBIG2Globals": pdf.NewReference(2, 0)},
		}, []byte{0, 0, 0, 0}), nil
	}
	return nil, nil
}

var jbig2Globals []byte

// ---- running one case on the implementation ----

type outcome struct {
	Class string `json:"class"` // ok malformed other panic timeout
	Phase string `json:"phase"` // build read close
	N     int64  `json:"n"`
	MD5   string `json:"md5"`
	Alloc uint64 `json:"alloc"`
	DurNS int64  `json:"dur_ns"`
	CPUNS int64  `json:"cpu_ns"` // CPU time (user+system) of the process during the case
	Leak  int    `json:"leak"`
	Live  uint64 `json:"live,omitempty"` // peak of the live heap above its level before the decode
	Err   string `json:"err,omitempty"`
	Stack string `json:"stack,omitempty"`
}

func (o outcome) obs() string {
	if o.Class == "ok" {
		return fmt.Sprintf("ok %d %s", o.N, o.MD5)
	}
	return o.Class
}

func classOf(err error) string {
	if err == nil {
		return "ok"
	}
	if pdf.IsMalformed(err) {
		return "malformed"
	}
	return "other"
}

type counter struct {
	h hash.Hash
	n *atomic.Int64
}

func (c counter) Write(p []byte) (int, error) {
	c.h.Write(p)
	c.n.Add(int64(len(p)))
	return len(p), nil
}

var (
	bigBuf  = make([]byte, 8<<20) // for readers that must see one large Read buffer
	copyBuf = make([]byte, 32<<10)
)

// grace period for helper goroutines to end after Close
var leakGrace = 2 * time.Second

// progress of the case that is running now, for the watchdog
var (
	curOut   atomic.Int64
	curStart atomic.Int64
)

// drain reads rd to its end.  With big set, the first Read is offered a buffer
// larger than anything the modelled decoders can produce from the bodies we
// generate for them (see the note on RunLength in coq/C08/Simple.v).
func drain(rd io.Reader, big bool) (n int64, sum string, err error) {
	h := md5.New()
	w := counter{h, &curOut}
	buf := copyBuf
	if big {
		buf = bigBuf
	}
	for {
		k, e := rd.Read(buf)
		if k > 0 {
			w.Write(buf[:k])
			n += int64(k)
		}
		if e != nil {
			if e != io.EOF {
				err = e
			}
			break
		}
	}
	return n, hex.EncodeToString(h.Sum(nil)), err
}

// settle waits (with a grace period) for the goroutine count to return to base.
func settle(base int, grace time.Duration) int {
	deadline := time.Now().Add(grace)
	for {
		n := runtime.NumGoroutine()
		if n <= base || time.Now().After(deadline) {
			return n - base
		}
		time.Sleep(2 * time.Millisecond)
	}
}

// runStream: DecodeStream + read to the end + Close, with every measurement.
func runStream(dict pdf.Dict, body []byte, big bool) (o outcome) {
	base := runtime.NumGoroutine()
	var m0, m1 runtime.MemStats
	runtime.ReadMemStats(&m0)
	curOut.Store(0)
	t0 := time.Now()
	curStart.Store(t0.UnixNano())
	defer func() {
		if r := recover(); r != nil {
			o.Class = "panic"
			o.Err = fmt.Sprint(r)
			st := string(debug.Stack())
			if len(st) > 3000 {
				st = st[:3000]
			}
			o.Stack = st
		}
		o.DurNS = time.Since(t0).Nanoseconds()
		runtime.ReadMemStats(&m1)
		o.Alloc = m1.TotalAlloc - m0.TotalAlloc
		curStart.Store(0)
		if l := settle(base, leakGrace); l > 0 {
			o.Leak = l
		}
	}()
	o.Phase = "build"
	rd, err := pdf.DecodeStream(getter{}, nil, pdf.NewStream(dict, body))
	if err != nil {
		o.Class, o.Err = classOf(err), err.Error()
		return o
	}
	o.Phase = "read"
	n, sum, err := drain(rd, big)
	o.N, o.MD5 = n, sum
	cerr := rd.Close()
	if err != nil {
		o.Class, o.Err = classOf(err), err.Error()
		return o
	}
	o.Class = "ok"
	if cerr != nil && !pdf.IsMalformed(cerr) {
		// Close may repeat a decoder's error; anything else must be classified too
		o.Phase, o.Class, o.Err = "close", "other", cerr.Error()
	}
	return o
}

// ---- watchdog ----

// allowedNS is the allowance of CPU time for a case that has consumed in bytes
// and produced out bytes so far: two orders of magnitude above what the
// unchanged tree needs (measured on the pinned tree: < 50 ms fixed, < 500 ns per byte).
func allowedNS(in, out int64) int64 {
	return (5*time.Second).Nanoseconds() + 50000*(in+out)
}

// allowFor: the allowance of a case.  Bodies the harness builds from chosen CCITT codes (and
// JBIG2 region storms) are known to decode in well under 0.1 s on the unchanged tree; for
// them the allowance is 0.75 s + 5 us per input or output byte.
//
// Progressive JPEG scan scripts are NOT among them (c.Own, general allowance): the decoder's
// own bound is maxProgPasses = 64 walks over the coefficient blocks it was allowed to
// allocate, and StreamBudget(rawLen)/bytesPerProgBlock = 32768 + 4*rawLen blocks may be
// allocated: up to 2.1 M + 256*rawLen block visits of about 0.13 us each, that is 0.3 s +
// 33 us per input byte - proportional to the input, but with a constant above the 5 us per
// byte of the tight allowance.  The scripts the harness builds need 0.3 s to 1.1 s on the
// unchanged tree (measured); under the tight allowance the slowest of them used 80% of it,
// and a slower machine raised a false alarm.  The general allowance leaves a factor of ten.
//
// Bodies the harness builds to drive a decoder up to its documented WORK cap carry c.Work,
// the number of elementary operations that cap admits for the body, and get nsPerWork for
// each of them on top: the caps have constants of their own, which the general allowance
// does not cover.  (JBIG2: workLimit = 64 Mi pixel operations + 4096 per input byte,
// whatever the output; 88 Mi operations for the 6 KB "200 Mi pixels" body need 3 to 5.5 s.
// JPEG: 64 walks over the coefficient blocks of the frame, 0.13 us per block visit.)  The
// unchanged tree needs 35 to 130 ns per operation; a decoder that does the work its cap
// should have refused needs several times the allowance (and is reported by the
// work-over-limit and pass-counter oracles whatever the time).
const nsPerWork = 500

func allowFor(c *tcase) func(in, out int64) int64 {
	if c.Tight {
		return func(in, out int64) int64 { return (750 * time.Millisecond).Nanoseconds() + 5000*(in+out) }
	}
	if w := c.Work; w > 0 {
		return func(in, out int64) int64 { return allowedNS(in, out) + nsPerWork*w }
	}
	// any other chain with a JBIG2 stage (mutated files, patched page and region sizes): what
	// the work cap admits for the bytes that stage can see - the raw bytes if it comes first,
	// else unknown before the decode, hence the hard cap
	for i, n := range c.Names {
		if n == "JBIG2Decode" {
			first := i == 0
			return func(in, out int64) int64 {
				seen := int64(1) << 40
				if first {
					seen = in
				}
				return allowedNS(in, out) + nsPerWork*admittedJBIG2(seen, 1<<62)
			}
		}
	}
	return allowedNS
}

// admittedJPEG: the block visits the progressive decoder's pass cap admits for a frame of
// w x h pixels with nComp unsampled components: maxProgPasses (64, scan.go) walks over its
// coefficient blocks, plus the visit that trips the cap.  The constant is written out here
// on purpose: an allowance read from the code under test would follow a change to it.
func admittedJPEG(w, h, nComp int) int64 {
	return 64*int64((w+7)/8)*int64((h+7)/8)*int64(nComp) + 1
}

// admittedJBIG2: the pixel operations the JBIG2 work cap (decode.go: workBudgetBase 64 Mi,
// workBudgetPerByte 4096, workBudgetHardCap 512 Mi) admits for rawLen bytes that declare
// regions of declared pixels in all.
func admittedJBIG2(rawLen int64, declared int64) int64 {
	lim := int64(512 << 20)
	if rawLen < (512<<20-64<<20)/4096 {
		lim = 64<<20 + 4096*rawLen
	}
	if declared < lim {
		return declared
	}
	return lim
}

func liveHeap() uint64 {
	runtime.GC()
	var ms runtime.MemStats
	runtime.ReadMemStats(&ms)
	return ms.HeapAlloc
}

// runCase is runStream, for c.Live with a sampler that forces a collection every 2 ms and
// records the largest heap still reachable: what the decoder really holds, whatever its own
// accounting says.
func runCase(c *tcase, big bool) outcome {
	if !c.Live {
		return runStream(c.dict(), c.Body(), big)
	}
	base := liveHeap()
	var peak atomic.Uint64
	stop, stopped := make(chan struct{}), make(chan struct{})
	go func() {
		defer close(stopped)
		for {
			select {
			case <-stop:
				return
			case <-time.After(2 * time.Millisecond):
			}
			if v := liveHeap(); v > peak.Load() {
				peak.Store(v)
			}
		}
	}()
	o := runStream(c.dict(), c.Body(), big)
	close(stop)
	<-stopped
	if p := peak.Load(); p > base {
		o.Live = p - base
	}
	return o
}

// cpuNS is the CPU time (user + system) this process has used so far.  A process that is
// descheduled because the machine is busy accumulates none, so verdicts based on it do not
// depend on the load the check runs under.
func cpuNS() int64 {
	var ru syscall.Rusage
	if syscall.Getrusage(syscall.RUSAGE_SELF, &ru) != nil {
		return 0
	}
	return ru.Utime.Nano() + ru.Stime.Nano()
}

const (
	hangWall = 90 * time.Second // no output progress for this long ...
	hangCPU  = int64(time.Second) // ... while using less CPU time than this: blocked, not slow
)

// guarded runs f under the watchdog.  The allowance ("base + per byte of input and output")
// is an allowance of CPU time of this process (the decode is the only thing running in it
// apart from the collector and, for live-heap cases, the sampler).  Wall-clock time only
// serves as a hang guard: class "hang" is reported when for hangWall nothing was produced
// AND next to no CPU time was used (a decoder that is blocked, not one that is slow or
// starved of CPU).  ok=false: a verdict was reached while f may still be running.
func guarded(in int64, allow func(in, out int64) int64, f func() outcome) (o outcome, ok bool) {
	done := make(chan outcome, 1)
	c0 := cpuNS()
	go func() { done <- f() }()
	tick := time.NewTicker(50 * time.Millisecond)
	defer tick.Stop()
	t0 := time.Now()
	lastOut, lastT, lastCPU := int64(-1), t0, c0
	for {
		select {
		case o = <-done:
			o.CPUNS = cpuNS() - c0
			if o.Class != "panic" && o.CPUNS > allow(in, o.N) {
				// finished, but not within its allowance of CPU time
				return outcome{Class: "timeout", DurNS: o.DurNS, CPUNS: o.CPUNS, N: o.N}, true
			}
			return o, true
		case <-tick.C:
			cpu := cpuNS()
			out := curOut.Load()
			if cpu-c0 > allow(in, out) {
				return outcome{Class: "timeout", DurNS: time.Since(t0).Nanoseconds(), CPUNS: cpu - c0, N: out}, false
			}
			if out != lastOut || cpu-lastCPU > hangCPU {
				lastOut, lastT, lastCPU = out, time.Now(), cpu
			} else if time.Since(lastT) > hangWall {
				return outcome{Class: "hang", DurNS: time.Since(t0).Nanoseconds(), CPUNS: cpu - c0, N: out}, false
			}
		}
	}
}

// ---- fresh-process replay of a suspected violation ----

func replayFresh(dir string, c *tcase, big bool) []outcome {
	return replayN(dir, c, big, 3)
}

// replayN runs the case n times, one fresh process after the other; each process judges
// itself by the same CPU-time allowance and ends itself.
func replayN(dir string, c *tcase, big bool, n int) []outcome {
	b, _ := json.Marshal(c)
	path := dir + "/suspect.json"
	if err := os.WriteFile(path, b, 0o644); err != nil {
		return nil
	}
	var res []outcome
	for i := 0; i < n; i++ {
		args := []string{"-replay", path}
		if big {
			args = append(args, "-big")
		}
		cmd := exec.Command(os.Args[0], args...)
		var out bytes.Buffer
		cmd.Stdout = &out
		cmd.Stderr = io.Discard
		done := make(chan error, 1)
		if err := cmd.Start(); err != nil {
			return res
		}
		go func() { done <- cmd.Wait() }()
		var o outcome
		select {
		case <-done:
			if json.Unmarshal(bytes.TrimSpace(out.Bytes()), &o) != nil {
				o = outcome{Class: "crash", Err: strings.TrimSpace(out.String())}
			}
		case <-time.After(30 * time.Minute):
			// the child judges itself; this only reaps a child that cannot even do that
			cmd.Process.Kill()
			o = outcome{Class: "crash", Err: "the replay process had to be killed"}
		}
		res = append(res, o)
	}
	return res
}

// replayMain is the entry point of the fresh process.
func replayMain(path string, big bool) {
	b, err := os.ReadFile(path)
	if err != nil {
		fmt.Println(`{"class":"crash"}`)
		return
	}
	var c tcase
	if json.Unmarshal(b, &c) != nil {
		fmt.Println(`{"class":"crash"}`)
		return
	}
	initSeeds()
	leakGrace = 3 * time.Second
	body := c.Body()
	o, _ := guarded(int64(len(body)), allowFor(&c), func() outcome { return runCase(&c, big) })
	out, _ := json.Marshal(o)
	fmt.Println(string(out))
	os.Exit(0) // also ends a goroutine that is still running
}

// batchMain is the entry point of a process that runs a list of cases (one JSON case per
// line of the file) and prints one outcome per line.  If a case kills the process - a panic
// in a goroutine the decoder started cannot be recovered from outside - the outcomes simply
// stop there, and the parent knows which case it was.
func batchMain(path string) {
	b, err := os.ReadFile(path)
	if err != nil {
		return
	}
	initSeeds()
	leakGrace = 3 * time.Second
	for _, line := range bytes.Split(b, []byte("\n")) {
		if len(bytes.TrimSpace(line)) == 0 {
			continue
		}
		var c tcase
		if json.Unmarshal(line, &c) != nil {
			fmt.Println(`{"class":"crash"}`)
			continue
		}
		body := c.Body()
		o, done := guarded(int64(len(body)), allowFor(&c), func() outcome { return runCase(&c, false) })
		out, _ := json.Marshal(o)
		fmt.Println(string(out))
		os.Stdout.Sync()
		if !done {
			os.Exit(0) // a decode is still running in this process: let the parent start a new one
		}
	}
	os.Exit(0)
}

// runBatch runs the cases in as few fresh processes as possible and returns one outcome per
// case; a case during which the process died has class "crash" and the end of the process's
// standard error as Err.
func runBatch(dir string, cases []*tcase) []outcome {
	res := make([]outcome, 0, len(cases))
	path := dir + "/batch.jsonl"
	for len(res) < len(cases) {
		var buf bytes.Buffer
		for _, c := range cases[len(res):] {
			b, _ := json.Marshal(c)
			buf.Write(b)
			buf.WriteByte('\n')
		}
		if os.WriteFile(path, buf.Bytes(), 0o644) != nil {
			break
		}
		cmd := exec.Command(os.Args[0], "-batch", path)
		var out, errb bytes.Buffer
		cmd.Stdout, cmd.Stderr = &out, &errb
		done := make(chan error, 1)
		if cmd.Start() != nil {
			break
		}
		go func() { done <- cmd.Wait() }()
		select {
		case <-done:
		case <-time.After(30 * time.Minute):
			cmd.Process.Kill()
			<-done
		}
		before := len(res)
		for _, line := range bytes.Split(out.Bytes(), []byte("\n")) {
			if len(bytes.TrimSpace(line)) == 0 || len(res) == len(cases) {
				continue
			}
			var o outcome
			if json.Unmarshal(line, &o) != nil {
				o = outcome{Class: "crash", Err: string(line)}
			}
			res = append(res, o)
		}
		if len(res) < len(cases) && (len(res) == before || !strings.Contains("timeout hang", res[len(res)-1].Class) || res[len(res)-1].Class == "") {
			// the process ended before this case was answered: it died in it
			msg := errb.String()
			if len(msg) > 1500 {
				msg = msg[:1500]
			}
			res = append(res, outcome{Class: "crash", Phase: "read", Err: strings.TrimSpace(msg)})
		}
	}
	for len(res) < len(cases) {
		res = append(res, outcome{Class: "crash", Err: "the batch could not be run"})
	}
	return res
}

// ---- bounds documented by the code ----

// ccittBound is the cap FilterCCITTFax.toParams documents: at most
// MaxImageHeight rows and MaxImagePixels pixels (never fewer than one row).
func ccittBound(cols int64) int64 {
	if cols < 1 {
		cols = 1
	}
	rows := int64(limits.MaxImagePixels) / cols
	if rows > limits.MaxImageHeight {
		rows = limits.MaxImageHeight
	}
	if rows < 1 {
		rows = 1
	}
	return rows * ((cols + 7) / 8)
}

// allocAllowance: the working memory of a decode is budgeted by
// StreamBudget(rawLen).  TotalAlloc is cumulative (it also counts garbage that
// was freed long before the peak), so it over-approximates the peak; we allow
// the budget plus a per-output-byte share for transient buffers plus a fixed
// amount for the readers' own small buffers (bufio, zlib window, pipes): 512 KiB
// and 128 KiB per stage (the unchanged tree needs less than 64 KiB per stage).
// A decoder that fails before it produces output gets no output share at all.
func allocAllowance(rawLen, out int64, stages int) uint64 {
	return uint64(limits.StreamBudget(rawLen)) + uint64(4*out) + uint64(512<<10) + uint64(128<<10)*uint64(stages)
}

var errScript = errors.New("scripted")
