package main

import (
	"fmt"

	"seehuhn.de/go/pdf/graphics/bitmap"
	"seehuhn.de/go/pdf/internal/filter/jbig2"
)

// strBits collects codes given as strings of '0' and '1'.
type strBits struct {
	b []byte
	n int
}

func (w *strBits) put(s string) {
	for _, c := range s {
		if w.n%8 == 0 {
			w.b = append(w.b, 0)
		}
		if c == '1' {
			w.b[len(w.b)-1] |= 1 << (7 - w.n%8)
		}
		w.n++
	}
}
func (w *strBits) bits(v, n int) {
	for i := n - 1; i >= 0; i-- {
		w.put(string('0' + byte(v>>i&1)))
	}
}
func (w *strBits) align() { w.n = (w.n + 7) / 8 * 8 }

func huff(table int, v int64) string {
	s, err := jbig2.VerifHuffCode(table, v, false)
	if err != nil {
		return "1111111111111111" // a value the table cannot express: hostile bits instead
	}
	return s
}

func smallSym(i int) *bitmap.Bitmap {
	bm := bitmap.New(8, 8)
	x := uint32(i)*2654435761 + 99
	for k := 0; k < 64; k++ {
		x = x*1664525 + 1013904223
		if x>>30 == 0 {
			bm.SetPixel(k%8, k/8, true)
		}
	}
	return bm
}

// huffRefDict: a Huffman-coded symbol dictionary with refinement/aggregate coding (SDHUFF,
// SDREFAGG, standard tables B4/B2/B1/B1, refinement template 1): classes[i] new symbols in the
// i-th height class; for each new symbol ninst[k] instances; a single instance names the
// symbol ID ids[k] (any value that fits the ID width) as its reference.
func huffRefDict(nIn int, classes []int, ninst []int, ids []int) []byte {
	nNew := 0
	for _, c := range classes {
		nNew += c
	}
	seg := []byte{0x10, 0x03}
	seg = append(seg, byte(nNew>>24), byte(nNew>>16), byte(nNew>>8), byte(nNew)) // exported: the new ones
	seg = append(seg, byte(nNew>>24), byte(nNew>>16), byte(nNew>>8), byte(nNew))
	var w strBits
	codeLen := jbig2.VerifSymCodeLen(nIn + nNew)
	k := 0
	for ci, c := range classes {
		dh := int64(8)
		if ci > 0 {
			dh = 1
		}
		w.put(huff(4, dh))
		for j := 0; j < c; j++ {
			dw := int64(0)
			if j == 0 {
				dw = 8
			}
			w.put(huff(2, dw))
		}
		oob, _ := jbig2.VerifHuffCode(2, 0, true)
		w.put(oob)
		for j := 0; j < c; j++ {
			ni := ninst[k%len(ninst)]
			w.put(huff(1, int64(ni)))
			if ni == 1 {
				w.bits(ids[k%len(ids)], codeLen)
				w.put(huff(15, 0))
				w.put(huff(15, 0))
				w.put(huff(1, 0)) // no refinement data: the MQ decoder reads zeros
				w.align()
			} else {
				// an inline text region of ni instances: hostile filler bits
				w.bits(0x2B5, 10)
				w.bits(ids[k%len(ids)], codeLen)
			}
			k++
		}
	}
	w.put(huff(1, int64(nIn)))  // export flags: the imported ones are not exported ...
	w.put(huff(1, int64(nNew))) // ... the new ones are
	seg = append(seg, w.b...)
	return append(seg, make([]byte, 8)...)
}

// huffPlainDict: a Huffman-coded dictionary without refinement: one uncompressed collective
// bitmap per height class (or, with lie, a size field that does not match).
func huffPlainDict(classes []int, lie int) []byte {
	nNew := 0
	for _, c := range classes {
		nNew += c
	}
	seg := []byte{0x00, 0x01}
	seg = append(seg, 0, 0, 0, byte(nNew), 0, 0, 0, byte(nNew))
	var w strBits
	for ci, c := range classes {
		dh := int64(8)
		if ci > 0 {
			dh = 1
		}
		w.put(huff(4, dh))
		for j := 0; j < c; j++ {
			dw := int64(0)
			if j == 0 {
				dw = 8
			}
			w.put(huff(2, dw))
		}
		oob, _ := jbig2.VerifHuffCode(2, 0, true)
		w.put(oob)
		w.put(huff(1, int64(lie))) // 0 = uncompressed
		w.align()
		h := 8 + ci
		for y := 0; y < h*c; y++ {
			w.bits(0xA5^y, 8)
		}
	}
	w.put(huff(1, 0))
	w.put(huff(1, int64(nNew)))
	seg = append(seg, w.b...)
	return append(seg, make([]byte, 4)...)
}

// jbig2StructCases: structurally valid but hostile symbol dictionaries in both coding modes,
// with refinement and aggregation, references to earlier / the same / later / out-of-range
// symbol IDs, several symbols per height class, imported symbols; text regions (arithmetic,
// Huffman, with refinement) and refinement regions that refer to missing or wrong segments.
// Oracle of every case: no panic, errors malformed (and the usual resource bounds).
func (h *H) jbig2StructCases() {
	e, g := h.e, h.g
	run := func(body []byte, note string) {
		if h.aborted {
			return
		}
		h.chainCase(h.one("JBIG2Decode", parm{Kind: "null"}, body, "jbig2 structure: "+note))
	}
	page := func(w, ht int) []byte { return jbig2Seg(nil, 0, 48, jbig2.WritePageInfo(nil, w, ht)) }
	end := func(s []byte, num uint32) []byte { return jbig2.WriteSegmentHeader(s, num, 49, 1, nil, 0) }

	// 1. Huffman dictionaries with refinement: every reference ID, with and without imports
	for _, nIn := range []int{0, 3} {
		for _, classes := range [][]int{{1}, {2}, {3}, {1, 2}, {2, 2}, {4}} {
			nNew := 0
			for _, c := range classes {
				nNew += c
			}
			codeLen := jbig2.VerifSymCodeLen(nIn + nNew)
			for id := 0; id < 1<<codeLen; id++ {
				for _, ninst := range [][]int{{1}, {1, 2}, {2, 1}, {3}} {
					s := page(16, 16)
					var refs []uint32
					if nIn > 0 {
						var syms []*bitmap.Bitmap
						for i := 0; i < nIn; i++ {
							syms = append(syms, smallSym(i))
						}
						s = jbig2Seg(s, 1, 0, jbig2.EncodeSymbolDictSegment(syms, 1))
						refs = []uint32{1}
					}
					d := huffRefDict(nIn, classes, ninst, []int{id, (id + 1) % (1 << codeLen)})
					s = jbig2.WriteSegmentHeader(s, 2, 0, 1, refs, uint32(len(d)))
					s = append(s, d...)
					run(end(s, 3), fmt.Sprintf("Huffman refinement dictionary, %d imported, classes %v, instances %v, reference ID %d", nIn, classes, ninst, id))
				}
			}
		}
	}
	// 2. Huffman dictionaries without refinement
	for _, classes := range [][]int{{1}, {3}, {2, 2}, {1, 1, 1}} {
		for _, lie := range []int{0, 1, 5, 200} {
			d := huffPlainDict(classes, lie)
			s := jbig2Seg(page(16, 16), 1, 0, d)
			run(end(s, 2), fmt.Sprintf("Huffman dictionary, classes %v, size field %d", classes, lie))
		}
	}
	// 3. the package's own encoders, valid output then every single-byte change near the
	//    structure-bearing fields, in both coding modes
	var syms, refsyms []*bitmap.Bitmap
	for i := 0; i < 4; i++ {
		syms = append(syms, smallSym(i))
		refsyms = append(refsyms, smallSym(i+1))
	}
	bodies := map[string][]byte{}
	if d, err := jbig2.EncodeSymbolDictSegmentHuffRef(syms, refsyms, 1); err == nil {
		// needs the reference symbols as imports
		s := jbig2Seg(page(16, 16), 1, 0, jbig2.EncodeSymbolDictSegment(refsyms, 1))
		s = jbig2.WriteSegmentHeader(s, 2, 0, 1, []uint32{1}, uint32(len(d)))
		bodies["Huffman refinement dictionary (encoder)"] = end(append(s, d...), 3)
	}
	agg := []jbig2.AggregateSymbol{{Width: 16, Height: 8, Instances: []jbig2.SymbolInstance{{SymID: 0, T: 7, S: 0, Wi: 8, Hi: 8}, {SymID: 1, T: 7, S: 8, Wi: 8, Hi: 8}}}}
	{
		d := jbig2.EncodeSymbolDictSegmentAgg(agg, len(syms))
		s := jbig2Seg(page(16, 16), 1, 0, jbig2.EncodeSymbolDictSegment(syms, 1))
		s = jbig2.WriteSegmentHeader(s, 2, 0, 1, []uint32{1}, uint32(len(d)))
		bodies["arithmetic aggregation dictionary (encoder)"] = end(append(s, d...), 3)
	}
	inst := []jbig2.SymbolInstance{{SymID: 0, T: 8, S: 0, Wi: 8, Hi: 8}, {SymID: 3, T: 8, S: 8, Wi: 8, Hi: 8}, {SymID: 1, T: 15, S: 3, Wi: 8, Hi: 8, Bitmap: smallSym(9)}}
	{
		s := jbig2Seg(page(32, 32), 1, 0, jbig2.EncodeSymbolDictSegment(syms, 1))
		tr := jbig2.EncodeTextRegionSegment(32, 32, 0, 0, inst, syms, 0, false, bitmap.CombOpOR, 1, 0, 0)
		s = jbig2.WriteSegmentHeader(s, 2, 6, 1, []uint32{1}, uint32(len(tr)))
		bodies["arithmetic text region with refinement (encoder)"] = end(append(s, tr...), 3)
		if trh, err := jbig2.EncodeTextRegionSegmentHuffman(32, 32, 0, 0, inst[:2], syms, 0, false, bitmap.CombOpOR, 1, 0, 0); err == nil {
			s2 := jbig2Seg(page(32, 32), 1, 0, jbig2.EncodeSymbolDictSegment(syms, 1))
			s2 = jbig2.WriteSegmentHeader(s2, 2, 6, 1, []uint32{1}, uint32(len(trh)))
			bodies["Huffman text region (encoder)"] = end(append(s2, trh...), 3)
		}
	}
	for _, name := range []string{"Huffman refinement dictionary (encoder)", "arithmetic aggregation dictionary (encoder)",
		"arithmetic text region with refinement (encoder)", "Huffman text region (encoder)"} {
		b, ok := bodies[name]
		if !ok {
			continue
		}
		run(b, name)
		for i := e.Pick(150, 1500); i > 0; i-- {
			m := append([]byte{}, b...)
			for k := 1 + g.intn(2); k > 0; k-- {
				p := 20 + g.intn(len(m)-20)
				if g.intn(2) == 0 {
					m[p] ^= 1 << g.intn(8)
				} else {
					m[p] = byte(g.intn(256))
				}
			}
			run(m, name+", mutated")
		}
	}
	// 4. refinement regions and text regions that refer to missing, later or wrong segments, no page
	rr := jbig2.EncodeRefinementRegionSegment(smallSym(1), smallSym(2), 0, 0, 1, bitmap.CombOpOR, false)
	tr0 := jbig2.EncodeTextRegionSegment(16, 16, 0, 0, inst[:1], syms, 0, false, bitmap.CombOpOR, 1, 0, 0)
	for _, typ := range []int{40, 42, 43} {
		for _, refs := range [][]uint32{nil, {9}, {1}, {2}, {1, 1}, {0}} {
			for _, withPage := range []bool{true, false} {
				var s []byte
				if withPage {
					s = page(16, 16)
				}
				s = jbig2Seg(s, 1, 0, jbig2.EncodeSymbolDictSegment(syms, 1))
				s = jbig2.WriteSegmentHeader(s, 2, typ, 1, refs, uint32(len(rr)))
				s = append(s, rr...)
				run(end(s, 3), fmt.Sprintf("refinement region type %d referring to %v, page present: %v", typ, refs, withPage))
				s2 := []byte{}
				if withPage {
					s2 = page(16, 16)
				}
				s2 = jbig2.WriteSegmentHeader(s2, 2, 6, 1, refs, uint32(len(tr0)))
				s2 = append(s2, tr0...)
				run(end(s2, 3), fmt.Sprintf("text region referring to %v without its dictionary, page present: %v", refs, withPage))
			}
		}
	}
}
