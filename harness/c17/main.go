// C17 harness: name and number trees.
//
// For every generated key set it writes the tree with the real
// nametree/numtree writer into a PDF file, reopens the file and
//
//  1. runs the property oracle directly on the implementation (every key is
//     found with its value, absent probes are not found, enumeration = input,
//     Size, the in-memory reader, the structural conditions on the raw node
//     dictionaries) - failing inputs go to fails.jsonl;
//  2. writes cases.txt / impl.obs for the comparison with the extracted Coq
//     model: `W` cases (model writer + model reader vs real writer + real
//     reader) and `R` cases (the raw node dictionaries found in the file, on
//     which the model's certified validator tree_ok and the model readers run).
//
// A second stream feeds hand-built, mostly-invalid trees (wrong /Limits,
// unsorted keys, missing /Limits, over-full nodes, over-deep nesting) to the
// real readers and to the model readers (R cases), so the reader model and the
// validator are tied on malformed input as well.
package main

import (
	"bytes"
	"cmp"
	"errors"
	"fmt"
	"io"
	"iter"
	"math"
	"slices"
	"sort"
	"strconv"
	"strings"
	"time"

	"seehuhn.de/go/pdf"
	"seehuhn.de/go/pdf/internal/debug/memfile"
	"seehuhn.de/go/pdf/nametree"
	"seehuhn.de/go/pdf/numtree"
	"seehuhn.de/go/pdf/verifharness/common"
)

const (
	memModelMax = 1200 // above this size the model's in-memory reader is not run (the real one is)
	fanOut      = 64   // bound of the property (PDF trees written by the library)
	maxDepth    = 256  // the readers' nesting cap
)

// ---------------------------------------------------------------- key kinds

type tree[K cmp.Ordered] interface {
	Lookup(K) (pdf.Object, error)
	All() iter.Seq2[K, pdf.Object]
}

type kind[K cmp.Ordered] struct {
	tag      string // "N" or "Z"
	leafKey  pdf.Name
	tok      func(K) string
	enc      func(K) pdf.Object
	dec      func(pdf.Getter, pdf.Object) (K, bool)
	write    func(*pdf.Writer, iter.Seq2[K, pdf.Object]) (pdf.Reference, error)
	writeMap func(*pdf.Writer, map[K]pdf.Object) (pdf.Reference, error) // may be nil
	fromFile func(pdf.Getter, pdf.Object) (tree[K], error)
	inMemory func(pdf.Getter, pdf.Object) (tree[K], error)
	size     func(pdf.Getter, pdf.Object) (int, error)
	newMem   func(map[K]pdf.Object) memTree[K] // an in-memory tree over the caller's map
	notFound error
}

// memTree is the in-memory tree as the API exposes it: a mutable value.
type memTree[K cmp.Ordered] interface {
	tree[K]
	pdf.Embedder
}

var nameKind = &kind[pdf.Name]{
	tag:     "N",
	leafKey: "Names",
	tok:     func(k pdf.Name) string { return common.Hex([]byte(k)) },
	enc:     func(k pdf.Name) pdf.Object { return pdf.String(k) },
	dec: func(r pdf.Getter, o pdf.Object) (pdf.Name, bool) {
		x, err := pdf.Resolve(r, o)
		s, ok := x.(pdf.String)
		return pdf.Name(s), err == nil && ok
	},
	write:    nametree.Write,
	writeMap: nametree.WriteMap,
	fromFile: func(r pdf.Getter, o pdf.Object) (tree[pdf.Name], error) {
		t, err := nametree.ExtractFromFile(r, o)
		if t == nil {
			return nil, err
		}
		return t, err
	},
	inMemory: func(r pdf.Getter, o pdf.Object) (tree[pdf.Name], error) {
		t, err := nametree.ExtractInMemory(r, o)
		if t == nil {
			return nil, err
		}
		return t, err
	},
	size:     nametree.Size,
	newMem:   func(m map[pdf.Name]pdf.Object) memTree[pdf.Name] { return &nametree.InMemory{Data: m} },
	notFound: nametree.ErrKeyNotFound,
}

var numKind = &kind[pdf.Integer]{
	tag:     "Z",
	leafKey: "Nums",
	tok:     func(k pdf.Integer) string { return strconv.FormatInt(int64(k), 10) },
	enc:     func(k pdf.Integer) pdf.Object { return k },
	dec: func(r pdf.Getter, o pdf.Object) (pdf.Integer, bool) {
		x, err := pdf.Resolve(r, o)
		i, ok := x.(pdf.Integer)
		return i, err == nil && ok
	},
	write: numtree.Write,
	fromFile: func(r pdf.Getter, o pdf.Object) (tree[pdf.Integer], error) {
		t, err := numtree.ExtractFromFile(r, o)
		if t == nil {
			return nil, err
		}
		return t, err
	},
	inMemory: func(r pdf.Getter, o pdf.Object) (tree[pdf.Integer], error) {
		t, err := numtree.ExtractInMemory(r, o)
		if t == nil {
			return nil, err
		}
		return t, err
	},
	size:     numtree.Size,
	newMem:   func(m map[pdf.Integer]pdf.Object) memTree[pdf.Integer] { return &numtree.InMemory{Data: m} },
	notFound: numtree.ErrKeyNotFound,
}

// ------------------------------------------------- trees as the readers see them

func getDict(r pdf.Getter, o pdf.Object) (pdf.Dict, error) {
	x, err := pdf.Resolve(r, o)
	if err != nil {
		return nil, err
	}
	d, ok := x.(pdf.Dict)
	if !ok {
		return nil, errors.New("not a dictionary")
	}
	return d, nil
}

func getArray(r pdf.Getter, o pdf.Object) (pdf.Array, error) {
	x, err := pdf.Resolve(r, o)
	if err != nil {
		return nil, err
	}
	a, ok := x.(pdf.Array)
	if !ok {
		return nil, errors.New("not an array")
	}
	return a, nil
}

func getInteger(r pdf.Getter, o pdf.Object) (pdf.Integer, error) {
	x, err := pdf.Resolve(r, o)
	if err != nil {
		return 0, err
	}
	i, ok := x.(pdf.Integer)
	if !ok {
		return 0, errors.New("not an integer")
	}
	return i, nil
}

type tnode[K cmp.Ordered] struct {
	leaf    bool
	lim     *[2]K
	keys    []K
	vals    []int64
	kids    []*tnode[K]
	hasLim  bool // a /Limits entry is present in the dictionary (whatever its form)
	badForm bool // neither or both of leaf key and /Kids, or a shared/cyclic reference
}

// readRaw reads the node dictionaries of a tree from the file.
func readRaw[K cmp.Ordered](kd *kind[K], r pdf.Getter, obj pdf.Object, seen map[pdf.Reference]bool, depth int) *tnode[K] {
	n := &tnode[K]{}
	if ref, ok := obj.(pdf.Reference); ok {
		if seen[ref] {
			n.badForm = true
			n.leaf = true
			return n
		}
		seen[ref] = true
	}
	d, err := getDict(r, obj)
	if err != nil || d == nil || depth > maxDepth+8 {
		n.badForm = true
		n.leaf = true
		return n
	}
	if l, ok := d["Limits"]; ok {
		n.hasLim = true
		arr, err := getArray(r, l)
		if err == nil && len(arr) == 2 {
			lo, ok1 := kd.dec(r, arr[0])
			hi, ok2 := kd.dec(r, arr[1])
			if ok1 && ok2 {
				n.lim = &[2]K{lo, hi}
			}
		}
	}
	_, hasLeaf := d[kd.leafKey]
	_, hasKids := d["Kids"]
	if hasLeaf == hasKids {
		n.badForm = true
	}
	if hasLeaf {
		n.leaf = true
		arr, _ := getArray(r, d[kd.leafKey])
		for i := 0; i+1 < len(arr); i += 2 {
			k, ok := kd.dec(r, arr[i])
			if !ok {
				n.badForm = true
				continue
			}
			v, err := getInteger(r, arr[i+1])
			if err != nil {
				n.badForm = true
			}
			n.keys = append(n.keys, k)
			n.vals = append(n.vals, int64(v))
		}
		if len(arr)%2 != 0 {
			n.badForm = true
		}
		return n
	}
	arr, _ := getArray(r, d["Kids"])
	for _, kid := range arr {
		n.kids = append(n.kids, readRaw(kd, r, kid, seen, depth+1))
	}
	return n
}

func (n *tnode[K]) flat(keys *[]K, vals *[]int64) {
	if n.leaf {
		*keys = append(*keys, n.keys...)
		*vals = append(*vals, n.vals...)
		return
	}
	for _, c := range n.kids {
		c.flat(keys, vals)
	}
}

func (n *tnode[K]) height() int {
	h := 0
	for _, c := range n.kids {
		h = max(h, c.height())
	}
	return h + 1
}

func (n *tnode[K]) fan() int {
	if n.leaf {
		return len(n.keys)
	}
	return len(n.kids)
}

// structure is the Go statement of the structural half of the property; it
// returns the first violated condition ("" = valid).
func structure[K cmp.Ordered](root *tnode[K]) string {
	if root.hasLim {
		return "structure:root-has-limits"
	}
	var ks []K
	var vs []int64
	root.flat(&ks, &vs)
	for i := 1; i < len(ks); i++ {
		if !(ks[i-1] < ks[i]) {
			return "structure:keys-not-sorted"
		}
	}
	if root.height() > maxDepth {
		return "structure:too-deep"
	}
	var rec func(n *tnode[K], isRoot bool) string
	rec = func(n *tnode[K], isRoot bool) string {
		if n.badForm {
			return "structure:node-form"
		}
		if n.fan() > fanOut {
			return "structure:fan-out"
		}
		if !isRoot {
			var ks []K
			var vs []int64
			n.flat(&ks, &vs)
			if len(ks) == 0 {
				return "structure:empty-node"
			}
			if n.lim == nil || n.lim[0] != ks[0] || n.lim[1] != ks[len(ks)-1] {
				return "structure:limits"
			}
		}
		for _, c := range n.kids {
			if s := rec(c, false); s != "" {
				return s
			}
		}
		return ""
	}
	return rec(root, true)
}

func (n *tnode[K]) wire(kd *kind[K], sb *strings.Builder) {
	if n.leaf {
		sb.WriteString("L ")
	} else {
		sb.WriteString("I ")
	}
	if n.lim == nil {
		sb.WriteString("n ")
	} else {
		fmt.Fprintf(sb, "l %s %s ", kd.tok(n.lim[0]), kd.tok(n.lim[1]))
	}
	fmt.Fprintf(sb, "%d ", n.fan())
	if n.leaf {
		for i, k := range n.keys {
			fmt.Fprintf(sb, "%s %d ", kd.tok(k), n.vals[i])
		}
		return
	}
	for _, c := range n.kids {
		c.wire(kd, sb)
	}
}

func (n *tnode[K]) shape() string {
	if n.leaf {
		return strconv.Itoa(len(n.keys))
	}
	// run-length summary of the kids' shapes
	var parts []string
	prev, cnt := "", 0
	for _, c := range n.kids {
		s := c.shape()
		if s == prev {
			cnt++
			continue
		}
		if cnt > 0 {
			parts = append(parts, fmt.Sprintf("%dx%s", cnt, prev))
		}
		prev, cnt = s, 1
	}
	if cnt > 0 {
		parts = append(parts, fmt.Sprintf("%dx%s", cnt, prev))
	}
	return "(" + strings.Join(parts, " ") + ")"
}

// put writes a hand-built tree into the file, as indirect node dictionaries.
func (n *tnode[K]) put(kd *kind[K], w *pdf.Writer) pdf.Reference {
	d := pdf.Dict{}
	if n.lim != nil {
		d["Limits"] = pdf.Array{kd.enc(n.lim[0]), kd.enc(n.lim[1])}
	}
	if n.leaf {
		arr := pdf.Array{}
		for i, k := range n.keys {
			arr = append(arr, kd.enc(k), pdf.Integer(n.vals[i]))
		}
		d[kd.leafKey] = arr
	} else {
		arr := pdf.Array{}
		for _, c := range n.kids {
			arr = append(arr, c.put(kd, w))
		}
		d["Kids"] = arr
	}
	ref := w.Alloc()
	if err := w.Put(ref, d); err != nil {
		panic(err)
	}
	return ref
}

// ------------------------------------------------------------ file plumbing

// wcfg is a configuration in which a caller can write a tree.
type wcfg struct {
	ver        pdf.Version
	human      bool // WriterOptions.HumanReadable (no object streams, no xref streams)
	seekable   bool // output implements io.Seeker
	openStream bool // the tree is written while a stream is open on the same Writer: Put defers the objects
	second     bool // a second tree is written from inside the iterator of the first (after it, for WriteMap)
}

func (c wcfg) String() string {
	return fmt.Sprintf("version=%s human=%v seekable=%v stream-open=%v second-tree=%v", c.ver, c.human, c.seekable, c.openStream, c.second)
}

var cfgs = []wcfg{
	{ver: pdf.V2_0},
	{ver: pdf.V1_7, openStream: true},
	{ver: pdf.V1_4, human: true},
	{ver: pdf.V2_0, seekable: true, second: true},
	{ver: pdf.V1_7, human: true, openStream: true, second: true},
	{ver: pdf.V1_4, seekable: true, openStream: true},
	{ver: pdf.V1_7, seekable: true},
	{ver: pdf.V2_0, human: true, seekable: true, openStream: true, second: true},
}

type sink struct {
	buf *bytes.Buffer
	mem *memfile.MemFile
}

func (s *sink) bytes() []byte {
	if s.mem != nil {
		return s.mem.Data
	}
	return s.buf.Bytes()
}

func newWriterCfg(c wcfg) (*pdf.Writer, *sink) {
	s := &sink{}
	var out io.Writer
	if c.seekable {
		s.mem = memfile.New()
		out = s.mem
	} else {
		s.buf = &bytes.Buffer{}
		out = s.buf
	}
	var opt *pdf.WriterOptions
	if c.human {
		opt = &pdf.WriterOptions{HumanReadable: true}
	}
	w, err := pdf.NewWriter(out, c.ver, opt)
	if err != nil {
		panic(err)
	}
	return w, s
}

func newWriter() (*pdf.Writer, *sink) { return newWriterCfg(cfgs[0]) }

func closeAndReopen(w *pdf.Writer, s *sink) *pdf.Reader {
	pages := w.Alloc()
	w.GetMeta().Catalog.Pages = pages
	if err := w.Put(pages, pdf.Dict{"Type": pdf.Name("Pages"), "Kids": pdf.Array{}, "Count": pdf.Integer(0)}); err != nil {
		panic(err)
	}
	if err := w.Close(); err != nil {
		panic(err)
	}
	data := s.bytes()
	r, err := pdf.NewReader(bytes.NewReader(data), int64(len(data)), nil)
	if err != nil {
		panic(err)
	}
	return r
}

func hashStr(h uint64, s string) uint64 {
	for i := 0; i < len(s); i++ {
		h = (h*31 + uint64(s[i])) & 0xFFFFFFFFFF
	}
	return h
}

type runner[K cmp.Ordered] struct {
	e    *common.Env
	kd   *kind[K]
	id   *int
	ncfg int

	unbounded bool
}

func (t *runner[K]) nextCfg() wcfg {
	t.ncfg++
	return cfgs[t.ncfg%len(cfgs)]
}

func (t *runner[K]) nextID() string {
	*t.id++
	return fmt.Sprintf("c%d", *t.id)
}

func safe[T any](f func() T) (res T, perr string) {
	defer func() {
		if r := recover(); r != nil {
			perr = fmt.Sprint(r)
		}
	}()
	return f(), ""
}

// observe runs the real readers on the tree at root and returns the observation
// fields shared with the model: size, enum, look, and (withMem) mem, memlook.
func (t *runner[K]) observe(r *pdf.Reader, root pdf.Object, probes []K, withMem bool) (size int, enum uint64, look string, mem uint64, memlook string, all []K, allv []int64) {
	kd := t.kd
	ff, _ := kd.fromFile(r, root)
	enum = 7
	if ff != nil {
		for k, v := range ff.All() {
			vi, _ := v.(pdf.Integer)
			all = append(all, k)
			allv = append(allv, int64(vi))
			enum = hashStr(hashStr(hashStr(hashStr(enum, kd.tok(k)), ":"), strconv.FormatInt(int64(vi), 10)), ";")
		}
	}
	size = len(all)
	show := func(tr tree[K], k K) string {
		if tr == nil {
			return "-"
		}
		v, err := tr.Lookup(k)
		switch {
		case err == nil:
			vi, ok := v.(pdf.Integer)
			if !ok {
				return "?"
			}
			return strconv.FormatInt(int64(vi), 10)
		case errors.Is(err, kd.notFound):
			return "-"
		case pdf.IsMalformed(err):
			return "E"
		default:
			return "X"
		}
	}
	var ls []string
	for _, p := range probes {
		ls = append(ls, show(ff, p))
	}
	look = strings.Join(ls, ",")
	if withMem {
		im, _ := kd.inMemory(r, root)
		mem = 7
		if im != nil {
			for k, v := range im.All() {
				vi, _ := v.(pdf.Integer)
				mem = hashStr(hashStr(hashStr(hashStr(mem, kd.tok(k)), ":"), strconv.FormatInt(int64(vi), 10)), ";")
			}
		}
		var ms []string
		for _, p := range probes {
			ms = append(ms, show(im, p))
		}
		memlook = strings.Join(ms, ",")
	}
	return
}

func (t *runner[K]) keysWire(ks []K) string {
	var sb strings.Builder
	fmt.Fprintf(&sb, "%d", len(ks))
	for _, k := range ks {
		sb.WriteByte(' ')
		sb.WriteString(t.kd.tok(k))
	}
	return sb.String()
}

func short(s string) string {
	if len(s) > 400 {
		return s[:400] + "..."
	}
	return s
}

// testWrite: the entries (keys[i], i) given in this order to the real writer,
// in the given writer configuration.  If the keys are strictly increasing the
// tree must be faithful, otherwise the writer must refuse.
func (t *runner[K]) testWrite(keys []K, probes []K, useMap bool, class string, cfg wcfg) {
	e, kd := t.e, t.kd
	isSorted := true
	for i := 1; i < len(keys); i++ {
		if !(keys[i-1] < keys[i]) {
			isSorted = false
		}
	}
	cs := map[string]any{"kind": kd.tag, "n": len(keys), "keys": short(t.keysWire(keys)),
		"api": map[bool]string{false: "Write", true: "WriteMap"}[useMap], "config": cfg.String()}
	e.Dist["config:"+cfg.String()]++
	w, snk := newWriterCfg(cfg)
	type wres struct {
		ref, ref2 pdf.Reference
		err, err2 error
		did2      bool
	}
	seq := func(yield func(K, pdf.Object) bool) {
		for i, k := range keys {
			if !yield(k, pdf.Integer(i)) {
				return
			}
		}
	}
	res, perr := safe(func() wres {
		var res wres
		var stm io.WriteCloser
		if cfg.openStream {
			var err error
			stm, err = w.OpenStream(w.Alloc(), nil)
			if err != nil {
				panic(err)
			}
			if _, err := stm.Write([]byte("q Q\n")); err != nil {
				panic(err)
			}
		}
		if useMap {
			m := map[K]pdf.Object{}
			for i, k := range keys {
				m[k] = pdf.Integer(i)
			}
			res.ref, res.err = kd.writeMap(w, m)
			if cfg.second {
				res.ref2, res.err2 = kd.writeMap(w, m)
				res.did2 = true
			}
		} else {
			res.ref, res.err = kd.write(w, func(yield func(K, pdf.Object) bool) {
				for i, k := range keys {
					if cfg.second && i == len(keys)/2 {
						// a second tree, written in the middle of the first
						res.ref2, res.err2 = kd.write(w, seq)
						res.did2 = true
					}
					if !yield(k, pdf.Integer(i)) {
						return
					}
				}
			})
		}
		if stm != nil {
			if err := stm.Close(); err != nil {
				panic(err)
			}
		}
		return res
	})
	id := t.nextID()
	e.Line("cases.txt", "%s W %s %s %s", id, kd.tag, t.keysWire(keys), t.keysWire(probes))
	e.Count(len(keys) > 1, kd.tag+t.keysWire(keys)+cfg.String(), class)
	if perr != "" {
		e.Fail("write-panic", "the tree writer panics: "+perr, cs)
		e.Line("impl.obs", "%s panic", id)
		return
	}
	if !isSorted {
		if res.err == nil {
			e.Fail("unsorted-accepted", "keys not strictly increasing are accepted by Write", cs)
			e.Line("impl.obs", "%s accepted", id)
		} else {
			e.Line("impl.obs", "%s err", id)
		}
		return
	}
	if res.err != nil {
		e.Fail("sorted-rejected", "strictly increasing keys are rejected: "+res.err.Error(), cs)
		e.Line("impl.obs", "%s err", id)
		return
	}
	if len(keys) == 0 {
		if res.ref != 0 {
			e.Fail("empty-tree", "an empty map yields a tree object", cs)
			e.Line("impl.obs", "%s ok", id)
		} else {
			e.Line("impl.obs", "%s none", id)
		}
		return
	}
	if res.ref == 0 {
		e.Fail("no-root", "a non-empty map yields the null reference", cs)
		e.Line("impl.obs", "%s none", id)
		return
	}
	r := closeAndReopen(w, snk)
	t.verify(id, r, res.ref, keys, probes, cs, class)
	if res.did2 {
		// the second tree holds the same entries and must be as good as the first
		id2 := t.nextID()
		e.Line("cases.txt", "%s W %s %s %s", id2, kd.tag, t.keysWire(keys), t.keysWire(probes))
		e.Count(len(keys) > 1, kd.tag+t.keysWire(keys)+cfg.String()+"/second", class+"/second-tree")
		cs2 := map[string]any{"tree": "second"}
		for k, v := range cs {
			cs2[k] = v
		}
		if res.err2 != nil || res.ref2 == 0 {
			e.Fail("sorted-rejected", "the second tree is not written", cs2)
			e.Line("impl.obs", "%s err", id2)
			return
		}
		t.verify(id2, r, res.ref2, keys, probes, cs2, class)
	}
}

// verify: the tree at ref in the reopened file against the entries (keys[i], i).
func (t *runner[K]) verify(id string, r *pdf.Reader, ref pdf.Reference, keys []K, probes []K, cs map[string]any, class string) {
	e, kd := t.e, t.kd
	root := pdf.Object(ref)

	raw := readRaw(kd, r, root, map[pdf.Reference]bool{}, 0)
	verdict := structure(raw)
	if verdict != "" {
		cs["shape"] = raw.shape()
		e.Fail(verdict, "the written tree violates a structural condition ("+verdict+")", cs)
	}
	e.Dist["height-"+strconv.Itoa(raw.height())]++

	size, enum, look, mem, memlook, all, allv := t.observe(r, root, probes, true)
	valid := 0
	if verdict == "" {
		valid = 1
	}
	e.Line("impl.obs", "%s ok size=%d valid=%d enum=%d look=%s", id, size, valid, enum, look)
	e.Sample(6, fmt.Sprintf("%s tree of %d keys (%s; %v): shape %s, %d probes", kd.tag, len(keys), class, cs["config"], raw.shape(), len(probes)))

	// the raw dictionaries, for the model's validator and readers
	var sb strings.Builder
	raw.wire(kd, &sb)
	id2 := id + ".raw"
	if len(keys) <= memModelMax {
		e.Line("cases.txt", "%s R %s %s%s", id2, kd.tag, sb.String(), t.keysWire(probes))
		e.Line("impl.obs", "%s raw size=%d valid=%d enum=%d look=%s mem=%d memlook=%s", id2, size, valid, enum, look, mem, memlook)
	} else {
		// the model's in-memory map is an association list (quadratic): readers only
		e.Line("cases.txt", "%s r %s %s%s", id2, kd.tag, sb.String(), t.keysWire(probes))
		e.Line("impl.obs", "%s raw size=%d valid=%d enum=%d look=%s", id2, size, valid, enum, look)
	}

	// --- the sequences the readers return are values: abandon a pass, look keys up in
	// between, range again over the same value - every pass is the whole enumeration
	for which, mk := range map[string]func(pdf.Getter, pdf.Object) (tree[K], error){"FromFile": kd.fromFile, "InMemory": kd.inMemory} {
		tr, _ := mk(r, root)
		if tr == nil {
			continue
		}
		seq := tr.All()
		pass := func(s iter.Seq2[K, pdf.Object], stopAfter int) (uint64, int) {
			h, i := uint64(7), 0
			for k, v := range s {
				if i == stopAfter {
					break
				}
				if i == 1 && len(probes) > 0 {
					tr.Lookup(probes[0])
				}
				vi, _ := v.(pdf.Integer)
				h = hashStr(hashStr(hashStr(hashStr(h, kd.tok(k)), ":"), strconv.FormatInt(int64(vi), 10)), ";")
				i++
			}
			return h, i
		}
		h1, n1 := enum, size
		if len(keys) <= 1000 {
			h1, n1 = pass(seq, -1)
		}
		pass(seq, len(keys)/2)
		h2, n2 := pass(seq, -1)
		h3, n3, h4, n4 := h1, n1, h1, n1
		if len(keys) <= 1000 {
			pass(seq, 1)
			h3, n3 = pass(seq, -1)
			h4, n4 = pass(tr.All(), -1)
		}
		if h1 != enum || n1 != size || h2 != h1 || n2 != n1 || h3 != h1 || n3 != n1 || h4 != h1 || n4 != n1 {
			c2 := map[string]any{"reader": which, "passes": []int{n1, n2, n3, n4}}
			for k, v := range cs {
				c2[k] = v
			}
			e.Fail("iterator-reuse", which+".All: ranging again over the same sequence (after an abandoned pass, with Lookup in between) does not give the whole enumeration", c2)
		}
	}

	// --- the property, directly on the implementation
	if len(all) != len(keys) || !slices.Equal(all, keys) {
		e.Fail("enumeration", "All() does not enumerate the stored entries once, in ascending key order", cs)
	} else {
		for i, v := range allv {
			if v != int64(i) {
				e.Fail("enumeration", "All() yields a wrong value", cs)
				break
			}
		}
	}
	if sz, err := kd.size(r, root); err != nil || sz != len(keys) {
		e.Fail("size", fmt.Sprintf("Size = %d for %d entries", sz, len(keys)), cs)
	}
	pos := map[K]int{}
	for i, k := range keys {
		pos[k] = i
	}
	lf := strings.Split(look, ",")
	mf := strings.Split(memlook, ",")
	for i, p := range probes {
		want := "-"
		if j, ok := pos[p]; ok {
			want = strconv.Itoa(j)
		}
		if lf[i] != want {
			c2 := map[string]any{"probe": kd.tok(p), "got": lf[i], "want": want}
			for k, v := range cs {
				c2[k] = v
			}
			sig := "lookup-present"
			if want == "-" {
				sig = "lookup-absent"
			}
			e.Fail(sig, "Lookup on the written tree returns "+lf[i]+" where "+want+" is stored", c2)
			break
		}
		if mf[i] != want {
			e.Fail("inmemory-lookup", "ExtractInMemory(...).Lookup returns "+mf[i]+" where "+want+" is stored", cs)
			break
		}
	}
	if mem != enum {
		e.Fail("readers-disagree", "in-memory and streaming enumerations differ", cs)
	}
}

// ------------------------------------------------------------- generators

var alphabet = []byte{0, 1, 0x28, 0x29, 0x5c, 0x7f, 0x80, 0xff, 'a', 'b'}

func (t *runner[K]) randName() pdf.Name {
	e := t.e
	l := e.Rand.IntN(5)
	b := make([]byte, l)
	for i := range b {
		if e.Rand.IntN(4) == 0 {
			b[i] = byte(e.Rand.IntN(256))
		} else {
			b[i] = alphabet[e.Rand.IntN(len(alphabet))]
		}
	}
	if e.Rand.IntN(3) == 0 {
		b = append(b, []byte(strconv.Itoa(e.Rand.IntN(100000)))...)
	}
	return pdf.Name(b)
}

func nameSet(t *runner[pdf.Name], n int, style int) []pdf.Name {
	e := t.e
	set := map[pdf.Name]bool{}
	switch style {
	case 0: // arbitrary bytes, incl. the empty name and prefixes of each other
		if n > 0 && e.Rand.IntN(2) == 0 {
			set[""] = true
		}
		for len(set) < n {
			k := t.randName()
			set[k] = true
			if len(set) < n && e.Rand.IntN(4) == 0 && len(k) > 0 {
				set[k[:e.Rand.IntN(len(k))]] = true // a prefix
			}
			if len(set) < n && e.Rand.IntN(4) == 0 {
				set[k+pdf.Name([]byte{byte(e.Rand.IntN(2) * 255)})] = true // an extension by 00 or FF
			}
		}
	case 1: // key%04d as in the test suite
		for i := 0; len(set) < n; i++ {
			set[pdf.Name(fmt.Sprintf("key%04d", i))] = true
		}
	case 3: // one long common prefix (of 00s, of FFs, or arbitrary), then all strings over {00,FF}, shortest first
		pl := []int{1, 2, 31, 32, 127, 128, 255, 256, 300}[e.Rand.IntN(9)]
		if n > 100 && pl > 32 {
			pl = 32 // the long prefixes are for the small sets: the model works on lists of bytes
		}
		pre := make([]byte, pl)
		switch e.Rand.IntN(3) {
		case 0:
		case 1:
			for i := range pre {
				pre[i] = 0xff
			}
		default:
			for i := range pre {
				pre[i] = byte(e.Rand.IntN(256))
			}
		}
		if n > 1 && e.Rand.IntN(2) == 0 {
			set[""] = true
		}
		for l := 0; len(set) < n; l++ {
			for x := 0; x < 1<<l && len(set) < n; x++ {
				b := append([]byte{}, pre...)
				for i := 0; i < l; i++ {
					if x>>i&1 == 1 {
						b = append(b, 0xff)
					} else {
						b = append(b, 0)
					}
				}
				set[pdf.Name(b)] = true
			}
		}
	case 4: // neighbours: k, k+00, k+FF, k with its last byte replaced by 00 / FF, for random k
		if n > 0 && e.Rand.IntN(2) == 0 {
			set[""] = true
		}
		for len(set) < n {
			k := t.randName()
			cand := []pdf.Name{k, k + "\x00", k + "\xff"}
			if len(k) > 0 {
				cand = append(cand, k[:len(k)-1]+"\x00", k[:len(k)-1]+"\xff", k[:len(k)-1])
			}
			for _, c := range cand {
				if len(set) < n {
					set[c] = true
				}
			}
		}
	default: // all strings over a two-letter alphabet {00,FF}, shortest first
		for l := 0; len(set) < n; l++ {
			for x := 0; x < 1<<l && len(set) < n; x++ {
				b := make([]byte, l)
				for i := range b {
					if x>>i&1 == 1 {
						b[i] = 0xff
					}
				}
				set[pdf.Name(b)] = true
			}
		}
	}
	ks := make([]pdf.Name, 0, n)
	for k := range set {
		ks = append(ks, k)
	}
	sort.Slice(ks, func(i, j int) bool { return ks[i] < ks[j] })
	return ks
}

func nameProbes(t *runner[pdf.Name], keys []pdf.Name, nPresent, nAbsent int) []pdf.Name {
	e := t.e
	var ps []pdf.Name
	n := len(keys)
	if n <= nPresent {
		ps = append(ps, keys...)
	} else {
		ps = append(ps, keys[0], keys[n-1])
		for _, b := range []int{63, 64, 65, 127, 128, 4031, 4032, 4095, 4096, 4097} {
			if b < n {
				ps = append(ps, keys[b])
			}
		}
		for len(ps) < nPresent {
			ps = append(ps, keys[e.Rand.IntN(n)])
		}
	}
	// absent: below the minimum, above the maximum, between neighbours
	if n > 0 {
		if keys[0] != "" {
			ps = append(ps, "", keys[0][:len(keys[0])-1])
		}
		ps = append(ps, keys[n-1]+"\x00", keys[n-1]+"\xff", "\xff\xff\xff\xff\xff\xff\xff")
	} else {
		ps = append(ps, "", "a")
	}
	for i := 0; i < nAbsent && n > 0; i++ {
		k := keys[e.Rand.IntN(n)]
		var p pdf.Name
		switch e.Rand.IntN(4) {
		case 0:
			p = k + "\x00" // immediate successor
		case 1:
			p = k + pdf.Name([]byte{byte(e.Rand.IntN(256))})
		case 2:
			if len(k) > 0 {
				p = k[:len(k)-1] // prefix
			} else {
				p = "\x00"
			}
		default:
			p = t.randName()
		}
		ps = append(ps, p)
	}
	return ps
}

func intSet(t *runner[pdf.Integer], n int, style int) []pdf.Integer {
	e := t.e
	set := map[pdf.Integer]bool{}
	switch style {
	case 0: // extremes and random 64-bit values
		for _, x := range []pdf.Integer{math.MinInt64, math.MinInt64 + 1, -1, 0, 1, math.MaxInt64 - 1, math.MaxInt64} {
			if len(set) < n {
				set[x] = true
			}
		}
		for len(set) < n {
			set[pdf.Integer(e.Rand.Uint64())] = true
		}
	case 1: // dense around zero
		for i := 0; len(set) < n; i++ {
			set[pdf.Integer(i-n/2)] = true
		}
	case 3: // two runs of neighbours separated by ONE gap of extreme size, at a random or boundary position
		if n < 2 {
			for _, x := range []pdf.Integer{math.MaxInt64, math.MinInt64, 0}[:1+e.Rand.IntN(3)] {
				if len(set) < n {
					set[x] = true
				}
			}
			break
		}
		pos := []int{1, n - 1, n / 2, 63, 64, 65, 128, 4032, 4096, 1 + e.Rand.IntN(n-1)}
		sp := pos[e.Rand.IntN(len(pos))]
		if sp < 1 || sp > n-1 {
			sp = 1 + e.Rand.IntN(n-1)
		}
		return gapSet(n, sp, bigGaps[e.Rand.IntN(len(bigGaps))], e.Rand.IntN(3))
	case 4: // every step drawn from the gaps around 2^31 and 2^32; starts at MinInt64, around zero, or ends at MaxInt64
		steps := make([]uint64, n)
		var sum uint64
		for i := 1; i < n; i++ {
			steps[i] = smallGaps[e.Rand.IntN(len(smallGaps))]
			sum += steps[i]
		}
		var x uint64 // offset from MinInt64
		switch e.Rand.IntN(3) {
		case 0:
		case 1:
			x = 1<<63 - sum/2
		default:
			x = math.MaxUint64 - sum
		}
		for i := 0; i < n; i++ {
			x += steps[i]
			set[pdf.Integer(int64(x ^ (1 << 63)))] = true
		}
	default: // sparse with gaps
		x := pdf.Integer(-int64(e.Rand.IntN(3 * (n + 1))))
		for len(set) < n {
			set[x] = true
			x += pdf.Integer(1 + e.Rand.IntN(3))
		}
	}
	ks := make([]pdf.Integer, 0, n)
	for k := range set {
		ks = append(ks, k)
	}
	sort.Slice(ks, func(i, j int) bool { return ks[i] < ks[j] })
	return ks
}

const nStyles = 5

// gaps between consecutive integer keys
var bigGaps = []uint64{1<<31 - 1, 1 << 31, 1<<31 + 1, 1<<32 - 1, 1 << 32, 1<<32 + 1, 1 << 62, 1<<63 - 1, 1 << 63, 1<<63 + 1, math.MaxUint64}
var smallGaps = []uint64{1, 1, 2, 1<<31 - 1, 1 << 31, 1<<31 + 1, 1<<32 - 1, 1 << 32, 1<<32 + 1, 1 << 33}

// gapSet: n ascending integers, keys sp-1 and sp differ by gap (made smaller if 2^64 has no room for
// it), all other neighbours differ by 1; where = 0: the set starts at MinInt64, 1: it ends at
// MaxInt64, 2: in the middle of the room there is
func gapSet(n, sp int, gap uint64, where int) []pdf.Integer {
	room := math.MaxUint64 - uint64(n-2) // largest possible gap
	if gap > room {
		gap = room
	}
	slack := room - gap
	var x uint64 // offset of the first key from MinInt64
	switch where {
	case 0:
	case 1:
		x = slack
	default:
		x = slack / 2
	}
	ks := make([]pdf.Integer, 0, n)
	for i := 0; i < n; i++ {
		if i == sp {
			x += gap - 1
		}
		ks = append(ks, pdf.Integer(int64(x^(1<<63))))
		x++
	}
	return ks
}

// intCorpus: sets with keys at the ends of int64 and with neighbours at every extreme distance;
// grid = every gap size at the first, an inner and the last position of a leaf and of an
// intermediate node (so that the two keys are also the /Limits of neighbouring nodes)
func intCorpus(thorough bool) (small, grid [][]pdf.Integer) {
	const lo, hi = math.MinInt64, math.MaxInt64
	small = [][]pdf.Integer{
		{lo}, {hi}, {-1, hi}, {lo, 0}, {lo, hi}, {lo, -1, hi}, {lo, 0, hi}, {lo, lo + 1}, {hi - 1, hi},
		{lo + 1, -1, 0, 1, hi}, {lo, lo + 1, -1, 0, 1, hi - 1, hi}, {-1 << 31, 1<<31 - 1}, {-1<<31 - 1, 1 << 31}, {-1 << 32, 1 << 32},
		{0, 1 << 31}, {0, 1 << 32}, {-1 << 62, 1 << 62}, {-1<<62 - 1, 1 << 62}, {-1 << 62, 1<<62 + 1},
	}
	shapes := [][2]int{{2, 1}, {3, 1}, {3, 2}, {64, 63}, {65, 64}, {128, 64}, {129, 64}, {129, 128}, {130, 65}, {200, 127}}
	bigShapes := [][2]int{{4033, 4032}, {4097, 4096}, {4161, 4096}}
	if thorough {
		bigShapes = append(bigShapes, [2]int{4097, 64}, [2]int{4097, 4032}, [2]int{8193, 8192}, [2]int{8256, 4096})
	}
	for gi, g := range bigGaps {
		for si, sh := range shapes {
			grid = append(grid, gapSet(sh[0], sh[1], g, (gi+si)%3))
		}
	}
	for gi, g := range []uint64{1 << 32, 1<<63 - 1, 1 << 63, math.MaxUint64} {
		for si, sh := range bigShapes {
			if thorough || (gi+si)%3 == 1 {
				grid = append(grid, gapSet(sh[0], sh[1], g, (gi+si)%3))
			}
		}
	}
	return small, grid
}

// nameCorpus: the empty name, names that differ only in their last byte (00 against FF), names that
// are prefixes of each other, long common prefixes
func nameCorpus(thorough bool) (small, grid [][]pdf.Name) {
	rep := func(b byte, n int) pdf.Name { return pdf.Name(strings.Repeat(string([]byte{b}), n)) }
	small = [][]pdf.Name{
		{""}, {"", "\x00"}, {"", "\xff"}, {"\x00", "\xff"}, {"", "\x00", "\x00\x00", "\x00\xff", "\xff", "\xff\x00", "\xff\xff"},
		{"a\x00", "a\xff"}, {"a", "a\x00", "a\xff", "b"}, {"a\xff", "b"}, {"a\xff\xff", "b\x00"}, {"\x7f", "\x80"}, {"\x7f\xff", "\x80\x00"},
		{rep(0xff, 300), rep(0xff, 301)}, {rep(0, 300), rep(0, 301)}, {rep('x', 255) + "\x00", rep('x', 255) + "\xff"},
		{rep('x', 256), rep('x', 256) + "\x00", rep('x', 257), rep('x', 256) + "\xff"},
	}
	// n names with one common prefix that differ in a fixed-width tail over {00,FF}; the step from
	// key sp-1 to key sp is the one from ...FF to a longer common prefix
	for _, pl := range []int{0, 1, 64, 255, 256, 1000} {
		for _, n := range []int{2, 3, 64, 65, 129} {
			var ks []pdf.Name
			pre := rep(0xff, pl)
			for i := 0; i < n; i++ {
				b := []byte(pre)
				for bit := 7; bit >= 0; bit-- {
					if i>>bit&1 == 1 {
						b = append(b, 0xff)
					} else {
						b = append(b, 0)
					}
				}
				ks = append(ks, pdf.Name(b))
			}
			grid = append(grid, ks)
		}
	}
	return small, grid
}

func intProbes(t *runner[pdf.Integer], keys []pdf.Integer, nPresent, nAbsent int) []pdf.Integer {
	e := t.e
	var ps []pdf.Integer
	n := len(keys)
	if n <= nPresent {
		ps = append(ps, keys...)
	} else {
		ps = append(ps, keys[0], keys[n-1])
		for _, b := range []int{63, 64, 65, 127, 128, 4031, 4032, 4095, 4096, 4097} {
			if b < n {
				ps = append(ps, keys[b])
			}
		}
		for len(ps) < nPresent {
			ps = append(ps, keys[e.Rand.IntN(n)])
		}
	}
	if n > 0 {
		if keys[0] > math.MinInt64 {
			ps = append(ps, keys[0]-1, math.MinInt64)
		}
		if keys[n-1] < math.MaxInt64 {
			ps = append(ps, keys[n-1]+1, math.MaxInt64)
		}
	} else {
		ps = append(ps, 0, -1)
	}
	for i := 0; i < nAbsent && n > 0; i++ {
		k := keys[e.Rand.IntN(n)]
		switch e.Rand.IntN(3) {
		case 0:
			if k < math.MaxInt64 {
				ps = append(ps, k+1)
			}
		case 1:
			if k > math.MinInt64 {
				ps = append(ps, k-1)
			}
		default:
			ps = append(ps, pdf.Integer(e.Rand.Uint64()))
		}
	}
	return ps
}

// unsorted variants of a sorted key list
func perturb[K cmp.Ordered](e *common.Env, keys []K) []K {
	ks := slices.Clone(keys)
	n := len(ks)
	i := e.Rand.IntN(n - 1)
	switch e.Rand.IntN(4) {
	case 0: // duplicate of the predecessor
		ks[i+1] = ks[i]
	case 1: // swap neighbours
		ks[i], ks[i+1] = ks[i+1], ks[i]
	case 2: // swap two far apart
		j := e.Rand.IntN(n)
		if j == i {
			j = i + 1
		}
		ks[i], ks[j] = ks[j], ks[i]
	default: // duplicate at the very end / across a leaf boundary
		if n > fanOut && e.Rand.IntN(2) == 0 {
			ks[fanOut] = ks[fanOut-1]
		} else {
			ks[n-1] = ks[n-2]
		}
	}
	return ks
}

// ---------------------------------------------- hand-built (malformed) trees

func build[K cmp.Ordered](keys []K, vals []int64, fan int) *tnode[K] {
	var level []*tnode[K]
	for i := 0; i < len(keys); i += fan {
		j := min(i+fan, len(keys))
		level = append(level, &tnode[K]{leaf: true, keys: slices.Clone(keys[i:j]), vals: slices.Clone(vals[i:j]), lim: &[2]K{keys[i], keys[j-1]}})
	}
	if len(level) == 0 {
		return &tnode[K]{leaf: true}
	}
	for len(level) > 1 {
		var up []*tnode[K]
		for i := 0; i < len(level); i += fan {
			j := min(i+fan, len(level))
			up = append(up, &tnode[K]{kids: level[i:j:j], lim: &[2]K{level[i].lim[0], level[j-1].lim[1]}})
		}
		level = up
	}
	root := level[0]
	if root.leaf {
		root.lim = nil
		return root
	}
	root.lim = nil
	return root
}

func (n *tnode[K]) nodes(acc *[]*tnode[K]) {
	*acc = append(*acc, n)
	for _, c := range n.kids {
		c.nodes(acc)
	}
}

func (t *runner[K]) mutate(root *tnode[K], keys []K) string {
	e := t.e
	var ns []*tnode[K]
	root.nodes(&ns)
	n := ns[e.Rand.IntN(len(ns))]
	pick := func() K { return keys[e.Rand.IntN(len(keys))] }
	switch e.Rand.IntN(10) {
	case 0:
		if n.lim != nil {
			l := *n.lim
			l[0] = pick()
			n.lim = &l
			return "limits-lo"
		}
	case 1:
		if n.lim != nil {
			l := *n.lim
			l[1] = pick()
			n.lim = &l
			return "limits-hi"
		}
	case 2:
		if n.lim != nil {
			n.lim = nil
			return "limits-dropped"
		}
	case 3:
		root.lim = &[2]K{keys[0], keys[len(keys)-1]}
		return "root-limits"
	case 4:
		if n.leaf && len(n.keys) >= 2 {
			i := e.Rand.IntN(len(n.keys) - 1)
			n.keys[i], n.keys[i+1] = n.keys[i+1], n.keys[i]
			return "leaf-swap"
		}
	case 5:
		if n.leaf && len(n.keys) >= 2 {
			i := e.Rand.IntN(len(n.keys) - 1)
			n.keys[i+1] = n.keys[i]
			return "leaf-dup"
		}
	case 6:
		if !n.leaf && len(n.kids) >= 2 {
			i := e.Rand.IntN(len(n.kids) - 1)
			n.kids[i], n.kids[i+1] = n.kids[i+1], n.kids[i]
			return "kids-swap"
		}
	case 7:
		if n.leaf && len(n.keys) > 0 {
			n.keys[e.Rand.IntN(len(n.keys))] = pick()
			return "key-replaced"
		}
	case 8:
		if !n.leaf {
			n.kids = append(n.kids, &tnode[K]{leaf: true}) // an empty leaf without limits
			return "empty-kid"
		}
	case 9:
		if n.leaf && len(n.keys) > 1 {
			n.keys = n.keys[:len(n.keys)-1]
			n.vals = n.vals[:len(n.vals)-1]
			return "leaf-truncated"
		}
	}
	return ""
}

func (t *runner[K]) testRaw(root *tnode[K], probes []K, class string) {
	e, kd := t.e, t.kd
	w, buf := newWriter()
	ref := root.put(kd, w)
	r := closeAndReopen(w, buf)
	raw := readRaw(kd, r, pdf.Object(ref), map[pdf.Reference]bool{}, 0)
	verdict := structure(raw)
	valid := 0
	if verdict == "" {
		valid = 1
	}
	type obs struct {
		size         int
		enum, mem    uint64
		look, memlok string
	}
	o, perr := safe(func() obs {
		size, enum, look, mem, memlook, _, _ := t.observe(r, pdf.Object(ref), probes, true)
		return obs{size, enum, mem, look, memlook}
	})
	var sb strings.Builder
	raw.wire(kd, &sb)
	id := t.nextID()
	e.Line("cases.txt", "%s R %s %s%s", id, kd.tag, sb.String(), t.keysWire(probes))
	e.Count(true, kd.tag+sb.String(), class)
	if verdict != "" {
		e.Dist["hand-built:"+verdict]++
	} else {
		e.Dist["hand-built:valid"]++
	}
	if perr != "" {
		e.Fail("reader-panic", "a tree reader panics on a hand-built tree: "+perr, map[string]any{"tree": short(sb.String())})
		e.Line("impl.obs", "%s panic", id)
		return
	}
	e.Line("impl.obs", "%s raw size=%d valid=%d enum=%d look=%s mem=%d memlook=%s", id, o.size, valid, o.enum, o.look, o.mem, o.memlok)
}

// ------------------------------------------------- graphs: shared, cyclic, dangling kids

// gn is a node object of a hand-built file; kids are indices into the node list
// (an index beyond the list is a reference to an object that does not exist).
type gn[K cmp.Ordered] struct {
	missing bool // the object is never written
	nondict bool // the object is an integer
	leaf    bool
	lim     *[2]K
	keys    []K
	vals    []int64
	kids    []int
}

func flatten[K cmp.Ordered](root *tnode[K]) []gn[K] {
	var nodes []gn[K]
	var rec func(n *tnode[K]) int
	rec = func(n *tnode[K]) int {
		i := len(nodes)
		nodes = append(nodes, gn[K]{leaf: n.leaf, lim: n.lim, keys: n.keys, vals: n.vals})
		for _, c := range n.kids {
			j := rec(c)
			nodes[i].kids = append(nodes[i].kids, j)
		}
		return i
	}
	rec(root)
	return nodes
}

func (t *runner[K]) testGraph(nodes []gn[K], root int, probes []K, class string) {
	e, kd := t.e, t.kd
	if t.unbounded {
		return // a reader is still spinning in the background: one failing input is enough
	}
	w, snk := newWriterCfg(t.nextCfg())
	maxIdx := len(nodes)
	for _, n := range nodes {
		for _, k := range n.kids {
			maxIdx = max(maxIdx, k+1)
		}
	}
	refs := make([]pdf.Reference, maxIdx)
	for i := range refs {
		refs[i] = w.Alloc()
	}
	var sb strings.Builder
	fmt.Fprintf(&sb, "%d ", len(nodes))
	limWire := func(l *[2]K) string {
		if l == nil {
			return "n"
		}
		return "l " + kd.tok(l[0]) + " " + kd.tok(l[1])
	}
	for i, n := range nodes {
		switch {
		case n.missing:
			sb.WriteString("X ")
			continue
		case n.nondict:
			sb.WriteString("X ")
			if err := w.Put(refs[i], pdf.Integer(7)); err != nil {
				panic(err)
			}
			continue
		}
		d := pdf.Dict{}
		if n.lim != nil {
			d["Limits"] = pdf.Array{kd.enc(n.lim[0]), kd.enc(n.lim[1])}
		}
		if n.leaf {
			arr := pdf.Array{}
			fmt.Fprintf(&sb, "L %s %d ", limWire(n.lim), len(n.keys))
			for j, k := range n.keys {
				arr = append(arr, kd.enc(k), pdf.Integer(n.vals[j]))
				fmt.Fprintf(&sb, "%s %d ", kd.tok(k), n.vals[j])
			}
			d[kd.leafKey] = arr
		} else {
			arr := pdf.Array{}
			fmt.Fprintf(&sb, "I %s %d ", limWire(n.lim), len(n.kids))
			for _, k := range n.kids {
				arr = append(arr, refs[k])
				fmt.Fprintf(&sb, "%d ", k)
			}
			d["Kids"] = arr
		}
		if err := w.Put(refs[i], d); err != nil {
			panic(err)
		}
	}
	r := closeAndReopen(w, snk)
	id := t.nextID()
	e.Line("cases.txt", "%s G %s %s%d %s", id, kd.tag, sb.String(), root, t.keysWire(probes))
	e.Count(true, kd.tag+sb.String(), class)
	e.Dist[class]++

	type obs struct {
		size         int
		enum, mem    uint64
		look, memlok string
		perr         string
	}
	done := make(chan obs, 1)
	go func() {
		o, perr := safe(func() obs {
			size, enum, look, mem, memlook, _, _ := t.observe(r, pdf.Object(refs[root]), probes, true)
			return obs{size: size, enum: enum, mem: mem, look: look, memlok: memlook}
		})
		o.perr = perr
		done <- o
	}()
	cs := map[string]any{"kind": kd.tag, "graph": short(sb.String()), "root": root}
	select {
	case o := <-done:
		if o.perr != "" {
			e.Fail("reader-panic", "a tree reader panics on a graph of node objects: "+o.perr, cs)
			e.Line("impl.obs", "%s panic", id)
			return
		}
		e.Line("impl.obs", "%s graph size=%d enum=%d look=%s mem=%d memlook=%s bounded=1", id, o.size, o.enum, o.look, o.mem, o.memlok)
	case <-time.After(60 * time.Second):
		e.Fail("reader-unbounded-work", "a tree reader does not finish on a small graph with shared or cyclic kids (work exponential in the number of levels, or a loop)", cs)
		e.Line("impl.obs", "%s timeout", id)
		t.unbounded = true
	}
}

func (t *runner[K]) graphs(set func(*runner[K], int, int) []K, probes func(*runner[K], []K, int, int) []K) {
	e := t.e
	R := e.Rand
	for i := 0; i < e.Pick(150, 4000); i++ {
		n := 1 + R.IntN(60)
		ks := set(t, n, R.IntN(nStyles))
		vals := make([]int64, len(ks))
		for j := range vals {
			vals[j] = int64(j)
		}
		nodes := flatten(build(ks, vals, []int{2, 3, 5}[R.IntN(3)]))
		class := "graph:tree"
		for m := R.IntN(4); m > 0 && len(nodes) > 1; m-- {
			class = "graph:mutated"
			var inner []int
			for j, nd := range nodes {
				if !nd.leaf && !nd.missing && !nd.nondict && len(nd.kids) > 0 {
					inner = append(inner, j)
				}
			}
			if len(inner) == 0 {
				break
			}
			x := inner[R.IntN(len(inner))]
			nd := &nodes[x]
			switch R.IntN(7) {
			case 0: // a kid listed twice
				if len(nd.kids) > 0 {
					nd.kids = append(nd.kids, nd.kids[R.IntN(len(nd.kids))])
				}
			case 1: // share a node of another part of the tree
				nd.kids[R.IntN(len(nd.kids))] = R.IntN(len(nodes))
			case 2: // cycle: back to the root or to the node itself
				nd.kids = append(nd.kids, []int{0, x}[R.IntN(2)])
			case 3: // reference to an object that does not exist
				nd.kids[R.IntN(len(nd.kids))] = len(nodes) + R.IntN(3)
			case 4: // a kid that is not a dictionary / was never written
				j := 1 + R.IntN(len(nodes)-1)
				if R.IntN(2) == 0 {
					nodes[j] = gn[K]{nondict: true}
				} else {
					nodes[j] = gn[K]{missing: true}
				}
			case 5: // the first kid again at the end (a lookup may come back to it)
				nd.kids = append(nd.kids, nd.kids[0])
			default: // cross link between two inner nodes
				y := inner[R.IntN(len(inner))]
				nd.kids = append([]int{y}, nd.kids...)
			}
		}
		t.testGraph(nodes, 0, probes(t, ks, 12, 8), class)
	}
	// chains of diamonds: every node lists the next one twice (2^levels paths)
	ks := set(t, 3, 1)
	for _, levels := range []int{5, 30, 60, 120, 250, 300} {
		var nodes []gn[K]
		for i := 0; i < levels; i++ {
			nodes = append(nodes, gn[K]{lim: &[2]K{ks[0], ks[2]}, kids: []int{i + 1, i + 1}})
		}
		nodes[0].lim = nil
		nodes = append(nodes, gn[K]{leaf: true, lim: &[2]K{ks[0], ks[2]}, keys: ks, vals: []int64{0, 1, 2}})
		t.testGraph(nodes, 0, probes(t, ks, 3, 2), "graph:diamonds")
		// the same with two distinct next nodes that both point on: a ladder
		var lad []gn[K]
		for i := 0; i < levels && i < 100; i++ {
			lad = append(lad, gn[K]{lim: &[2]K{ks[0], ks[2]}, kids: []int{2*i + 2, 2*i + 2}}, gn[K]{lim: &[2]K{ks[0], ks[2]}, kids: []int{2*i + 2, 2*i + 3}})
		}
		lad = append(lad, gn[K]{leaf: true, lim: &[2]K{ks[0], ks[2]}, keys: ks, vals: []int64{0, 1, 2}})
		lad = append(lad, gn[K]{leaf: true, lim: &[2]K{ks[0], ks[2]}, keys: ks, vals: []int64{0, 1, 2}})
		lad[0].lim = nil
		t.testGraph(lad, 0, probes(t, ks, 3, 2), "graph:ladder")
	}
}

// ------------------------------------------------- histories on one in-memory tree

// history: one InMemory value over a map the caller keeps changing; after every
// step All() must be the sorted map and a tree written from it must answer as
// the map says.
func (t *runner[K]) history(set func(*runner[K], int, int) []K, probes func(*runner[K], []K, int, int) []K) {
	e, kd := t.e, t.kd
	R := e.Rand
	n := R.IntN(140)
	data := map[K]pdf.Object{}
	for _, k := range set(t, n, R.IntN(nStyles)) {
		data[k] = pdf.Integer(0)
	}
	pool := set(t, n+40, R.IntN(nStyles)) // keys to add later
	mem := kd.newMem(data)
	var trace []string
	sortedKeys := func() []K {
		ks := make([]K, 0, len(data))
		for k := range data {
			ks = append(ks, k)
		}
		slices.Sort(ks)
		return ks
	}
	renumber := func() []K { // update-value on every entry: value = rank of the key
		ks := sortedKeys()
		for i, k := range ks {
			data[k] = pdf.Integer(i)
		}
		return ks
	}
	fail := func(sig, what string) {
		e.Fail(sig, what, map[string]any{"kind": kd.tag, "history": strings.Join(trace, " "), "entries": len(data)})
	}
	checkAll := func() bool {
		ks := renumber()
		i := 0
		ok := true
		for k, v := range mem.All() {
			if i >= len(ks) || k != ks[i] || v != pdf.Integer(i) {
				ok = false
			}
			i++
		}
		if !ok || i != len(ks) {
			fail("inmemory-history", "InMemory.All is not the sorted content of Data after the map was changed")
			return false
		}
		return true
	}
	steps := 4 + R.IntN(8)
	for s := 0; s < steps; s++ {
		e.Count(true, kd.tag+"history"+strconv.Itoa(*t.id)+"/"+strconv.Itoa(s), "inmemory-history-step")
		switch op := R.IntN(8); op {
		case 0:
			trace = append(trace, "enumerate")
			if !checkAll() {
				return
			}
		case 1:
			trace = append(trace, "lookup")
			ks := renumber()
			for _, p := range probes(t, ks, 6, 6) {
				v, err := mem.Lookup(p)
				want, present := data[p]
				if present != (err == nil) || present && v != want {
					fail("inmemory-history", "InMemory.Lookup disagrees with Data")
					return
				}
			}
		case 2:
			trace = append(trace, "delete")
			for k := range data {
				delete(data, k)
				break
			}
		case 3:
			trace = append(trace, "add")
			data[pool[R.IntN(len(pool))]] = pdf.Integer(0)
		case 4, 5:
			trace = append(trace, "replace-key")
			if len(data) > 0 {
				ks := sortedKeys()
				for try := 0; try < 20; try++ {
					nk := pool[R.IntN(len(pool))]
					if _, present := data[nk]; !present {
						delete(data, ks[R.IntN(len(ks))])
						data[nk] = pdf.Integer(0)
						break
					}
				}
			}
		default:
			how := []string{"write", "embed"}[R.IntN(2)]
			trace = append(trace, how)
			ks := renumber()
			cfg := t.nextCfg()
			cfg.openStream, cfg.second = false, false
			w, snk := newWriterCfg(cfg)
			var ref pdf.Reference
			var err error
			if how == "write" {
				ref, err = kd.write(w, mem.All())
			} else {
				var obj pdf.Native
				obj, err = pdf.NewResourceManager(w).Embed(mem)
				ref, _ = obj.(pdf.Reference)
			}
			if err != nil {
				fail("inmemory-history", "writing the in-memory tree fails: "+err.Error())
				return
			}
			if len(ks) == 0 {
				if ref != 0 {
					fail("empty-tree", "an empty in-memory tree yields a tree object")
				}
				continue
			}
			if ref == 0 {
				fail("no-root", "a non-empty in-memory tree yields the null reference")
				return
			}
			r := closeAndReopen(w, snk)
			id := t.nextID()
			ps := probes(t, ks, 20, 12)
			e.Line("cases.txt", "%s W %s %s %s", id, kd.tag, t.keysWire(ks), t.keysWire(ps))
			t.verify(id, r, ref, ks, ps, map[string]any{"kind": kd.tag, "history": strings.Join(trace, " "), "config": cfg.String()}, "inmemory-history")
		}
		// the map has changed: the enumeration must follow (this is also what Write/Embed consume)
		if !checkAll() {
			return
		}
	}
}

// ------------------------------------------------------------------- main

func runKind[K cmp.Ordered](e *common.Env, kd *kind[K], id *int,
	set func(*runner[K], int, int) []K, probes func(*runner[K], []K, int, int) []K, corpus func(bool) (small, grid [][]K)) {
	t := &runner[K]{e: e, kd: kd, id: id}

	// keys of extreme magnitude and neighbours at extreme distances: the hand-picked sets in every
	// writer configuration and through both entry points, the grid once each
	small, grid := corpus(e.Thorough)
	for _, ks := range small {
		for ci, cfg := range cfgs {
			t.testWrite(ks, probes(t, ks, 70, 10), kd.writeMap != nil && ci%2 == 1, "extreme-keys", cfg)
		}
	}
	for i, ks := range grid {
		t.testWrite(ks, probes(t, ks, 40, 10), kd.writeMap != nil && i%3 == 2 && len(ks) < 1000, "extreme-gaps", t.nextCfg())
	}

	// sizes at the boundaries of the fan-out and its powers; then random sizes
	bsizes := []int{0, 1, 2, 3, 62, 63, 64, 65, 66, 126, 127, 128, 129, 130, 191, 192, 193, 1000}
	big := []int{4031, 4032, 4033, 4095, 4096, 4097, 4159, 4160, 4161, 6000}
	if e.Thorough {
		big = append(big, 8191, 8192, 8256, 12288, 20000)
	}
	for _, n := range bsizes {
		for style := 0; style < nStyles; style++ {
			if style >= 3 && n >= 1000 && !e.Thorough {
				continue
			}
			ks := set(t, n, style)
			t.testWrite(ks, probes(t, ks, 200, 60), false, fmt.Sprintf("boundary-size-style%d", style), t.nextCfg())
		}
	}
	// every writer configuration at the sizes where the number of leaves and levels changes
	for _, n := range []int{1, 63, 64, 65, 128, 129, 200, 4097} {
		for ci, cfg := range cfgs {
			ks := set(t, n, ci%nStyles)
			t.testWrite(ks, probes(t, ks, 70, 30), kd.writeMap != nil && ci%2 == 1 && n < 1000, "every-config", cfg)
		}
	}
	for i, n := range big {
		ks := set(t, n, i%nStyles)
		t.testWrite(ks, probes(t, ks, e.Pick(150, 1500), e.Pick(80, 500)), false, "size>=63*64", t.nextCfg())
	}
	// every size 0..200 once (thorough: 0..600)
	for n := 0; n <= e.Pick(200, 600); n++ {
		ks := set(t, n, e.Rand.IntN(nStyles))
		t.testWrite(ks, probes(t, ks, 40, 25), kd.writeMap != nil && n%2 == 1, "all-sizes", t.nextCfg())
	}
	// random sizes, random styles; WriteMap where available
	for i := 0; i < e.Pick(110, 3000); i++ {
		n := e.Rand.IntN(700)
		if e.Rand.IntN(e.Pick(25, 8)) == 0 {
			n = 3900 + e.Rand.IntN(400)
		}
		ks := set(t, n, e.Rand.IntN(nStyles))
		t.testWrite(ks, probes(t, ks, 30, 30), kd.writeMap != nil && e.Rand.IntN(3) == 0, "random-size", t.nextCfg())
	}
	// keys that are not strictly increasing must be refused
	for i := 0; i < e.Pick(90, 2000); i++ {
		n := 2 + e.Rand.IntN(200)
		ks := perturb(e, set(t, n, e.Rand.IntN(nStyles)))
		t.testWrite(ks, nil, false, "unsorted", t.nextCfg())
	}
	// hand-built trees: valid ones of other shapes, and mutated ones
	for i := 0; i < e.Pick(300, 8000); i++ {
		n := 1 + e.Rand.IntN(120)
		if e.Rand.IntN(10) == 0 {
			n = 200 + e.Rand.IntN(600)
		}
		ks := set(t, n, e.Rand.IntN(nStyles))
		vals := make([]int64, len(ks))
		for j := range vals {
			vals[j] = int64(j)
		}
		fan := []int{2, 3, 5, 16, 64, 65, 100}[e.Rand.IntN(7)]
		root := build(ks, vals, fan)
		class := "hand-built"
		for m := e.Rand.IntN(3); m > 0; m-- {
			if s := t.mutate(root, ks); s != "" {
				class = "hand-built-mutated"
			}
		}
		t.testRaw(root, probes(t, ks, 25, 25), class)
	}
	// nesting at the readers' cap: a chain of single-kid nodes above one leaf
	ks := set(t, 3, 1)
	for _, depth := range []int{254, 255, 256, 257, 300} {
		leaf := &tnode[K]{leaf: true, keys: ks, vals: []int64{0, 1, 2}, lim: &[2]K{ks[0], ks[2]}}
		n := leaf
		for i := 1; i < depth; i++ {
			n = &tnode[K]{kids: []*tnode[K]{n}, lim: &[2]K{ks[0], ks[2]}}
		}
		n.lim = nil
		t.testRaw(n, probes(t, ks, 3, 2), "deep-chain")
	}
	// files whose node objects form a graph
	t.graphs(set, probes)
	// one in-memory tree, used and changed in turn
	for i := 0; i < e.Pick(60, 2000); i++ {
		t.history(set, probes)
	}
}

func main() {
	e := common.New(17)
	id := 0
	runKind(e, nameKind, &id, nameSet, nameProbes, nameCorpus)
	runKind(e, numKind, &id, intSet, intProbes, intCorpus)
	e.Finish("key sets: every size 0..200 (thorough 0..600), sizes at the boundaries of 64, 63*64 and 64*64 up to 6000 (thorough 20000), random sizes; "+
		"names over arbitrary bytes (empty name, prefixes and 00/FF extensions of each other, all strings over {00,FF}, key%04d), integers incl. int64 extremes, dense and sparse; keys of extreme magnitude and neighbours at extreme distances: integer sets whose consecutive keys differ by 2^31-1 .. 2^32+1, 2^62, 2^63-1, 2^63, 2^63+1 and 2^64-1 at the first, an inner and the last position of a leaf and of an intermediate node (so that they are /Limits of neighbouring nodes), runs whose every step is near 2^31 or 2^32 starting at MinInt64, around zero or ending at MaxInt64; names with common prefixes of up to 1000 bytes, differing only in the last byte 00/FF, prefixes of each other, the empty name - hand-picked sets in all eight configurations through Write and WriteMap; "+
		"probes: present keys (all for small sets), below the minimum, above the maximum, immediate successors, prefixes, random; "+
		"written with the real Write/WriteMap in eight writer configurations (PDF 1.4/1.7/2.0, HumanReadable, seekable or not, while a stream is open on the same Writer so that Put defers the node objects, a second tree written from inside the iterator of the first), file reopened; unsorted/duplicate key sequences; hand-built valid and mutated trees for the readers; every returned iter.Seq2 ranged four times (abandoned passes, Lookup in between); histories on one InMemory value (enumerate / Lookup / Write / Embed interleaved with add, delete, replace-key-same-count and update-value on its Data map); graphs of node objects (kids shared, listed twice, cyclic, dangling, not dictionaries; chains of diamonds and ladders of up to 300 levels) read under a watchdog; "+
		"non-trivial = more than one key (W cases) or any hand-built tree, distinct by key set / tree", nil)
}
