// C07 harness: the library's filters against independent codecs.
//
// Direction A (library encodes, somebody else decodes): compress/zlib, encoding/ascii85,
// compress/lzw (EarlyChange 0), golang.org/x/image/tiff/lzw (EarlyChange 1),
// golang.org/x/image/ccitt (Group 3 one-dimensional with EOL, Group 4), reference decoders for
// RunLength and ASCIIHex written from ISO 32000-2 7.4, image/png for the PNG predictors (the filtered
// rows wrapped into a PNG file), and the extracted Coq model for all of
// ASCIIHex, ASCII85, RunLength, LZW, PNG and TIFF predictors (cases.txt `D` lines).
//
// Direction B (somebody else encodes, the library decodes): compress/zlib, encoding/ascii85 with
// random white space, compress/lzw, reference encoders for RunLength and ASCIIHex that choose
// record splits, digit case, white space and odd digit counts at random, and the Coq model's
// encoders (cases.txt `E` lines, decoded by the library in phase 2).
package main

import (
	"bytes"
	stdlzw "compress/lzw"
	"compress/zlib"
	"encoding/ascii85"
	"encoding/binary"
	"errors"
	"fmt"
	"hash/crc32"
	"image"
	"image/color"
	"image/png"
	"io"
	"os"
	"sort"
	"strconv"
	"strings"

	"golang.org/x/image/ccitt"
	tifflzw "golang.org/x/image/tiff/lzw"
	"seehuhn.de/go/membudget"
	"seehuhn.de/go/pdf"
	"seehuhn.de/go/pdf/internal/filter/predict"
	"seehuhn.de/go/pdf/verifharness/common"
)

type nopWC struct{ io.Writer }

func (nopWC) Close() error { return nil }

type H struct {
	e      *common.Env
	nextID int
	nsig   map[string]int
}

func (h *H) id(prefix string) string {
	h.nextID++
	return fmt.Sprintf("%s%d", prefix, h.nextID)
}

func (h *H) fail(sig, what string, c any) {
	if h.nsig == nil {
		h.nsig = map[string]int{}
	}
	h.nsig[sig]++
	if h.nsig[sig] <= 6 {
		h.e.Fail(sig, what, c)
	}
}

func libEncode(f pdf.Filter, v pdf.Version, data []byte) (enc []byte, err error) {
	defer func() {
		if r := recover(); r != nil {
			err = fmt.Errorf("panic: %v", r)
		}
	}()
	buf := &bytes.Buffer{}
	w, err := f.Encode(v, nopWC{buf})
	if err != nil {
		return nil, err
	}
	if _, err := w.Write(data); err != nil {
		return nil, err
	}
	if err := w.Close(); err != nil {
		return nil, err
	}
	return buf.Bytes(), nil
}

func libDecode(f pdf.Filter, v pdf.Version, enc []byte) (out []byte, err error) {
	defer func() {
		if r := recover(); r != nil {
			err = fmt.Errorf("panic: %v", r)
		}
	}()
	rd, err := f.Decode(v, bytes.NewReader(enc), membudget.New(1<<30))
	if err != nil {
		return nil, err
	}
	return io.ReadAll(rd)
}

func obsOf(out []byte, err error) string {
	if err != nil {
		return "err"
	}
	return "ok " + common.Hex(out)
}

func (h *H) data(n int) []byte {
	r := h.e.Rand
	d := make([]byte, n)
	switch r.IntN(6) {
	case 0:
		for i := range d {
			d[i] = byte(r.UintN(256))
		}
	case 1:
		b := byte(r.UintN(256))
		if r.IntN(2) == 0 {
			b = 0
		}
		for i := range d {
			d[i] = b
		}
	case 2:
		i := 0
		for i < n {
			l := []int{1, 2, 3, 4, 5, 127, 128, 129, 130, 255, 256, 257}[r.IntN(12)]
			if r.IntN(2) == 0 {
				l = 1 + r.IntN(6)
			}
			b := byte(r.UintN(4))
			for ; l > 0 && i < n; l-- {
				d[i] = b
				i++
			}
		}
	case 3:
		for i := range d {
			d[i] = byte(r.UintN(3))
		}
	case 4:
		for i := 0; i < n; i += 4 {
			z := r.IntN(2) == 0
			for j := i; j < i+4 && j < n; j++ {
				if !z {
					d[j] = byte(r.UintN(256))
				}
			}
		}
	default:
		for i := range d {
			d[i] = byte(250 + r.UintN(6))
		}
	}
	return d
}

// ---------------------------------------------------------------- reference codecs (ISO 32000-2, 7.4)

var ws = []byte{0, 9, 10, 12, 13, 32}

func isWS(c byte) bool { return bytes.IndexByte(ws, c) >= 0 }

func (h *H) refRLEncode(d []byte) []byte {
	r := h.e.Rand
	var out []byte
	for len(d) > 0 {
		run := 1
		for run < len(d) && run < 128 && d[run] == d[0] {
			run++
		}
		if run >= 2 && r.IntN(3) > 0 {
			k := 2 + r.IntN(run-1)
			out = append(out, byte(257-k), d[0])
			d = d[k:]
		} else {
			k := 1 + r.IntN(min(128, len(d)))
			if r.IntN(3) == 0 {
				k = min(128, len(d))
			}
			out = append(out, byte(k-1))
			out = append(out, d[:k]...)
			d = d[k:]
		}
	}
	return append(out, 128)
}

func refRLDecode(e []byte) ([]byte, error) {
	var out []byte
	for i := 0; i < len(e); {
		l := int(e[i])
		i++
		switch {
		case l == 128:
			return out, nil
		case l < 128:
			if i+l+1 > len(e) {
				return out, io.ErrUnexpectedEOF
			}
			out = append(out, e[i:i+l+1]...)
			i += l + 1
		default:
			if i >= len(e) {
				return out, io.ErrUnexpectedEOF
			}
			out = append(out, bytes.Repeat(e[i:i+1], 257-l)...)
			i++
		}
	}
	return out, errors.New("no EOD")
}

func (h *H) refAHxEncode(d []byte) []byte {
	r := h.e.Rand
	var out []byte
	sp := func() {
		for r.IntN(5) == 0 {
			out = append(out, ws[r.IntN(len(ws))])
		}
	}
	for i, b := range d {
		hx := "0123456789abcdef"
		if r.IntN(2) == 0 {
			hx = "0123456789ABCDEF"
		}
		sp()
		out = append(out, hx[b>>4])
		sp()
		if i == len(d)-1 && b&0x0f == 0 && r.IntN(2) == 0 {
			break // odd number of digits: the final 0 is implied
		}
		if r.IntN(2) == 0 {
			hx = "0123456789abcdef"
		}
		out = append(out, hx[b&15])
	}
	sp()
	out = append(out, '>')
	if r.IntN(4) == 0 {
		out = append(out, "junk"...)
	}
	return out
}

func refAHxDecode(e []byte) ([]byte, error) {
	var out []byte
	hi := -1
	for _, c := range e {
		v := -1
		switch {
		case c >= '0' && c <= '9':
			v = int(c - '0')
		case c >= 'a' && c <= 'f':
			v = int(c-'a') + 10
		case c >= 'A' && c <= 'F':
			v = int(c-'A') + 10
		case isWS(c):
			continue
		case c == '>':
			if hi >= 0 {
				out = append(out, byte(hi<<4))
			}
			return out, nil
		default:
			return out, errors.New("bad character")
		}
		if hi < 0 {
			hi = v
		} else {
			out = append(out, byte(hi<<4|v))
			hi = -1
		}
	}
	return out, errors.New("no EOD")
}

func (h *H) withSpace(e []byte, every int) []byte {
	r := h.e.Rand
	var out []byte
	for _, c := range e {
		out = append(out, c)
		if r.IntN(every) == 0 {
			out = append(out, ws[1+r.IntN(len(ws)-1)])
		}
	}
	return out
}


// lzwBoundaryInputs: inputs that bring the LZW encoder to a chosen number of emitted codes with
// an incompressible prefix (no byte pair occurs twice, so every code is a single literal and the
// prefix of p bytes yields exactly p-1 codes plus the pending one), followed by tails that make
// the next codes (a) old entries, (b) the newest entry (KwKwK: runs and short periods), random
// data, or the end of data.  p is swept over windows around the code-width switches
// (255, 767, 1791 codes, minus EarlyChange) and the table-full clear (3839 codes).
func lzwBoundaryInputs(rnd interface{ UintN(uint) uint }, quick bool) [][]byte {
	seen := map[[2]byte]bool{}
	prefix := make([]byte, 0, 4000)
	for len(prefix) < 3900 {
		b := byte(rnd.UintN(256))
		if len(prefix) > 0 {
			k := [2]byte{prefix[len(prefix)-1], b}
			if seen[k] {
				continue
			}
			seen[k] = true
		}
		prefix = append(prefix, b)
	}
	rep := func(b byte, n int) []byte { return bytes.Repeat([]byte{b}, n) }
	var res [][]byte
	for _, t := range []int{255, 767, 1791, 3839} {
		win := 6
		if t == 3839 {
			win = 10
		}
		for p := t - win; p <= t+win; p++ {
			pre := prefix[:p]
			last := pre[p-1]
			tails := [][]byte{
				nil,
				rep(last, 40),
				rep(last^0x55, 60),
				rep(0, 3000),
				bytes.Repeat([]byte{last, last ^ 1}, 40),
				bytes.Repeat([]byte{7, 8, 9}, 30),
				append(rep(last, 5), prefix[100:160]...),
				prefix[p : p+50],
			}
			for i, tl := range tails {
				if quick && t != 3839 && i%2 == 1 && p%2 == 1 {
					continue
				}
				res = append(res, append(append([]byte{}, pre...), tl...))
			}
		}
	}
	// noisy rows followed by blank rows: the table fills up inside the run
	for d := -40; d <= 40; d++ {
		n := 3839 + d
		noise := make([]byte, n)
		for i := range noise {
			noise[i] = byte(rnd.UintN(256))
		}
		res = append(res, append(noise, rep(0, 30000)...))
		if !quick || d%4 == 0 {
			noise2 := append([]byte{}, noise...)
			res = append(res, append(noise2, bytes.Repeat([]byte{1, 2}, 4000)...))
		}
	}
	return res
}

// ---------------------------------------------------------------- per-codec checks

// ---------------------------------------------------------------- LZW: maximal code expansion

// A degenerate input: q incompressible bytes (each uses up one table entry), then a pattern of the
// given period repeated up to n bytes in all.  With period 1 the table strings grow 1, 2, 3, ... bytes, so the
// k-th code expands to about k bytes: expansions of more than 2048 bytes need over 2 MB of input, the longest
// possible one (maxCode-256 = 3839 bytes, table full) 7.4 MB; with period p it takes about 1/p of that to fill
// the table and the strings reach 1/p of the length.  This is the only way to make the reader stage long
// expansions at the end of its output buffer while many decoded bytes are still pending at its start.
type degenerate struct {
	q, period, n int
	b            byte
}

func (d degenerate) String() string {
	return fmt.Sprintf("%d incompressible bytes, then period-%d pattern from byte 0x%02x up to %d bytes", d.q, d.period, d.b, d.n)
}

func (d degenerate) data() []byte {
	out := make([]byte, d.n)
	// a fixed pseudo-random sequence: hardly any byte pair occurs twice
	x := uint32(12345)
	for i := 0; i < min(d.q, d.n); i++ {
		x = x*1664525 + 1013904223
		out[i] = byte(x >> 24)
	}
	for i := d.q; i < d.n; i++ {
		out[i] = d.b + byte((i-d.q)%d.period)
	}
	return out
}

func tri(k int) int { return k * (k + 1) / 2 }

// lzwDegenerateInputs: sizes where the longest table string crosses 2048 / 3072 / the table-full length, ends of
// data just before and after the table-full clear, and more than one table generation.
func lzwDegenerateInputs(quick bool) []degenerate {
	res := []degenerate{
		{0, 1, tri(2048) + 7, 0},
		{0, 1, tri(3072) + 1, 0xff},
		{0, 1, tri(3838) - 1, 0},
		{0, 1, tri(3838) + 5000, 0x41},
		{0, 1, 8400000, 0},
		{0, 2, 4100000, 0x20},
		{1500, 1, tri(2340) + 99, 0},
	}
	if !quick {
		for _, k := range []int{2040, 2047, 2049, 2050, 2304, 2560, 3071, 3073, 3500, 3837, 3838, 3839} {
			res = append(res, degenerate{0, 1, tri(k) + k/2, byte(k)})
		}
		for _, p := range []int{2, 3, 4, 7, 16} {
			res = append(res, degenerate{0, p, tri(3838)/p + 300000, 0x30}, degenerate{0, p, 2 * tri(3838) / p, 0x80})
		}
		for _, q := range []int{1, 2, 255, 256, 700, 1790, 2500, 3000} {
			res = append(res, degenerate{q, 1, tri(3838-q) + 123456, 0x11}, degenerate{q, 2, tri(3838-q)/2 + 99999, 0x55})
		}
		res = append(res, degenerate{0, 1, 16 << 20, 0}, degenerate{0, 1, 3*tri(3838) + 17, 0xfe})
	}
	return res
}

func fnv64(b []byte) uint64 {
	h := uint64(0xcbf29ce484222325)
	for _, x := range b {
		h = (h ^ uint64(x)) * 0x100000001b3
	}
	return h
}

func firstDiff(a, b []byte) int {
	n := min(len(a), len(b))
	for i := 0; i < n; i++ {
		if a[i] != b[i] {
			return i
		}
	}
	return n
}

// lzwDegenerate: the degenerate family in both directions - Go's encoder (compress/lzw) read by the library,
// the library's encoders read by Go's decoders (compress/lzw, x/image/tiff/lzw) - and the model (with the
// reader's staging buffer alongside) on the independent encoder's code stream.
func (h *H) lzwDegenerate() {
	e := h.e
	v := pdf.V1_7
	report := func(sig, codec string, d degenerate, enc, got []byte, err error, data []byte) {
		ok := err == nil && bytes.Equal(got, data)
		if !ok {
			h.fail(sig, fmt.Sprintf("%s: x = %s (encoded %d bytes) came back as %d bytes, first difference at offset %d, err=%v",
				sig, d.String(), len(enc), len(got), firstDiff(got, data), err),
				map[string]any{"codec": codec, "incompressible_prefix": d.q, "period": d.period, "first_byte": int(d.b), "length": d.n,
					"encoded": common.Hex(enc[:min(len(enc), 64)]) + "..."})
		}
		e.Count(true, fmt.Sprintf("%s %v", sig, d), sig+map[bool]string{true: "", false: ":fail"}[ok])
	}
	for i, d := range lzwDegenerateInputs(!e.Thorough) {
		data := d.data()
		// compress/lzw writes, the library reads
		buf := &bytes.Buffer{}
		zw := stdlzw.NewWriter(buf, stdlzw.MSB, 8)
		zw.Write(data)
		zw.Close()
		got, err := libDecode(pdf.FilterLZW{OffByOne: false}, v, buf.Bytes())
		report("interop-lzw0-lib-decodes-go-degenerate", "lzw0", d, buf.Bytes(), got, err, data)
		if i == 4 || (e.Thorough && i%3 == 0 && d.n <= 9<<20) {
			id := h.id("s")
			e.Line("cases.txt", "%s S lzw0 %s", id, common.Hex(buf.Bytes()))
			e.Line("impl.obs", "%s stage 1 okh %d %016x", id, len(data), fnv64(data)) // what an independent decoder must deliver
		}
		// the library writes, Go's decoders read
		for _, early := range []bool{false, true} {
			name := "lzw0"
			if early {
				name = "lzw1"
			}
			enc, err := libEncode(pdf.FilterLZW{OffByOne: early}, v, data)
			if err != nil {
				report("interop-"+name+"-lib-encode-degenerate", name, d, nil, nil, err, data)
				continue
			}
			var rd io.ReadCloser
			if early {
				rd = tifflzw.NewReader(bytes.NewReader(enc), tifflzw.MSB, 8)
			} else {
				rd = stdlzw.NewReader(bytes.NewReader(enc), stdlzw.MSB, 8)
			}
			got, err := io.ReadAll(rd)
			report("interop-"+name+"-go-decodes-lib-degenerate", name, d, enc, got, err, data)
			if e.Thorough && i == 0 {
				// model-encode -> library-decode (phase 2) for one megabyte-sized input
				id := h.id("e")
				e.Line("cases.txt", "%s E %s %s", id, name, common.Hex(data))
			}
		}
	}
}

func (h *H) check(sig, codec string, data, got []byte, err error, extra map[string]any) bool {
	ok := err == nil && bytes.Equal(got, data)
	if !ok {
		c := map[string]any{"codec": codec, "data": common.Hex(data)}
		for k, v := range extra {
			c[k] = v
		}
		h.fail(sig, fmt.Sprintf("%s: %d bytes came back as %d bytes, err=%v", sig, len(data), len(got), err), c)
	}
	h.e.Count(len(data) > 0, sig+common.Hex(data), sig+map[bool]string{true: "", false: ":fail"}[ok])
	if len(data) > 8 {
		h.e.Sample(8, map[string]any{"check": sig, "len": len(data), "ok": ok})
	}
	return ok
}

func (h *H) modelLines(spec string, enc, data []byte, tags []byte, withE bool) {
	e := h.e
	id := h.id("d")
	e.Line("cases.txt", "%s D %s %s", id, spec, common.Hex(enc))
	e.Line("impl.obs", "%s ok %s", id, common.Hex(data)) // what an independent decoder must deliver
	if !withE {
		return
	}
	id = h.id("e")
	if tags != nil {
		e.Line("cases.txt", "%s E %s %s %s", id, spec, common.Hex(data), common.Hex(tags))
	} else {
		e.Line("cases.txt", "%s E %s %s", id, spec, common.Hex(data))
	}
}

func (h *H) codecs(data []byte, model bool) {
	v := pdf.V1_7
	// ---- Flate
	if enc, err := libEncode(pdf.FilterFlate{}, v, data); err != nil {
		h.check("interop-flate-lib-encode", "flate", data, nil, err, nil)
	} else {
		zr, err := zlib.NewReader(bytes.NewReader(enc))
		var got []byte
		if err == nil {
			got, err = io.ReadAll(zr)
		}
		h.check("interop-flate-zlib-decodes-lib", "flate", data, got, err, map[string]any{"enc": common.Hex(enc)})
	}
	{
		buf := &bytes.Buffer{}
		zw, _ := zlib.NewWriterLevel(buf, []int{zlib.NoCompression, zlib.BestSpeed, zlib.DefaultCompression, zlib.BestCompression, zlib.HuffmanOnly}[h.e.Rand.IntN(5)])
		zw.Write(data)
		zw.Close()
		got, err := libDecode(pdf.FilterFlate{}, v, buf.Bytes())
		h.check("interop-flate-lib-decodes-zlib", "flate", data, got, err, map[string]any{"enc": common.Hex(buf.Bytes())})
	}
	// ---- ASCII85
	if enc, err := libEncode(pdf.FilterASCII85{}, v, data); err != nil {
		h.check("interop-a85-lib-encode", "a85", data, nil, err, nil)
	} else {
		body := bytes.TrimSpace(enc)
		var got []byte
		var derr error
		if !bytes.HasSuffix(body, []byte("~>")) {
			derr = errors.New("no ~> at the end")
		} else {
			body = body[:len(body)-2]
			out := make([]byte, 4*len(body)+8) // a 'z' stands for four bytes
			nd, _, err := ascii85.Decode(out, body, true)
			got, derr = out[:nd], err
		}
		h.check("interop-a85-stdlib-decodes-lib", "a85", data, got, derr, map[string]any{"enc": common.Hex(enc)})
		if model {
			h.modelLines("a85", enc, data, nil, true)
		}
	}
	{
		buf := make([]byte, ascii85.MaxEncodedLen(len(data)))
		k := ascii85.Encode(buf, data)
		enc := append(h.withSpace(buf[:k], 12), '~', '>')
		got, err := libDecode(pdf.FilterASCII85{}, v, enc)
		h.check("interop-a85-lib-decodes-stdlib", "a85", data, got, err, map[string]any{"enc": common.Hex(enc)})
	}
	h.lzw(data, model)
	h.others(data, model)
}

func (h *H) lzw(data []byte, model bool) {
	v := pdf.V1_7
	for _, early := range []bool{false, true} {
		name := "lzw0"
		if early {
			name = "lzw1"
		}
		f := pdf.FilterLZW{OffByOne: early}
		enc, err := libEncode(f, v, data)
		if err != nil {
			h.check("interop-"+name+"-lib-encode", name, data, nil, err, nil)
			continue
		}
		var rd io.ReadCloser
		if early {
			rd = tifflzw.NewReader(bytes.NewReader(enc), tifflzw.MSB, 8)
		} else {
			rd = stdlzw.NewReader(bytes.NewReader(enc), stdlzw.MSB, 8)
		}
		got, err := io.ReadAll(rd)
		h.check("interop-"+name+"-go-decodes-lib", name, data, got, err, map[string]any{"enc": common.Hex(enc)})
		if model {
			h.modelLines(name, enc, data, nil, true)
		}
	}
	{
		buf := &bytes.Buffer{}
		zw := stdlzw.NewWriter(buf, stdlzw.MSB, 8)
		zw.Write(data)
		zw.Close()
		got, err := libDecode(pdf.FilterLZW{OffByOne: false}, v, buf.Bytes())
		h.check("interop-lzw0-lib-decodes-go", "lzw0", data, got, err, map[string]any{"enc": common.Hex(buf.Bytes())})
	}
}

func (h *H) others(data []byte, model bool) {
	v := pdf.V1_7
	// ---- RunLength
	if enc, err := libEncode(pdf.FilterRunLength{}, v, data); err != nil {
		h.check("interop-rl-lib-encode", "rl", data, nil, err, nil)
	} else {
		got, err := refRLDecode(enc)
		h.check("interop-rl-ref-decodes-lib", "rl", data, got, err, map[string]any{"enc": common.Hex(enc)})
		if model {
			h.modelLines("rl", enc, data, nil, true)
		}
	}
	{
		enc := h.refRLEncode(data)
		got, err := libDecode(pdf.FilterRunLength{}, v, enc)
		h.check("interop-rl-lib-decodes-ref", "rl", data, got, err, map[string]any{"enc": common.Hex(enc)})
	}
	// ---- ASCIIHex
	if enc, err := libEncode(pdf.FilterASCIIHex{}, v, data); err != nil {
		h.check("interop-ahx-lib-encode", "ahx", data, nil, err, nil)
	} else {
		got, err := refAHxDecode(enc)
		h.check("interop-ahx-ref-decodes-lib", "ahx", data, got, err, map[string]any{"enc": common.Hex(enc)})
		if model {
			h.modelLines("ahx", enc, data, nil, true)
		}
	}
	{
		enc := h.refAHxEncode(data)
		got, err := libDecode(pdf.FilterASCIIHex{}, v, enc)
		h.check("interop-ahx-lib-decodes-ref", "ahx", data, got, err, map[string]any{"enc": common.Hex(enc)})
	}
}

// ---------------------------------------------------------------- predictors against the model

func (h *H) predictors() {
	e := h.e
	for i := 0; i < e.Pick(500, 8000); i++ {
		pred := []int{2, 10, 11, 12, 13, 14, 15}[e.Rand.IntN(7)]
		colors := 1 + e.Rand.IntN(5)
		bpc := []int{1, 2, 4, 8, 16}[e.Rand.IntN(5)]
		columns := 1 + e.Rand.IntN(20)
		rows := e.Rand.IntN(5)
		p := &predict.Params{Colors: colors, BitsPerComponent: bpc, Columns: columns, Predictor: pred}
		rowBytes := (colors*bpc*columns + 7) / 8
		data := h.data(rowBytes * rows)
		buf := &bytes.Buffer{}
		w, err := predict.NewWriter(nopWC{buf}, p)
		if err != nil {
			continue
		}
		w.Write(data)
		w.Close()
		kind := "png"
		var tags []byte
		if pred == 2 {
			kind = "tiff"
		} else {
			tags = make([]byte, rows)
			for j := range tags {
				if pred == 15 {
					tags[j] = byte(e.Rand.UintN(5))
				} else {
					tags[j] = byte(pred - 10)
				}
			}
		}
		spec := fmt.Sprintf("%s:%d:%d:%d", kind, colors, bpc, columns)
		h.modelLines(spec, buf.Bytes(), data, tags, true)
		e.Count(len(data) > 0, spec+common.Hex(data), fmt.Sprintf("predictor-model:%d", pred))
	}
}

// structuredRows: row sequences that exercise the predictors' bookkeeping between rows and the borrows/carries
// inside a row: uniform rows, rows equal to / slightly different from the previous row or the row before that
// (a blank line between two similar lines), ascending and descending values at byte and nibble steps, random rows.
func structuredRows(r interface {
	IntN(int) int
	UintN(uint) uint
}, rowBytes, rows int) []byte {
	out := make([]byte, 0, rowBytes*rows)
	row := func(i int) []byte { return out[i*rowBytes : (i+1)*rowBytes] }
	pattern := -1
	if rows >= 3 && r.IntN(2) == 0 {
		pattern = r.IntN(rows - 2) // rows pattern, pattern+1, pattern+2 are: some row, a uniform row, nearly the first again
	}
	for i := 0; i < rows; i++ {
		cur := make([]byte, rowBytes)
		kind := r.IntN(7)
		if pattern >= 0 && i == pattern+1 {
			kind = 1
		} else if pattern >= 0 && i == pattern+2 {
			kind = 6
		} else if pattern >= 0 && i == pattern && kind == 1 {
			kind = 0
		}
		switch {
		case kind == 1:
			v := []byte{0, 0xff, byte(r.UintN(256))}[r.IntN(3)]
			if i > 0 && rowBytes > 0 && row(i - 1)[0] == v {
				v ^= 0x5a
			}
			for j := range cur {
				cur[j] = v
			}
		case kind == 2 && i > 0:
			copy(cur, row(i-1))
		case kind == 3 && i > 0:
			copy(cur, row(i-1))
			for k := 0; k < 1+rowBytes/8; k++ {
				cur[r.IntN(rowBytes)] += byte(1 + r.UintN(3))
			}
		case kind == 4 || kind == 5:
			step := []byte{1, 0x11, 0x10, 0x55, 3, 0x0f}[r.IntN(6)]
			if kind == 5 {
				step = -step
			}
			v := byte(r.UintN(256))
			for j := range cur {
				cur[j] = v
				v += step
			}
		case kind == 6 && i > 1:
			copy(cur, row(i-2))
			if rowBytes > 0 && r.IntN(2) == 0 {
				cur[r.IntN(rowBytes)] ^= 1
			}
		default:
			for j := range cur {
				cur[j] = byte(r.UintN(256))
			}
		}
		out = append(out, cur...)
	}
	return out
}

// predictorGrid: the library's predictor output for every predictor x BitsPerComponent x Colors x Columns with
// structured rows, undone by the independent un-predictor (the model of the TIFF 6.0 / PNG definitions).
func (h *H) predictorGrid() {
	e := h.e
	for _, pred := range []int{2, 10, 11, 12, 13, 14, 15} {
		for _, bpc := range []int{1, 2, 4, 8, 16} {
			for _, colors := range []int{1, 2, 3, 4, 5, 60, 255} {
				for _, columns := range []int{1, 2, 3, 8, 17} {
					if colors > 5 && (columns > 2 || (bpc > 4 && !e.Thorough)) {
						continue
					}
					for k := 0; k < e.Pick(1, 4); k++ {
						rows := 3 + e.Rand.IntN(3)
						p := &predict.Params{Colors: colors, BitsPerComponent: bpc, Columns: columns, Predictor: pred}
						rowBytes := (colors*bpc*columns + 7) / 8
						data := structuredRows(e.Rand, rowBytes, rows)
						buf := &bytes.Buffer{}
						w, err := predict.NewWriter(nopWC{buf}, p)
						if err != nil {
							continue
						}
						w.Write(data)
						w.Close()
						kind := "png"
						var tags []byte
						if pred == 2 {
							kind = "tiff"
						} else {
							tags = make([]byte, rows)
							for j := range tags {
								tags[j] = byte(pred - 10)
								if pred == 15 {
									tags[j] = byte(e.Rand.UintN(5))
								}
							}
						}
						spec := fmt.Sprintf("%s:%d:%d:%d", kind, colors, bpc, columns)
						h.modelLines(spec, buf.Bytes(), data, tags, k == 0 && colors <= 5)
						e.Count(true, "grid"+spec+common.Hex(data), fmt.Sprintf("predictor-grid:%d", pred))
					}
				}
			}
		}
	}
}

// ---------------------------------------------------------------- PNG predictors against image/png

func pngChunk(buf *bytes.Buffer, typ string, data []byte) {
	var l [4]byte
	binary.BigEndian.PutUint32(l[:], uint32(len(data)))
	buf.Write(l[:])
	buf.WriteString(typ)
	buf.Write(data)
	crc := crc32.NewIEEE()
	crc.Write([]byte(typ))
	crc.Write(data)
	binary.BigEndian.PutUint32(l[:], crc.Sum32())
	buf.Write(l[:])
}

// pngFile wraps rows that carry PNG filter-type bytes into a PNG file.
func pngFile(cols, rows, bpc, colorType int, filtered []byte) []byte {
	buf := &bytes.Buffer{}
	buf.WriteString("\x89PNG\r\n\x1a\n")
	ihdr := make([]byte, 13)
	binary.BigEndian.PutUint32(ihdr[0:], uint32(cols))
	binary.BigEndian.PutUint32(ihdr[4:], uint32(rows))
	ihdr[8], ihdr[9] = byte(bpc), byte(colorType)
	pngChunk(buf, "IHDR", ihdr)
	z := &bytes.Buffer{}
	zw := zlib.NewWriter(z)
	zw.Write(filtered)
	zw.Close()
	pngChunk(buf, "IDAT", z.Bytes())
	pngChunk(buf, "IEND", nil)
	return buf.Bytes()
}

// rawPixels gives the sample bytes of a decoded image in PDF order (rows padded to bytes).
func rawPixels(img image.Image, cols, rows, bpc, colors int) ([]byte, error) {
	bpr := (cols*colors*bpc + 7) / 8
	out := make([]byte, bpr*rows)
	put := func(y, idx int, v uint32) { // idx-th component of the row
		switch bpc {
		case 16:
			out[y*bpr+2*idx] = byte(v >> 8)
			out[y*bpr+2*idx+1] = byte(v)
		case 8:
			out[y*bpr+idx] = byte(v)
		default:
			per := 8 / bpc
			shift := uint(8 - bpc*(idx%per+1))
			out[y*bpr+idx/per] |= byte(v) << shift
		}
	}
	for y := 0; y < rows; y++ {
		for x := 0; x < cols; x++ {
			switch im := img.(type) {
			case *image.Gray:
				v := uint32(im.GrayAt(x, y).Y)
				if bpc < 8 {
					v = v * (1<<uint(bpc) - 1) / 255 // image/png scales small samples up to 8 bits
				}
				put(y, x, v)
			case *image.Gray16:
				put(y, x, uint32(im.Gray16At(x, y).Y))
			case *image.RGBA: // colour type 2, 8 bits
				c := im.RGBAAt(x, y)
				put(y, 3*x, uint32(c.R))
				put(y, 3*x+1, uint32(c.G))
				put(y, 3*x+2, uint32(c.B))
			case *image.RGBA64:
				c := im.RGBA64At(x, y)
				put(y, 3*x, uint32(c.R))
				put(y, 3*x+1, uint32(c.G))
				put(y, 3*x+2, uint32(c.B))
			case *image.NRGBA:
				c := im.NRGBAAt(x, y)
				put(y, 4*x, uint32(c.R))
				put(y, 4*x+1, uint32(c.G))
				put(y, 4*x+2, uint32(c.B))
				put(y, 4*x+3, uint32(c.A))
			case *image.NRGBA64:
				c := im.NRGBA64At(x, y)
				put(y, 4*x, uint32(c.R))
				put(y, 4*x+1, uint32(c.G))
				put(y, 4*x+2, uint32(c.B))
				put(y, 4*x+3, uint32(c.A))
			default:
				return nil, fmt.Errorf("unexpected image type %T", img)
			}
		}
	}
	return out, nil
}

func (h *H) pngInterop() {
	e := h.e
	type kind struct{ colors, bpc, colorType int }
	kinds := []kind{{1, 1, 0}, {1, 2, 0}, {1, 4, 0}, {1, 8, 0}, {1, 16, 0}, {3, 8, 2}, {3, 16, 2}, {4, 8, 6}, {4, 16, 6}}
	for i := 0; i < e.Pick(400, 6000); i++ {
		k := kinds[e.Rand.IntN(len(kinds))]
		cols, rows := 1+e.Rand.IntN(24), 1+e.Rand.IntN(6)
		bpr := (cols*k.colors*k.bpc + 7) / 8
		data := h.data(bpr * rows)
		if pad := bpr*8 - cols*k.colors*k.bpc; pad > 0 { // PNG requires nothing of padding bits; compare with zeros
			for y := 0; y < rows; y++ {
				data[y*bpr+bpr-1] &= 0xff << uint(pad)
			}
		}
		// A: the library filters, image/png reconstructs
		pred := 10 + e.Rand.IntN(6)
		p := &predict.Params{Colors: k.colors, BitsPerComponent: k.bpc, Columns: cols, Predictor: pred}
		buf := &bytes.Buffer{}
		w, err := predict.NewWriter(nopWC{buf}, p)
		if err != nil {
			continue
		}
		w.Write(data)
		w.Close()
		var got []byte
		img, err := png.Decode(bytes.NewReader(pngFile(cols, rows, k.bpc, k.colorType, buf.Bytes())))
		if err == nil {
			got, err = rawPixels(img, cols, rows, k.bpc, k.colors)
		}
		h.check("interop-png-imagepng-decodes-lib", fmt.Sprintf("png:%d:%d:%d", k.colors, k.bpc, cols), data, got, err,
			map[string]any{"predictor": pred, "rows": rows, "filtered": common.Hex(buf.Bytes())})
		// B: image/png filters (its encoder picks a filter per row), the library reconstructs
		if k.bpc < 8 {
			continue // image/png writes 8 or 16 bit samples only
		}
		var src image.Image
		idx := func(y, c int) int { return y*bpr + c*k.bpc/8 }
		switch {
		case k.colors == 1 && k.bpc == 8:
			im := image.NewGray(image.Rect(0, 0, cols, rows))
			for y := 0; y < rows; y++ {
				for x := 0; x < cols; x++ {
					im.SetGray(x, y, color.Gray{Y: data[idx(y, x)]})
				}
			}
			src = im
		case k.colors == 1:
			im := image.NewGray16(image.Rect(0, 0, cols, rows))
			for y := 0; y < rows; y++ {
				for x := 0; x < cols; x++ {
					im.SetGray16(x, y, color.Gray16{Y: uint16(data[idx(y, x)])<<8 | uint16(data[idx(y, x)+1])})
				}
			}
			src = im
		case k.colors == 4 && k.bpc == 8:
			im := image.NewNRGBA(image.Rect(0, 0, cols, rows))
			for y := 0; y < rows; y++ {
				for x := 0; x < cols; x++ {
					a := data[idx(y, 4*x+3)]
					if a == 0xff { // keep the alpha channel in the file
						a = 0xfe
						data[idx(y, 4*x+3)] = a
					}
					im.SetNRGBA(x, y, color.NRGBA{R: data[idx(y, 4*x)], G: data[idx(y, 4*x+1)], B: data[idx(y, 4*x+2)], A: a})
				}
			}
			src = im
		default:
			continue
		}
		pbuf := &bytes.Buffer{}
		if err := (&png.Encoder{CompressionLevel: png.BestSpeed}).Encode(pbuf, src); err != nil {
			continue
		}
		filtered, ct, depth, err := pngIDAT(pbuf.Bytes())
		if err != nil || depth != k.bpc || ct != k.colorType {
			e.Count(false, "", "png-encoder-chose-other-format")
			continue
		}
		p2 := &predict.Params{Colors: k.colors, BitsPerComponent: k.bpc, Columns: cols, Predictor: 15}
		var got2 []byte
		rd, err := predict.NewReader(io.NopCloser(bytes.NewReader(filtered)), p2, membudget.New(1<<30))
		if err == nil {
			got2, err = io.ReadAll(rd)
		}
		h.check("interop-png-lib-decodes-imagepng", fmt.Sprintf("png:%d:%d:%d", k.colors, k.bpc, cols), data, got2, err,
			map[string]any{"rows": rows, "filtered": common.Hex(filtered)})
	}
}

// pngIDAT returns the inflated IDAT data, colour type and bit depth of a PNG file.
func pngIDAT(file []byte) ([]byte, int, int, error) {
	if len(file) < 8 {
		return nil, 0, 0, errors.New("short")
	}
	pos := 8
	var idat []byte
	ct, depth := -1, -1
	for pos+8 <= len(file) {
		l := int(binary.BigEndian.Uint32(file[pos:]))
		typ := string(file[pos+4 : pos+8])
		if pos+8+l+4 > len(file) {
			return nil, 0, 0, errors.New("bad chunk")
		}
		body := file[pos+8 : pos+8+l]
		switch typ {
		case "IHDR":
			depth, ct = int(body[8]), int(body[9])
		case "IDAT":
			idat = append(idat, body...)
		}
		pos += 8 + l + 4
	}
	zr, err := zlib.NewReader(bytes.NewReader(idat))
	if err != nil {
		return nil, 0, 0, err
	}
	raw, err := io.ReadAll(zr)
	return raw, ct, depth, err
}

// ---------------------------------------------------------------- CCITTFax against x/image/ccitt

func (h *H) ccittImage(cols, rows int) []byte {
	r := h.e.Rand
	bpr := (cols + 7) / 8
	data := make([]byte, bpr*rows)
	set := func(row, x int, v bool) {
		if v {
			data[row*bpr+x/8] |= 0x80 >> (x % 8)
		}
	}
	for row := 0; row < rows; row++ {
		switch r.IntN(5) {
		case 0:
			for x := 0; x < cols; x++ {
				set(row, x, r.IntN(2) == 0)
			}
		case 1:
			v := r.IntN(2) == 0
			for x := 0; x < cols; x++ {
				set(row, x, v)
			}
		case 2, 3:
			lens := []int{1, 2, 3, 5, 8, 13, 63, 64, 65, 127, 128, 129, 192, 320}
			last := 0
			if cols >= 64 && r.IntN(4) != 0 {
				last = 64 * (1 + r.IntN(cols/64))
			}
			v := r.IntN(2) == 0
			x := 0
			for x < cols-last {
				l := min(lens[r.IntN(len(lens))], cols-last-x)
				for ; l > 0; l-- {
					set(row, x, v)
					x++
				}
				v = !v
			}
			for ; x < cols; x++ {
				set(row, x, v)
			}
		default:
			if row > 0 {
				sh := r.IntN(3) - 1
				for x := 0; x < cols; x++ {
					px := x + sh
					if px >= 0 && px < cols && data[(row-1)*bpr+px/8]&(0x80>>(px%8)) != 0 {
						set(row, x, true)
					}
				}
			}
		}
	}
	return data
}

func (h *H) ccittCases() {
	e := h.e
	colsList := []int{1, 2, 3, 5, 7, 8, 9, 13, 40, 61, 63, 64, 65, 128, 130, 200, 256, 1728, 1792, 2560, 2561, 2700, 5200}
	for _, K := range []int{-1, 0} {
		for _, eol := range []bool{false, true} {
			for _, align := range []bool{false, true} {
				for _, ieob := range []bool{false, true} {
					for t := 0; t < e.Pick(40, 600); t++ {
						cols := colsList[e.Rand.IntN(len(colsList))]
						rows := 1 + e.Rand.IntN(6)
						f := pdf.FilterCCITTFax{K: K, EndOfLine: eol, EncodedByteAlign: align, Columns: cols,
							IgnoreEndOfBlock: ieob, BlackIs1: e.Rand.IntN(2) == 0}
						if e.Rand.IntN(2) == 0 {
							f.Rows = rows
						}
						h.ccittCase(f, h.ccittImage(cols, rows), cols, rows)
					}
				}
			}
		}
	}
}

// every run length 0..2700 of either colour once: each terminating and make-up code of the tables
// is read by x/image/ccitt (which has its own tables) and by the Coq model
func (h *H) ccittRunSweep() {
	e := h.e
	step := e.Pick(1, 1)
	for n := 0; n <= 2700; n += step {
		for _, black := range []bool{false, true} {
			cols := n + 6
			bpr := (cols + 7) / 8
			data := make([]byte, bpr*2)
			// BlackIs1=false: white pixels are 1
			for row := 0; row < 2; row++ {
				for x := 0; x < cols; x++ {
					white := true
					if black {
						white = x < 1 || x >= 1+n
					} else {
						white = x < n || x >= n+3 && x < n+5
						if row == 1 {
							white = x < n
						}
					}
					if white {
						data[row*bpr+x/8] |= 0x80 >> (x % 8)
					}
				}
			}
			h.ccittCase(pdf.FilterCCITTFax{K: 0, EndOfLine: true, Columns: cols}, data, cols, 2)
		}
	}
}


// wideCols: widths at the large end of the accepted range: around k*2560 (the longest make-up code),
// around 64*2560 = 163840 (64 make-up codes in one run) and at the limit 1<<20.
var wideColsSmall = []int{2559, 2560, 2561, 5119, 5120, 5121, 7680, 7681}
var wideColsLarge = []int{163839, 163840, 163841, 163840 + 2560, 166400 + 63, 1<<20 - 1, 1 << 20}

// wideRow paints one row: kind 0 one colour, 1 the other colour, 2 one very long run then short runs,
// 3 short runs then one very long run, 4 two long runs.
func wideRow(data []byte, cols int, kind int, rnd interface{ IntN(int) int }) {
	set := func(from, to int) { // pixels [from, to) := 1
		for x := from; x < to && x < cols; x++ {
			if x%8 == 0 && x+8 <= to && x+8 <= cols {
				data[x/8] = 0xff
				x += 7
				continue
			}
			data[x/8] |= 0x80 >> (x % 8)
		}
	}
	switch kind {
	case 0:
	case 1:
		set(0, cols)
	case 2:
		long := cols - 1 - rnd.IntN(min(cols, 40))
		set(0, long)
		for x := long + 1 + rnd.IntN(3); x < cols; x += 2 + rnd.IntN(5) {
			set(x, x+1)
		}
	case 3:
		short := rnd.IntN(min(cols, 40))
		for x := rnd.IntN(3); x < short; x += 2 + rnd.IntN(5) {
			set(x, x+1)
		}
		set(short, cols)
	default:
		mid := cols/2 + rnd.IntN(64) - 32
		if mid < 0 || mid > cols {
			mid = cols / 2
		}
		if rnd.IntN(2) == 0 {
			set(0, mid)
		} else {
			set(mid, cols)
		}
	}
}

// ccittWide: wide rows of very long runs, read by x/image/ccitt (Group 4, Group 3 with EOL) and the model
func (h *H) ccittWide() {
	e := h.e
	for _, K := range []int{-1, 0} {
		for _, eol := range []bool{false, true} {
			for _, align := range []bool{false, true} {
				for _, bi1 := range []bool{false, true} {
					for _, ieob := range []bool{false, true} {
						widths := []int{wideColsSmall[e.Rand.IntN(len(wideColsSmall))], wideColsLarge[e.Rand.IntN(len(wideColsLarge))]}
						if e.Thorough {
							widths = append(append([]int{}, wideColsSmall...), wideColsLarge...)
						}
						for _, cols := range widths {
							rows := 1 + e.Rand.IntN(2)
							f := pdf.FilterCCITTFax{K: K, EndOfLine: eol, EncodedByteAlign: align, Columns: cols, IgnoreEndOfBlock: ieob, BlackIs1: bi1}
							bpr := (cols + 7) / 8
							data := make([]byte, bpr*rows)
							for r := 0; r < rows; r++ {
								kind := e.Rand.IntN(5)
								if r == 0 && e.Rand.IntN(2) == 0 {
									kind = e.Rand.IntN(2)
								}
								wideRow(data[r*bpr:(r+1)*bpr], cols, kind, e.Rand)
							}
							h.ccittCase(f, data, cols, rows)
						}
					}
				}
			}
		}
	}
}

func (h *H) ccittCase(f pdf.FilterCCITTFax, data []byte, cols, rows int) {
	e := h.e
	label := fmt.Sprintf("K=%d EndOfLine=%v EncodedByteAlign=%v EndOfBlock=%v Rows=%d Columns=%d BlackIs1=%v", f.K, f.EndOfLine, f.EncodedByteAlign, !f.IgnoreEndOfBlock, f.Rows, cols, f.BlackIs1)
	if f.K < 0 && (cols <= 300 || cols <= 3000 && e.Rand.IntN(12) == 0) {
		// the Coq model of T.6 coding (coq/C06/CCITT2D.v) as a second referee for Group 4 (both directions)
		if enc, err := libEncode(f, pdf.V1_7, data); err == nil {
			maxRows := f.Rows // the model derives the limit from /Columns and /Rows itself
			b := func(v bool) int {
				if v {
					return 1
				}
				return 0
			}
			spec := fmt.Sprintf("g4:%d:%d:%d:%d:%d", cols, b(f.EncodedByteAlign), b(f.BlackIs1), b(f.IgnoreEndOfBlock), maxRows)
			h.modelLines(spec, enc, data, nil, true)
			e.Count(true, spec+common.Hex(data), "ccitt-g4-model-referee")
		}
	}
	if f.K == 0 && (cols <= 300 || cols <= 10000 && e.Rand.IntN(4) == 0) {
		// the Coq model of T.4 one-dimensional coding as a second referee (both directions)
		if enc, err := libEncode(f, pdf.V1_7, data); err == nil {
			maxRows := f.Rows // the model derives the limit from /Columns and /Rows itself
			b := func(v bool) int {
				if v {
					return 1
				}
				return 0
			}
			spec := fmt.Sprintf("g3:%d:%d:%d:%d:%d:%d", cols, b(f.EndOfLine), b(f.EncodedByteAlign), b(f.BlackIs1), b(f.IgnoreEndOfBlock), maxRows)
			h.modelLines(spec, enc, data, nil, true)
			e.Count(true, spec+common.Hex(data), "ccitt-model-referee")
		}
	}
	if f.K == 0 && !f.EndOfLine {
		// T.4 one-dimensional coding without EOL codes is a PDF-only variant; x/image/ccitt implements T.4 proper
		e.Count(false, "", "ccitt-no-referee:G3-without-EOL")
		return
	}
	if f.K == 0 && f.EndOfLine && f.EncodedByteAlign {
		// the library (like xpdf, pdf.js, mupdf) pads before the EOL code, so that EOL starts on a byte
		// boundary; x/image/ccitt skips to the byte boundary after the EOL code
		e.Count(false, "", "ccitt-no-referee:G3-EOL-byte-align-convention")
		return
	}
	enc, err := libEncode(f, pdf.V1_7, data)
	if err != nil {
		e.Count(false, "", "rejected:ccitt")
		return
	}
	sf := ccitt.Group3
	if f.K < 0 {
		sf = ccitt.Group4
	}
	rd := ccitt.NewReader(bytes.NewReader(enc), ccitt.MSB, sf, cols, rows, &ccitt.Options{Invert: f.BlackIs1, Align: f.EncodedByteAlign})
	got, err := io.ReadAll(rd)
	ok := err == nil && bytes.Equal(got, data)
	if !ok {
		sig := fmt.Sprintf("interop-ccitt-K%d-eol%v-align%v-eob%v", f.K, f.EndOfLine, f.EncodedByteAlign, !f.IgnoreEndOfBlock)
		h.fail(sig, fmt.Sprintf("CCITTFax %s: x/image/ccitt does not read the library's encoding back (%d rows; %d bytes for %d, err=%v)", label, rows, len(got), len(data), err),
			map[string]any{"filter": fmt.Sprintf("%#v", f), "cols": cols, "rows": rows, "data": common.Hex(data), "enc": common.Hex(enc)})
	}
	e.Count(true, label+common.Hex(data), fmt.Sprintf("ccitt-ximage:%s", map[bool]string{true: "ok", false: "fail"}[ok]))
}

// ---------------------------------------------------------------- phase 2: the library decodes what the model encoded

func filterFor(spec string) (pdf.Filter, *predict.Params) {
	switch spec {
	case "a85":
		return pdf.FilterASCII85{}, nil
	case "ahx":
		return pdf.FilterASCIIHex{}, nil
	case "rl":
		return pdf.FilterRunLength{}, nil
	case "lzw0":
		return pdf.FilterLZW{OffByOne: false}, nil
	case "lzw1":
		return pdf.FilterLZW{OffByOne: true}, nil
	}
	parts := strings.Split(spec, ":")
	if len(parts) == 6 && parts[0] == "g4" {
		cols, _ := strconv.Atoi(parts[1])
		rows, _ := strconv.Atoi(parts[5])
		return pdf.FilterCCITTFax{K: -1, Columns: cols, EncodedByteAlign: parts[2] == "1",
			BlackIs1: parts[3] == "1", IgnoreEndOfBlock: parts[4] == "1", Rows: rows}, nil
	}
	if len(parts) == 7 && parts[0] == "g3" {
		cols, _ := strconv.Atoi(parts[1])
		rows, _ := strconv.Atoi(parts[6])
		return pdf.FilterCCITTFax{K: 0, Columns: cols, EndOfLine: parts[2] == "1", EncodedByteAlign: parts[3] == "1",
			BlackIs1: parts[4] == "1", IgnoreEndOfBlock: parts[5] == "1", Rows: rows}, nil
	}
	if len(parts) == 4 {
		c, _ := strconv.Atoi(parts[1])
		b, _ := strconv.Atoi(parts[2])
		n, _ := strconv.Atoi(parts[3])
		p := &predict.Params{Colors: c, BitsPerComponent: b, Columns: n, Predictor: 2}
		if parts[0] == "png" {
			p.Predictor = 12
		}
		return nil, p
	}
	return nil, nil
}

func phase2() {
	cases := map[string][]string{}
	for _, fs := range common.ReadLines("cases.txt") {
		if len(fs) >= 4 && fs[1] == "E" {
			cases[fs[0]] = fs
		}
	}
	impl, _ := os.Create("impl2.obs")
	expect, _ := os.Create("expect2.obs")
	defer impl.Close()
	defer expect.Close()
	var ids []string
	enc := map[string]string{}
	for _, fs := range common.ReadLines("model.obs") {
		if len(fs) == 3 && fs[1] == "enc" {
			if _, ok := cases[fs[0]]; ok {
				ids = append(ids, fs[0])
				enc[fs[0]] = fs[2]
			}
		}
	}
	sort.Strings(ids)
	for _, id := range ids {
		c := cases[id]
		data := common.UnHex(c[3])
		e := common.UnHex(enc[id])
		f, pp := filterFor(c[2])
		var out []byte
		var err error
		if f != nil {
			out, err = libDecode(f, pdf.V1_7, e)
		} else if pp != nil {
			var rd io.ReadCloser
			rd, err = predict.NewReader(io.NopCloser(bytes.NewReader(e)), pp, membudget.New(1<<30))
			if err == nil {
				out, err = io.ReadAll(rd)
			}
		} else {
			err = errors.New("unknown codec")
		}
		fmt.Fprintf(impl, "%s %s\n", id, obsOf(out, err))
		fmt.Fprintf(expect, "%s ok %s\n", id, common.Hex(data))
	}
}

func main() {
	for _, a := range os.Args[1:] {
		if a == "-phase2" {
			phase2()
			return
		}
	}
	e := common.New(0xC07)
	h := &H{e: e}
	// boundary lengths
	for _, n := range []int{0, 1, 2, 3, 4, 5, 7, 8, 9, 38, 39, 40, 41, 127, 128, 129, 130, 255, 256, 257, 258, 259} {
		for k := 0; k < 3; k++ {
			h.codecs(h.data(n), true)
		}
	}
	for i := 0; i < e.Pick(400, 8000); i++ {
		h.codecs(h.data(e.Rand.IntN(600)), i%4 == 0)
	}
	// long inputs: every LZW code width, full table and beyond
	for _, target := range []int{512, 1024, 2048, 4096, 9000} {
		for k := 0; k < e.Pick(2, 10); k++ {
			d := make([]byte, target+e.Rand.IntN(target))
			alpha := []uint{256, 256, 16}[e.Rand.IntN(3)]
			for i := range d {
				d[i] = byte(e.Rand.UintN(alpha))
			}
			if alpha < 256 {
				d = append(d, h.data(target*2)...)
			}
			h.codecs(d, k == 0)
		}
	}
	// LZW code-width switches and table-full clear
	for i, d := range lzwBoundaryInputs(e.Rand, !e.Thorough) {
		h.lzw(d, len(d) < 8000 || i%4 == 0)
	}
	h.lzwDegenerate()
	h.predictors()
	h.predictorGrid()
	h.pngInterop()
	h.ccittCases()
	h.ccittRunSweep()
	h.ccittWide()
	e.Finish("one evaluation = one (codec, direction, input); non-trivial when the input is not empty; distinct by codec, direction and content",
		map[string]any{})
}
