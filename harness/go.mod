module seehuhn.de/go/pdf/verifharness

go 1.25.0

require (
	golang.org/x/image v0.44.0
	seehuhn.de/go/pdf v0.0.0
)

replace seehuhn.de/go/pdf => /repo
