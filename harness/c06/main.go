// C06 harness: stream filters round trip, parameters survive the dictionary.
//
// Phase 1 (default): generates cases from the seeded PRNG, runs the property
// oracle directly on the implementation (Encode -> Info -> MakeFilter -> Decode
// with random write/read chunkings; Info/MakeFilter fixpoint; chains through
// Writer.OpenStream + DecodeStream for every version) and writes
//
//	cases.txt   cases for the extracted Coq model (ocaml/c06/driver.ml)
//	impl.obs    what the implementation observed for the same cases
//	fails.jsonl failing inputs of the property on the implementation
//	stats.json
//
// Phase 2 (-phase2): reads cases.txt + model.obs and lets the implementation
// decode what the *model* encoded (model-encode -> impl-decode), writing
// impl2.obs / expect2.obs.
package main

import (
	"bytes"
	"errors"
	"fmt"
	"io"
	"os"
	"sort"
	"strconv"
	"strings"

	"seehuhn.de/go/membudget"
	"seehuhn.de/go/pdf"
	"seehuhn.de/go/pdf/internal/filter/predict"
	"seehuhn.de/go/pdf/verifharness/common"
)

type nopWC struct{ io.Writer }

func (nopWC) Close() error { return nil }

type H struct {
	e      *common.Env
	nextID int
	nsig   map[string]int
}

// fail records a failing input; at most 6 per signature, so that the classes with
// known defects cannot use up the room for new ones (common.Env keeps 200 in all).
func (h *H) fail(sig, what string, c any) {
	if h.nsig == nil {
		h.nsig = map[string]int{}
	}
	h.nsig[sig]++
	if h.nsig[sig] <= 6 {
		h.e.Fail(sig, what, c)
	}
}


func (h *H) id(prefix string) string {
	h.nextID++
	return fmt.Sprintf("%s%d", prefix, h.nextID)
}

// ---------------------------------------------------------------- chunked I/O

func (h *H) chunkWrite(w io.Writer, data []byte, chunked bool) error {
	if !chunked {
		_, err := w.Write(data)
		return err
	}
	r := h.e.Rand
	for len(data) > 0 {
		var k int
		switch r.IntN(5) {
		case 0:
			k = 1
		case 1:
			k = r.IntN(4)
		case 2:
			k = 1 + r.IntN(16)
		case 3:
			k = 1 + r.IntN(300)
		default:
			k = 1 + r.IntN(5000)
		}
		k = min(k, len(data))
		n, err := w.Write(data[:k])
		if err != nil {
			return err
		}
		if n != k {
			return io.ErrShortWrite
		}
		data = data[k:]
	}
	return nil
}

func (h *H) chunkRead(rd io.Reader, chunked bool) ([]byte, error) {
	if !chunked {
		return io.ReadAll(rd)
	}
	r := h.e.Rand
	var out []byte
	buf := make([]byte, 6000)
	zero := 0
	for {
		var k int
		switch r.IntN(5) {
		case 0:
			k = 1
		case 1:
			k = 1 + r.IntN(3)
		case 2:
			k = 1 + r.IntN(16)
		case 3:
			k = 1 + r.IntN(300)
		default:
			k = 1 + r.IntN(6000)
		}
		n, err := rd.Read(buf[:k])
		out = append(out, buf[:n]...)
		if err == io.EOF {
			return out, nil
		}
		if err != nil {
			return out, err
		}
		if n == 0 {
			zero++
			if zero > 100 {
				return out, io.ErrNoProgress
			}
		} else {
			zero = 0
		}
	}
}

func (h *H) implEncode(f pdf.Filter, v pdf.Version, data []byte, chunked bool) (enc []byte, err error) {
	defer func() {
		if r := recover(); r != nil {
			err = fmt.Errorf("panic: %v", r)
		}
	}()
	buf := &bytes.Buffer{}
	w, err := f.Encode(v, nopWC{buf})
	if err != nil {
		return nil, errRejected{err}
	}
	if err := h.chunkWrite(w, data, chunked); err != nil {
		return nil, err
	}
	if err := w.Close(); err != nil {
		return nil, err
	}
	return buf.Bytes(), nil
}

type errRejected struct{ error }

func isRejected(err error) bool {
	var r errRejected
	return errors.As(err, &r)
}

func (h *H) implDecode(f pdf.Filter, v pdf.Version, enc []byte, chunked bool) (out []byte, err error) {
	defer func() {
		if r := recover(); r != nil {
			err = fmt.Errorf("panic: %v", r)
		}
	}()
	rd, err := f.Decode(v, bytes.NewReader(enc), membudget.New(1<<30))
	if err != nil {
		return nil, err
	}
	out, err = h.chunkRead(rd, chunked)
	rd.Close()
	return out, err
}

func obsOf(out []byte, err error) string {
	if err != nil {
		return "err"
	}
	return "ok " + common.Hex(out)
}

// ---------------------------------------------------------------- data

func (h *H) data(n int) []byte {
	r := h.e.Rand
	d := make([]byte, n)
	switch r.IntN(7) {
	case 0: // random
		for i := range d {
			d[i] = byte(r.UintN(256))
		}
	case 1: // all equal
		b := byte(r.UintN(256))
		if r.IntN(2) == 0 {
			b = 0
		}
		for i := range d {
			d[i] = b
		}
	case 2: // runs
		i := 0
		for i < n {
			l := []int{1, 2, 3, 4, 5, 127, 128, 129, 130, 255, 256, 257}[r.IntN(12)]
			if r.IntN(2) == 0 {
				l = 1 + r.IntN(6)
			}
			b := byte(r.UintN(4))
			for ; l > 0 && i < n; l-- {
				d[i] = b
				i++
			}
		}
	case 3: // small alphabet
		for i := range d {
			d[i] = byte(r.UintN(3))
		}
	case 4: // zero words mixed with random
		for i := 0; i < n; i += 4 {
			z := r.IntN(2) == 0
			for j := i; j < i+4 && j < n; j++ {
				if !z {
					d[j] = byte(r.UintN(256))
				}
			}
		}
	case 5: // periodic
		p := 1 + r.IntN(7)
		for i := range d {
			d[i] = byte(i % p)
		}
	default: // high bytes
		for i := range d {
			d[i] = byte(250 + r.UintN(6))
		}
	}
	return d
}

// boundary lengths around a block size
func around(bs ...int) []int {
	var res []int
	for _, b := range bs {
		for d := -4; d <= 4; d++ {
			if b+d >= 0 {
				res = append(res, b+d)
			}
		}
	}
	return res
}

// ---------------------------------------------------------------- mutations

func (h *H) mutate(enc []byte) []byte {
	r := h.e.Rand
	m := append([]byte{}, enc...)
	if len(m) == 0 {
		return []byte{byte(r.UintN(256))}
	}
	for k := 1 + r.IntN(2); k > 0; k-- {
		if len(m) == 0 {
			break
		}
		i := r.IntN(len(m))
		switch r.IntN(8) {
		case 0:
			m[i] ^= 1 << r.UintN(8)
		case 1:
			m[i] = byte(r.UintN(256))
		case 2:
			m = m[:i] // truncate
		case 3:
			m = append(m[:i], m[min(len(m), i+1+r.IntN(3)):]...)
		case 4:
			ins := []byte{' ', '\n', 'z', '~', '>', 128, 0, 255, 'u', '!', 'G'}[r.IntN(11)]
			m = append(m[:i], append([]byte{ins}, m[i:]...)...)
		case 5:
			m = append(m, byte(r.UintN(256)))
		case 6:
			if len(m) > 1 {
				m = m[:len(m)-1-r.IntN(min(3, len(m)-1))]
			}
		default:
			j := r.IntN(len(m))
			m[i], m[j] = m[j], m[i]
		}
	}
	return m
}

// ---------------------------------------------------------------- simple codecs

type codec struct {
	name   string // model codec name
	filter pdf.Filter
	blocks []int
}

func (h *H) codecCase(c codec, v pdf.Version, data []byte, modelShare bool, nmut int) {
	e := h.e
	chunked := e.Rand.IntN(4) != 0
	enc, err := h.implEncode(c.filter, v, data, chunked)
	if err != nil {
		if isRejected(err) {
			e.Count(false, "", "rejected:"+c.name)
			return
		}
		h.fail("rt-"+c.name, "Encode/Close failed: "+err.Error(), map[string]any{"codec": c.name, "version": int(v), "data": common.Hex(data)})
		e.Count(true, c.name+common.Hex(data), "fail:"+c.name)
		return
	}
	name, parms, err := c.filter.Info(v)
	var dec []byte
	if err == nil {
		var g pdf.Filter
		g, err = pdf.MakeFilter(name, parms)
		if err == nil {
			dec, err = h.implDecode(g, v, enc, chunked)
		}
	}
	ok := err == nil && bytes.Equal(dec, data)
	if !ok {
		what := fmt.Sprintf("%s: decode(encode(x)) != x for %d bytes (got %d bytes, err=%v, chunked=%v)", c.name, len(data), len(dec), err, chunked)
		h.fail("rt-"+c.name, what, map[string]any{"codec": c.name, "version": int(v), "data": common.Hex(data), "chunked": chunked})
	}
	e.Count(len(data) > 0, c.name+common.Hex(data), "rt:"+c.name)
	e.Sample(6, map[string]any{"codec": c.name, "len": len(data), "enc_len": len(enc), "chunked": chunked, "ok": ok})
	if !modelShare {
		return
	}
	// impl-encode -> model-decode (the implementation's own reading of it, in one piece, beside it)
	id := h.id("d")
	e.Line("cases.txt", "%s D %s %s", id, c.name, common.Hex(enc))
	dec1, err1 := h.implDecode(c.filter, v, enc, false)
	e.Line("impl.obs", "%s %s", id, obsOf(dec1, err1))
	// model-encode -> impl-decode (phase 2)
	id = h.id("e")
	e.Line("cases.txt", "%s E %s %s", id, c.name, common.Hex(data))
	// decode agreement on damaged encodings
	for i := 0; i < nmut; i++ {
		m := h.mutate(enc)
		out, err := h.implDecode(c.filter, v, m, false)
		id := h.id("m")
		e.Line("cases.txt", "%s D %s %s", id, c.name, common.Hex(m))
		e.Line("impl.obs", "%s %s", id, obsOf(out, err))
		e.Count(true, "mut"+c.name+common.Hex(m), "mutant:"+c.name)
	}
}

func (h *H) simpleCodecs() {
	e := h.e
	codecs := []codec{
		{"a85", pdf.FilterASCII85{}, []int{0, 4, 8, 60, 64, 76, 80}},
		{"ahx", pdf.FilterASCIIHex{}, []int{0, 39, 40, 78, 80}},
		{"rl", pdf.FilterRunLength{}, []int{0, 128, 256, 131}},
		{"lzw0", pdf.FilterLZW{OffByOne: false}, []int{0, 256, 512}},
		{"lzw1", pdf.FilterLZW{OffByOne: true}, []int{0, 256, 512}},
	}
	for _, c := range codecs {
		// boundary lengths, twice each with different data shapes
		for _, n := range around(c.blocks...) {
			for k := 0; k < 2; k++ {
				h.codecCase(c, pdf.V1_7, h.data(n), true, 2)
			}
		}
		// random lengths
		for i := 0; i < e.Pick(600, 3000); i++ {
			n := e.Rand.IntN(700)
			h.codecCase(c, pdf.Version(1+e.Rand.IntN(9)), h.data(n), i%3 == 0, 2)
		}
	}
	// LZW: data long enough to reach every code width and a full table
	for _, c := range codecs[3:] {
		for _, target := range []int{256, 512, 1024, 2048, 4096} {
			for k := 0; k < e.Pick(2, 12); k++ {
				// random bytes: nearly every byte pair is new, so about one code per 1..2 bytes
				n := target + target/2 + e.Rand.IntN(target) - 300
				d := make([]byte, max(n, 0))
				alpha := []uint{256, 256, 16, 2}[e.Rand.IntN(4)]
				for i := range d {
					d[i] = byte(e.Rand.UintN(alpha))
				}
				if alpha < 256 {
					// compressible data needs more input to fill the table
					d = append(d, h.data(target*3)...)
				}
				h.codecCase(c, pdf.V1_7, d, k < 2, 1)
			}
		}
		// code-width switches and the table-full clear, with old-entry and newest-entry (KwKwK) codes
		// on either side of them
		for i, d := range lzwBoundaryInputs(e.Rand, !e.Thorough) {
			h.codecCase(c, pdf.V1_7, d, len(d) < 8000 || i%4 == 0, 0)
		}
		// exactly at the table limits: walk the length in steps of 1 around the points where
		// the code width changes for incompressible data
		for _, n := range around(253, 254, 255, 509, 510, 511) {
			d := make([]byte, n)
			for i := range d {
				d[i] = byte(i*7 + i/256)
			}
			h.codecCase(c, pdf.V1_7, d, true, 0)
		}
	}
}


// lzwBoundaryInputs: inputs that bring the LZW encoder to a chosen number of emitted codes with
// an incompressible prefix (no byte pair occurs twice, so every code is a single literal and the
// prefix of p bytes yields exactly p-1 codes plus the pending one), followed by tails that make
// the next codes (a) old entries, (b) the newest entry (KwKwK: runs and short periods), random
// data, or the end of data.  p is swept over windows around the code-width switches
// (255, 767, 1791 codes, minus EarlyChange) and the table-full clear (3839 codes).
func lzwBoundaryInputs(rnd interface{ UintN(uint) uint }, quick bool) [][]byte {
	seen := map[[2]byte]bool{}
	prefix := make([]byte, 0, 4000)
	for len(prefix) < 3900 {
		b := byte(rnd.UintN(256))
		if len(prefix) > 0 {
			k := [2]byte{prefix[len(prefix)-1], b}
			if seen[k] {
				continue
			}
			seen[k] = true
		}
		prefix = append(prefix, b)
	}
	rep := func(b byte, n int) []byte { return bytes.Repeat([]byte{b}, n) }
	var res [][]byte
	for _, t := range []int{255, 767, 1791, 3839} {
		win := 6
		if t == 3839 {
			win = 10
		}
		for p := t - win; p <= t+win; p++ {
			pre := prefix[:p]
			last := pre[p-1]
			tails := [][]byte{
				nil,
				rep(last, 40),
				rep(last^0x55, 60),
				rep(0, 3000),
				bytes.Repeat([]byte{last, last ^ 1}, 40),
				bytes.Repeat([]byte{7, 8, 9}, 30),
				append(rep(last, 5), prefix[100:160]...),
				prefix[p : p+50],
			}
			for i, tl := range tails {
				if quick && t != 3839 && i%2 == 1 && p%2 == 1 {
					continue
				}
				res = append(res, append(append([]byte{}, pre...), tl...))
			}
		}
	}
	// noisy rows followed by blank rows: the table fills up inside the run
	for d := -40; d <= 40; d++ {
		n := 3839 + d
		noise := make([]byte, n)
		for i := range noise {
			noise[i] = byte(rnd.UintN(256))
		}
		res = append(res, append(noise, rep(0, 30000)...))
		if !quick || d%4 == 0 {
			noise2 := append([]byte{}, noise...)
			res = append(res, append(noise2, bytes.Repeat([]byte{1, 2}, 4000)...))
		}
	}
	return res
}

// ---------------------------------------------------------------- LZW: maximal code expansion

// A degenerate input: q incompressible bytes (each uses up one table entry), then a pattern of the
// given period repeated up to n bytes in all.  With period 1 the table strings grow 1, 2, 3, ... bytes, so the
// k-th code expands to about k bytes: expansions of more than 2048 bytes need over 2 MB of input, the longest
// possible one (maxCode-256 = 3839 bytes, table full) 7.4 MB; with period p it takes about 1/p of that to fill
// the table and the strings reach 1/p of the length.  This is the only way to make the reader stage long
// expansions at the end of its output buffer while many decoded bytes are still pending at its start.
type degenerate struct {
	q, period, n int
	b            byte
}

func (d degenerate) String() string {
	return fmt.Sprintf("%d incompressible bytes, then period-%d pattern from byte 0x%02x up to %d bytes", d.q, d.period, d.b, d.n)
}

func (d degenerate) data() []byte {
	out := make([]byte, d.n)
	// a fixed pseudo-random sequence: hardly any byte pair occurs twice
	x := uint32(12345)
	for i := 0; i < min(d.q, d.n); i++ {
		x = x*1664525 + 1013904223
		out[i] = byte(x >> 24)
	}
	for i := d.q; i < d.n; i++ {
		out[i] = d.b + byte((i-d.q)%d.period)
	}
	return out
}

func tri(k int) int { return k * (k + 1) / 2 }

// lzwDegenerateInputs: sizes where the longest table string crosses 2048 / 3072 / the table-full length, ends of
// data just before and after the table-full clear, and more than one table generation.
func lzwDegenerateInputs(quick bool) []degenerate {
	res := []degenerate{
		{0, 1, tri(2048) + 7, 0},
		{0, 1, tri(3072) + 1, 0xff},
		{0, 1, tri(3838) - 1, 0},
		{0, 1, tri(3838) + 5000, 0x41},
		{0, 1, 8400000, 0},
		{0, 2, 4100000, 0x20},
		{1500, 1, tri(2340) + 99, 0},
	}
	if !quick {
		for _, k := range []int{2040, 2047, 2049, 2050, 2304, 2560, 3071, 3073, 3500, 3837, 3838, 3839} {
			res = append(res, degenerate{0, 1, tri(k) + k/2, byte(k)})
		}
		for _, p := range []int{2, 3, 4, 7, 16} {
			res = append(res, degenerate{0, p, tri(3838)/p + 300000, 0x30}, degenerate{0, p, 2 * tri(3838) / p, 0x80})
		}
		for _, q := range []int{1, 2, 255, 256, 700, 1790, 2500, 3000} {
			res = append(res, degenerate{q, 1, tri(3838-q) + 123456, 0x11}, degenerate{q, 2, tri(3838-q)/2 + 99999, 0x55})
		}
		res = append(res, degenerate{0, 1, 16 << 20, 0}, degenerate{0, 1, 3*tri(3838) + 17, 0xfe})
	}
	return res
}

func fnv64(b []byte) uint64 {
	h := uint64(0xcbf29ce484222325)
	for _, x := range b {
		h = (h ^ uint64(x)) * 0x100000001b3
	}
	return h
}

func firstDiff(a, b []byte) int {
	n := min(len(a), len(b))
	for i := 0; i < n; i++ {
		if a[i] != b[i] {
			return i
		}
	}
	return n
}

func (h *H) lzwDegenerate() {
	e := h.e
	for i, d := range lzwDegenerateInputs(!e.Thorough) {
		data := d.data()
		for _, early := range []bool{false, true} {
			name := "lzw0"
			if early {
				name = "lzw1"
			}
			f := pdf.FilterLZW{OffByOne: early}
			enc, err := h.implEncode(f, pdf.V1_7, data, false)
			if err != nil {
				h.fail("rt-"+name+"-degenerate", "Encode/Close failed: "+err.Error(), map[string]any{"codec": name, "input": d.String()})
				continue
			}
			// read in one piece, in blocks of a size that does not divide the reader's buffer, and with the random cut
			for mode := 0; mode < 3; mode++ {
				var dec []byte
				var err error
				switch mode {
				case 0:
					dec, err = h.implDecode(f, pdf.V1_7, enc, false)
				case 1:
					dec, err = func() (out []byte, err error) {
						defer func() {
							if r := recover(); r != nil {
								err = fmt.Errorf("panic: %v", r)
							}
						}()
						rd, err := f.Decode(pdf.V1_7, bytes.NewReader(enc), membudget.New(1<<30))
						if err != nil {
							return nil, err
						}
						defer rd.Close()
						buf := make([]byte, 4093)
						for {
							n, err := rd.Read(buf)
							out = append(out, buf[:n]...)
							if err == io.EOF {
								return out, nil
							}
							if err != nil {
								return out, err
							}
						}
					}()
				default:
					if len(data) > 3<<20 && !e.Thorough {
						continue
					}
					dec, err = h.implDecode(f, pdf.V1_7, enc, true)
				}
				ok := err == nil && bytes.Equal(dec, data)
				if !ok {
					what := fmt.Sprintf("%s: decode(encode(x)) != x for x = %s (encoded %d bytes; got %d bytes, first difference at offset %d, err=%v, read mode %d)",
						name, d.String(), len(enc), len(dec), firstDiff(dec, data), err, mode)
					h.fail("rt-"+name+"-degenerate", what, map[string]any{"codec": name, "incompressible_prefix": d.q, "period": d.period,
						"first_byte": int(d.b), "length": d.n, "read_mode": mode, "encoded": common.Hex(enc[:min(len(enc), 64)]) + "..."})
				}
				e.Count(true, fmt.Sprintf("degenerate %s %v %d", name, d, mode), "rt-degenerate:"+name)
			}
			// the model decodes the implementation's code stream (digest only), with the staging buffer alongside
			if (early && i == 4) || (!early && i == 6) || (e.Thorough && i%3 == 0 && d.n <= 9<<20) {
				dec, err := h.implDecode(f, pdf.V1_7, enc, false)
				id := h.id("s")
				e.Line("cases.txt", "%s S %s %s", id, name, common.Hex(enc))
				if err != nil {
					e.Line("impl.obs", "%s stage 1 err", id)
				} else {
					e.Line("impl.obs", "%s stage 1 okh %d %016x", id, len(dec), fnv64(dec))
				}
			}
		}
	}
}

// ---------------------------------------------------------------- predictors (package predict)

type geom struct{ colors, bpc, columns int }

func (g geom) rowBytes() int { return (g.colors*g.bpc*g.columns + 7) / 8 }

func (h *H) geoms() []geom {
	var res []geom
	for _, bpc := range []int{1, 2, 4, 8, 16} {
		for _, colors := range []int{1, 2, 3, 4, 5} {
			for _, columns := range []int{1, 2, 3, 5, 8, 9, 17} {
				res = append(res, geom{colors, bpc, columns})
			}
		}
	}
	return res
}

func (h *H) predictorCase(pred int, g geom, rows int, modelShare bool) {
	e := h.e
	p := &predict.Params{Colors: g.colors, BitsPerComponent: g.bpc, Columns: g.columns, Predictor: pred}
	data := h.data(g.rowBytes() * rows)
	if e.Rand.IntN(3) == 0 {
		for i := range data {
			data[i] = byte(e.Rand.UintN(256))
		}
	}
	chunked := e.Rand.IntN(4) != 0
	buf := &bytes.Buffer{}
	w, err := predict.NewWriter(nopWC{buf}, p)
	if err != nil {
		e.Count(false, "", "rejected:predict")
		return
	}
	err = h.chunkWrite(w, data, chunked)
	if err == nil {
		err = w.Close()
	}
	enc := append([]byte{}, buf.Bytes()...)
	var dec []byte
	if err == nil {
		var rd io.ReadCloser
		rd, err = predict.NewReader(io.NopCloser(bytes.NewReader(enc)), p, membudget.New(1<<30))
		if err == nil {
			dec, err = h.chunkRead(rd, chunked)
		}
	}
	kind := "png"
	if pred == 2 {
		kind = "tiff"
	}
	spec := fmt.Sprintf("%s:%d:%d:%d", kind, g.colors, g.bpc, g.columns)
	ok := err == nil && bytes.Equal(dec, data)
	if !ok {
		h.fail(fmt.Sprintf("rt-predictor-%d", pred),
			fmt.Sprintf("predictor %d %s: unpredict(predict(x)) != x (%d rows, err=%v)", pred, spec, rows, err),
			map[string]any{"predictor": pred, "geom": spec, "data": common.Hex(data), "chunked": chunked})
	}
	e.Count(len(data) > 0, fmt.Sprintf("%d%s%x", pred, spec, data), fmt.Sprintf("predictor:%d:bpc%d", pred, g.bpc))
	if !modelShare {
		return
	}
	id := h.id("d")
	e.Line("cases.txt", "%s D %s %s", id, spec, common.Hex(enc))
	e.Line("impl.obs", "%s %s", id, obsOf(dec, err))
	id = h.id("e")
	if pred == 2 {
		e.Line("cases.txt", "%s E %s %s", id, spec, common.Hex(data))
	} else {
		tags := make([]byte, rows)
		for i := range tags {
			if pred == 15 {
				tags[i] = byte(e.Rand.UintN(5))
			} else {
				tags[i] = byte(pred - 10)
			}
		}
		e.Line("cases.txt", "%s E %s %s %s", id, spec, common.Hex(data), common.Hex(tags))
	}
	// damaged predictor data: a row cut short, a filter-type byte out of range
	m := h.mutate(enc)
	var out []byte
	rd, err := predict.NewReader(io.NopCloser(bytes.NewReader(m)), p, membudget.New(1<<30))
	if err == nil {
		out, err = io.ReadAll(rd)
	}
	id = h.id("m")
	e.Line("cases.txt", "%s D %s %s", id, spec, common.Hex(m))
	e.Line("impl.obs", "%s %s", id, obsOf(out, err))
}

func (h *H) predictors() {
	e := h.e
	gs := h.geoms()
	for _, pred := range []int{2, 10, 11, 12, 13, 14, 15} {
		for i, g := range gs {
			for _, rows := range []int{0, 1, 3} {
				share := (i+pred+rows)%e.Pick(3, 1) == 0
				h.predictorCase(pred, g, rows, share)
			}
		}
		for i := 0; i < e.Pick(150, 1500); i++ {
			g := geom{1 + e.Rand.IntN(6), []int{1, 2, 4, 8, 16}[e.Rand.IntN(5)], 1 + e.Rand.IntN(40)}
			h.predictorCase(pred, g, e.Rand.IntN(6), i%2 == 0)
		}
	}
}

// structuredRows: row sequences that exercise the predictors' bookkeeping between rows and the borrows/carries
// inside a row: uniform rows, rows equal to / slightly different from the previous row or the row before that
// (a blank line between two similar lines), ascending and descending values at byte and nibble steps, random rows.
func structuredRows(r interface {
	IntN(int) int
	UintN(uint) uint
}, rowBytes, rows int) []byte {
	out := make([]byte, 0, rowBytes*rows)
	row := func(i int) []byte { return out[i*rowBytes : (i+1)*rowBytes] }
	pattern := -1
	if rows >= 3 && r.IntN(2) == 0 {
		pattern = r.IntN(rows - 2) // rows pattern, pattern+1, pattern+2 are: some row, a uniform row, nearly the first again
	}
	for i := 0; i < rows; i++ {
		cur := make([]byte, rowBytes)
		kind := r.IntN(7)
		if pattern >= 0 && i == pattern+1 {
			kind = 1
		} else if pattern >= 0 && i == pattern+2 {
			kind = 6
		} else if pattern >= 0 && i == pattern && kind == 1 {
			kind = 0
		}
		switch {
		case kind == 1:
			v := []byte{0, 0xff, byte(r.UintN(256))}[r.IntN(3)]
			if i > 0 && rowBytes > 0 && row(i - 1)[0] == v {
				v ^= 0x5a
			}
			for j := range cur {
				cur[j] = v
			}
		case kind == 2 && i > 0:
			copy(cur, row(i-1))
		case kind == 3 && i > 0:
			copy(cur, row(i-1))
			for k := 0; k < 1+rowBytes/8; k++ {
				cur[r.IntN(rowBytes)] += byte(1 + r.UintN(3))
			}
		case kind == 4 || kind == 5:
			step := []byte{1, 0x11, 0x10, 0x55, 3, 0x0f}[r.IntN(6)]
			if kind == 5 {
				step = -step
			}
			v := byte(r.UintN(256))
			for j := range cur {
				cur[j] = v
				v += step
			}
		case kind == 6 && i > 1:
			copy(cur, row(i-2))
			if rowBytes > 0 && r.IntN(2) == 0 {
				cur[r.IntN(rowBytes)] ^= 1
			}
		default:
			for j := range cur {
				cur[j] = byte(r.UintN(256))
			}
		}
		out = append(out, cur...)
	}
	return out
}

// predictorGrid: every predictor x BitsPerComponent x Colors (incl. many channels) x Columns with structured rows,
// on the predict package directly; and wide many-channel rows of well-compressing data through
// OpenStream/DecodeStream, i.e. with the budget a stream gets when a file is read.
func (h *H) predictorGrid() {
	e := h.e
	for _, pred := range []int{2, 10, 11, 12, 13, 14, 15} {
		for _, bpc := range []int{1, 2, 4, 8, 16} {
			for _, colors := range []int{1, 2, 3, 4, 5, 60, 255} {
				for _, columns := range []int{1, 2, 3, 8, 17} {
					if colors > 5 && columns > 3 {
						continue
					}
					g := geom{colors, bpc, columns}
					for k := 0; k < e.Pick(2, 8); k++ {
						rows := 3 + e.Rand.IntN(4)
						h.predictorData(pred, g, structuredRows(e.Rand, g.rowBytes(), rows), rows)
					}
				}
			}
		}
	}
	wide := []geom{{60, 1, 65536}, {255, 1, 20000}, {4, 2, 100000}, {1, 1, 1 << 20}, {3, 8, 30000}, {60, 16, 2000}}
	for i, g := range wide {
		for _, pred := range []int{2, 15, 10 + i%5} {
			if !e.Thorough && pred != 2 && i%2 == 1 {
				continue
			}
			rows := 2 + i%2
			data := make([]byte, g.rowBytes()*rows) // blank rows: the compressed stream is tiny
			for j := g.rowBytes(); j < len(data); j += 4099 {
				data[j] = byte(j)
			}
			var f pdf.Filter = pdf.FilterFlate{Predictor: pdf.FlatePredictor(pred), Colors: g.colors, BitsPerComponent: g.bpc, Columns: g.columns}
			if i%3 == 2 {
				f = pdf.FilterLZW{Predictor: pdf.FlatePredictor(pred), Colors: g.colors, BitsPerComponent: g.bpc, Columns: g.columns, OffByOne: true}
			}
			h.chainCase(pdf.V2_0, []pdf.Filter{f}, data)
		}
	}
}

func (h *H) predictorData(pred int, g geom, data []byte, rows int) {
	e := h.e
	p := &predict.Params{Colors: g.colors, BitsPerComponent: g.bpc, Columns: g.columns, Predictor: pred}
	chunked := e.Rand.IntN(3) == 0
	buf := &bytes.Buffer{}
	w, err := predict.NewWriter(nopWC{buf}, p)
	if err != nil {
		e.Count(false, "", "rejected:predict")
		return
	}
	err = h.chunkWrite(w, data, chunked)
	if err == nil {
		err = w.Close()
	}
	var dec []byte
	if err == nil {
		var rd io.ReadCloser
		rd, err = predict.NewReader(io.NopCloser(bytes.NewReader(buf.Bytes())), p, membudget.New(1<<30))
		if err == nil {
			dec, err = h.chunkRead(rd, chunked)
		}
	}
	spec := fmt.Sprintf("%d:%d:%d", g.colors, g.bpc, g.columns)
	if err != nil || !bytes.Equal(dec, data) {
		h.fail(fmt.Sprintf("rt-predictor-%d", pred),
			fmt.Sprintf("predictor %d Colors:BitsPerComponent:Columns %s: unpredict(predict(x)) != x (%d structured rows, first difference at offset %d, err=%v)", pred, spec, rows, firstDiff(dec, data), err),
			map[string]any{"predictor": pred, "geom": spec, "data": common.Hex(data), "chunked": chunked})
	}
	e.Count(len(data) > 0, fmt.Sprintf("grid%d%s%x", pred, spec, data), fmt.Sprintf("predictor-grid:%d:bpc%d", pred, g.bpc))
}

// ---------------------------------------------------------------- Flate / LZW / Compress with parameters

func showDict(d pdf.Dict) string {
	order := []pdf.Name{"Predictor", "Colors", "BitsPerComponent", "Columns", "EarlyChange", "K", "EndOfLine",
		"EncodedByteAlign", "Rows", "EndOfBlock", "BlackIs1", "DamagedRowsBeforeError"}
	var parts []string
	seen := 0
	for _, k := range order {
		v, ok := d[k]
		if !ok {
			continue
		}
		seen++
		switch x := v.(type) {
		case pdf.Integer:
			parts = append(parts, fmt.Sprintf("%s=i%d", k, int64(x)))
		case pdf.Boolean:
			if x {
				parts = append(parts, string(k)+"=b1")
			} else {
				parts = append(parts, string(k)+"=b0")
			}
		default:
			parts = append(parts, string(k)+"=x")
		}
	}
	if seen != len(d) {
		parts = append(parts, "UNKNOWNKEY=x")
	}
	if len(parts) == 0 {
		return "-"
	}
	return strings.Join(parts, ";")
}

func b01(b bool) string {
	if b {
		return "1"
	}
	return "0"
}

func showFilter(f pdf.Filter) string {
	switch x := f.(type) {
	case pdf.FilterFlate:
		return fmt.Sprintf("%d,%d,%d,%d", x.Predictor, x.Colors, x.BitsPerComponent, x.Columns)
	case pdf.FilterLZW:
		return fmt.Sprintf("%d,%d,%d,%d,%s", x.Predictor, x.Colors, x.BitsPerComponent, x.Columns, b01(x.OffByOne))
	case pdf.FilterCCITTFax:
		return fmt.Sprintf("%d,%s,%s,%d,%d,%s,%s,%d", x.K, b01(x.EndOfLine), b01(x.EncodedByteAlign), x.Columns, x.Rows,
			b01(x.IgnoreEndOfBlock), b01(x.BlackIs1), x.DamagedRowsBeforeError)
	default:
		return fmt.Sprintf("%T", f)
	}
}

// infoFixpoint: Info -> MakeFilter -> Info -> MakeFilter gives the same filter and dictionary again.
func (h *H) infoFixpoint(f pdf.Filter, v pdf.Version, label string) (valid bool, dict string, eff string) {
	name, parms, err := f.Info(v)
	if err != nil {
		return false, "", ""
	}
	g, err := pdf.MakeFilter(name, parms)
	if err != nil {
		h.fail("info-makefilter", label+": MakeFilter rejects what Info emitted: "+err.Error(), map[string]any{"filter": fmt.Sprintf("%#v", f), "version": int(v)})
		return true, showDict(parms), "error"
	}
	name2, parms2, err := g.Info(v)
	if err != nil {
		h.fail("info-fixpoint", label+": the filter rebuilt from Info is rejected by Info: "+err.Error(), map[string]any{"filter": fmt.Sprintf("%#v", f), "version": int(v)})
		return true, showDict(parms), showFilter(g)
	}
	g2, err := pdf.MakeFilter(name2, parms2)
	if err != nil || name2 != name || showFilter(g2) != showFilter(g) {
		h.fail("info-fixpoint", fmt.Sprintf("%s: Info/MakeFilter is not a fixpoint: %s %s -> %s %s", label, name, showFilter(g), name2, showFilter(g2)),
			map[string]any{"filter": fmt.Sprintf("%#v", f), "version": int(v)})
	}
	return true, showDict(parms), showFilter(g)
}

var intEdges = []int{-1, 0, 1, 2, 3, 4, 5, 8, 9, 15, 16, 17, 256, 257, 1 << 20, 1<<20 + 1}

func (h *H) flateParams() {
	e := h.e
	preds := []int{-1, 0, 1, 2, 3, 9, 10, 11, 12, 13, 14, 15, 16}
	colors := []int{-1, 0, 1, 2, 4, 5, 60, 61, 256, 257, 1 << 40}
	bpcs := []int{-1, 0, 1, 2, 3, 4, 8, 16, 32}
	cols := []int{-1, 0, 1, 2, 100, 1 << 16, 1<<16 + 1, 1 << 20, 1<<20 + 1}
	n := e.Pick(6000, 40000)
	for i := 0; i < n; i++ {
		p := preds[e.Rand.IntN(len(preds))]
		c := colors[e.Rand.IntN(len(colors))]
		b := bpcs[e.Rand.IntN(len(bpcs))]
		k := cols[e.Rand.IntN(len(cols))]
		if e.Rand.IntN(2) == 0 { // mostly-valid stream
			p = []int{0, 1, 2, 10, 11, 12, 13, 14, 15}[e.Rand.IntN(9)]
			c = []int{0, 1, 2, 3, 4, 5}[e.Rand.IntN(6)]
			b = []int{0, 1, 2, 4, 8, 16}[e.Rand.IntN(6)]
			k = []int{0, 1, 2, 3, 7, 100}[e.Rand.IntN(6)]
			if p <= 1 && e.Rand.IntN(3) != 0 {
				c, b, k = 0, 0, 0
			}
		}
		v := pdf.Version(1 + e.Rand.IntN(9))
		switch e.Rand.IntN(3) {
		case 0:
			f := pdf.FilterFlate{Predictor: pdf.FlatePredictor(p), Colors: c, BitsPerComponent: b, Columns: k}
			valid, dict, eff := h.infoFixpoint(f, v, "FilterFlate")
			id := h.id("p")
			e.Line("cases.txt", "%s PF %d %d %d %d %d", id, int(v), p, c, b, k)
			if valid {
				e.Line("impl.obs", "%s valid=1 dict=%s eff=%s", id, dict, eff)
			} else {
				e.Line("impl.obs", "%s valid=0", id)
			}
			e.Count(valid, fmt.Sprintf("PF%d,%d,%d,%d,%d", v, p, c, b, k), "params:flate:"+b01(valid))
		case 1:
			o := e.Rand.IntN(2) == 0
			f := pdf.FilterLZW{Predictor: pdf.FlatePredictor(p), Colors: c, BitsPerComponent: b, Columns: k, OffByOne: o}
			valid, dict, eff := h.infoFixpoint(f, v, "FilterLZW")
			id := h.id("p")
			e.Line("cases.txt", "%s PL %d %d %d %d %d %s", id, int(v), p, c, b, k, b01(o))
			if valid {
				e.Line("impl.obs", "%s valid=1 dict=%s eff=%s", id, dict, eff)
			} else {
				e.Line("impl.obs", "%s valid=0", id)
			}
			e.Count(valid, fmt.Sprintf("PL%d,%d,%d,%d,%d,%v", v, p, c, b, k, o), "params:lzw:"+b01(valid))
		default:
			// FilterCompress is Flate from 1.2 on and LZW (EarlyChange 1) before
			f := pdf.FilterCompress{Predictor: pdf.FlatePredictor(p), Colors: c, BitsPerComponent: b, Columns: k}
			valid, dict, eff := h.infoFixpoint(f, v, "FilterCompress")
			id := h.id("p")
			if v >= pdf.V1_2 {
				e.Line("cases.txt", "%s PF %d %d %d %d %d", id, int(v), p, c, b, k)
			} else {
				e.Line("cases.txt", "%s PL %d %d %d %d %d 1", id, int(v), p, c, b, k)
			}
			if valid {
				e.Line("impl.obs", "%s valid=1 dict=%s eff=%s", id, dict, eff)
			} else {
				e.Line("impl.obs", "%s valid=0", id)
			}
			e.Count(valid, fmt.Sprintf("PZ%d,%d,%d,%d,%d", v, p, c, b, k), "params:compress:"+b01(valid))
		}
	}
}

func (h *H) ccittParams() {
	e := h.e
	ks := []int{-(1 << 40), -5, -1, 0, 1, 2, 4, 1 << 40}
	dims := []int{-1, 0, 1, 8, 1727, 1728, 1729, 1 << 20, 1<<20 + 1}
	for i := 0; i < e.Pick(3000, 20000); i++ {
		f := pdf.FilterCCITTFax{
			K: ks[e.Rand.IntN(len(ks))], EndOfLine: e.Rand.IntN(2) == 0, EncodedByteAlign: e.Rand.IntN(2) == 0,
			Columns: dims[e.Rand.IntN(len(dims))], Rows: dims[e.Rand.IntN(len(dims))],
			IgnoreEndOfBlock: e.Rand.IntN(2) == 0, BlackIs1: e.Rand.IntN(2) == 0,
			DamagedRowsBeforeError: dims[e.Rand.IntN(len(dims))],
		}
		if e.Rand.IntN(2) == 0 {
			f.DamagedRowsBeforeError = 0
		}
		v := pdf.Version(1 + e.Rand.IntN(9))
		valid, dict, eff := h.infoFixpoint(f, v, "FilterCCITTFax")
		id := h.id("p")
		e.Line("cases.txt", "%s PC %d %s %s %d %d %s %s %d", id, f.K, b01(f.EndOfLine), b01(f.EncodedByteAlign), f.Columns, f.Rows,
			b01(f.IgnoreEndOfBlock), b01(f.BlackIs1), f.DamagedRowsBeforeError)
		if valid {
			e.Line("impl.obs", "%s valid=1 dict=%s eff=%s", id, dict, eff)
		} else {
			e.Line("impl.obs", "%s valid=0", id)
		}
		e.Count(valid, "PC"+showFilter(f), "params:ccitt:"+b01(valid))
	}
}

// arbitrary parameter dictionaries: parse* clamps
func (h *H) randomDicts() {
	e := h.e
	ints := []int64{-(1 << 63), -(1 << 40), -2, -1, 0, 1, 2, 3, 4, 5, 8, 9, 10, 11, 12, 13, 14, 15, 16, 17, 255, 256, 257, 1727, 1728,
		1 << 16, 1 << 20, 1<<20 + 1, 1 << 40, 1<<63 - 1}
	val := func() pdf.Object {
		switch e.Rand.IntN(6) {
		case 0:
			return pdf.Boolean(e.Rand.IntN(2) == 0)
		case 1:
			return []pdf.Object{pdf.Name("X"), pdf.Real(1.5), pdf.String("1"), nil}[e.Rand.IntN(4)]
		default:
			return pdf.Integer(ints[e.Rand.IntN(len(ints))])
		}
	}
	sets := []struct {
		op, name string
		keys     []pdf.Name
	}{
		{"QF", "FlateDecode", []pdf.Name{"Predictor", "Colors", "BitsPerComponent", "Columns", "EarlyChange"}},
		{"QL", "LZWDecode", []pdf.Name{"Predictor", "Colors", "BitsPerComponent", "Columns", "EarlyChange"}},
		{"QC", "CCITTFaxDecode", []pdf.Name{"K", "EndOfLine", "EncodedByteAlign", "Columns", "Rows", "EndOfBlock", "BlackIs1", "DamagedRowsBeforeError"}},
	}
	for i := 0; i < e.Pick(6000, 40000); i++ {
		s := sets[e.Rand.IntN(3)]
		d := pdf.Dict{}
		for _, k := range s.keys {
			if e.Rand.IntN(3) != 0 {
				v := val()
				if v == nil {
					continue
				}
				d[k] = v
			}
		}
		if s.op != "QC" && e.Rand.IntN(2) == 0 {
			d["Predictor"] = pdf.Integer([]int64{2, 10, 11, 12, 13, 14, 15}[e.Rand.IntN(7)])
		}
		f, err := pdf.MakeFilter(pdf.Name(s.name), d)
		id := h.id("q")
		e.Line("cases.txt", "%s %s %s", id, s.op, showDict(d))
		if err != nil {
			e.Line("impl.obs", "%s error", id)
		} else {
			e.Line("impl.obs", "%s %s", id, showFilter(f))
			// the parsed parameters are ones Info accepts again, and parsing their dictionary changes nothing
			if valid, _, eff := h.infoFixpoint(f, pdf.V2_0, "parsed "+s.name); !valid || eff != showFilter(f) {
				h.fail("parse-not-stable", fmt.Sprintf("%s: parameters parsed from %s are rejected or changed by Info/MakeFilter: %s -> %s", s.name, showDict(d), showFilter(f), eff),
					map[string]any{"name": s.name, "dict": showDict(d)})
			}
		}
		e.Count(len(d) > 0, s.op+showDict(d), "parse:"+s.name)
	}
}

// Flate/LZW/Compress with predictor through the Filter interface (oracle only: zlib is not modelled)
func (h *H) flateLZWRoundTrips() {
	e := h.e
	for i := 0; i < e.Pick(2000, 12000); i++ {
		p := []int{0, 1, 2, 10, 11, 12, 13, 14, 15}[e.Rand.IntN(9)]
		g := geom{[]int{0, 1, 2, 3, 4, 5}[e.Rand.IntN(6)], []int{0, 1, 2, 4, 8, 16}[e.Rand.IntN(6)], []int{0, 1, 2, 3, 7, 20}[e.Rand.IntN(6)]}
		if p <= 1 {
			g = geom{}
		}
		eg := geom{max(g.colors, 1), g.bpc, max(g.columns, 1)}
		if eg.bpc == 0 {
			eg.bpc = 8
		}
		rows := e.Rand.IntN(5)
		n := eg.rowBytes() * rows
		if p <= 1 {
			n = e.Rand.IntN(400)
		}
		v := pdf.Version(1 + e.Rand.IntN(9))
		var f pdf.Filter
		var label string
		switch e.Rand.IntN(3) {
		case 0:
			f = pdf.FilterFlate{Predictor: pdf.FlatePredictor(p), Colors: g.colors, BitsPerComponent: g.bpc, Columns: g.columns}
			label = "flate"
		case 1:
			f = pdf.FilterLZW{Predictor: pdf.FlatePredictor(p), Colors: g.colors, BitsPerComponent: g.bpc, Columns: g.columns, OffByOne: e.Rand.IntN(2) == 0}
			label = "lzw"
		default:
			f = pdf.FilterCompress{Predictor: pdf.FlatePredictor(p), Colors: g.colors, BitsPerComponent: g.bpc, Columns: g.columns}
			label = "compress"
		}
		h.codecCase(codec{name: fmt.Sprintf("%s-p%d", label, p), filter: f}, v, h.data(n), false, 0)
	}
}

// ---------------------------------------------------------------- CCITTFax

// ccittClass names the parameter classes that used to fail (DESIGN.md 5, F8 S1-S3; fixed by F43-F45);
// they are ordinary requirements now and the name only labels the input distribution.
func ccittClass(f pdf.FilterCCITTFax) string {
	switch {
	case f.EncodedByteAlign && (!f.EndOfLine || f.K < 0):
		return "ccitt-byte-align-without-eol"
	case f.K > 0 && f.Rows == 0 && !f.IgnoreEndOfBlock:
		return "ccitt-k-positive-no-rows"
	case f.IgnoreEndOfBlock:
		return "ccitt-end-of-block-false"
	}
	return "ccitt-plain"
}

// image rows; padding bits of each row are zero
func (h *H) ccittImage(cols, rows int, blackIs1 bool) []byte {
	r := h.e.Rand
	bpr := (cols + 7) / 8
	data := make([]byte, bpr*rows)
	set := func(row, x int, v bool) {
		if v {
			data[row*bpr+x/8] |= 0x80 >> (x % 8)
		}
	}
	for row := 0; row < rows; row++ {
		switch r.IntN(6) {
		case 0: // random pixels
			for x := 0; x < cols; x++ {
				set(row, x, r.IntN(2) == 0)
			}
		case 1: // one colour
			v := r.IntN(2) == 0
			for x := 0; x < cols; x++ {
				set(row, x, v)
			}
		case 2, 3: // runs, the last one a multiple of 64 when there is room
			lens := []int{1, 2, 3, 5, 8, 13, 63, 64, 65, 127, 128, 129, 192, 320}
			last := 0
			if cols >= 64 {
				last = 64 * (1 + r.IntN(cols/64))
				if r.IntN(4) == 0 {
					last = 0
				}
			}
			v := r.IntN(2) == 0
			x := 0
			for x < cols-last {
				l := min(lens[r.IntN(len(lens))], cols-last-x)
				for ; l > 0; l-- {
					set(row, x, v)
					x++
				}
				v = !v
			}
			// the final run has the colour that makes it a run of its own
			for ; x < cols; x++ {
				set(row, x, v)
			}
		case 4: // same as the row above, or shifted by one pixel (vertical modes)
			if row > 0 {
				sh := r.IntN(3) - 1
				for x := 0; x < cols; x++ {
					px := x + sh
					if px >= 0 && px < cols && data[(row-1)*bpr+px/8]&(0x80>>(px%8)) != 0 {
						set(row, x, true)
					}
				}
			}
		default: // sparse
			for x := 0; x < cols; x++ {
				set(row, x, r.IntN(16) == 0)
			}
		}
	}
	return data
}

func (h *H) ccitt() {
	e := h.e
	colsList := []int{1, 2, 3, 5, 7, 8, 9, 13, 40, 61, 63, 64, 65, 128, 130, 200, 256, 1728, 1792, 2560, 2561, 2700, 5200}
	per := e.Pick(40, 150)
	for _, K := range []int{-1, 0, 1, 2, 4} {
		for _, eol := range []bool{false, true} {
			for _, align := range []bool{false, true} {
				for _, ieob := range []bool{false, true} {
					for _, withRows := range []bool{false, true} {
						for t := 0; t < per; t++ {
							cols := colsList[e.Rand.IntN(len(colsList))]
							rows := 1 + e.Rand.IntN(6)
							f := pdf.FilterCCITTFax{K: K, EndOfLine: eol, EncodedByteAlign: align, Columns: cols,
								IgnoreEndOfBlock: ieob, BlackIs1: e.Rand.IntN(2) == 0}
							if withRows {
								f.Rows = rows
							}
							if cols == 1728 && e.Rand.IntN(2) == 0 {
								f.Columns = 0 // shorthand for 1728
							}
							data := h.ccittImage(cols, rows, f.BlackIs1)
							h.ccittCase(f, data, cols, rows)
						}
					}
				}
			}
		}
	}
}


// wideCols: widths at the large end of the accepted range: around k*2560 (the longest make-up code),
// around 64*2560 = 163840 (64 make-up codes in one run) and at the limit 1<<20.
var wideColsSmall = []int{2559, 2560, 2561, 5119, 5120, 5121, 7680, 7681}
var wideColsLarge = []int{163839, 163840, 163841, 163840 + 2560, 166400 + 63, 1<<20 - 1, 1 << 20}

// wideRow paints one row: kind 0 one colour, 1 the other colour, 2 one very long run then short runs,
// 3 short runs then one very long run, 4 two long runs.
func wideRow(data []byte, cols int, kind int, rnd interface{ IntN(int) int }) {
	set := func(from, to int) { // pixels [from, to) := 1
		for x := from; x < to && x < cols; x++ {
			if x%8 == 0 && x+8 <= to && x+8 <= cols {
				data[x/8] = 0xff
				x += 7
				continue
			}
			data[x/8] |= 0x80 >> (x % 8)
		}
	}
	switch kind {
	case 0:
	case 1:
		set(0, cols)
	case 2:
		long := cols - 1 - rnd.IntN(min(cols, 40))
		set(0, long)
		for x := long + 1 + rnd.IntN(3); x < cols; x += 2 + rnd.IntN(5) {
			set(x, x+1)
		}
	case 3:
		short := rnd.IntN(min(cols, 40))
		for x := rnd.IntN(3); x < short; x += 2 + rnd.IntN(5) {
			set(x, x+1)
		}
		set(short, cols)
	default:
		mid := cols/2 + rnd.IntN(64) - 32
		if mid < 0 || mid > cols {
			mid = cols / 2
		}
		if rnd.IntN(2) == 0 {
			set(0, mid)
		} else {
			set(mid, cols)
		}
	}
}

// ccittWide: every K class x EndOfLine x EncodedByteAlign x BlackIs1 x EndOfBlock with wide rows made of
// very long runs (few rows per image: a row of 1<<20 pixels is 128 KiB)
func (h *H) ccittWide() {
	e := h.e
	for _, K := range []int{-1, 0, 1, 4} {
		for _, eol := range []bool{false, true} {
			for _, align := range []bool{false, true} {
				for _, bi1 := range []bool{false, true} {
					for _, ieob := range []bool{false, true} {
						widths := []int{wideColsSmall[e.Rand.IntN(len(wideColsSmall))], wideColsSmall[e.Rand.IntN(len(wideColsSmall))],
							wideColsLarge[e.Rand.IntN(len(wideColsLarge))]}
						if e.Thorough {
							widths = append(append([]int{}, wideColsSmall...), wideColsLarge...)
						}
						for _, cols := range widths {
							rows := 1 + e.Rand.IntN(2)
							if cols < 10000 {
								rows = 1 + e.Rand.IntN(3)
							}
							f := pdf.FilterCCITTFax{K: K, EndOfLine: eol, EncodedByteAlign: align, Columns: cols, IgnoreEndOfBlock: ieob, BlackIs1: bi1}
							if e.Rand.IntN(2) == 0 {
								f.Rows = rows
							}
							bpr := (cols + 7) / 8
							data := make([]byte, bpr*rows)
							for r := 0; r < rows; r++ {
								kind := e.Rand.IntN(5)
								if r == 0 && e.Rand.IntN(2) == 0 {
									kind = e.Rand.IntN(2) // a whole row of one colour: one run of Columns pixels
								}
								wideRow(data[r*bpr:(r+1)*bpr], cols, kind, e.Rand)
							}
							h.ccittCase(f, data, cols, rows)
						}
					}
				}
			}
		}
	}
}

func (h *H) ccittCase(f pdf.FilterCCITTFax, data []byte, cols, rows int) (encoded bool) {
	e := h.e
	class := ccittClass(f)
	v := pdf.V1_7
	chunked := e.Rand.IntN(3) != 0
	enc, err := h.implEncode(f, v, data, chunked)
	var dec []byte
	if err == nil {
		name, parms, ierr := f.Info(v)
		err = ierr
		if err == nil {
			var g pdf.Filter
			g, err = pdf.MakeFilter(name, parms)
			if err == nil {
				dec, err = h.implDecode(g, v, enc, chunked)
			}
		}
	} else if isRejected(err) {
		e.Count(false, "", "rejected:ccitt")
		return false
	} else if rows > ccittRowLimit(f, cols) && strings.Contains(err.Error(), "too many rows") {
		// more rows than Decode would return: the encoder has to refuse them
		e.Count(true, fmt.Sprintf("refused %#v %d", f, rows), "ccitt-rows:refused")
		return false
	}
	if err == nil && rows > ccittRowLimit(f, cols) {
		h.fail(fmt.Sprintf("ccitt-rows-K%d-accepted-beyond-limit", sgn(f.K)),
			fmt.Sprintf("CCITTFax K=%d Columns=%d Rows=%d: Encode accepted %d rows, Decode returns at most %d (got %d bytes for %d)", f.K, cols, f.Rows, rows, ccittRowLimit(f, cols), len(dec), len(data)),
			map[string]any{"filter": fmt.Sprintf("%#v", f), "cols": cols, "rows": rows})
		e.Count(true, fmt.Sprintf("beyond %#v %d", f, rows), "ccitt-rows:accepted-beyond-limit")
		return true
	}
	ok := err == nil && bytes.Equal(dec, data)
	label := fmt.Sprintf("K=%d EndOfLine=%v EncodedByteAlign=%v EndOfBlock=%v Rows=%d Columns=%d BlackIs1=%v", f.K, f.EndOfLine, f.EncodedByteAlign, !f.IgnoreEndOfBlock, f.Rows, cols, f.BlackIs1)
	if !ok {
		sig := fmt.Sprintf("rt-ccitt-K%d-eol%s-align%s-eob%s-rows%s", sgn(f.K), b01(f.EndOfLine), b01(f.EncodedByteAlign), b01(!f.IgnoreEndOfBlock), b01(f.Rows > 0))
		h.fail(sig, fmt.Sprintf("CCITTFax %s: decode(encode(image)) != image (%d rows; got %d bytes for %d, err=%v)", label, rows, len(dec), len(data), err),
			map[string]any{"filter": fmt.Sprintf("%#v", f), "cols": cols, "rows": rows, "data": common.Hex(data)})
	}
	// the Group 4 model paints rows in quadratic time: fewer wide images there
	if len(data) > 20000 {
		// row-limit images: the model answers the accept/refuse question only
	} else if f.K == 0 && (cols <= 300 || cols <= 10000 && e.Rand.IntN(4) == 0) ||
		f.K < 0 && (cols <= 300 || cols <= 3000 && e.Rand.IntN(12) == 0 || cols <= 10000 && e.Rand.IntN(40) == 0) {
		h.g3ModelLines(f, data, enc, dec, err, cols, class)
	}
	e.Count(true, label+common.Hex(data), fmt.Sprintf("%s:%s", class, map[bool]string{true: "ok", false: "fail"}[ok]))
	return err == nil || len(enc) > 0
}

// g3Spec names the parameters of the Coq model of Group 3 one-dimensional coding (K = 0); the row
// limit is the one FilterCCITTFax.Decode hands to the reader.
func g3Spec(f pdf.FilterCCITTFax, cols int) string {
	// the row limit is derived from /Columns and /Rows by the model itself (CCITTParams.ccitt_max_rows)
	if f.K < 0 {
		// Group 4: EndOfLine plays no part
		return fmt.Sprintf("g4:%d:%s:%s:%s:%d", cols, b01(f.EncodedByteAlign), b01(f.BlackIs1), b01(f.IgnoreEndOfBlock), f.Rows)
	}
	return fmt.Sprintf("g3:%d:%s:%s:%s:%s:%d", cols, b01(f.EndOfLine), b01(f.EncodedByteAlign), b01(f.BlackIs1), b01(f.IgnoreEndOfBlock), f.Rows)
}

// ccittRowLimit: FilterCCITTFax.toParams - what Encode accepts and Decode returns at most
func ccittRowLimit(f pdf.FilterCCITTFax, cols int) int {
	geoMax := max(1, min(1<<16, (128<<20)/cols))
	if f.Rows > 0 && f.Rows < geoMax {
		return f.Rows
	}
	return geoMax
}

// ccittRows: the number of rows at the limit, one below and one above, for narrow and wide images,
// without /Rows and with /Rows below and above the geometric bound.  Beyond the limit the encoder has to
// refuse ("too many rows"); up to it the round trip is exact.
func (h *H) ccittRows() {
	e := h.e
	geos := []int{8, 1 << 20}
	if e.Thorough {
		geos = append(geos, 16, 4096, 65536)
	}
	n := 0
	for _, cols := range geos {
		bound := max(1, min(1<<16, (128<<20)/cols))
		for _, rowsParam := range []int{0, bound - 3, bound + 5} {
			limit := bound
			if rowsParam > 0 && rowsParam < bound {
				limit = rowsParam
			}
			for _, nrows := range []int{limit - 1, limit, limit + 1} {
				K := []int{0, -1, 2}[n%3]
				n++
				if cols >= 4096 && !e.Thorough && (nrows != limit+1 && nrows != limit || rowsParam != 0) {
					continue // 128 Mpixel images: two of them in the quick tier
				}
				f := pdf.FilterCCITTFax{K: K, Columns: cols, Rows: rowsParam, EndOfLine: n%2 == 0, BlackIs1: n%4 < 2}
				bpr := (cols + 7) / 8
				data := make([]byte, bpr*nrows)
				for i := 0; i < len(data); i += 1 + i%7 {
					data[i] = byte(0xf0 >> (i % 5))
				}
				accepted := h.ccittCase(f, data, cols, nrows)
				id := h.id("r")
				e.Line("cases.txt", "%s R %d %d %d", id, cols, rowsParam, nrows)
				if accepted {
					e.Line("impl.obs", "%s accept", id)
				} else {
					e.Line("impl.obs", "%s refuse", id)
				}
			}
		}
	}
}

func (h *H) g3ModelLines(f pdf.FilterCCITTFax, data, enc, dec []byte, err error, cols int, class string) {
	e := h.e
	spec := g3Spec(f, cols)
	// impl-encode -> model-decode
	id := h.id("g")
	e.Line("cases.txt", "%s D %s %s", id, spec, common.Hex(enc))
	dec1, err1 := h.implDecode(f, pdf.V1_7, enc, false)
	e.Line("impl.obs", "%s %s", id, obsOf(dec1, err1))
	// model-encode -> impl-decode (phase 2)
	id = h.id("e")
	e.Line("cases.txt", "%s E %s %s", id, spec, common.Hex(data))
	// damaged code streams
	for i := 0; i < 2; i++ {
		m := h.mutate(enc)
		out, merr := h.implDecode(f, pdf.V1_7, m, false)
		id := h.id("n")
		e.Line("cases.txt", "%s D %s %s", id, spec, common.Hex(m))
		e.Line("impl.obs", "%s %s", id, obsOf(out, merr))
		e.Count(true, "mutg3"+spec+common.Hex(m), "mutant:g3")
	}
}

func sgn(k int) int {
	switch {
	case k < 0:
		return -1
	case k > 0:
		return 1
	}
	return 0
}

// ---------------------------------------------------------------- chains through OpenStream / DecodeStream

var nameCode = map[pdf.Name]int{"ASCII85Decode": 1, "ASCIIHexDecode": 2, "RunLengthDecode": 3, "FlateDecode": 4, "LZWDecode": 5, "CCITTFaxDecode": 6}

func (h *H) stage() pdf.Filter {
	e := h.e
	switch e.Rand.IntN(9) {
	case 0:
		return pdf.FilterASCII85{}
	case 1:
		return pdf.FilterASCIIHex{}
	case 2:
		return pdf.FilterRunLength{}
	case 3:
		return pdf.FilterFlate{}
	case 4:
		// one byte per row, so that any input is whole rows
		return pdf.FilterFlate{Predictor: pdf.FlatePredictor([]int{2, 10, 11, 12, 13, 14, 15}[e.Rand.IntN(7)]), Colors: []int{0, 1}[e.Rand.IntN(2)], BitsPerComponent: []int{0, 8, 1, 2, 4}[e.Rand.IntN(5)], Columns: []int{0, 1}[e.Rand.IntN(2)]}
	case 5:
		return pdf.FilterLZW{OffByOne: e.Rand.IntN(2) == 0}
	case 6:
		return pdf.FilterLZW{Predictor: pdf.FlatePredictor([]int{2, 12, 15}[e.Rand.IntN(3)]), OffByOne: e.Rand.IntN(2) == 0, Columns: 1}
	case 7:
		return pdf.FilterCompress{}
	default:
		// CCITTFax, eight pixels per row so that any input is whole rows
		return pdf.FilterCCITTFax{K: []int{-1, 0, 2}[e.Rand.IntN(3)], Columns: 8, EndOfLine: e.Rand.IntN(2) == 0, EncodedByteAlign: e.Rand.IntN(3) == 0,
			IgnoreEndOfBlock: e.Rand.IntN(4) == 0, BlackIs1: e.Rand.IntN(2) == 0}
	}
}

func (h *H) chains() {
	e := h.e
	for i := 0; i < e.Pick(2500, 12000); i++ {
		v := pdf.Version(1 + i%9)
		k := 1 + e.Rand.IntN(3)
		if e.Rand.IntN(12) == 0 {
			k = 0
		}
		filters := make([]pdf.Filter, k)
		for j := range filters {
			filters[j] = h.stage()
		}
		if i%5 == 0 {
			// patterns of filters with and without parameters
			for j := range filters {
				if e.Rand.IntN(2) == 0 {
					filters[j] = []pdf.Filter{pdf.FilterASCIIHex{}, pdf.FilterRunLength{}, pdf.FilterASCII85{}}[e.Rand.IntN(3)]
				} else {
					filters[j] = pdf.FilterLZW{OffByOne: false}
				}
			}
		}
		h.chainCase(v, filters, h.data(e.Rand.IntN(300)))
	}
}

func (h *H) chainCase(v pdf.Version, filters []pdf.Filter, data []byte) {
	e := h.e
	var desc []string
	var stages []string
	for _, f := range filters {
		desc = append(desc, fmt.Sprintf("%#v", f))
		name, parms, err := f.Info(v)
		if err != nil {
			e.Count(false, "", "rejected:chain")
			return
		}
		stages = append(stages, fmt.Sprintf("%d %s", nameCode[name], showDict(parms)))
	}
	c := map[string]any{"version": int(v), "filters": desc, "data": common.Hex(data)}
	fail := func(what string) {
		h.fail("chain-rt", fmt.Sprintf("chain %v (version %v): %s", desc, v, what), c)
		e.Count(true, fmt.Sprint(desc, v, common.Hex(data)), "chain:fail")
	}
	buf := &bytes.Buffer{}
	w, err := pdf.NewWriter(buf, v, nil)
	if err != nil {
		fail("NewWriter: " + err.Error())
		return
	}
	w.GetMeta().Catalog.Pages = w.Alloc()
	ref := w.Alloc()
	out, err := w.OpenStream(ref, nil, filters...)
	if err != nil {
		// a filter rejected by Encode although Info accepted it
		e.Count(false, "", "rejected:chain")
		w.Close()
		return
	}
	chunked := e.Rand.IntN(3) != 0
	if err := h.chunkWrite(out, data, chunked); err != nil {
		fail("Write: " + err.Error())
		return
	}
	if err := out.Close(); err != nil {
		fail("stream Close: " + err.Error())
		return
	}
	if err := w.Close(); err != nil {
		fail("Writer.Close: " + err.Error())
		return
	}
	r, err := pdf.NewReader(bytes.NewReader(buf.Bytes()), int64(buf.Len()), &pdf.ReaderOptions{ErrorHandling: pdf.ErrorHandlingReport})
	if err != nil {
		fail("NewReader: " + err.Error())
		return
	}
	stm, err := pdf.NewCursor(r).Stream(ref)
	if err != nil || stm == nil {
		fail(fmt.Sprint("reading the stream object: ", err))
		return
	}
	id := h.id("c")
	e.Line("cases.txt", "%s CH %d %s", id, len(stages), strings.Join(stages, " "))
	back, err := pdf.GetFilters(r, nil, stm.Dict)
	if err != nil {
		e.Line("impl.obs", "%s err", id)
		if len(filters) <= 8 {
			fail("GetFilters: " + err.Error())
			return
		}
	} else {
		var parts []string
		for _, g := range back {
			name, parms, err := g.Info(v)
			if err != nil {
				parts = append(parts, "inforejected")
				continue
			}
			parts = append(parts, fmt.Sprintf("%d:%s", nameCode[name], showDict(parms)))
		}
		e.Line("impl.obs", "%s", strings.TrimSpace(id+" ok "+strings.Join(parts, " ")))
		// alignment, judged on the implementation alone
		if len(back) != len(filters) {
			fail(fmt.Sprintf("%d filters written, %d read back", len(filters), len(back)))
			return
		}
		for j, g := range back {
			n1, p1, _ := filters[j].Info(v)
			n2, p2, err := g.Info(v)
			want, _ := pdf.MakeFilter(n1, p1)
			if err != nil || n1 != n2 || showFilter(want) != showFilter(g) {
				fail(fmt.Sprintf("stage %d read back as %s %s (%s), written as %s %s", j, n2, showDict(p2), showFilter(g), n1, showDict(p1)))
				return
			}
		}
	}
	in, err := pdf.DecodeStream(r, nil, stm)
	if err != nil {
		fail("DecodeStream: " + err.Error())
		return
	}
	dec, err := h.chunkRead(in, chunked)
	if err != nil || !bytes.Equal(dec, data) {
		fail(fmt.Sprintf("decoded %d bytes for %d written, err=%v, chunked=%v", len(dec), len(data), err, chunked))
		return
	}
	e.Count(len(filters) > 0, fmt.Sprint(desc, v, common.Hex(data)), fmt.Sprintf("chain:len%d", len(filters)))
}

// ---------------------------------------------------------------- phase 2

func filterFor(spec string) (pdf.Filter, *predict.Params) {
	switch spec {
	case "a85":
		return pdf.FilterASCII85{}, nil
	case "ahx":
		return pdf.FilterASCIIHex{}, nil
	case "rl":
		return pdf.FilterRunLength{}, nil
	case "lzw0":
		return pdf.FilterLZW{OffByOne: false}, nil
	case "lzw1":
		return pdf.FilterLZW{OffByOne: true}, nil
	}
	parts := strings.Split(spec, ":")
	if len(parts) == 6 && parts[0] == "g4" {
		cols, _ := strconv.Atoi(parts[1])
		rows, _ := strconv.Atoi(parts[5])
		return pdf.FilterCCITTFax{K: -1, Columns: cols, EncodedByteAlign: parts[2] == "1",
			BlackIs1: parts[3] == "1", IgnoreEndOfBlock: parts[4] == "1", Rows: rows}, nil
	}
	if len(parts) == 7 && parts[0] == "g3" {
		cols, _ := strconv.Atoi(parts[1])
		rows, _ := strconv.Atoi(parts[6])
		return pdf.FilterCCITTFax{K: 0, Columns: cols, EndOfLine: parts[2] == "1", EncodedByteAlign: parts[3] == "1",
			BlackIs1: parts[4] == "1", IgnoreEndOfBlock: parts[5] == "1", Rows: rows}, nil
	}
	if len(parts) == 4 {
		c, _ := strconv.Atoi(parts[1])
		b, _ := strconv.Atoi(parts[2])
		n, _ := strconv.Atoi(parts[3])
		p := &predict.Params{Colors: c, BitsPerComponent: b, Columns: n, Predictor: 2}
		if parts[0] == "png" {
			p.Predictor = 12 // every PNG predictor value reads all filter types
		}
		return nil, p
	}
	return nil, nil
}

func phase2() {
	h := &H{e: common.New(0xC0602)}
	cases := map[string][]string{}
	for _, fs := range common.ReadLines("cases.txt") {
		if len(fs) >= 4 && fs[1] == "E" {
			cases[fs[0]] = fs
		}
	}
	impl, _ := os.Create("impl2.obs")
	expect, _ := os.Create("expect2.obs")
	defer impl.Close()
	defer expect.Close()
	var ids []string
	enc := map[string]string{}
	for _, fs := range common.ReadLines("model.obs") {
		if len(fs) == 3 && fs[1] == "enc" {
			if _, ok := cases[fs[0]]; ok {
				ids = append(ids, fs[0])
				enc[fs[0]] = fs[2]
			}
		}
	}
	sort.Strings(ids)
	for _, id := range ids {
		c := cases[id]
		data := common.UnHex(c[3])
		e := common.UnHex(enc[id])
		f, pp := filterFor(c[2])
		var out []byte
		var err error
		chunked := h.e.Rand.IntN(2) == 0
		if f != nil {
			out, err = h.implDecode(f, pdf.V1_7, e, chunked)
		} else if pp != nil {
			var rd io.ReadCloser
			rd, err = predict.NewReader(io.NopCloser(bytes.NewReader(e)), pp, membudget.New(1<<30))
			if err == nil {
				out, err = h.chunkRead(rd, chunked)
			}
		} else {
			err = errors.New("unknown codec")
		}
		fmt.Fprintf(impl, "%s %s\n", id, obsOf(out, err))
		fmt.Fprintf(expect, "%s ok %s\n", id, common.Hex(data))
	}
}

func main() {
	for _, a := range os.Args[1:] {
		if a == "-phase2" {
			phase2()
			return
		}
	}
	e := common.New(0xC06)
	h := &H{e: e}
	h.simpleCodecs()
	h.lzwDegenerate()
	h.predictors()
	h.predictorGrid()
	h.flateParams()
	h.ccittParams()
	h.randomDicts()
	h.flateLZWRoundTrips()
	h.chains()
	h.ccitt()
	h.ccittWide()
	h.ccittRows()
	e.Finish("a case is non-trivial when it carries data (codecs, predictors, chains, CCITT images), a parameter set validation accepts, or a non-empty dictionary; distinct by content",
		map[string]any{})
}
