package main

import (
	"bytes"
	"fmt"
	"strings"

	"seehuhn.de/go/pdf"
	"seehuhn.de/go/pdf/verifharness/c02/prog"
)

func deep(n int) pdf.Object {
	var o pdf.Object = pdf.Integer(1)
	for i := 0; i < n; i++ {
		o = pdf.Array{o}
	}
	return o
}

func try(name string, hr bool, v pdf.Version, f func(w *pdf.Writer, refs []pdf.Reference) error) {
	sink := &prog.Sink{}
	w, err := pdf.NewWriter(sink, v, &pdf.WriterOptions{HumanReadable: hr})
	if err != nil {
		panic(err)
	}
	refs := []pdf.Reference{w.Alloc(), w.Alloc(), w.Alloc(), w.Alloc()}
	w.Put(refs[0], pdf.Integer(100))
	err = f(w, refs)
	fmt.Printf("%s: refused op: %v\n", name, err)
	err2 := w.Put(refs[2], pdf.Name("After"))
	pages := w.Alloc()
	w.Put(pages, pdf.Dict{"Type": pdf.Name("Pages"), "Kids": pdf.Array{}, "Count": pdf.Integer(0)})
	w.GetMeta().Catalog.Pages = pages
	err3 := w.Close()
	fmt.Printf("   next Put: %v, Close: %v, %d bytes\n", err2, err3, len(sink.Buf))
	r, err := pdf.NewReader(bytes.NewReader(sink.Buf), int64(len(sink.Buf)), nil)
	if err != nil {
		fmt.Printf("   NewReader: %v\n", err)
		return
	}
	for i, ref := range refs {
		o, err := r.Get(ref, true)
		s := pdf.AsString(o)
		if len(s) > 60 {
			s = s[:60]
		}
		fmt.Printf("   Get(refs[%d]=%v) = %s, %v\n", i, ref, s, err)
	}
}

func main() {
	try("Put deep array", false, pdf.V1_7, func(w *pdf.Writer, refs []pdf.Reference) error { return w.Put(refs[1], deep(257)) })
	try("Put long name inside array", false, pdf.V1_7, func(w *pdf.Writer, refs []pdf.Reference) error {
		return w.Put(refs[1], pdf.Array{pdf.Integer(5), pdf.Name(strings.Repeat("a", 4096))})
	})
	try("WriteCompressed [ok, long name]", false, pdf.V1_7, func(w *pdf.Writer, refs []pdf.Reference) error {
		return w.WriteCompressed([]pdf.Reference{refs[1], refs[3]}, pdf.Integer(5), pdf.Name(strings.Repeat("a", 4096)))
	})
	try("OpenStream dict with long name", false, pdf.V1_7, func(w *pdf.Writer, refs []pdf.Reference) error {
		ws, err := w.OpenStream(refs[1], pdf.Dict{"K": pdf.Name(strings.Repeat("a", 4096))})
		if err != nil {
			return err
		}
		_, err = ws.Write([]byte("data"))
		if err != nil {
			return fmt.Errorf("Write: %w", err)
		}
		err = ws.Close()
		if err != nil {
			return fmt.Errorf("Close: %w", err)
		}
		return nil
	})
	try("OpenStream 9 filters", false, pdf.V1_7, func(w *pdf.Writer, refs []pdf.Reference) error {
		fs := make([]pdf.Filter, 9)
		for i := range fs {
			fs[i] = pdf.FilterASCIIHex{}
		}
		_, err := w.OpenStream(refs[1], pdf.Dict{}, fs...)
		return err
	})
	try("OpenStream bad filter (Flate Columns without predictor)", false, pdf.V1_7, func(w *pdf.Writer, refs []pdf.Reference) error {
		_, err := w.OpenStream(refs[1], pdf.Dict{}, pdf.FilterASCIIHex{}, pdf.FilterFlate{Columns: 5})
		return err
	})
	try("OpenStream /Length not integer", false, pdf.V1_7, func(w *pdf.Writer, refs []pdf.Reference) error {
		_, err := w.OpenStream(refs[1], pdf.Dict{"Length": pdf.Name("x")})
		return err
	})
	try("Put NaN", true, pdf.V1_4, func(w *pdf.Writer, refs []pdf.Reference) error {
		nan := 0.0
		nan = nan / nan
		return w.Put(refs[1], pdf.Array{pdf.Integer(1), pdf.Real(nan)})
	})
}
