package main

import (
	"bytes"
	"compress/zlib"
	"fmt"
	"image"
	"image/color"
	"image/jpeg"
	"io"
	"math/rand/v2"
	"regexp"
	"strconv"
)

// Font-program and image mutants: the goroutine-leak leg of C05.  Producers
// that feed a parser through a pipe (type1glyphs.FromStream, the DCT decoder)
// must be released in all three situations: (a) the parser fails early,
// (b) the parser SUCCEEDS early and leaves data unread, (c) the parser reads
// everything.  The font program of every embedded font of a generated
// document is replaced accordingly (stored unfiltered, so that the bytes are
// exactly what the parser sees).

var (
	len1Pat = regexp.MustCompile(`/Length1 (\d+)`)
	len2Pat = regexp.MustCompile(`/Length2 (\d+)`)
	subPat  = regexp.MustCompile(`/Subtype ?/(\w+)`)
)

type fontStream struct {
	loc      streamLoc
	kind     string // type1, truetype, cff (FontFile3)
	subtype  string
	l1, l2   int
	data     []byte // decoded font program
	hasFlate bool
}

func inflate(b []byte) []byte {
	zr, err := zlib.NewReader(bytes.NewReader(b))
	if err != nil {
		return nil
	}
	out, _ := io.ReadAll(io.LimitReader(zr, 16<<20))
	return out
}

// fontStreams finds the embedded font programs of a file written by the
// library (stream dictionaries are always direct objects).
func fontStreams(d []byte) []fontStream {
	var res []fontStream
	for _, s := range findStreams(d) {
		dict := d[s.objStart:s.dictEnd]
		fs := fontStream{loc: s}
		sub := ""
		if m := subPat.FindSubmatch(dict); m != nil {
			sub = string(m[1])
		}
		m1 := len1Pat.FindSubmatch(dict)
		m2 := len2Pat.FindSubmatch(dict)
		switch {
		case sub == "Type1C" || sub == "CIDFontType0C" || sub == "OpenType":
			fs.kind, fs.subtype = "cff", sub
		case m1 != nil && m2 != nil:
			fs.kind = "type1"
			fs.l1, _ = strconv.Atoi(string(m1[1]))
			fs.l2, _ = strconv.Atoi(string(m2[1]))
		case m1 != nil:
			fs.kind = "truetype"
		default:
			continue
		}
		body := d[s.dataStart:s.dataEnd]
		if bytes.Contains(dict, []byte("/FlateDecode")) {
			fs.hasFlate = true
			body = inflate(bytes.TrimRight(body, "\r\n"))
			if body == nil {
				continue
			}
		} else {
			body = bytes.TrimRight(body, "\r\n")
		}
		fs.data = body
		res = append(res, fs)
	}
	return res
}

// rewriteStream replaces the dictionary and the body of the stream at s and
// appends a fresh cross-reference table.
func rewriteStream(d []byte, s streamLoc, dict string, body []byte) []byte {
	var obj bytes.Buffer
	fmt.Fprintf(&obj, "\n<< /Length %d %s >>\nstream\n", len(body), dict)
	obj.Write(body)
	obj.WriteString("\n")
	out := splice(d, s.objStart+4, s.dataEnd-(s.objStart+4), obj.Bytes())
	return repairXRef(out)
}

func zerosTrailer(n int) []byte {
	var b bytes.Buffer
	line := bytes.Repeat([]byte{'0'}, 64)
	for b.Len() < n {
		b.Write(line)
		b.WriteByte('\n')
	}
	b.WriteString("cleartomark\n")
	return b.Bytes()
}

// trailing data of several pipe-write / read-ahead sizes
var trailSizes = []int{512, 5000, 33000, 70000, 300000}

type fontVariant struct {
	name string
	dict string
	body []byte
}

func type1Variants(fs fontStream) []fontVariant {
	var res []fontVariant
	d := fs.data
	l1, l2 := fs.l1, fs.l2
	if l1+l2 > len(d) || l1 <= 0 {
		l1, l2 = len(d)/8, len(d)-len(d)/8
	}
	core := d[:l1+l2]
	dict := func(a, b, c int) string { return fmt.Sprintf("/Length1 %d /Length2 %d /Length3 %d", a, b, c) }
	// (c) the program as it is
	res = append(res, fontVariant{"t1-whole", dict(l1, l2, len(d)-l1-l2), d})
	// (a) the parser fails early, much data behind
	junk := bytes.Repeat([]byte("this is not a font program. ((( "), 3000)
	res = append(res, fontVariant{"t1-fail-garbage", dict(l1, l2, 0), junk})
	res = append(res, fontVariant{"t1-fail-cleartext", dict(l1, l2, len(junk)),
		append(append(bytes.Clone(core[:l1/2]), []byte(" ) ] } >> def bogus ")...), junk...)})
	bad := bytes.Clone(core)
	for i := l1 + 20; i < l1+60 && i < len(bad); i++ {
		bad[i] ^= 0xA5
	}
	res = append(res, fontVariant{"t1-fail-eexec", dict(l1, l2, len(junk)), append(bad, junk...)})
	res = append(res, fontVariant{"t1-fail-truncated", dict(l1, l2, 0), bytes.Clone(core[:l1+l2/2])})
	// (b) the parser succeeds before the end of the data
	for _, n := range trailSizes {
		tr := zerosTrailer(n)
		res = append(res, fontVariant{fmt.Sprintf("t1-early-trailer%d", n), dict(l1, l2, len(tr)),
			append(bytes.Clone(core), tr...)})
		for _, op := range []string{"stop", "quit", "currentfile closefile", "end end stop"} {
			mid := []byte("\n" + op + "\n")
			body := append(append(bytes.Clone(core), mid...), tr...)
			res = append(res, fontVariant{fmt.Sprintf("t1-early-%s%d", op[:4], n),
				dict(l1, l2+len(mid), len(tr)), body})
		}
	}
	// success in the clear text part already (no eexec section is needed by a lenient parser)
	res = append(res, fontVariant{"t1-early-cleartext-stop", dict(l1, l2, 0),
		append(append(bytes.Clone(core[:l1]), []byte("\nstop\n")...), core[l1:]...)})
	// stale lengths
	res = append(res, fontVariant{"t1-lengths-lie", dict(7, 1<<30, -5), append(bytes.Clone(core), zerosTrailer(70000)...)})
	return res
}

func sfntVariants(fs fontStream) []fontVariant {
	prefix := "tt"
	dict := func(n int) string { return fmt.Sprintf("/Length1 %d", n) }
	if fs.kind == "cff" {
		prefix = "cff"
		dict = func(n int) string { return "/Subtype /" + fs.subtype }
	}
	d := fs.data
	junk := bytes.Repeat([]byte{0xDE, 0xAD, 0xBE, 0xEF, 0, 1, 2, 3}, 9000)
	res := []fontVariant{
		{prefix + "-whole", dict(len(d)), d},
		{prefix + "-fail-garbage", dict(len(junk)), junk},
		{prefix + "-fail-truncated", dict(len(d) / 2), bytes.Clone(d[:len(d)/2])},
	}
	for _, n := range []int{512, 70000} {
		body := append(bytes.Clone(d), junk[:n]...)
		res = append(res, fontVariant{fmt.Sprintf("%s-early-junk%d", prefix, n), dict(len(d)), body})
	}
	hdr := bytes.Clone(d)
	for i := 4; i < 12 && i < len(hdr); i++ {
		hdr[i] = 0xFF
	}
	res = append(res, fontVariant{prefix + "-fail-header", dict(len(d)), hdr})
	return res
}

func variantsOf(fs fontStream) []fontVariant {
	if fs.kind == "type1" {
		return type1Variants(fs)
	}
	return sfntVariants(fs)
}

// fontCorpus: every variant for one embedded font of each kind.
func fontCorpus(name string, d []byte) []corpusEntry {
	var res []corpusEntry
	done := map[string]bool{}
	for _, fs := range fontStreams(d) {
		key := fs.kind + fs.subtype
		if done[key] {
			continue
		}
		done[key] = true
		for _, v := range variantsOf(fs) {
			res = append(res, corpusEntry{name + "-font-" + v.name, rewriteStream(d, fs.loc, v.dict, v.body)})
		}
	}
	return res
}

// mFontProgram replaces one embedded font program by a random variant.
func mFontProgram(R *rand.Rand, d, _ []byte) ([]byte, string) {
	fss := fontStreams(d)
	if len(fss) == 0 {
		return mStreamDamage(R, d, nil)
	}
	fs := fss[R.IntN(len(fss))]
	vs := variantsOf(fs)
	v := vs[R.IntN(len(vs))]
	body := v.body
	if R.IntN(3) == 0 && len(body) > 10 {
		body = bytes.Clone(body)
		body[R.IntN(len(body))] ^= byte(1 << R.IntN(8))
	}
	return rewriteStream(d, fs.loc, v.dict, body), "font:" + v.name
}

// ---------------------------------------------------------------------------
// DCT

func jpegBytes() []byte {
	img := image.NewRGBA(image.Rect(0, 0, 96, 64))
	for y := 0; y < 64; y++ {
		for x := 0; x < 96; x++ {
			img.Set(x, y, color.RGBA{uint8(x * 2), uint8(y * 4), uint8(x ^ y), 255})
		}
	}
	var b bytes.Buffer
	jpeg.Encode(&b, img, &jpeg.Options{Quality: 80})
	return b.Bytes()
}

const dctDict = "/Type /XObject /Subtype /Image /Width 96 /Height 64 /ColorSpace /DeviceRGB /BitsPerComponent 8 /Filter /DCTDecode"

// dctCorpus: image data that ends early / late / not at all.
func dctCorpus(name string, d []byte) []corpusEntry {
	var res []corpusEntry
	for _, s := range findStreams(d) {
		if !bytes.Contains(d[s.objStart:s.dictEnd], []byte("/DCTDecode")) {
			continue
		}
		j := jpegBytes()
		junk := bytes.Repeat([]byte{0xFF, 0x00, 0x12, 0x34}, 20000)
		vs := []fontVariant{
			{"whole", dctDict, j},
			{"early-junk512", dctDict, append(bytes.Clone(j), junk[:512]...)},
			{"early-junk70000", dctDict, append(bytes.Clone(j), junk[:70000]...)},
			{"early-second-image", dctDict, append(bytes.Clone(j), j...)},
			{"fail-truncated", dctDict, bytes.Clone(j[:len(j)/2])},
			{"fail-garbage", dctDict, junk[:40000]},
			{"fail-header", dctDict, append([]byte{0xFF, 0xD8, 0xFF, 0xC0, 0, 4, 1, 2}, junk[:30000]...)},
		}
		for _, v := range vs {
			res = append(res, corpusEntry{name + "-dct-" + v.name, rewriteStream(d, s, v.dict, v.body)})
		}
		break
	}
	return res
}
