package main

import (
	"bytes"
	"compress/zlib"
	"fmt"
	"math/rand/v2"
	"sort"
	"strconv"
	"strings"

	"seehuhn.de/go/pdf"
)

// Hand-built files around the resolution discipline of object streams: the
// values of an object stream's dictionary (/Filter, /DecodeParms, /Length,
// /N, /First, /Extends, array elements) are indirect objects that are
// themselves members of the same object stream, of a second object stream
// that depends on the first, or ordinary objects; and object streams whose
// cross-reference entry claims that they are compressed members themselves.

type osMember struct {
	num  int
	text string
}

type osStream struct {
	num      int
	extra    string // extra dictionary entries; overrides /N, /First, /Length, /Filter when they occur
	members  []osMember
	flate    bool   // compress the body (the dictionary only says so if extra does)
	inStm    int    // != 0: the cross-reference entry claims the stream is compressed in this stream
	asRef    int    // != 0: the object at the stream's offset is the reference "asRef 0 R" instead
	bodyOnly string // replaces the generated body
}

type osFile struct {
	streams   []osStream
	ordinary  map[int]string
	xrefExtra string // extra entries of the cross-reference stream dictionary
}

// facts about the generated body of a stream (for indirect /N, /First, /Length)
type osFacts struct{ n, first, length int }

func (s *osStream) body() ([]byte, osFacts) {
	var hdr, objs bytes.Buffer
	for _, m := range s.members {
		fmt.Fprintf(&hdr, "%d %d ", m.num, objs.Len())
		objs.WriteString(m.text)
		objs.WriteByte('\n')
	}
	first := hdr.Len()
	raw := append(hdr.Bytes(), objs.Bytes()...)
	if s.bodyOnly != "" {
		raw = []byte(s.bodyOnly)
	}
	if s.flate {
		var z bytes.Buffer
		zw := zlib.NewWriter(&z)
		zw.Write(raw)
		zw.Close()
		raw = z.Bytes()
	}
	return raw, osFacts{len(s.members), first, len(raw)}
}

func (f *osFile) build() []byte {
	buf := &bytes.Buffer{}
	buf.WriteString("%PDF-1.7\n")
	type xe struct{ tp, a, b int }
	xref := map[int]xe{}
	put := func(num int, text string) {
		xref[num] = xe{1, buf.Len(), 0}
		fmt.Fprintf(buf, "%d 0 obj\n%s\nendobj\n", num, text)
	}
	put(1, "<< /Type /Catalog /Pages 2 0 R >>")
	put(2, "<< /Type /Pages /Kids [] /Count 0 >>")
	nums := make([]int, 0, len(f.ordinary))
	for n := range f.ordinary {
		nums = append(nums, n)
	}
	sort.Ints(nums)
	for _, n := range nums {
		put(n, f.ordinary[n])
	}
	for _, s := range f.streams {
		body, facts := s.body()
		dict := "/Type /ObjStm"
		if !strings.Contains(s.extra, "/N ") {
			dict += fmt.Sprintf(" /N %d", facts.n)
		}
		if !strings.Contains(s.extra, "/First ") {
			dict += fmt.Sprintf(" /First %d", facts.first)
		}
		if !strings.Contains(s.extra, "/Length ") {
			dict += fmt.Sprintf(" /Length %d", facts.length)
		}
		if s.flate && !strings.Contains(s.extra, "/Filter") {
			dict += " /Filter /FlateDecode"
		}
		dict += " " + s.extra
		off := buf.Len()
		if s.asRef != 0 {
			fmt.Fprintf(buf, "%d 0 obj\n%d 0 R\nendobj\n", s.num, s.asRef)
		} else {
			fmt.Fprintf(buf, "%d 0 obj\n<< %s >>\nstream\n", s.num, dict)
			buf.Write(body)
			buf.WriteString("\nendstream\nendobj\n")
		}
		xref[s.num] = xe{1, off, 0}
		if s.inStm != 0 {
			xref[s.num] = xe{2, s.inStm, 0}
		}
		for i, m := range s.members {
			xref[m.num] = xe{2, s.num, i}
		}
	}
	xnum := 90
	x := buf.Len()
	xref[xnum] = xe{1, x, 0}
	var data bytes.Buffer
	for n := 0; n <= xnum; n++ {
		e, ok := xref[n]
		if !ok {
			e = xe{0, 0, 0}
		}
		data.Write([]byte{byte(e.tp), byte(e.a >> 16), byte(e.a >> 8), byte(e.a), byte(e.b >> 8), byte(e.b)})
	}
	fmt.Fprintf(buf, "%d 0 obj\n<< /Type /XRef /Size %d /W [1 3 2] /Root 1 0 R /Length %d %s >>\nstream\n", xnum, xnum+1, data.Len(), f.xrefExtra)
	buf.Write(data.Bytes())
	fmt.Fprintf(buf, "\nendstream\nendobj\nstartxref\n%d\n%%%%EOF\n", x)
	return buf.Bytes()
}

// objStmCorpus enumerates key x arrangement.
func objStmCorpus() []corpusEntry {
	var res []corpusEntry
	type keyForm struct{ name, form string } // %s is replaced by the reference
	forms := []keyForm{
		{"Filter", "/Filter %s"}, {"FilterArr", "/Filter [%s]"},
		{"DecodeParms", "/DecodeParms %s"}, {"DecodeParmsArr", "/Filter [/FlateDecode] /DecodeParms [%s]"},
		{"Length", "/Length %s"}, {"N", "/N %s"}, {"First", "/First %s"}, {"Extends", "/Extends %s"},
	}
	// the value the indirect object must have for the file to be readable
	value := func(k string, fa osFacts, flate bool) string {
		switch k {
		case "Filter":
			if flate {
				return "/FlateDecode"
			}
			return "null"
		case "FilterArr":
			return "/FlateDecode"
		case "DecodeParms", "DecodeParmsArr":
			return "<< /Predictor 1 >>"
		case "Length":
			return strconv.Itoa(fa.length)
		case "N":
			return strconv.Itoa(fa.n)
		case "First":
			return strconv.Itoa(fa.first)
		default:
			return "null"
		}
	}
	for _, kf := range forms {
		flate := kf.name == "FilterArr" || kf.name == "DecodeParmsArr"
		mk := func(num int, dep int, val string) osStream {
			s := osStream{num: num, flate: flate, extra: fmt.Sprintf(kf.form, fmt.Sprintf("%d 0 R", dep))}
			base := num * 10
			if num == 3 {
				base = 10
			} else {
				base = 20
			}
			s.members = []osMember{{base, val}, {base + 1, "<< /A [1 2 3] >>"}, {base + 2, "(text)"}}
			return s
		}
		// the facts do not depend on the member values' lengths for /N; /First
		// and /Length do, so compute them by a fixed point
		fix := func(build func(v string) osStream) osStream {
			v := "0"
			var s osStream
			for i := 0; i < 4; i++ {
				s = build(v)
				_, fa := s.body()
				nv := value(kf.name, fa, flate)
				if nv == v {
					break
				}
				v = nv
			}
			return s
		}
		// (a) the value is a member of the same object stream
		sa := fix(func(v string) osStream { return mk(3, 10, v) })
		res = append(res, corpusEntry{"objstm-" + kf.name + "-same", (&osFile{streams: []osStream{sa}}).build()})
		// (b) two object streams, each needing a member of the other
		b3 := fix(func(v string) osStream { return mk(3, 20, v) })
		b4 := fix(func(v string) osStream { return mk(4, 10, v) })
		res = append(res, corpusEntry{"objstm-" + kf.name + "-mutual", (&osFile{streams: []osStream{b3, b4}}).build()})
		// (c) the value is an ordinary object (a readable file), directly and
		// through a reference chain
		c3 := mk(3, 30, "null")
		_, fa := c3.body()
		res = append(res, corpusEntry{"objstm-" + kf.name + "-ordinary", (&osFile{streams: []osStream{c3},
			ordinary: map[int]string{30: "31 0 R", 31: value(kf.name, fa, flate)}}).build()})
		// (c') an ordinary object that forwards to a compressed one
		d3 := fix(func(v string) osStream { return mk(3, 30, v) })
		res = append(res, corpusEntry{"objstm-" + kf.name + "-forwarded", (&osFile{streams: []osStream{d3},
			ordinary: map[int]string{30: "10 0 R"}}).build()})
	}
	plain := func(num, base int) osStream {
		return osStream{num: num, members: []osMember{{base, "(a)"}, {base + 1, "<< /B 1 >>"}, {base + 2, "7"}}}
	}
	// object streams whose cross-reference entry says they are compressed
	s3 := plain(3, 10)
	s3.inStm = 3
	res = append(res, corpusEntry{"objstm-compressed-in-itself", (&osFile{streams: []osStream{s3}}).build()})
	s3, s4 := plain(3, 10), plain(4, 20)
	s3.inStm, s4.inStm = 4, 3
	res = append(res, corpusEntry{"objstm-compressed-in-each-other", (&osFile{streams: []osStream{s3, s4}}).build()})
	s3, s4 = plain(3, 10), plain(4, 20)
	s3.inStm = 4
	res = append(res, corpusEntry{"objstm-compressed-in-other", (&osFile{streams: []osStream{s3, s4}}).build()})
	// the stream object is a reference to a member of itself / to another stream
	s3 = plain(3, 10)
	s3.asRef = 10
	res = append(res, corpusEntry{"objstm-is-reference-to-member", (&osFile{streams: []osStream{s3}}).build()})
	s3, s4 = plain(3, 10), plain(4, 20)
	s3.asRef = 4
	res = append(res, corpusEntry{"objstm-is-reference-to-stream", (&osFile{streams: []osStream{s3, s4}}).build()})
	// members that look like streams, with an indirect /Length that is the
	// member itself, another such member, or a member of another object stream
	ms := func(l int) string { return fmt.Sprintf("<< /Length %d 0 R >>\nstream\nabc\nendstream", l) }
	s3 = osStream{num: 3, members: []osMember{{10, ms(10)}, {11, ms(12)}, {12, ms(11)}}}
	res = append(res, corpusEntry{"objstm-member-stream-length-self", (&osFile{streams: []osStream{s3}}).build()})
	s3 = osStream{num: 3, members: []osMember{{10, ms(20)}, {11, "3"}, {12, ms(30)}}}
	s4 = osStream{num: 4, members: []osMember{{20, ms(10)}, {21, ms(11)}, {22, ms(21)}}}
	res = append(res, corpusEntry{"objstm-member-stream-length-mutual", (&osFile{streams: []osStream{s3, s4},
		ordinary: map[int]string{30: "10 0 R"}}).build()})
	// /Extends chains and loops
	s3, s4 = plain(3, 10), plain(4, 20)
	s3.extra, s4.extra = "/Extends 4 0 R", "/Extends 3 0 R"
	res = append(res, corpusEntry{"objstm-extends-loop", (&osFile{streams: []osStream{s3, s4}}).build()})
	return res
}

// G: Reader.Get of a compressed object for random arrangements, compared
// with ObjStmGet.get_in.  The only indirect dictionary entry used is /Filter
// (whose resolved value is null or missing when the get succeeds).
func genObjStm(R *rand.Rand) modelCase {
	// objects: streams 3, 4; members 10, 11 of 3 and 20, 21 of 4; ordinary 30..32; 40 missing
	// values and dictionary entries never lead to a stream object (GetFilters
	// looks at the type of /DecodeParms only when there is a filter)
	pool := []int{10, 11, 20, 21, 30, 31, 32, 40}
	pick := func() int { return pool[R.IntN(len(pool))] }
	pickAny := func() int { return append(pool, 3, 4)[R.IntN(len(pool)+2)] }
	val := func() (string, string) { // file text, model token
		if R.IntN(2) == 0 {
			return "null", "v"
		}
		t := pick()
		return fmt.Sprintf("%d 0 R", t), "r" + strconv.Itoa(t)
	}
	f := &osFile{ordinary: map[int]string{}}
	var xr, mem []string
	for _, n := range []int{30, 31, 32} {
		txt, tok := val()
		f.ordinary[n] = txt
		xr = append(xr, fmt.Sprintf("%d D%s", n, tok))
	}
	for _, sn := range []int{3, 4} {
		s := osStream{num: sn}
		base := 10
		if sn == 4 {
			base = 20
		}
		for i := 0; i < 2; i++ {
			txt, tok := val()
			if R.IntN(6) == 0 {
				// stream-shaped: `<< /Length l 0 R >> stream`
				l := pickAny()
				txt = fmt.Sprintf("<< /Length %d 0 R >>\nstream\nabc\nendstream", l)
				tok = "m" + strconv.Itoa(l)
			}
			s.members = append(s.members, osMember{base + i, txt})
			xr = append(xr, fmt.Sprintf("%d S%d", base+i, sn))
			mem = append(mem, fmt.Sprintf("%d %s", base+i, tok))
		}
		deps := ""
		tok := "s" + strconv.Itoa(sn)
		switch R.IntN(4) {
		case 0:
		case 1, 2:
			d := pick()
			deps = fmt.Sprintf("/Filter %d 0 R", d)
			tok += ":" + strconv.Itoa(d)
		default:
			d1, d2 := pick(), pick()
			deps = fmt.Sprintf("/Filter %d 0 R /DecodeParms %d 0 R", d1, d2)
			// GetFilters resolves /DecodeParms first
			tok += ":" + strconv.Itoa(d2) + ":" + strconv.Itoa(d1)
		}
		s.extra = deps
		switch R.IntN(6) {
		case 0:
			s.inStm = []int{3, 4}[R.IntN(2)]
			xr = append(xr, fmt.Sprintf("%d S%d", sn, s.inStm))
		case 1:
			s.asRef = pickAny()
			xr = append(xr, fmt.Sprintf("%d Dr%d", sn, s.asRef))
		default:
			xr = append(xr, fmt.Sprintf("%d D%s", sn, tok))
		}
		f.streams = append(f.streams, s)
	}
	target := []int{10, 11, 20, 21}[R.IntN(4)]
	file := f.build()
	line := fmt.Sprintf("G %d %d %s %d %s", target, len(xr), strings.Join(xr, " "), len(mem), strings.Join(mem, " "))
	run := func() (string, []violation) {
		r, err := pdf.NewReader(bytes.NewReader(file), int64(len(file)), &pdf.ReaderOptions{ErrorHandling: pdf.ErrorHandlingStop})
		if err != nil {
			return "open-failed", nil
		}
		defer r.Close()
		_, err = r.Get(pdf.NewReference(uint32(target), 0), true)
		switch {
		case err == nil:
			return "ok", nil
		case pdf.IsMalformed(err):
			return "mal", nil
		default:
			return "other", nil
		}
	}
	return modelCase{Line: line, Run: run, NonTrivial: true, Class: "G"}
}

// mObjStmIndirect makes a dictionary value of an object stream (or of any
// stream) indirect, pointing at some object of the file - very often a
// member of that same object stream.
func mObjStmIndirect(R *rand.Rand, d, _ []byte) ([]byte, string) {
	ss := findStreams(d)
	var cand []streamLoc
	for _, s := range ss {
		if s.isObjStm {
			cand = append(cand, s)
		}
	}
	if len(cand) == 0 {
		cand = ss
	}
	if len(cand) == 0 {
		return mKeyValue(R, d, nil)
	}
	s := cand[R.IntN(len(cand))]
	var targets []int
	for _, m := range refPat.FindAllSubmatch(d, 300) {
		n, _ := strconv.Atoi(string(m[1]))
		targets = append(targets, n)
	}
	if m := objPat.FindAllSubmatch(d[:s.dictEnd], -1); len(m) > 0 {
		own, _ := strconv.Atoi(string(m[len(m)-1][1]))
		targets = append(targets, own, own+1, own+2, own-1)
	}
	if len(targets) == 0 {
		return mKeyValue(R, d, nil)
	}
	t := targets[R.IntN(len(targets))]
	key := []string{"/Filter", "/DecodeParms", "/Length", "/N", "/First", "/Extends"}[R.IntN(6)]
	val := fmt.Sprintf(" %d 0 R", t)
	if (key == "/Filter" || key == "/DecodeParms") && R.IntN(3) == 0 {
		val = fmt.Sprintf(" [%d 0 R]", t)
	}
	dict := d[s.objStart:s.dictEnd]
	if i := bytes.Index(dict, []byte(key)); i >= 0 && (key != "/N" || bytes.HasPrefix(dict[i:], []byte("/N "))) {
		j := s.objStart + i + len(key)
		return splice(d, j, skipValue(d, j), []byte(val)), "objstm-indirect:" + key
	}
	// insert the key in front of the closing >>
	if i := bytes.LastIndex(dict, []byte(">>")); i >= 0 {
		return splice(d, s.objStart+i, 0, []byte(key+val+" ")), "objstm-indirect:" + key
	}
	return mKeyValue(R, d, nil)
}

// J: the index of an object stream: /N and /First lies, damaged offset tables,
// member lookup by number, compared with ObjStmIndex.objstm_find.
func genIndex(R *rand.Rand) modelCase {
	names := []string{"/Aaa", "/Bb", "/C", "/Dddd"}
	k := 1 + R.IntN(4)
	if R.IntN(10) == 0 {
		k = 0
	}
	// the members
	var body strings.Builder
	rel := make([]int, 0, 4)
	for i := 0; i < 4; i++ {
		rel = append(rel, body.Len())
		body.WriteString(names[i])
		body.WriteByte(' ')
	}
	bodyLen := body.Len()
	type hint struct{ val, end int64 }
	var hdr strings.Builder
	var ints []hint
	put := func(v int64) {
		fmt.Fprintf(&hdr, "%d", v)
		ints = append(ints, hint{v, int64(hdr.Len())})
		hdr.WriteString([]string{" ", "  ", "\n"}[R.IntN(3)])
	}
	nums := []int64{10, 11, 12, 13}
	for i := 0; i < k; i++ {
		no := nums[i%4]
		switch R.IntN(36) {
		case 0:
			no = -1
		case 1:
			no = 4294967296
		case 2:
			no = 4294967295
		case 3:
			no = nums[R.IntN(4)] // duplicates
		}
		off := int64(rel[i%4])
		switch R.IntN(24) {
		case 0:
			off = -1
		case 1:
			off = 9223372036854775807
		case 2:
			off = int64(bodyLen) + int64(R.IntN(3)) - 1
		case 3:
			off = int64(R.IntN(bodyLen))
		}
		put(no)
		put(off)
	}
	first := int64(hdr.Len())
	text := hdr.String() + body.String()
	total := len(text)
	pick := func(opts []int64) int64 { return opts[R.IntN(len(opts))] }
	nTok, nTxt := "", ""
	switch R.IntN(20) {
	case 0:
		nTok, nTxt = "o", "/X"
	default:
		n := int64(k)
		if R.IntN(5) == 0 {
			n = pick([]int64{int64(k) - 1, int64(k) + 1, 0, 10000, 10001, -1, 1})
		}
		nTok, nTxt = "i"+strconv.FormatInt(n, 10), strconv.FormatInt(n, 10)
	}
	fTok, fTxt := "", ""
	switch R.IntN(20) {
	case 0:
		fTok, fTxt = "o", "(x)"
	default:
		f := first
		if R.IntN(5) == 0 {
			f = pick([]int64{first - 1, first + 1, 0, int64(total), int64(total) + 5, 9223372036854775807, -3, first - 2})
		}
		fTok, fTxt = "i"+strconv.FormatInt(f, 10), strconv.FormatInt(f, 10)
	}
	wanted := pick([]int64{10, 11, 12, 13, 77})
	if k > 0 && R.IntN(5) > 0 {
		wanted = nums[R.IntN(k)]
	}
	var oks []string
	for i := 0; i < total; i++ {
		c := text[i]
		if c == '/' || c == '+' || c == '-' || c == '.' || (c >= '0' && c <= '9') {
			oks = append(oks, strconv.Itoa(i))
		}
	}
	var sb strings.Builder
	fmt.Fprintf(&sb, "J %s %s %d %d %d", nTok, fTok, wanted, total, len(ints))
	for _, h := range ints {
		fmt.Fprintf(&sb, " %d %d", h.val, h.end)
	}
	fmt.Fprintf(&sb, " %d %s", len(oks), strings.Join(oks, " "))
	f := &osFile{streams: []osStream{{num: 3, extra: fmt.Sprintf("/N %s /First %s", nTxt, fTxt),
		members: []osMember{{int(wanted), ""}}, bodyOnly: text}}}
	file := f.build()
	run := func() (string, []violation) {
		r, err := pdf.NewReader(bytes.NewReader(file), int64(len(file)), &pdf.ReaderOptions{ErrorHandling: pdf.ErrorHandlingStop})
		if err != nil {
			return "open-failed", nil
		}
		defer r.Close()
		obj, err := r.Get(pdf.NewReference(uint32(wanted), 0), true)
		switch {
		case err == nil && obj == nil:
			return "null", nil
		case err == nil:
			return "ok", nil
		case pdf.IsMalformed(err):
			return "mal", nil
		default:
			return "other", nil
		}
	}
	return modelCase{Line: sb.String(), Run: run, NonTrivial: true, Class: "J"}
}
