package main

import (
	"bytes"
	"fmt"
	"io"
	"runtime"
	"runtime/debug"
	"strings"
	"time"

	"seehuhn.de/go/pdf"
	"seehuhn.de/go/pdf/font"
	"seehuhn.de/go/pdf/font/dict"
	"seehuhn.de/go/pdf/font/glyphdata"
	"seehuhn.de/go/pdf/font/glyphdata/cffglyphs"
	"seehuhn.de/go/pdf/font/glyphdata/sfntglyphs"
	"seehuhn.de/go/pdf/font/glyphdata/type1glyphs"
	"seehuhn.de/go/pdf/font/textextract"
	"seehuhn.de/go/pdf/graphics/content"
	"seehuhn.de/go/pdf/graphics/extract"
	"seehuhn.de/go/pdf/nametree"
	"seehuhn.de/go/pdf/numtree"
	"seehuhn.de/go/pdf/outline"
	"seehuhn.de/go/pdf/page"
	"seehuhn.de/go/pdf/pagetree"
	"seehuhn.de/go/pdf/reader"
)

const (
	maxRefsPerCase  = 400      // Get at most this many cross-referenced objects per case
	maxDrainBytes   = 64 << 20 // drain at most this much of one decoded stream
	maxPagesPerCase = 200
)

// walkStats says how far a walk got (used for the non-triviality count).
type walkStats struct {
	Opened         string // "reader", "sequential", "no"
	Objects        int
	Streams        int
	StreamErrs     int
	Pages          int
	PageOK         int
	Fonts          int
	FontFiles      int
	Ops            int
	Inline         int
	Outline        int
	Names          int
	Malformed      int         // calls that returned a MalformedFileError
	OtherErr       int         // calls that returned another error
	MaxOut         int64       // the longest decoded stream
	MaxStreamAlloc int64       // the largest allocation during one stream decode
	Viol           []violation `json:",omitempty"`
}

func (st *walkStats) note(err error) {
	if err == nil {
		return
	}
	if pdf.IsMalformed(err) {
		st.Malformed++
	} else {
		st.OtherErr++
	}
}

func fontFile(st *walkStats, fs *glyphdata.Stream) {
	if fs == nil {
		return
	}
	st.FontFiles++
	var err error
	switch fs.Type {
	case glyphdata.Type1:
		_, err = type1glyphs.FromStream(fs)
	case glyphdata.CFFSimple, glyphdata.OpenTypeCFFSimple, glyphdata.CFF, glyphdata.OpenTypeCFF:
		_, err = cffglyphs.FromStream(fs)
	default:
		_, err = sfntglyphs.FromStream(fs)
	}
	_ = err
}

func touchFont(st *walkStats, f font.Instance) {
	if f == nil {
		return
	}
	st.Fonts++
	textextract.GlyphNameMapping(f)
	switch fi := f.FontInfo().(type) {
	case *dict.FontInfoSimple:
		fontFile(st, fi.FontFile)
	case *dict.FontInfoGlyfEmbedded:
		fontFile(st, fi.FontFile)
	case *dict.FontInfoCID:
		fontFile(st, fi.FontFile)
	}
}

// walk is the workload of property C05: open the bytes, fetch everything the
// cross-reference table names, drain every stream through its filters, walk
// the page tree, decode pages, fonts, content streams, outline and name trees.
// Every error is acceptable; a panic, a hang, a leak or an explosion is not.
func walk(d []byte, mode pdf.ReaderErrorHandling, st *walkStats) {
	opt := &pdf.ReaderOptions{ErrorHandling: mode}
	r, err := pdf.NewReader(bytes.NewReader(d), int64(len(d)), opt)
	st.Opened = "reader"
	if err != nil {
		st.note(err)
		st.Opened = "no"
		fi, err2 := pdf.SequentialScan(bytes.NewReader(d), int64(len(d)))
		if err2 != nil {
			st.note(err2)
			return
		}
		nread := 0
		for _, sect := range fi.Sections {
			for _, obj := range sect.Objects {
				if nread >= 50 {
					break
				}
				nread++
				_, err := fi.Read(obj)
				st.note(err)
			}
		}
		r, err = fi.MakeReader(opt)
		if err != nil {
			st.note(err)
			return
		}
		st.Opened = "sequential"
	}
	defer r.Close()

	x := pdf.NewExtractor(r)
	c0 := pdf.CursorAt(x, nil)

	for _, ref := range pdf.VerifC05XRefRefs(r, maxRefsPerCase) {
		o, err := r.Get(ref, true)
		if err != nil {
			st.note(err)
			continue
		}
		st.Objects++
		switch o := o.(type) {
		case *pdf.Stream:
			st.Streams++
			// the working memory of one decode is bounded by the documented
			// per-stream budget (measured as cumulative allocation: an upper
			// bound of the working memory)
			var ms0, ms1 runtime.MemStats
			runtime.ReadMemStats(&ms0)
			checkAlloc := func() {
				runtime.ReadMemStats(&ms1)
				used := int64(ms1.TotalAlloc - ms0.TotalAlloc)
				if used > st.MaxStreamAlloc {
					st.MaxStreamAlloc = used
				}
				if lim := docStreamBudget(o.Length()) + streamAllocSlack; used > lim && len(st.Viol) < 3 {
					st.Viol = append(st.Viol, violation{"stream-allocation-over-documented-budget",
						fmt.Sprintf("object %s: %d bytes allocated while decoding a stream of %d raw bytes; documented budget %d (+ %d slack)",
							ref, used, o.Length(), docStreamBudget(o.Length()), streamAllocSlack)})
				}
			}
			rd, err := pdf.DecodeStream(r, nil, o)
			if err != nil {
				checkAlloc()
				st.note(err)
				st.StreamErrs++
				continue
			}
			nOut, err := io.Copy(io.Discard, io.LimitReader(rd, maxDrainBytes))
			checkAlloc()
			if nOut > st.MaxOut {
				st.MaxOut = nOut
			}
			// the decoded length of an image-dimension filter is bounded by the
			// documented pixel limits, whatever the parameters claim
			if fl, ferr := pdf.GetFilters(r, nil, o.Dict); ferr == nil {
				if bound := outputBound(fl); bound > 0 && nOut > bound && len(st.Viol) < 3 {
					st.Viol = append(st.Viol, violation{"decoded-output-over-documented-bound",
						fmt.Sprintf("object %s: at least %d bytes drained from a %T stream in a file of %d bytes; documented bound %d (MaxImagePixels/8 + MaxImageHeight)",
							ref, nOut, fl[len(fl)-1], len(d), bound)})
				}
			}
			if err != nil {
				st.note(err)
				st.StreamErrs++
			}
			rd.Close()
			// a consumer that stops early: the producers behind the reader
			// must be released by Close
			if rd2, err := pdf.DecodeStream(r, nil, o); err == nil {
				io.CopyN(io.Discard, rd2, 7)
				rd2.Close()
			}
		case pdf.Dict:
			if tp, _ := o["Type"].(pdf.Name); tp == "Font" {
				f, err := pdf.Decode(c0, ref, extract.Font)
				st.note(err)
				if err == nil {
					touchFont(st, f)
				}
			}
		}
		_, err = pdf.Resolve(r, ref)
		st.note(err)
	}

	// page tree
	if _, err := pagetree.FindPages(r); err != nil {
		st.note(err)
	}
	it := pagetree.NewIterator(r)
	rd := reader.New(x)
	rd.Character = func(c font.Code) error { return nil }
	for ref, pageDict := range it.All() {
		st.Pages++
		if st.Pages > maxPagesPerCase {
			break
		}
		_ = ref
		pg, err := pdf.Decode(c0, pageDict, page.Decode)
		if err != nil {
			st.note(err)
			continue
		}
		st.PageOK++
		if pg.Resources != nil {
			for _, f := range pg.Resources.Font {
				touchFont(st, f)
			}
		}
		for name, args := range pg.NewIter().All() {
			st.Ops++
			if name == content.OpInlineImage && st.Inline < 50 {
				// the public decode step for inline images
				st.Inline++
				_, err := content.DecodeInlineImage(content.Operator{Name: name, Args: args}, pg.Resources)
				st.note(err)
			}
		}
		rd.Reset()
		st.note(rd.ProcessPage(pg))
	}
	st.note(it.Err)

	meta := r.GetMeta()
	if meta != nil && meta.Catalog != nil {
		cat := meta.Catalog
		if cat.Outlines != 0 {
			o, err := pdf.Decode(c0, cat.Outlines, outline.Decode)
			st.note(err)
			if o != nil {
				var count func(items []*outline.Item)
				count = func(items []*outline.Item) {
					for _, it := range items {
						st.Outline++
						count(it.Children)
					}
				}
				count(o.Items)
			}
		}
		if names, _ := pdf.Resolve(r, cat.Names); names != nil {
			if nd, ok := names.(pdf.Dict); ok {
				for _, key := range []pdf.Name{"Dests", "EmbeddedFiles", "JavaScript", "AP"} {
					if nd[key] == nil {
						continue
					}
					t, err := nametree.ExtractFromFile(r, nd[key])
					st.note(err)
					if t != nil {
						for range t.All() {
							st.Names++
						}
						t.Lookup("dest007")
					}
				}
			}
		}
		if cat.PageLabels != nil {
			t, err := numtree.ExtractFromFile(r, cat.PageLabels)
			st.note(err)
			if t != nil {
				for range t.All() {
					st.Names++
				}
			}
		}
	}
}

// ---------------------------------------------------------------------------
// one measured case

type caseResult struct {
	Idx        int       `json:"idx"`
	Kind       string    `json:"kind"`
	Mode       int       `json:"mode"`
	Len        int       `json:"len"`
	Status     string    `json:"status"` // ok, panic, timeout, slow, alloc, leak
	Millis     float64   `json:"ms"`
	Alloc      uint64    `json:"alloc"`
	GorBefore  int       `json:"g0"`
	GorAfter   int       `json:"g1"`
	Panic      string    `json:"panic,omitempty"`
	Stack      string    `json:"stack,omitempty"`
	Stats      walkStats `json:"stats"`
	BudgetTime float64   `json:"budget_ms"`
	BudgetMem  uint64    `json:"budget_alloc"`
}

// Budgets.  They are MEASUREMENT thresholds, not theorems; they sit about two
// orders of magnitude above what the unchanged tree needs on the generated
// corpus (typically 2-50 ms and 1-7 MB of cumulative allocation for a 12-20 kB
// input on an idle machine; the maxima seen in a run are written to
// stats.json: measured_max_ms, measured_max_alloc_bytes).
func timeBudget(n int) time.Duration {
	return 3000*time.Millisecond + time.Duration(n)*150*time.Microsecond
}

// The documented per-stream budget is limits.StreamBudget(rawLen) = 8 MiB +
// 1024*rawLen (capped); a case decodes at most maxRefsPerCase streams plus the
// page contents, and every stream's raw length is at most the input length.
func allocBudget(n int) uint64 {
	return 512<<20 + uint64(n)*16*1024
}

const hangTimeout = 10 * time.Second

// goroutineBase is the number of goroutines of an idle process (set once at
// start-up, after the helper goroutines have been started).
var goroutineBase = 1

func settleGoroutines(base int) int {
	g := runtime.NumGoroutine()
	for i := 0; i < 60 && g > base; i++ {
		time.Sleep(10 * time.Millisecond)
		g = runtime.NumGoroutine()
	}
	return g
}

// runCase runs f under the watchdog and the meters.  onHang is called (from
// the watchdog goroutine) if f does not come back; it must not return.
func runCase(res *caseResult, f func(st *walkStats), onHang func()) {
	runtime.GC()
	g0 := settleGoroutines(goroutineBase)
	if g0 > goroutineBase {
		goroutineBase = g0
	}
	var m0, m1 runtime.MemStats
	runtime.ReadMemStats(&m0)
	done := make(chan struct{})
	timer := time.AfterFunc(hangTimeout, func() {
		select {
		case <-done:
		default:
			onHang()
		}
	})
	t0 := time.Now()
	func() {
		defer func() {
			if p := recover(); p != nil {
				res.Status = "panic"
				res.Panic = fmt.Sprint(p)
				st := string(debug.Stack())
				if i := strings.Index(st, "panic("); i >= 0 {
					st = st[i:]
				}
				if len(st) > 1800 {
					st = st[:1800]
				}
				res.Stack = st
			}
		}()
		f(&res.Stats)
	}()
	el := time.Since(t0)
	close(done)
	timer.Stop()
	runtime.ReadMemStats(&m1)
	res.Millis = float64(el.Microseconds()) / 1000
	res.Alloc = m1.TotalAlloc - m0.TotalAlloc
	res.GorBefore = g0
	res.GorAfter = settleGoroutines(g0)
	res.BudgetTime = float64(timeBudget(res.Len).Milliseconds())
	res.BudgetMem = allocBudget(res.Len)
	if res.Status == "" {
		switch {
		case res.GorAfter > g0:
			res.Status = "leak"
			// the leaked goroutines stay: measure the next cases against them
			goroutineBase = res.GorAfter
		case el > timeBudget(res.Len):
			res.Status = "slow"
		case res.Alloc > allocBudget(res.Len):
			res.Status = "alloc"
		default:
			res.Status = "ok"
		}
	}
}
