package main

import (
	"bytes"
	"fmt"
	"io"
	"regexp"
	"runtime"
	"runtime/debug"
	"sort"
	"strings"
	"syscall"
	"time"

	"seehuhn.de/go/pdf"
	"seehuhn.de/go/pdf/font"
	"seehuhn.de/go/pdf/font/dict"
	"seehuhn.de/go/pdf/font/glyphdata"
	"seehuhn.de/go/pdf/font/glyphdata/cffglyphs"
	"seehuhn.de/go/pdf/font/glyphdata/sfntglyphs"
	"seehuhn.de/go/pdf/font/glyphdata/type1glyphs"
	"seehuhn.de/go/pdf/font/textextract"
	"seehuhn.de/go/pdf/graphics/content"
	"seehuhn.de/go/pdf/graphics/extract"
	"seehuhn.de/go/pdf/nametree"
	"seehuhn.de/go/pdf/numtree"
	"seehuhn.de/go/pdf/outline"
	"seehuhn.de/go/pdf/page"
	"seehuhn.de/go/pdf/pagetree"
	"seehuhn.de/go/pdf/reader"
)

const (
	maxRefsPerCase  = 400      // Get at most this many cross-referenced objects per case
	maxDrainBytes   = 64 << 20 // drain at most this much of one decoded stream
	maxPagesPerCase = 200
)

// walkStats says how far a walk got (used for the non-triviality count).
type walkStats struct {
	Opened         string // "reader", "sequential", "no"
	Objects        int
	Streams        int
	StreamErrs     int
	Pages          int
	PageOK         int
	Fonts          int
	FontFiles      int
	Ops            int
	Inline         int
	Outline        int
	Names          int
	Malformed      int         // calls that returned a MalformedFileError
	OtherErr       int         // calls that returned another error
	MaxOut         int64       // the longest decoded stream
	MaxStreamAlloc int64       // the largest allocation during one stream decode
	Viol           []violation `json:",omitempty"`
}

func (st *walkStats) note(err error) {
	if err == nil {
		return
	}
	if pdf.IsMalformed(err) {
		st.Malformed++
	} else {
		st.OtherErr++
	}
}

func fontFile(st *walkStats, fs *glyphdata.Stream) {
	if fs == nil {
		return
	}
	st.FontFiles++
	var err error
	switch fs.Type {
	case glyphdata.Type1:
		_, err = type1glyphs.FromStream(fs)
	case glyphdata.CFFSimple, glyphdata.OpenTypeCFFSimple, glyphdata.CFF, glyphdata.OpenTypeCFF:
		_, err = cffglyphs.FromStream(fs)
	default:
		_, err = sfntglyphs.FromStream(fs)
	}
	_ = err
}

func touchFont(st *walkStats, f font.Instance) {
	if f == nil {
		return
	}
	st.Fonts++
	textextract.GlyphNameMapping(f)
	switch fi := f.FontInfo().(type) {
	case *dict.FontInfoSimple:
		fontFile(st, fi.FontFile)
	case *dict.FontInfoGlyfEmbedded:
		fontFile(st, fi.FontFile)
	case *dict.FontInfoCID:
		fontFile(st, fi.FontFile)
	}
}

// walk is the workload of property C05: open the bytes, fetch everything the
// cross-reference table names, drain every stream through its filters, walk
// the page tree, decode pages, fonts, content streams, outline and name trees.
// Every error is acceptable; a panic, a hang, a leak or an explosion is not.
func walk(d []byte, mode pdf.ReaderErrorHandling, st *walkStats) {
	opt := &pdf.ReaderOptions{ErrorHandling: mode}
	r, err := pdf.NewReader(bytes.NewReader(d), int64(len(d)), opt)
	st.Opened = "reader"
	if err != nil {
		st.note(err)
		st.Opened = "no"
		fi, err2 := pdf.SequentialScan(bytes.NewReader(d), int64(len(d)))
		if err2 != nil {
			st.note(err2)
			return
		}
		nread := 0
		for _, sect := range fi.Sections {
			for _, obj := range sect.Objects {
				if nread >= 50 {
					break
				}
				nread++
				_, err := fi.Read(obj)
				st.note(err)
			}
		}
		r, err = fi.MakeReader(opt)
		if err != nil {
			st.note(err)
			return
		}
		st.Opened = "sequential"
	}
	defer r.Close()
	if st.Opened == "reader" && len(d) <= 64<<10 {
		// the recovery path as well, whether or not the file needed it
		if fi, err := pdf.SequentialScan(bytes.NewReader(d), int64(len(d))); err == nil {
			if r2, err := fi.MakeReader(opt); err == nil {
				r2.Close()
			} else {
				st.note(err)
			}
		}
	}

	x := pdf.NewExtractor(r)
	c0 := pdf.CursorAt(x, nil)

	for _, ref := range pdf.VerifC05XRefRefs(r, maxRefsPerCase) {
		o, err := r.Get(ref, true)
		if err != nil {
			st.note(err)
			continue
		}
		st.Objects++
		switch o := o.(type) {
		case *pdf.Stream:
			st.Streams++
			// the working memory of one decode is bounded by the documented
			// per-stream budget (measured as cumulative allocation: an upper
			// bound of the working memory)
			var ms0, ms1 runtime.MemStats
			runtime.ReadMemStats(&ms0)
			checkAlloc := func() {
				runtime.ReadMemStats(&ms1)
				used := int64(ms1.TotalAlloc - ms0.TotalAlloc)
				if used > st.MaxStreamAlloc {
					st.MaxStreamAlloc = used
				}
				if lim := docStreamBudget(o.Length()) + streamAllocSlack; used > lim && len(st.Viol) < 3 {
					st.Viol = append(st.Viol, violation{"stream-allocation-over-documented-budget",
						fmt.Sprintf("object %s: %d bytes allocated while decoding a stream of %d raw bytes; documented budget %d (+ %d slack)",
							ref, used, o.Length(), docStreamBudget(o.Length()), streamAllocSlack)})
				}
			}
			rd, err := pdf.DecodeStream(r, nil, o)
			if err != nil {
				checkAlloc()
				st.note(err)
				st.StreamErrs++
				continue
			}
			nOut, err := io.Copy(io.Discard, io.LimitReader(rd, maxDrainBytes))
			checkAlloc()
			if nOut > st.MaxOut {
				st.MaxOut = nOut
			}
			// the decoded length of an image-dimension filter is bounded by the
			// documented pixel limits, whatever the parameters claim
			if fl, ferr := pdf.GetFilters(r, nil, o.Dict); ferr == nil {
				if bound := outputBound(fl); bound > 0 && nOut > bound && len(st.Viol) < 3 {
					st.Viol = append(st.Viol, violation{"decoded-output-over-documented-bound",
						fmt.Sprintf("object %s: at least %d bytes drained from a %T stream in a file of %d bytes; documented bound %d (MaxImagePixels/8 + MaxImageHeight)",
							ref, nOut, fl[len(fl)-1], len(d), bound)})
				}
			}
			if err != nil {
				st.note(err)
				st.StreamErrs++
			}
			rd.Close()
			// a consumer that stops early: the producers behind the reader
			// must be released by Close
			if rd2, err := pdf.DecodeStream(r, nil, o); err == nil {
				io.CopyN(io.Discard, rd2, 7)
				rd2.Close()
			}
		case pdf.Dict:
			if tp, _ := o["Type"].(pdf.Name); tp == "Font" {
				f, err := pdf.Decode(c0, ref, extract.Font)
				st.note(err)
				if err == nil {
					touchFont(st, f)
				}
			}
		}
		_, err = pdf.Resolve(r, ref)
		st.note(err)
	}

	// page tree
	if _, err := pagetree.FindPages(r); err != nil {
		st.note(err)
	}
	it := pagetree.NewIterator(r)
	rd := reader.New(x)
	rd.Character = func(c font.Code) error { return nil }
	for ref, pageDict := range it.All() {
		st.Pages++
		if st.Pages > maxPagesPerCase {
			break
		}
		_ = ref
		pg, err := pdf.Decode(c0, pageDict, page.Decode)
		if err != nil {
			st.note(err)
			continue
		}
		st.PageOK++
		if pg.Resources != nil {
			for _, f := range pg.Resources.Font {
				touchFont(st, f)
			}
		}
		for name, args := range pg.NewIter().All() {
			st.Ops++
			if name == content.OpInlineImage && st.Inline < 50 {
				// the public decode step for inline images
				st.Inline++
				_, err := content.DecodeInlineImage(content.Operator{Name: name, Args: args}, pg.Resources)
				st.note(err)
			}
		}
		rd.Reset()
		st.note(rd.ProcessPage(pg))
	}
	st.note(it.Err)

	meta := r.GetMeta()
	if meta != nil && meta.Catalog != nil {
		cat := meta.Catalog
		if cat.Outlines != 0 {
			o, err := pdf.Decode(c0, cat.Outlines, outline.Decode)
			st.note(err)
			if o != nil {
				var count func(items []*outline.Item)
				count = func(items []*outline.Item) {
					for _, it := range items {
						st.Outline++
						count(it.Children)
					}
				}
				count(o.Items)
			}
		}
		if names, _ := pdf.Resolve(r, cat.Names); names != nil {
			if nd, ok := names.(pdf.Dict); ok {
				for _, key := range []pdf.Name{"Dests", "EmbeddedFiles", "JavaScript", "AP"} {
					if nd[key] == nil {
						continue
					}
					t, err := nametree.ExtractFromFile(r, nd[key])
					st.note(err)
					if t != nil {
						for range t.All() {
							st.Names++
						}
						t.Lookup("dest007")
					}
				}
			}
		}
		if cat.PageLabels != nil {
			t, err := numtree.ExtractFromFile(r, cat.PageLabels)
			st.note(err)
			if t != nil {
				for range t.All() {
					st.Names++
				}
			}
		}
	}
}

// ---------------------------------------------------------------------------
// one measured case

type caseResult struct {
	Idx        int       `json:"idx"`
	Kind       string    `json:"kind"`
	Mode       int       `json:"mode"`
	Len        int       `json:"len"`
	Status     string    `json:"status"` // ok, panic, timeout, slow, alloc, leak
	Millis     float64   `json:"ms"`
	Alloc      uint64    `json:"alloc"`
	CPUMillis  float64   `json:"cpu_ms"`
	Leaked     string    `json:"leaked,omitempty"`
	GorBefore  int       `json:"g0"`
	GorAfter   int       `json:"g1"`
	Panic      string    `json:"panic,omitempty"`
	Stack      string    `json:"stack,omitempty"`
	Stats      walkStats `json:"stats"`
	BudgetTime float64   `json:"budget_ms"`
	BudgetMem  uint64    `json:"budget_alloc"`
}

// Budgets.  They are MEASUREMENT thresholds, not theorems; they sit about two
// orders of magnitude above what the unchanged tree needs on the generated
// corpus (typically 2-50 ms and 1-7 MB of cumulative allocation for a 12-20 kB
// input on an idle machine; the maxima seen in a run are written to
// stats.json: measured_max_ms, measured_max_alloc_bytes).
// timeBudget bounds the CPU time (user + system) of one case.
func timeBudget(n int) time.Duration {
	return 3000*time.Millisecond + time.Duration(n)*150*time.Microsecond
}

// The documented per-stream budget is limits.StreamBudget(rawLen) = 8 MiB +
// 1024*rawLen (capped); a case decodes at most maxRefsPerCase streams plus the
// page contents, and every stream's raw length is at most the input length.
func allocBudget(n int) uint64 {
	return 512<<20 + uint64(n)*16*1024
}

// Time verdicts are based on the CPU time of this process (user + system),
// which one case at a time consumes: the load of the machine does not enter.
// The wall clock is only a generous guard against a case that blocks without
// using the CPU.
const (
	hangWall     = 90 * time.Second // blocked (or starved) for this long: a suspect
	settleWall   = 20 * time.Second // how long leftover goroutines may take to finish
	settleParked = 1500 * time.Millisecond
)

// hangCPU: a case that has burnt this much CPU without returning is given up.
func hangCPU(n int) time.Duration { return 2*timeBudget(n) + 3*time.Second }

func cpuNow() time.Duration {
	var ru syscall.Rusage
	if err := syscall.Getrusage(syscall.RUSAGE_SELF, &ru); err != nil {
		return 0
	}
	return time.Duration(ru.Utime.Nano() + ru.Stime.Nano())
}

// goroutineBase is the number of goroutines of an idle process (set once at
// start-up, after the helper goroutines have been started).
var goroutineBase = 1

var gorHeader = regexp.MustCompile(`(?m)^goroutine (\d+) \[([^\],]+)`)

// goroutineStates maps goroutine id to its scheduler state.
var stackBuf = make([]byte, 1<<20)

func goroutineStates() map[string]string {
	buf := stackBuf
	n := runtime.Stack(buf, true)
	res := map[string]string{}
	for _, m := range gorHeader.FindAllSubmatch(buf[:n], -1) {
		res[string(m[1])] = string(m[2])
	}
	return res
}

// settleGoroutines waits until the goroutines which were not there before
// (ids in [before]) have ended.  It waits on the CONDITION, with a generous
// deadline: a slow scheduler is not a leak.  It gives up early only when every
// extra goroutine is parked (blocked on a channel, a pipe, a lock ...) in two
// samples a while apart and none is runnable, running or in a system call -
// nothing is left that could still release them.
func settleGoroutines(before map[string]string) (int, string) {
	deadline := time.Now().Add(settleWall)
	var parkedSince time.Time
	var lastExtra string
	for {
		now := goroutineStates()
		var extra []string
		busy := false
		for id, st := range now {
			if _, ok := before[id]; ok {
				continue
			}
			extra = append(extra, id+":"+st)
			switch st {
			case "runnable", "running", "syscall", "sleep", "GC assist wait", "GC worker (idle)", "GC sweep wait", "GC scavenge wait", "finalizer wait", "force gc (idle)":
				busy = true
			}
		}
		if len(extra) == 0 {
			return len(now), ""
		}
		sort.Strings(extra)
		key := strings.Join(extra, " ")
		if busy || key != lastExtra {
			parkedSince = time.Time{}
		} else if parkedSince.IsZero() {
			parkedSince = time.Now()
		}
		lastExtra = key
		if (!parkedSince.IsZero() && time.Since(parkedSince) > settleParked) || time.Now().After(deadline) {
			return len(now), key
		}
		time.Sleep(20 * time.Millisecond)
	}
}

func runCase(res *caseResult, f func(st *walkStats), onHang func()) {
	runtime.GC()
	before := goroutineStates()
	g0 := len(before)
	var m0, m1 runtime.MemStats
	runtime.ReadMemStats(&m0)
	done := make(chan struct{})
	t0 := time.Now()
	cpu0 := cpuNow()
	limit := hangCPU(res.Len)
	go func() {
		tick := time.NewTicker(250 * time.Millisecond)
		defer tick.Stop()
		for {
			select {
			case <-done:
				return
			case <-tick.C:
				if used := cpuNow() - cpu0; used > limit || time.Since(t0) > hangWall {
					res.CPUMillis = float64(used.Microseconds()) / 1000
					res.Millis = float64(time.Since(t0).Microseconds()) / 1000
					select {
					case <-done:
						return
					default:
					}
					onHang()
				}
			}
		}
	}()
	func() {
		defer func() {
			if p := recover(); p != nil {
				res.Status = "panic"
				res.Panic = fmt.Sprint(p)
				st := string(debug.Stack())
				if i := strings.Index(st, "panic("); i >= 0 {
					st = st[i:]
				}
				if len(st) > 1800 {
					st = st[:1800]
				}
				res.Stack = st
			}
		}()
		f(&res.Stats)
	}()
	cpu := cpuNow() - cpu0
	el := time.Since(t0)
	close(done)
	runtime.ReadMemStats(&m1)
	res.Millis = float64(el.Microseconds()) / 1000
	res.CPUMillis = float64(cpu.Microseconds()) / 1000
	res.Alloc = m1.TotalAlloc - m0.TotalAlloc
	res.GorBefore = g0
	var left string
	res.GorAfter, left = settleGoroutines(before)
	res.BudgetTime = float64(timeBudget(res.Len).Milliseconds())
	res.BudgetMem = allocBudget(res.Len)
	if res.Status == "" {
		switch {
		case left != "":
			res.Status = "leak"
			res.Leaked = left
		case cpu > timeBudget(res.Len):
			res.Status = "slow"
		case res.Alloc > allocBudget(res.Len):
			res.Status = "alloc"
		default:
			res.Status = "ok"
		}
	}
}
