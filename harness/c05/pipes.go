package main

import (
	"bytes"
	"compress/zlib"
	"encoding/ascii85"
	"encoding/hex"
	"fmt"
	"image"
	"image/jpeg"
	"math/rand/v2"
	"regexp"
	"sort"
	"strconv"
	"strings"
	"sync"

	"seehuhn.de/go/pdf"
	"seehuhn.de/go/pdf/internal/debug/makefont"
)

// Pipe-backed filter chains at every place where the reader decodes a stream
// INTERNALLY (object streams, cross-reference streams, content streams, font
// programs, ToUnicode CMaps, ICC profiles, function streams, metadata ...),
// combined with a consumer that stops early or fails to parse.  The DCT
// decoder feeds its output through a pipe from a producer goroutine: whoever
// opened the decoded stream must close it on every path, or the producer stays
// blocked in the pipe write.  The goroutine accounting of runCase applies to
// every such case under every error handling mode.

var (
	junkJPEGOnce sync.Once
	junkJPEGData []byte
)

// junkJPEG decodes to 64 KiB of bytes that parse as nothing.
func junkJPEG() []byte {
	junkJPEGOnce.Do(func() {
		img := image.NewGray(image.Rect(0, 0, 256, 256))
		for i := range img.Pix {
			img.Pix[i] = byte(i*7 + i/256*13)
		}
		var b bytes.Buffer
		jpeg.Encode(&b, img, nil)
		junkJPEGData = b.Bytes()
	})
	return junkJPEGData
}

// shapedJPEG decodes EXACTLY to the text with every byte repeated 64 times
// (one constant 8x8 block per byte, quality 100: only the DC coefficient is
// non-zero and the quantisation tables are all ones).
func shapedJPEG(text string) []byte {
	n := len(text)
	img := image.NewGray(image.Rect(0, 0, 8, 8*n))
	for i := 0; i < n; i++ {
		for k := 0; k < 64; k++ {
			img.Pix[i*64+k] = text[i]
		}
	}
	var b bytes.Buffer
	jpeg.Encode(&b, img, &jpeg.Options{Quality: 100})
	return b.Bytes()
}

func expand64(text string) string {
	var sb strings.Builder
	for i := 0; i < len(text); i++ {
		for k := 0; k < 64; k++ {
			sb.WriteByte(text[i])
		}
	}
	return sb.String()
}

var pipeChainNames = []string{"dct", "ahx+dct", "dct+flate", "flate+dct",
	// an OUTER stage that fails on the pixels (and whose Close may then report
	// an error) above the pipe-backed stage
	"dct+ahx", "dct+lzw", "dct+a85", "dct+rl", "dct+flate-pred", "dct+lzw-pred", "dct+dct", "dct+ccitt", "ahx+dct+ahx"}

const numBasicChains = 4

// pipeChain wraps JPEG data in one of the chains; the result is what follows
// "/Filter " in the dictionary (it may add /DecodeParms).  For the first, second
// and fourth chain the decoded result is the JPEG's pixels; in all others a
// stage above the DCT decoder chokes on the pixels: a consumer INSIDE the
// chain that stops early.
func pipeChain(kind int, j []byte) (filter string, body []byte) {
	switch kind % len(pipeChainNames) {
	case 0:
		return "/DCTDecode", j
	case 1:
		return "[/ASCIIHexDecode /DCTDecode]", []byte(hex.EncodeToString(j) + ">")
	case 2:
		return "[/DCTDecode /FlateDecode]", j
	case 3:
		var z bytes.Buffer
		zw := zlib.NewWriter(&z)
		zw.Write(j)
		zw.Close()
		return "[/FlateDecode /DCTDecode]", z.Bytes()
	case 4:
		return "[/DCTDecode /ASCIIHexDecode]", j
	case 5:
		return "[/DCTDecode /LZWDecode]", j
	case 6:
		return "[/DCTDecode /ASCII85Decode]", j
	case 7:
		return "[/DCTDecode /RunLengthDecode]", j
	case 8:
		return "[/DCTDecode /FlateDecode] /DecodeParms [null << /Predictor 12 /Columns 7 >>]", j
	case 9:
		return "[/DCTDecode /LZWDecode] /DecodeParms [null << /Predictor 2 /Columns 100000 /Colors 3 >>]", j
	case 10:
		return "[/DCTDecode /DCTDecode]", j
	case 11:
		return "[/DCTDecode /CCITTFaxDecode] /DecodeParms [null << /K -1 /Columns 64 >>]", j
	default:
		return "[/ASCIIHexDecode /DCTDecode /ASCIIHexDecode]", []byte(hex.EncodeToString(j) + ">")
	}
}

// pipeOuterCorpus: every chain on a stream that the walk drains, that a page
// uses as an image, and on a few internal decode sites.
func pipeOuterCorpus() []corpusEntry {
	var res []corpusEntry
	for chain := numBasicChains; chain < len(pipeChainNames); chain++ {
		filter, body := pipeChain(chain, junkJPEG())
		obj := fmt.Sprintf("<< /Type /XObject /Subtype /Image /Width 256 /Height 256 /ColorSpace /DeviceGray /BitsPerComponent 8 /Filter %s /Length %d >>\nstream\n%s\nendstream",
			filter, len(body), string(body))
		res = append(res, corpusEntry{"pipe-outer-image-" + pipeChainNames[chain], imageFile(obj)})
	}
	objs := sinkObjects()
	for _, num := range []int{20, 21, 8, 12} {
		for _, chain := range []int{4, 5, 8} {
			res = append(res, corpusEntry{fmt.Sprintf("pipe-outer-sink-%s-%s", objs[num].site, pipeChainNames[chain]),
				sinkFile(map[int]int{num: chain})})
		}
	}
	for _, chain := range []int{4, 5, 6, 9} {
		filter, body := pipeChain(chain, junkJPEG())
		file := &osFile{streams: []osStream{{num: 3, extra: "/N 1 /First 4 /Filter " + filter,
			members: []osMember{{10, ""}}, bodyOnly: string(body)}}}
		res = append(res, corpusEntry{"pipe-outer-objstm-" + pipeChainNames[chain], file.build()})
	}
	return res
}

// ---------------------------------------------------------------------------
// object streams and cross-reference streams behind a pipe

// dctObjStm: an object stream whose data comes out of the DCT decoder.  The
// decoded text is k index pairs "0 0" (64 zeros are the integer 0) followed
// by names, every byte 64 times.
type dctObjStmSpec struct {
	k        int    // index pairs in the data
	n        string // /N text
	first    string // /First text; "" = the true value
	chain    int
	truncate int // cut the JPEG to this many percent (0: whole)
	wanted   int
}

func dctObjStmText(k int) (text string, first int) {
	text = strings.Repeat("0 0 ", k)
	first = 64 * len(text)
	text += strings.Repeat("/A ", 120) // enough output behind the index to block the producer
	return text, first
}

func (sp dctObjStmSpec) build() []byte {
	text, first := dctObjStmText(sp.k)
	j := shapedJPEG(text)
	if sp.truncate > 0 {
		j = j[:len(j)*sp.truncate/100]
	}
	filter, body := pipeChain(sp.chain, j)
	f := sp.first
	if f == "" {
		f = strconv.Itoa(first)
	}
	file := &osFile{streams: []osStream{{num: 3, extra: fmt.Sprintf("/N %s /First %s /Filter %s", sp.n, f, filter),
		members: []osMember{{sp.wanted, ""}}, bodyOnly: string(body)}}}
	return file.build()
}

func pipeObjStmCorpus() []corpusEntry {
	var res []corpusEntry
	add := func(name string, sp dctObjStmSpec) {
		res = append(res, corpusEntry{"pipe-objstm-" + name + "-" + pipeChainNames[sp.chain%len(pipeChainNames)], sp.build()})
	}
	for chain := 0; chain < 4; chain++ {
		add("index-ok-member-missing", dctObjStmSpec{k: 2, n: "2", chain: chain, wanted: 77})
		add("index-ok-member-0", dctObjStmSpec{k: 2, n: "2", chain: chain, wanted: 0})
		add("n-larger-than-entries", dctObjStmSpec{k: 2, n: "3", chain: chain, wanted: 0})
		add("n-huge", dctObjStmSpec{k: 2, n: "10000", chain: chain, wanted: 0})
		add("first-before-table-end", dctObjStmSpec{k: 2, n: "2", first: "7", chain: chain, wanted: 0})
		add("first-not-integer", dctObjStmSpec{k: 2, n: "2", first: "/X", chain: chain, wanted: 0})
		add("first-beyond-data", dctObjStmSpec{k: 2, n: "2", first: "99999999", chain: chain, wanted: 0})
		add("first-overflow", dctObjStmSpec{k: 2, n: "2", first: "9223372036854775807", chain: chain, wanted: 0})
		add("empty-index", dctObjStmSpec{k: 0, n: "1", chain: chain, wanted: 0})
		add("truncated-body", dctObjStmSpec{k: 2, n: "2", chain: chain, truncate: 40, wanted: 0})
	}
	// the probe of F55: pixels that are no integers at all
	for chain := 0; chain < 4; chain++ {
		filter, body := pipeChain(chain, junkJPEG())
		file := &osFile{streams: []osStream{{num: 3, extra: "/N 1 /First 4 /Filter " + filter,
			members: []osMember{{10, ""}}, bodyOnly: string(body)}}}
		res = append(res, corpusEntry{"pipe-objstm-junk-" + pipeChainNames[chain], file.build()})
	}
	return res
}

// pipeXRefFile: a classic table whose trailer names a cross-reference stream
// (through /XRefStm or /Prev) that comes out of the DCT decoder; the reader
// stops reading that stream after the declared entries.
func pipeXRefFile(chain int, viaPrev bool, size int, w string) []byte {
	filter, body := pipeChain(chain, shapedJPEG(strings.Repeat("\x00", 40)+strings.Repeat("\x07", 200)))
	buf := &bytes.Buffer{}
	buf.WriteString("%PDF-1.7\n")
	o1 := buf.Len()
	buf.WriteString("1 0 obj\n<< /Type /Catalog /Pages 2 0 R >>\nendobj\n")
	o2 := buf.Len()
	buf.WriteString("2 0 obj\n<< /Type /Pages /Kids [] /Count 0 >>\nendobj\n")
	xs := buf.Len()
	fmt.Fprintf(buf, "7 0 obj\n<< /Type /XRef /Size %d /W %s /Root 1 0 R /Filter %s /Length %d >>\nstream\n", size, w, filter, len(body))
	buf.Write(body)
	buf.WriteString("\nendstream\nendobj\n")
	x := buf.Len()
	key := "/XRefStm"
	if viaPrev {
		key = "/Prev"
	}
	fmt.Fprintf(buf, "xref\n0 3\n0000000000 65535 f \n%010d 00000 n \n%010d 00000 n \ntrailer\n<< /Size 8 /Root 1 0 R %s %d >>\nstartxref\n%d\n%%%%EOF\n",
		o1, o2, key, xs, x)
	return buf.Bytes()
}

func pipeXRefCorpus() []corpusEntry {
	var res []corpusEntry
	for chain := 0; chain < 4; chain++ {
		for _, viaPrev := range []bool{false, true} {
			for _, v := range []struct {
				name string
				size int
				w    string
			}{{"few-entries", 3, "[8 8 8]"}, {"more-than-data", 8000, "[8 8 8]"}, {"odd-width", 5, "[3 2 1]"}} {
				if v.name != "few-entries" && (chain != 0 || viaPrev) {
					continue
				}
				name := fmt.Sprintf("pipe-xref-%s-%s-prev%v", v.name, pipeChainNames[chain], viaPrev)
				res = append(res, corpusEntry{name, pipeXRefFile(chain, viaPrev, v.size, v.w)})
			}
		}
	}
	return res
}

// ---------------------------------------------------------------------------
// a document with one stream for every kind of internal decode site

type sinkObj struct {
	raw  string // != "": the object's text as it is
	dict string // without /Length and /Filter
	body []byte // nil: not a stream
	site string // what decodes it
}

func sinkObjects() map[int]sinkObj {
	var fontBuf bytes.Buffer
	l1, l2, _ := makefont.Type1().WritePDF(&fontBuf)
	cmap := "/CIDInit /ProcSet findresource begin\n12 dict begin\nbegincmap\n/CIDSystemInfo << /Registry (Adobe) /Ordering (UCS) /Supplement 0 >> def\n" +
		"/CMapName /Adobe-Identity-UCS def\n/CMapType 2 def\n1 begincodespacerange\n<00> <FF>\nendcodespacerange\n1 beginbfchar\n<41> <0041>\nendbfchar\nendcmap\nCMapName currentdict /CMap defineresource pop\nend\nend\n"
	xmp := "<?xpacket begin=\"\" id=\"W5M0MpCehiHzreSzNTczkc9d\"?>\n<x:xmpmeta xmlns:x=\"adobe:ns:meta/\"><rdf:RDF xmlns:rdf=\"http://www.w3.org/1999/02/22-rdf-syntax-ns#\">" +
		"<rdf:Description rdf:about=\"\" xmlns:dc=\"http://purl.org/dc/elements/1.1/\"><dc:format>application/pdf</dc:format></rdf:Description></rdf:RDF></x:xmpmeta>\n<?xpacket end=\"w\"?>"
	content := "q BT /F1 12 Tf 10 10 Td (A) Tj ET /CS0 cs 0.5 0.5 0.5 sc 0 0 10 10 re f /Sh0 sh /Sh1 sh /Im0 Do /P0 gs /Pat cs /Pt0 scn 0 0 5 5 re f Q\n"
	return map[int]sinkObj{
		1: {dict: "/Type /Catalog /Pages 2 0 R /Metadata 20 0 R"},
		2: {dict: "/Type /Pages /Kids [3 0 R 40 0 R 3 0 R] /Count 2"},
		// a second page that reaches the same indirect objects through its own dictionaries
		40: {dict: "/Type /Page /Parent 2 0 R /MediaBox [0 0 200 200] /Contents 21 0 R /Resources << /Font << /F1 5 0 R /G3 22 0 R >> " +
			"/ColorSpace << /CS0 [/ICCBased 10 0 R] /CS1 [/ICCBased 10 0 R] /CS2 36 0 R /CS3 36 0 R >> /Shading << /Sh0 11 0 R /Sh2 41 0 R /Sh3 41 0 R >> " +
			"/XObject << /Im0 14 0 R /Im1 14 0 R /Fm0 18 0 R /Fm1 18 0 R >> /Pattern << /Pt0 17 0 R /Pt1 17 0 R >> " +
			"/ExtGState << /Q1 << /Type /ExtGState /SMask 30 0 R /TR 32 0 R /HT 35 0 R /BG 33 0 R /UCR 33 0 R >> " +
			"/Q2 << /Type /ExtGState /SMask 30 0 R /TR 32 0 R /HT 35 0 R /BG 33 0 R /UCR 33 0 R >> " +
			"/Q3 << /Type /ExtGState /SMask 31 0 R /TR 37 0 R /TR2 37 0 R /BG2 12 0 R /UCR2 12 0 R >> /Q4 34 0 R /Q5 99 0 R /Q6 99 0 R >> " +
			"/Properties << /MC0 33 0 R /MC1 33 0 R >> >>"},
		35: {raw: "/Default"},
		36: {raw: "/DeviceGray"},
		37: {raw: "/Identity"},
		41: {dict: "/ShadingType 2 /ColorSpace 36 0 R /Coords [0 0 1 1] /Function [12 0 R 12 0 R 13 0 R 13 0 R] /Extend [true true]"},
		3: {dict: "/Type /Page /Parent 2 0 R /MediaBox [0 0 200 200] /Contents [4 0 R 21 0 R] /Resources << /Font << /F1 5 0 R /F3 22 0 R /F0 24 0 R >> " +
			"/ColorSpace << /CS0 [/ICCBased 10 0 R] /Pat [/Pattern /DeviceRGB] >> /Shading << /Sh0 11 0 R /Sh1 15 0 R >> " +
			"/XObject << /Im0 14 0 R /Fm0 18 0 R >> /Pattern << /Pt0 17 0 R >> /ExtGState << /P0 << /Type /ExtGState /SMask << /Type /Mask /S /Luminosity /G 18 0 R >> >> " +
			// the same indirect object, whose decoded value is nil / a default, used twice
			"/P1 << /Type /ExtGState /SMask 30 0 R /TR 32 0 R /BG2 32 0 R /UCR2 32 0 R /HT 32 0 R >> " +
			"/P2 << /Type /ExtGState /SMask 30 0 R /TR 32 0 R /BG2 32 0 R /UCR2 32 0 R /HT 32 0 R >> " +
			"/P3 << /Type /ExtGState /SMask 31 0 R /TR2 32 0 R /Font [33 0 R 10] >> /P4 << /Type /ExtGState /SMask 31 0 R /TR2 32 0 R /Font [33 0 R 10] >> " +
			"/P5 << /Type /ExtGState /SMask 99 0 R /TR 99 0 R >> /P6 << /Type /ExtGState /SMask 99 0 R /TR 99 0 R >> /P7 34 0 R /P8 34 0 R >> >>"},
		30: {dict: "", raw: "/None"},
		31: {dict: "", raw: "null"},
		32: {dict: "", raw: "/Default"},
		33: {dict: "", raw: "null"},
		34: {dict: "", raw: "null"},
		4:  {dict: "", body: []byte(content), site: "content"},
		21: {dict: "", body: []byte("q /Fm0 Do Q\n"), site: "content2"},
		5:  {dict: "/Type /Font /Subtype /Type1 /BaseFont /Test /FirstChar 65 /LastChar 65 /Widths [500] /FontDescriptor 6 0 R /ToUnicode 8 0 R"},
		6:  {dict: "/Type /FontDescriptor /FontName /Test /Flags 4 /FontBBox [0 -200 1000 800] /ItalicAngle 0 /Ascent 800 /Descent -200 /CapHeight 700 /StemV 80 /FontFile 7 0 R"},
		7:  {dict: fmt.Sprintf("/Length1 %d /Length2 %d /Length3 0", l1, l2), body: fontBuf.Bytes(), site: "fontfile"},
		8:  {dict: "", body: []byte(cmap), site: "tounicode"},
		10: {dict: "/N 3 /Alternate /DeviceRGB", body: append([]byte("\x00\x00\x00\x80appl\x02\x10\x00\x00mntrRGB XYZ "), make([]byte, 104)...), site: "icc"},
		11: {dict: "/ShadingType 2 /ColorSpace /DeviceRGB /Coords [0 0 1 1] /Function 12 0 R"},
		12: {dict: "/FunctionType 4 /Domain [0 1] /Range [0 1 0 1 0 1]", body: []byte("{ dup dup }"), site: "function4"},
		13: {dict: "/FunctionType 0 /Domain [0 1] /Range [0 1 0 1 0 1] /Size [2] /BitsPerSample 8", body: []byte{0, 0, 0, 255, 255, 255}, site: "function0"},
		15: {dict: "/ShadingType 2 /ColorSpace /DeviceRGB /Coords [0 0 1 1] /Function 13 0 R"},
		14: {dict: "/Type /XObject /Subtype /Image /Width 2 /Height 2 /ColorSpace /DeviceGray /BitsPerComponent 8 /SMask 16 0 R", body: []byte{1, 2, 3, 4}, site: "image"},
		16: {dict: "/Type /XObject /Subtype /Image /Width 2 /Height 2 /ColorSpace /DeviceGray /BitsPerComponent 8", body: []byte{9, 9, 9, 9}, site: "smask"},
		17: {dict: "/Type /Pattern /PatternType 1 /PaintType 1 /TilingType 1 /BBox [0 0 5 5] /XStep 5 /YStep 5 /Resources << >>", body: []byte("0 0 5 5 re f\n"), site: "pattern"},
		18: {dict: "/Type /XObject /Subtype /Form /BBox [0 0 10 10] /Group << /S /Transparency /CS /DeviceGray >> /Resources << >>", body: []byte("0 0 10 10 re f\n"), site: "form"},
		20: {dict: "/Type /Metadata /Subtype /XML", body: []byte(xmp), site: "metadata"},
		22: {dict: "/Type /Font /Subtype /Type3 /FontBBox [0 0 10 10] /FontMatrix [0.1 0 0 0.1 0 0] /CharProcs << /a 23 0 R >> /Encoding << /Type /Encoding /Differences [97 /a] >> /FirstChar 97 /LastChar 97 /Widths [10] /Resources << >>"},
		23: {dict: "", body: []byte("10 0 d0 0 0 5 5 re f\n"), site: "charproc"},
		24: {dict: "/Type /Font /Subtype /Type0 /BaseFont /Test0 /Encoding /Identity-H /DescendantFonts [25 0 R] /ToUnicode 8 0 R"},
		25: {dict: "/Type /Font /Subtype /CIDFontType2 /BaseFont /Test0 /CIDSystemInfo << /Registry (Adobe) /Ordering (Identity) /Supplement 0 >> " +
			"/FontDescriptor 26 0 R /DW 1000 /W [1 [500 600] 5 7 400] /CIDToGIDMap /Identity"},
		26: {dict: "/Type /FontDescriptor /FontName /Test0 /Flags 4 /FontBBox [0 -200 1000 800] /ItalicAngle 0 /Ascent 800 /Descent -200 /CapHeight 700 /StemV 80"},
	}
}

// sinkFile writes the objects; piped[num] = chain kind puts that stream behind
// the DCT decoder (its decoded data is then pixels: the consumer's parse fails
// or stops early).
func sinkFile(piped map[int]int) []byte {
	objs := map[int]string{}
	for num, o := range sinkObjects() {
		if o.raw != "" {
			objs[num] = o.raw
			continue
		}
		if o.body == nil {
			objs[num] = "<< " + o.dict + " >>"
			continue
		}
		body, filter := o.body, ""
		if chain, ok := piped[num]; ok {
			var f string
			f, body = pipeChain(chain, junkJPEG())
			filter = " /Filter " + f
		}
		objs[num] = fmt.Sprintf("<< %s%s /Length %d >>\nstream\n%s\nendstream", o.dict, filter, len(body), string(body))
	}
	return simpleFile(objs, 1, " /ID [<0123456789ABCDEF0123456789ABCDEF> <0123456789ABCDEF0123456789ABCDEF>]")
}

// ---------------------------------------------------------------------------
// arrays of the wrong length where a fixed arity is expected

var (
	arrayEntryPat = regexp.MustCompile(`/(\w+)\s*\[([^\[\]]*)\]`)
	arrayElemPat  = regexp.MustCompile(`\d+\s+\d+\s+R\b|\((?:[^()\\]|\\.)*\)|<<[^<>]*>>|<[0-9A-Fa-f\s]*>|/[^\s/\[\]<>()]*|[^\s\[\]<>()/]+`)
)

// arityVariants: [], the first element only, all but the last, one more.
func arityVariants(body string) []string {
	el := arrayElemPat.FindAllString(body, -1)
	res := []string{"[]"}
	if len(el) > 0 {
		res = append(res, "[ "+el[0]+" ]")
		res = append(res, "[ "+strings.Join(el[:len(el)-1], " ")+" ]")
		res = append(res, "[ "+strings.Join(append(append([]string{}, el...), el[len(el)-1]), " ")+" ]")
	} else {
		res = append(res, "[ 0 ]")
	}
	return res
}

// arityCorpus: every array of the (light) sink document and of its trailer,
// in every variant.
func arityCorpus() []corpusEntry {
	var res []corpusEntry
	base := map[int]string{}
	type site struct {
		num        int
		start, end int
		key        string
	}
	var sites []site
	objs := sinkObjects()
	nums := make([]int, 0, len(objs))
	for num := range objs {
		nums = append(nums, num)
	}
	sort.Ints(nums)
	for _, num := range nums {
		o := objs[num]
		switch {
		case num == 7: // the font program makes the file big; the font goes without
			continue
		case o.raw != "":
			base[num] = o.raw
		case o.body == nil:
			base[num] = "<< " + strings.Replace(o.dict, " /FontFile 7 0 R", "", 1) + " >>"
		default:
			base[num] = fmt.Sprintf("<< %s /Length %d >>\nstream\n%s\nendstream", o.dict, len(o.body), string(o.body))
		}
		if o.raw == "" {
			dictEnd := len(base[num])
			if i := strings.Index(base[num], ">>\nstream\n"); i >= 0 {
				dictEnd = i
			}
			for _, m := range arrayEntryPat.FindAllStringSubmatchIndex(base[num][:dictEnd], -1) {
				sites = append(sites, site{num, m[0], m[1], base[num][m[2]:m[3]]})
			}
		}
	}
	id := " /ID [<0123456789ABCDEF0123456789ABCDEF> <0123456789ABCDEF0123456789ABCDEF>]"
	for k, st := range sites {
		text := base[st.num]
		body := text[strings.Index(text[st.start:], "[")+st.start+1 : st.end-1]
		for v, variant := range arityVariants(body) {
			objs2 := map[int]string{}
			for n, t := range base {
				objs2[n] = t
			}
			objs2[st.num] = text[:st.start] + "/" + st.key + " " + variant + text[st.end:]
			res = append(res, corpusEntry{fmt.Sprintf("arity-%s-obj%d-%d-v%d", st.key, st.num, k, v), simpleFile(objs2, 1, id)})
		}
	}
	for v, variant := range []string{"[]", "[<0123456789ABCDEF>]", "[<01> <02> <03>]", "[ 1 ]", "[ (a) ]"} {
		res = append(res, corpusEntry{fmt.Sprintf("arity-trailer-ID-v%d", v), simpleFile(base, 1, " /ID "+variant)})
	}
	return res
}

// mArrayArity changes the length of one array of the file.
func mArrayArity(R *rand.Rand, d, _ []byte) ([]byte, string) {
	ms := arrayEntryPat.FindAllSubmatchIndex(d, 400)
	if len(ms) == 0 {
		return mKeyValue(R, d, nil)
	}
	m := ms[R.IntN(len(ms))]
	key := string(d[m[2]:m[3]])
	vs := arityVariants(string(d[m[4]:m[5]]))
	out := splice(d, m[0], m[1]-m[0], []byte("/"+key+" "+vs[R.IntN(len(vs))]))
	return repairXRef(out), "arity:/" + key
}

func sinkCorpus() []corpusEntry {
	res := []corpusEntry{{"sink-plain", sinkFile(nil)}}
	objs := sinkObjects()
	nums := []int{4, 21, 7, 8, 10, 12, 13, 14, 16, 17, 18, 20, 23}
	for _, num := range nums {
		for chain := 0; chain < 4; chain++ {
			if chain != 0 && (num+chain)%2 == 0 {
				continue // thin out: every site gets the plain DCT chain and about half of the others
			}
			res = append(res, corpusEntry{fmt.Sprintf("pipe-sink-%s-%s", objs[num].site, pipeChainNames[chain]),
				sinkFile(map[int]int{num: chain})})
		}
	}
	return res
}

// ---------------------------------------------------------------------------
// inline images: BI dictionaries whose /F chain puts a pipe-backed stage in
// front of a stage that fails (content.DecodeInlineImage builds the chain
// stage by stage)

type inlineChain struct {
	name, f, dp string
	a85         bool
}

var inlineChains = []inlineChain{
	{"ahx-dct", "[/AHx /DCT]", "", false},
	{"ahx-dct-unknown", "[/AHx /DCT /Foo]", "", false},
	{"ahx-dct-dct-unknown", "[/AHx /DCT /DCT /Bar]", "", false},
	{"ahx-dct-ccf-badparams", "[/AHx /DCT /CCF]", "[null null << /K 1 /Columns -7 /Rows -1 >>]", false},
	{"ahx-dct-ccf-hugeparams", "[/AHx /DCT /CCF]", "[null null << /K -1 /Columns 99999999999 >>]", false},
	{"ahx-dct-lzw-badparams", "[/AHx /DCT /LZW]", "[null null << /Predictor 99 /Columns 0 >>]", false},
	{"ahx-dct-fl", "[/AHx /DCT /Fl]", "", false},
	{"ahx-dct-fl-badpredictor", "[/AHx /DCT /Fl]", "[null null << /Predictor 12 /Columns 100000000 /Colors 77 >>]", false},
	{"a85-dct-unknown", "[/A85 /DCT /Foo]", "", true},
	{"a85-dct-crypt", "[/A85 /DCT /Crypt]", "", true},
	{"ahx-dct-dp-not-array", "[/AHx /DCT /Foo]", "<< /K 1 >>", false},
	{"full-names", "[/ASCIIHexDecode /DCTDecode /NoSuchDecode]", "", false},
}

func inlineImageContent(ch inlineChain, j []byte) string {
	var sb strings.Builder
	sb.WriteString("q\nBI /W 64 /H 64 /BPC 8 /CS /G /F " + ch.f)
	if ch.dp != "" {
		sb.WriteString(" /DP " + ch.dp)
	}
	sb.WriteString(" ID\n")
	if ch.a85 {
		var b bytes.Buffer
		w := ascii85.NewEncoder(&b)
		w.Write(j)
		w.Close()
		sb.Write(b.Bytes())
		sb.WriteString("~>")
	} else {
		sb.WriteString(hex.EncodeToString(j) + ">")
	}
	sb.WriteString("\nEI\nQ\n")
	return sb.String()
}

// inlineJPEG stays below the scanner's 4096-byte limit for inline image data
// (hex doubles the size); the pixels are smooth so that it compresses well.
func inlineJPEG() []byte {
	img := image.NewGray(image.Rect(0, 0, 64, 64))
	for i := range img.Pix {
		img.Pix[i] = byte(i / 64 * 3)
	}
	var b bytes.Buffer
	jpeg.Encode(&b, img, &jpeg.Options{Quality: 30})
	return b.Bytes()
}

func inlineCorpus() []corpusEntry {
	var res []corpusEntry
	j := inlineJPEG()
	for _, ch := range inlineChains {
		objs := map[int]string{}
		for num, o := range sinkObjects() {
			switch {
			case o.raw != "":
				objs[num] = o.raw
			case num == 21:
				body := strings.Repeat(inlineImageContent(ch, j), 3)
				objs[num] = fmt.Sprintf("<< /Length %d >>\nstream\n%s\nendstream", len(body), body)
			case o.body == nil:
				objs[num] = "<< " + o.dict + " >>"
			default:
				objs[num] = fmt.Sprintf("<< %s /Length %d >>\nstream\n%s\nendstream", o.dict, len(o.body), string(o.body))
			}
		}
		res = append(res, corpusEntry{"pipe-inline-" + ch.name, simpleFile(objs, 1, "")})
	}
	return res
}

// mInlineImage replaces the body of a stream that looks like a content stream
// by inline images with such chains.
func mInlineImage(R *rand.Rand, d, _ []byte) ([]byte, string) {
	var cand []streamLoc
	for _, s := range findStreams(d) {
		dict := d[s.objStart:s.dictEnd]
		if !bytes.Contains(dict, []byte("/Type")) && !bytes.Contains(dict, []byte("/Length1")) &&
			!bytes.Contains(dict, []byte("/Subtype")) && !bytes.Contains(dict, []byte("/FunctionType")) {
			cand = append(cand, s)
		}
	}
	if len(cand) == 0 {
		return mKeyValue(R, d, nil)
	}
	s := cand[R.IntN(len(cand))]
	ch := inlineChains[R.IntN(len(inlineChains))]
	j := inlineJPEG()
	if R.IntN(4) == 0 {
		j = j[:len(j)/2]
	}
	body := "q 1 0 0 1 0 0 cm\n" + inlineImageContent(ch, j) + "BT ET\n"
	return rewriteStream(d, s, "", []byte(body)), "inline:" + ch.name
}

// ---------------------------------------------------------------------------
// the mutator for library-written documents

var (
	filterEntryPat = regexp.MustCompile(`/Filter\s*(/\w+|\[[^\]]*\])`)
	parmsEntryPat  = regexp.MustCompile(`(?s)/DecodeParms\s*(<<.*?>>|\[.*?\]|null)`)
	lengthEntryPat = regexp.MustCompile(`/Length\s+\d+(\s+\d+\s+R)?`)
)

// mPipeFilter puts one stream of the document behind a pipe-backed chain,
// keeping the rest of its dictionary (so that an object stream stays an
// object stream with its /N and /First, a font program keeps its lengths ...).
func mPipeFilter(R *rand.Rand, d, _ []byte) ([]byte, string) {
	ss := findStreams(d)
	if len(ss) == 0 {
		return mFlip(R, d, nil)
	}
	var pref []streamLoc
	for _, s := range ss {
		if s.isObjStm || s.isXRef {
			pref = append(pref, s)
		}
	}
	s := ss[R.IntN(len(ss))]
	if len(pref) > 0 && R.IntN(2) == 0 {
		s = pref[R.IntN(len(pref))]
	}
	dict := d[s.objStart+4 : s.dictEnd]
	i, j := bytes.Index(dict, []byte("<<")), bytes.LastIndex(dict, []byte(">>"))
	if i < 0 || j <= i {
		return mFlip(R, d, nil)
	}
	inner := dict[i+2 : j]
	inner = parmsEntryPat.ReplaceAll(inner, nil)
	inner = filterEntryPat.ReplaceAll(inner, nil)
	inner = lengthEntryPat.ReplaceAll(inner, nil)
	chain := R.IntN(len(pipeChainNames))
	j2 := junkJPEG()
	if s.isObjStm && R.IntN(2) == 0 {
		text, _ := dctObjStmText(1 + R.IntN(3))
		j2 = shapedJPEG(text)
	}
	if R.IntN(5) == 0 {
		j2 = j2[:len(j2)/2]
	}
	filter, body := pipeChain(chain, j2)
	label := "pipe:" + pipeChainNames[chain]
	if s.isObjStm {
		label += ":objstm"
	} else if s.isXRef {
		label += ":xref"
	}
	return rewriteStream(d, s, string(inner)+" /Filter "+filter, body), label
}

// JD: the index of an object stream, delivered through the DCT decoder: the
// cases of family J that can be written with the integer 0 only, compared with
// the same model (ObjStmIndex.objstm_find); what the model adds here is the
// ownership of the decoded reader: every exit closes it or hands it over, so no
// producer goroutine may be left (checked by the goroutine accounting).
func genIndexDCT(R *rand.Rand) modelCase {
	k := R.IntN(4)
	text, first := dctObjStmText(k)
	decoded := expand64(text)
	total := len(decoded)
	pick := func(opts []int64) int64 { return opts[R.IntN(len(opts))] }
	n := int64(k)
	if R.IntN(2) == 0 {
		n = pick([]int64{int64(k) + 1, int64(k) - 1, 0, 10000, 10001, int64(k) + 2})
	}
	nTok, nTxt := "i"+strconv.FormatInt(n, 10), strconv.FormatInt(n, 10)
	if R.IntN(12) == 0 {
		nTok, nTxt = "o", "/X"
	}
	f := int64(first)
	if R.IntN(2) == 0 {
		f = pick([]int64{int64(first) - 1, 0, 7, int64(first) + 64, int64(first) + 1, int64(total), int64(total) + 9, 9223372036854775807})
	}
	fTok, fTxt := "i"+strconv.FormatInt(f, 10), strconv.FormatInt(f, 10)
	if R.IntN(12) == 0 {
		fTok, fTxt = "o", "(x)"
	}
	wanted := pick([]int64{0, 0, 0, 77})
	chain := R.IntN(2) // dct, ahx+dct: the chains whose output is the text
	var sb strings.Builder
	// the integers of the decoded data: 2k zeros, each 64 digits long, one blank run between
	fmt.Fprintf(&sb, "J %s %s %d %d %d", nTok, fTok, wanted, total, 2*k)
	for i := 0; i < 2*k; i++ {
		fmt.Fprintf(&sb, " 0 %d", 64*(2*i+1))
	}
	var oks []string
	for i := 0; i < total; i++ {
		if c := decoded[i]; c == '/' || (c >= '0' && c <= '9') {
			oks = append(oks, strconv.Itoa(i))
		}
	}
	fmt.Fprintf(&sb, " %d %s", len(oks), strings.Join(oks, " "))
	filter, body := pipeChain(chain, shapedJPEG(text))
	file := (&osFile{streams: []osStream{{num: 3, extra: fmt.Sprintf("/N %s /First %s /Filter %s", nTxt, fTxt, filter),
		members: []osMember{{int(wanted), ""}}, bodyOnly: string(body)}}}).build()
	run := func() (string, []violation) {
		r, err := pdf.NewReader(bytes.NewReader(file), int64(len(file)), &pdf.ReaderOptions{ErrorHandling: pdf.ErrorHandlingStop})
		if err != nil {
			return "open-failed", nil
		}
		defer r.Close()
		var obs string
		for rep := 0; rep < 3; rep++ { // every call opens the stream again
			obj, err := r.Get(pdf.NewReference(uint32(wanted), 0), true)
			switch {
			case err == nil && obj == nil:
				obs = "null"
			case err == nil:
				obs = "ok"
			case pdf.IsMalformed(err):
				obs = "mal"
			default:
				obs = "other"
			}
		}
		return obs, nil
	}
	return modelCase{Line: sb.String(), Run: run, NonTrivial: true, Class: "J"}
}
