package main

import (
	"bytes"
	"errors"
	"fmt"
	"io"
	"math/rand/v2"
	"sort"
	"strconv"
	"strings"

	"seehuhn.de/go/pdf"
	"seehuhn.de/go/pdf/nametree"
	"seehuhn.de/go/pdf/outline"
	"seehuhn.de/go/pdf/pagetree"
	"seehuhn.de/go/pdf/verifharness/common"
)

// The model-compared families.  Each generator returns the case line for the
// extracted Coq model (without the id) and a function that runs the real
// implementation and returns the observation in the driver's format together
// with the violations of the property's oracle found directly on the
// implementation.

type violation struct {
	Signature string
	What      string
}

type modelCase struct {
	Line string
	Run  func() (obs string, viol []violation)
	// NonTrivial says whether the case reaches a guard of interest
	NonTrivial bool
	Class      string
}

// ---------------------------------------------------------------------------
// S: the scanner buffer state machine

type ioErr struct{ id int }

func (e *ioErr) Error() string { return fmt.Sprintf("verif source error %d", e.id) }

// chunkReader delivers data in the given chunk sizes and then the terminal
// event; withData: the terminal error accompanies the last bytes.
type chunkReader struct {
	data     []byte
	chunks   []int
	term     error // io.EOF or *ioErr
	withData bool
	k        int
	dead     bool
	alone    bool // the terminal event was delivered by itself: (0, err)
	after    int  // Read calls after the terminal error was delivered by itself
}

func (c *chunkReader) Read(p []byte) (int, error) {
	if c.dead {
		// io.ReadFull drops an error that arrives together with the bytes that
		// fill its buffer, so only an error delivered by itself is certain to
		// have been seen by the scanner
		if c.alone {
			c.after++
		}
		c.alone = true
		return 0, c.term
	}
	if len(p) == 0 {
		return 0, nil
	}
	if len(c.data) == 0 {
		c.dead = true
		c.alone = true
		return 0, c.term
	}
	n := len(c.data)
	if c.k < len(c.chunks) && c.chunks[c.k] < n {
		n = c.chunks[c.k]
	}
	c.k++
	if n > len(p) {
		n = len(p)
	}
	if n < 1 {
		n = 1
	}
	copy(p, c.data[:n])
	c.data = c.data[n:]
	if len(c.data) == 0 && c.withData {
		c.dead = true
		return n, c.term
	}
	return n, nil
}

var scanAlphabet = []byte{0, 9, 10, 12, 13, 32, 32, 32, 10, '%', '%', 'a', 'Z', '0', '1', '9', '+', '-', '/', '(', '<'}

func genScan(R *rand.Rand) modelCase {
	var n int
	switch R.IntN(10) {
	case 0:
		n = 0
	case 1:
		n = 1020 + R.IntN(12)
	case 2:
		n = 2044 + R.IntN(8)
	case 3:
		n = 1 + R.IntN(3)
	default:
		n = R.IntN(40)
	}
	data := make([]byte, n)
	mode := R.IntN(3)
	for i := range data {
		switch mode {
		case 0:
			data[i] = scanAlphabet[R.IntN(len(scanAlphabet))]
		case 1: // mostly blanks
			data[i] = []byte{32, 32, 32, 10, 9, '%'}[R.IntN(6)]
			if R.IntN(60) == 0 {
				data[i] = 'x'
			}
		default: // digits and blanks
			data[i] = []byte("0123456789  \n+-")[R.IntN(15)]
		}
	}
	termErr := R.IntN(3) > 0
	withData := R.IntN(2) == 0
	var chunks []int
	for k := R.IntN(6); k > 0; k-- {
		chunks = append(chunks, []int{1, 2, 3, 7, 100, 1023, 1024, 1025}[R.IntN(8)])
	}
	nops := 1 + R.IntN(6)
	var ops []pdf.VerifC05Op
	var toks []string
	for i := 0; i < nops; i++ {
		switch R.IntN(8) {
		case 0, 1, 2:
			ops = append(ops, pdf.VerifC05Op{Kind: "W"})
			toks = append(toks, "W")
		case 3, 4:
			ops = append(ops, pdf.VerifC05Op{Kind: "I"})
			toks = append(toks, "I")
		case 5:
			k := []int{0, 1, 4, 5, 6, 20, 1024}[R.IntN(7)]
			ops = append(ops, pdf.VerifC05Op{Kind: "P", N: k})
			toks = append(toks, "P"+strconv.Itoa(k))
		case 6:
			ops = append(ops, pdf.VerifC05Op{Kind: "B"})
			toks = append(toks, "B")
		default:
			k := []int{1, 4, 19, 20}[R.IntN(4)]
			ops = append(ops, pdf.VerifC05Op{Kind: "K", N: k})
			toks = append(toks, "K"+strconv.Itoa(k))
		}
	}
	term := "E"
	if termErr {
		term = "X7"
	}
	line := fmt.Sprintf("S 1 %s %s %d %s", common.Hex(data), term, nops, strings.Join(toks, " "))
	run := func() (string, []violation) {
		var terr error = io.EOF
		if termErr {
			terr = &ioErr{7}
		}
		src := &chunkReader{data: bytes.Clone(data), chunks: chunks, term: terr, withData: withData}
		obs := pdf.VerifC05Scan(src, ops, nil)
		var parts []string
		var viol []violation
		for i, o := range obs {
			cls := "nil"
			var ie *ioErr
			switch {
			case o.Err == nil:
			case o.Err == io.EOF:
				cls = "eof"
			case errors.As(o.Err, &ie):
				cls = "io" + strconv.Itoa(ie.id)
			default:
				cls = "other"
			}
			parts = append(parts, fmt.Sprintf("%s:%d:%s", cls, o.Pos, common.Hex(o.Data)))
			// after the source's terminal error, a scan that consumed everything
			// must report that error
			if (ops[i].Kind == "W" || ops[i].Kind == "I") && int(o.Pos) == len(data) && termErr && cls != "io7" {
				viol = append(viol, violation{"scanner-swallowed-source-error",
					fmt.Sprintf("op %d (%s) consumed all %d bytes of a source that ends in an error but returned %s", i, ops[i].Kind, len(data), cls)})
			}
		}
		if src.after > 0 && termErr {
			viol = append(viol, violation{"scanner-read-after-latched-error",
				fmt.Sprintf("%d Read calls after the source had delivered its error", src.after)})
		}
		return strings.Join(parts, ","), viol
	}
	return modelCase{Line: line, Run: run, NonTrivial: termErr || n > 1000, Class: "S"}
}

// ---------------------------------------------------------------------------
// P: the /Prev chain

type traceReader struct {
	r    *bytes.Reader
	offs []int64
}

func (t *traceReader) ReadAt(p []byte, off int64) (int, error) {
	t.offs = append(t.offs, off)
	return t.r.ReadAt(p, off)
}

type psec struct {
	off     int // absolute
	table   bool
	xrefstm string // tval token, relative offsets
	prev    string
}

func genPrev(R *rand.Rand) modelCase {
	hdr := []int{0, 0, 7, 100}[R.IntN(4)]
	nsec := 1 + R.IntN(5)
	if R.IntN(12) == 0 {
		nsec = 20 + R.IntN(30)
	}
	buf := &bytes.Buffer{}
	buf.Write(bytes.Repeat([]byte{'@'}, hdr))
	buf.WriteString("%PDF-1.7\n")
	rel := func() int { return buf.Len() - hdr }
	off1 := rel()
	buf.WriteString("1 0 obj\n<< /Type /Catalog /Pages 2 0 R >>\nendobj\n")
	off2 := rel()
	buf.WriteString("2 0 obj\n<< /Type /Pages /Kids [] /Count 0 >>\nendobj\n")
	marks := make([]int, nsec)
	for i := 0; i < nsec; i++ {
		marks[i] = rel()
		fmt.Fprintf(buf, "%d 0 obj\n%d\nendobj\n", 100+i, i)
	}
	junkStart := buf.Len()
	buf.Write(bytes.Repeat([]byte{'@'}, 64))
	// decide kinds and reserve the section texts with fixed-width numbers, so
	// that offsets are known before /Prev values are chosen
	secs := make([]psec, nsec)
	const width = 420
	base := buf.Len()
	for i := range secs {
		secs[i].table = R.IntN(3) > 0
		secs[i].off = base + i*width
	}
	relOff := func(i int) int { return secs[i].off - hdr }
	total := base + nsec*width + 64
	pick := func(kind string) string {
		switch R.IntN(14) {
		case 0:
			return "-"
		case 1:
			return "x"
		case 2:
			return "i0"
		case 3:
			return "i-5"
		case 4:
			return "i" + strconv.Itoa(total+R.IntN(2000))
		case 5: // junk
			return "i" + strconv.Itoa(junkStart-hdr+R.IntN(64))
		case 6:
			return "i" + strconv.Itoa(total-hdr-R.IntN(3))
		default:
			return "i" + strconv.Itoa(relOff(R.IntN(nsec)))
		}
	}
	for i := range secs {
		secs[i].prev = pick("prev")
		if i > 0 && R.IntN(3) == 0 {
			secs[i].prev = "i" + strconv.Itoa(relOff(i-1)) // ordinary chain
		}
		if R.IntN(4) == 0 {
			secs[i].prev = "-"
		}
		secs[i].xrefstm = "-"
		if R.IntN(3) == 0 {
			secs[i].xrefstm = pick("stm")
		}
	}
	tv := func(key, t string) string {
		switch t[0] {
		case '-':
			return ""
		case 'x':
			return fmt.Sprintf(" /%s %s", key, []string{"/X", "1.5", "3 0 R", "(s)"}[R.IntN(4)])
		default:
			return fmt.Sprintf(" /%s %s", key, t[1:])
		}
	}
	for i, s := range secs {
		var sec bytes.Buffer
		extra := tv("Prev", s.prev) + tv("XRefStm", s.xrefstm)
		if s.table {
			fmt.Fprintf(&sec, "xref\n0 3\n0000000000 65535 f \n%010d 00000 n \n%010d 00000 n \n%d 1\n%010d 00000 n \ntrailer\n<< /Size 200 /Root 1 0 R%s >>\n",
				off1, off2, 100+i, marks[i], extra)
		} else {
			var data bytes.Buffer
			ent := func(tp, a, g int) { data.Write([]byte{byte(tp), byte(a >> 8), byte(a), byte(g)}) }
			ent(0, 0, 255)
			ent(1, off1, 0)
			ent(1, off2, 0)
			ent(1, marks[i], 0)
			ent(1, relOff(i), 0)
			fmt.Fprintf(&sec, "%d 0 obj\n<< /Type /XRef /Size 200 /W [1 2 1] /Index [0 3 %d 1 %d 1] /Root 1 0 R /Length %d%s >>\nstream\n",
				150+i, 100+i, 150+i, data.Len(), extra)
			sec.Write(data.Bytes())
			sec.WriteString("\nendstream\nendobj\n")
		}
		if sec.Len() > width {
			panic("section too long")
		}
		buf.Write(sec.Bytes())
		buf.Write(bytes.Repeat([]byte{'@'}, width-sec.Len()))
	}
	buf.Write(bytes.Repeat([]byte{'@'}, 16))
	start0 := relOff(R.IntN(nsec))
	if R.IntN(10) == 0 {
		start0 = relOff(nsec - 1)
	}
	fmt.Fprintf(buf, "\nstartxref\n%d\n%%%%EOF\n", start0)
	// lastOccurence reads at size-1024; keep that from being a section offset
	for {
		clash := false
		for _, s := range secs {
			if s.off == buf.Len()-1024 {
				clash = true
			}
		}
		if !clash {
			break
		}
		buf.WriteByte('\n')
	}
	file := buf.Bytes()
	size := len(file)

	var sb strings.Builder
	fmt.Fprintf(&sb, "P %d %d %d %d", size, hdr, start0+hdr, nsec)
	for _, s := range secs {
		k := "S"
		if s.table {
			k = "T"
		}
		fmt.Fprintf(&sb, " %d %s %s %s", s.off, k, s.xrefstm, s.prev)
	}
	isSec := map[int64]bool{}
	isTable := map[int64]bool{}
	for _, s := range secs {
		isSec[int64(s.off)] = true
		isTable[int64(s.off)] = s.table
	}
	run := func() (string, []violation) {
		tr := &traceReader{r: bytes.NewReader(file)}
		r, err := pdf.NewReader(tr, int64(size), &pdf.ReaderOptions{ErrorHandling: pdf.ErrorHandlingStop})
		var viol []violation
		// the loop iterations.  A stream section is read once per iteration
		// (or once as an /XRefStm).  A classic table is read twice within its
		// iteration: a probe to learn its trailer, then - after the /XRefStm,
		// whose entries take precedence - for real.  So the first read of a
		// table offset opens an iteration and the next read of the same offset
		// closes it; a read after that is a new iteration.
		var iters []int64
		open := map[int64]bool{}
		started := false
		for _, o := range tr.offs {
			if o == int64(start0+hdr) {
				started = true
			}
			if !started || !isSec[o] {
				continue
			}
			if isTable[o] && open[o] {
				open[o] = false
				continue
			}
			if isTable[o] {
				open[o] = true
			}
			iters = append(iters, o)
		}
		seen := map[int64]bool{}
		var trace []string
		for _, o := range iters {
			trace = append(trace, strconv.FormatInt(o, 10))
			if seen[o] {
				viol = append(viol, violation{"prev-offset-visited-twice",
					fmt.Sprintf("the /Prev loop came back to the cross-reference section at byte %d", o)})
			}
			seen[o] = true
		}
		if err != nil {
			return "err", viol
		}
		r.Close()
		if len(trace) == 0 {
			return "ok -", viol
		}
		return "ok " + strings.Join(trace, ","), viol
	}
	return modelCase{Line: sb.String(), Run: run, NonTrivial: nsec > 1, Class: "P"}
}

// ---------------------------------------------------------------------------
// synthetic object graphs behind a counting Getter

type memGetter struct {
	objs   map[uint32]pdf.Native
	errs   map[uint32]error
	meta   *pdf.MetaInfo
	log    []uint32
	budget int
	over   bool
}

var errBudget = errors.New("verif: Get budget exceeded")

func (g *memGetter) GetMeta() *pdf.MetaInfo { return g.meta }

func (g *memGetter) Get(ref pdf.Reference, canObjStm bool) (pdf.Native, error) {
	g.log = append(g.log, ref.Number())
	if len(g.log) > g.budget {
		g.over = true
		return nil, errBudget
	}
	if err, ok := g.errs[ref.Number()]; ok {
		return nil, err
	}
	return g.objs[ref.Number()], nil
}

func newGetter(root uint32, budget int) *memGetter {
	return &memGetter{
		objs:   map[uint32]pdf.Native{},
		errs:   map[uint32]error{},
		meta:   &pdf.MetaInfo{Version: pdf.V1_7, Catalog: &pdf.Catalog{Pages: pdf.NewReference(root, 0)}},
		budget: budget,
	}
}

func ref(n int) pdf.Reference { return pdf.NewReference(uint32(n), 0) }

func u32s(l []uint32) string {
	if len(l) == 0 {
		return "-"
	}
	parts := make([]string, len(l))
	for i, x := range l {
		parts[i] = strconv.FormatUint(uint64(x), 10)
	}
	return strings.Join(parts, ",")
}

func dupOf(l []uint32) (uint32, bool) {
	seen := map[uint32]bool{}
	for _, x := range l {
		if seen[x] {
			return x, true
		}
		seen[x] = true
	}
	return 0, false
}

var errIO = &ioErr{1}

// R: reference chains
func genResolve(R *rand.Rand) modelCase {
	n := 2 + R.IntN(10)
	long := R.IntN(8) == 0
	if long {
		n = 250 + R.IntN(20)
	}
	g := newGetter(1, 5000)
	var sb strings.Builder
	type ent struct {
		k   int
		tok string
	}
	var ents []ent
	for i := 1; i <= n; i++ {
		var tok string
		x := R.IntN(12)
		if long && i < n {
			x = 11
		}
		switch {
		case x == 0:
			tok = "v"
			g.objs[uint32(i)] = pdf.Integer(1)
		case x == 1:
			tok = "n"
		case x == 2:
			tok = "e"
			g.errs[uint32(i)] = errIO
		case x == 3:
			tok = "m"
			g.errs[uint32(i)] = &pdf.MalformedFileError{Err: errors.New("verif")}
		case x < 8 || long: // chain
			t := i + 1
			if long && i == n {
				t = []int{1, n, n + 1, n / 2}[R.IntN(4)]
			}
			tok = "r" + strconv.Itoa(t)
			g.objs[uint32(i)] = ref(t)
		default: // anywhere (cycles, dangling)
			t := 1 + R.IntN(n+2)
			tok = "r" + strconv.Itoa(t)
			g.objs[uint32(i)] = ref(t)
		}
		ents = append(ents, ent{i, tok})
	}
	if long {
		// end the chain in a value, a cycle or nothing; lengths around the cap
		g.objs[uint32(n)] = pdf.Integer(1)
		delete(g.errs, uint32(n))
		ents[n-1].tok = "v"
		if R.IntN(3) == 0 {
			g.objs[uint32(n)] = ref(1)
			ents[n-1].tok = "r1"
		}
	}
	fmt.Fprintf(&sb, "R 1 %d", len(ents))
	for _, e := range ents {
		fmt.Fprintf(&sb, " %d %s", e.k, e.tok)
	}
	run := func() (string, []violation) {
		g.log = nil
		v, err := pdf.Resolve(g, ref(1))
		gets := len(g.log)
		var viol []violation
		if gets > 256 {
			viol = append(viol, violation{"resolve-get-count-exceeds-depth-cap",
				fmt.Sprintf("Resolve called Get %d times (MaxExtractDepth is 256)", gets)})
		}
		var ie *ioErr
		switch {
		case errors.Is(err, pdf.ErrCycle):
			return fmt.Sprintf("cycle %d", gets), viol
		case errors.Is(err, pdf.ErrDepth):
			return fmt.Sprintf("depth %d", gets), viol
		case errors.As(err, &ie):
			return fmt.Sprintf("io1 %d", gets), viol
		case pdf.IsMalformed(err):
			return fmt.Sprintf("mal %d", gets), viol
		case err != nil:
			return fmt.Sprintf("other %d", gets), viol
		case v == nil:
			return fmt.Sprintf("null %d", gets), viol
		default:
			return fmt.Sprintf("val %d", gets), viol
		}
	}
	return modelCase{Line: sb.String(), Run: run, NonTrivial: true, Class: "R"}
}

// W: page tree walkers
func genPages(R *rand.Rand) modelCase {
	n := 1 + R.IntN(12)
	frames := R.IntN(2)
	g := newGetter(1, 20000)
	var sb strings.Builder
	fmt.Fprintf(&sb, "W %d 1 %d", frames, n)
	edges := 0
	for i := 1; i <= n; i++ {
		kind := "P"
		switch R.IntN(10) {
		case 0, 1, 2, 3:
			kind = "p"
		case 4:
			kind = "o"
		case 5:
			if R.IntN(4) == 0 {
				kind = "f"
			}
		}
		if i == 1 && R.IntN(8) > 0 {
			kind = "P"
		}
		inh := R.IntN(2)
		nk := R.IntN(6)
		if R.IntN(10) == 0 {
			nk = 10 + R.IntN(10)
		}
		kids := make([]int, nk)
		arr := pdf.Array{}
		for j := range kids {
			kids[j] = 1 + R.IntN(n+2) // may be itself, an ancestor, or missing
			arr = append(arr, ref(kids[j]))
			if R.IntN(8) == 0 {
				arr = append(arr, pdf.Integer(7)) // a non-reference entry: ignored
			}
		}
		d := pdf.Dict{}
		switch kind {
		case "p":
			d["Type"] = pdf.Name("Page")
			d["Kids"] = arr // a page with /Kids: ignored
		case "P":
			d["Type"] = pdf.Name("Pages")
			d["Kids"] = arr
			d["Count"] = pdf.Integer(R.IntN(100) - 50) // a lie
			d["Parent"] = ref(1 + R.IntN(n+2))         // a lie
		case "o":
			switch R.IntN(3) {
			case 0:
				d["Type"] = pdf.Name("Foo")
				d["Kids"] = arr
			case 1:
				d["Type"] = pdf.Name("Pages")
				d["Kids"] = pdf.Integer(5)
			default:
				d = nil
				g.errs[uint32(i)] = &pdf.MalformedFileError{Err: errors.New("verif")}
			}
		case "f":
			d = nil
			g.errs[uint32(i)] = errIO
		}
		if d != nil {
			if inh == 1 {
				d["Rotate"] = pdf.Integer(90)
			}
			g.objs[uint32(i)] = d
		}
		fmt.Fprintf(&sb, " %d %s %d %d", i, kind, inh, nk)
		for _, k := range kids {
			fmt.Fprintf(&sb, " %d", k)
		}
		edges += nk
	}
	run := func() (string, []violation) {
		g.log = nil
		g.over = false
		var out []uint32
		var err error
		if frames == 1 {
			it := pagetree.NewIterator(g)
			for r := range it.All() {
				out = append(out, r.Number())
			}
			err = it.Err
		} else {
			var refs []pdf.Reference
			refs, err = pagetree.FindPages(g)
			for _, r := range refs {
				out = append(out, r.Number())
			}
		}
		var viol []violation
		if x, dup := dupOf(out); dup {
			viol = append(viol, violation{"page-yielded-twice", fmt.Sprintf("page %d was yielded twice", x)})
		}
		if x, dup := dupOf(g.log); dup {
			viol = append(viol, violation{"page-tree-node-read-twice", fmt.Sprintf("node %d was fetched twice", x)})
		}
		if g.over {
			viol = append(viol, violation{"walker-get-budget-exceeded",
				fmt.Sprintf("the page tree walker fetched more than %d objects for a graph of %d nodes and %d edges", g.budget, n, edges)})
		}
		if err != nil {
			return "err", viol
		}
		return "ok " + u32s(out), viol
	}
	return modelCase{Line: sb.String(), Run: run, NonTrivial: true, Class: "W"}
}

// T: name tree walker
func genTree(R *rand.Rand) modelCase {
	n := 1 + R.IntN(12)
	deep := R.IntN(10) == 0
	if deep {
		n = 250 + R.IntN(20)
	}
	g := newGetter(1, 20000)
	var sb strings.Builder
	fmt.Fprintf(&sb, "T 1 %d", n)
	for i := 1; i <= n; i++ {
		leaf := R.IntN(3) == 0
		nk := R.IntN(5)
		if deep {
			leaf = i == n
			nk = 1
		}
		kids := make([]int, nk)
		arr := pdf.Array{}
		for j := range kids {
			kids[j] = 1 + R.IntN(n+2)
			if deep {
				kids[j] = i + 1
			}
			arr = append(arr, ref(kids[j]))
		}
		d := pdf.Dict{"Kids": arr}
		if leaf {
			d["Names"] = pdf.Array{pdf.String(fmt.Sprintf("k%04d", i)), pdf.Integer(i)}
		}
		if !deep && R.IntN(10) == 0 {
			g.errs[uint32(i)] = &pdf.MalformedFileError{Err: errors.New("verif")}
			// an unreadable node is entered like an empty one
			leaf, kids = true, nil
		} else {
			g.objs[uint32(i)] = d
		}
		l := 0
		if leaf {
			l = 1
		}
		fmt.Fprintf(&sb, " %d %d %d", i, l, len(kids))
		for _, k := range kids {
			fmt.Fprintf(&sb, " %d", k)
		}
	}
	run := func() (string, []violation) {
		g.log = nil
		g.over = false
		t, err := nametree.ExtractFromFile(g, ref(1))
		keys := 0
		if err == nil && t != nil {
			for range t.All() {
				keys++
			}
		}
		var viol []violation
		if x, dup := dupOf(g.log); dup {
			viol = append(viol, violation{"name-tree-node-read-twice", fmt.Sprintf("node %d was fetched twice", x)})
		}
		if g.over {
			viol = append(viol, violation{"walker-get-budget-exceeded", "the name tree walker exceeded its Get budget"})
		}
		log := g.log
		if len(log) > 0 {
			log = log[1:] // the root
		}
		return u32s(log), viol
	}
	return modelCase{Line: sb.String(), Run: run, NonTrivial: true, Class: "T"}
}

// O: outline walker
func genOutline(R *rand.Rand) modelCase {
	n := 1 + R.IntN(12)
	deep := R.IntN(10) == 0
	if deep {
		n = 250 + R.IntN(20)
	}
	g := newGetter(1, 20000)
	// object 1 is the outline root, items are 2..n+1
	opt := func(i int) (string, pdf.Object) {
		if deep {
			if i >= n+1 {
				return "-", nil
			}
			return strconv.Itoa(i + 1), ref(i + 1)
		}
		if R.IntN(3) == 0 {
			return "-", nil
		}
		t := 1 + R.IntN(n+3)
		return strconv.Itoa(t), ref(t)
	}
	var sb strings.Builder
	firstTok, firstObj := "2", pdf.Object(ref(2))
	if !deep && R.IntN(10) == 0 {
		firstTok, firstObj = opt(1)
	}
	root := pdf.Dict{"Type": pdf.Name("Outlines")}
	if firstObj != nil {
		root["First"] = firstObj
	}
	g.objs[1] = root
	fmt.Fprintf(&sb, "O 1 %s %d", firstTok, n)
	for i := 2; i <= n+1; i++ {
		d := pdf.Dict{"Title": pdf.String(strconv.Itoa(i)), "Count": pdf.Integer(R.IntN(9) - 4), "Parent": ref(1 + R.IntN(n+1))}
		ft, fo := opt(i)
		nt, no := "-", pdf.Object(nil)
		if !deep {
			nt, no = opt(i)
		} else if R.IntN(2) == 0 {
			// alternate between descending through /First and through /Next
			nt, no = ft, fo
			ft, fo = "-", nil
		}
		if fo != nil {
			d["First"] = fo
		}
		if no != nil {
			d["Next"] = no
		}
		fail := 0
		if !deep && R.IntN(15) == 0 {
			fail = 1
			d["Title"] = pdf.Integer(3)
		}
		g.objs[uint32(i)] = d
		fmt.Fprintf(&sb, " %d %s %s %d", i, ft, nt, fail)
	}
	run := func() (string, []violation) {
		g.log = nil
		g.over = false
		x := pdf.NewExtractor(g)
		_, err := pdf.Decode(pdf.CursorAt(x, nil), ref(1), outline.Decode)
		var viol []violation
		log := g.log
		if len(log) > 0 {
			log = log[1:]
		}
		if x, dup := dupOf(log); dup {
			viol = append(viol, violation{"outline-item-read-twice", fmt.Sprintf("item %d was fetched twice", x)})
		}
		if g.over {
			viol = append(viol, violation{"walker-get-budget-exceeded", "the outline walker exceeded its Get budget"})
		}
		if err != nil {
			return "err", viol
		}
		return "ok " + u32s(log), viol
	}
	return modelCase{Line: sb.String(), Run: run, NonTrivial: true, Class: "O"}
}

// ---------------------------------------------------------------------------
// X: cross-reference stream dictionary check and entry count

type xobj struct {
	tok string
	obj pdf.Object
}

func xint(v int64) xobj { return xobj{"i" + strconv.FormatInt(v, 10), pdf.Integer(v)} }

func xarr(items []xobj) xobj {
	var sb strings.Builder
	sb.WriteString("a")
	arr := pdf.Array{}
	for _, it := range items {
		sb.WriteString(":" + it.tok)
		arr = append(arr, it.obj)
	}
	return xobj{sb.String(), arr}
}

func genXRef(R *rand.Rand) modelCase {
	other := xobj{"o", pdf.Name("X")}
	null := xobj{"n", nil}
	sizes := []int64{0, 1, 3, 5, 100, 1000, 8192, 8193, 9000, 20000, 1 << 24, 1<<24 + 1, -1, 1 << 40}
	size := xint(sizes[R.IntN(len(sizes))])
	if R.IntN(20) == 0 {
		size = []xobj{other, null, {"o", pdf.Real(3)}}[R.IntN(3)]
	}
	var w xobj
	{
		k := 3
		if R.IntN(12) == 0 {
			k = 2 + R.IntN(3)
		}
		var items []xobj
		for i := 0; i < k; i++ {
			v := int64(R.IntN(4))
			if R.IntN(10) == 0 {
				v = int64(R.IntN(12) - 2)
			}
			if i == 1 && R.IntN(2) == 0 {
				v = int64(1 + R.IntN(3))
			}
			items = append(items, xint(v))
			if R.IntN(40) == 0 {
				items[i] = other
			}
		}
		w = xarr(items)
		if R.IntN(30) == 0 {
			w = []xobj{other, null, xint(3)}[R.IntN(3)]
		}
	}
	index := null
	if R.IntN(2) == 0 {
		k := 2 * (1 + R.IntN(3))
		if R.IntN(10) == 0 {
			k++
		}
		var items []xobj
		for i := 0; i < k; i++ {
			var v int64
			switch R.IntN(8) {
			case 0:
				v = -1
			case 1:
				v = 0
			case 2:
				v = 1 << 24
			case 3:
				v = 9000
			default:
				v = int64(R.IntN(12))
			}
			items = append(items, xint(v))
			if R.IntN(40) == 0 {
				items[i] = other
			}
		}
		index = xarr(items)
		if R.IntN(30) == 0 {
			index = other
		}
	}
	rawLen := []int64{-5, 0, 0, 1, 10, 100, 1000}[R.IntN(7)]
	nbytes := []int{0, 3, 12, 40, 200, 30000}[R.IntN(6)]
	if nbytes == 30000 && R.IntN(3) > 0 {
		nbytes = 60
	}
	data := make([]byte, nbytes)
	for i := range data {
		switch R.IntN(6) {
		case 0:
			data[i] = byte(R.IntN(256))
		case 1:
			data[i] = 0xFF
		default:
			data[i] = byte(R.IntN(4))
		}
	}
	if R.IntN(10) == 0 {
		// an attempt to get past the entry cap: enough data for every declared entry
		n := []int64{8193, 9000, 20000}[R.IntN(3)]
		size = xint(n)
		ws := [][]int64{{1, 0, 0}, {1, 1, 0}, {0, 1, 0}, {1, 0, 1}}[R.IntN(4)]
		w = xarr([]xobj{xint(ws[0]), xint(ws[1]), xint(ws[2])})
		index = null
		if R.IntN(3) == 0 {
			index = xarr([]xobj{xint(0), xint(n / 2), xint(n / 2), xint(n - n/2)})
		}
		rawLen = []int64{-1, 0, 1, 10, 30}[R.IntN(5)]
		data = make([]byte, int(n)*int(ws[0]+ws[1]+ws[2]))
		for i := range data {
			data[i] = byte(R.IntN(3))
		}
	}
	line := fmt.Sprintf("X %s %s %s %d %s", size.tok, w.tok, index.tok, rawLen, common.Hex(data))
	run := func() (string, []violation) {
		d := pdf.Dict{}
		if size.obj != nil {
			d["Size"] = size.obj
		}
		if w.obj != nil {
			d["W"] = w.obj
		}
		if index.obj != nil {
			d["Index"] = index.obj
		}
		entries, checked, err := pdf.VerifC05ReadXRefStream(d, rawLen, data)
		var viol []violation
		bound := int64(8192)
		if rawLen > 0 {
			bound += 32 * rawLen
		}
		if int64(len(entries)) > bound {
			viol = append(viol, violation{"xref-entries-over-bound",
				fmt.Sprintf("%d cross-reference entries decoded for a stream of raw length %d (bound %d)", len(entries), rawLen, bound)})
		}
		if !checked {
			if pdf.IsMalformed(err) {
				return "malformed", viol
			}
			return "other", viol
		}
		e := "-"
		if err != nil {
			e = "e"
		}
		if len(entries) == 0 {
			return "ok " + e + " -", viol
		}
		sort.Slice(entries, func(i, j int) bool { return entries[i].Num < entries[j].Num })
		parts := make([]string, len(entries))
		for i, en := range entries {
			parts[i] = fmt.Sprintf("%d/%d/%d/%d", en.Num, en.InStream, en.Pos, en.Generation)
		}
		return "ok " + e + " " + strings.Join(parts, ","), viol
	}
	return modelCase{Line: line, Run: run, NonTrivial: true, Class: "X"}
}

// D: a typed decoder that decodes its children through nested pdf.Decode calls.
type dnodeT struct{}

func decodeNode(c pdf.Cursor, obj pdf.Object, _ bool) (*dnodeT, error) {
	d, _ := obj.(pdf.Dict)
	kids, _ := d["Kids"].(pdf.Array)
	for _, k := range kids {
		if _, err := pdf.Decode(c, k, decodeNode); err != nil {
			return nil, err
		}
	}
	return &dnodeT{}, nil
}

func genDecode(R *rand.Rand) modelCase {
	n := 2 + R.IntN(10)
	long := R.IntN(8) == 0
	if long {
		n = 250 + R.IntN(20)
	}
	g := newGetter(1, 100000)
	var sb strings.Builder
	fmt.Fprintf(&sb, "D 1 %d", n)
	for i := 1; i <= n; i++ {
		var tok string
		x := R.IntN(12)
		if long {
			x = 4 + R.IntN(2)*4 // alternate alias and single-kid nodes along the chain
			if i == n {
				x = []int{1, 4, 8}[R.IntN(3)]
			}
		}
		target := func() int {
			if long {
				if i == n {
					return []int{1, n, n + 1, n / 2}[R.IntN(4)]
				}
				return i + 1
			}
			return 1 + R.IntN(n+2)
		}
		switch {
		case x == 0:
			tok = "e"
			g.errs[uint32(i)] = errIO
		case x == 1:
			tok = "n"
		case x == 2:
			tok = "m"
			g.errs[uint32(i)] = &pdf.MalformedFileError{Err: errors.New("verif")}
		case x < 6: // alias
			t := target()
			tok = "r" + strconv.Itoa(t)
			g.objs[uint32(i)] = ref(t)
		default: // a node with children
			nk := 1 + R.IntN(3)
			if long {
				nk = 1
			}
			arr := pdf.Array{}
			tok = "k"
			for j := 0; j < nk; j++ {
				t := target()
				arr = append(arr, ref(t))
				tok += ":" + strconv.Itoa(t)
			}
			g.objs[uint32(i)] = pdf.Dict{"Kids": arr}
		}
		fmt.Fprintf(&sb, " %d %s", i, tok)
	}
	run := func() (string, []violation) {
		g.log = nil
		g.over = false
		x := pdf.NewExtractor(g)
		_, err := pdf.Decode(pdf.CursorAt(x, nil), ref(1), decodeNode)
		gets := len(g.log)
		var viol []violation
		if g.over {
			viol = append(viol, violation{"walker-get-budget-exceeded", "the typed decoder exceeded its Get budget"})
		}
		var ie *ioErr
		switch {
		case errors.Is(err, pdf.ErrCycle):
			return fmt.Sprintf("cycle %d", gets), viol
		case errors.Is(err, pdf.ErrDepth):
			return fmt.Sprintf("depth %d", gets), viol
		case errors.As(err, &ie):
			return fmt.Sprintf("io1 %d", gets), viol
		case pdf.IsMalformed(err):
			return fmt.Sprintf("mal %d", gets), viol
		case err != nil:
			return fmt.Sprintf("other %d", gets), viol
		default:
			return fmt.Sprintf("ok %d", gets), viol
		}
	}
	return modelCase{Line: sb.String(), Run: run, NonTrivial: true, Class: "D"}
}

// N: nesting depth of the object scanner.  Token strings over a (scalar),
// n (name), [ ] < > (for << >>), written out as the value of object 5.
func genNest(R *rand.Rand) modelCase {
	var toks []byte
	switch R.IntN(4) {
	case 0: // token soup
		for k := R.IntN(14); k > 0; k-- {
			toks = append(toks, "aan[]<>[<niiiRR"[R.IntN(15)])
		}
	default: // a tower around the limit, closed properly or almost
		depth := []int{1, 2, 5, 100, 250, 254, 255, 256, 257, 258, 300}[R.IntN(11)]
		var closers []byte
		for i := 0; i < depth; i++ {
			if R.IntN(2) == 0 {
				toks = append(toks, '[')
				closers = append(closers, ']')
				if R.IntN(4) == 0 {
					toks = append(toks, 'a')
				}
			} else {
				toks = append(toks, '<', 'n')
				closers = append(closers, '>')
			}
		}
		if len(closers) > 0 && closers[len(closers)-1] == '>' || R.IntN(2) == 0 {
			toks = append(toks, "an"[R.IntN(2)])
		}
		for i := len(closers) - 1; i >= 0; i-- {
			c := closers[i]
			if R.IntN(400) == 0 {
				c = "]>a"[R.IntN(3)]
			}
			toks = append(toks, c)
			if c == ']' && R.IntN(8) == 0 && i > 0 && closers[i-1] == ']' {
				toks = append(toks, 'n') // one more element of the enclosing array
			}
		}
		if R.IntN(10) == 0 {
			toks = append(toks, 'a')
		}
	}
	var text strings.Builder
	for _, t := range toks {
		switch t {
		case 'a':
			text.WriteString([]string{"(s)", "true", "null", "1.5", "<AB>"}[R.IntN(5)])
		case 'n':
			text.WriteString("/K")
		case 'i':
			text.WriteString([]string{"0", "612", "3", "99999999", "-1"}[R.IntN(5)])
		case 'R':
			text.WriteString("R")
		case '[':
			text.WriteString("[")
		case ']':
			text.WriteString("]")
		case '<':
			text.WriteString("<<")
		case '>':
			text.WriteString(">>")
		}
		text.WriteByte(" \n"[R.IntN(2)])
	}
	file := simpleFile(map[int]string{
		1: "<< /Type /Catalog /Pages 2 0 R >>", 2: "<< /Type /Pages /Kids [] /Count 0 >>", 5: text.String()}, 1, "")
	ts := string(toks)
	if ts == "" {
		ts = "-"
	}
	run := func() (string, []violation) {
		r, err := pdf.NewReader(bytes.NewReader(file), int64(len(file)), &pdf.ReaderOptions{ErrorHandling: pdf.ErrorHandlingStop})
		if err != nil {
			return "open-failed", nil
		}
		defer r.Close()
		_, err = r.Get(ref(5), true)
		// the deepest point of the token string
		depth, deepest := 0, 0
		for _, t := range toks {
			switch t {
			case '[', '<':
				depth++
				if depth > deepest {
					deepest = depth
				}
			case ']', '>':
				depth--
			}
		}
		switch {
		case err == nil && deepest > 256:
			return "ok", []violation{{"nesting-depth-cap-exceeded",
				fmt.Sprintf("an object with %d nested containers was accepted (maxScannerNestDepth is 256)", deepest)}}
		case err == nil:
			return "ok", nil
		case pdf.IsMalformed(err):
			return "mal", nil
		default:
			return "other", nil
		}
	}
	return modelCase{Line: "N " + ts, Run: run, NonTrivial: len(toks) > 200, Class: "N"}
}

// The systematic part of family N: every sequence over {integer, R, other
// scalar} up to a length as the body of an array (the object's value, a
// dictionary value, inside the trailer, inside a cross-reference stream
// dictionary) and as the values of a dictionary.  `n g R` look-backs over
// arbitrary neighbours are what ReadArray's two type assertions depend on.
type nestEnum struct {
	ctx int
	seq string
}

var nestEnums []nestEnum

func init() {
	var rec func(prefix string, left int, out *[]string)
	rec = func(prefix string, left int, out *[]string) {
		*out = append(*out, prefix)
		if left == 0 {
			return
		}
		for _, c := range "iRa" {
			rec(prefix+string(c), left-1, out)
		}
	}
	for ctx, maxLen := range []int{7, 6, 6, 6, 5} {
		var seqs []string
		rec("", maxLen, &seqs)
		for _, q := range seqs {
			nestEnums = append(nestEnums, nestEnum{ctx, q})
		}
	}
}

func tokenText(seq string) string {
	var sb strings.Builder
	vals := []string{"0", "612", "3", "99999999", "0", "792", "65536"}
	for i, c := range seq {
		switch c {
		case 'i':
			sb.WriteString(vals[i%len(vals)])
		case 'R':
			sb.WriteString("R")
		case 'a':
			sb.WriteString([]string{"(s)", "/N", "true", "1.5"}[i%4])
		}
		sb.WriteByte(' ')
	}
	return sb.String()
}

func enumNest(i int) modelCase {
	en := nestEnums[i%len(nestEnums)]
	txt := tokenText(en.seq)
	// 'a' stands for a scalar that is not an integer; a name is the token n
	var model strings.Builder
	for j, c := range en.seq {
		if c == 'a' && j%4 == 1 {
			model.WriteByte('n')
		} else {
			model.WriteRune(c)
		}
	}
	mseq := model.String()
	cat := "<< /Type /Catalog /Pages 2 0 R >>"
	pages := "<< /Type /Pages /Kids [] /Count 0 >>"
	var file []byte
	var line string
	openOnly := false
	switch en.ctx {
	case 0:
		file = simpleFile(map[int]string{1: cat, 2: pages, 5: "[ " + txt + "]"}, 1, "")
		line = "N [" + mseq + "]"
	case 1:
		file = simpleFile(map[int]string{1: cat, 2: pages, 5: "<< /K [ " + txt + "] /L (x) >>"}, 1, "")
		line = "N <n[" + mseq + "]na>"
	case 2:
		file = simpleFile(map[int]string{1: cat, 2: pages, 5: "<< /K " + txt + ">>"}, 1, "")
		line = "N <n" + mseq + ">"
	case 3:
		file = simpleFile(map[int]string{1: cat, 2: pages}, 1, " /Verif [ "+txt+"]")
		line = "N ![" + mseq + "]"
		openOnly = true
	default:
		file = (&osFile{xrefExtra: "/Verif [ " + txt + "]"}).build()
		line = "N ![" + mseq + "]"
		openOnly = true
	}
	run := func() (string, []violation) {
		r, err := pdf.NewReader(bytes.NewReader(file), int64(len(file)), &pdf.ReaderOptions{ErrorHandling: pdf.ErrorHandlingStop})
		if openOnly {
			if err == nil {
				r.Close()
			}
			// also through the recovery path
			if fi, err2 := pdf.SequentialScan(bytes.NewReader(file), int64(len(file))); err2 == nil {
				if r2, err3 := fi.MakeReader(nil); err3 == nil {
					r2.Close()
				}
			}
			return "nopanic", nil
		}
		if err != nil {
			return "open-failed", nil
		}
		defer r.Close()
		_, err = r.Get(ref(5), true)
		switch {
		case err == nil:
			return "ok", nil
		case pdf.IsMalformed(err):
			return "mal", nil
		default:
			return "other", nil
		}
	}
	return modelCase{Line: line, Run: run, NonTrivial: len(en.seq) >= 3, Class: "N"}
}

var families = []struct {
	name string
	gen  func(R *rand.Rand) modelCase
}{
	{"S", genScan}, {"P", genPrev}, {"R", genResolve}, {"W", genPages}, {"T", genTree}, {"O", genOutline}, {"X", genXRef},
	{"G", genObjStm}, {"N", genNest}, {"J", genIndex}, {"D", genDecode}, {"JD", genIndexDCT},
}
