package main

import (
	"bytes"
	"encoding/binary"
	"fmt"
	"math/rand/v2"
	"regexp"
	"strconv"

	"seehuhn.de/go/pdf"
	"seehuhn.de/go/pdf/internal/limits"
)

// Image-dimension filters (CCITTFax, JBIG2, DCT): large explicit values on
// EVERY dimension parameter together, with highly compressible bodies.  The
// drain oracle in walk.go bounds the decoded output by the documented limits.

// outputBound returns the documented upper bound for the decoded length of a
// stream whose last decode stage is an image-dimension filter (0: none known).
// CCITTFax and JBIG2 are 1 bit per pixel: at most limits.MaxImagePixels pixels
// and limits.MaxImageHeight rows, each row padded to a byte.
func outputBound(filters []pdf.Filter) int64 {
	if len(filters) == 0 {
		return 0
	}
	switch filters[len(filters)-1].(type) {
	case pdf.FilterCCITTFax, *pdf.FilterCCITTFax, *pdf.FilterJBIG2:
		return limits.MaxImagePixels/8 + limits.MaxImageHeight
	}
	return 0
}

func imageObj(w, h int, filter, parms string, body []byte) string {
	d := fmt.Sprintf("<< /Type /XObject /Subtype /Image /Width %d /Height %d /ColorSpace /DeviceGray /BitsPerComponent 1 /Filter %s", w, h, filter)
	if parms != "" {
		d += " /DecodeParms " + parms
	}
	d += fmt.Sprintf(" /Length %d >>\nstream\n", len(body))
	return d + string(body) + "\nendstream"
}

func imageFile(obj string) []byte {
	return simpleFile(map[int]string{
		1: "<< /Type /Catalog /Pages 2 0 R >>",
		2: "<< /Type /Pages /Kids [3 0 R] /Count 1 >>",
		3: "<< /Type /Page /Parent 2 0 R /MediaBox [0 0 100 100] /Resources << /XObject << /Im 5 0 R >> >> /Contents 4 0 R >>",
		4: "<< /Length 28 >>\nstream\nq 100 0 0 100 0 0 cm /Im Do Q\nendstream",
		5: obj}, 1, "")
}

// jbig2Page is an embedded JBIG2 stream that declares a page of w x h pixels
// (page information segment, end of page).
func jbig2Page(w, h uint32, fill byte) []byte {
	var b bytes.Buffer
	seg := func(num uint32, tp byte, data []byte) {
		binary.Write(&b, binary.BigEndian, num)
		b.WriteByte(tp)
		b.WriteByte(0) // referred-to segments
		b.WriteByte(1) // page association
		binary.Write(&b, binary.BigEndian, uint32(len(data)))
		b.Write(data)
	}
	var pi bytes.Buffer
	binary.Write(&pi, binary.BigEndian, w)
	binary.Write(&pi, binary.BigEndian, h)
	binary.Write(&pi, binary.BigEndian, uint32(0))
	binary.Write(&pi, binary.BigEndian, uint32(0))
	pi.WriteByte(fill) // flags: default pixel value etc.
	binary.Write(&pi, binary.BigEndian, uint16(0))
	seg(0, 48, pi.Bytes())
	// an immediate generic region covering the page, MMR coded, no data to speak of
	var gr bytes.Buffer
	binary.Write(&gr, binary.BigEndian, w)
	binary.Write(&gr, binary.BigEndian, h)
	binary.Write(&gr, binary.BigEndian, uint32(0))
	binary.Write(&gr, binary.BigEndian, uint32(0))
	gr.WriteByte(0)
	gr.WriteByte(1) // MMR
	gr.Write(bytes.Repeat([]byte{0xFF}, 64))
	seg(1, 38, gr.Bytes())
	seg(2, 49, nil)
	return b.Bytes()
}

// jpegWithDims patches the frame header of a baseline JPEG.
func jpegWithDims(w, h int) []byte {
	j := bytes.Clone(jpegBytes())
	for i := 0; i+9 < len(j); i++ {
		if j[i] == 0xFF && (j[i+1] == 0xC0 || j[i+1] == 0xC2) {
			binary.BigEndian.PutUint16(j[i+5:], uint16(h))
			binary.BigEndian.PutUint16(j[i+7:], uint16(w))
			break
		}
	}
	return j
}

func imageCorpus() []corpusEntry {
	var res []corpusEntry
	type namedBody struct {
		name string
		data []byte
	}
	bodies := []namedBody{ // a slice: the corpus order must be the same in every process
		{"ff", bytes.Repeat([]byte{0xFF}, 3000)},
		{"00", bytes.Repeat([]byte{0x00}, 3000)},
		{"alt", bytes.Repeat([]byte{0xAA, 0x55, 0x00, 0xFF}, 750)},
		{"eol", bytes.Repeat([]byte{0x00, 0x10, 0x01}, 1000)},
		{"tiny", []byte{0xFF}},
	}
	dims := [][2]int{{1 << 20, 1 << 20}, {1 << 16, 1 << 16}, {1, 1 << 20}, {1 << 20, 0}, {1728, 1 << 20}, {8, 1 << 20}, {1 << 20, 1}, {40000, 40000}}
	for _, k := range []int{-1, 0, 1} {
		for di, d := range dims {
			for bi, nb := range bodies {
				bn, body := nb.name, nb.data
				if (di+k+bi)%2 == 0 && di > 1 {
					continue // thin out
				}
				parms := fmt.Sprintf("<< /K %d /Columns %d", k, d[0])
				if d[1] > 0 {
					parms += fmt.Sprintf(" /Rows %d", d[1])
				}
				if di%3 == 0 {
					parms += " /BlackIs1 true"
				}
				if di%4 == 1 {
					parms += " /EncodedByteAlign true"
				}
				if di%5 == 2 {
					parms += " /EndOfBlock false"
				}
				parms += " >>"
				h := d[1]
				if h == 0 {
					h = 1 << 20
				}
				res = append(res, corpusEntry{fmt.Sprintf("img-ccitt-k%d-%dx%d-%s", k, d[0], d[1], bn),
					imageFile(imageObj(d[0], h, "/CCITTFaxDecode", parms, body))})
			}
		}
	}
	for _, d := range [][2]uint32{{1 << 20, 1 << 20}, {1 << 16, 1 << 16}, {1 << 31, 2}, {1 << 14, 1 << 14}, {0xFFFFFFFF, 0xFFFFFFFF}, {64, 1 << 24}} {
		for _, fill := range []byte{0, 4} {
			res = append(res, corpusEntry{fmt.Sprintf("img-jbig2-%dx%d-%d", d[0], d[1], fill),
				imageFile(imageObj(int(d[0]&0xFFFFF), int(d[1]&0xFFFFF), "/JBIG2Decode", "", jbig2Page(d[0], d[1], fill)))})
		}
	}
	for _, d := range [][2]int{{65535, 65535}, {65535, 1}, {1, 65535}, {16384, 16384}, {96, 65535}} {
		j := jpegWithDims(d[0], d[1])
		obj := fmt.Sprintf("<< /Type /XObject /Subtype /Image /Width %d /Height %d /ColorSpace /DeviceRGB /BitsPerComponent 8 /Filter /DCTDecode /Length %d >>\nstream\n%s\nendstream",
			d[0], d[1], len(j), string(j))
		res = append(res, corpusEntry{fmt.Sprintf("img-dct-%dx%d", d[0], d[1]), imageFile(obj)})
	}
	return res
}

var dimKeyPat = regexp.MustCompile(`/(Columns|Rows|Width|Height|K|Colors|BitsPerComponent) -?\d+`)

// mImageParams sets every dimension parameter of one stream dictionary to
// large values together and makes the body highly compressible.
func mImageParams(R *rand.Rand, d, _ []byte) ([]byte, string) {
	var cand []streamLoc
	for _, s := range findStreams(d) {
		dict := d[s.objStart:s.dictEnd]
		if bytes.Contains(dict, []byte("/CCITTFaxDecode")) || bytes.Contains(dict, []byte("/DCTDecode")) ||
			bytes.Contains(dict, []byte("/JBIG2Decode")) || bytes.Contains(dict, []byte("/Columns")) {
			cand = append(cand, s)
		}
	}
	if len(cand) == 0 {
		return mKeyValue(R, d, nil)
	}
	s := cand[R.IntN(len(cand))]
	big := []int{1 << 20, 1 << 16, 65535, 1 << 24, 40000, 1 << 30}
	dict := dimKeyPat.ReplaceAllFunc(bytes.Clone(d[s.objStart:s.dictEnd]), func(m []byte) []byte {
		key := m[:bytes.IndexByte(m, ' ')]
		v := big[R.IntN(len(big))]
		switch string(key) {
		case "/K":
			v = []int{-1, 0, 1}[R.IntN(3)]
		case "/Colors", "/BitsPerComponent":
			v = []int{1, 8, 16, 4, 32}[R.IntN(5)]
		}
		return []byte(string(key) + " " + strconv.Itoa(v))
	})
	if bytes.Contains(dict, []byte("/CCITTFaxDecode")) && !bytes.Contains(dict, []byte("/Rows")) {
		dict = bytes.Replace(dict, []byte("/Columns"), []byte(fmt.Sprintf("/Rows %d /Columns", big[R.IntN(len(big))])), 1)
	}
	out := splice(d, s.objStart, s.dictEnd-s.objStart, dict)
	shift := len(dict) - (s.dictEnd - s.objStart)
	if R.IntN(2) == 0 {
		// same length, highly compressible body
		fill := []byte{0xFF, 0x00, 0xAA}[R.IntN(3)]
		for i := s.dataStart + shift; i < s.dataEnd+shift-1 && i < len(out); i++ {
			out[i] = fill
		}
	}
	return out, "image-params"
}

// ---------------------------------------------------------------------------
// the documented per-stream memory budget

// docStreamBudget is the DOCUMENTED bound of limits.StreamBudget, written down
// independently: 8 MiB plus 1024 bytes per raw byte, the variable part capped
// at 256 MiB.
func docStreamBudget(rawLen int64) int64 {
	if rawLen < 0 {
		rawLen = 0
	}
	add := int64(256 << 20)
	if rawLen <= (256<<20)/1024 {
		add = 1024 * rawLen
	}
	return 8<<20 + add
}

// streamAllocSlack allows for what is not filter working memory (read
// buffers, the copy buffer of the drain).
const streamAllocSlack = 16 << 20

// progressiveJPEG: the header of a progressive one-component JPEG of the given
// size, one DC scan, padded with zeros to total bytes; the decoder's
// coefficient buffer follows the header's claim.
func progressiveJPEG(width, height, total int) []byte {
	b := &bytes.Buffer{}
	b.Write([]byte{0xFF, 0xD8})
	b.Write([]byte{0xFF, 0xDB, 0x00, 0x43, 0x00})
	for i := 0; i < 64; i++ {
		b.WriteByte(1)
	}
	b.Write([]byte{0xFF, 0xC2, 0x00, 0x0B, 0x08, byte(height >> 8), byte(height), byte(width >> 8), byte(width), 0x01, 0x01, 0x11, 0x00})
	b.Write([]byte{0xFF, 0xC4, 0x00, 0x14, 0x00, 1})
	for i := 0; i < 15; i++ {
		b.WriteByte(0)
	}
	b.WriteByte(0)
	b.Write([]byte{0xFF, 0xDA, 0x00, 0x08, 0x01, 0x01, 0x00, 0x00, 0x00, 0x00})
	for b.Len() < total {
		b.WriteByte(0)
	}
	return b.Bytes()
}

// budgetCorpus: header-claim bombs in streams whose raw length lies below,
// around and above the knee of the budget (256 KiB), where the cap of the
// variable part starts to matter.
func budgetCorpus() []corpusEntry {
	var res []corpusEntry
	knee := 256 << 10
	for _, n := range []int{100 << 10, knee - 1, knee + 1, 300 << 10, 512 << 10, 2 << 20} {
		for _, side := range []int{9000, 20000} {
			if side == 20000 && n != 512<<10 {
				continue
			}
			j := progressiveJPEG(side, side, n)
			obj := fmt.Sprintf("<< /Type /XObject /Subtype /Image /Width %d /Height %d /ColorSpace /DeviceGray /BitsPerComponent 8 /Filter /DCTDecode /Length %d >>\nstream\n%s\nendstream",
				side, side, len(j), string(j))
			res = append(res, corpusEntry{fmt.Sprintf("budget-dct-progressive-%d-raw%d", side, n), imageFile(obj)})
		}
	}
	for _, n := range []int{knee + 1, 512 << 10} {
		jb := jbig2Page(60000, 60000, 0)
		jb = append(jb, make([]byte, n-len(jb))...)
		res = append(res, corpusEntry{fmt.Sprintf("budget-jbig2-raw%d", n),
			imageFile(imageObj(60000, 60000, "/JBIG2Decode", "", jb))})
		body := bytes.Repeat([]byte{0xFF}, n)
		res = append(res, corpusEntry{fmt.Sprintf("budget-ccitt-raw%d", n),
			imageFile(imageObj(1<<20, 1<<20, "/CCITTFaxDecode", "<< /K -1 /Columns 1048576 /Rows 1048576 >>", body))})
		// Flate + predictor with a huge row
		res = append(res, corpusEntry{fmt.Sprintf("budget-lzw-predictor-raw%d", n),
			imageFile(imageObj(65536, 65536, "/LZWDecode", "<< /Predictor 12 /Columns 65536 /Colors 4 /BitsPerComponent 16 >>", bytes.Repeat([]byte{0x80, 0x0B, 0x60}, n/3)))})
	}
	return res
}
