// C05 harness: opening and walking arbitrary bytes never crashes, hangs, leaks
// or explodes.
//
// The orchestrator (no -worker flag) plans the run from the single seeded
// PRNG, starts worker processes, merges their results, re-runs every suspected
// hang / leak / slow / over-budget case three times in fresh processes, and
// writes cases.txt, impl.obs, stats.json, fails.jsonl for checks/c05.py.
//
// A worker runs its share of the plan.  Every case runs under a watchdog; a
// case that does not come back is recorded and the worker exits (a spinning
// goroutine cannot be stopped), the orchestrator restarts it behind that case.
//
// Kinds of cases
//
//	corpus   past failures and hand-made triggers (run first)
//	base     the valid generated documents
//	mutant   structure-aware mutations of the base documents
//	S P R W T O X   the families compared with the extracted Coq model
package main

import (
	"bufio"
	"bytes"
	"compress/zlib"
	"embed"
	"encoding/json"
	"fmt"
	"io"
	"math/rand/v2"
	"os"
	"os/exec"
	"path/filepath"
	"regexp"
	"runtime"
	"runtime/debug"
	"sort"
	"strconv"
	"strings"
	"sync"
	"time"

	"seehuhn.de/go/pdf"
	"seehuhn.de/go/pdf/font/glyphdata"
	"seehuhn.de/go/pdf/font/glyphdata/type1glyphs"
	"seehuhn.de/go/pdf/verifharness/common"
)

//go:embed corpus/*
var corpusFS embed.FS

type planItem struct {
	Kind  string // corpus, base, mutant, f7, or a family letter
	Seed  uint64
	Arg   int // corpus index / base document / family index
	Mode  int
	Label string
}

type corpusEntry struct {
	name string
	data []byte
}

// ---------------------------------------------------------------------------
// hand-made triggers

// objStmVariants damages every compressed object stream of d at several
// places: a flate body that is damaged late decodes for a while and then
// reports an error (the F16 trigger).
func objStmVariants(name string, d []byte) []corpusEntry {
	var res []corpusEntry
	for si, s := range findStreams(d) {
		if !s.isObjStm && !s.isXRef {
			continue
		}
		n := s.dataEnd - s.dataStart
		for _, pct := range []int{35, 50, 65, 80, 92} {
			at := s.dataStart + n*pct/100
			if at >= s.dataEnd {
				continue
			}
			m := bytes.Clone(d)
			m[at] ^= 0x5A
			res = append(res, corpusEntry{fmt.Sprintf("%s-stm%d-damage%d", name, si, pct), m})
		}
		// cut the compressed data short
		cut := n * 2 / 3
		res = append(res, corpusEntry{fmt.Sprintf("%s-stm%d-cut", name, si), splice(d, s.dataStart+cut, n-cut, nil)})
	}
	return res
}

// xrefBomb is a file whose cross-reference stream declares 2^24 entries in a
// body that deflates to a few kilobytes.
func xrefBomb() []byte {
	var body bytes.Buffer
	zw := zlib.NewWriter(&body)
	zero := make([]byte, 1<<16)
	for i := 0; i < 1<<8; i++ { // 16 MiB of zeros: 2^24 one-byte entries
		zw.Write(zero)
	}
	zw.Close()
	buf := &bytes.Buffer{}
	buf.WriteString("%PDF-1.7\n")
	o1 := buf.Len()
	buf.WriteString("1 0 obj\n<< /Type /Catalog /Pages 2 0 R >>\nendobj\n")
	buf.WriteString("2 0 obj\n<< /Type /Pages /Kids [] /Count 0 >>\nendobj\n")
	_ = o1
	x := buf.Len()
	fmt.Fprintf(buf, "3 0 obj\n<< /Type /XRef /Size 16777216 /W [1 0 0] /Root 1 0 R /Filter /FlateDecode /Length %d >>\nstream\n", body.Len())
	buf.Write(body.Bytes())
	buf.WriteString("\nendstream\nendobj\n")
	fmt.Fprintf(buf, "startxref\n%d\n%%%%EOF\n", x)
	return buf.Bytes()
}

// simpleFile writes objects and a classic cross-reference table.
func simpleFile(objs map[int]string, root int, trailerExtra string) []byte {
	buf := &bytes.Buffer{}
	buf.WriteString("%PDF-1.7\n")
	nums := make([]int, 0, len(objs))
	for n := range objs {
		nums = append(nums, n)
	}
	sort.Ints(nums)
	offs := map[int]int{}
	for _, n := range nums {
		offs[n] = buf.Len()
		fmt.Fprintf(buf, "%d 0 obj\n%s\nendobj\n", n, objs[n])
	}
	x := buf.Len()
	max := nums[len(nums)-1]
	fmt.Fprintf(buf, "xref\n0 %d\n", max+1)
	for n := 0; n <= max; n++ {
		if o, ok := offs[n]; ok {
			fmt.Fprintf(buf, "%010d 00000 n \n", o)
		} else {
			buf.WriteString("0000000000 65535 f \n")
		}
	}
	fmt.Fprintf(buf, "trailer\n<< /Size %d /Root %d 0 R%s >>\nstartxref\n%d\n%%%%EOF\n", max+1, root, strings.ReplaceAll(trailerExtra, "$X", strconv.Itoa(x)), x)
	return buf.Bytes()
}

func handMade() []corpusEntry {
	var res []corpusEntry
	page := "<< /Type /Page /Parent 2 0 R /MediaBox [0 0 100 100] >>"
	// /Prev pointing at its own section
	res = append(res, corpusEntry{"prev-self", simpleFile(map[int]string{
		1: "<< /Type /Catalog /Pages 2 0 R >>", 2: "<< /Type /Pages /Kids [3 0 R] /Count 1 >>", 3: page}, 1, " /Prev $X")})
	// page tree: a node is its own kid, kids shared, /Count lies
	res = append(res, corpusEntry{"pages-cycle", simpleFile(map[int]string{
		1: "<< /Type /Catalog /Pages 2 0 R >>",
		2: "<< /Type /Pages /Kids [2 0 R 4 0 R 3 0 R 4 0 R] /Count -7 /Rotate 90 >>",
		3: page,
		4: "<< /Type /Pages /Parent 3 0 R /Kids [2 0 R 3 0 R 4 0 R 5 0 R] /Count 99999999 /MediaBox [0 0 9 9] >>",
		5: page}, 1, "")})
	// reference chain: a cycle and an over-deep chain
	chain := map[int]string{1: "<< /Type /Catalog /Pages 2 0 R /Names 10 0 R /PageLabels 10 0 R >>", 2: "<< /Type /Pages /Kids [] /Count 0 >>"}
	for i := 10; i < 320; i++ {
		chain[i] = fmt.Sprintf("%d 0 R", i+1)
	}
	chain[320] = "<< /Dests 320 0 R >>"
	res = append(res, corpusEntry{"ref-chain-deep", simpleFile(chain, 1, "")})
	res = append(res, corpusEntry{"ref-cycle", simpleFile(map[int]string{
		1: "<< /Type /Catalog /Pages 2 0 R /Outlines 5 0 R /Names 3 0 R >>", 2: "<< /Type /Pages /Kids [3 0 R] /Count 1 >>",
		3: "4 0 R", 4: "3 0 R", 5: "<< /Type /Outlines /First 6 0 R /Last 6 0 R >>",
		6: "<< /Title (a) /Parent 5 0 R /Next 6 0 R /First 6 0 R >>"}, 1, "")})
	// outline and name tree loops
	res = append(res, corpusEntry{"outline-nametree-loops", simpleFile(map[int]string{
		1: "<< /Type /Catalog /Pages 2 0 R /Outlines 5 0 R /Names << /Dests 8 0 R >> /PageLabels 8 0 R >>",
		2: "<< /Type /Pages /Kids [] /Count 0 >>",
		5: "<< /Type /Outlines /First 6 0 R /Last 7 0 R /Count 2 >>",
		6: "<< /Title (a) /Parent 5 0 R /Next 7 0 R /First 7 0 R >>",
		7: "<< /Title (b) /Parent 5 0 R /Next 6 0 R /First 5 0 R /Prev 7 0 R >>",
		8: "<< /Kids [8 0 R 9 0 R 9 0 R] >>",
		9: "<< /Kids [8 0 R 9 0 R] /Limits [(a) (z)] >>"}, 1, "")})
	// object stream whose /N and /First lie
	for i, nf := range []string{"/N 10001 /First 10", "/N 10000 /First 0", "/N 5 /First -1", "/N 3 /First 99999999999", "/N -1 /First 4",
		"/N 2147483647 /First 10", "/N 99999999999 /First 10", "/N 10000 /First 10"} {
		body := "10 0 11 2 12 4 7 8 9"
		res = append(res, corpusEntry{fmt.Sprintf("objstm-lies-%d", i), objStmFile(nf, body)})
	}
	// a stream whose /Length is the stream itself, and two streams whose lengths
	// are each other
	res = append(res, corpusEntry{"length-cycle", simpleFile(map[int]string{
		1: "<< /Type /Catalog /Pages 2 0 R >>", 2: "<< /Type /Pages /Kids [3 0 R] /Count 1 >>",
		3: "<< /Type /Page /Parent 2 0 R /MediaBox [0 0 9 9] /Contents [5 0 R 6 0 R 7 0 R] >>",
		5: "<< /Length 5 0 R >>\nstream\nq Q\nendstream",
		6: "<< /Length 7 0 R >>\nstream\nq Q\nendstream",
		7: "<< /Length 6 0 R >>\nstream\nq Q\nendstream"}, 1, "")})
	res = append(res, corpusEntry{"xref-bomb", xrefBomb()})
	// huge xref table subsection with no data behind it
	res = append(res, corpusEntry{"xref-table-huge-subsection",
		[]byte("%PDF-1.4\n1 0 obj\n<< /Type /Catalog /Pages 1 0 R >>\nendobj\nxref\n0 16777216\n0000000000 65535 f \n0000000009 00000 n \ntrailer\n<< /Size 2 /Root 1 0 R >>\nstartxref\n58\n%%EOF\n")})
	return res
}

// objStmFile puts three objects into an uncompressed object stream with the
// given /N and /First text, referenced through a cross-reference stream.
func objStmFile(nfirst, body string) []byte {
	buf := &bytes.Buffer{}
	buf.WriteString("%PDF-1.7\n")
	o1 := buf.Len()
	buf.WriteString("1 0 obj\n<< /Type /Catalog /Pages 2 0 R >>\nendobj\n")
	o2 := buf.Len()
	buf.WriteString("2 0 obj\n<< /Type /Pages /Kids [] /Count 0 >>\nendobj\n")
	o3 := buf.Len()
	fmt.Fprintf(buf, "3 0 obj\n<< /Type /ObjStm %s /Length %d >>\nstream\n%s\nendstream\nendobj\n", nfirst, len(body), body)
	x := buf.Len()
	var data bytes.Buffer
	ent := func(tp, a, g int) { data.Write([]byte{byte(tp), byte(a >> 8), byte(a), byte(g)}) }
	ent(0, 0, 255)
	ent(1, o1, 0)
	ent(1, o2, 0)
	ent(1, o3, 0)
	ent(1, x, 0)
	ent(2, 3, 0)
	ent(2, 3, 1)
	ent(2, 3, 2)
	fmt.Fprintf(buf, "4 0 obj\n<< /Type /XRef /Size 13 /W [1 2 1] /Index [0 5 10 3] /Root 1 0 R /Length %d >>\nstream\n", data.Len())
	buf.Write(data.Bytes())
	fmt.Fprintf(buf, "\nendstream\nendobj\nstartxref\n%d\n%%%%EOF\n", x)
	return buf.Bytes()
}

var (
	corpusOnce sync.Once
	corpusList []corpusEntry
	bases      [][]byte
)

func loadCorpus() {
	corpusOnce.Do(func() {
		bases = append(baseDocs(), sinkFile(nil))
		ents, _ := corpusFS.ReadDir("corpus")
		for _, e := range ents {
			if d, err := corpusFS.ReadFile("corpus/" + e.Name()); err == nil && strings.HasSuffix(e.Name(), ".pdf") {
				corpusList = append(corpusList, corpusEntry{e.Name(), d})
			}
		}
		corpusList = append(corpusList, pipeObjStmCorpus()...)
		corpusList = append(corpusList, pipeXRefCorpus()...)
		corpusList = append(corpusList, fontCorpus("base1", bases[1])...)
		corpusList = append(corpusList, objStmCorpus()...)
		corpusList = append(corpusList, fontCorpus("base0", bases[0])...)
		corpusList = append(corpusList, dctCorpus("base0", bases[0])...)
		corpusList = append(corpusList, imageCorpus()...)
		corpusList = append(corpusList, sinkCorpus()...)
		corpusList = append(corpusList, inlineCorpus()...)
		corpusList = append(corpusList, pipeOuterCorpus()...)
		corpusList = append(corpusList, budgetCorpus()...)
		corpusList = append(corpusList, arityCorpus()...)
		for i, d := range bases {
			vs := objStmVariants(fmt.Sprintf("base%d", i), d)
			corpusList = append(corpusList, vs...)
		}
		corpusList = append(corpusList, handMade()...)
	})
}

// ---------------------------------------------------------------------------
// the plan

func plan(e *common.Env) []planItem {
	loadCorpus()
	var p []planItem
	// the two past defects first: F16 (hang) and F7 (goroutine leak)
	p = append(p, planItem{Kind: "f7", Label: "type1glyphs.FromStream x20 on a non-font stream"})
	for i, c := range corpusList {
		modes := []int{i % 3}
		if strings.HasPrefix(c.name, "hang") || !strings.HasPrefix(c.name, "base") {
			modes = []int{0, 1, 2}
		}
		for _, m := range modes {
			p = append(p, planItem{Kind: "corpus", Arg: i, Mode: m, Label: c.name})
		}
	}
	for i := range bases {
		for m := 0; m < 3; m++ {
			p = append(p, planItem{Kind: "base", Arg: i, Mode: m, Label: fmt.Sprintf("base%d", i)})
		}
	}
	// the enumerated token sequences of family N (Mode 1: Seed is the index)
	nIdx := -1
	for f := range families {
		if families[f].name == "N" {
			nIdx = f
		}
	}
	nEnum := len(nestEnums)
	enumNext := 0
	nMut := e.Pick(2600, 45000)
	nFam := e.Pick(600, 8000)
	// families and mutants interleaved, so that a time-limited run sees all
	for i := 0; i < nMut || i < nFam || enumNext < nEnum; i++ {
		// the enumerated token sequences, spread over the run
		for k := 0; k < 12 && enumNext < nEnum; k++ {
			p = append(p, planItem{Kind: "N", Arg: nIdx, Mode: 1, Seed: uint64(enumNext)})
			enumNext++
		}
		if i < nFam {
			for f := range families {
				p = append(p, planItem{Kind: families[f].name, Arg: f, Seed: e.Rand.Uint64()})
			}
		}
		if i < nMut {
			p = append(p, planItem{Kind: "mutant", Arg: i % len(bases), Mode: i % 3, Seed: e.Rand.Uint64()})
			if i%2 == 0 {
				p = append(p, planItem{Kind: "mutant", Arg: (i / 2) % len(bases), Mode: (i / 2) % 3, Seed: e.Rand.Uint64()})
			}
		}
	}
	return p
}

func familyCase(it planItem, R *rand.Rand) modelCase {
	if it.Kind == "N" && it.Mode == 1 {
		return enumNest(int(it.Seed))
	}
	return families[it.Arg].gen(R)
}

func caseBytes(it planItem, idx int) ([]byte, string) {
	switch it.Kind {
	case "corpus":
		return corpusList[it.Arg].data, it.Label
	case "base":
		return bases[it.Arg], it.Label
	case "mutant":
		R := rand.New(rand.NewPCG(it.Seed, uint64(idx)))
		other := bases[R.IntN(len(bases))]
		d, label := mutate(R, bases[it.Arg], other)
		if R.IntN(2) == 0 {
			d = repairXRef(d)
			label += "+repair"
		}
		return d, label
	}
	return nil, ""
}

// ---------------------------------------------------------------------------
// worker

type workerLine struct {
	caseResult
	Label string      `json:"label"`
	Case  string      `json:"case,omitempty"`
	Obs   string      `json:"obs,omitempty"`
	Viol  []violation `json:"viol,omitempty"`
	File  string      `json:"file,omitempty"`
}

func f7Direct(st *walkStats) {
	// 20 calls on a stream that is not a font: every call must release its
	// producer goroutine
	junk := bytes.Repeat([]byte("this is not a font program. "), 3000)
	for i := 0; i < 20; i++ {
		s := &glyphdata.Stream{
			Type: glyphdata.Type1,
			WriteTo: func(w io.Writer, _ *glyphdata.Lengths) error {
				_, err := w.Write(junk)
				return err
			},
		}
		_, err := type1glyphs.FromStream(s)
		st.note(err)
		st.FontFiles++
	}
}

func memGuard(limit uint64, onExceed func(heap uint64)) {
	go func() {
		var m runtime.MemStats
		for {
			time.Sleep(200 * time.Millisecond)
			runtime.ReadMemStats(&m)
			if m.HeapAlloc > limit {
				onExceed(m.HeapAlloc)
			}
		}
	}()
}

func runWorker(e *common.Env, k, w, from int, outPath string) {
	// unbounded recursion should die quickly and cheaply (the default limit is 1 GB)
	debug.SetMaxStack(128 << 20)
	p := plan(e)
	out, err := os.OpenFile(outPath, os.O_APPEND|os.O_CREATE|os.O_WRONLY, 0o644)
	if err != nil {
		panic(err)
	}
	var mu sync.Mutex
	emit := func(l *workerLine) {
		mu.Lock()
		defer mu.Unlock()
		b, _ := json.Marshal(l)
		out.Write(append(b, '\n'))
	}
	deadline := time.Now().Add(time.Duration(e.Pick(45, 600)) * time.Second)
	if s := os.Getenv("VERIF_C05_BUDGET_S"); s != "" {
		if v, err := strconv.Atoi(s); err == nil {
			deadline = time.Now().Add(time.Duration(v) * time.Second)
		}
	}
	var cur *workerLine
	var curData []byte
	abort := func(status string) {
		mu.Lock()
		l := cur
		d := curData
		mu.Unlock()
		if l != nil {
			l.Status = status
			if d != nil {
				l.File = filepath.Join(e.Dir, fmt.Sprintf("suspect-%d.pdf", l.Idx))
				os.WriteFile(l.File, d, 0o644)
			}
			emit(l)
		}
		out.Sync()
		os.Exit(3)
	}
	memGuard(4<<30, func(uint64) { abort("alloc") })
	time.Sleep(20 * time.Millisecond)
	goroutineBase = runtime.NumGoroutine()

	for idx := from; idx < len(p); idx++ {
		if idx%w != k {
			continue
		}
		// only the random mutants are subject to the time budget: the corpus and
		// the model-compared families always run completely, whatever the load
		if p[idx].Kind == "mutant" && time.Now().After(deadline) {
			// leave a trace: the supervisor blames the case after the last line
			// when a worker dies
			sk := &workerLine{}
			sk.Idx, sk.Kind, sk.Status = idx, "mutant", "skipped"
			emit(sk)
			continue
		}
		it := p[idx]
		l := &workerLine{}
		l.Idx, l.Kind, l.Mode, l.Label = idx, it.Kind, it.Mode, it.Label
		switch it.Kind {
		case "f7":
			mu.Lock()
			cur, curData = l, nil
			mu.Unlock()
			runCase(&l.caseResult, f7Direct, func() { abort("timeout") })
		case "corpus", "base", "mutant":
			d, label := caseBytes(it, idx)
			l.Label = label
			l.Len = len(d)
			mu.Lock()
			cur, curData = l, d
			mu.Unlock()
			runCase(&l.caseResult, func(st *walkStats) { walk(d, pdf.ReaderErrorHandling(it.Mode), st) }, func() { abort("timeout") })
			l.Viol = l.Stats.Viol
			l.Stats.Viol = nil
			if l.Status != "ok" || len(l.Viol) > 0 {
				l.File = filepath.Join(e.Dir, fmt.Sprintf("suspect-%d.pdf", idx))
				os.WriteFile(l.File, d, 0o644)
			}
		default:
			R := rand.New(rand.NewPCG(it.Seed, uint64(idx)))
			mc := familyCase(it, R)
			l.Case = mc.Line
			l.Label = mc.Class
			l.Len = len(mc.Line)
			mu.Lock()
			cur, curData = l, nil
			mu.Unlock()
			runCase(&l.caseResult, func(st *walkStats) {
				l.Obs, l.Viol = mc.Run()
			}, func() { abort("timeout") })
			if mc.NonTrivial {
				l.Stats.Opened = "nontrivial"
			}
		}
		mu.Lock()
		cur = nil
		mu.Unlock()
		emit(l)
	}
	out.Sync()
	os.Exit(0)
}

// runOne re-runs a single suspected case in a fresh process (confirmation).
func runOne(e *common.Env, idx int) {
	debug.SetMaxStack(128 << 20)
	p := plan(e)
	it := p[idx]
	l := &workerLine{}
	l.Idx, l.Kind, l.Mode, l.Label = idx, it.Kind, it.Mode, it.Label
	report := func() {
		b, _ := json.Marshal(l)
		fmt.Println(string(b))
	}
	hang := func() {
		l.Status = "timeout"
		report()
		os.Exit(0)
	}
	memGuard(4<<30, func(heap uint64) {
		l.Status = "alloc"
		l.Alloc = heap
		l.BudgetMem = allocBudget(l.Len)
		report()
		os.Exit(0)
	})
	time.Sleep(20 * time.Millisecond)
	goroutineBase = runtime.NumGoroutine()
	switch it.Kind {
	case "f7":
		runCase(&l.caseResult, f7Direct, hang)
	case "corpus", "base", "mutant":
		d, _ := caseBytes(it, idx)
		l.Len = len(d)
		runCase(&l.caseResult, func(st *walkStats) { walk(d, pdf.ReaderErrorHandling(it.Mode), st) }, hang)
	default:
		R := rand.New(rand.NewPCG(it.Seed, uint64(idx)))
		mc := familyCase(it, R)
		runCase(&l.caseResult, func(st *walkStats) { l.Obs, l.Viol = mc.Run() }, hang)
	}
	report()
	os.Exit(0)
}

// ---------------------------------------------------------------------------
// orchestrator

func readLines(path string) []workerLine {
	f, err := os.Open(path)
	if err != nil {
		return nil
	}
	defer f.Close()
	var res []workerLine
	sc := bufio.NewScanner(f)
	sc.Buffer(make([]byte, 1<<20), 1<<28)
	for sc.Scan() {
		var l workerLine
		if json.Unmarshal(sc.Bytes(), &l) == nil {
			res = append(res, l)
		}
	}
	return res
}

func main() {
	e := common.New(5)
	args := os.Args[1:]
	if len(args) >= 2 && args[0] == "-dir" {
		args = args[2:]
	}
	if len(args) >= 5 && args[0] == "-worker" {
		k, _ := strconv.Atoi(args[1])
		w, _ := strconv.Atoi(args[2])
		from, _ := strconv.Atoi(args[3])
		runWorker(e, k, w, from, args[4])
		return
	}
	if len(args) >= 2 && args[0] == "-one" {
		idx, _ := strconv.Atoi(args[1])
		runOne(e, idx)
		return
	}
	if len(args) >= 1 && args[0] == "-list" {
		for i, it := range plan(e) {
			if it.Kind == "corpus" || it.Kind == "f7" || it.Kind == "base" {
				fmt.Println(i, it.Kind, it.Mode, it.Label)
			}
		}
		return
	}
	if len(args) >= 2 && args[0] == "-dump" {
		// write the input of case idx to stdout (for replay)
		idx, _ := strconv.Atoi(args[1])
		p := plan(e)
		d, _ := caseBytes(p[idx], idx)
		os.Stdout.Write(d)
		return
	}

	p := plan(e)
	nw := 6
	if s := os.Getenv("VERIF_C05_WORKERS"); s != "" {
		if v, err := strconv.Atoi(s); err == nil && v > 0 {
			nw = v
		}
	}
	self, _ := os.Executable()
	var wg sync.WaitGroup
	hangs := make([]int, nw)
	for k := 0; k < nw; k++ {
		wg.Add(1)
		go func(k int) {
			defer wg.Done()
			outPath := filepath.Join(e.Dir, fmt.Sprintf("worker-%d.jsonl", k))
			os.Remove(outPath)
			from := 0
			// a hang costs the watchdog's 10 s, a crash costs nothing: tolerate
			// few of the former and many of the latter before giving up
			slowRestarts, crashRestarts := 0, 0
			for slowRestarts < 3 && crashRestarts < 15 {
				cmd := exec.Command(self, "-dir", e.Dir, "-worker", strconv.Itoa(k), strconv.Itoa(nw), strconv.Itoa(from), outPath)
				// a fatal trace is long; the confirmation run captures it again
				err := cmd.Run()
				if err == nil {
					return
				}
				// the worker gave up on a case (or crashed): continue behind the
				// last case it reported
				ls := readLines(outPath)
				last := from - 1
				for _, l := range ls {
					if l.Idx > last {
						last = l.Idx
					}
				}
				if len(ls) == 0 || (ls[len(ls)-1].Status != "timeout" && ls[len(ls)-1].Status != "alloc") {
					crashRestarts++
				} else {
					slowRestarts++
				}
				if len(ls) == 0 || (ls[len(ls)-1].Status != "timeout" && ls[len(ls)-1].Status != "alloc") {
					// crashed without reporting: blame the next case of this worker
					next := last + 1
					for next%nw != k {
						next++
					}
					if next < len(p) {
						f, _ := os.OpenFile(outPath, os.O_APPEND|os.O_CREATE|os.O_WRONLY, 0o644)
						l := workerLine{Label: "worker crashed: " + err.Error()}
						l.Idx, l.Kind, l.Status = next, p[next].Kind, "crash"
						b, _ := json.Marshal(l)
						f.Write(append(b, '\n'))
						f.Close()
						last = next
					}
				}
				hangs[k]++
				from = last + 1
			}
		}(k)
	}
	wg.Wait()

	var all []workerLine
	for k := 0; k < nw; k++ {
		all = append(all, readLines(filepath.Join(e.Dir, fmt.Sprintf("worker-%d.jsonl", k)))...)
	}
	sort.Slice(all, func(i, j int) bool { return all[i].Idx < all[j].Idx })

	// confirmation of suspects: three fresh processes each
	confirm := func(l workerLine) (bool, workerLine) {
		// fresh processes, one after the other (running them side by side would
		// only add load)
		rs := make([]workerLine, 3)
		for i := range rs {
			cmd := exec.Command(self, "-dir", e.Dir, "-one", strconv.Itoa(l.Idx))
			outb, err := cmd.Output()
			if err != nil || json.Unmarshal(bytes.TrimSpace(outb), &rs[i]) != nil {
				rs[i].Status = "crash"
				rs[i].Panic = fmt.Sprintf("confirmation run failed: %v: %s", err, string(outb))
			}
			if rs[i].Status == "ok" {
				return false, rs[i] // not reproduced: no need for the other runs
			}
		}
		// hang, slow and over-budget are one class (which one shows depends on
		// the load of the machine); a leak must be a leak every time
		resource := func(s string) bool { return s == "timeout" || s == "slow" || s == "alloc" }
		worst := rs[0]
		for _, r := range rs {
			if r.Status == l.Status || (resource(r.Status) && resource(l.Status)) {
				if r.Status != "timeout" {
					worst = r
				}
				continue
			}
			return false, r
		}
		return true, worst
	}

	var maxMsPerKB, maxAllocPerByte float64
	var maxMs float64
	var maxAlloc uint64
	statusCount := map[string]int{}
	confirmed := map[string]int{}
	tried := map[string]int{}
	unconfirmed := 0
	for _, l := range all {
		statusCount[l.Status]++
		if l.Status == "skipped" {
			continue
		}
		isWalk := l.Kind == "corpus" || l.Kind == "base" || l.Kind == "mutant" || l.Kind == "f7"
		if isWalk {
			st := l.Stats
			nontrivial := st.Opened != "no" && (st.Objects > 0 || st.Pages > 0)
			class := l.Kind + ":" + st.Opened
			e.Count(nontrivial, fmt.Sprintf("%d/%d/%s", l.Idx, l.Mode, l.Label), class)
			if l.Kind == "mutant" {
				e.Dist["mutation:"+strings.SplitN(strings.SplitN(l.Label, "+", 2)[0], ":", 2)[0]]++
			}
			e.Sample(5, map[string]any{"kind": l.Kind, "label": l.Label, "mode": l.Mode, "len": l.Len, "ms": l.Millis, "alloc": l.Alloc, "stats": st})
			if l.Status == "ok" && l.Len > 0 {
				if v := l.CPUMillis / (float64(l.Len)/1024 + 1); v > maxMsPerKB {
					maxMsPerKB = v
				}
				if v := float64(l.Alloc) / float64(l.Len+1); v > maxAllocPerByte {
					maxAllocPerByte = v
				}
				if l.CPUMillis > maxMs {
					maxMs = l.CPUMillis
				}
				if l.Alloc > maxAlloc {
					maxAlloc = l.Alloc
				}
			}
		} else if l.Case != "" {
			e.Count(l.Stats.Opened == "nontrivial", l.Case, "family:"+l.Kind)
			if l.Status == "ok" || l.Status == "panic" {
				e.Line("cases.txt", "c%d %s", l.Idx, l.Case)
				if l.Status == "ok" {
					e.Line("impl.obs", "c%d %s", l.Idx, l.Obs)
				} else {
					e.Line("impl.obs", "c%d panic", l.Idx)
				}
			}
			if l.Kind == "S" || l.Kind == "P" {
				e.Sample(8, map[string]any{"family": l.Kind, "case": trunc(l.Case, 200), "impl": trunc(l.Obs, 200)})
			}
		}
		for _, v := range l.Viol {
			if l.Case == "" {
				e.Fail(v.Signature, v.What, failCase(e, l))
				continue
			}
			e.Fail(v.Signature, v.What, map[string]any{"idx": l.Idx, "kind": l.Kind, "case": trunc(l.Case, 4000),
				"replay": fmt.Sprintf("harness c05 -one %d (VERIF_SEED=%d VERIF_TIER as in this run)", l.Idx, e.Seed)})
		}
		switch l.Status {
		case "ok":
		case "panic":
			sig := "panic:" + panicSite(l.Stack)
			if confirmed[sig] < 4 {
				e.Fail(sig, "panic: "+trunc(l.Panic, 300), failCase(e, l))
			}
			confirmed[sig]++
		case "crash":
			// a fatal error (stack overflow, out of memory ...) cannot be recovered
			// in-process: run the case alone and look at how the process dies
			if confirmed["fatal-runs"] >= 12 {
				continue
			}
			confirmed["fatal-runs"]++
			cmd := exec.Command(self, "-dir", e.Dir, "-one", strconv.Itoa(l.Idx))
			var stderr bytes.Buffer
			cmd.Stderr = &stderr
			_, err := cmd.Output()
			if err == nil {
				unconfirmed++
				continue
			}
			first := strings.SplitN(strings.TrimSpace(stderr.String()), "\n", 2)[0]
			sig := "fatal-crash"
			switch {
			case strings.Contains(stderr.String(), "stack overflow") || strings.Contains(stderr.String(), "stack exceeds"):
				sig = "fatal-crash:stack-overflow"
			case strings.Contains(stderr.String(), "out of memory"):
				sig = "fatal-crash:out-of-memory"
			}
			l.Stack = fatalFrames(stderr.String())
			if sig == "fatal-crash:stack-overflow" && strings.Contains(l.Stack, "lengthGetter.Get") &&
				strings.Contains(l.Stack, "ReadStreamData") && strings.Contains(l.Stack, "getFromObjStm") {
				// the recursion through the indirect /Length of a stream-shaped
				// member of an object stream (findings/C05.json)
				sig = "fatal-crash:stack-overflow:indirect-length-of-stream-shaped-objstm-member"
			}
			if confirmed[sig] >= 3 {
				continue
			}
			confirmed[sig]++
			if l.File == "" {
				if d, _ := caseBytes(p[l.Idx], l.Idx); d != nil {
					l.File = filepath.Join(e.Dir, fmt.Sprintf("suspect-%d.pdf", l.Idx))
					os.WriteFile(l.File, d, 0o644)
					l.Len = len(d)
				}
			}
			l.Label = p[l.Idx].Label
			e.Fail(sig, "the process died (not a recoverable panic): "+trunc(first, 200), failCase(e, l))
		default: // timeout, leak, slow, alloc: measured facts, confirm before reporting
			sig := map[string]string{"timeout": "hang", "leak": "goroutine-leak", "slow": "slow", "alloc": "alloc-over-budget"}[l.Status]
			if l.Case != "" {
				sig += ":" + l.Kind
			}
			if l.Status == "leak" && xrefPipeLabel.MatchString(l.Label) {
				// readXRefStream does not close the decoded cross-reference stream (findings/C05.json)
				sig = "goroutine-leak:xref-stream-behind-pipe"
			}
			if confirmed[sig] >= 1 || tried[sig] >= 3 {
				continue // one confirmed failing input of a kind is enough; each costs 3 fresh runs
			}
			tried[sig]++
			ok, r := confirm(l)
			if !ok {
				unconfirmed++
				continue
			}
			if l.Status != "leak" {
				// name the signature after what the fresh processes showed
				sig = map[string]string{"timeout": "hang", "slow": "slow", "alloc": "alloc-over-budget"}[r.Status]
				if l.Case != "" {
					sig += ":" + l.Kind
				}
			}
			confirmed[sig]++
			what := map[string]string{
				"timeout": fmt.Sprintf("no return after %.1f s of CPU time (limit %s for %d bytes) and %.1f s of wall time (guard %s), in 3 of 3 fresh processes run one after the other",
					r.CPUMillis/1000, hangCPU(l.Len), l.Len, r.Millis/1000, hangWall),
				"leak":  fmt.Sprintf("goroutines %d -> %d after the call returned; left over and parked (none runnable): %s (3 of 3 fresh processes)", r.GorBefore, r.GorAfter, trunc(r.Leaked, 200)),
				"slow":  fmt.Sprintf("%.0f ms of CPU time for %d bytes, budget %.0f ms; TotalAlloc %d (3 of 3 fresh processes over budget or hanging)", r.CPUMillis, l.Len, r.BudgetTime, r.Alloc),
				"alloc": fmt.Sprintf("TotalAlloc %d bytes for %d input bytes, budget %d (3 of 3 fresh processes over budget or hanging)", r.Alloc, l.Len, r.BudgetMem),
			}[r.Status]
			e.Fail(sig, what, failCase(e, l))
		}
	}
	restarts := 0
	for _, h := range hangs {
		restarts += h
	}
	e.Finish("walk cases: nontrivial = the bytes could be opened (directly or after SequentialScan) and at least one object or page was reached; family cases: nontrivial as flagged by the generator (error-terminated sources, multi-section chains, all graph cases)",
		map[string]any{
			"planned_cases":            len(p),
			"executed_cases":           len(all) - statusCount["skipped"],
			"status_counts":            statusCount,
			"worker_restarts":          restarts,
			"unconfirmed_suspects":     unconfirmed,
			"measured_max_ms":          maxMs,
			"measured_max_alloc_bytes": maxAlloc,
			"measured_max_ms_per_kb":   maxMsPerKB,
			"measured_max_alloc_per_b": maxAllocPerByte,
			"budget_time":              "CPU time (user+sys of the worker process) 3000 ms + 0.15 ms per input byte; a case is given up after twice that + 3 s of CPU, or 90 s of wall time without returning (suspect, confirmed only by 3 sequential fresh re-runs)",
			"budget_alloc":             "TotalAlloc <= 512 MiB + 16 KiB per input byte; heap guard 4 GiB",
			"measured_not_proved":      "wall time, allocation and goroutine counts are measurements on the implementation, not theorems",
		})
}

// fatalFrames picks the repeating part of a fatal stack trace.
func fatalFrames(tr string) string {
	var out []string
	for _, ln := range strings.Split(tr, "\n") {
		if strings.HasPrefix(ln, "seehuhn.de/go/pdf") || strings.HasPrefix(ln, "main.") {
			out = append(out, ln)
			if len(out) >= 40 {
				break
			}
		}
	}
	return strings.Join(out, "\n")
}

var xrefPipeLabel = regexp.MustCompile(`^pipe-xref-|pipe:[a-z+]+:xref`)

func trunc(s string, n int) string {
	if len(s) > n {
		return s[:n] + "..."
	}
	return s
}

func failCase(e *common.Env, l workerLine) map[string]any {
	c := map[string]any{
		"idx": l.Idx, "kind": l.Kind, "mode": l.Mode, "label": l.Label, "len": l.Len,
		"replay": fmt.Sprintf("VERIF_SEED=%d VERIF_TIER=%s harness/c05 -one %d   (input bytes: -dump %d)", e.Seed, tierName(e), l.Idx, l.Idx),
	}
	if l.Stack != "" {
		c["stack"] = l.Stack
	}
	if l.File != "" {
		if d, err := os.ReadFile(l.File); err == nil && len(d) <= 64<<10 {
			c["input_hex"] = common.Hex(d)
		}
		c["file"] = l.File
	}
	if l.Case != "" {
		c["case"] = trunc(l.Case, 4000)
	}
	return c
}

func tierName(e *common.Env) string {
	if e.Thorough {
		return "thorough"
	}
	return "quick"
}

// panicSite names the first frame of the stack below the runtime.
func panicSite(stack string) string {
	lines := strings.Split(stack, "\n")
	for _, ln := range lines {
		ln = strings.TrimSpace(ln)
		if ln == "" || strings.HasPrefix(ln, "panic(") || strings.HasPrefix(ln, "runtime.") || strings.HasPrefix(ln, "/") ||
			strings.HasPrefix(ln, "goroutine") || strings.Contains(ln, "/runtime/") || strings.Contains(ln, "runtime/panic.go") {
			continue
		}
		if i := strings.LastIndex(ln, "("); i > 0 {
			ln = ln[:i]
		}
		return ln
	}
	return "unknown"
}
