package main

import (
	"bytes"
	"fmt"
	"math/rand/v2"
	"regexp"
	"strconv"
)

// Structure-aware mutation of valid files.  Every mutator works on the bytes
// but knows where the interesting structure is: keys whose values steer
// loops and allocations, indirect references, stream bodies, the
// cross-reference sections.

var keys = []string{
	"/Length", "/Prev", "/Size", "/W", "/Index", "/N", "/First", "/Filter", "/DecodeParms",
	"/Kids", "/Parent", "/Count", "/Type", "/Root", "/Columns", "/Predictor", "/Colors",
	"/BitsPerComponent", "/EarlyChange", "/Next", "/Last", "/Names", "/Limits", "/Contents",
	"/Resources", "/Font", "/FontFile", "/FontFile2", "/FontFile3", "/Length1", "/Length2",
	"/Encoding", "/Widths", "/FirstChar", "/LastChar", "/ToUnicode", "/XRefStm", "/Extends",
	"/Outlines", "/Dests", "/MediaBox", "/Subtype", "/FontDescriptor", "/Info", "/ID", "/Title",
}

var tokens = []string{
	"obj", "endobj", "stream", "endstream", "xref", "trailer", "startxref", " R", "<<", ">>", "[", "]",
	"/FlateDecode", "/LZWDecode", "/ASCII85Decode", "/ASCIIHexDecode", "/RunLengthDecode",
	"/ObjStm", "/XRef", "/Pages", "/Page", "/Catalog", "/Font",
}

var extremes = []string{
	" 0", " -1", " 1", " 99999999999", " 2147483647", " 2147483648", " 4294967296", " 16777215", " 16777216",
	" 9223372036854775807", " 9223372036854775808", " -9223372036854775808", " 1 0 R", " 16777215 0 R",
	" [1 2 3]", " [0 0 0]", " [8 8 8]", " [1 0 0]", " [0 16777216]", " null", " <<>>", " /Name", " (str)", " 1.5", " true",
	" [ 1 0 R 1 0 R 1 0 R ]", " 10000", " 10001", " 65535", " 65536", " 255", " 256", " 257",
}

var (
	refPat    = regexp.MustCompile(`(\d+) (\d+) R`)
	objPat    = regexp.MustCompile(`(\d+) (\d+) obj`)
	streamPat = regexp.MustCompile(`stream\r?\n`)
	xrefEntry = regexp.MustCompile(`\d{10} \d{5} [nf]`)
	sxPat     = regexp.MustCompile(`startxref\s+(\d+)`)
)

type streamLoc struct {
	objStart, dictEnd, dataStart, dataEnd int
	isObjStm, isXRef                      bool
}

// findStreams locates the stream bodies of a file (crudely, on the bytes).
func findStreams(d []byte) []streamLoc {
	var res []streamLoc
	for _, m := range streamPat.FindAllIndex(d, -1) {
		if m[0] >= 3 && string(d[m[0]-3:m[0]]) == "end" {
			continue
		}
		end := bytes.Index(d[m[1]:], []byte("endstream"))
		if end < 0 {
			continue
		}
		objStart := bytes.LastIndex(d[:m[0]], []byte(" obj"))
		if objStart < 0 {
			objStart = 0
		}
		dict := d[objStart:m[0]]
		res = append(res, streamLoc{
			objStart: objStart, dictEnd: m[0], dataStart: m[1], dataEnd: m[1] + end,
			isObjStm: bytes.Contains(dict, []byte("/ObjStm")),
			isXRef:   bytes.Contains(dict, []byte("/XRef")),
		})
	}
	return res
}

func objectNumbers(d []byte) []int {
	var res []int
	for _, m := range objPat.FindAllSubmatch(d, 400) {
		n, _ := strconv.Atoi(string(m[1]))
		res = append(res, n)
	}
	return res
}

func splice(d []byte, at, del int, ins []byte) []byte {
	if at > len(d) {
		at = len(d)
	}
	if at+del > len(d) {
		del = len(d) - at
	}
	out := make([]byte, 0, len(d)-del+len(ins))
	out = append(out, d[:at]...)
	out = append(out, ins...)
	out = append(out, d[at+del:]...)
	return out
}

// skipValue returns the length of the value that follows a key at d[j:]
// (a number, a reference, a name, or a bracketed group up to a small size).
func skipValue(d []byte, j int) int {
	k := j
	for k < len(d) && (d[k] == ' ' || d[k] == '\n' || d[k] == '\r') {
		k++
	}
	if k >= len(d) {
		return 0
	}
	switch d[k] {
	case '[':
		if e := bytes.IndexByte(d[k:min(len(d), k+400)], ']'); e >= 0 {
			return k + e + 1 - j
		}
	case '<':
		if k+1 < len(d) && d[k+1] == '<' {
			if e := bytes.Index(d[k:min(len(d), k+600)], []byte(">>")); e >= 0 {
				return k + e + 2 - j
			}
		}
	}
	if m := refPat.FindIndex(d[k:min(len(d), k+30)]); m != nil && m[0] == 0 {
		return k + m[1] - j
	}
	e := k
	for e < len(d) && e < k+40 && d[e] != ' ' && d[e] != '\n' && d[e] != '\r' && d[e] != '/' && d[e] != '>' && (e == k || d[e] != '[') {
		e++
	}
	return e - j
}

func allIndex(d []byte, pat string) []int {
	var res []int
	off := 0
	for len(res) < 200 {
		i := bytes.Index(d[off:], []byte(pat))
		if i < 0 {
			break
		}
		res = append(res, off+i)
		off += i + len(pat)
	}
	return res
}

// mutators; each returns the mutated bytes and a class label.
type mutator func(R *rand.Rand, d []byte, other []byte) ([]byte, string)

func mFlip(R *rand.Rand, d, _ []byte) ([]byte, string) {
	d = bytes.Clone(d)
	for k := 1 + R.IntN(3); k > 0 && len(d) > 0; k-- {
		d[R.IntN(len(d))] ^= byte(1 << R.IntN(8))
	}
	return d, "flip"
}

func mTruncate(R *rand.Rand, d, _ []byte) ([]byte, string) {
	if len(d) < 20 {
		return d, "truncate"
	}
	switch R.IntN(3) {
	case 0:
		return bytes.Clone(d[:R.IntN(len(d))]), "truncate"
	case 1: // cut inside the last kilobyte (trailer, startxref)
		return bytes.Clone(d[:len(d)-1-R.IntN(min(1024, len(d)-1))]), "truncate"
	default: // cut off the head
		return bytes.Clone(d[R.IntN(len(d)/2):]), "truncate"
	}
}

func mKeyValue(R *rand.Rand, d, _ []byte) ([]byte, string) {
	key := keys[R.IntN(len(keys))]
	locs := allIndex(d, key)
	if len(locs) == 0 {
		return mFlip(R, d, nil)
	}
	i := locs[R.IntN(len(locs))]
	j := i + len(key)
	repl := extremes[R.IntN(len(extremes))]
	if R.IntN(4) > 0 {
		// replace the value
		return splice(d, j, skipValue(d, j), []byte(repl)), "key:" + key
	}
	// insert in front of the value (the old value becomes garbage)
	return splice(d, j, 0, []byte(repl)), "key:" + key
}

func mRewire(R *rand.Rand, d, _ []byte) ([]byte, string) {
	ms := refPat.FindAllSubmatchIndex(d, 600)
	if len(ms) == 0 {
		return mFlip(R, d, nil)
	}
	nums := objectNumbers(d)
	m := ms[R.IntN(len(ms))]
	var target int
	switch R.IntN(4) {
	case 0: // to the object that contains the reference (self loop)
		before := objPat.FindAllSubmatch(d[:m[0]], -1)
		if len(before) > 0 {
			target, _ = strconv.Atoi(string(before[len(before)-1][1]))
		}
	case 1: // to another reference's target (sharing, cycles)
		o := ms[R.IntN(len(ms))]
		target, _ = strconv.Atoi(string(d[o[2]:o[3]]))
	case 2: // to any existing object
		if len(nums) > 0 {
			target = nums[R.IntN(len(nums))]
		}
	default: // to a missing object
		target = 5000 + R.IntN(100)
	}
	return splice(d, m[2], m[3]-m[2], []byte(strconv.Itoa(target))), "rewire"
}

func mDupChunk(R *rand.Rand, d, _ []byte) ([]byte, string) {
	if len(d) < 30 {
		return d, "dup"
	}
	a := R.IntN(len(d) - 10)
	b := a + R.IntN(min(800, len(d)-a))
	return splice(d, b, 0, d[a:b]), "dup"
}

func mDelChunk(R *rand.Rand, d, _ []byte) ([]byte, string) {
	if len(d) < 30 {
		return d, "del"
	}
	a := R.IntN(len(d) - 10)
	return splice(d, a, R.IntN(min(300, len(d)-a)), nil), "del"
}

func mSplice(R *rand.Rand, d, other []byte) ([]byte, string) {
	if len(other) < 30 || len(d) < 30 {
		return mDupChunk(R, d, nil)
	}
	a := R.IntN(len(other) - 10)
	b := a + R.IntN(min(1500, len(other)-a))
	at := R.IntN(len(d))
	del := 0
	if R.IntN(2) == 0 {
		del = b - a
	}
	return splice(d, at, del, other[a:b]), "splice"
}

func mTokenSwap(R *rand.Rand, d, _ []byte) ([]byte, string) {
	t1, t2 := tokens[R.IntN(len(tokens))], tokens[R.IntN(len(tokens))]
	locs := allIndex(d, t1)
	if len(locs) == 0 {
		return mFlip(R, d, nil)
	}
	i := locs[R.IntN(len(locs))]
	return splice(d, i, len(t1), []byte(t2)), "token"
}

// mStreamDamage damages the body of a stream: compressed object streams and
// cross-reference streams are preferred.  A flate body that is damaged in its
// later part decodes for a while and then fails - the F16 trigger.
func mStreamDamage(R *rand.Rand, d, _ []byte) ([]byte, string) {
	ss := findStreams(d)
	if len(ss) == 0 {
		return mFlip(R, d, nil)
	}
	var pref []streamLoc
	for _, s := range ss {
		if s.isObjStm || s.isXRef {
			pref = append(pref, s)
		}
	}
	s := ss[R.IntN(len(ss))]
	if len(pref) > 0 && R.IntN(3) > 0 {
		s = pref[R.IntN(len(pref))]
	}
	n := s.dataEnd - s.dataStart
	if n < 4 {
		return mFlip(R, d, nil)
	}
	label := "stream"
	if s.isObjStm {
		label = "stream:objstm"
	} else if s.isXRef {
		label = "stream:xref"
	}
	d = bytes.Clone(d)
	switch R.IntN(5) {
	case 0, 1: // damage bytes in the later part
		at := s.dataStart + n/3 + R.IntN(n-n/3)
		for k := 0; k < 1+R.IntN(4) && at+k < s.dataEnd; k++ {
			d[at+k] ^= byte(1 + R.IntN(255))
		}
		return d, label + ":damage"
	case 2: // cut the body short (keeping /Length: the reader runs into endstream)
		cut := R.IntN(n)
		return splice(d, s.dataStart+cut, n-cut, nil), label + ":cut"
	case 3: // zero a run
		at := s.dataStart + R.IntN(n)
		for k := 0; k < 8 && at+k < s.dataEnd; k++ {
			d[at+k] = 0
		}
		return d, label + ":zero"
	default: // exchange the bodies of two streams
		t := ss[R.IntN(len(ss))]
		if t.dataStart == s.dataStart {
			return d, label + ":same"
		}
		a, b := s, t
		if a.dataStart > b.dataStart {
			a, b = b, a
		}
		if a.dataEnd > b.dataStart {
			// "stream" found inside another stream's data: the regions overlap
			return d, label + ":same"
		}
		out := append([]byte{}, d[:a.dataStart]...)
		out = append(out, d[b.dataStart:b.dataEnd]...)
		out = append(out, d[a.dataEnd:b.dataStart]...)
		out = append(out, d[a.dataStart:a.dataEnd]...)
		out = append(out, d[b.dataEnd:]...)
		return out, label + ":swap"
	}
}

func mXRef(R *rand.Rand, d, _ []byte) ([]byte, string) {
	switch R.IntN(4) {
	case 0: // startxref value
		m := sxPat.FindAllSubmatchIndex(d, -1)
		if len(m) == 0 {
			break
		}
		x := m[R.IntN(len(m))]
		var v int
		switch R.IntN(4) {
		case 0:
			v = R.IntN(len(d) + 10)
		case 1:
			v = 0
		case 2: // point at another cross-reference section or object
			if locs := allIndex(d, "xref"); len(locs) > 0 {
				v = locs[R.IntN(len(locs))]
			}
		default:
			v = len(d) - R.IntN(40)
		}
		return splice(d, x[2], x[3]-x[2], []byte(strconv.Itoa(v))), "xref:startxref"
	case 1: // an offset in a cross-reference table
		m := xrefEntry.FindAllIndex(d, -1)
		if len(m) == 0 {
			break
		}
		x := m[R.IntN(len(m))]
		v := R.IntN(len(d))
		if R.IntN(2) == 0 {
			if o := objPat.FindAllIndex(d, -1); len(o) > 0 {
				v = o[R.IntN(len(o))][0]
			}
		}
		return splice(d, x[0], 10, []byte(fmt.Sprintf("%010d", v))), "xref:entry"
	case 2: // /Prev to a section that leads back
		locs := allIndex(d, "xref")
		m := sxPat.FindAllSubmatchIndex(d, -1)
		if len(locs) == 0 || len(m) == 0 {
			break
		}
		i := bytes.LastIndex(d, []byte("trailer"))
		if i < 0 {
			break
		}
		j := bytes.Index(d[i:], []byte("<<"))
		if j < 0 {
			break
		}
		v := locs[R.IntN(len(locs))]
		return splice(d, i+j+2, 0, []byte(fmt.Sprintf(" /Prev %d", v))), "xref:prevloop"
	default: // subsection header of a table
		locs := allIndex(d, "xref\n")
		if len(locs) == 0 {
			break
		}
		i := locs[R.IntN(len(locs))] + 5
		e := bytes.IndexByte(d[i:min(len(d), i+40)], '\n')
		if e < 0 {
			break
		}
		hdr := []string{"0 16777216", "16777215 1", "1 1", "0 0", "-1 5", "0 99999999999", "5 4294967295"}[R.IntN(7)]
		return splice(d, i, e, []byte(hdr)), "xref:subsection"
	}
	return mKeyValue(R, d, nil)
}

var mutators = []struct {
	f      mutator
	weight int
}{
	{mFlip, 2}, {mTruncate, 2}, {mKeyValue, 8}, {mRewire, 5}, {mDupChunk, 1}, {mDelChunk, 2},
	{mSplice, 2}, {mTokenSwap, 2}, {mStreamDamage, 6}, {mXRef, 3}, {mObjStmIndirect, 4}, {mFontProgram, 3}, {mImageParams, 3}, {mPipeFilter, 4}, {mInlineImage, 2}, {mShareRef, 2}, {mArrayArity, 4},
}

func mutate(R *rand.Rand, d []byte, other []byte) (res []byte, label string) {
	orig := d
	defer func() {
		// a mutator that trips over its own crude parsing must not take the
		// worker down: fall back to the unmutated bytes
		if p := recover(); p != nil {
			res, label = orig, "mutator-error"
		}
	}()
	total := 0
	for _, m := range mutators {
		total += m.weight
	}
	for k := 1 + R.IntN(3); k > 0; k-- {
		x := R.IntN(total)
		for _, m := range mutators {
			if x < m.weight {
				var l string
				d, l = m.f(R, d, other)
				if label == "" {
					label = l
				} else {
					label += "+" + l
				}
				break
			}
			x -= m.weight
		}
	}
	return d, label
}

// repairXRef appends a fresh cross-reference table for the objects found in
// the (mutated) bytes, chained with /Prev to the old cross-reference section,
// so that an insertion or deletion does not simply make every offset stale
// and the mutant is still read through the ordinary (non-recovery) path.
func repairXRef(d []byte) []byte {
	root := findTrailerRef(d, "/Root")
	if root == "" {
		return d
	}
	type ent struct{ num, gen, off int }
	seen := map[int]int{}
	var ents []ent
	for _, m := range objPat.FindAllSubmatchIndex(d, 3000) {
		if m[0] > 0 && d[m[0]-1] != '\n' && d[m[0]-1] != '\r' && d[m[0]-1] != ' ' {
			continue
		}
		num, _ := strconv.Atoi(string(d[m[2]:m[3]]))
		gen, _ := strconv.Atoi(string(d[m[4]:m[5]]))
		if num <= 0 || num > 100000 || gen > 65535 {
			continue
		}
		if i, ok := seen[num]; ok {
			ents[i] = ent{num, gen, m[0]}
			continue
		}
		seen[num] = len(ents)
		ents = append(ents, ent{num, gen, m[0]})
	}
	if len(ents) == 0 {
		return d
	}
	// the old section: a table, or the object holding the /XRef stream
	prev := -1
	if i := bytes.LastIndex(d, []byte("\nxref")); i >= 0 {
		prev = i + 1
	} else if i := bytes.LastIndex(d, []byte("/XRef")); i >= 0 {
		if ms := objPat.FindAllIndex(d[:i], -1); len(ms) > 0 {
			prev = ms[len(ms)-1][0]
		}
	}
	hdr := bytes.Index(d[:min(len(d), 1024)], []byte("%PDF-"))
	if hdr < 0 {
		hdr = 0
	}
	buf := bytes.NewBuffer(bytes.Clone(d))
	buf.WriteByte('\n')
	x := buf.Len()
	buf.WriteString("xref\n")
	max := 0
	for _, e := range ents {
		fmt.Fprintf(buf, "%d 1\n%010d %05d n \n", e.num, e.off-hdr, e.gen)
		if e.num > max {
			max = e.num
		}
	}
	fmt.Fprintf(buf, "trailer\n<< /Size %d /Root %s", max+1, root)
	if prev >= 0 {
		fmt.Fprintf(buf, " /Prev %d", prev-hdr)
	}
	fmt.Fprintf(buf, " >>\nstartxref\n%d\n%%%%EOF\n", x-hdr)
	return buf.Bytes()
}

var shareKeys = []string{"/SMask", "/TR", "/TR2", "/BG", "/BG2", "/UCR", "/UCR2", "/HT", "/Font", "/ColorSpace", "/Function",
	"/Encoding", "/ToUnicode", "/Group", "/Metadata", "/Resources", "/Mask", "/Decode", "/OC", "/Alternate", "/CS", "/G"}

// mShareRef makes the value of a key the SAME indirect object everywhere it
// occurs; the object's value is one that typed decoders turn into nil or a
// default (the second decode of such a reference is answered by the cache).
func mShareRef(R *rand.Rand, d, _ []byte) ([]byte, string) {
	key := shareKeys[R.IntN(len(shareKeys))]
	locs := allIndex(d, key+" ")
	if len(locs) == 0 {
		return mRewire(R, d, nil)
	}
	num := 7000 + R.IntN(50)
	val := []string{"/None", "null", "/Default", "/Identity", "<< >>", "[ ]", "/DeviceGray", "0"}[R.IntN(8)]
	out := bytes.Clone(d)
	// from the back, so that earlier offsets stay valid
	for i := len(locs) - 1; i >= 0; i-- {
		j := locs[i] + len(key)
		out = splice(out, j, skipValue(out, j), []byte(fmt.Sprintf(" %d 0 R", num)))
	}
	if len(locs) == 1 {
		// use it twice: duplicate the entry under a second name in the same dictionary
		j := locs[0]
		out = splice(out, j, 0, []byte(fmt.Sprintf("/Verif%s %d 0 R ", key[1:], num)))
	}
	if R.IntN(4) > 0 {
		out = append(out, []byte(fmt.Sprintf("\n%d 0 obj\n%s\nendobj\n", num, val))...)
	} // else: a missing object
	return repairXRef(out), "share:" + key
}
