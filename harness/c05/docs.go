package main

import (
	"bytes"
	"fmt"
	"math/rand/v2"

	"seehuhn.de/go/pdf"
	"seehuhn.de/go/pdf/document"
	"seehuhn.de/go/pdf/font"
	"seehuhn.de/go/pdf/font/cff"
	"seehuhn.de/go/pdf/font/truetype"
	"seehuhn.de/go/pdf/font/type1"
	"seehuhn.de/go/pdf/internal/debug/makefont"
	"seehuhn.de/go/pdf/nametree"
	"seehuhn.de/go/pdf/outline"
)

// docSpec selects the features of a generated base document.
type docSpec struct {
	version pdf.Version
	human   bool // human-readable: xref table, no object streams
	pages   int
	fonts   int // 0 none, 1 type1, 2 type1+truetype, 3 +cff
	outline bool
	names   bool
	extra   int // extra compressed objects
	lzw     bool
	incr    int  // number of hand-made incremental updates (/Prev chain)
	badFont bool // a Type1 font dictionary whose /FontFile is not a font (F7)
	inherit bool // nested /Pages nodes with inheritable attributes
	dct     bool // an image XObject with /DCTDecode data
}

func mustNil(err error) {
	if err != nil {
		panic(fmt.Sprintf("document generator: %v", err))
	}
}

// makeDoc writes a valid document with the library's own writer.
func makeDoc(sp docSpec) []byte {
	buf := &bytes.Buffer{}
	opt := &pdf.WriterOptions{HumanReadable: sp.human}
	doc, err := document.WriteMultiPage(buf, document.A5, sp.version, opt)
	mustNil(err)
	w := doc.Out
	w.GetMeta().Info = &pdf.Info{Title: "c05"}

	var fonts []font.Layouter
	if sp.fonts >= 1 {
		f, err := type1.New(makefont.Type1(), makefont.AFM())
		mustNil(err)
		fonts = append(fonts, f)
	}
	if sp.fonts >= 2 {
		f, err := truetype.NewSimple(makefont.TrueType(), nil)
		mustNil(err)
		fonts = append(fonts, f)
	}
	if sp.fonts >= 3 {
		f, err := cff.NewSimple(makefont.OpenType(), nil)
		mustNil(err)
		fonts = append(fonts, f)
	}

	for i := 0; i < sp.pages; i++ {
		pg := doc.AddPage()
		pg.SetLineWidth(1)
		pg.MoveTo(10, 10)
		pg.LineTo(100+float64(i), 100)
		pg.Stroke()
		if len(fonts) > 0 {
			pg.TextBegin()
			pg.TextSetFont(fonts[i%len(fonts)], 12)
			pg.TextFirstLine(50, 400)
			pg.TextShow(fmt.Sprintf("Hello page %d", i))
			pg.TextEnd()
		}
		mustNil(pg.Close())
	}

	if sp.outline {
		o := &outline.Outline{}
		for i := 0; i < 4; i++ {
			it := o.AddItem(fmt.Sprintf("chapter %d", i))
			for j := 0; j < 3; j++ {
				c := it.AddChild(fmt.Sprintf("section %d.%d", i, j))
				if j == 1 {
					c.AddChild("deep")
				}
			}
		}
		ref, err := doc.RM.Store(o)
		mustNil(err)
		w.GetMeta().Catalog.Outlines = ref
	}
	if sp.names {
		m := map[pdf.Name]pdf.Object{}
		for i := 0; i < 150; i++ {
			m[pdf.Name(fmt.Sprintf("dest%03d", i))] = pdf.Array{pdf.Integer(i), pdf.Name("Fit")}
		}
		ref, err := nametree.WriteMap(w, m)
		mustNil(err)
		w.GetMeta().Catalog.Names = pdf.Dict{"Dests": ref}
	}
	for i := 0; i < sp.extra; i++ {
		r := w.Alloc()
		if sp.human {
			mustNil(w.Put(r, pdf.Dict{"A": pdf.Array{pdf.Integer(i), pdf.String("str"), pdf.Name("N")}}))
		} else {
			mustNil(w.WriteCompressed([]pdf.Reference{r}, pdf.Dict{"A": pdf.Array{pdf.Integer(i), pdf.String("str"), pdf.Name("N")}}))
		}
	}
	if sp.lzw {
		sref := w.Alloc()
		ws, err := w.OpenStream(sref, pdf.Dict{}, pdf.FilterASCII85{}, pdf.FilterLZW{Predictor: 12, Columns: 4})
		mustNil(err)
		ws.Write(bytes.Repeat([]byte("abcd"), 200))
		mustNil(ws.Close())
		s2 := w.Alloc()
		ws, err = w.OpenStream(s2, pdf.Dict{}, pdf.FilterASCIIHex{}, pdf.FilterRunLength{})
		mustNil(err)
		ws.Write(bytes.Repeat([]byte("xy"), 300))
		mustNil(ws.Close())
	}
	if sp.dct {
		ir := w.Alloc()
		ws, err := w.OpenStream(ir, pdf.Dict{
			"Type": pdf.Name("XObject"), "Subtype": pdf.Name("Image"), "Width": pdf.Integer(96), "Height": pdf.Integer(64),
			"ColorSpace": pdf.Name("DeviceRGB"), "BitsPerComponent": pdf.Integer(8), "Filter": pdf.Name("DCTDecode"),
		})
		mustNil(err)
		ws.Write(jpegBytes())
		mustNil(ws.Close())
	}
	if sp.dct {
		// a CCITTFax image as well (Group 4 and Group 3)
		for _, k := range []int{-1, 0} {
			ir := w.Alloc()
			ws, err := w.OpenStream(ir, pdf.Dict{
				"Type": pdf.Name("XObject"), "Subtype": pdf.Name("Image"), "Width": pdf.Integer(64), "Height": pdf.Integer(16),
				"ColorSpace": pdf.Name("DeviceGray"), "BitsPerComponent": pdf.Integer(1),
			}, pdf.FilterCCITTFax{K: k, Columns: 64, Rows: 16})
			mustNil(err)
			for row := 0; row < 16; row++ {
				ws.Write([]byte{0xFF, byte(row), 0x0F, 0xF0, 0x00, byte(row * 3), 0xAA, 0x55})
			}
			mustNil(ws.Close())
		}
	}
	if sp.badFont {
		// a Type 1 font dictionary whose font program is not a font
		ff := w.Alloc()
		ws, err := w.OpenStream(ff, pdf.Dict{"Length1": pdf.Integer(6000), "Length2": pdf.Integer(0), "Length3": pdf.Integer(0)})
		mustNil(err)
		ws.Write(bytes.Repeat([]byte("this is not a font program. "), 300))
		mustNil(ws.Close())
		fd := w.Alloc()
		mustNil(w.Put(fd, pdf.Dict{
			"Type": pdf.Name("FontDescriptor"), "FontName": pdf.Name("Bogus"), "Flags": pdf.Integer(32),
			"FontBBox":    pdf.Array{pdf.Integer(0), pdf.Integer(0), pdf.Integer(1000), pdf.Integer(1000)},
			"ItalicAngle": pdf.Integer(0), "Ascent": pdf.Integer(800), "Descent": pdf.Integer(-200),
			"CapHeight": pdf.Integer(700), "StemV": pdf.Integer(80), "FontFile": ff,
		}))
		fr := w.Alloc()
		widths := make(pdf.Array, 95)
		for i := range widths {
			widths[i] = pdf.Integer(500)
		}
		mustNil(w.Put(fr, pdf.Dict{
			"Type": pdf.Name("Font"), "Subtype": pdf.Name("Type1"), "BaseFont": pdf.Name("Bogus"),
			"FirstChar": pdf.Integer(32), "LastChar": pdf.Integer(126), "Widths": widths,
			"FontDescriptor": fd,
		}))
	}
	mustNil(doc.Close())
	out := buf.Bytes()
	for i := 0; i < sp.incr; i++ {
		out = appendUpdate(out, i)
	}
	return out
}

// appendUpdate appends a hand-made incremental update: one new object and a
// cross-reference table whose trailer points back with /Prev.
func appendUpdate(d []byte, k int) []byte {
	prev := lastStartXRef(d)
	if prev < 0 {
		return d
	}
	root := findTrailerRef(d, "/Root")
	if root == "" {
		return d
	}
	num := 9000 + k
	buf := bytes.NewBuffer(append([]byte{}, d...))
	buf.WriteByte('\n')
	off := buf.Len()
	fmt.Fprintf(buf, "%d 0 obj\n<< /Update %d >>\nendobj\n", num, k)
	xr := buf.Len()
	fmt.Fprintf(buf, "xref\n%d 1\n%010d 00000 n \ntrailer\n<< /Size %d /Root %s /Prev %d >>\nstartxref\n%d\n%%%%EOF\n",
		num, off, num+1, root, prev, xr)
	return buf.Bytes()
}

func lastStartXRef(d []byte) int {
	i := bytes.LastIndex(d, []byte("startxref"))
	if i < 0 {
		return -1
	}
	var v int
	if _, err := fmt.Sscanf(string(d[i+9:]), "%d", &v); err != nil {
		return -1
	}
	return v
}

func findTrailerRef(d []byte, key string) string {
	i := bytes.LastIndex(d, []byte(key))
	if i < 0 {
		return ""
	}
	var a, b int
	if _, err := fmt.Sscanf(string(d[i+len(key):]), "%d %d R", &a, &b); err != nil {
		return ""
	}
	return fmt.Sprintf("%d %d R", a, b)
}

// baseDocs returns the valid documents the mutants are derived from.
func baseDocs() [][]byte {
	specs := []docSpec{
		{version: pdf.V1_7, pages: 6, fonts: 3, outline: true, names: true, extra: 5, lzw: true, dct: true},
		{version: pdf.V1_4, human: true, pages: 5, fonts: 1, outline: true, extra: 3, lzw: true, incr: 2},
		{version: pdf.V2_0, pages: 20, fonts: 2, names: true, extra: 8},
		{version: pdf.V1_7, pages: 3, fonts: 1, badFont: true, extra: 2, incr: 1, dct: true},
		{version: pdf.V1_5, human: true, pages: 40, fonts: 0, outline: true},
	}
	var res [][]byte
	for _, sp := range specs {
		res = append(res, makeDoc(sp))
	}
	return res
}

var _ = rand.Int
