// C12 harness: character-code codec vs its code space ranges.
//
// For every generated range set it (1) runs the property oracle directly on
// the implementation (Decode vs the specification of 9.7.6.2/9.7.6.3, round
// trips, reported code space), recording failing inputs in fails.jsonl, and
// (2) writes cases.txt / impl.obs for the comparison with the extracted Coq
// model (build/ocaml/C12/driver.exe).
package main

import (
	"fmt"
	"sort"
	"strings"

	"seehuhn.de/go/pdf/font/charcode"
	"seehuhn.de/go/pdf/verifharness/common"
)

var bounds = []byte{0x00, 0x01, 0x10, 0x7F, 0x80, 0xFE, 0xFF}

func matchLen(csr charcode.CodeSpaceRange, s []byte) int {
	for _, r := range csr {
		if len(s) < len(r.Low) {
			continue
		}
		ok := true
		for i := range r.Low {
			if s[i] < r.Low[i] || s[i] > r.High[i] {
				ok = false
				break
			}
		}
		if ok {
			return len(r.Low)
		}
	}
	return 0
}

func prefixMatch(r charcode.Range, s []byte) int {
	p := 0
	for p < len(r.Low) && p < len(s) && s[p] >= r.Low[p] && s[p] <= r.High[p] {
		p++
	}
	return p
}

// specConsume: 9.7.6.3, the shortest code among the ranges sharing the longest prefix.
func specConsume(csr charcode.CodeSpaceRange, s []byte) int {
	best := 0
	for _, r := range csr {
		if p := prefixMatch(r, s); p > best {
			best = p
		}
	}
	min := -1
	for _, r := range csr {
		if prefixMatch(r, s) == best && (min < 0 || len(r.Low) < min) {
			min = len(r.Low)
		}
	}
	if min < 0 {
		min = 1
	}
	if min > len(s) {
		min = len(s)
	}
	return min
}

func specDecode(csr charcode.CodeSpaceRange, s []byte) (int, bool) {
	if len(s) == 0 {
		return 0, false
	}
	if ml := matchLen(csr, s); ml > 0 {
		return ml, true
	}
	return specConsume(csr, s), false
}

func allRanges(maxLen int) []charcode.Range {
	var res []charcode.Range
	var rec func(lo, hi []byte)
	rec = func(lo, hi []byte) {
		if len(lo) > 0 {
			res = append(res, charcode.Range{Low: append([]byte{}, lo...), High: append([]byte{}, hi...)})
		}
		if len(lo) == maxLen {
			return
		}
		for _, a := range bounds {
			for _, b := range bounds {
				if a <= b {
					rec(append(lo, a), append(hi, b))
				}
			}
		}
	}
	rec(nil, nil)
	return res
}

func csrWire(csr charcode.CodeSpaceRange) string {
	var sb strings.Builder
	fmt.Fprintf(&sb, "%d", len(csr))
	for _, r := range csr {
		fmt.Fprintf(&sb, " %s %s", common.Hex(r.Low), common.Hex(r.High))
	}
	return sb.String()
}

// representatives of the byte classes induced by a range set (and a second one)
func reps(sets ...charcode.CodeSpaceRange) []byte {
	vals := map[byte]bool{0: true, 0xff: true}
	for _, csr := range sets {
		for _, r := range csr {
			for i := range r.Low {
				for _, d := range []int{-1, 0, 1} {
					for _, x := range []int{int(r.Low[i]) + d, int(r.High[i]) + d} {
						if x >= 0 && x < 256 {
							vals[byte(x)] = true
						}
					}
				}
			}
		}
	}
	var vv []byte
	for v := range vals {
		vv = append(vv, v)
	}
	sort.Slice(vv, func(i, j int) bool { return vv[i] < vv[j] })
	return vv
}

type runner struct {
	e        *common.Env
	nextID   int
	maxLen   int
	maxNodes int
	// light: only one string per pair of representatives (used for the
	// exhaustive enumeration of pairs in the thorough tier, where every set
	// also goes through the certified validator)
	light bool
}

func (t *runner) id() string {
	t.nextID++
	return fmt.Sprintf("c%d", t.nextID)
}

func (t *runner) testSet(csr charcode.CodeSpaceRange, modelShare int) {
	e := t.e
	wire := csrWire(csr)
	c, err := safeNewCodec(csr)
	id := t.id()
	e.Line("cases.txt", "%s D %s -", id, wire)
	if err != nil || c == nil {
		if err != nil && strings.HasPrefix(err.Error(), "panic") {
			e.Fail("newcodec-panic", "NewCodec panics: "+err.Error(), wire)
		}
		e.Line("impl.obs", "%s reject", id)
		e.Count(false, "", "set-rejected")
		return
	}
	e.Line("impl.obs", "%s 0 0 0", id)
	e.Line("impl.obs", "%s.spec 0 0", id)
	e.Dist[fmt.Sprintf("set-of-%d", len(csr))]++

	// certified validator: the extracted lin_ok is run on the node array the
	// implementation built (and on the model's own linearisation); lin_sound
	// then gives decode = tree-level decode for all strings, tdecode_spec
	// gives tree-level decode = specification for all strings.
	{
		if nn := len(c.VerifNodes()); nn > 0xfffc {
			// the uint16 cursor of Decode/AppendCode must never reach the special child values
			e.Fail("node-array-exceeds-uint16-cursor", fmt.Sprintf("NewCodec returns a codec with %d nodes (more than 65532)", nn), wire)
		}
		var nb []byte
		for _, n := range c.VerifNodes() {
			nb = append(nb, n.Bound, byte(n.Child>>8), byte(n.Child))
		}
		lid := t.id()
		e.Line("cases.txt", "%s L %s %s", lid, wire, common.Hex(nb))
		e.Line("impl.obs", "%s 1", lid)
		e.Line("impl.obs", "%s.model 1", lid)
		e.Dist["validated-node-arrays"]++
		t.maxNodes = max(t.maxNodes, len(nb)/3)
	}

	vv := reps(csr)
	var strs [][]byte
	for _, a := range vv {
		strs = append(strs, []byte{a})
		for j, b := range vv {
			strs = append(strs, []byte{a, b})
			if t.light && j > 0 {
				continue
			}
			strs = append(strs, []byte{a, b, vv[e.Rand.IntN(len(vv))]})
			strs = append(strs, []byte{a, b, vv[e.Rand.IntN(len(vv))], vv[e.Rand.IntN(len(vv))], 0x41})
		}
	}
	for _, s := range strs {
		code, k, valid, perr := safeDecode(c, s)
		wantK, wantValid := specDecode(csr, s)
		cs := map[string]any{"csr": wire, "input": common.Hex(s)}
		nontriv := len(s) > 1 && len(csr) > 0
		cl := "valid"
		if !wantValid {
			cl = "invalid"
			if wantK == len(s) && len(s) < 4 {
				cl = "invalid-or-cut"
			}
		}
		e.Count(nontriv, wire+"|"+string(s), cl)
		if perr != "" {
			e.Fail("decode-panic", "Decode panics: "+perr, cs)
			continue
		}
		if valid != wantValid || k != wantK {
			cs["got"] = fmt.Sprintf("consumed=%d valid=%v", k, valid)
			cs["want"] = fmt.Sprintf("consumed=%d valid=%v", wantK, wantValid)
			e.Fail("decode-vs-spec", "Decode disagrees with the code space ranges", cs)
		}
		if len(s) > 0 && (k < 1 || k > len(s)) {
			e.Fail("consumed-out-of-bounds", "consumed outside 1..len", cs)
		}
		if e.Rand.IntN(modelShare) == 0 {
			id := t.id()
			e.Line("cases.txt", "%s D %s %s", id, wire, common.Hex(s))
			e.Line("impl.obs", "%s %d %d %d", id, uint32(code), k, b2i(valid))
			e.Line("impl.obs", "%s.spec %d %d", id, wantK, b2i(wantValid))
			e.Sample(4, fmt.Sprintf("ranges=[%s] input=%x -> code=%d consumed=%d valid=%v", wire, s, code, k, valid))
			// AppendCode of the decoded code
			back, aerr := safeAppend(c, code)
			id2 := t.id()
			e.Line("cases.txt", "%s A %s %d", id2, wire, uint32(code))
			if aerr != "" {
				e.Line("impl.obs", "%s panic", id2)
			} else {
				e.Line("impl.obs", "%s %s", id2, common.Hex(back))
			}
		}
		// round trip decode -> append
		back, aerr := safeAppend(c, code)
		if aerr != "" {
			e.Fail("append-panic", "AppendCode panics: "+aerr, cs)
			continue
		}
		full := append(append([]byte{}, s...), 0, 0, 0, 0)
		_, kFull, _, _ := safeDecode(c, full)
		if kFull > len(s) {
			// the input ends inside a code: re-encoding gives the consumed bytes plus padding
			if len(back) < k || string(back[:k]) != string(s[:k]) {
				cs["appended"] = common.Hex(back)
				e.Fail("roundtrip-decode-append", "AppendCode(Decode(s)) does not start with the consumed bytes", cs)
			}
		} else if string(back) != string(s[:k]) {
			cs["appended"] = common.Hex(back)
			e.Fail("roundtrip-decode-append", "AppendCode(Decode(s)) differs from the consumed bytes", cs)
		}
		// round trip append -> decode for valid codes
		if valid {
			code2, k2, valid2, _ := safeDecode(c, back)
			if code2 != code || k2 != len(back) || !valid2 {
				e.Fail("roundtrip-append-decode", "Decode(AppendCode(code)) differs from the code", cs)
			}
		}
	}
	// the reported code space describes the same codes
	rep, rerr := safeCSR(c)
	if rerr != "" {
		e.Fail("csr-panic", "CodeSpaceRange panics: "+rerr, wire)
		return
	}
	if !csr.Equivalent(rep) || !rep.Equivalent(csr) {
		e.Fail("csr-not-equivalent", "CodeSpaceRange() is not Equivalent() to the range set the codec was built from",
			map[string]any{"csr": wire, "reported": csrWire(rep)})
	}
	vv2 := reps(csr, rep)
	if len(vv2) > 14 {
		vv2 = vv2[:14]
	}
	// model leg: matchLen of the reported ranges vs match_len of the model's walk_ranges
	for i := 0; i < 6; i++ {
		s := make([]byte, 1+e.Rand.IntN(4))
		for j := range s {
			s[j] = vv2[e.Rand.IntN(len(vv2))]
		}
		mid := t.id()
		e.Line("cases.txt", "%s M %s %s", mid, wire, common.Hex(s))
		e.Line("impl.obs", "%s %d", mid, matchLen(rep, s))
	}
	var buf [4]byte
	var rec func(d int) bool
	rec = func(d int) bool {
		if d == t.maxLen {
			return true
		}
		for _, b := range vv2 {
			buf[d] = b
			s := buf[:d+1]
			if matchLen(csr, s) != matchLen(rep, s) {
				e.Fail("csr-not-equivalent", "CodeSpaceRange() describes different codes",
					map[string]any{"csr": wire, "reported": csrWire(rep), "input": common.Hex(s)})
				return false
			}
			if !rec(d + 1) {
				return false
			}
		}
		return true
	}
	rec(0)
}

// testHuge: 256 three-byte ranges <i i i>-<FF FF i>.  The linearised tree needs
// more nodes than the uint16 child index can address: NewCodec must answer
// with an error (it used to panic, F30).  Hard requirement, not a finding.
func (t *runner) testHuge() {
	e := t.e
	var csr charcode.CodeSpaceRange
	for i := 0; i < 256; i++ {
		csr = append(csr, charcode.Range{Low: []byte{byte(i), byte(i), byte(i)}, High: []byte{0xff, 0xff, byte(i)}})
	}
	what := map[string]any{"csr": "256 ranges <i i i>-<FF FF i>, i = 00..FF"}
	e.Count(true, "huge-256x3", "set-huge")
	c, err := safeNewCodec(csr)
	if err != nil && strings.HasPrefix(err.Error(), "panic") {
		e.Fail("newcodec-panic-large-tree", "NewCodec panics for a valid range set whose tree needs more than 65531 nodes: "+err.Error(), what)
		return
	}
	if err != nil || c == nil {
		e.Dist["huge-rejected-with-error"]++
		return
	}
	// if a codec is returned after all it must be right
	for a := 0; a < 256; a += 5 {
		for b := 0; b < 256; b += 3 {
			for _, cc := range []int{0, 1, 5, 77, 200, 255} {
				s := []byte{byte(a), byte(b), byte(cc), 0}
				_, k, v, perr := safeDecode(c, s)
				wantK, wantV := specDecode(csr, s)
				if perr != "" || v != wantV || k != wantK {
					what["input"] = common.Hex(s)
					e.Fail("large-tree-decodes-wrongly", "codec of a valid range set with more than 65531 nodes decodes wrongly", what)
					return
				}
			}
		}
	}
}

// testCapacity sweeps the node count of the linearised table across the capacity
// of the uint16 child index / cursor (class of seeded change C12-7).  The sets are
// single-code two-byte ranges: first bytes 00..FC have all second bytes but one
// (253 pairwise different groups of 256 nodes), first bytes FD, FE, FF have k1, k2,
// k3 leading second bytes (groups of k+1 nodes), so the table needs
// 256 + 253*256 + (k1+1) + (k2+1) + (k3+1) nodes and the LAST group is the one of FF.
// NewCodec must either refuse the set or return a codec with at most 65532 nodes
// that classifies every probe as the ranges say (the model and the validator are not
// run on these sets: the extracted code uses unary numbers).
func (t *runner) testCapacity(target, k3 int) {
	e := t.e
	sum := target - (256 + 253*256) - 3 - k3
	k1, k2 := sum/2+1, sum-sum/2-1
	for k1 == k3 || k2 == k3 || k1 == k2 {
		k1, k2 = k1+1, k2-1
	}
	if k1 < 1 || k2 < 1 || k1 > 255 || k2 > 255 {
		return
	}
	var valid [256][256]bool
	var csr charcode.CodeSpaceRange
	one := func(b, x int) {
		valid[b][x] = true
		csr = append(csr, charcode.Range{Low: []byte{byte(b), byte(x)}, High: []byte{byte(b), byte(x)}})
	}
	for b := 0; b < 253; b++ {
		for x := 0; x < 256; x++ {
			if x != b {
				one(b, x)
			}
		}
	}
	for i, k := range []int{k1, k2, k3} {
		for x := 0; x < k; x++ {
			one(253+i, x)
		}
	}
	what := map[string]any{"csr": fmt.Sprintf("single-code two-byte ranges needing %d nodes (k1=%d k2=%d k3=%d)", target, k1, k2, k3)}
	e.Count(true, fmt.Sprintf("capacity-%d-%d", target, k3), "set-capacity-boundary")
	c, err := safeNewCodec(csr)
	if err != nil && strings.HasPrefix(err.Error(), "panic") {
		e.Fail("newcodec-panic-large-tree", "NewCodec panics near the capacity of the node table: "+err.Error(), what)
		return
	}
	if err != nil || c == nil {
		if target <= 65532 {
			what["error"] = fmt.Sprint(err)
			e.Fail("valid-set-rejected", "NewCodec rejects a valid set whose table fits into 65532 nodes", what)
		}
		e.Dist["capacity-rejected-with-error"]++
		return
	}
	e.Dist["capacity-accepted"]++
	if nn := len(c.VerifNodes()); nn > 0xfffc {
		what["nodes"] = nn
		e.Fail("node-array-exceeds-uint16-cursor", fmt.Sprintf("NewCodec returns a codec with %d nodes (more than 65532)", nn), what)
	}
	probe := func(b, x int) bool {
		s := []byte{byte(b), byte(x), 0x11, 0x22}
		code, k, v, perr := safeDecode(c, s)
		if perr != "" || v != valid[b][x] || k != 2 || uint32(code) != uint32(b)|uint32(x)<<8 {
			what["input"] = common.Hex(s)
			what["got"] = fmt.Sprintf("code=%#x consumed=%d valid=%v %s", code, k, v, perr)
			what["want"] = fmt.Sprintf("consumed=2 valid=%v", valid[b][x])
			e.Fail("decode-vs-spec", "Decode disagrees with the code space ranges near the capacity of the node table", what)
			return false
		}
		if v {
			back, aerr := safeAppend(c, code)
			if aerr != "" || len(back) != 2 || back[0] != byte(b) || back[1] != byte(x) {
				what["input"] = common.Hex(s)
				what["appended"] = common.Hex(back)
				e.Fail("roundtrip-decode-append", "AppendCode(Decode(s)) differs from the consumed bytes near the capacity of the node table", what)
				return false
			}
		}
		e.Count(true, fmt.Sprintf("capacity-%d-%d|%d|%d", target, k3, b, x), "capacity-probe")
		return true
	}
	for b := 240; b < 256; b++ {
		for x := 0; x < 256; x++ {
			if !probe(b, x) {
				return
			}
		}
	}
	for i := 0; i < 3000; i++ {
		if !probe(e.Rand.IntN(256), e.Rand.IntN(256)) {
			return
		}
	}
}

// testLarge: a valid set with a few hundred nodes, below the limit: it must be
// accepted (the size error is reserved for trees the uint16 index cannot hold)
// and go through the model and the validator like every other set.
func (t *runner) testLarge() {
	var csr charcode.CodeSpaceRange
	for i := 0; i < 10; i++ {
		csr = append(csr, charcode.Range{Low: []byte{byte(i), byte(i), byte(i)}, High: []byte{0xff, 0xff, byte(i)}})
	}
	c, err := safeNewCodec(csr)
	if err != nil || c == nil {
		t.e.Fail("valid-set-rejected", fmt.Sprintf("NewCodec rejects a valid prefix-free set of 10 ranges: %v", err), csrWire(csr))
		return
	}
	t.testSet(csr, 40)
}

func b2i(b bool) int {
	if b {
		return 1
	}
	return 0
}

func safeNewCodec(csr charcode.CodeSpaceRange) (c *charcode.Codec, err error) {
	defer func() {
		if r := recover(); r != nil {
			err = fmt.Errorf("panic: %v", r)
		}
	}()
	return charcode.NewCodec(csr)
}

func safeDecode(c *charcode.Codec, s []byte) (code charcode.Code, k int, valid bool, perr string) {
	defer func() {
		if r := recover(); r != nil {
			perr = fmt.Sprint(r)
		}
	}()
	code, k, valid = c.Decode(s)
	return
}

func safeAppend(c *charcode.Codec, code charcode.Code) (b []byte, perr string) {
	defer func() {
		if r := recover(); r != nil {
			perr = fmt.Sprint(r)
		}
	}()
	return c.AppendCode(nil, code), ""
}

func safeCSR(c *charcode.Codec) (r charcode.CodeSpaceRange, perr string) {
	defer func() {
		if r := recover(); r != nil {
			perr = fmt.Sprint(r)
		}
	}()
	return c.CodeSpaceRange(), ""
}

func randRange(e *common.Env, n int) charcode.Range {
	lo := make([]byte, n)
	hi := make([]byte, n)
	for i := range lo {
		var a, b byte
		if e.Rand.IntN(3) == 0 {
			a, b = byte(e.Rand.IntN(256)), byte(e.Rand.IntN(256))
		} else {
			a, b = bounds[e.Rand.IntN(len(bounds))], bounds[e.Rand.IntN(len(bounds))]
		}
		if a > b {
			a, b = b, a
		}
		lo[i], hi[i] = a, b
	}
	return charcode.Range{Low: lo, High: hi}
}

// splitSet cuts a random range into two or three pieces at one byte position,
// the pieces being adjacent (so that CodeSpaceRange() merges them) or leaving
// a gap of one or two values (which must survive the merge).
func splitSet(e *common.Env) charcode.CodeSpaceRange {
	n := 1 + e.Rand.IntN(4)
	base := randRange(e, n)
	pos := e.Rand.IntN(n)
	lo, hi := int(base.Low[pos]), int(base.High[pos])
	if hi-lo < 6 {
		lo, hi = 0x20, 0x7e
	}
	pieces := 2 + e.Rand.IntN(2)
	var csr charcode.CodeSpaceRange
	cur := lo
	for k := 0; k < pieces && cur <= hi; k++ {
		end := hi
		if k < pieces-1 {
			end = cur + e.Rand.IntN(max(1, (hi-cur)/2))
		}
		r := charcode.Range{Low: append([]byte{}, base.Low...), High: append([]byte{}, base.High...)}
		r.Low[pos], r.High[pos] = byte(cur), byte(end)
		csr = append(csr, r)
		cur = end + 1 + e.Rand.IntN(3)
	}
	if e.Rand.IntN(2) == 0 {
		e.Rand.Shuffle(len(csr), func(i, j int) { csr[i], csr[j] = csr[j], csr[i] })
	}
	return csr
}

// tilingSets enumerates mixed-length range sets that tile one level of the
// lookup tree WITHOUT invalid gaps: the byte values 00..FF of that level are
// cut into 2..4 consecutive blocks at points of the boundary alphabet, and
// every block is either the last byte of a short code or the lead byte of codes
// that are one or two bytes longer (short | long | short, long | short | long,
// ...).  depth 0: the level is the first byte; depth 1: the level is the
// second byte below a shared lead range.  (Seeded change C12-5: a walk that
// glues the leaves on both sides of a sub-tree together.)
func tilingSets() []charcode.CodeSpaceRange {
	cuts := []int{0x01, 0x10, 0x40, 0x7F, 0x80, 0xFE, 0xFF}
	var res []charcode.CodeSpaceRange
	var subsets [][]int
	var rec func(from int, cur []int)
	rec = func(from int, cur []int) {
		if len(cur) > 0 {
			subsets = append(subsets, append([]int{}, cur...))
		}
		if len(cur) == 3 {
			return
		}
		for i := from; i < len(cuts); i++ {
			rec(i+1, append(cur, cuts[i]))
		}
	}
	rec(0, nil)
	for _, sub := range subsets {
		starts := append([]int{0}, sub...)
		k := len(starts)
		total := 1
		for i := 0; i < k; i++ {
			total *= 3
		}
		for pat := 0; pat < total; pat++ {
			kinds := make([]int, k)
			x, zeros, nonzeros := pat, 0, 0
			for i := range kinds {
				kinds[i] = x % 3
				x /= 3
				if kinds[i] == 0 {
					zeros++
				} else {
					nonzeros++
				}
			}
			if zeros == 0 || nonzeros == 0 {
				continue
			}
			for depth := 0; depth < 2; depth++ {
				for tail := 0; tail < 2; tail++ {
					var csr charcode.CodeSpaceRange
					var preLo, preHi []byte
					if depth == 1 {
						preLo, preHi = []byte{0x81}, []byte{0x9F}
						if tail == 1 {
							// some one-byte codes next to the lead range
							csr = append(csr, charcode.Range{Low: []byte{0x00}, High: []byte{0x7F}})
						}
					}
					for i := 0; i < k; i++ {
						lo := starts[i]
						hi := 0xFF
						if i+1 < k {
							hi = starts[i+1] - 1
						}
						r := charcode.Range{
							Low:  append(append([]byte{}, preLo...), byte(lo)),
							High: append(append([]byte{}, preHi...), byte(hi)),
						}
						for j := 0; j < kinds[i]; j++ {
							if tail == 0 {
								r.Low, r.High = append(r.Low, 0x00), append(r.High, 0xFF)
							} else {
								r.Low, r.High = append(r.Low, 0x40), append(r.High, 0x7E)
							}
						}
						csr = append(csr, r)
					}
					res = append(res, csr)
				}
			}
		}
	}
	return res
}

func main() {
	e := common.New(12)
	t := &runner{e: e, maxLen: 3}
	if e.Thorough {
		t.maxLen = 4
	}

	// corpus: sets that exposed defects before
	t.testSet(charcode.CodeSpaceRange{{Low: []byte{0, 0}, High: []byte{0, 0x7f}}, {Low: []byte{1, 0x10}, High: []byte{1, 0x7f}}}, 1)
	t.testSet(charcode.UTF8, 1)
	t.testSet(charcode.Simple, 1)
	t.testSet(charcode.UCS2, 1)
	t.testSet(charcode.CodeSpaceRange{}, 1)

	// short | long | short on one level without a gap (seeded change C12-5)
	t.testSet(charcode.CodeSpaceRange{{Low: []byte{0x00}, High: []byte{0x3F}}, {Low: []byte{0x40, 0x00}, High: []byte{0x7F, 0xFF}}, {Low: []byte{0x80}, High: []byte{0xFF}}}, 1)
	t.testSet(charcode.CodeSpaceRange{{Low: []byte{0x00, 0x00}, High: []byte{0xFF, 0x3F}}, {Low: []byte{0x00, 0x40, 0x20}, High: []byte{0xFF, 0x7F, 0x7F}}, {Low: []byte{0x00, 0x80}, High: []byte{0xFF, 0xFF}}}, 1)

	// a valid, prefix-free set whose lookup tree needs more than 65531 nodes
	t.testHuge()
	t.testLarge()
	// node counts around the capacity of the uint16 index: 65532 is the last count that fits
	for _, k3 := range []int{251, 120} {
		step := e.Pick(61, 13)
		for target := 65532 - 305; target <= 65536+310 && (e.Thorough || k3 == 251); target += step {
			t.testCapacity(target, k3)
		}
		for _, target := range []int{65530, 65531, 65532, 65533, 65534, 65535, 65536, 65537, 65540} {
			t.testCapacity(target, k3)
		}
	}

	rs := allRanges(2)
	// all single ranges
	for _, r := range rs {
		t.testSet(charcode.CodeSpaceRange{r}, 40)
	}
	// pairs: all of them in the thorough tier, a seeded sample otherwise
	if e.Thorough {
		t.light = true
		for i, r1 := range rs {
			for _, r2 := range rs[i+1:] {
				t.testSet(charcode.CodeSpaceRange{r1, r2}, 400)
			}
		}
		t.light = false
	} else {
		for i := 0; i < 2500; i++ {
			t.testSet(charcode.CodeSpaceRange{rs[e.Rand.IntN(len(rs))], rs[e.Rand.IntN(len(rs))]}, 40)
		}
	}
	// random sets of 1..4 ranges of 1..4 bytes (mostly-valid: lengths grouped by first byte)
	n := e.Pick(1500, 60000)
	for i := 0; i < n; i++ {
		k := 1 + e.Rand.IntN(4)
		var csr charcode.CodeSpaceRange
		for j := 0; j < k; j++ {
			csr = append(csr, randRange(e, 1+e.Rand.IntN(4)))
		}
		t.testSet(csr, 40)
	}
	// a range cut into adjacent or nearly adjacent pieces (exercises the merge of CodeSpaceRange())
	n = e.Pick(1500, 40000)
	for i := 0; i < n; i++ {
		t.testSet(splitSet(e), 40)
	}
	// mixed-length sets tiling one level without gaps: all of them in the
	// thorough tier, a seeded sample otherwise
	tiles := tilingSets()
	e.Dist["tiling-sets-enumerated"] = len(tiles)
	if e.Thorough {
		t.light = true
		for _, csr := range tiles {
			t.testSet(csr, 200)
		}
		t.light = false
	} else {
		t.light = true
		for i := 0; i < 1200; i++ {
			t.testSet(tiles[e.Rand.IntN(len(tiles))], 100)
		}
		t.light = false
	}
	// three ranges over the boundary alphabet
	n = e.Pick(1000, 60000)
	for i := 0; i < n; i++ {
		t.testSet(charcode.CodeSpaceRange{rs[e.Rand.IntN(len(rs))], rs[e.Rand.IntN(len(rs))], rs[e.Rand.IntN(len(rs))]}, 40)
	}

	e.Finish("range sets: corpus, all single ranges of <=2 bytes over the boundary alphabet {00,01,10,7F,80,FE,FF}, "+
		"pairs (all in thorough, sampled in quick), triples, random sets of 1..4 ranges of 1..4 bytes and ranges cut into "+
		"adjacent / nearly adjacent pieces, and mixed-length sets that tile one tree level (depth 0 and 1) without "+
		"gaps (short|long|short ..., systematically over the boundary alphabet: all in thorough, sampled in quick); "+
		"strings: all 1- and 2-byte strings over the induced class representatives plus 3- and 5-byte extensions; "+
		"non-trivial = string longer than one byte against a non-empty range set, distinct by (set,string); "+
		"every accepted set's real node array additionally goes through the extracted certified validator lin_ok",
		map[string]any{"largest_validated_node_array": t.maxNodes})
}
