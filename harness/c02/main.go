// C02 harness: file round trip.  Random write programs run on the real
// pdf.Writer; the real pdf.Reader opens the bytes.
//
//	c02            generate programs, run them, direct oracle -> fails.jsonl,
//	               cases.txt (programs for the model), impl.obs (what the real
//	               Writer accepted and the real Reader returned)
//	c02 -cross f   f holds "<id> <hex>" files written by the model writer: the
//	               real Reader opens them -> cross.obs
package main

import (
	"bufio"
	"bytes"
	"fmt"
	"math/rand/v2"
	"os"
	"strings"
	"time"

	"seehuhn.de/go/pdf"
	"seehuhn.de/go/pdf/verifharness/c02/prog"
	"seehuhn.de/go/pdf/verifharness/common"
)

func plans(e *common.Env, i int, r *rand.Rand) (prog.Config, prog.Plan) {
	// the configuration matrix is walked systematically, the rest is random
	n := i
	cfg := prog.Config{}
	cfg.VIdx = n % 9
	n /= 9
	cfg.HR = n%2 == 1
	n /= 2
	cfg.Seek = n%2 == 1
	n /= 2
	cfg.Encrypt = n%2 == 1
	n /= 2
	if cfg.Encrypt && r.IntN(2) == 0 {
		cfg.UserPw = "u"
	}
	cfg.NumID = []int{0, 0, 1, 2}[r.IntN(4)]
	var p prog.Plan
	switch k := r.IntN(40); {
	case k < 2 && i%7 == 0:
		p.Sparse = true
		p.SparseHigh = e.Thorough && r.IntN(3) == 0
	case k < 4:
		p.DeferredStream = true
	case k < 6:
		p.PreFilter = true
	case k < 11:
		p.Invalid = true
	case k < 13:
		p.ZeroCompressed = true
	case k < 15:
		p.AfterClose = true
	}
	return cfg, p
}

func main() {
	if len(os.Args) > 2 && os.Args[1] == "-cross" {
		cross(os.Args[2])
		return
	}
	e := common.New(2)
	n := e.Pick(720, 36000)
	// planned programs behind the random ones: every filter chain pattern, every shape of a
	// chain declared in the dictionary, and the sweeps across the reader's buffer boundary
	specials := append(prog.ChainSpecials(), prog.BoundarySpecials(e.Thorough)...)
	specials = append(specials, prog.LimitSpecials(e.Thorough)...)
	specials = append(specials, prog.InfoSpecials(e.Thorough)...)
	specials = append(specials, prog.ShortParmsSpecials()...)
	tstart := time.Now()
	for i := 0; i < n+len(specials); i++ {
		id := fmt.Sprintf("p%d", i)
		cfg, plan := plans(e, i, e.Rand)
		if i >= n {
			cfg, plan = specials[i-n].Cfg, specials[i-n].Plan
		}
		if i < 9 {
			// the known situations first, in configurations where they show
			cfg = prog.Config{VIdx: 5 + i%4, Seek: i%2 == 0}
			switch i % 3 {
			case 0:
				plan = prog.Plan{Sparse: true, SparseHigh: i == 3, MaxOps: 1 + i%2}
			case 1:
				plan = prog.Plan{DeferredStream: true, MaxOps: 6}
			default:
				plan = prog.Plan{PreFilter: true, MaxOps: 6}
			}
		}
		if i >= 9 && i < 9+len(prog.BatchSizes)+3 {
			// every batch size in a plain program with several WriteCompressed calls, three of
			// them also after a high sparse object number (object streams need version >= 1.5, compact)
			j := i - 9
			cfg.VIdx = 5 + j%4
			cfg.HR = false
			plan = prog.Plan{Batch: prog.BatchSizes[j%len(prog.BatchSizes)], MaxOps: 4}
			if j >= len(prog.BatchSizes) {
				plan.Batch = []int{33, 101, 257}[j-len(prog.BatchSizes)]
				plan.Sparse, plan.SparseHigh = true, true
			}
			if plan.Batch == 1000 && j >= len(prog.BatchSizes) {
				plan.Batch = 300
			}
		}
		if i == 8 || (i == 5 && e.Thorough) {
			// more objects in one WriteCompressed call than one object stream may hold: the batch is split
			cfg = prog.Config{VIdx: 5 + i%3, Seek: i == 5}
			plan = prog.Plan{Batch: map[int]int{8: 10001, 5: 20001}[i], MaxOps: 1, AfterClose: true}
		}
		if os.Getenv("VERIF_TIMING") != "" {
			fmt.Fprintf(os.Stderr, "before %s %.2f limit=%d/%d/%d\n", id, time.Since(tstart).Seconds(), plan.Limit, plan.LimitIdx, plan.LimitPos)
		}
		res := prog.Run(e.Rand, cfg, plan)
		if plan.NoModel {
			// direct oracle only
			if len(res.Refused) > 0 && !res.Provoked {
				e.Fail("unexpected-rejection", fmt.Sprintf("a program of valid operations: refused %v", res.RefusedText), res.Describe())
			}
			switch {
			case res.ErrIdx != -1:
				e.Count(true, res.CaseLine(), "rejected:"+res.ErrClass)
				if res.ErrClass == "panic" {
					e.Fail("writer-panics", fmt.Sprintf("operation %d panics: %s", res.ErrIdx, res.ErrText), res.Describe())
				} else if !res.Provoked {
					e.Fail("unexpected-rejection", fmt.Sprintf("operation %d of a program of valid operations is refused: %s", res.ErrIdx, res.ErrText), res.Describe())
				}
			default:
				rb := prog.Check(res)
				seen := map[string]bool{}
				for _, f := range rb.Fails {
					if !seen[f.Sig] {
						seen[f.Sig] = true
						e.Fail(f.Sig, f.What, res.Describe())
					}
				}
				e.Count(true, res.CaseLine(), "boundary sweep (direct oracle only) "+cfg.String())
			}
			continue
		}
		class := fmt.Sprintf("v%d hr=%v seek=%v cipher=%d", cfg.VIdx, cfg.HR, cfg.Seek, cfg.Cipher())
		if len(res.Refused) > 0 {
			e.Line("impl.obs", "%s refused %s", id, strings.Trim(fmt.Sprint(res.Refused), "[]"))
			if !res.Provoked {
				e.Fail("unexpected-rejection", fmt.Sprintf("a program of valid operations: refused %v", res.RefusedText), res.Describe())
			}
		}
		switch {
		case res.ErrIdx == -2:
			e.Line("impl.obs", "%s result err init %s", id, res.ErrClass)
			e.Line("cases.txt", "%s %s Q 0", id, res.CaseLine())
			e.Count(false, "", "rejected:init")
		case res.ErrIdx >= 0:
			e.Line("impl.obs", "%s result err %d %s", id, res.ErrIdx, res.ErrClass)
			e.Line("cases.txt", "%s %s Q 0", id, res.CaseLine())
			e.Count(true, res.CaseLine(), "rejected:"+res.ErrClass)
			if res.ErrClass == "panic" {
				e.Fail("writer-panics", fmt.Sprintf("operation %d panics: %s", res.ErrIdx, res.ErrText), res.Describe())
			} else if res.DeferredCloseFailed && !res.Provoked && strings.Contains(res.ErrText, "already written") {
				e.Fail(prog.SigDeferred, fmt.Sprintf("Put of a *Stream was accepted while a stream was open; operation %d then fails: %s", res.ErrIdx, res.ErrText), res.Describe())
			}
			for _, m := range res.ArgsModified {
				e.Fail("args-modified", m, res.Describe())
			}
			if res.ErrClass == "other" && !res.Provoked {
				e.Fail("unexpected-rejection", fmt.Sprintf("operation %d of a program of valid operations is refused: %s", res.ErrIdx, res.ErrText), res.Describe())
			}
		default:
			rb := prog.Check(res)
			e.Line("impl.obs", "%s result ok", id)
			if rb.OpenErr == nil {
				e.Line("impl.obs", "%s meta %d", id, versionIndex(rb.Reader.GetMeta().Version))
				if res.PreFilter || res.Sparse || res.NOps > 5000 {
					e.Line("impl.obs", "%s selfcheck skipped", id)
				} else {
					e.Line("impl.obs", "%s selfcheck 1", id)
				}
				for _, q := range rb.Queries {
					e.Line("impl.obs", "%s.%d.%d %s", id, q.Ref.Number(), q.Ref.Generation(), rb.Obs[q.Ref])
				}
				e.Line("cases.txt", "%s %s %s", id, res.CaseLine(), prog.QueryString(rb.Queries))
			} else {
				e.Line("impl.obs", "%s meta %d", id, cfg.VIdx)
				if res.PreFilter || res.Sparse || res.NOps > 5000 {
					e.Line("impl.obs", "%s selfcheck skipped", id)
				} else {
					e.Line("impl.obs", "%s selfcheck 1", id)
				}
				e.Line("cases.txt", "%s %s Q 0", id, res.CaseLine())
			}
			if res.AfterCloseAccepted != "" {
				e.Fail("operation-after-close-accepted", "the closed Writer accepts operations: "+res.AfterCloseAccepted, res.Describe())
			}
			seen := map[string]bool{}
			for _, f := range rb.Fails {
				if !seen[f.Sig] {
					seen[f.Sig] = true
					e.Fail(f.Sig, f.What, res.Describe())
				}
			}
			e.Count(true, res.CaseLine(), class)
			e.Sample(4, map[string]any{"config": cfg.String(), "ops": res.Desc, "file_bytes": len(res.File)})
		}
	}
	e.Finish("one evaluation = one write program run on the real Writer (and, if accepted, read back with the real Reader and compared reference by reference); nontrivial = distinct programs with at least one operation", nil)
}

func versionIndex(v pdf.Version) int {
	for i, w := range prog.Versions {
		if v == w {
			return i
		}
	}
	return -1
}

// cross reads the model writer's files with the real Reader.
func cross(path string) {
	outf, err := os.Create("cross.obs")
	if err != nil {
		panic(err)
	}
	defer outf.Close()
	bw := bufio.NewWriterSize(outf, 1<<20)
	defer bw.Flush()
	line := func(f string, a ...any) { fmt.Fprintf(bw, f+"\n", a...) }
	queries := map[string][]string{}
	for _, fs := range common.ReadLines("cases.txt") {
		for i, f := range fs {
			if f == "Q" {
				queries[fs[0]] = fs[i+2:]
				break
			}
		}
	}
	for _, fs := range common.ReadLines(path) {
		id := fs[0]
		data := common.UnHex(fs[1])
		r, err := pdf.NewReader(bytes.NewReader(data), int64(len(data)), nil)
		if err != nil {
			line("%s open-error %v", id, strings.ReplaceAll(err.Error(), " ", "_"))
			continue
		}
		line("%s meta %d", id, versionIndex(r.GetMeta().Version))
		qs := queries[id]
		for i := 0; i+2 < len(qs); i += 3 {
			var n, g int
			fmt.Sscan(qs[i], &n)
			fmt.Sscan(qs[i+1], &g)
			ref := pdf.NewReference(uint32(n), uint16(g))
			got, err := r.Get(ref, true)
			obs := ""
			switch {
			case err != nil:
				obs = "error"
			case got == nil:
				obs = "null"
			case qs[i+2] == "k":
				if _, ok := got.(*pdf.Stream); ok {
					obs = "K stream"
				} else {
					obs = "K obj"
				}
			default:
				if stm, ok := got.(*pdf.Stream); ok {
					k := -1
					if qs[i+2][0] == 'c' {
						fmt.Sscan(qs[i+2][1:], &k)
					}
					dec, err := prog.DecodeFirst(r, stm, k)
					d := pdf.Dict{}
					for k, v := range stm.Dict {
						if k != "Length" && k != "Filter" && k != "DecodeParms" {
							d[k] = v
						}
					}
					head := "T " + prog.WireString(prog.Norm(d), false) + " " + prog.ChainObs(stm.Dict)
					if err != nil {
						obs = head + " !"
					} else {
						obs = head + " " + common.Hex(dec)
					}
				} else {
					obs = "V " + prog.WireString(prog.Norm(got), false)
				}
			}
			line("%s.%d.%d %s", id, n, g, obs)
		}
	}
}
