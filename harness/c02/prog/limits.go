package prog

import (
	"fmt"
	"math"
	"strings"

	"seehuhn.de/go/pdf"
)

// The limits of the reader (scanner.go, container.go, reader.go) that the Writer has to respect:
// what it accepts, the reader must read back.  The sweeps below put values exactly at each
// limit, one below and one above, everywhere a value can stand (Put, WriteCompressed, stream
// dictionaries, deferred Puts), with valid operations in between: a refused call leaves no
// trace, the calls behind it work, Close works, the file reads back.
const (
	limString = 16 << 20 // strings of this length and more are refused
	limName   = 4096     // names of this length and more
	limArray  = 1 << 20  // arrays of more elements
	limDict   = 64 << 10 // dictionaries of more entries
	limDepth  = 256      // containers nested deeper
	limChain  = 8        // filter chains longer
	limNumber = 1 << 24  // object numbers from here on
)

func nestArr(n int, leaf pdf.Object) pdf.Object {
	o := leaf
	for i := 0; i < n; i++ {
		o = pdf.Array{o}
	}
	return o
}

func nestDict(n int, leaf pdf.Object) pdf.Object {
	o := leaf
	for i := 0; i < n; i++ {
		o = pdf.Dict{"K": o}
	}
	return o
}

func nestMixed(n int, leaf pdf.Object) pdf.Object {
	o := leaf
	for i := 0; i < n; i++ {
		if i%2 == 0 {
			o = pdf.Array{pdf.Integer(i), o}
		} else {
			o = pdf.Dict{"A": pdf.Name("x"), "K": o}
		}
	}
	return o
}

func nameOf(n int) pdf.Name { return pdf.Name(strings.Repeat("n", n)) }

func bigArray(n int) pdf.Array {
	a := make(pdf.Array, n)
	for i := range a {
		a[i] = pdf.Integer(i % 10)
	}
	return a
}

func bigDict(n, nulls int) pdf.Dict {
	d := make(pdf.Dict, n+nulls)
	for i := 0; i < n; i++ {
		d[pdf.Name(fmt.Sprintf("k%d", i))] = pdf.Integer(i % 7)
	}
	for i := 0; i < nulls; i++ {
		d[pdf.Name(fmt.Sprintf("z%d", i))] = nil
	}
	return d
}

// LimitKinds names the sweeps.
var LimitKinds = []string{"", "names", "nesting", "reals-and-references", "filter-chain-length", "stale-decodeparms",
	"object-numbers", "array-and-dict-size", "strings", "ccitt-rows", "wide-objects"}

// limitValues: the values of a kind, each to be written in every position.
func limitValues(kind int) []pdf.Object {
	switch kind {
	case 1:
		return []pdf.Object{
			nameOf(limName - 2), nameOf(limName - 1), nameOf(limName), nameOf(limName + 1),
			pdf.Dict{nameOf(limName - 1): pdf.Integer(1)}, pdf.Dict{nameOf(limName): pdf.Integer(1)},
			pdf.Dict{nameOf(limName): nil}, // an entry that is null is not written
			pdf.Array{pdf.Integer(5), nameOf(limName - 1)}, pdf.Array{pdf.Integer(5), nameOf(limName)},
			pdf.Dict{"V": pdf.Array{nameOf(limName + 1)}},
		}
	case 2:
		var l []pdf.Object
		for _, n := range []int{limDepth - 1, limDepth, limDepth + 1} {
			l = append(l, nestArr(n, pdf.Integer(1)), nestDict(n, pdf.Name("leaf")), nestMixed(n, pdf.String("s")),
				nestArr(n, nil), nestArr(n-1, pdf.Array{}), nestDict(n-1, pdf.Dict{}))
		}
		return l
	case 3:
		nan := math.NaN()
		return []pdf.Object{
			pdf.Real(nan), pdf.Real(math.Inf(1)), pdf.Real(math.Inf(-1)), pdf.Real(math.Copysign(0, -1)),
			pdf.Real(1e300), pdf.Real(-1e300), pdf.Real(math.MaxFloat64), pdf.Real(1e-300), pdf.Real(math.SmallestNonzeroFloat64),
			pdf.Array{pdf.Integer(1), pdf.Real(nan)}, pdf.Dict{"R": pdf.Real(math.Inf(1))},
			pdf.Array{pdf.Real(0.25), pdf.Real(-1e10)},
			// references whose number no NewReference makes
			pdf.Array{pdf.NewReference(limNumber-1, 0)}, pdf.Array{pdf.Reference(limNumber)}, pdf.Array{pdf.Reference(limNumber + 1)},
			pdf.Dict{"R": pdf.Reference(math.MaxUint32)}, pdf.Dict{"R": pdf.Reference(uint64(limNumber) | 7<<32)},
			pdf.Dict{"R": pdf.NewReference(limNumber-1, 65535)},
		}
	case 10:
		// wide objects: hundreds of small containers side by side inside one object, followed by
		// one more container (a reader that counts nesting must come back down after each)
		wide := func(n int, mk func(i int) pdf.Object, last pdf.Object) pdf.Array {
			a := make(pdf.Array, 0, n+1)
			for i := 0; i < n; i++ {
				a = append(a, mk(i))
			}
			return append(a, last)
		}
		wdict := func(n int, mk func(i int) pdf.Object) pdf.Dict {
			d := pdf.Dict{}
			for i := 0; i < n; i++ {
				d[pdf.Name(fmt.Sprintf("K%03d", i))] = mk(i)
			}
			return d
		}
		emptyArr := func(int) pdf.Object { return pdf.Array{} }
		emptyDict := func(int) pdf.Object { return pdf.Dict{} }
		emptyStr := func(int) pdf.Object { return pdf.String("") }
		null := func(int) pdf.Object { return nil }
		small := func(i int) pdf.Object {
			switch i % 4 {
			case 0:
				return pdf.Array{pdf.Integer(i)}
			case 1:
				return pdf.Dict{"a": pdf.Array{}}
			case 2:
				return pdf.Array{pdf.Array{pdf.Dict{}}}
			}
			return pdf.Array{}
		}
		return []pdf.Object{
			wide(254, emptyArr, pdf.Array{pdf.Integer(1)}), wide(255, emptyArr, pdf.Array{pdf.Integer(1)}),
			wide(256, emptyArr, pdf.Dict{"k": pdf.Array{}}), wide(700, emptyArr, pdf.Array{pdf.Array{pdf.Array{}}}),
			wide(300, emptyDict, pdf.Dict{"k": pdf.Dict{}}), wide(300, emptyStr, pdf.Array{pdf.String("x")}),
			wide(300, null, pdf.Array{nil}), wide(600, small, pdf.Array{pdf.Integer(2)}),
			wdict(300, emptyArr), wdict(300, emptyDict), wdict(520, small),
			pdf.Array{wide(260, emptyArr, pdf.Array{}), wdict(260, emptyArr), wide(260, small, pdf.Dict{})},
			nestArr(200, wide(300, emptyArr, pdf.Array{pdf.Integer(3)})),
		}
	case 7:
		return []pdf.Object{
			bigArray(limArray), bigArray(limArray + 1), pdf.Array{bigArray(limArray + 1)},
			bigDict(limDict, 0), bigDict(limDict+1, 0), bigDict(limDict, 5), pdf.Array{bigDict(limDict+1, 0)},
		}
	}
	return nil
}

// around runs a few valid operations: what follows a refused call must work.
func (x *runner) around() bool {
	ref, ok := x.alloc()
	if !ok {
		return false
	}
	return x.put(ref, pdf.Integer(x.res.NOps))
}

// limitSweep writes one value of the kind (LimitIdx) in one position (LimitPos): by Put, as a member
// of WriteCompressed (between two harmless members), inside a stream dictionary, or by a Put that
// is deferred behind an open stream; valid operations before and behind it.  Kinds 4..6 and 8..9
// have sequences of their own.  A call the Writer refuses before it touches anything leaves it as
// it was; a call that fails with part of an object written makes every later Put, OpenStream,
// WriteCompressed and Close fail: which of the two it is shows in what is refused afterwards, and
// the model has to predict it.
func (x *runner) limitSweep(plan *Plan) bool {
	kind := plan.Limit
	plan.Limit = 0
	x.res.Provoked = true // refusals are what this is about; what must not happen is checked by the oracle
	x.res.Limits = true
	switch kind {
	case 4:
		return x.limitChains()
	case 5:
		return x.limitStale()
	case 6:
		return x.limitNumbers(plan)
	case 8:
		return x.limitStrings(plan)
	case 9:
		return x.limitCCITT(plan)
	}
	vals := limitValues(kind)
	v := vals[plan.LimitIdx%len(vals)]
	if !x.around() {
		return false
	}
	switch plan.LimitPos % 4 {
	case 0:
		ref, ok := x.alloc()
		if !ok || !x.put(ref, v) {
			return false
		}
	case 1:
		if _, isRef := v.(pdf.Reference); isRef {
			v = pdf.Array{v}
		}
		var refs []pdf.Reference
		for j := 0; j < 3; j++ {
			ref, ok := x.alloc()
			if !ok {
				return false
			}
			refs = append(refs, ref)
		}
		if !x.writeCompressed(refs, []pdf.Object{pdf.Integer(1), v, pdf.Name("last")}) {
			return false
		}
	case 2:
		sp := streamSpec{declShape: -1, haveFs: true, quiet: true, body: []byte("stream data"), dict: pdf.Dict{"V": v}}
		if plan.LimitIdx%3 == 0 {
			sp.fs = []pdf.Filter{pdf.FilterASCIIHex{}}
		}
		if !x.streamWith(plan, sp) {
			return false
		}
	default:
		// a Put behind an open stream
		sp := streamSpec{declShape: -1, haveFs: true, quiet: true, body: []byte("outer"), dict: pdf.Dict{}, deferred: []pdf.Object{pdf.Integer(3), v}}
		if !x.streamWith(plan, sp) {
			return false
		}
	}
	// what comes behind: a Put, a small batch, a stream
	if !x.around() {
		return false
	}
	r1, ok := x.alloc()
	if !ok || !x.writeCompressed([]pdf.Reference{r1}, []pdf.Object{pdf.Name("behind")}) {
		return false
	}
	if !x.streamWith(plan, streamSpec{declShape: -1, haveFs: true, quiet: true, body: []byte("behind"), dict: pdf.Dict{}}) {
		return false
	}
	return x.around()
}

// limitChains: 8 and 9 filters as arguments, and arguments on top of declared chains.
func (x *runner) limitChains() bool {
	hexes := func(n int) []pdf.Filter {
		fs := make([]pdf.Filter, n)
		for i := range fs {
			fs[i] = []pdf.Filter{pdf.FilterASCIIHex{}, pdf.FilterASCII85{}, pdf.FilterRunLength{}}[i%3]
		}
		return fs
	}
	type c struct{ decl, args int }
	for _, k := range []c{{0, 7}, {0, 8}, {0, 9}, {0, 12}, {1, 7}, {1, 8}, {3, 5}, {3, 6}, {7, 1}, {7, 2}, {8, 0}, {8, 1}, {9, 0}, {9, 1}, {2, 6}, {2, 7}} {
		if !x.around() {
			return false
		}
		sp := streamSpec{declShape: -1, haveFs: true, quiet: true, fs: hexes(k.args), body: []byte("chain")}
		if k.decl > 0 {
			sp.declShape = 3
			sp.decl = hexes(k.decl)
			if k.decl == 1 {
				sp.declShape = 1
			}
			sp.body = make([]byte, 60)
			for i := range sp.body {
				sp.body[i] = byte(3 * i)
			}
			sp.kindOnly = k.decl+k.args > limChain // a chain only declared is written as it is; no reader decodes it
		}
		if !x.streamWith(&Plan{}, sp) {
			return false
		}
	}
	return x.around()
}

// limitStale: /DecodeParms without /Filter in the caller's dictionary, under 0, 1, 2 filters.
func (x *runner) limitStale() bool {
	stale := []pdf.Object{
		pdf.Dict{"Predictor": pdf.Integer(12), "Columns": pdf.Integer(4)},
		pdf.Array{pdf.Dict{"Predictor": pdf.Integer(12)}, nil},
		pdf.Array{}, pdf.Dict{}, pdf.Name("Bogus"), pdf.Integer(3),
	}
	chains := [][]pdf.Filter{
		nil, {pdf.FilterFlate{}}, {pdf.FilterASCIIHex{}}, {pdf.FilterFlate{Predictor: 12}},
		{pdf.FilterASCII85{}, pdf.FilterFlate{}}, {pdf.FilterFlate{Predictor: 11}, pdf.FilterRunLength{}}, {pdf.FilterLZW{}, pdf.FilterLZW{OffByOne: true}, pdf.FilterASCIIHex{}},
	}
	for _, s := range stale {
		for _, fs := range chains {
			if !x.around() {
				return false
			}
			sp := streamSpec{declShape: -1, haveFs: true, quiet: true, fs: fs, body: []byte("stale parms: twelve bytes and more"), dict: pdf.Dict{"DecodeParms": s, "X": pdf.Integer(1)}}
			if !x.streamWith(&Plan{}, sp) {
				return false
			}
		}
	}
	return x.around()
}

// limitNumbers: a Put under one of the last object numbers; Close needs up to three more.
func (x *runner) limitNumbers(plan *Plan) bool {
	// the page tree root first: Alloc panics, as documented, when no number is left
	pages, ok := x.alloc()
	if !ok || !x.put(pages, pdf.Dict{"Type": pdf.Name("Pages"), "Kids": pdf.Array{}, "Count": pdf.Integer(0)}) {
		return false
	}
	x.pages = pages
	n := uint32(limNumber - 1 - plan.LimitPos)
	ref := pdf.NewReference(n, 0)
	x.res.UserRefs = append(x.res.UserRefs, ref)
	x.res.Sparse = true
	x.res.MayEnd = true // Close finds no number left
	return x.put(ref, pdf.Name("High"))
}

// limitStrings: strings of 16 MiB - 1 and 16 MiB bytes (the cipher text counts).
func (x *runner) limitStrings(plan *Plan) bool {
	n := limString - 1 - 40 + plan.LimitPos // LimitPos 40: exactly at the limit less one
	mk := func(n int) pdf.String {
		b := make([]byte, n)
		for i := range b {
			b[i] = "abc(\\)\r\n\x00\xff"[i%10]
		}
		return pdf.String(b)
	}
	// first the longest string that is written, then (the Writer fails for good) one byte more
	for _, v := range []pdf.Object{mk(n), pdf.Array{mk(n + 1)}} {
		if !x.around() {
			return false
		}
		ref, ok := x.alloc()
		if !ok || !x.put(ref, v) {
			return false
		}
	}
	return x.around()
}

// limitCCITT: as many rows as the decoder returns, and one more.
func (x *runner) limitCCITT(plan *Plan) bool {
	cols := []int{8, 8, 16, 2048, 1 << 15}[plan.LimitPos%5]
	maxRows := min(1<<16, (128<<20)/cols)
	rows := maxRows
	if plan.LimitPos >= 5 {
		rows++
		x.res.MayEnd = true // the encoder refuses the row
	}
	body := make([]byte, rows*((cols+7)/8))
	for i := 0; i < len(body); i += 97 {
		body[i] = byte(i)
	}
	k := []int{0, -1, 0, -1, 0}[plan.LimitPos%5]
	sp := streamSpec{declShape: -1, haveFs: true, quiet: true, fs: []pdf.Filter{pdf.FilterCCITTFax{Columns: cols, K: k}}, body: body, dict: pdf.Dict{}}
	if !x.around() || !x.streamWith(&Plan{}, sp) {
		return false
	}
	return x.around()
}

// NumLimitValues is the number of values of a kind.
func NumLimitValues(kind int) int { return len(limitValues(kind)) }

// LimitSpecials: the sweeps as planned programs.
func LimitSpecials(thorough bool) []Special {
	var l []Special
	add := func(cfg Config, p Plan) {
		p.MaxOps = -1
		l = append(l, Special{cfg, p})
	}
	cfgs := []Config{{VIdx: 7}, {VIdx: 4, HR: true}, {VIdx: 6, Encrypt: true}, {VIdx: 3, Seek: true}, {VIdx: 8, HR: true, Encrypt: true}, {VIdx: 5, Seek: true}}
	for kind := 1; kind <= 3; kind++ {
		for idx := 0; idx < NumLimitValues(kind); idx++ {
			for pos := 0; pos < 4; pos++ {
				// every value in every position; the configuration rotates (with object streams and
				// without, compact and human readable, encrypted), all of them in the thorough tier
				add(cfgs[(kind+idx+pos)%len(cfgs)], Plan{Limit: kind, LimitIdx: idx, LimitPos: pos})
				if thorough {
					for k := 1; k < len(cfgs); k++ {
						add(cfgs[(kind+idx+pos+k)%len(cfgs)], Plan{Limit: kind, LimitIdx: idx, LimitPos: pos})
					}
				}
			}
		}
	}
	for idx := 0; idx < NumLimitValues(10); idx++ {
		for pos := 0; pos < 4; pos++ {
			add(cfgs[(idx+pos)%len(cfgs)], Plan{Limit: 10, LimitIdx: idx, LimitPos: pos})
			if thorough {
				add(cfgs[(idx+pos+3)%len(cfgs)], Plan{Limit: 10, LimitIdx: idx, LimitPos: pos})
			}
		}
	}
	for i, cfg := range cfgs {
		if i < 3 || thorough {
			add(cfg, Plan{Limit: 4})
			add(cfg, Plan{Limit: 5})
		}
	}
	// the last object numbers: the direct oracle only (the cross-reference section of the model
	// walks through every number below /Size)
	for pos := 0; pos < 5; pos++ {
		// 0, 1: Close finds no number left; 2..4: it does (a cross-reference stream of 2^24 rows:
		// seconds, so in the thorough tier)
		if pos < 2 || thorough {
			add(Config{VIdx: 7, Seek: pos%2 == 0}, Plan{Limit: 6, LimitPos: pos, NoModel: true})
		}
		if thorough {
			add(Config{VIdx: 5, Encrypt: true}, Plan{Limit: 6, LimitPos: pos, NoModel: true})
		}
	}
	// sizes of arrays and dictionaries (values of megabytes): Put of the largest array / dictionary
	// that is written and of the next larger one, with the model; everything else in the thorough tier
	for idx := 0; idx < NumLimitValues(7); idx++ {
		if thorough {
			for pos := 0; pos < 4; pos++ {
				add(cfgs[(idx+pos)%len(cfgs)], Plan{Limit: 7, LimitIdx: idx, LimitPos: pos})
			}
		} else if idx == 0 || idx == 1 || idx == 3 || idx == 4 {
			add(cfgs[idx%2], Plan{Limit: 7, LimitIdx: idx, LimitPos: idx % 2})
		}
	}
	// strings: the direct oracle only (the extracted model works on lists of numbers)
	add(Config{VIdx: 7}, Plan{Limit: 8, LimitPos: 40, NoModel: true})
	if thorough {
		add(Config{VIdx: 6, Encrypt: true}, Plan{Limit: 8, LimitPos: 0, NoModel: true}) // AES: 16 MiB - 41 bytes become 16 MiB - 8
		add(Config{VIdx: 4, HR: true}, Plan{Limit: 8, LimitPos: 40, NoModel: true})
		add(Config{VIdx: 4, Encrypt: true}, Plan{Limit: 8, LimitPos: 40, NoModel: true})
		for pos := 0; pos < 40; pos += 3 {
			add(Config{VIdx: 8, Encrypt: true}, Plan{Limit: 8, LimitPos: pos, NoModel: true})
		}
	}
	for pos := 0; pos < 10; pos++ {
		if pos%5 == 0 || thorough {
			add(Config{VIdx: 7}, Plan{Limit: 9, LimitPos: pos, NoModel: true})
		}
	}
	return l
}

// infoCodePoints: every code point up to U+017F and the other characters of PDFDocEncoding, some
// it does not have, and one outside the basic plane.
func infoCodePoints() []rune {
	var l []rune
	for r := rune(0); r <= 0x17f; r++ {
		l = append(l, r)
	}
	l = append(l, 0x192, 0x2c6, 0x2c7, 0x2d8, 0x2d9, 0x2da, 0x2db, 0x2dc, 0x2dd, 0x2013, 0x2014, 0x2018, 0x2019, 0x201a,
		0x201c, 0x201d, 0x201e, 0x2020, 0x2021, 0x2022, 0x2026, 0x2030, 0x2039, 0x203a, 0x2044, 0x20ac, 0x2122, 0x2212,
		0xfb01, 0xfb02, 0x2023, 0x20ab, 0x3b1, 0x65e5, 0xfeff, 0xfffd, 0x1f600)
	return l
}

// InfoSpecials: every one of these characters alone in a text field of the Info dictionary, between
// ASCII letters, and next to a character PDFDocEncoding does not have; seven fields per program;
// judged by the direct oracle (what is read back is what was written).
func InfoSpecials(thorough bool) []Special {
	var l []Special
	cps := infoCodePoints()
	cfgs := []Config{{VIdx: 7}, {VIdx: 4, HR: true}, {VIdx: 8}, {VIdx: 6, Encrypt: true}, {VIdx: 3, Seek: true}, {VIdx: 8, HR: true, Encrypt: true}}
	for i := 0; i < len(cps); i += 5 {
		var tx []string
		for k := 0; k < 5; k++ {
			tx = append(tx, string(cps[(i+k)%len(cps)]))
		}
		c := cps[i]
		tx = append(tx, "A"+string(c)+"z"+string(cps[(i+2)%len(cps)]), string(c)+"\u65e5"+string(cps[(i+3)%len(cps)]))
		l = append(l, Special{cfgs[(i/5)%len(cfgs)], Plan{InfoTexts: tx, MaxOps: -1, NoModel: true}})
		if thorough {
			l = append(l, Special{cfgs[(i/5+1)%len(cfgs)], Plan{InfoTexts: tx, MaxOps: -1, NoModel: true}})
			l = append(l, Special{cfgs[(i/5+2)%len(cfgs)], Plan{InfoTexts: tx, MaxOps: -1}})
		}
	}
	return l
}
