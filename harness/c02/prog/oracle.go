package prog

import (
	"bytes"
	"compress/zlib"
	"fmt"
	"io"
	"regexp"
	"sort"
	"strconv"
	"strings"

	"seehuhn.de/go/pdf"
)

const (
	SigF18      = "xref-stream-size-exceeds-8192+32*rawLen"
	SigDeferred = "deferred-stream-put-close-reports-duplicate"
	SigPreFilt  = "openstream-declared-chain-plus-filters"
	SigHuge     = "writecompressed-more-than-10000-objects-unreadable"
	SigTrace    = "refused-call-leaves-a-trace-in-the-file"
	SigStuck    = "writer-unusable-after-a-refused-call"
)

type Query struct {
	Ref  pdf.Reference
	Mode byte // 'v' value, 'k' kind only, 'c' stream on a declared chain: the data with only the first K filters undone
	K    int
}

// ChainObs renders /Filter and /DecodeParms of a stream dictionary as read.
func ChainObs(d pdf.Dict) string {
	return "F " + WireString(Norm(d["Filter"]), false) + " P " + WireString(Norm(d["DecodeParms"]), false)
}

// DecodeFirst undoes the cipher and the first k filters of the stream's chain (k < 0: all).
func DecodeFirst(r pdf.Getter, stm *pdf.Stream, k int) ([]byte, error) {
	s2 := *stm
	if k >= 0 {
		d := pdf.Dict{}
		for key, v := range stm.Dict {
			d[key] = v
		}
		var names, parms pdf.Array
		switch f := stm.Dict["Filter"].(type) {
		case pdf.Name:
			names = pdf.Array{f}
			parms = pdf.Array{stm.Dict["DecodeParms"]}
		case pdf.Array:
			names = f
			parms, _ = stm.Dict["DecodeParms"].(pdf.Array)
		}
		for len(parms) < len(names) {
			parms = append(parms, nil)
		}
		if k > len(names) {
			return nil, fmt.Errorf("the chain has %d filters, %d expected in front", len(names), k)
		}
		delete(d, "Filter")
		delete(d, "DecodeParms")
		if k > 0 {
			d["Filter"] = append(pdf.Array{}, names[:k]...)
			d["DecodeParms"] = append(pdf.Array{}, parms[:k]...)
		}
		s2.Dict = d
	}
	rd, err := pdf.DecodeStream(r, nil, &s2)
	if err != nil {
		return nil, err
	}
	defer rd.Close()
	return io.ReadAll(rd)
}

type Failure struct{ Sig, What string }

// ReadBack is the result of opening the produced file with the real Reader.
type ReadBack struct {
	OpenErr  error
	Reader   *pdf.Reader
	Root     pdf.Reference
	InfoRef  pdf.Reference
	Queries  []Query
	Obs      map[pdf.Reference]string // per query: what the real Reader returned
	Fails    []Failure
	RawStreams [][2][]byte // (raw, decoded) of every stream the real Reader delivers, where decoding needs go-pdf (filters other than Flate alone, encryption)
}

var (
	reStartxref = regexp.MustCompile(`startxref\s+(\d+)\s+%%EOF\s*$`)
	reLength    = regexp.MustCompile(`/Length (\d+)`)
	reSize      = regexp.MustCompile(`/Size (\d+)`)
)

// XRefStreamInfo returns /Size and /Length of the cross-reference stream at the end of file.
func XRefStreamInfo(file []byte) (size, rawLen int, ok bool) {
	tail := file
	if len(tail) > 64 {
		tail = tail[len(tail)-64:]
	}
	m := reStartxref.FindSubmatch(tail)
	if m == nil {
		return 0, 0, false
	}
	off, _ := strconv.Atoi(string(m[1]))
	if off >= len(file) || bytes.HasPrefix(file[off:], []byte("xref")) {
		return 0, 0, false
	}
	region := file[off:]
	if i := bytes.Index(region, []byte("stream")); i > 0 {
		region = region[:i]
	}
	// the /Encrypt dictionary has a /Length of its own and sorts before the stream's
	mls := reLength.FindAllSubmatch(region, -1)
	mss := reSize.FindAllSubmatch(region, -1)
	if mls == nil || mss == nil {
		return 0, 0, false
	}
	ml, ms := mls[len(mls)-1], mss[len(mss)-1]
	rawLen, _ = strconv.Atoi(string(ml[1]))
	size, _ = strconv.Atoi(string(ms[1]))
	return size, rawLen, true
}

// ZlibOracle inflates, with compress/zlib, whatever follows a "stream" keyword
// and is a complete zlib stream: (raw bytes consumed, inflated bytes).
func ZlibOracle(file []byte) [][2][]byte {
	var res [][2][]byte
	kw := []byte("stream")
	for i := 0; ; {
		j := bytes.Index(file[i:], kw)
		if j < 0 {
			break
		}
		p := i + j + len(kw)
		i = p
		if p < len(file) && file[p] == '\r' {
			p++
		}
		if p >= len(file) || file[p] != '\n' {
			continue
		}
		p++
		br := bytes.NewReader(file[p:])
		zr, err := zlib.NewReader(br)
		if err != nil {
			continue
		}
		out, err := io.ReadAll(zr)
		if err != nil {
			continue
		}
		consumed := len(file[p:]) - br.Len()
		res = append(res, [2][]byte{file[p : p+consumed], out})
	}
	return res
}

func kindOf(o pdf.Native) string {
	switch o.(type) {
	case nil:
		return "null"
	case *pdf.Stream:
		return "K stream"
	default:
		return "K obj"
	}
}

// Check opens res.File with the real Reader and runs the direct round-trip oracle.
func Check(res *Result) *ReadBack {
	rb := &ReadBack{Obs: map[pdf.Reference]string{}}
	fail := func(sig, f string, a ...any) {
		rb.Fails = append(rb.Fails, Failure{sig, fmt.Sprintf(f, a...)})
	}
	for _, m := range res.ArgsModified {
		fail("args-modified", "%s", m)
	}
	data := res.File
	r, err := pdf.NewReader(bytes.NewReader(data), int64(len(data)), &pdf.ReaderOptions{Password: "o"})
	if err != nil {
		rb.OpenErr = err
		if size, rawLen, ok := XRefStreamInfo(data); ok && size > 8192+32*rawLen {
			fail(SigF18, "Reader rejects the Writer's file: xref stream /Size %d > 8192+32*%d (%v)", size, rawLen, err)
		} else {
			fail("reader-rejects", "NewReader: %v", err)
		}
		return rb
	}
	rb.Reader = r
	meta := r.GetMeta()
	if meta.Version != res.Cfg.V() {
		fail("version", "version reads %v, written %v", meta.Version, res.Cfg.V())
	}
	if len(meta.ID) != len(res.ID) {
		fail("id", "ID reads %x, written %x", meta.ID, res.ID)
	} else {
		for i := range res.ID {
			if !bytes.Equal(meta.ID[i], res.ID[i]) {
				fail("id", "ID reads %x, written %x", meta.ID, res.ID)
			}
		}
	}
	if meta.Catalog == nil || meta.Catalog.Pages != res.Pages {
		fail("catalog", "Catalog.Pages does not round-trip")
	} else {
		wl, _ := res.CatDict["PageLayout"].(pdf.Name)
		wm, _ := res.CatDict["PageMode"].(pdf.Name)
		if meta.Catalog.PageLayout != wl || meta.Catalog.PageMode != wm {
			fail("catalog", "PageLayout/PageMode read %q/%q, written %q/%q", meta.Catalog.PageLayout, meta.Catalog.PageMode, wl, wm)
		}
	}
	if res.InfoDict == nil {
		if meta.Info != nil && (meta.Info.Title != "" || meta.Info.Author != "") {
			fail("info", "Info appears from nowhere: %+v", meta.Info)
		}
	} else if meta.Info == nil {
		fail("info", "Info reads nil, written %+v", res.Info)
	} else {
		cmp := func(field string, got, want pdf.TextString) {
			if got != want {
				fail("info", "Info.%s reads %+q, written %+q", field, string(got), string(want))
			}
		}
		cmp("Title", meta.Info.Title, res.Info.Title)
		cmp("Author", meta.Info.Author, res.Info.Author)
		cmp("Subject", meta.Info.Subject, res.Info.Subject)
		cmp("Keywords", meta.Info.Keywords, res.Info.Keywords)
		cmp("Creator", meta.Info.Creator, res.Info.Creator)
		cmp("Producer", meta.Info.Producer, res.Info.Producer)
		for k, v := range res.Info.Custom {
			cmp("Custom["+k+"]", pdf.TextString(meta.Info.Custom[k]), pdf.TextString(v))
		}
	}
	rb.Root, _ = meta.Trailer["Root"].(pdf.Reference)
	rb.InfoRef, _ = meta.Trailer["Info"].(pdf.Reference)

	// the references to look at
	want := map[pdf.Reference]*Want{}
	for k, v := range res.Want {
		want[k] = v
	}
	if rb.Root != 0 {
		want[rb.Root] = &Want{Obj: Norm(res.CatDict)}
	}
	if rb.InfoRef != 0 && res.InfoDict != nil {
		want[rb.InfoRef] = &Want{Obj: Norm(res.InfoDict)}
	}
	gens := map[uint32]uint16{}
	var lowMax, highMin, highMax uint32
	for _, ref := range res.UserRefs {
		gens[ref.Number()] = ref.Generation()
	}
	for ref := range want {
		gens[ref.Number()] = ref.Generation()
	}
	for n := range gens {
		if n >= 10000 {
			if highMin == 0 || n < highMin {
				highMin = n
			}
			if n > highMax {
				highMax = n
			}
		} else if n > lowMax {
			lowMax = n
		}
	}
	extra := uint32(2*res.NOps + 8)
	var nums []uint32
	for n := uint32(0); n <= lowMax+extra && n < 10000; n++ {
		nums = append(nums, n)
	}
	if highMin > 0 {
		for n := highMin - 1; n <= highMax+extra && n < 1<<24; n++ {
			nums = append(nums, n)
		}
	}
	if len(nums) > 2000 {
		// a huge batch: the Reader decodes the whole object stream for every Get, so look at a
		// sample - the ends, the places where the batch is split, and every 101st number
		var thin []uint32
		last := nums[len(nums)-1]
		for _, n := range nums {
			d1, d2 := int64(n)%10000, int64(last)-int64(n)
			isStream := false
			if w, ok := want[pdf.NewReference(n, gens[n])]; ok && w.IsStream {
				isStream = true // every stream is looked at (C03 takes its decoding oracle from here)
			}
			_, user := gens[n]
			// numbers the program does not know: the objects the Writer makes for itself (object
			// streams, indirect lengths), few, and C03's oracle for encrypted object streams
			if n < 40 || n%101 == 0 || d1 < 15 || d1 > 9985 || d2 < 60 || isStream || !user {
				thin = append(thin, n)
			}
		}
		nums = thin
	}
	probes := 0
	for _, n := range nums {
		ref := pdf.NewReference(n, gens[n])
		mode := byte('k')
		k := 0
		if w, ok := want[ref]; !ok && res.UnsureRefs[ref] {
			mode = 'k' // refused under a number picked blindly: it may be an object of the Writer's own
		} else if ok && w.KindOnly {
			mode = 'k'
		} else if ok && w.Declared {
			mode, k = 'c', w.NArgs
		} else if ok {
			mode = 'v'
		} else if _, user := gens[n]; user && !ok {
			mode = 'v' // allocated, never written
		}
		rb.Queries = append(rb.Queries, Query{ref, mode, k})
		if _, ok := want[ref]; !ok && res.UnsureRefs[ref] && ref.Generation() != 0 {
			// the object that has the number (one of the Writer's own, generation 0)
			rb.Queries = append(rb.Queries, Query{pdf.NewReference(n, 0), 'k', 0})
		}
		if _, ok := want[ref]; ok && probes < 3 {
			probes++
			rb.Queries = append(rb.Queries, Query{pdf.NewReference(n, gens[n]+1), 'v', 0})
		}
	}

	unsureNums := map[uint32]bool{}
	for ref := range res.UnsureRefs {
		unsureNums[ref.Number()] = true
	}
	show := func(o pdf.Native) string {
		if _, isStream := o.(*pdf.Stream); isStream {
			return "a stream"
		}
		return pdf.AsString(o)
	}
	for _, q := range rb.Queries {
		got, err := r.Get(q.Ref, true)
		w := want[q.Ref]
		if err != nil {
			rb.Obs[q.Ref] = "error"
			if w == nil && res.RefusedRefs[q.Ref] {
				fail(SigTrace, "the call that was to write %v was refused (%v), the calls behind it and Close were accepted, and the file has something under that number which cannot be read: Get(%v): %v", q.Ref, res.RefusedText, q.Ref, err)
			} else if w != nil && w.Declared {
				fail(SigPreFilt, "%v: %v", q.Ref, err)
			} else if res.HugeBatch && strings.Contains(err.Error(), "no valid /N") {
				fail(SigHuge, "WriteCompressed accepted more than 10000 objects; the Reader refuses the object stream: Get(%v): %v", q.Ref, err)
			} else {
				fail("get-error", "Get(%v): %v", q.Ref, err)
			}
			continue
		}
		stm, isStream := got.(*pdf.Stream)
		var decoded []byte
		var decErr error
		if isStream {
			raw, _ := io.ReadAll(stm.NewReader())
			rd, err := pdf.DecodeStream(r, nil, stm)
			if err == nil {
				decoded, err = io.ReadAll(rd)
			}
			decErr = err
			// an unfiltered stream of an unencrypted file is its own decoding: no table entry
			// (the table is keyed by the raw bytes, which must not be ambiguous)
			if err == nil && (stm.Dict["Filter"] != nil || res.Cfg.Encrypt) {
				rb.RawStreams = append(rb.RawStreams, [2][]byte{raw, decoded})
			}
		}
		var partial []byte
		var partErr error
		if q.Mode == 'k' {
			rb.Obs[q.Ref] = kindOf(got)
		} else if isStream {
			shown, shownErr := decoded, decErr
			if q.Mode == 'c' {
				partial, partErr = DecodeFirst(r, stm, q.K)
				shown, shownErr = partial, partErr
			}
			head := "T " + WireString(Norm(stripStreamKeys(stm.Dict)), false) + " " + ChainObs(stm.Dict)
			if shownErr != nil {
				rb.Obs[q.Ref] = head + " !"
			} else {
				rb.Obs[q.Ref] = head + " " + hx(shown)
			}
		} else if got == nil {
			rb.Obs[q.Ref] = "null"
		} else {
			rb.Obs[q.Ref] = "V " + WireString(Norm(got), false)
		}
		// the direct oracle
		switch {
		case w == nil:
			if res.RefusedRefs[q.Ref] && got != nil {
				fail(SigTrace, "the call that was to write %v was refused (%v), yet the file has an object under that number: %s", q.Ref, res.RefusedText, show(got))
			} else if unsureNums[q.Ref.Number()] {
				// refused, and the number may belong to an object the Writer made for itself
			} else if _, user := gens[q.Ref.Number()]; (user || q.Mode == 'v') && got != nil {
				fail("unwritten-not-null", "%v was never written (under this generation) and reads %s", q.Ref, show(got))
			}
		case w.KindOnly:
			if !isStream {
				fail("roundtrip-stream", "%v: stream reads as %T", q.Ref, got)
			}
		case w.Declared:
			// the caller's data was encoded with the chain its dictionary declares; OpenStream
			// put w.NArgs more filters on top: all of it undone gives the data, the filters of
			// OpenStream alone undone gives what was handed to Write
			if !isStream {
				fail(SigPreFilt, "%v: stream reads as %T", q.Ref, got)
			} else if decErr != nil || !bytes.Equal(decoded, w.Data) {
				fail(SigPreFilt, "%v: the dictionary declares a chain (%s as read back), %d filters were passed to OpenStream: the decoded data differs from the %d bytes the caller encoded (err=%v, %d bytes, first difference at %d)",
					q.Ref, ChainObs(stm.Dict), w.NArgs, len(w.Data), decErr, len(decoded), firstDiff(decoded, w.Data))
			} else if partErr != nil || !bytes.Equal(partial, w.Pre) {
				fail(SigPreFilt, "%v: undoing the %d filters passed to OpenStream does not give the bytes handed to Write (err=%v; chain as read back %s)", q.Ref, w.NArgs, partErr, ChainObs(stm.Dict))
			} else if !Eq(w.Obj, Norm(stripStreamKeys(stm.Dict))) {
				fail("roundtrip-stream-dict", "%v: dictionary reads %s, written %s", q.Ref, WireString(Norm(stripStreamKeys(stm.Dict)), false), WireString(w.Obj, false))
			}
		case w.IsStream:
			if !isStream {
				fail("roundtrip-stream", "%v: stream reads as %T", q.Ref, got)
			} else if decErr != nil {
				fail("roundtrip-stream", "%v: decoding fails: %v", q.Ref, decErr)
			} else if !bytes.Equal(decoded, w.Data) {
				fail("roundtrip-stream", "%v: %d bytes written, %d bytes read back, first difference at %d", q.Ref, len(w.Data), len(decoded), firstDiff(decoded, w.Data))
			} else if !Eq(w.Obj, Norm(stripStreamKeys(stm.Dict))) {
				fail("roundtrip-stream-dict", "%v: dictionary reads %s, written %s", q.Ref, WireString(Norm(stripStreamKeys(stm.Dict)), false), WireString(w.Obj, false))
			}
		default:
			if isStream || !Eq(w.Obj, Norm(got)) {
				gs := "stream"
				if !isStream {
					gs = WireString(Norm(got), false)
				}
				fail("roundtrip-value", "%v reads %s, written %s", q.Ref, gs, WireString(w.Obj, false))
			}
		}
	}
	return rb
}

func firstDiff(a, b []byte) int {
	n := min(len(a), len(b))
	for i := 0; i < n; i++ {
		if a[i] != b[i] {
			return i
		}
	}
	return n
}

// QueryString is the "Q ..." suffix of a case line.
func QueryString(qs []Query) string {
	var sb strings.Builder
	fmt.Fprintf(&sb, "Q %d", len(qs))
	for _, q := range qs {
		if q.Mode == 'c' {
			fmt.Fprintf(&sb, " %d %d c%d", q.Ref.Number(), q.Ref.Generation(), q.K)
		} else {
			fmt.Fprintf(&sb, " %d %d %c", q.Ref.Number(), q.Ref.Generation(), q.Mode)
		}
	}
	return sb.String()
}

// SortedFails groups failures by signature (first of each kind first).
func SortedFails(fs []Failure) []Failure {
	out := append([]Failure{}, fs...)
	sort.SliceStable(out, func(i, j int) bool { return out[i].Sig < out[j].Sig })
	return out
}

// Describe renders a program for a replay file.
func (res *Result) Describe() map[string]any {
	cut := func(s string, n int) string {
		if len(s) > n {
			return s[:n] + fmt.Sprintf("...(%d more characters)", len(s)-n)
		}
		return s
	}
	ops := make([]string, len(res.Desc))
	for i, d := range res.Desc {
		ops[i] = cut(d, 3000)
	}
	return map[string]any{
		"config":  res.Cfg.String(),
		"ops":     ops,
		"refused": res.RefusedText,
		"case":    cut(res.CaseLine(), 400000),
	}
}
