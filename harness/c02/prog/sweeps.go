package prog

import (
	"fmt"
	"strings"

	"seehuhn.de/go/pdf"
)

func filterNames(v pdf.Version, fs []pdf.Filter) string {
	var l []string
	for _, f := range fs {
		name, parms, _ := f.Info(v)
		l = append(l, string(name)+WireString(parms, false))
	}
	return "[" + strings.Join(l, " ") + "]"
}

// chainSweep writes one small stream per chain pattern in [ChainFrom, ChainTo): every length
// 1..8, every pattern of filters with and without parameters; with ChainDecl on top of a chain
// the dictionary declares.
func (x *runner) chainSweep(plan *Plan) bool {
	from, to, decl := plan.ChainFrom, plan.ChainTo, plan.ChainDecl
	plan.ChainFrom, plan.ChainTo = 0, 0
	for idx := from; idx < to; idx++ {
		sp := streamSpec{declShape: -1, haveFs: true, quiet: true}
		if decl > 0 {
			// variant idx/7 under no filter (idx%7 == 0) and the six patterns of one and two filters
			sp.declShape = decl - 1
			vs := DeclShapes[sp.declShape]
			sp.decl = vs[idx/7%len(vs)]
			if idx%7 > 0 {
				sp.fs = ChainPattern(x.cfg.V(), idx%7-1)
			}
			sp.body = declBody(x.r)
		} else {
			sp.fs = ChainPattern(x.cfg.V(), idx)
			sp.body = []byte("chain sweep, some data: 0123456789")[:idx%35]
		}
		if sp.body == nil {
			sp.body = []byte{}
		}
		if !x.streamWith(plan, sp) {
			return false
		}
		if decl > 0 && idx%7 == 0 {
			// the same pre-encoded stream by Put of a *Stream
			if !x.putDeclared(sp.declShape, sp.decl) {
				return false
			}
		}
	}
	return true
}

// putDeclared: Put of a *Stream whose dictionary declares the chain its data is encoded with.
func (x *runner) putDeclared(shape int, chain []pdf.Filter) bool {
	ref, ok := x.alloc()
	if !ok {
		return false
	}
	decl := make([]pdf.Filter, len(chain))
	for i := range decl {
		decl[i] = forVersion(x.cfg.V(), chain[i])
	}
	d := pdf.Dict{"Kind": pdf.Name("PutDeclared")}
	declare(d, x.cfg.V(), shape, decl)
	body := declBody(x.r)
	data, _ := encodeChain(x.cfg.V(), decl, body)
	x.res.PreFilter = true
	if !x.put(ref, pdf.NewStream(d, data)) {
		return false
	}
	if !x.lastRefused {
		// Put recorded the data as written; what all of the chain decodes to is the body
		x.res.Want[ref] = &Want{Obj: Norm(stripStreamKeys(d)), IsStream: true, Data: body, Declared: true, NArgs: 0, Pre: data}
	}
	return true
}

// ShortParmsSpecials: declared chains whose /DecodeParms array is shorter (or longer) than
// /Filter, under 0, 1 and 2 filters of OpenStream and by Put of a *Stream.  Only for C02: written
// as they are (no filter passed) these dictionaries are the caller's, and C03's strict validator
// wants one /DecodeParms entry per filter.
func ShortParmsSpecials() []Special {
	var l []Special
	for sh := 4; sh <= 6; sh++ {
		l = append(l, Special{[]Config{{VIdx: 7}, {VIdx: 4, HR: true}, {VIdx: 5, Encrypt: true}}[sh-4], Plan{ChainDecl: sh + 1, ChainFrom: 0, ChainTo: 7 * len(DeclShapes[sh]), MaxOps: -1}})
	}
	return l
}

// boundaryTail is a run of values in whose written form every kind of token that needs
// look-ahead occurs: names with #xx escapes deep inside the token (as elements, dictionary
// keys and values), strings with escaped delimiters, line ends and bytes written in octal
// or hexadecimal, references and integers that only the "R" tells apart, reals, keywords,
// and the closing delimiters of nested containers.
func boundaryTail(k int) []pdf.Object {
	tail := []pdf.Object{
		pdf.Name("Some Name(x)#y"),
		pdf.Dict{pdf.Name("k y#z"): pdf.Name("val/ue"), pdf.Name("n"): pdf.NewReference(12, 0)},
		pdf.String("a(b)c\\d\r\n\x00\xff)e("),
		pdf.NewReference(65535, 65535),
		pdf.Integer(7), pdf.Integer(0), pdf.Real(-0.5),
		pdf.String("\x80\x81\xfe\x01\x02\x7f"),
		pdf.Boolean(true), nil, pdf.Boolean(false),
		pdf.Array{pdf.Name("A B"), pdf.NewReference(1, 0), pdf.Array{}, pdf.Dict{}},
		pdf.Real(123456.789), pdf.Integer(-42),
		pdf.Name("#"), pdf.Name("a#"), pdf.Name("ab#2"), pdf.Name("abc#20"), pdf.Name("abcd\x00\xffz"),
		pdf.String("tail"),
	}
	// rotate, so that every kind of token also comes first and last
	k %= len(tail)
	return append(append([]pdf.Object{}, tail[k:]...), tail[:k]...)
}

func pad(n int) pdf.String {
	b := make([]byte, n)
	for i := range b {
		b[i] = 'x'
	}
	return pdf.String(b)
}

// boundarySweep: objects of 1..3 KB, the padding in front of the tail one byte longer every time.
func (x *runner) boundarySweep(plan *Plan) bool {
	kind, from, to := plan.BoundaryKind, plan.BoundaryFrom, plan.BoundaryTo
	plan.BoundaryKind = 0
	for l := from; l < to; l++ {
		ref, ok := x.alloc()
		if !ok {
			return false
		}
		obj := pdf.Array{pad(l)}
		obj = append(obj, boundaryTail(l)...)
		if l%2 == 0 {
			// a second tail behind the next kilobyte
			obj = append(obj, pad(900+l%7))
			obj = append(obj, boundaryTail(l/2)...)
		}
		switch kind {
		case 1:
			if !x.put(ref, obj) {
				return false
			}
		case 2:
			r2, ok := x.alloc()
			if !ok {
				return false
			}
			if !x.writeCompressed([]pdf.Reference{r2, ref}, []pdf.Object{pdf.Name(fmt.Sprintf("M %d", l)), obj}) {
				return false
			}
		default:
			// the end of a long dictionary, the stream keyword, its line end, the data and endstream
			d := pdf.Dict{"P": pad(l), "Q": pdf.Name("a b")}
			body := []byte("stream data\r\nendstream \nx")[:l%26]
			if l%3 == 0 {
				d = pdf.Dict{"A": pdf.Array{pad(l), pdf.Name("a#b")}}
			}
			if !x.put(ref, pdf.NewStream(d, body)) {
				return false
			}
		}
	}
	return true
}

// Special is a planned program.
type Special struct {
	Cfg  Config
	Plan Plan
}

var sweepCfgs = []Config{
	{VIdx: 7}, {VIdx: 4, HR: true}, {VIdx: 1}, {VIdx: 8, Seek: true}, {VIdx: 5, Encrypt: true},
	{VIdx: 3, Encrypt: true, HR: true}, {VIdx: 6, HR: true, Seek: true}, {VIdx: 2}, {VIdx: 8, Encrypt: true}, {VIdx: 0, Seek: true},
}

// ChainSpecials: every chain pattern once (ten programs of 51 streams), and every declared
// shape and variant under 0, 1 and 2 filters of OpenStream in every pattern (four programs).
func ChainSpecials() []Special {
	var l []Special
	for j := 0; j < 10; j++ {
		l = append(l, Special{sweepCfgs[j], Plan{ChainFrom: 51 * j, ChainTo: 51 * (j + 1), MaxOps: -1}})
	}
	for sh := 0; sh < 4; sh++ {
		l = append(l, Special{sweepCfgs[(3*sh+1)%len(sweepCfgs)], Plan{ChainDecl: sh + 1, ChainFrom: 0, ChainTo: 7 * len(DeclShapes[sh]), MaxOps: -1}})
	}
	return l
}

// TailLen is the length of the boundary tail as the Writer formats it (compact form).
func TailLen() int {
	var buf strings.Builder
	n := 0
	for k := 0; k < 3; k++ {
		buf.Reset()
		if err := pdf.Format(&buf, 0, pdf.Array(boundaryTail(k))); err != nil {
			panic(err)
		}
		n = max(n, buf.Len())
	}
	return n
}

// BoundarySpecials: the padding sweeps through a window as wide as the tail (plus the object
// header and some slack), in steps of one byte, so that the end of the reader's first 1024-byte
// buffer falls on every byte of the tail once; 48 objects per program.
func BoundarySpecials(thorough bool) []Special {
	var l []Special
	t := TailLen()
	add := func(cfg Config, kind, from, to int) {
		from = max(from, 0)
		for a := from; a < to; a += 48 {
			l = append(l, Special{cfg, Plan{BoundaryKind: kind, BoundaryFrom: a, BoundaryTo: min(a+48, to), MaxOps: -1, NoModel: true}})
		}
		// a few objects from the middle of the window also go through the model
		mid := (from + to) / 2
		l = append(l, Special{cfg, Plan{BoundaryKind: kind, BoundaryFrom: mid, BoundaryTo: min(mid+6, to), MaxOps: -1}})
	}
	lo, hi := 1024-t-70, 1024+8
	add(Config{VIdx: 7}, 1, lo, hi)
	add(Config{VIdx: 4, HR: true}, 1, lo-40, hi)
	add(Config{VIdx: 4, Encrypt: true}, 1, lo, hi) // RC4 keeps the lengths
	add(Config{VIdx: 7, Seek: true}, 2, lo-20, hi)
	add(Config{VIdx: 6}, 3, 1024-120, 1024+8)
	add(Config{VIdx: 3, HR: true}, 3, 1024-140, 1024+8)
	if thorough {
		add(Config{VIdx: 8, Encrypt: true}, 1, lo-32, hi)
		add(Config{VIdx: 5, Encrypt: true}, 2, lo-32, hi)
		add(Config{VIdx: 2}, 1, 0, lo)
		add(Config{VIdx: 5}, 2, 0, lo)
		add(Config{VIdx: 1, HR: true}, 3, 0, 1024-140)
	}
	return l
}
