package prog

import (
	"bytes"
	"fmt"
	"io"
	"math/rand/v2"
	"regexp"
	"strconv"
	"strings"

	"seehuhn.de/go/pdf"
)

// Sink is an in-memory sink.  It implements Flush, so the Writer uses it
// without a bufio layer and every byte the Writer emits is visible at once.
type Sink struct {
	Buf []byte
	pos int
}

func (s *Sink) Write(p []byte) (int, error) {
	end := s.pos + len(p)
	if end > len(s.Buf) {
		s.Buf = append(s.Buf, make([]byte, end-len(s.Buf))...)
	}
	copy(s.Buf[s.pos:], p)
	s.pos = end
	return len(p), nil
}
func (s *Sink) Flush() error { return nil }

// SeekSink additionally implements io.Seeker.
type SeekSink struct{ *Sink }

func (s SeekSink) Seek(off int64, wh int) (int64, error) {
	switch wh {
	case io.SeekStart:
		s.pos = int(off)
	case io.SeekCurrent:
		s.pos += int(off)
	case io.SeekEnd:
		s.pos = len(s.Buf) + int(off)
	}
	return int64(s.pos), nil
}

var Versions = []pdf.Version{pdf.V1_0, pdf.V1_1, pdf.V1_2, pdf.V1_3, pdf.V1_4, pdf.V1_5, pdf.V1_6, pdf.V1_7, pdf.V2_0}

type Config struct {
	VIdx    int
	HR      bool
	Seek    bool
	Encrypt bool
	UserPw  string
	NumID   int // 0: none given, 1, 2
}

func (c Config) V() pdf.Version { return Versions[c.VIdx] }

// Cipher code of the wire format: 0 none, 1 RC4-40, 2 RC4-128, 3 AES-128, 4 AES-256.
func (c Config) Cipher() int {
	if !c.Encrypt {
		return 0
	}
	switch {
	case c.VIdx < 4:
		return 1
	case c.VIdx < 6:
		return 2
	case c.VIdx < 8:
		return 3
	}
	return 4
}

func (c Config) String() string {
	return fmt.Sprintf("v=%s hr=%v seek=%v cipher=%d userpw=%q ids=%d", c.V(), c.HR, c.Seek, c.Cipher(), c.UserPw, c.NumID)
}

func (c Config) XRefStream() bool { return c.VIdx >= 5 && !c.HR }

// Plan selects the special situations a program is steered into.
type Plan struct {
	Sparse         bool // a Put under a high, sparse object number
	SparseHigh     bool // ... beyond 65535 (wider than any offset of a small file), followed by a WriteCompressed
	DeferredStream bool // Put of a *Stream while a stream is open
	PreFilter      bool // OpenStream with /Filter already in the dictionary and filters given
	Invalid        bool // one operation the Writer must refuse
	ZeroCompressed bool // WriteCompressed without objects
	AfterClose     bool // after Close, one more Put: it has to be refused
	Batch          int  // size of the next WriteCompressed batch (0: small, occasionally medium)
	MaxOps         int
	// PreShape > 0: the first stream declares a chain in its dictionary (shape PreShape-1 of
	// DeclShapes, variant PreVariant) and PreArgs (0..8) filters are passed on top; PreFilter
	// alone chooses all of this at random.
	PreShape, PreVariant, PreArgs int
	// ChainFrom < ChainTo: the program is a series of small streams, one per filter chain
	// pattern with index in [ChainFrom, ChainTo) (see ChainPattern); ChainDecl > 0 stacks every
	// one of them on the declared shape ChainDecl-1.
	ChainFrom, ChainTo, ChainDecl int
	// BoundaryKind > 0: the program is a sweep of large objects whose padding grows byte by
	// byte from BoundaryFrom to BoundaryTo, so that every token of the tail behind the padding
	// is cut by the reader's buffer boundary at every position (1 direct objects, 2 members of
	// object streams, 3 stream dictionaries / the stream keyword)
	BoundaryKind, BoundaryFrom, BoundaryTo int
	// NoModel: the program is judged by the direct oracle alone (real Writer, real Reader, value by
	// value); the model, which does not depend on positions, sees a sample of these programs only
	NoModel bool
	// Limit > 0: the program is a sweep of values at the reader's limits (see LimitKinds)
	Limit, LimitIdx, LimitPos int
	// InfoTexts: the text fields of the Info dictionary (Title, Author, Subject, Keywords, Creator,
	// Producer, Custom["X"]), to be read back exactly
	InfoTexts []string
}

// BatchSizes are the sizes of WriteCompressed batches that get explored beyond the small ones:
// around powers of two and around 100, a multiple of nothing, and a large one.
var BatchSizes = []int{31, 32, 33, 99, 100, 101, 150, 255, 256, 257, 1000}

type Want struct {
	Obj      pdf.Object // normalised snapshot of what was written (streams: the user's dictionary)
	IsStream bool
	Data     []byte
	KindOnly bool // only that it is a stream is checked
	Declared bool // the caller's dictionary declares a chain; Data is what all of it decodes to
	NArgs    int  // the number of filters passed to OpenStream
	Pre      []byte // Declared: the bytes handed to Write (encoded with the declared chain)
}

type argRec struct {
	op  int
	obj pdf.Object
	fp  string
}

type Result struct {
	Cfg      Config
	Tokens   []string // the operations in the wire format
	NOps     int
	Desc     []string // human-readable operations (replay files)
	ErrIdx   int      // -1: every operation accepted; -2: NewWriter refused
	ErrClass string
	ErrText  string
	File     []byte
	Want     map[pdf.Reference]*Want
	UserRefs []pdf.Reference // allocated or used by the program, in order
	ID       [][]byte
	Info     *pdf.Info
	Pages    pdf.Reference
	CatDict  pdf.Dict
	InfoDict pdf.Dict
	ArgsModified []string
	DeferredStreamAccepted bool
	DeferredCloseFailed    bool // ... and the Close of the enclosing stream then failed
	Provoked bool // the program contains an operation that may legitimately be refused
	Sparse   bool
	PreFilter bool
	AfterCloseAccepted string // a Put after Close was accepted (how many bytes it appended)
	HugeBatch bool // a WriteCompressed call with more than 10000 objects was accepted
	Limits    bool   // a sweep along the reader's limits
	MayEnd    bool   // ... in which an operation other than Put, WriteCompressed, OpenStream may fail
	RefusedRefs map[pdf.Reference]bool // the references of refused calls
	UnsureRefs  map[pdf.Reference]bool // ... where the number was picked blindly: an object the Writer made for itself may have it
	Refused   []int  // Put, WriteCompressed, OpenStream calls that were refused; the program went on
	RefusedText []string
}

type runner struct {
	r     *rand.Rand
	cfg   Config
	res   *Result
	w     *pdf.Writer
	sink  *Sink
	args  []argRec
	pend  []pdf.Reference // allocated, not yet written
	pages pdf.Reference   // the page tree root, if it has been written already
	vals  []pdf.Object    // values Put earlier (to write the same value again)
	inStream bool
	final    bool
	curRefs     []pdf.Reference // the references the current call is about
	blind       map[pdf.Reference]bool // numbers picked without asking Alloc
	lastRefused bool // the operation just finished was refused (and the program goes on)
	safe     bool // a planned program: no operation that may legitimately be refused (it would end the program before the file exists)
}

func (x *runner) tok(f string, a ...any) { x.res.Tokens = append(x.res.Tokens, fmt.Sprintf(f, a...)) }
func (x *runner) desc(f string, a ...any) {
	x.res.Desc = append(x.res.Desc, fmt.Sprintf(f, a...))
}

func (x *runner) remember(o pdf.Object) {
	if x.res.Limits {
		return // values of megabytes; the arguments are watched in every other program
	}
	x.args = append(x.args, argRec{op: x.res.NOps, obj: o, fp: FP(o)})
}

func (x *runner) checkArgs() {
	// every argument after every operation; in huge programs every 500th operation (and at the end)
	if len(x.args) > 2000 && x.res.NOps%500 != 0 && !x.final {
		return
	}
	for i := range x.args {
		a := &x.args[i]
		if a.fp != "" && FP(a.obj) != a.fp {
			x.res.ArgsModified = append(x.res.ArgsModified,
				fmt.Sprintf("argument of op %d changed (seen after op %d): before %s after %s", a.op, x.res.NOps, a.fp, FP(a.obj)))
			a.fp = ""
		}
	}
}

type nopCloser struct{ io.Writer }

func (nopCloser) Close() error { return nil }

var reLenObj = regexp.MustCompile(`(\d+) 0 obj\n\d+\nendobj\n\n?$`)

// big reports whether the object stream that WriteCompressed has just written
// left the 1024-byte buffering mode: on a non-seekable sink its /Length is then
// an indirect integer object, the last thing written.  (On a seekable sink the
// difference is not observable in what a reader returns.)  For streams whose
// data the harness knows, the flag is computed instead (filter output length,
// cipher length formula).
func (x *runner) big() int {
	if x.cfg.Seek {
		return 0
	}
	tail := x.sink.Buf
	if len(tail) > 64 {
		tail = tail[len(tail)-64:]
	}
	m := reLenObj.FindSubmatch(tail)
	if m == nil {
		return 0
	}
	n, _ := strconv.Atoi(string(m[1]))
	for _, r := range x.res.UserRefs {
		if int(r.Number()) == n {
			return 0
		}
	}
	return 1
}

// objStmFlags: for every object stream a WriteCompressed call writes (one per 10000
// objects), whether its encoded data reaches 1024 bytes.  The data is the text
// WriteCompressed assembles ("num offset" lines, the formatted objects separated
// by LF), deflated; the cipher changes the length by a formula.
func (x *runner) objStmFlags(refs []pdf.Reference, objs []pdf.Object) string {
	if len(refs) != len(objs) || len(objs) == 0 || !x.cfg.XRefStream() {
		return "0"
	}
	var flags []string
	for len(objs) > 0 {
		k := min(len(objs), 10000)
		var head, body bytes.Buffer
		for i := 0; i < k; i++ {
			fmt.Fprintf(&head, "%d %d\n", refs[i].Number(), body.Len())
			if i < k-1 {
				pdf.Format(&body, x.w.GetOptions(), objs[i])
				body.WriteByte('\n')
			}
		}
		pdf.Format(&body, x.w.GetOptions(), objs[k-1])
		var out bytes.Buffer
		enc, err := pdf.FilterFlate{}.Encode(x.cfg.V(), nopCloser{&out})
		if err != nil {
			return "0"
		}
		enc.Write(head.Bytes())
		enc.Write(body.Bytes())
		enc.Close()
		if x.cfg.encLen(out.Len()) >= 1024 {
			flags = append(flags, "1")
		} else {
			flags = append(flags, "0")
		}
		refs, objs = refs[k:], objs[k:]
	}
	return fmt.Sprintf("%d %s", len(flags), strings.Join(flags, " "))
}

// call runs one Writer call, turning a panic into an error class.
func (x *runner) call(f func() error) (cls string, text string) {
	defer func() {
		if p := recover(); p != nil {
			cls, text = "panic", fmt.Sprint(p)
		}
	}()
	if err := f(); err != nil {
		return "other", err.Error()
	}
	return "", ""
}

// step finishes one operation: argument check, error bookkeeping.  Returns false to stop.
func (x *runner) step(cls, text string) bool { return x.stepR(cls, text, false) }

// stepR: a refusal of Put, WriteCompressed or OpenStream (resumable) is not the end of the
// program: a refused call leaves the Writer as it was, whatever comes next must work as if the
// call had not been made.
func (x *runner) stepR(cls, text string, resumable bool) bool {
	idx := x.res.NOps
	x.res.NOps++
	x.checkArgs()
	x.lastRefused = false
	if cls == "other" && resumable {
		x.lastRefused = true
		if x.res.RefusedRefs == nil {
			x.res.RefusedRefs = map[pdf.Reference]bool{}
		}
		for _, r := range x.curRefs {
			if x.blind[r] {
				if x.res.UnsureRefs == nil {
					x.res.UnsureRefs = map[pdf.Reference]bool{}
				}
				x.res.UnsureRefs[r] = true
			} else {
				x.res.RefusedRefs[r] = true
			}
		}
		x.res.Refused = append(x.res.Refused, idx)
		x.res.RefusedText = append(x.res.RefusedText, fmt.Sprintf("op %d: %s", idx, text))
		return true
	}
	if cls != "" {
		x.res.ErrIdx = idx
		x.res.ErrClass = cls
		x.res.ErrText = text
		return false
	}
	return true
}

func (x *runner) alloc() (pdf.Reference, bool) {
	var ref pdf.Reference
	cls, text := x.call(func() error { ref = x.w.Alloc(); return nil })
	x.tok("A")
	x.desc("Alloc -> %v", ref)
	if !x.step(cls, text) {
		return 0, false
	}
	x.res.UserRefs = append(x.res.UserRefs, ref)
	return ref, true
}

// encLen is the number of bytes the document cipher makes of n bytes of stream
// data: RC4 keeps the length, AES-CBC adds a 16-byte IV and PKCS#7 padding.
func (c Config) encLen(n int) int {
	switch c.Cipher() {
	case 3, 4:
		return 16 + (n/16+1)*16
	}
	return n
}

// wirePObj: a *Stream carries the flag "its encoded data reaches 1024 bytes",
// which the model needs when the Put is deferred (a *Stream has no filters of
// its own, so only the cipher changes the length).
func (x *runner) wirePObj(o pdf.Object) string {
	if s, ok := o.(*pdf.Stream); ok {
		data, _ := io.ReadAll(s.NewReader())
		big := 0
		if x.cfg.encLen(len(data)) >= 1024 {
			big = 1
		}
		return fmt.Sprintf("s %s %s %d", WireString(s.Dict, false), hx(data), big)
	}
	return "o " + WireString(o, false)
}

func (x *runner) genDict() pdf.Dict {
	d := pdf.Dict{}
	for i := x.r.IntN(3); i > 0; i-- {
		k := pdf.Name(rbytes(x.r, 3))
		if k == "Length" || k == "Filter" || k == "DecodeParms" {
			continue
		}
		d[k] = GenObj(x.r, 1, x.res.UserRefs)
	}
	return d
}

func (x *runner) genBody() []byte {
	n := []int{0, 1, 5, 100, 1023, 1024, 1025, 3000, 700, 1500}[x.r.IntN(10)]
	if x.r.IntN(40) == 0 {
		n = 10500
	}
	b := make([]byte, n)
	for i := range b {
		b[i] = alpha[x.r.IntN(len(alpha))]
	}
	if n > 30 && x.r.IntN(2) == 0 {
		copy(b[x.r.IntN(n-20):], "\nendstream\nendobj\n")
	}
	if n > 12 && x.r.IntN(4) == 0 {
		copy(b, "endstream")
	}
	if n > 12 && x.r.IntN(4) == 0 {
		copy(b[n-10:], "\nendstream")
	}
	if n > 0 && x.r.IntN(3) == 0 {
		b[n-1] = []byte{'\r', '\n'}[x.r.IntN(2)]
	}
	if n > 1 && x.r.IntN(3) == 0 {
		b[0] = []byte{'\r', '\n'}[x.r.IntN(2)]
	}
	return b
}

// pickRef chooses the reference for a Put/OpenStream.  ok=false: the program has ended.
func (x *runner) pickRef() (pdf.Reference, bool) {
	switch k := x.r.IntN(25); {
	case k < 3 && len(x.pend) > 0:
		i := x.r.IntN(len(x.pend))
		ref := x.pend[i]
		x.pend = append(x.pend[:i], x.pend[i+1:]...)
		return ref, true
	case k == 3 && !x.safe:
		// any small number, in use or not - also 0, which no object may have
		ref := pdf.NewReference(uint32(x.r.IntN(61)), BoundaryGens[x.r.IntN(len(BoundaryGens))])
		if x.r.IntN(6) == 0 {
			ref = pdf.NewReference(0, 0)
		}
		x.res.UserRefs = append(x.res.UserRefs, ref)
		x.res.Provoked = true // may collide with a number in use
		if x.blind == nil {
			x.blind = map[pdf.Reference]bool{}
		}
		x.blind[ref] = true
		return ref, true
	default:
		return x.alloc()
	}
}

func (x *runner) genValue() pdf.Object {
	switch k := x.r.IntN(20); {
	case k < 3 && len(x.vals) > 0:
		return x.vals[x.r.IntN(len(x.vals))] // the same value once more
	case k == 3:
		d := x.genDict()
		return pdf.NewStream(d, x.genBody())
	case k == 4:
		return nil
	case k == 5:
		return pdf.String(rbytes(x.r, 30))
	default:
		return GenObj(x.r, 0, x.res.UserRefs)
	}
}

// snapshot is taken BEFORE the value is handed to the Writer.
func snapshot(o pdf.Object) *Want {
	if s, ok := o.(*pdf.Stream); ok {
		data, _ := io.ReadAll(s.NewReader())
		return &Want{Obj: Norm(stripStreamKeys(s.Dict)), IsStream: true, Data: data}
	}
	return &Want{Obj: Norm(o)}
}

func (x *runner) noteWritten(ref pdf.Reference, w *Want) {
	if _, dup := x.res.Want[ref]; dup {
		return
	}
	x.res.Want[ref] = w
}

func stripStreamKeys(d pdf.Dict) pdf.Dict {
	r := pdf.Dict{}
	for k, v := range d {
		if k == "Length" || k == "Filter" || k == "DecodeParms" {
			continue
		}
		r[k] = v
	}
	return r
}

// put performs Put(ref, o).  During an open stream the Put is deferred.
func (x *runner) put(ref pdf.Reference, o pdf.Object) bool {
	x.remember(o)
	x.desc("Put(%v, %s)", ref, x.wirePObj(o))
	_, isStream := o.(*pdf.Stream)
	snap := snapshot(o)
	cls, text := x.call(func() error { return x.w.Put(ref, o) })
	pbig := 0
	if stm, ok := o.(*pdf.Stream); ok && x.cfg.encLen(int(stm.Length())) >= 1024 {
		pbig = 1
	}
	x.tok("U %d %d %s %d", ref.Number(), ref.Generation(), x.wirePObj(o), pbig)
	if cls == "" {
		x.noteWritten(ref, snap)
		if _, s := o.(*pdf.Stream); !s {
			x.vals = append(x.vals, o)
		}
		if x.inStream && isStream {
			x.res.DeferredStreamAccepted = true
		}
	}
	x.curRefs = []pdf.Reference{ref}
	return x.stepR(cls, text, true)
}

var filterChoices = []pdf.Filter{pdf.FilterFlate{}, pdf.FilterASCII85{}, pdf.FilterASCIIHex{}, pdf.FilterRunLength{}, pdf.FilterLZW{}}

func (x *runner) genFilters() []pdf.Filter {
	var fs []pdf.Filter
	if x.r.IntN(5) == 0 {
		// any chain of 1..8 filters, any pattern of parameters
		return ChainPattern(x.cfg.V(), x.r.IntN(NumChainPatterns))
	}
	for j := []int{0, 0, 1, 1, 2, 3}[x.r.IntN(6)]; j > 0; j-- {
		f := filterChoices[x.r.IntN(len(filterChoices))]
		if _, isFlate := f.(pdf.FilterFlate); isFlate && x.cfg.VIdx < 2 {
			continue
		}
		fs = append(fs, f)
	}
	return fs
}

// streamSpec fixes what a stream is made of; nil fields are chosen at random.
type streamSpec struct {
	fs        []pdf.Filter // the filters passed to OpenStream
	haveFs    bool
	declShape int          // -1: the dictionary declares no chain
	decl      []pdf.Filter
	body      []byte
	quiet     bool // one Write, nothing in between
	dict      pdf.Dict     // the dictionary (nil: random)
	deferred  []pdf.Object // values Put while the stream is open
	kindOnly  bool         // the data is not expected to decode (a declared chain no reader accepts)
}

// stream runs OpenStream ... Close with the in-stream operations chosen at random.
func (x *runner) stream(plan *Plan) bool {
	sp := streamSpec{declShape: -1}
	if plan.PreFilter || plan.PreShape > 0 {
		shape, variant, nargs := x.r.IntN(4), x.r.IntN(8), []int{0, 1, 1, 2, 2, 3, 5}[x.r.IntN(7)]
		if plan.PreShape > 0 {
			shape, variant, nargs = plan.PreShape-1, plan.PreVariant, plan.PreArgs
		}
		plan.PreFilter, plan.PreShape = false, 0
		sp.declShape = shape
		sp.decl = DeclShapes[shape][variant%len(DeclShapes[shape])]
		sp.haveFs = true
		for i := 0; i < nargs; i++ {
			if x.r.IntN(2) == 0 {
				sp.fs = append(sp.fs, withParm[x.r.IntN(len(withParm))])
			} else {
				sp.fs = append(sp.fs, noParm[x.r.IntN(len(noParm))])
			}
		}
	}
	return x.streamWith(plan, sp)
}

func (x *runner) streamWith(plan *Plan, sp streamSpec) bool {
	ref, ok := x.pickRef()
	if !ok {
		return false
	}
	d := x.genDict()
	if sp.dict != nil {
		d = pdf.Dict{}
		for k, v := range sp.dict {
			d[k] = v
		}
	}
	fs := append([]pdf.Filter{}, sp.fs...)
	if !sp.haveFs {
		fs = x.genFilters()
	}
	for i := range fs {
		fs[i] = forVersion(x.cfg.V(), fs[i])
	}
	body := sp.body
	if body == nil {
		body = x.genBody()
		if sp.declShape >= 0 {
			body = declBody(x.r)
		}
	}
	toWrite := body
	pre := sp.declShape >= 0
	if pre {
		x.res.PreFilter = true
		decl := make([]pdf.Filter, len(sp.decl))
		for i := range decl {
			decl[i] = forVersion(x.cfg.V(), sp.decl[i])
		}
		// the caller has encoded the data already and says so in the dictionary
		for _, o := range declare(d, x.cfg.V(), sp.declShape, decl) {
			x.remember(o)
		}
		toWrite, _ = encodeChain(x.cfg.V(), decl, body)
	} else if len(fs) == 0 && !x.cfg.Encrypt && x.r.IntN(8) == 0 {
		// a caller-supplied /Length
		l := len(body)
		if x.r.IntN(4) == 0 && !x.safe {
			l++
			x.res.Provoked = true
		}
		d["Length"] = pdf.Integer(l)
	}
	x.remember(d)
	var ftoks []string
	for _, f := range fs {
		name, parms, err := f.Info(x.cfg.V())
		if err != nil {
			panic(err)
		}
		if parms == nil {
			parms = pdf.Dict{}
		}
		ftoks = append(ftoks, hx([]byte(name))+" "+WireString(parms, false))
	}
	// what each filter of the chain makes of its input (innermost first): the
	// model takes the filter encoders from this table (filter name, parameters, input)
	var etoks []string
	cur, steps := encodeChain(x.cfg.V(), fs, toWrite)
	for _, st := range steps {
		name, parms, _ := fs[st.Pos].Info(x.cfg.V())
		if parms == nil {
			parms = pdf.Dict{}
		}
		etoks = append(etoks, hx([]byte(name))+" "+WireString(parms, false)+" "+hx(st.In)+" "+hx(st.Out))
	}
	// whether the encoded data reaches 1024 bytes: the filters' output is known, the cipher's length is a formula
	sbig := 0
	if x.cfg.encLen(len(cur)) >= 1024 {
		sbig = 1
	}
	x.tok("O %d %d %s %d %s E %d %s", ref.Number(), ref.Generation(), WireString(d, false), len(fs), strings.Join(ftoks, " "), len(etoks), strings.Join(etoks, " "))
	x.desc("OpenStream(%v, %s, filters %s)", ref, WireString(d, false), filterNames(x.cfg.V(), fs))
	var ws io.WriteCloser
	want := &Want{Obj: Norm(stripStreamKeys(d)), IsStream: true, Data: body, Declared: pre, NArgs: len(fs), Pre: toWrite, KindOnly: sp.kindOnly}
	cls, text := x.call(func() error {
		var err error
		ws, err = x.w.OpenStream(ref, d, fs...)
		return err
	})
	x.curRefs = []pdf.Reference{ref}
	if !x.stepR(cls, text, true) {
		return false
	}
	if x.lastRefused {
		return true // nothing was opened
	}
	x.inStream = true
	if _, dup := x.res.Want[ref]; !dup {
		x.res.Want[ref] = want
	}

	// chunks
	nchunks := 1 + x.r.IntN(3)
	if sp.quiet {
		nchunks = 1
	}
	rest := toWrite
	for c := 0; c < nchunks; c++ {
		var chunk []byte
		if c == nchunks-1 {
			chunk = rest
		} else {
			k := 0
			if len(rest) > 0 {
				k = x.r.IntN(len(rest) + 1)
			}
			chunk = rest[:k]
		}
		rest = rest[len(chunk):]
		before := len(x.sink.Buf)
		cp := append([]byte{}, chunk...)
		cls, text := x.call(func() error { _, err := ws.Write(chunk); return err })
		started := len(x.sink.Buf) > before
		if !bytes.Equal(cp, chunk) {
			x.res.ArgsModified = append(x.res.ArgsModified, "Write modified its argument")
		}
		st := 0
		if started {
			st = 1
		}
		x.tok("W %s %d", hx(chunk), st)
		x.desc("Write(%d bytes) started=%v", len(chunk), started)
		if !x.step(cls, text) {
			return false
		}
		// between the chunks: usually nothing, sometimes a burst of deferred operations
		burst := []int{0, 0, 0, 1, 1, 2, 3, 5}[x.r.IntN(8)]
		if sp.quiet {
			burst = 0
		}
		for ; burst > 0; burst-- {
			switch k := x.r.IntN(10); {
			case k < 5:
				dref, ok := x.alloc()
				if !ok {
					return false
				}
				if !x.put(dref, GenObj(x.r, 0, x.res.UserRefs)) {
					return false
				}
			case k < 7:
				if _, ok := x.alloc(); !ok {
					return false
				}
			case k == 7 && len(x.pend) > 0:
				if !x.put(x.pend[0], x.genValue()) {
					return false
				}
				x.pend = x.pend[1:]
			case k == 8 && plan.Invalid:
				plan.Invalid = false
				x.res.Provoked = true
				// refused while a stream is open
				switch x.r.IntN(3) {
				case 0:
					x.tok("O 77 0 D0 0 E 0")
					x.desc("OpenStream while open")
					cls, text := x.call(func() error { _, err := x.w.OpenStream(pdf.NewReference(77, 0), pdf.Dict{}); return err })
					if !x.stepR(cls, text, true) || !x.lastRefused {
						return false // accepted: the harness has no handle on that stream
					}
				case 1:
					x.tok("C 1 78 0 1 o i1 1 0")
					x.desc("WriteCompressed while open")
					cls, text := x.call(func() error { return x.w.WriteCompressed([]pdf.Reference{pdf.NewReference(78, 0)}, pdf.Integer(1)) })
					if !x.stepR(cls, text, true) {
						return false
					}
				default:
					x.tok("Z D0 0")
					x.desc("Close while open")
					cls, text := x.call(func() error { return x.w.Close() })
					return x.step(cls, text)
				}
			}
		}
		if c == 0 {
			for _, v := range sp.deferred {
				dref, ok := x.alloc()
				if !ok || !x.put(dref, v) {
					return false
				}
			}
		}
		if plan.DeferredStream && c == 0 {
			plan.DeferredStream = false
			dref, ok := x.alloc()
			if !ok {
				return false
			}
			if x.r.IntN(2) == 0 {
				d2, ok := x.alloc()
				if !ok {
					return false
				}
				if !x.put(d2, pdf.Integer(5)) {
					return false
				}
			}
			if !x.put(dref, pdf.NewStream(x.genDict(), x.genBody())) {
				return false
			}
		}
	}
	x.desc("CloseStream")
	cls, text = x.call(func() error { return ws.Close() })
	x.inStream = false
	if cls == "other" && x.res.DeferredStreamAccepted {
		x.res.DeferredCloseFailed = true
	}
	x.tok("S %d", sbig)
	return x.step(cls, text)
}

func (x *runner) compressed(plan *Plan) bool {
	k := 1 + x.r.IntN(3)
	if plan.Batch > 0 {
		k = plan.Batch
		plan.Batch = 0
	} else if x.r.IntN(40) == 0 {
		k = BatchSizes[x.r.IntN(len(BatchSizes)-1)] // medium sizes at random; 1000 only when planned
	}
	if plan.ZeroCompressed {
		plan.ZeroCompressed = false
		k = 0
	}
	var refs []pdf.Reference
	var objs []pdf.Object
	for j := 0; j < k; j++ {
		ref, ok := x.alloc()
		if !ok {
			return false
		}
		o := x.genValue()
		if k > 8 {
			// many small, distinguishable values
			switch j % 3 {
			case 0:
				o = pdf.Integer(j)
			case 1:
				o = pdf.String(fmt.Sprintf("s%d)", j))
			default:
				o = pdf.Array{pdf.Name(fmt.Sprintf("N%d", j)), pdf.Integer(-j)}
			}
		}
		if _, isRef := o.(pdf.Reference); isRef {
			o = pdf.Integer(7)
		}
		if _, isStm := o.(*pdf.Stream); isStm {
			o = pdf.Name("NoStream")
		}
		refs = append(refs, ref)
		objs = append(objs, o)
	}
	// the references need not come in the order of their numbers: descending, or shuffled
	if k >= 2 {
		switch x.r.IntN(3) {
		case 1:
			for i, j := 0, len(refs)-1; i < j; i, j = i+1, j-1 {
				refs[i], refs[j] = refs[j], refs[i]
				objs[i], objs[j] = objs[j], objs[i]
			}
		case 2:
			x.r.Shuffle(len(refs), func(i, j int) {
				refs[i], refs[j] = refs[j], refs[i]
				objs[i], objs[j] = objs[j], objs[i]
			})
		}
	}
	if plan.Invalid && k > 0 {
		plan.Invalid = false
		x.res.Provoked = true
		switch x.r.IntN(5) {
		case 4:
			refs[len(refs)-1] = pdf.NewReference(0, 0)
		case 0:
			objs = objs[:len(objs)-1]
		case 1:
			refs[0] = pdf.NewReference(refs[0].Number(), 1)
		case 2:
			objs[len(objs)-1] = pdf.NewReference(1, 0)
		default:
			objs[0] = pdf.NewStream(pdf.Dict{}, []byte("x"))
		}
	}
	return x.writeCompressed(refs, objs)
}

// writeCompressed performs WriteCompressed(refs, objs...).
func (x *runner) writeCompressed(refs []pdf.Reference, objs []pdf.Object) bool {
	var sb strings.Builder
	fmt.Fprintf(&sb, "C %d", len(refs))
	for _, r := range refs {
		fmt.Fprintf(&sb, " %d %d", r.Number(), r.Generation())
	}
	fmt.Fprintf(&sb, " %d", len(objs))
	for _, o := range objs {
		x.remember(o)
		sb.WriteString(" " + x.wirePObj(o))
	}
	if len(refs) > 40 {
		x.desc("WriteCompressed(%v ... %v, %d objects)", refs[0], refs[len(refs)-1], len(objs))
	} else {
		x.desc("WriteCompressed(%v, %d objects)", refs, len(objs))
	}
	var snaps []*Want
	for _, o := range objs {
		snaps = append(snaps, snapshot(o))
	}
	cls, text := x.call(func() error { return x.w.WriteCompressed(refs, objs...) })
	x.tok("%s %s", sb.String(), x.objStmFlags(refs, objs))
	if cls == "" {
		for i := range objs {
			x.noteWritten(refs[i], snaps[i])
			x.vals = append(x.vals, objs[i])
		}
	}
	x.curRefs = refs
	return x.stepR(cls, text, true)
}

// Run generates a program op by op and runs it on the real Writer.
func Run(r *rand.Rand, cfg Config, plan Plan) *Result {
	res := &Result{Cfg: cfg, ErrIdx: -1, Want: map[pdf.Reference]*Want{}}
	x := &runner{r: r, cfg: cfg, res: res, safe: plan.MaxOps != 0 && !plan.Invalid}
	opt := &pdf.WriterOptions{HumanReadable: cfg.HR}
	if cfg.Encrypt {
		opt.UserPassword = cfg.UserPw
		opt.OwnerPassword = "o"
		opt.UserPermissions = pdf.PermAll
	}
	for i := 0; i < cfg.NumID; i++ {
		id := make([]byte, 16)
		for j := range id {
			id[j] = byte(r.IntN(256))
		}
		opt.ID = append(opt.ID, id)
	}
	x.sink = &Sink{}
	var out io.Writer = x.sink
	if cfg.Seek {
		out = SeekSink{x.sink}
	}
	cls, text := x.call(func() error {
		var err error
		x.w, err = pdf.NewWriter(out, cfg.V(), opt)
		return err
	})
	if cls != "" {
		res.ErrIdx, res.ErrClass, res.ErrText = -2, cls, text
		// what the model needs to know about the identifier
		if cfg.NumID > 0 || cfg.Encrypt || cfg.VIdx == 8 {
			res.ID = [][]byte{make([]byte, 16), make([]byte, 16)}
		}
		return res
	}
	res.ID = x.w.GetMeta().ID

	maxOps := plan.MaxOps
	if maxOps == 0 {
		maxOps = 1 + r.IntN(9)
	} else if maxOps < 0 {
		maxOps = 0 // the planned part only
	}
	alive := true
	if plan.Sparse {
		res.Sparse = true
		ref := pdf.NewReference(uint32(15000+r.IntN(3000)), BoundaryGens[r.IntN(len(BoundaryGens))])
		if plan.SparseHigh {
			ref = pdf.NewReference([]uint32{65535, 65536, uint32(66000 + r.IntN(5000))}[r.IntN(3)], BoundaryGens[r.IntN(len(BoundaryGens))])
		}
		res.UserRefs = append(res.UserRefs, ref)
		alive = x.put(ref, GenObj(r, 0, nil))
		if alive && plan.SparseHigh {
			alive = x.compressed(&plan)
			if alive && r.IntN(2) == 0 {
				alive = x.compressed(&plan)
			}
		}
	}
	if alive && plan.ChainTo > plan.ChainFrom {
		alive = x.chainSweep(&plan)
	}
	if alive && plan.Limit > 0 {
		alive = x.limitSweep(&plan)
	}
	if alive && plan.BoundaryKind > 0 {
		alive = x.boundarySweep(&plan)
	}
	if alive && plan.Batch > 0 {
		// the planned batch, and a second WriteCompressed in the same file
		alive = x.compressed(&plan)
		if alive {
			alive = x.compressed(&plan)
		}
	}
	for i := 0; alive && i < maxOps; i++ {
		switch k := r.IntN(20); {
		case k < 2:
			var ref pdf.Reference
			ref, alive = x.alloc()
			if alive {
				x.pend = append(x.pend, ref)
			}
		case k < 9:
			var ref pdf.Reference
			if plan.Invalid && r.IntN(4) == 0 && len(res.Want) > 0 {
				plan.Invalid = false
				res.Provoked = true
				for w := range res.Want {
					ref = w
					break
				}
			} else {
				ref, alive = x.pickRef()
			}
			if alive {
				alive = x.put(ref, x.genValue())
			}
		case k < 13:
			alive = x.compressed(&plan)
		default:
			alive = x.stream(&plan)
		}
	}
	if !alive {
		return res
	}

	// the page tree root, catalog and info; then Close
	pages := x.pages
	if pages == 0 {
		var ok bool
		pages, ok = x.alloc()
		if !ok {
			return res
		}
		if !x.put(pages, pdf.Dict{"Type": pdf.Name("Pages"), "Kids": pdf.Array{}, "Count": pdf.Integer(0)}) {
			return res
		}
	}
	res.Pages = pages
	meta := x.w.GetMeta()
	meta.Catalog.Pages = pages
	res.CatDict = pdf.Dict{"Type": pdf.Name("Catalog"), "Pages": pages}
	if r.IntN(3) == 0 {
		meta.Catalog.PageLayout = "TwoColumnLeft"
		res.CatDict["PageLayout"] = pdf.Name("TwoColumnLeft")
	}
	if r.IntN(3) == 0 {
		meta.Catalog.PageMode = "UseOutlines"
		res.CatDict["PageMode"] = pdf.Name("UseOutlines")
	}
	info := &pdf.Info{}
	res.InfoDict = pdf.Dict{}
	if len(plan.InfoTexts) > 0 {
		set := func(key string, dst *pdf.TextString, t string) {
			if t != "" {
				*dst = pdf.TextString(t)
				res.InfoDict[pdf.Name(key)] = pdf.TextString(t).AsPDF(x.w.GetOptions())
			}
		}
		tx := append(append([]string{}, plan.InfoTexts...), make([]string, 7)...)
		set("Title", &info.Title, tx[0])
		set("Author", &info.Author, tx[1])
		set("Subject", &info.Subject, tx[2])
		set("Keywords", &info.Keywords, tx[3])
		set("Creator", &info.Creator, tx[4])
		set("Producer", &info.Producer, tx[5])
		if tx[6] != "" {
			info.Custom = map[string]string{"X": tx[6]}
			res.InfoDict["X"] = pdf.TextString(tx[6]).AsPDF(x.w.GetOptions())
		}
	} else {
		if r.IntN(2) == 0 {
			t := []string{"Title", "Tïtle (ü)", "日本語", "a)b(c\\", "non\u00a0breaking soft\u00adhyphen €", "\u02d8\u02dd\u2022\u20ac\u0141\u017e"}[r.IntN(6)]
			info.Title = pdf.TextString(t)
			res.InfoDict["Title"] = pdf.TextString(t).AsPDF(x.w.GetOptions())
		}
		if r.IntN(3) == 0 {
			info.Author = "A. U. Thor"
			res.InfoDict["Author"] = pdf.TextString("A. U. Thor").AsPDF(x.w.GetOptions())
		}
	}
	switch k := r.IntN(4); {
	case k == 0 && len(plan.InfoTexts) == 0:
		meta.Info = nil
	default:
		meta.Info = info
	}
	res.Info = meta.Info
	it := "0"
	if meta.Info != nil && len(res.InfoDict) > 0 {
		it = "1 " + WireString(res.InfoDict, false)
	} else {
		res.InfoDict = nil
	}
	x.tok("Z %s %s", WireString(res.CatDict, false), it)
	x.desc("Close (catalog %s, info %s)", WireString(res.CatDict, false), it)
	cls, text = x.call(func() error { return x.w.Close() })
	x.final = true
	if !x.step(cls, text) {
		return res
	}
	res.File = append([]byte{}, x.sink.Buf...)
	if plan.AfterClose {
		// not part of the program: the Writer is closed, every further operation is a misuse it has to refuse
		n := len(x.sink.Buf)
		var accepted []string
		try := func(name string, f func() error) {
			if cls, _ := x.call(f); cls == "" {
				accepted = append(accepted, name)
			}
		}
		try("Put", func() error { return x.w.Put(x.w.Alloc(), pdf.Integer(1)) })
		try("OpenStream", func() error { _, err := x.w.OpenStream(x.w.Alloc(), nil); return err })
		try("WriteCompressed", func() error { return x.w.WriteCompressed([]pdf.Reference{x.w.Alloc()}, pdf.Integer(2)) })
		try("Close", func() error { return x.w.Close() })
		if len(accepted) > 0 || len(x.sink.Buf) != n {
			res.AfterCloseAccepted = fmt.Sprintf("accepted after Close: %v; %d bytes appended after %%%%EOF", accepted, len(x.sink.Buf)-n)
		}
	}
	return res
}

// CaseLine is the program in the wire format read by the model driver (without id and queries).
func (res *Result) CaseLine() string {
	id0, id1 := "-", "-"
	if len(res.ID) == 2 {
		id0, id1 = hx(res.ID[0]), hx(res.ID[1])
		if id0 == "-" {
			id0 = "00"
		}
		if id1 == "-" {
			id1 = "00"
		}
	}
	b := func(v bool) int {
		if v {
			return 1
		}
		return 0
	}
	return fmt.Sprintf("P %d %d %d %d %s %s %d %s", res.Cfg.VIdx, b(res.Cfg.HR), b(res.Cfg.Seek), res.Cfg.Cipher(),
		id0, id1, len(res.Tokens), strings.Join(res.Tokens, " "))
}
