// Package prog is shared by the C02 and C03 harnesses: random write programs
// over the pdf.Writer API, their execution on the real Writer, the wire format
// of programs/values, and the direct round-trip oracle with the real Reader.
package prog

import (
	"bytes"
	"encoding/hex"
	"fmt"
	"math"
	"math/rand/v2"
	"sort"
	"strconv"
	"strings"

	"seehuhn.de/go/pdf"
)

var alpha = []byte{'(', ')', '\\', '\r', '\n', '#', '/', '%', '<', '>', '[', ']', ' ', 0, 'a', '0', 0x7f, 0x80, 0xff, 'e', 'R'}

func rbytes(r *rand.Rand, n int) []byte {
	b := make([]byte, r.IntN(n+1))
	for i := range b {
		b[i] = alpha[r.IntN(len(alpha))]
	}
	return b
}

// BoundaryGens / BoundaryNumbers: generations and object numbers at the edges of their ranges
// (16 bit; 24 bit), for reference values and - as far as the size of the file allows - object ids.
var BoundaryGens = []uint16{0, 0, 1, 2, 255, 256, 65534, 65535}
var BoundaryNumbers = []uint32{1, 2, 7, 49, 65535, 65536, 1<<24 - 2, 1<<24 - 1}

// GenObj makes a random value.  refs are candidates for references.
func GenObj(r *rand.Rand, depth int, refs []pdf.Reference) pdf.Object {
	switch k := r.IntN(14); {
	case k == 0:
		return pdf.Boolean(r.IntN(2) == 0)
	case k == 1:
		return pdf.Integer([]int64{0, 1, -1, 42, math.MaxInt64, math.MinInt64, int64(r.Uint64()), int64(r.IntN(100000))}[r.IntN(8)])
	case k == 2:
		return pdf.Real([]float64{0, 0.5, -0.5, 1e-7, 123456.789, 1e20, -3, float64(r.IntN(1000)) / 8}[r.IntN(8)])
	case k == 3:
		return pdf.Name(rbytes(r, 5))
	case k == 4 || k == 5 || k == 10:
		s := rbytes(r, 12)
		if r.IntN(4) == 0 {
			// spare capacity behind the string
			t := make([]byte, len(s), len(s)+8)
			copy(t, s)
			copy(t[len(s):cap(t)], "SENTINEL")
			s = t
		}
		return pdf.String(s)
	case k == 6 && depth < 3:
		a := pdf.Array{}
		for i := r.IntN(4); i > 0; i-- {
			a = append(a, GenObj(r, depth+1, refs))
		}
		if len(a) > 0 && r.IntN(3) == 0 {
			// the same value twice inside one object
			a = append(a, a[0])
		}
		return a
	case k == 7 && depth < 3:
		d := pdf.Dict{}
		for i := r.IntN(4); i > 0; i-- {
			d[pdf.Name(rbytes(r, 3))] = GenObj(r, depth+1, refs)
		}
		return d
	case k == 8 && depth > 0:
		if len(refs) > 0 && r.IntN(4) > 0 {
			return refs[r.IntN(len(refs))]
		}
		// boundary generations and object numbers (the targets need not exist)
		return pdf.NewReference(BoundaryNumbers[r.IntN(len(BoundaryNumbers))], BoundaryGens[r.IntN(len(BoundaryGens))])
	case k == 9 && depth > 0:
		switch r.IntN(3) {
		case 0:
			return nil
		case 1:
			return pdf.Array(nil)
		default:
			return pdf.Dict(nil)
		}
	default:
		return pdf.Integer(r.IntN(100))
	}
}

// Norm is the value a written object denotes: nil arrays are null, nil
// dictionaries are empty, dictionary entries that are null are absent.
func Norm(o pdf.Object) pdf.Object {
	switch x := o.(type) {
	case nil:
		return nil
	case pdf.Array:
		if x == nil {
			return nil
		}
		r := make(pdf.Array, 0, len(x))
		for _, e := range x {
			r = append(r, Norm(e))
		}
		return r
	case pdf.Dict:
		r := pdf.Dict{}
		for k, v := range x {
			if v != nil {
				if nv := Norm(v); nv != nil {
					r[k] = nv
				}
			}
		}
		return r
	case pdf.String:
		return pdf.String(append([]byte{}, x...))
	case *pdf.Stream:
		return x
	}
	return o
}

func hx(b []byte) string {
	if len(b) == 0 {
		return "-"
	}
	return hex.EncodeToString(b)
}

func realText(x float64) string {
	s := strconv.FormatFloat(x, 'f', -1, 64)
	if !strings.Contains(s, ".") {
		s += "."
	}
	return s
}

// Wire writes a value in the prefix code of DESIGN.md Appendix B.  With
// mask, the content of strings is hidden (encrypted files, as the validator
// sees them).
func Wire(sb *strings.Builder, o pdf.Object, mask bool) {
	switch x := o.(type) {
	case nil:
		sb.WriteString("n")
	case pdf.Boolean:
		if x {
			sb.WriteString("t")
		} else {
			sb.WriteString("f")
		}
	case pdf.Integer:
		fmt.Fprintf(sb, "i%d", int64(x))
	case pdf.Real:
		sb.WriteString("r" + realText(float64(x)))
	case pdf.Name:
		sb.WriteString("N" + hx([]byte(x)))
	case pdf.String:
		if mask {
			sb.WriteString("S*")
		} else {
			sb.WriteString("S" + hx([]byte(x)))
		}
	case pdf.Array:
		if x == nil {
			sb.WriteString("n")
			return
		}
		fmt.Fprintf(sb, "A%d", len(x))
		for _, e := range x {
			sb.WriteString(" ")
			Wire(sb, e, mask)
		}
	case pdf.Dict:
		keys := make([]string, 0, len(x))
		for k := range x {
			keys = append(keys, string(k))
		}
		sort.Strings(keys)
		fmt.Fprintf(sb, "D%d", len(keys))
		for _, k := range keys {
			sb.WriteString(" " + hx([]byte(k)) + " ")
			Wire(sb, x[pdf.Name(k)], mask)
		}
	case pdf.Reference:
		fmt.Fprintf(sb, "R%d.%d", x.Number(), x.Generation())
	default:
		panic(fmt.Sprintf("Wire: %T", o))
	}
}

func WireString(o pdf.Object, mask bool) string {
	var sb strings.Builder
	Wire(&sb, o, mask)
	return sb.String()
}

// Fingerprint describes a value completely, including the bytes and elements
// in the spare capacity of its slices, so that any write through a slice the
// callee did not allocate shows up as a difference.
func Fingerprint(sb *strings.Builder, o pdf.Object) {
	switch x := o.(type) {
	case pdf.String:
		fmt.Fprintf(sb, "S%d:%x|%x", len(x), []byte(x), []byte(x[len(x):cap(x)]))
	case pdf.Array:
		if x == nil {
			sb.WriteString("a")
			return
		}
		fmt.Fprintf(sb, "A%d/%d[", len(x), cap(x))
		for _, e := range x[:cap(x)] {
			Fingerprint(sb, e)
			sb.WriteString(",")
		}
		sb.WriteString("]")
	case pdf.Dict:
		if x == nil {
			sb.WriteString("d")
			return
		}
		keys := make([]string, 0, len(x))
		for k := range x {
			keys = append(keys, string(k))
		}
		sort.Strings(keys)
		sb.WriteString("D{")
		for _, k := range keys {
			fmt.Fprintf(sb, "%x=", k)
			Fingerprint(sb, x[pdf.Name(k)])
			sb.WriteString(";")
		}
		sb.WriteString("}")
	case nil:
		sb.WriteString("n")
	case *pdf.Stream:
		sb.WriteString("STREAM:")
		Fingerprint(sb, x.Dict)
	default:
		sb.WriteString(WireString(o, false))
	}
}

func FP(o pdf.Object) string {
	var sb strings.Builder
	Fingerprint(&sb, o)
	return sb.String()
}

// Eq compares two normalised values.
func Eq(a, b pdf.Object) bool {
	switch x := a.(type) {
	case pdf.String:
		y, ok := b.(pdf.String)
		return ok && bytes.Equal(x, y)
	case pdf.Array:
		y, ok := b.(pdf.Array)
		if !ok || len(x) != len(y) {
			return false
		}
		for i := range x {
			if !Eq(x[i], y[i]) {
				return false
			}
		}
		return true
	case pdf.Dict:
		y, ok := b.(pdf.Dict)
		if !ok || len(x) != len(y) {
			return false
		}
		for k, v := range x {
			w, ok := y[k]
			if !ok || !Eq(v, w) {
				return false
			}
		}
		return true
	case nil:
		return b == nil
	case pdf.Real:
		y, ok := b.(pdf.Real)
		return ok && realText(float64(x)) == realText(float64(y))
	}
	return pdf.Equal(a, b)
}
