package prog

import (
	"bytes"
	"math/rand/v2"

	"seehuhn.de/go/pdf"
)

// Filters without and with decode parameters.  The ones with parameters work on input of any
// length (rows of one byte), so they can stand anywhere in a chain; dropping or misplacing
// the parameters of a PNG predictor changes the decoded bytes.
var noParm = []pdf.Filter{
	pdf.FilterASCII85{}, pdf.FilterFlate{}, pdf.FilterASCIIHex{}, pdf.FilterRunLength{}, pdf.FilterLZW{OffByOne: true},
}
var withParm = []pdf.Filter{
	pdf.FilterFlate{Predictor: 12}, pdf.FilterLZW{}, pdf.FilterFlate{Predictor: 11},
	pdf.FilterLZW{Predictor: 12}, pdf.FilterFlate{Predictor: 10}, pdf.FilterFlate{Predictor: 15},
}

// forVersion replaces FlateDecode, which needs PDF 1.2, by LZWDecode with the same parameters.
func forVersion(v pdf.Version, f pdf.Filter) pdf.Filter {
	if fl, ok := f.(pdf.FilterFlate); ok && v < pdf.V1_2 {
		return pdf.FilterLZW{Predictor: fl.Predictor, Colors: fl.Colors, BitsPerComponent: fl.BitsPerComponent, Columns: fl.Columns, OffByOne: true}
	}
	return f
}

// NumChainPatterns: the chains of length 1..8 with every pattern of (has parameters / has
// none) per position: 2 + 4 + ... + 256.
const NumChainPatterns = 510

// ChainPattern returns the idx-th chain.
func ChainPattern(v pdf.Version, idx int) []pdf.Filter {
	idx %= NumChainPatterns
	n, k := 1, idx
	for k >= 1<<n {
		k -= 1 << n
		n++
	}
	fs := make([]pdf.Filter, n)
	for i := range fs {
		if k>>i&1 == 1 {
			fs[i] = withParm[(idx+i)%len(withParm)]
		} else {
			fs[i] = noParm[(3*idx+i)%len(noParm)]
		}
		fs[i] = forVersion(v, fs[i])
	}
	return fs
}

// Declared chains: the four shapes a caller's dictionary can have, with the filters that
// realise them.  The body of such a stream has a length divisible by 60, so that the
// predictors with Columns 3, 4, 5 (innermost in their chain) see whole rows.
//
//	0  /Filter name, /DecodeParms dictionary
//	1  /Filter name, no /DecodeParms
//	2  /Filter array, /DecodeParms array of the same length with null entries
//	3  /Filter array, no /DecodeParms
var DeclShapes = [7][][]pdf.Filter{
	{
		{pdf.FilterFlate{Predictor: 12, Columns: 5}},
		{pdf.FilterLZW{}},
		{pdf.FilterLZW{Predictor: 2, Columns: 4, OffByOne: true}},
		{pdf.FilterFlate{Predictor: 15, Columns: 3}},
		{pdf.FilterCCITTFax{K: -1, Columns: 16}},
		{pdf.FilterCCITTFax{K: 0, Columns: 24, EndOfLine: true}},
	},
	{
		{pdf.FilterASCIIHex{}}, {pdf.FilterASCII85{}}, {pdf.FilterRunLength{}}, {pdf.FilterFlate{}}, {pdf.FilterLZW{OffByOne: true}},
	},
	{
		{pdf.FilterASCIIHex{}, pdf.FilterFlate{Predictor: 12, Columns: 5}},
		{pdf.FilterLZW{}, pdf.FilterASCII85{}},
		{pdf.FilterFlate{Predictor: 12, Columns: 5}},
		{pdf.FilterASCII85{}, pdf.FilterLZW{}, pdf.FilterRunLength{}},
		{pdf.FilterFlate{Predictor: 12}, pdf.FilterRunLength{}, pdf.FilterLZW{Predictor: 2, Columns: 4}},
		{pdf.FilterRunLength{}, pdf.FilterCCITTFax{K: -1, Columns: 16}},
	},
	{
		{pdf.FilterASCIIHex{}}, {pdf.FilterASCII85{}, pdf.FilterRunLength{}},
		{pdf.FilterFlate{}, pdf.FilterASCIIHex{}, pdf.FilterLZW{OffByOne: true}},
	},
	// 4: /Filter array, /DecodeParms array SHORTER than it: the entries of the trailing filters,
	//    which have no parameters, are left out (missing entries = no parameters)
	// 5: the same with only the last entry left out
	// 6: /DecodeParms array LONGER than /Filter (one more null)
	shortVariants, shortVariants, shortVariants,
}

// chains whose last filters have no parameters, behind filters that have some (a predictor with
// rows of one byte: wrong or missing parameters change the decoded bytes); at the positions
// without parameters Flate and LZW, which would take a predictor
var shortVariants = [][]pdf.Filter{
	{pdf.FilterFlate{Predictor: 12}, pdf.FilterFlate{}},
	{pdf.FilterFlate{Predictor: 12}, pdf.FilterLZW{OffByOne: true}},
	{pdf.FilterLZW{}, pdf.FilterFlate{}, pdf.FilterASCIIHex{}},
	{pdf.FilterASCII85{}, pdf.FilterLZW{Predictor: 12}, pdf.FilterFlate{}},
	{pdf.FilterFlate{Predictor: 12}, pdf.FilterASCIIHex{}, pdf.FilterFlate{}},
	{pdf.FilterFlate{}, pdf.FilterFlate{}},
	{pdf.FilterFlate{Predictor: 11}, pdf.FilterRunLength{}, pdf.FilterLZW{OffByOne: true}},
	{pdf.FilterLZW{Predictor: 12, OffByOne: true}, pdf.FilterLZW{OffByOne: true}, pdf.FilterFlate{}, pdf.FilterFlate{}},
}

// declare puts the chain into d (shape as listed above) and returns every slice it made, so
// that the caller can watch them for modifications.  Arrays get spare capacity filled with
// sentinels: an append on the caller's slice shows.
func declare(d pdf.Dict, v pdf.Version, shape int, fs []pdf.Filter) []pdf.Object {
	var names, parms pdf.Array
	for _, f := range fs {
		name, p, err := f.Info(v)
		if err != nil {
			panic(err)
		}
		names = append(names, name)
		if len(p) == 0 {
			parms = append(parms, nil)
		} else {
			parms = append(parms, p)
		}
	}
	spare := func(a pdf.Array) pdf.Array {
		b := make(pdf.Array, len(a)+2)
		copy(b, a)
		b[len(a)] = pdf.Name("Sentinel1")
		b[len(a)+1] = pdf.Name("Sentinel2")
		return b
	}
	switch shape {
	case 0:
		d["Filter"] = names[0]
		d["DecodeParms"] = parms[0]
		return []pdf.Object{parms[0]}
	case 1:
		d["Filter"] = names[0]
		return nil
	case 2:
		nb, pb := spare(names), spare(parms)
		d["Filter"] = nb[:len(names)]
		d["DecodeParms"] = pb[:len(parms)]
		return []pdf.Object{nb, pb}
	case 4, 5, 6:
		switch shape {
		case 4:
			for len(parms) > 0 && parms[len(parms)-1] == nil {
				parms = parms[:len(parms)-1]
			}
		case 5:
			if len(parms) > 0 && parms[len(parms)-1] == nil {
				parms = parms[:len(parms)-1]
			}
		default:
			parms = append(parms, nil)
		}
		nb, pb := spare(names), spare(parms)
		d["Filter"] = nb[:len(names)]
		d["DecodeParms"] = pb[:len(parms)]
		return []pdf.Object{nb, pb}
	default:
		nb := spare(names)
		d["Filter"] = nb[:len(names)]
		return []pdf.Object{nb}
	}
}

// encodeChain applies the encoders innermost first and returns the result together with what
// every filter made of its input (position in fs, input, output).
type encStep struct {
	Pos     int
	In, Out []byte
}

func encodeChain(v pdf.Version, fs []pdf.Filter, data []byte) ([]byte, []encStep) {
	var steps []encStep
	cur := data
	for i := len(fs) - 1; i >= 0; i-- {
		var buf bytes.Buffer
		enc, err := fs[i].Encode(v, nopCloser{&buf})
		if err != nil {
			panic(err)
		}
		enc.Write(cur)
		enc.Close()
		out := append([]byte{}, buf.Bytes()...)
		steps = append(steps, encStep{i, cur, out})
		cur = out
	}
	return cur, steps
}

// declBody makes data every declared chain can carry: whole rows for the predictors and the
// fax coder (a multiple of 60 bytes).
func declBody(r *rand.Rand) []byte {
	n := []int{60, 60, 120, 0, 1200, 2400}[r.IntN(6)]
	b := make([]byte, n)
	for i := range b {
		switch r.IntN(3) {
		case 0:
			b[i] = byte(r.IntN(256))
		case 1:
			b[i] = byte(i)
		default:
			b[i] = alpha[r.IntN(len(alpha))]
		}
	}
	return b
}
