// C09 harness: correct passwords recover everything, wrong ones nothing.
//
// Documents are written by the real Writer for (user, owner) password classes
// x permission sets x versions 1.1-2.0 x EncryptMetadata, with strings inside
// arrays, dictionaries, object streams and stream dictionaries, and opened by
// the real Reader with the user, the owner, no, equivalent-after-preparation
// and near-miss passwords.  For every (file, password) the property oracle is
// evaluated directly on the implementation (fails.jsonl); in addition
// cases.txt / impl.obs are written for the comparison with the extracted Coq
// model of the standard security handler (coq/C09/StdSec.v), which is run on
// the /Encrypt dictionary and ID of the same file.
package main

import (
	"bytes"
	"crypto/aes"
	"crypto/md5"
	"crypto/rc4"
	"crypto/sha256"
	"crypto/sha512"
	"errors"
	"fmt"
	"io"
	"sort"
	"strings"
	"time"

	"seehuhn.de/go/pdf"
	"seehuhn.de/go/pdf/verifharness/common"
)

// the padding string of ISO 32000-1 7.6.3.3 (Algorithm 2, step a), typed in from the standard
var isoPad = []byte{
	0x28, 0xBF, 0x4E, 0x5E, 0x4E, 0x75, 0x8A, 0x41, 0x64, 0x00, 0x4E, 0x56, 0xFF, 0xFA, 0x01, 0x08,
	0x2E, 0x2E, 0x00, 0xB6, 0xD0, 0x68, 0x3E, 0x80, 0x2F, 0x0C, 0xA9, 0xFE, 0x64, 0x53, 0x69, 0x7A,
}

// revision 2 has one bit each for printing, modifying, copying, annotating: it cannot express
// degraded-only printing, forms-only or assemble-only permission sets (ISO 32000-1 Table 22)
func r2CanExpress(p pdf.Perm) bool {
	return !(p&pdf.PermPrintDegraded != 0 && p&pdf.PermPrint == 0) &&
		!(p&pdf.PermForms != 0 && p&pdf.PermAnnotate == 0) &&
		!(p&pdf.PermAssemble != 0 && p&pdf.PermModify == 0)
}

func closePerm(p pdf.Perm) pdf.Perm {
	if p&pdf.PermPrint != 0 {
		p |= pdf.PermPrintDegraded
	}
	if p&pdf.PermAnnotate != 0 {
		p |= pdf.PermForms
	}
	if p&pdf.PermModify != 0 {
		p |= pdf.PermAssemble
	}
	return p
}

// ---- password preparation as the standard describes it (oracle side) ----------------

// rawPrep returns the bytes handed to the model: PDFDocEncoding for R<=4, SASLprep'd UTF-8 for R>=5.
func rawPrep(R int, pw string) ([]byte, bool) {
	if R <= 4 {
		b, ok := pdf.PDFDocEncode(pw)
		return []byte(b), ok
	}
	s, ok := pdf.VerifSASLprep(pw)
	return []byte(s), ok
}

// prepared is the form two passwords must share to be "the same after preparation".
func prepared(R int, pw string) ([]byte, bool) {
	b, ok := rawPrep(R, pw)
	if !ok {
		return nil, false
	}
	if R <= 4 {
		p := append(append([]byte{}, b...), isoPad...)
		return p[:32], true
	}
	if len(b) > 127 {
		b = b[:127]
	}
	return b, true
}


// ---- objects that are not Native but render as PDF strings ---------------------------------------------------

// renderStr / renderNest are Objects defined outside the library: all the Writer knows about them is AsPDF
type renderStr struct{ b []byte }

func (r renderStr) AsPDF(pdf.OutputOptions) pdf.Native { return pdf.String(append([]byte{}, r.b...)) }

type renderNest struct{ b []byte }

func (r renderNest) AsPDF(pdf.OutputOptions) pdf.Native {
	return pdf.Array{pdf.String(append([]byte{}, r.b...)), pdf.Dict{"W": renderStr{r.b}}, pdf.TextString("t-" + string(r.b))}
}

func freshS(b []byte) pdf.String { return pdf.String(append([]byte{}, b...)) }

func printableASCII(b []byte) bool {
	for _, c := range b {
		if c < 0x20 || c > 0x7e {
			return false
		}
	}
	return len(b) > 0
}

// fresh returns an object which renders as (or, for renderNest, contains) the string b: a pdf.String, or one of the
// typed wrappers - pdf.TextString, an Object whose AsPDF yields a String, one whose AsPDF yields an array with a
// string, a dictionary with a wrapped string and a TextString.  The choice depends on b only, so that the value
// written and the value expected are built alike.
func fresh(b []byte) pdf.Object {
	h := 0
	for _, c := range b {
		h = (h*31 + int(c)) % 1000003
	}
	switch h % 7 {
	case 3:
		if printableASCII(b) {
			return pdf.TextString(string(b))
		}
	case 4:
		return renderStr{append([]byte{}, b...)}
	case 5:
		if printableASCII(b) {
			return renderNest{append([]byte{}, b...)}
		}
	}
	return freshS(b)
}

// ---- documents ----------------------------------------------------------------------

type config struct {
	version   pdf.Version
	user      string
	owner     string
	perm      pdf.Perm
	plainMeta bool
	withMeta  bool
	human     bool
	// probes: additional passwords to try (label, password); a label starting with "!" is always
	// sent to the model as well (outside the R6 ration)
	probes [][2]string
}

func (c config) String() string {
	return fmt.Sprintf("v=%s u=%q o=%q perm=%d plainMeta=%v meta=%v human=%v", c.version, clip(c.user), clip(c.owner), int(c.perm), c.plainMeta, c.withMeta, c.human)
}

func clip(s string) string {
	if len(s) > 12 {
		return fmt.Sprintf("%s..(%d bytes)", s[:12], len(s))
	}
	return s
}

type document struct {
	cfg      config
	data     []byte
	expected map[pdf.Reference]string // canonical rendering of every object written
	bodies   map[pdf.Reference][]byte // stream bodies
	title    string
	encDict  pdf.Dict
	id0      []byte
	fileKey  []byte
	R        int
	direct   []pdf.Reference // objects written directly (not in object streams)
}

func render(obj pdf.Object) string {
	switch x := obj.(type) {
	case nil:
		return "n"
	case pdf.TextString, pdf.Date, renderStr, renderNest:
		return render(x.(pdf.Object).AsPDF(0)) // what the object is, is what it renders as
	case pdf.String:
		return "S" + common.Hex([]byte(x))
	case pdf.Name:
		return "N" + string(x)
	case pdf.Integer:
		return fmt.Sprintf("i%d", int64(x))
	case pdf.Boolean:
		return fmt.Sprintf("b%v", bool(x))
	case pdf.Reference:
		return fmt.Sprintf("R%d.%d", x.Number(), x.Generation())
	case pdf.Array:
		parts := make([]string, len(x))
		for i, y := range x {
			parts[i] = render(y)
		}
		return "[" + strings.Join(parts, " ") + "]"
	case pdf.Dict:
		keys := make([]string, 0, len(x))
		for k := range x {
			if k == "Length" || k == "Filter" || k == "DecodeParms" {
				continue
			}
			keys = append(keys, string(k))
		}
		sort.Strings(keys)
		parts := make([]string, len(keys))
		for i, k := range keys {
			parts[i] = k + "=" + render(x[pdf.Name(k)])
		}
		return "<" + strings.Join(parts, " ") + ">"
	case *pdf.Stream:
		return "stream" + render(x.Dict)
	default:
		return fmt.Sprintf("?%T", obj)
	}
}

func randBytes(e *common.Env, n int) []byte {
	b := make([]byte, n)
	for i := range b {
		b[i] = byte(e.Rand.IntN(256))
	}
	return b
}

func marker(e *common.Env, tag string) []byte {
	return []byte(fmt.Sprintf("PLAIN-%s-%08x-TEXT", tag, e.Rand.Uint32()))
}

var bodySizes = []int{0, 1, 15, 16, 17, 31, 32, 33, 47, 48, 100, 255, 256, 1000, 4099}

// writeDocument builds one encrypted document.  The values are generated by `gen`, which is
// called twice with the same random seed state: once for writing, once for the expectation,
// so that nothing the Writer does to its arguments can leak into the expectation.
func writeDocument(e *common.Env, cfg config) (*document, error) {
	doc := &document{cfg: cfg, expected: map[pdf.Reference]string{}, bodies: map[pdf.Reference][]byte{}}
	m := map[string][]byte{}
	for _, k := range []string{"s", "a", "x", "n", "tw", "d", "l", "cs", "ca", "c3"} {
		m[k] = marker(e, k)
	}
	bin := randBytes(e, 1+e.Rand.IntN(40))
	body := randBytes(e, bodySizes[e.Rand.IntN(len(bodySizes))]+e.Rand.IntN(3))
	body2 := bytes.Repeat(marker(e, "body"), 1+e.Rand.IntN(6))
	doc.title = string(marker(e, "title"))

	objA := func() pdf.Dict {
		tw := freshS(m["tw"]) // the same String value twice in one object
		return pdf.Dict{
			"S":     fresh(m["s"]),
			"Arr":   pdf.Array{fresh(m["a"]), pdf.Dict{"X": fresh(m["x"])}, pdf.Array{fresh(m["n"]), pdf.Integer(7)}},
			"Empty": pdf.String(""),
			"Bin":   fresh(bin),
			"Twice": pdf.Array{tw, tw},
		}
	}
	dictB := func() pdf.Dict {
		return pdf.Dict{"D": fresh(m["d"]), "L": pdf.Array{fresh(m["l"]), pdf.Name("N")}}
	}
	comp := func() []pdf.Object {
		return []pdf.Object{pdf.Dict{"CS": fresh(m["cs"])}, pdf.Array{fresh(m["ca"]), pdf.Integer(1)}, fresh(m["c3"])}
	}

	id0, id1 := randBytes(e, 16), randBytes(e, 16)
	opt := &pdf.WriterOptions{
		ID:              [][]byte{id0, id1},
		UserPassword:    cfg.user,
		OwnerPassword:   cfg.owner,
		UserPermissions: cfg.perm,
		HumanReadable:   cfg.human,
	}
	if cfg.withMeta {
		ms, err := pdf.VerifNewMetadata(doc.title, cfg.plainMeta)
		if err != nil {
			return nil, err
		}
		opt.DocumentMetadata = ms
	}
	buf := &bytes.Buffer{}
	w, err := pdf.NewWriter(buf, cfg.version, opt)
	if err != nil {
		return nil, err
	}
	w.GetMeta().Info.Title = pdf.TextString(doc.title)

	refA := w.Alloc()
	if err := w.Put(refA, objA()); err != nil {
		return nil, err
	}
	doc.expected[refA] = render(objA())
	doc.direct = append(doc.direct, refA)

	for i, bd := range [][]byte{body, body2} {
		refB := w.Alloc()
		d := dictB()
		d["I"] = pdf.Integer(i)
		ws, err := w.OpenStream(refB, d)
		if err != nil {
			return nil, err
		}
		rest := bd
		for len(rest) > 0 { // random write chunking
			k := 1 + e.Rand.IntN(40)
			if e.Rand.IntN(4) == 0 {
				k = 1 + e.Rand.IntN(3)
			}
			if k > len(rest) {
				k = len(rest)
			}
			if _, err := ws.Write(rest[:k]); err != nil {
				return nil, err
			}
			rest = rest[k:]
		}
		if err := ws.Close(); err != nil {
			return nil, err
		}
		d2 := dictB()
		d2["I"] = pdf.Integer(i)
		doc.expected[refB] = "stream" + render(d2)
		doc.bodies[refB] = bd
		doc.direct = append(doc.direct, refB)
	}

	// an operation SEQUENCE: objects (with strings) are Put while a stream (with strings in its dictionary) is
	// open - they are deferred until the stream is closed; the amount written before and after varies around the
	// Writer's 1024-byte start buffer.  Every string must be encrypted with the key of the object it is stored in.
	{
		sm, qm, tm := marker(e, "seqS"), marker(e, "seqQ"), marker(e, "seqT")
		before := []int{0, 1, 100, 1000, 1023, 1024, 1025, 1500, 3000}[e.Rand.IntN(9)]
		after := []int{0, 1, 30, 1024, 2000}[e.Rand.IntN(5)]
		sbody := randBytes(e, before+after)
		tbody := randBytes(e, []int{0, 5, 16, 1100}[e.Rand.IntN(4)])
		refS, refQ, refT := w.Alloc(), w.Alloc(), w.Alloc()
		mkS := func() pdf.Dict { return pdf.Dict{"SD": fresh(sm), "SA": pdf.Array{fresh(sm), pdf.Integer(2)}} }
		mkQ := func() pdf.Dict { return pdf.Dict{"Q": fresh(qm), "QA": pdf.Array{fresh(qm)}} }
		mkT := func() pdf.Dict { return pdf.Dict{"TD": fresh(tm)} }
		ws, err := w.OpenStream(refS, mkS())
		if err != nil {
			return nil, err
		}
		if _, err := ws.Write(sbody[:before]); err != nil {
			return nil, err
		}
		if err := w.Put(refQ, mkQ()); err != nil { // deferred
			return nil, err
		}
		if e.Rand.IntN(2) == 0 {
			if err := w.Put(refT, pdf.NewStream(mkT(), append([]byte{}, tbody...))); err != nil { // deferred stream object
				return nil, err
			}
		} else {
			refT = 0
		}
		if _, err := ws.Write(sbody[before:]); err != nil {
			return nil, err
		}
		if err := ws.Close(); err != nil {
			return nil, err
		}
		doc.expected[refS] = "stream" + render(mkS())
		doc.bodies[refS] = sbody
		doc.expected[refQ] = render(mkQ())
		doc.direct = append(doc.direct, refS, refQ)
		if refT != 0 {
			doc.expected[refT] = "stream" + render(mkT())
			doc.bodies[refT] = tbody
			doc.direct = append(doc.direct, refT)
		}
	}

	// look-alikes: objects whose dictionaries LOOK like the objects exempt from encryption (metadata stream,
	// cross-reference stream, object stream, /Encrypt dictionary, /ID array, signature) but are ordinary objects:
	// exemption goes by object identity, so all of these are encrypted and must read back as written
	{
		type look struct {
			dict func() pdf.Dict
			body []byte
		}
		lm := func(tag string) []byte { return marker(e, "look"+tag) }
		m1, m2, m3, m4, m5, m6, m7 := lm("meta"), lm("xref"), lm("objstm"), lm("ef"), lm("enc"), lm("sig"), lm("id")
		o32 := append(append([]byte{}, m5...), make([]byte, 32)...)[:32]
		looks := []look{
			{func() pdf.Dict { return pdf.Dict{"Type": pdf.Name("Metadata"), "Subtype": pdf.Name("XML"), "LK": fresh(m1)} },
				[]byte("<?xpacket begin='' id='W5M0MpCehiHzreSzNTczkc9d'?><x:xmpmeta xmlns:x='adobe:ns:meta/'>" + string(m1) + "</x:xmpmeta><?xpacket end='w'?>")},
			{func() pdf.Dict {
				return pdf.Dict{"Type": pdf.Name("XRef"), "Size": pdf.Integer(1), "W": pdf.Array{pdf.Integer(1), pdf.Integer(1), pdf.Integer(1)}, "LK": fresh(m2)}
			}, append([]byte{0, 0, 0}, m2...)},
			{func() pdf.Dict { return pdf.Dict{"Type": pdf.Name("ObjStm"), "N": pdf.Integer(0), "First": pdf.Integer(0), "LK": fresh(m3)} }, m3},
			{func() pdf.Dict { return pdf.Dict{"Type": pdf.Name("EmbeddedFile"), "Params": pdf.Dict{"CheckSum": fresh(m4)}} }, m4},
		}
		for _, lk := range looks {
			ref := w.Alloc()
			ws, err := w.OpenStream(ref, lk.dict())
			if err != nil {
				return nil, err
			}
			if _, err := ws.Write(lk.body); err != nil {
				return nil, err
			}
			if err := ws.Close(); err != nil {
				return nil, err
			}
			doc.expected[ref] = "stream" + render(lk.dict())
			doc.bodies[ref] = lk.body
			doc.direct = append(doc.direct, ref)
		}
		mkEnc := func() pdf.Dict {
			return pdf.Dict{"Filter": pdf.Name("Standard"), "V": pdf.Integer(4), "R": pdf.Integer(4), "O": fresh(o32), "U": fresh(o32), "P": pdf.Integer(-3),
				"Sig": pdf.Dict{"Type": pdf.Name("Sig"), "Filter": pdf.Name("Adobe.PPKLite"), "Contents": fresh(m6), "ByteRange": pdf.Array{pdf.Integer(0), pdf.Integer(1)}},
				"ID": pdf.Array{fresh(id0), fresh(id0), fresh(m7)}}
		}
		ref := w.Alloc()
		if err := w.Put(ref, mkEnc()); err != nil {
			return nil, err
		}
		doc.expected[ref] = render(mkEnc())
		doc.direct = append(doc.direct, ref)
	}

	// an object with a larger number and a non-zero generation (both enter the object key)
	{
		hm := marker(e, "hi")
		refH := pdf.NewReference(uint32(256+e.Rand.IntN(2000)), uint16([]int{1, 255, 256, 513, 65535}[e.Rand.IntN(5)]))
		mkH := func() pdf.Dict { return pdf.Dict{"H": fresh(hm)} }
		if err := w.Put(refH, mkH()); err != nil {
			return nil, err
		}
		doc.expected[refH] = render(mkH())
		doc.direct = append(doc.direct, refH)
	}

	crefs := []pdf.Reference{w.Alloc(), w.Alloc(), w.Alloc()}
	if err := w.WriteCompressed(crefs, comp()...); err != nil {
		return nil, err
	}
	for i, o := range comp() {
		doc.expected[crefs[i]] = render(o)
	}

	pages := w.Alloc()
	if err := w.Put(pages, pdf.Dict{"Type": pdf.Name("Pages"), "Kids": pdf.Array{}, "Count": pdf.Integer(0)}); err != nil {
		return nil, err
	}
	w.GetMeta().Catalog.Pages = pages
	doc.fileKey = pdf.VerifWriterFileKey(w)
	if d, ok := w.GetMeta().Trailer["Encrypt"].(pdf.Dict); ok {
		doc.encDict = d
	}
	if err := w.Close(); err != nil {
		return nil, err
	}
	doc.data = buf.Bytes()
	doc.id0 = id0
	if doc.encDict != nil {
		if r, ok := doc.encDict["R"].(pdf.Integer); ok {
			doc.R = int(r)
		}
	}
	return doc, nil
}

func open(doc *document, pw string) (*pdf.Reader, error) {
	return pdf.NewReader(bytes.NewReader(doc.data), int64(len(doc.data)), &pdf.ReaderOptions{Password: pw})
}

// contentProblems compares everything readable through r with what was written.
func contentProblems(doc *document, r *pdf.Reader) []string {
	var bad []string
	for ref, want := range doc.expected {
		obj, err := r.Get(ref, true)
		if err != nil {
			bad = append(bad, fmt.Sprintf("%v: %v", ref, err))
			continue
		}
		if got := render(obj); got != want {
			bad = append(bad, fmt.Sprintf("%v: read %s, written %s", ref, clipLong(got), clipLong(want)))
		}
		if stm, ok := obj.(*pdf.Stream); ok {
			data, err := pdf.ReadAll(r, nil, stm, 1<<24)
			if err != nil {
				bad = append(bad, fmt.Sprintf("%v: stream data: %v", ref, err))
			} else if !bytes.Equal(data, doc.bodies[ref]) {
				bad = append(bad, fmt.Sprintf("%v: stream data differs (%d bytes read, %d written)", ref, len(data), len(doc.bodies[ref])))
			}
		}
	}
	info := r.GetMeta().Info
	if info == nil || string(info.Title) != doc.title {
		bad = append(bad, "Info.Title differs")
	}
	if doc.cfg.withMeta {
		ms := r.GetMeta().Catalog.Metadata
		if ms == nil || ms.Data == nil {
			bad = append(bad, "document metadata missing")
		}
	}
	sort.Strings(bad)
	return bad
}

func clipLong(s string) string {
	if len(s) > 160 {
		return s[:160] + "..."
	}
	return s
}

// ---- /Encrypt dictionary on the wire --------------------------------------------------

func str(d pdf.Dict, k pdf.Name) []byte {
	s, _ := d[k].(pdf.String)
	return []byte(s)
}

func handlerFields(doc *document) string {
	d := doc.encDict
	V, _ := d["V"].(pdf.Integer)
	keyBytes := 5
	switch V {
	case 2:
		if l, ok := d["Length"].(pdf.Integer); ok {
			keyBytes = int(l) / 8
		}
	case 4:
		keyBytes = 16
	case 5:
		keyBytes = 32
	}
	P, _ := d["P"].(pdf.Integer)
	plain := 0
	if b, ok := d["EncryptMetadata"].(pdf.Boolean); ok && !bool(b) && V >= 4 {
		plain = 1
	}
	return fmt.Sprintf("%d %d %d %d %s %s %s %s %s %s", doc.R, keyBytes, uint32(int32(P)), plain,
		common.Hex(doc.id0), common.Hex(str(d, "O")), common.Hex(str(d, "U")),
		common.Hex(str(d, "OE")), common.Hex(str(d, "UE")), common.Hex(str(d, "Perms")))
}

func isAES(doc *document) bool {
	V, _ := doc.encDict["V"].(pdf.Integer)
	return V >= 4
}

type rawItem struct {
	ref  pdf.Reference
	kind string
	raw  []byte
	// for kind "r:...": the read schedules (sizes minus one) of the source and of the consumer
	early bool
	ss    []int
	cs    []int
}

func collectStrings(obj pdf.Object, out *[][]byte) {
	switch x := obj.(type) {
	case pdf.String:
		*out = append(*out, []byte(x))
	case pdf.Array:
		for _, y := range x {
			collectStrings(y, out)
		}
	case pdf.Dict:
		keys := make([]string, 0, len(x))
		for k := range x {
			keys = append(keys, string(k))
		}
		sort.Strings(keys)
		for _, k := range keys {
			collectStrings(x[pdf.Name(k)], out)
		}
	case *pdf.Stream:
		collectStrings(x.Dict, out)
	}
}

// rawItems lists every encrypted string and stream of the directly written objects, as stored.
func rawItems(doc *document, r *pdf.Reader) ([]rawItem, error) {
	var items []rawItem
	for _, ref := range doc.direct {
		obj, err := pdf.VerifRawObject(r, ref)
		if err != nil {
			return nil, err
		}
		var ss [][]byte
		collectStrings(obj, &ss)
		for _, s := range ss {
			items = append(items, rawItem{ref: ref, kind: "s", raw: s})
		}
		if stm, ok := obj.(*pdf.Stream); ok {
			raw, err := io.ReadAll(stm.NewReader())
			if err != nil {
				return nil, err
			}
			items = append(items, rawItem{ref: ref, kind: "t", raw: raw})
		}
	}
	return items, nil
}

func boolInt(b bool) int {
	if b {
		return 1
	}
	return 0
}

// ---- generators -----------------------------------------------------------------------

var versions = []pdf.Version{pdf.V1_1, pdf.V1_2, pdf.V1_3, pdf.V1_4, pdf.V1_5, pdf.V1_6, pdf.V1_7, pdf.V2_0}

type pwClass struct {
	name string
	gen  func(e *common.Env) string
}

func asciiN(e *common.Env, n int) string {
	const alpha = "abcdefghijklmnopqrstuvwxyzABCDEFGHIJKLMNOPQRSTUVWXYZ0123456789 !#%&()*+,-./:;<=>?@[]^_{|}~"
	b := make([]byte, n)
	for i := range b {
		b[i] = alpha[e.Rand.IntN(len(alpha))]
	}
	return string(b)
}

// Latin-1 letters which PDFDocEncoding can express and SASLprep leaves alone (NFKC-stable)
var latin = []rune("äöüßéèêñçåøÆÐÞþÿ¡¿£¥")

func latinN(e *common.Env, n int) string {
	r := make([]rune, n)
	for i := range r {
		if e.Rand.IntN(3) == 0 {
			r[i] = rune('a' + e.Rand.IntN(26))
		} else {
			r[i] = latin[e.Rand.IntN(len(latin))]
		}
	}
	return string(r)
}

var pwClasses = []pwClass{
	{"empty", func(e *common.Env) string { return "" }},
	{"ascii", func(e *common.Env) string { return asciiN(e, 1+e.Rand.IntN(12)) }},
	{"latin1", func(e *common.Env) string { return latinN(e, 2+e.Rand.IntN(10)) }},
	{"len31", func(e *common.Env) string { return asciiN(e, 31) }},
	{"len32", func(e *common.Env) string { return asciiN(e, 32) }},
	{"len33", func(e *common.Env) string { return asciiN(e, 33) }},
	{"len40", func(e *common.Env) string { return asciiN(e, 40) }},
	{"len127", func(e *common.Env) string { return asciiN(e, 127) }},
	{"len128", func(e *common.Env) string { return asciiN(e, 128) }},
	{"len130", func(e *common.Env) string { return asciiN(e, 130) }},
	{"latin70", func(e *common.Env) string { return latinN(e, 70) }}, // 70 PDFDoc bytes, about 120-140 UTF-8 bytes
	{"padprefix", func(e *common.Env) string { return "(" }},          // 0x28 is the first byte of the padding string
}

// families of candidate passwords outside PDFDocEncoding and/or rejected by SASLprep
var unencodable = [][2]string{
	{"cjk", "パスワード"}, {"emoji", "pw😀"}, {"nul", "bad\x00ctl"}, {"ctl", "a\x01b\x1fc"}, {"del", "x\x7fy"},
	{"c1", "a\u009fb"}, {"shy", "a\u00adb"}, {"bidi-override", "a\u202eb"}, {"bidi-mixed", "abc\u05d0"},
	{"unassigned", "a\u0378b"}, {"private", "a\ue000b"}, {"nonchar", "a\ufffeb"}, {"invalid-utf8", "a\xff\xfeb"},
	{"lone-surrogate-bytes", "a\xed\xa0\x80b"}, {"raw-9f", "a\x9fb"}, {"raw-ad", "\xad"}, {"tag", "a\U000e0001b"},
}

// candidates returns passwords to try against a document written with (user, owner):
// label -> password.  "same" candidates coincide with the user password after preparation for
// some revisions; the oracle decides by comparing prepared forms, not by label.
func candidates(e *common.Env, cfg config) []([2]string) {
	var res [][2]string
	add := func(label, pw string) { res = append(res, [2]string{label, pw}) }
	add("user", cfg.user)
	if cfg.owner != "" {
		add("owner", cfg.owner)
	}
	add("none", "")
	for _, t := range []struct{ tag, pw string }{{"u", cfg.user}, {"o", cfg.owner}} {
		if t.pw == "" {
			continue
		}
		rs := []rune(t.pw)
		add(t.tag+"+x", t.pw+"x")
		add(t.tag+"-1", string(rs[:len(rs)-1]))
		flip := append([]rune{}, rs...)
		i := e.Rand.IntN(len(flip))
		if flip[i] == 'q' {
			flip[i] = 'Q'
		} else {
			flip[i] = 'q'
		}
		add(t.tag+"~", string(flip))
		// differ only at the truncation boundaries 32 / 127
		for _, cut := range []int{31, 32, 126, 127} {
			if len(rs) > cut {
				f2 := append([]rune{}, rs...)
				if f2[cut] == 'z' {
					f2[cut] = 'Z'
				} else {
					f2[cut] = 'z'
				}
				add(fmt.Sprintf("%s@%d", t.tag, cut), string(f2))
			}
		}
		if e.Rand.IntN(2) == 0 {
			add(t.tag+"case", strings.ToUpper(t.pw))
		}
	}
	add("wrong", asciiN(e, 1+e.Rand.IntN(10)))
	// candidates from families the password preparation may be undefined on (which ones are depends on the revision)
	add("unenc-cjk", "日本語")
	for k := 0; k < 3; k++ {
		f := unencodable[e.Rand.IntN(len(unencodable))]
		v := f[1]
		if cfg.user != "" && e.Rand.IntN(2) == 0 {
			v = cfg.user + v // the right password with something unencodable attached
		}
		add("unenc-"+f[0], v)
	}
	if e.Rand.IntN(4) == 0 {
		// equal to the user password after SASLprep (soft hyphen is mapped to nothing), not PDFDocEncodable
		add("u+shy", cfg.user+"­")
	}
	return res
}

// ---- revision 6: a multi-byte character across the 127-byte truncation point ------------------

// characters whose UTF-8 form SASLprep leaves unchanged, grouped by length; within a group some
// share a prefix and some a suffix, so that probes can differ only before or only after the cut
var straddlePool = map[int][]string{
	2: {"\u00e9", "\u0129", "\u00e8", "\u00f1", "\u0169"},
	3: {"\u20ac", "\u30ac", "\u21ac", "\u20ab", "\u20ad", "\u30ab"},
	4: {"\U0001D11E", "\U0002011E", "\U0001D01E", "\U0001D11F", "\U0001D01F", "\U0002011F"},
}

// straddleConfigs: for a character of 2, 3 and 4 bytes and every offset off (the cut at byte 127
// falls on byte off+1 of the character), documents whose user resp. owner password is
// prefix(127-off ASCII bytes) + character + tail, with probes that differ from it
//   - only in the character's bytes before the cut  -> differ after preparation, must be refused,
//   - only in bytes after the cut (character suffix, tail) -> same 127-byte prefix, must open.
// The expected outcome is computed by the oracle from the prepared forms (first 127 bytes), not from labels.
func straddleConfigs(e *common.Env) []config {
	var res []config
	modelBudget := e.Pick(1, 4) // documents whose straddle probes also go to the model
	for _, clen := range []int{2, 3, 4} {
		pool := straddlePool[clen]
		var stable []string
		for _, c := range pool {
			if p, ok := pdf.VerifSASLprep(c); ok && p == c && len(c) == clen {
				stable = append(stable, c)
			}
		}
		if len(stable) == 0 {
			continue
		}
		base := stable[0]
		for off := 1; off < clen; off++ {
			prefix := asciiN(e, 127-off)
			tail := asciiN(e, 1+e.Rand.IntN(4))
			pw := prefix + base + tail
			var probes [][2]string
			forced := ""
			for _, c := range stable[1:] {
				switch {
				case c[off:] == base[off:] && c[:off] != base[:off]:
					probes = append(probes, [2]string{fmt.Sprintf("straddle%d.%d-before", clen, off), prefix + c + tail})
				case c[:off] == base[:off]:
					probes = append(probes, [2]string{fmt.Sprintf("straddle%d.%d-after", clen, off), prefix + c + tail})
				default:
					// differs on both sides of the cut: refused as well
					probes = append(probes, [2]string{fmt.Sprintf("straddle%d.%d-both", clen, off), prefix + c + tail})
				}
			}
			probes = append(probes, [2]string{fmt.Sprintf("straddle%d.%d-tail", clen, off), prefix + base + tail + "Z"})
			probes = append(probes, [2]string{fmt.Sprintf("straddle%d.%d-cut", clen, off), prefix + base})
			// a probe that is the prefix followed by something else entirely: refused
			probes = append(probes, [2]string{fmt.Sprintf("straddle%d.%d-prefix", clen, off), prefix + "x" + tail})
			_ = forced
			asUser := config{version: pdf.V2_0, user: pw, owner: "own", perm: pdf.PermCopy | pdf.PermForms, probes: probes}
			asOwner := config{version: pdf.V2_0, user: "u", owner: pw, perm: pdf.PermPrint, probes: probes}
			// the model too: the owner variant costs fewest hashes (the cheap empty attempt fails, then
			// owner validation decides); one refused and one accepted probe
			if modelBudget > 0 && clen == 3 && off == 2 || e.Thorough && modelBudget > 0 {
				modelBudget--
				var forcedProbes [][2]string
				seenB, seenA := false, false
				for _, pr := range probes {
					if strings.HasSuffix(pr[0], "-before") && !seenB {
						pr[0] = "!" + pr[0]
						seenB = true
					} else if strings.HasSuffix(pr[0], "-after") && !seenA && e.Thorough {
						pr[0] = "!" + pr[0]
						seenA = true
					}
					forcedProbes = append(forcedProbes, pr)
				}
				asOwner.probes = forcedProbes
			}
			res = append(res, asUser, asOwner)
		}
	}
	return res
}

// ---- the checks ------------------------------------------------------------------------

type run struct {
	e       *common.Env
	id      int
	emdTamper int
	r6parse   int
	r6model int // R6 (file, password) pairs still to be sent to the model (rationed: the extracted SHA-2/AES are slow)
	outside map[string]int
}

func (rn *run) nextID(prefix string) string {
	rn.id++
	return fmt.Sprintf("%s%d", prefix, rn.id)
}

func (rn *run) checkDocument(cfg config) {
	e := rn.e
	doc, err := writeDocument(e, cfg)
	if err != nil {
		// the Writer may refuse only for documented reasons
		legit := false
		var ve *pdf.VersionError
		if errors.As(err, &ve) {
			legit = cfg.plainMeta && cfg.version < pdf.V1_6
		}
		if !legit {
			e.Fail("writer-refuses", fmt.Sprintf("Writer refuses a valid configuration: %v", err), cfg.String())
		}
		e.Count(false, "", "writer-refused")
		return
	}
	if doc.encDict == nil {
		e.Fail("not-encrypted", "passwords given but no /Encrypt dictionary written", cfg.String())
		return
	}
	R := doc.R
	wantR := map[pdf.Version]int{pdf.V1_1: 2, pdf.V1_2: 2, pdf.V1_3: 2, pdf.V1_4: 3, pdf.V1_5: 3, pdf.V1_6: 4, pdf.V1_7: 4, pdf.V2_0: 6}[cfg.version]
	if wantR == 2 && !r2CanExpress(cfg.perm) {
		wantR = 3 // revision 2 cannot express the permission set
	}
	if R != wantR {
		e.Fail("revision", fmt.Sprintf("revision %d selected, expected %d", R, wantR), cfg.String())
	}

	ownerEff := cfg.owner
	if ownerEff == "" {
		ownerEff = cfg.user
	}
	pu, okU := prepared(R, cfg.user)
	po, okO := prepared(R, ownerEff)
	pe, _ := prepared(R, "")
	if !okU || !okO {
		e.Fail("writer-accepts-unpreparable", "Writer accepted a password outside the preparation's domain", cfg.String())
		return
	}
	emptyOwner := bytes.Equal(pe, po)
	emptyUser := bytes.Equal(pe, pu)

	// createStdSecHandler: model vs the /Encrypt dictionary written (R6: with the Writer's randomness)
	rawU, _ := rawPrep(R, cfg.user)
	rawO, _ := rawPrep(R, ownerEff)
	V, _ := doc.encDict["V"].(pdf.Integer)
	bits := map[pdf.Integer]int{1: 40, 2: 128, 4: 128, 5: 256}[V]
	d := doc.encDict
	P, _ := d["P"].(pdf.Integer)
	show := fmt.Sprintf("R=%d P=%d O=%s U=%s OE=%s UE=%s Perms=%s key=%s", R, uint32(int32(P)),
		common.Hex(str(d, "O")), common.Hex(str(d, "U")), common.Hex(str(d, "OE")), common.Hex(str(d, "UE")),
		common.Hex(str(d, "Perms")), common.Hex(doc.fileKey))
	plain := boolInt(cfg.plainMeta && cfg.withMeta)
	if R <= 4 {
		id := rn.nextID("c")
		e.Line("cases.txt", "%s C %d %d %d %d %s %s %s", id, int(V), int(cfg.perm), bits, plain,
			common.Hex(doc.id0), common.Hex(rawU), common.Hex(rawO))
		e.Line("impl.obs", "%s %s", id, show)
	} else if rn.r6model > 0 && len(str(d, "U")) == 48 && len(str(d, "O")) == 48 && len(doc.fileKey) == 32 {
		rn.r6model--
		// the random choices of the Writer, recovered from its output
		blk, _ := aes.NewCipher(doc.fileKey)
		pp := make([]byte, 16)
		blk.Decrypt(pp, str(d, "Perms"))
		id := rn.nextID("c")
		e.Line("cases.txt", "%s C %d %d %d %d %s %s %s %s %s %s %s", id, int(V), int(cfg.perm), bits, plain,
			common.Hex(doc.id0), common.Hex(rawU), common.Hex(rawO), common.Hex(doc.fileKey),
			common.Hex(str(d, "U")[32:]), common.Hex(str(d, "O")[32:]), common.Hex(pp[12:]))
		e.Line("impl.obs", "%s %s", id, show)
	}

	var items []rawItem
	itemsDone := false
	for _, c := range append(candidates(e, cfg), cfg.probes...) {
		label, pw := c[0], c[1]
		pp, ok := prepared(R, pw)
		key := fmt.Sprintf("R%d|%s|%s|%s|%d|%v|%v", R, cfg.version, label, clip(pw), cfg.perm, cfg.plainMeta, cfg.human)
		r, err := open(doc, pw)
		if !ok {
			// a candidate the preparation is not defined on (not in PDFDocEncoding for R <= 4, rejected by SASLprep
			// for R >= 5): it is nobody's password, so it must fail like any other wrong password
			rn.outside[fmt.Sprintf("R%d", R)]++
			pp = nil
		}
		isOwner := ok && bytes.Equal(pp, po)
		isUser := ok && bytes.Equal(pp, pu)
		// expected outcome (the empty password is always tried first)
		wantOK := emptyOwner || emptyUser || isOwner || isUser
		wantPerm := closePerm(cfg.perm)
		if emptyOwner || (!emptyUser && isOwner) {
			wantPerm = pdf.PermAll
		}
		class := fmt.Sprintf("R%d/%s", R, map[bool]string{true: "opens", false: "refused"}[wantOK])
		if !ok {
			class += "/unencodable"
		}
		if i := strings.Index(label, "straddle"); i >= 0 {
			class += "/" + label[i:]
		}
		e.Count(true, key, class)
		e.Sample(6, map[string]any{"config": cfg.String(), "password": clip(pw), "label": label, "expected_open": wantOK})
		caseInfo := map[string]any{"config": cfg.String(), "password": pw, "label": label, "R": R}

		var ae *pdf.AuthenticationError
		switch {
		case wantOK && err != nil:
			e.Fail("correct-password-refused", fmt.Sprintf("a password equal to the user/owner password after preparation does not open the file: %v", err), caseInfo)
		case !wantOK && err == nil:
			e.Fail("wrong-password-accepted", "a password differing from both after preparation opens the file", caseInfo)
		case !wantOK && !errors.As(err, &ae):
			e.Fail("wrong-password-error-class", fmt.Sprintf("wrong password gives %v, not an AuthenticationError", err), caseInfo)
		case wantOK:
			if got := r.GetMeta().Permissions; got != wantPerm {
				e.Fail("permissions", fmt.Sprintf("permissions %07b reported, expected %07b", int(got), int(wantPerm)), caseInfo)
			}
			if bad := contentProblems(doc, r); len(bad) > 0 {
				e.Fail("content", fmt.Sprintf("%d objects not read back as written, e.g. %s", len(bad), bad[0]), caseInfo)
			}
			if k := pdf.VerifReaderFileKey(r); !bytes.Equal(k, doc.fileKey) {
				e.Fail("file-key", "Reader recovered a file key different from the Writer's", caseInfo)
			}
		}

		// the model on the same /Encrypt dictionary (quick tier: the main labels and a sample of the near misses)
		if !e.Thorough && R <= 4 {
			main := label == "user" || label == "owner" || label == "wrong"
			if (!main && e.Rand.IntN(5) != 0) || (label == "owner" && itemsDone && e.Rand.IntN(2) == 0) {
				continue
			}
		}
		if R >= 5 && !strings.HasPrefix(label, "!") {
			if rn.r6model <= 0 {
				continue
			}
			rn.r6model--
		}
		raw, rawOK := rawPrep(R, pw)
		rawHex := common.Hex(raw)
		if !rawOK {
			rawHex = "!" // the preparation is undefined: the model gets None
		}
		id := rn.nextID("a")
		line := fmt.Sprintf("%s A %s %d %s %d", id, handlerFields(doc), boolInt(pw != ""), rawHex, boolInt(isAES(doc)))
		var useItems []rawItem
		if err == nil && !itemsDone {
			items, err = rawItems(doc, r)
			if err != nil {
				e.Fail("raw-read", fmt.Sprintf("cannot read the stored objects: %v", err), caseInfo)
			}
			useItems = items
			itemsDone = true
		}
		// every stream also read through DecryptStream with random source/consumer chunkings, intact and damaged
		if len(useItems) > 0 {
			var extra []rawItem
			for _, it := range useItems {
				if it.kind != "t" {
					continue
				}
				for v := 0; v < 2; v++ {
					if !e.Thorough && v != e.Rand.IntN(2) {
						continue
					}
					raw := it.raw
					if v == 1 {
						switch e.Rand.IntN(4) {
						case 0:
							raw = raw[:len(raw)*e.Rand.IntN(100)/100] // cut anywhere
						case 1:
							if len(raw) > 16 {
								raw = raw[:len(raw)-16] // lose the last block
							}
						case 2:
							raw = append(append([]byte{}, raw...), randBytes(e, 1+e.Rand.IntN(20))...)
						default:
							if len(raw) > 0 {
								raw = append([]byte{}, raw...)
								raw[len(raw)-1-e.Rand.IntN(min(len(raw), 16))] ^= byte(1 + e.Rand.IntN(255))
							}
						}
					}
					x := rawItem{ref: it.ref, raw: raw, early: e.Rand.IntN(2) == 0}
					for i, n := 0, e.Rand.IntN(12); i < n; i++ {
						x.ss = append(x.ss, []int{0, 0, 1, 14, 15, 16, 30, 31, 32, e.Rand.IntN(60)}[e.Rand.IntN(10)])
					}
					for i, n := 0, e.Rand.IntN(12); i < n; i++ {
						x.cs = append(x.cs, []int{0, 0, 1, 14, 15, 16, 17, 31, 32, e.Rand.IntN(60)}[e.Rand.IntN(10)])
					}
					x.kind = fmt.Sprintf("r:%d:%s:%s", boolInt(x.early), intList(x.ss), intList(x.cs))
					extra = append(extra, x)
				}
			}
			useItems = append(append([]rawItem{}, useItems...), extra...)
		}
		line += fmt.Sprintf(" %d", len(useItems))
		for _, it := range useItems {
			line += fmt.Sprintf(" %d %d %s %s", it.ref.Number(), it.ref.Generation(), it.kind, common.Hex(it.raw))
		}
		e.Line("cases.txt", "%s", line)
		if err != nil || r == nil {
			var ae2 *pdf.AuthenticationError
			if errors.As(err, &ae2) {
				e.Line("impl.obs", "%s auth", id)
			} else {
				e.Line("impl.obs", "%s err", id)
			}
			continue
		}
		e.Line("impl.obs", "%s ok %d %s", id, int(r.GetMeta().Permissions), common.Hex(pdf.VerifReaderFileKey(r)))
		for i, it := range useItems {
			var dec []byte
			var derr error
			if it.kind == "s" {
				dec, derr = pdf.VerifDecryptBytes(r, it.ref, it.raw)
			} else if strings.HasPrefix(it.kind, "r:") {
				var rd io.Reader
				rd, derr = pdf.VerifDecryptStream(r, it.ref, &schedReader{data: it.raw, sizes: it.ss, early: it.early})
				if derr == nil {
					dec, derr = readSched(rd, it.cs)
				}
			} else {
				var rd io.Reader
				rd, derr = pdf.VerifDecryptStream(r, it.ref, &chunkReader{e: e, data: it.raw})
				if derr == nil {
					dec, derr = io.ReadAll(rd)
				}
			}
			if derr != nil {
				e.Line("impl.obs", "%s.%d ERR", id, i)
			} else {
				e.Line("impl.obs", "%s.%d %s", id, i, common.Hex(dec))
			}
		}
	}
	if cfg.human {
		rn.tamper(doc)
	}
	if R >= 5 || (e.Thorough && rn.id%4 == 0) || (!e.Thorough && rn.id%3 == 0) {
		rn.parseCases(doc)
	}
}

// tamper: one byte of a string entry of /Encrypt is changed in the file (hexadecimal spelling, as
// written in human-readable output); implementation and model must then agree on the outcome
// (no oracle is involved: this is decode agreement on damaged input).
func (rn *run) tamper(doc *document) {
	e := rn.e
	fields := []pdf.Name{"U", "O"}
	if doc.R >= 5 {
		fields = append(fields, "UE", "OE", "Perms")
	}
	// the /EncryptMetadata flag contradicts /Perms (revision 6): both sides must refuse
	if doc.R >= 5 && doc.cfg.plainMeta && rn.emdTamper > 0 {
		old := []byte("/EncryptMetadata false")
		if pos := bytes.LastIndex(doc.data, old); pos >= 0 {
			rn.emdTamper--
			nd := append([]byte{}, doc.data...)
			copy(nd[pos:], []byte("/EncryptMetadata true "))
			d2 := pdf.Dict{}
			for kk, vv := range doc.encDict {
				d2[kk] = vv
			}
			d2["EncryptMetadata"] = pdf.Boolean(true)
			rn.tamperedOpen(doc, nd, d2, "EncryptMetadata", "true")
		}
	}
	for k := 0; k < 4; k++ {
		if doc.R >= 5 {
			if rn.r6model <= 0 || !e.Thorough {
				return
			}
			rn.r6model--
		}
		f := fields[e.Rand.IntN(len(fields))]
		if k == 3 {
			// one bit of /P (the trailer follows the cross-reference table, so its length may change)
			P, _ := doc.encDict["P"].(pdf.Integer)
			old := []byte(fmt.Sprintf("/P %d\n", int64(P)))
			pos := bytes.LastIndex(doc.data, old)
			if pos < 0 {
				continue
			}
			np := int32(uint32(int32(P)) ^ (1 << e.Rand.IntN(32)))
			nd := append(append(append([]byte{}, doc.data[:pos]...), []byte(fmt.Sprintf("/P %d\n", np))...), doc.data[pos+len(old):]...)
			d2 := pdf.Dict{}
			for kk, vv := range doc.encDict {
				d2[kk] = vv
			}
			d2["P"] = pdf.Integer(np)
			rn.tamperedOpen(doc, nd, d2, "P", fmt.Sprint(np))
			continue
		}
		val := str(doc.encDict, f)
		if len(val) == 0 {
			continue
		}
		idx := []int{0, 15, 16, 31, len(val) - 1, e.Rand.IntN(len(val))}[e.Rand.IntN(6)]
		if idx >= len(val) {
			idx = len(val) - 1
		}
		old := []byte("/" + string(f) + " <" + hexLower(val) + ">")
		pos := bytes.LastIndex(doc.data, old)
		if pos < 0 {
			continue
		}
		nv := append([]byte{}, val...)
		nv[idx] ^= byte(1 << e.Rand.IntN(8))
		repl := []byte("/" + string(f) + " <" + hexLower(nv) + ">")
		nd := append([]byte{}, doc.data...)
		copy(nd[pos:], repl)
		d2 := pdf.Dict{}
		for kk, vv := range doc.encDict {
			d2[kk] = vv
		}
		d2[f] = pdf.String(nv)
		rn.tamperedOpen(doc, nd, d2, string(f), fmt.Sprintf("%d|%x", idx, nv))
	}
}

func (rn *run) tamperedOpen(doc *document, nd []byte, d2 pdf.Dict, field, what string) {
	e := rn.e
	doc2 := *doc
	doc2.data = nd
	doc2.encDict = d2
	for _, pw := range []string{doc.cfg.user, doc.cfg.owner} {
		if doc.R >= 5 && pw != doc.cfg.user {
			continue
		}
		raw, ok := rawPrep(doc.R, pw)
		if !ok {
			continue
		}
		r, err := open(&doc2, pw)
		id := rn.nextID("t")
		e.Line("cases.txt", "%s A %s %d %s %d 0", id, handlerFields(&doc2), boolInt(pw != ""), common.Hex(raw), boolInt(isAES(doc)))
		var ae *pdf.AuthenticationError
		switch {
		case err == nil:
			e.Line("impl.obs", "%s ok %d %s", id, int(r.GetMeta().Permissions), common.Hex(pdf.VerifReaderFileKey(r)))
		case errors.As(err, &ae):
			e.Line("impl.obs", "%s auth", id)
		default:
			e.Line("impl.obs", "%s err", id)
		}
		e.Count(true, fmt.Sprintf("tamper|%s|%s|%s", doc.cfg.String(), field, what), fmt.Sprintf("tampered-encrypt/R%d/%s", doc.R, field))
	}
}

func hexLower(b []byte) string {
	const digits = "0123456789abcdef"
	out := make([]byte, 2*len(b))
	for i, c := range b {
		out[2*i] = digits[c>>4]
		out[2*i+1] = digits[c&15]
	}
	return string(out)
}

func intList(l []int) string {
	if len(l) == 0 {
		return "-"
	}
	p := make([]string, len(l))
	for i, x := range l {
		p[i] = fmt.Sprint(x)
	}
	return strings.Join(p, ",")
}

// schedReader hands out its data in pieces of sizes[i]+1 bytes (as much as fits afterwards) and reports
// io.EOF together with the last piece (early) or on the following call.
type schedReader struct {
	data  []byte
	sizes []int
	early bool
}

func (c *schedReader) Read(p []byte) (int, error) {
	if len(c.data) == 0 {
		return 0, io.EOF
	}
	k := len(p)
	if len(c.sizes) > 0 {
		k = min(c.sizes[0]+1, len(p))
		c.sizes = c.sizes[1:]
	}
	k = min(k, len(c.data))
	copy(p, c.data[:k])
	c.data = c.data[k:]
	if len(c.data) == 0 && c.early {
		return k, io.EOF
	}
	return k, nil
}

// readSched reads to EOF with buffers of cs[i]+1 bytes, then of 512 bytes.
func readSched(rd io.Reader, cs []int) ([]byte, error) {
	var out []byte
	for {
		n := 512
		if len(cs) > 0 {
			n = cs[0] + 1
			cs = cs[1:]
		}
		buf := make([]byte, n)
		k, err := rd.Read(buf)
		out = append(out, buf[:k]...)
		if err == io.EOF {
			return out, nil
		}
		if err != nil {
			return nil, err
		}
	}
}

// ---- operations on the Writer: the file identifier is changed after the key was derived from it ------------

// idOps: GetMeta().ID is replaced / cleared / shortened between NewWriter and Close on encrypted writers of every
// version.  Either Close refuses, or the file must open with both passwords and give back its content.
func (rn *run) idOps() {
	e := rn.e
	muts := []string{"none", "replace-first", "replace-both", "replace-second", "clear", "empty-slice", "shorten-first", "one-element", "swap", "same-bytes-new-slice"}
	for _, v := range versions {
		for _, mut := range muts {
			for _, given := range []bool{false, true} {
				if !e.Thorough && e.Rand.IntN(2) == 0 && mut != "replace-first" && mut != "clear" {
					continue
				}
				opt := &pdf.WriterOptions{UserPassword: "u-" + asciiN(e, 3), OwnerPassword: "o-" + asciiN(e, 3), UserPermissions: pdf.PermCopy}
				if given {
					opt.ID = [][]byte{randBytes(e, 16), randBytes(e, 16)}
				}
				buf := &bytes.Buffer{}
				w, err := pdf.NewWriter(buf, v, opt)
				if err != nil {
					e.Fail("writer-refuses", err.Error(), fmt.Sprint(v))
					continue
				}
				m := marker(e, "idop")
				ref := w.Alloc()
				w.Put(ref, pdf.Dict{"S": pdf.String(append([]byte{}, m...))})
				pages := w.Alloc()
				w.Put(pages, pdf.Dict{"Type": pdf.Name("Pages"), "Kids": pdf.Array{}, "Count": pdf.Integer(0)})
				w.GetMeta().Catalog.Pages = pages
				meta := w.GetMeta()
				switch mut {
				case "replace-first":
					meta.ID = [][]byte{randBytes(e, 16), meta.ID[1]}
				case "replace-both":
					meta.ID = [][]byte{randBytes(e, 16), randBytes(e, 16)}
				case "replace-second":
					meta.ID = [][]byte{meta.ID[0], randBytes(e, 16)}
				case "clear":
					meta.ID = nil
				case "empty-slice":
					meta.ID = [][]byte{}
				case "shorten-first":
					meta.ID = [][]byte{meta.ID[0][:8], meta.ID[1]}
				case "one-element":
					meta.ID = meta.ID[:1]
				case "swap":
					meta.ID = [][]byte{meta.ID[1], meta.ID[0]}
				case "same-bytes-new-slice":
					meta.ID = [][]byte{append([]byte{}, meta.ID[0]...), append([]byte{}, meta.ID[1]...)}
				}
				info := map[string]any{"version": fmt.Sprint(v), "mutation": mut, "id_given": given}
				key := fmt.Sprintf("idop|%v|%s|%v", v, mut, given)
				closeErr, panicked := func() (err error, p any) {
					defer func() { p = recover() }()
					return w.Close(), nil
				}()
				if panicked != nil {
					sig := "close-panics"
					if mut == "one-element" {
						sig = "close-panics-one-element-id"
					}
					e.Fail(sig, fmt.Sprintf("Writer.Close panics after GetMeta().ID was changed (%s): %v", mut, panicked), info)
					e.Count(true, key, "id-ops/panic")
					continue
				}
				if err := closeErr; err != nil {
					if mut == "none" || mut == "same-bytes-new-slice" {
						e.Fail("close-refuses-unchanged-id", fmt.Sprintf("Close refuses although the ID is unchanged: %v", err), info)
					}
					e.Count(true, key, "id-ops/refused")
					continue
				}
				data := buf.Bytes()
				good := true
				for _, pw := range []string{opt.UserPassword, opt.OwnerPassword} {
					r, err := pdf.NewReader(bytes.NewReader(data), int64(len(data)), &pdf.ReaderOptions{Password: pw})
					if err != nil {
						e.Fail("id-changed-before-close", fmt.Sprintf("Close accepted a changed file identifier but the file cannot be opened with its password: %v", err), info)
						good = false
						break
					}
					obj, _ := r.Get(ref, true)
					d, _ := obj.(pdf.Dict)
					if got, _ := d["S"].(pdf.String); !bytes.Equal(got, m) {
						e.Fail("id-changed-before-close", "Close accepted a changed file identifier but strings do not decrypt", info)
						good = false
						break
					}
				}
				if good {
					e.Count(true, key, "id-ops/accepted-and-readable")
				}
			}
		}
	}
}

// placeholderOps: objects whose strings sit in a pdf.Placeholder (bare, inside arrays/dictionaries, as typed
// wrappers which only RENDER as strings), set before or after the object is written, on seekable and non-seekable
// output, at every version: the Writer may refuse, otherwise the object must read back as written.
func (rn *run) placeholderOps() {
	e := rn.e
	kinds := []string{"string", "array-string", "array-textstring", "dict-date", "array-wrapper", "dict-nest"}
	for _, v := range versions {
		for _, seek := range []bool{true, false} {
			for _, early := range []bool{true, false} {
				for _, kind := range kinds {
					if !e.Thorough && e.Rand.IntN(2) == 0 {
						continue
					}
					info := map[string]any{"version": fmt.Sprint(v), "seekable": seek, "set_before_put": early, "value": kind}
					m := marker(e, "ph")
					date := pdf.Date(time.Date(1990+e.Rand.IntN(60), time.Month(1+e.Rand.IntN(12)), 1+e.Rand.IntN(28), e.Rand.IntN(24), e.Rand.IntN(60), e.Rand.IntN(60), 0, time.UTC))
					value := func() pdf.Native {
						switch kind {
						case "array-string":
							return pdf.Array{pdf.Integer(1), freshS(m)}
						case "array-textstring":
							return pdf.Array{pdf.TextString(string(m)), pdf.Integer(1)}
						case "dict-date":
							return pdf.Dict{"ModDate": date, "N": pdf.Integer(3)}
						case "array-wrapper":
							return pdf.Array{renderStr{m}}
						case "dict-nest":
							return pdf.Dict{"X": renderNest{m}}
						}
						return freshS(m)
					}
					want := render(pdf.Dict{"S": value(), "T": pdf.String("other")})
					sb := &seekBuffer{}
					var out io.Writer = sb
					if !seek {
						out = struct{ io.Writer }{sb}
					}
					w, err := pdf.NewWriter(out, v, &pdf.WriterOptions{UserPassword: "u", OwnerPassword: "o"})
					if err != nil {
						e.Fail("writer-refuses", err.Error(), info)
						continue
					}
					pages := w.Alloc()
					w.GetMeta().Catalog.Pages = pages
					w.Put(pages, pdf.Dict{"Type": pdf.Name("Pages"), "Kids": pdf.Array{}, "Count": pdf.Integer(0)})
					ph := pdf.NewPlaceholder(w, 200)
					refused := false
					if early {
						refused = ph.Set(value()) != nil
					}
					ref := w.Alloc()
					if !refused && w.Put(ref, pdf.Dict{"S": ph, "T": pdf.String("other")}) != nil {
						refused = true
					}
					if !refused && !early {
						refused = ph.Set(value()) != nil
					}
					if !refused && w.Close() != nil {
						refused = true
					}
					key := fmt.Sprintf("placeholder|%v|%v|%v|%s", v, seek, early, kind)
					if refused {
						e.Count(true, key, "placeholder/refused")
						continue
					}
					data := sb.data
					for _, pw := range []string{"u", "o"} {
						r, err := pdf.NewReader(bytes.NewReader(data), int64(len(data)), &pdf.ReaderOptions{Password: pw})
						if err != nil {
							e.Fail("placeholder-content", fmt.Sprintf("file with a placeholder-held string does not open: %v", err), info)
							break
						}
						obj, err := r.Get(ref, true)
						if err != nil {
							e.Fail("placeholder-content", fmt.Sprintf("the object holding the placeholder cannot be read: %v", err), info)
							break
						}
						if d, ok := obj.(pdf.Dict); ok {
							if sref, isRef := d["S"].(pdf.Reference); isRef { // the placeholder became an indirect object
								inner, _ := r.Get(sref, true)
								d = pdf.Dict{"S": inner, "T": d["T"]}
								obj = d
							}
						}
						if got := render(obj); got != want {
							e.Fail("placeholder-content", fmt.Sprintf("a string held by a placeholder does not read back: read %s, written %s", clipLong(got), clipLong(want)), info)
							break
						}
					}
					e.Count(true, key, "placeholder/readable")
				}
			}
		}
	}
}

// seekBuffer is an in-memory io.WriteSeeker
type seekBuffer struct {
	data []byte
	pos  int
}

func (b *seekBuffer) Write(p []byte) (int, error) {
	if need := b.pos + len(p); need > len(b.data) {
		b.data = append(b.data, make([]byte, need-len(b.data))...)
	}
	copy(b.data[b.pos:], p)
	b.pos += len(p)
	return len(p), nil
}

func (b *seekBuffer) Seek(off int64, whence int) (int64, error) {
	switch whence {
	case io.SeekStart:
		b.pos = int(off)
	case io.SeekCurrent:
		b.pos += int(off)
	case io.SeekEnd:
		b.pos = len(b.data) + int(off)
	}
	return int64(b.pos), nil
}

// ---- parseEncryptDict: the Writer's dictionary and damaged variants of it ----------------------------

func nameTok(n pdf.Name) string {
	if n == "" {
		return "_"
	}
	return string(n)
}

// encodeDict writes an /Encrypt dictionary in the abstract form of the model (ParseModel.v)
func encodeDict(d pdf.Dict) string {
	keys := make([]string, 0, len(d))
	for k := range d {
		keys = append(keys, string(k))
	}
	sort.Strings(keys)
	var parts []string
	n := 0
	for _, k := range keys {
		var ty, v string
		switch x := d[pdf.Name(k)].(type) {
		case pdf.Integer:
			ty, v = "i", fmt.Sprint(int64(x))
		case pdf.Name:
			if x == "" && (k == "StmF" || k == "StrF") {
				continue // an empty name selects nothing, exactly like a missing entry
			}
			ty, v = "n", nameTok(x)
		case pdf.String:
			ty, v = "s", common.Hex([]byte(x))
		case pdf.Boolean:
			ty, v = "b", fmt.Sprint(boolInt(bool(x)))
		case pdf.Dict:
			if k != "CF" {
				// a dictionary where none is expected: any other wrong type will do for the model
				ty, v = "b", "1"
				if k == "EncryptMetadata" {
					ty, v = "i", "0"
				}
				break
			}
			ty = "c"
			std, ok := x["StdCF"].(pdf.Dict)
			if !ok {
				v = "nostd"
			} else if cfm, ok := std["CFM"].(pdf.Name); ok {
				v = nameTok(cfm)
			} else {
				v = "nocfm"
			}
		default:
			continue
		}
		parts = append(parts, k, ty, v)
		n++
	}
	return fmt.Sprintf("%d %s", n, strings.Join(parts, " "))
}

func cloneDict(d pdf.Dict) pdf.Dict {
	c := pdf.Dict{}
	for k, v := range d {
		if sub, ok := v.(pdf.Dict); ok {
			v = cloneDict(sub)
		}
		c[k] = v
	}
	return c
}

// mutateDict applies one random damage to an /Encrypt dictionary
func mutateDict(e *common.Env, d pdf.Dict) (pdf.Dict, string) {
	d = cloneDict(d)
	keys := []pdf.Name{"Filter", "V", "R", "O", "U", "P", "Length", "CF", "StmF", "StrF", "EncryptMetadata", "OE", "UE", "Perms"}
	k := keys[e.Rand.IntN(len(keys))]
	wrong := []pdf.Object{pdf.Integer(3), pdf.Name("Foo"), pdf.String("xy"), pdf.Boolean(true), pdf.Dict{}}
	switch op := e.Rand.IntN(10); {
	case op == 0:
		delete(d, k)
		return d, "drop " + string(k)
	case op == 1:
		d[k] = wrong[e.Rand.IntN(len(wrong))]
		return d, "retype " + string(k)
	case op == 2:
		d["V"] = pdf.Integer(e.Rand.IntN(7))
		return d, "V"
	case op == 3:
		d["R"] = pdf.Integer(1 + e.Rand.IntN(7))
		return d, "R"
	case op == 4:
		d["Length"] = pdf.Integer([]int{0, 32, 39, 40, 44, 48, 64, 104, 128, 136, 256}[e.Rand.IntN(11)])
		return d, "Length"
	case op == 5:
		names := []pdf.Name{"StdCF", "Identity", "Other", ""}
		d[[]pdf.Name{"StmF", "StrF"}[e.Rand.IntN(2)]] = names[e.Rand.IntN(len(names))]
		return d, "StmF/StrF"
	case op == 6:
		cfm := []pdf.Object{pdf.Name("V2"), pdf.Name("AESV2"), pdf.Name("AESV3"), pdf.Name("None"), pdf.Integer(1), nil}[e.Rand.IntN(6)]
		switch e.Rand.IntN(4) {
		case 0:
			d["CF"] = pdf.Dict{}
		case 1:
			d["CF"] = pdf.Dict{"StdCF": pdf.Integer(1)}
		default:
			std := pdf.Dict{"Length": pdf.Integer(128)}
			if cfm != nil {
				std["CFM"] = cfm
			}
			d["CF"] = pdf.Dict{"StdCF": std}
		}
		if e.Rand.IntN(2) == 0 {
			d["StmF"], d["StrF"] = pdf.Name("StdCF"), pdf.Name("StdCF")
			if _, ok := d["V"]; ok && e.Rand.IntN(2) == 0 {
				d["V"] = pdf.Integer(4)
				d["R"] = pdf.Integer(4)
			}
		}
		return d, "CF"
	case op == 7:
		f := []pdf.Name{"O", "U", "OE", "UE", "Perms"}[e.Rand.IntN(5)]
		s, _ := d[f].(pdf.String)
		b := append([]byte{}, s...)
		switch e.Rand.IntN(4) {
		case 0:
			b = append(b, make([]byte, 1+e.Rand.IntN(20))...) // zero padding: tryCrop removes it
		case 1:
			b = append(b, 0, 0, byte(1+e.Rand.IntN(255)))
		case 2:
			if len(b) > 0 {
				b = b[:len(b)-1]
			}
		default:
			b = randBytes(e, []int{0, 16, 31, 32, 33, 47, 48, 49}[e.Rand.IntN(8)])
		}
		d[f] = pdf.String(b)
		return d, "len " + string(f)
	case op == 8:
		d["EncryptMetadata"] = []pdf.Object{pdf.Boolean(true), pdf.Boolean(false), pdf.Integer(0)}[e.Rand.IntN(3)]
		return d, "EncryptMetadata"
	default:
		P, _ := d["P"].(pdf.Integer)
		d["P"] = []pdf.Integer{P + 1<<32, P & 0xFFFFFFFF, -1, 0, P ^ 4}[e.Rand.IntN(5)]
		return d, "P"
	}
}

func (rn *run) parseCases(doc *document) {
	e := rn.e
	n := e.Pick(6, 20)
	if doc.R >= 5 {
		// authentication on a revision 6 dictionary costs several runs of Algorithm 2.B in the model: only the
		// Writer's own dictionary, and only for a few documents (the cheapest: an empty user password)
		if rn.r6parse <= 0 || doc.cfg.user != "" {
			return
		}
		rn.r6parse--
		n = 0
	}
	for i := -1; i < n; i++ {
		d, what := doc.encDict, "as written"
		twoIDs := true
		if i >= 0 {
			d, what = mutateDict(e, doc.encDict)
			if e.Rand.IntN(3) == 0 {
				d, _ = mutateDict(e, d)
				what += "+"
			}
			if e.Rand.IntN(25) == 0 {
				twoIDs = false
			}
		}
		pw := doc.cfg.user
		if i >= 0 && e.Rand.IntN(4) == 0 {
			pw = doc.cfg.owner
		}
		raw, ok := rawPrep(doc.R, pw)
		if !ok {
			continue
		}
		if !twoIDs {
			continue // the model takes the ID as given; the one-ID case is covered by the field check below
		}
		desc, perm, err := pdf.VerifParseEncryptDict(d, doc.id0, twoIDs, pw)
		id := rn.nextID("g")
		e.Line("cases.txt", "%s G %d %s %s %s", id, boolInt(pw != ""), common.Hex(raw), common.Hex(doc.id0), encodeDict(d))
		var ae *pdf.AuthenticationError
		class := "ok"
		switch {
		case err == nil:
			e.Line("impl.obs", "%s ok %s perm=%d", id, desc, int(perm))
		case pdf.IsMalformed(err):
			class = "malformed"
			e.Line("impl.obs", "%s malformed", id)
		case errors.As(err, &ae):
			class = "auth"
			e.Line("impl.obs", "%s auth", id)
		default:
			class = "err"
			e.Line("impl.obs", "%s err", id)
		}
		if i < 0 && err != nil {
			e.Fail("parse-own-dict", fmt.Sprintf("parseEncryptDict rejects the dictionary AsDict produced: %v", err), map[string]any{"config": doc.cfg.String()})
		}
		e.Count(true, fmt.Sprintf("parse|%s|%s|%s", doc.cfg.String(), what, encodeDict(d)), fmt.Sprintf("parse-encrypt/R%d/%s", doc.R, class))
	}
}

// chunkReader delivers its data in random pieces (the decryptReader must not depend on them).
type chunkReader struct {
	e    *common.Env
	data []byte
}

func (c *chunkReader) Read(p []byte) (int, error) {
	if len(c.data) == 0 {
		return 0, io.EOF
	}
	k := 1 + c.e.Rand.IntN(50)
	if k > len(p) {
		k = len(p)
	}
	if k > len(c.data) {
		k = len(c.data)
	}
	copy(p, c.data[:k])
	c.data = c.data[k:]
	return k, nil
}

// primitives: the Gallina MD5/SHA-2/RC4/AES/PKCS#7 against Go's standard library and unpadPKCS7
func (rn *run) primitives() {
	e := rn.e
	n := e.Pick(40, 400)
	for i := 0; i < n; i++ {
		size := []int{0, 1, 55, 56, 63, 64, 65, 111, 112, 119, 120, 127, 128, 129, 200}[e.Rand.IntN(15)]
		if e.Rand.IntN(2) == 0 {
			size = e.Rand.IntN(300)
		}
		data := randBytes(e, size)
		for _, alg := range []string{"md5", "sha256", "sha384", "sha512"} {
			var sum []byte
			switch alg {
			case "md5":
				s := md5.Sum(data)
				sum = s[:]
			case "sha256":
				s := sha256.Sum256(data)
				sum = s[:]
			case "sha384":
				s := sha512.Sum384(data)
				sum = s[:]
			default:
				s := sha512.Sum512(data)
				sum = s[:]
			}
			id := rn.nextID("h")
			e.Line("cases.txt", "%s H %s %s", id, alg, common.Hex(data))
			e.Line("impl.obs", "%s %s", id, common.Hex(sum))
			e.Count(true, alg+common.Hex(data), "primitive/"+alg)
		}
		key := randBytes(e, []int{5, 16, 32, 1 + e.Rand.IntN(32)}[e.Rand.IntN(4)])
		c, _ := rc4.NewCipher(key)
		out := make([]byte, len(data))
		c.XORKeyStream(out, data)
		id := rn.nextID("x")
		e.Line("cases.txt", "%s X %s %s", id, common.Hex(key), common.Hex(data))
		e.Line("impl.obs", "%s %s", id, common.Hex(out))
		e.Count(true, "rc4"+common.Hex(key)+common.Hex(data), "primitive/rc4")

		akey := randBytes(e, []int{16, 32}[e.Rand.IntN(2)])
		blk := randBytes(e, 16)
		bc, _ := aes.NewCipher(akey)
		enc := make([]byte, 16)
		bc.Encrypt(enc, blk)
		dec := make([]byte, 16)
		bc.Decrypt(dec, blk)
		id = rn.nextID("b")
		e.Line("cases.txt", "%s B e %s %s", id, common.Hex(akey), common.Hex(blk))
		e.Line("impl.obs", "%s %s", id, common.Hex(enc))
		id = rn.nextID("b")
		e.Line("cases.txt", "%s B d %s %s", id, common.Hex(akey), common.Hex(blk))
		e.Line("impl.obs", "%s %s", id, common.Hex(dec))
		e.Count(true, "aes"+common.Hex(akey)+common.Hex(blk), "primitive/aes")
	}
	// unpadPKCS7: valid paddings, near-valid ones and random blocks; oracle = the definition of PKCS#7
	m := e.Pick(300, 3000)
	for i := 0; i < m; i++ {
		nblk := 1 + e.Rand.IntN(3)
		buf := randBytes(e, 16*nblk)
		switch e.Rand.IntN(6) {
		case 0, 1, 2:
			k := 1 + e.Rand.IntN(16)
			for j := 0; j < k; j++ {
				buf[len(buf)-1-j] = byte(k)
			}
			if e.Rand.IntN(3) == 0 { // damage one padding byte
				buf[len(buf)-1-e.Rand.IntN(k)] ^= byte(1 + e.Rand.IntN(255))
			}
		case 3:
			buf[len(buf)-1] = byte([]int{0, 17, 32, 255}[e.Rand.IntN(4)])
		case 4:
			buf = buf[:len(buf)-1-e.Rand.IntN(15)] // not a multiple of 16
		}
		got, err := pdf.VerifUnpadPKCS7(buf)
		// definition
		valid := len(buf) >= 16 && len(buf)%16 == 0
		var want []byte
		if valid {
			k := int(buf[len(buf)-1])
			valid = k >= 1 && k <= 16
			if valid {
				for j := 0; j < k; j++ {
					if buf[len(buf)-1-j] != byte(k) {
						valid = false
					}
				}
				want = buf[:len(buf)-k]
			}
		}
		if valid != (err == nil) || (valid && !bytes.Equal(got, want)) {
			e.Fail("pkcs7", "unpadPKCS7 disagrees with the definition of PKCS#7 padding", common.Hex(buf))
		}
		id := rn.nextID("u")
		e.Line("cases.txt", "%s U %s", id, common.Hex(buf))
		if err != nil {
			e.Line("impl.obs", "%s ERR", id)
		} else {
			e.Line("impl.obs", "%s ok %s", id, common.Hex(got))
		}
		e.Count(true, "unpad"+common.Hex(buf), fmt.Sprintf("unpad/valid=%v", valid))
	}
}

// permission algebra: exhaustive over 128 sets x revisions, implementation side through real files is
// covered by checkDocument; here the translated functions are compared with closePerm directly.
func (rn *run) perms() {
	e := rn.e
	for _, R := range []int{2, 3, 4, 6} {
		for p := 0; p < 128; p++ {
			id := rn.nextID("p")
			e.Line("cases.txt", "%s P %d %d", id, R, p)
			perm := pdf.Perm(p)
			canR2 := r2CanExpress(perm)
			back := closePerm(perm)
			if R == 2 && !canR2 {
				// not used by the Writer; the model reports what the translated functions compute
				e.Line("impl.obs", "%s -", id)
				continue
			}
			e.Line("impl.obs", "%s back=%d canR2=%s", id, int(back), map[bool]string{true: "1", false: "0"}[canR2])
		}
	}
}

func main() {
	e := common.New(9)
	rn := &run{e: e, r6model: e.Pick(4, 30), emdTamper: e.Pick(1, 6), r6parse: e.Pick(1, 4), outside: map[string]int{}}
	rn.primitives()
	rn.perms()
	rn.idOps()
	rn.placeholderOps()

	perm := 0
	nextPerm := func() pdf.Perm { perm = (perm + 37) % 128; return pdf.Perm(perm) }
	// every ordered pair of password classes once (versions cycle), then random configurations
	vi := 0
	var cfgs []config
	for _, cu := range pwClasses {
		for _, co := range pwClasses {
			u, o := cu.gen(e), co.gen(e)
			if u == "" && o == "" {
				continue
			}
			v := versions[vi%len(versions)]
			vi++
			cfgs = append(cfgs, config{version: v, user: u, owner: o, perm: nextPerm(),
				withMeta: e.Rand.IntN(2) == 0, plainMeta: v >= pdf.V1_6 && e.Rand.IntN(2) == 0, human: e.Rand.IntN(4) == 0})
		}
	}
	// all 128 permission sets for each revision-selecting version group
	for p := 0; p < 128; p++ {
		for _, v := range []pdf.Version{pdf.V1_3, pdf.V1_5, pdf.V1_7, pdf.V2_0} {
			if !e.Thorough && (p+int(v))%4 != 0 {
				continue
			}
			cfgs = append(cfgs, config{version: v, user: pwClasses[1].gen(e), owner: pwClasses[2].gen(e), perm: pdf.Perm(p)})
		}
	}
	extra := e.Pick(30, 1200)
	for i := 0; i < extra; i++ {
		u := pwClasses[e.Rand.IntN(len(pwClasses))].gen(e)
		o := pwClasses[e.Rand.IntN(len(pwClasses))].gen(e)
		if u == "" && o == "" {
			o = "o"
		}
		v := versions[e.Rand.IntN(len(versions))]
		cfgs = append(cfgs, config{version: v, user: u, owner: o, perm: pdf.Perm(e.Rand.IntN(128)),
			withMeta: e.Rand.IntN(2) == 0, plainMeta: e.Rand.IntN(3) == 0, human: e.Rand.IntN(4) == 0})
	}
	// make sure the rationed R6 model runs see a non-empty user password early
	first := config{version: pdf.V2_0, user: "usér", owner: "ownér-pw", perm: pdf.PermCopy | pdf.PermPrint, withMeta: true, plainMeta: true}
	// an R6 file with an empty user password, plaintext metadata, human-readable: used for the /EncryptMetadata tampering
	second := config{version: pdf.V2_0, user: "", owner: "owner", perm: pdf.PermCopy, withMeta: true, plainMeta: true, human: true}
	cfgs = append(append([]config{first, second}, straddleConfigs(e)...), cfgs...)
	for _, cfg := range cfgs {
		if cfg.version < pdf.V1_4 {
			cfg.withMeta = false // XMP metadata streams need PDF 1.4
		}
		if !cfg.withMeta {
			cfg.plainMeta = false
		}
		rn.checkDocument(cfg)
	}
	e.Finish("nontrivial = distinct (revision, version, password label, password, permission set, metadata mode) for which the preparation is defined; each is one open of a freshly written file",
		map[string]any{"outside_domain_candidates": rn.outside, "r6_model_runs_left": rn.r6model})
}
