// C20 harness, hand-laid-out files: every kind of value as the top-level value of an
// indirect object, in files that span several 1024-byte windows of scanner.Find with object
// headers at every residue modulo the window size.  The offsets of the oracle come from the
// construction, never from a search.
package main

import (
	"bytes"
	"fmt"

	"seehuhn.de/go/pdf"
	"seehuhn.de/go/pdf/verifharness/common"
)

// item: one indirect object of a hand-laid-out file
type item struct {
	text   string     // the bytes between the header and endobj (without the separators)
	expect pdf.Object // what FileInfo.Read has to give (nil: null); streams: see body
	body   []byte     // != nil: a stream; expect is its dictionary without /Length
	// the /Length of a stream: "direct", "before" (reference to an earlier object), "after"
	// (reference to the object that follows the stream)
	length string
	kind   string
}

func val(kind string, o pdf.Object) item {
	if o == nil {
		return item{text: "null", expect: nil, kind: kind}
	}
	return item{text: pdf.AsString(o), expect: o, kind: kind}
}

func spelt(kind, text string, o pdf.Object) item {
	return item{text: text, expect: o, kind: kind}
}

func stm(kind string, d pdf.Dict, body string, length string) item {
	return item{expect: d, body: []byte(body), length: length, kind: kind}
}

// kindItems: every Native kind as a top-level value, incl. null, the empty composites,
// references, nested composites, streams with every form of /Length, an object stream
func kindItems() []item {
	ref := func(n int) pdf.Reference { return pdf.NewReference(uint32(n), 0) }
	return []item{
		val("null", nil),
		val("boolean", pdf.Boolean(true)),
		val("boolean", pdf.Boolean(false)),
		val("integer", pdf.Integer(0)),
		val("integer", pdf.Integer(-17)),
		val("integer", pdf.Integer(2147483647)),
		spelt("integer", "+5", pdf.Integer(5)),
		val("real", pdf.Real(0.5)),
		val("real", pdf.Real(-3.25)),
		spelt("real", "4.", pdf.Real(4)),
		spelt("real", "-.002", pdf.Real(-0.002)),
		val("name", pdf.Name("Type")),
		spelt("name-empty", "/", pdf.Name("")),
		val("name", pdf.Name("A#B x")),
		val("string", pdf.String("hello")),
		spelt("string-empty", "()", pdf.String("")),
		spelt("string-empty", "<>", pdf.String("")),
		spelt("string-hex", "<48656C6C6F>", pdf.String("Hello")),
		spelt("string-hex", "<4 8 65 7>", pdf.String("Hep")),
		spelt("string-nested-parens", "(a (nested (pair)) b)", pdf.String("a (nested (pair)) b")),
		spelt("string-escapes", `(x\)y\\z\101\12)`, pdf.String("x)y\\zA\n")),
		spelt("string-raw-eol", "(line one\nq line two\r\nq line three)", pdf.String("line one\nq line two\nq line three")),
		spelt("string-keywords", "(xendobj 3 0 obj stream endstream)", pdf.String("xendobj 3 0 obj stream endstream")),
		spelt("array-empty", "[]", pdf.Array{}),
		spelt("array-empty", "[ ]", pdf.Array{}),
		val("array", pdf.Array{pdf.Integer(1), pdf.Real(2.5), pdf.Name("N"), pdf.String("s"), pdf.Boolean(true)}),
		spelt("array-of-null", "[null null]", pdf.Array{nil, nil}),
		spelt("array-nested", "[[] [[]] [<<>> [1 [2 [3]]]]]", pdf.Array{pdf.Array{}, pdf.Array{pdf.Array{}},
			pdf.Array{pdf.Dict{}, pdf.Array{pdf.Integer(1), pdf.Array{pdf.Integer(2), pdf.Array{pdf.Integer(3)}}}}}),
		val("array-of-references", pdf.Array{ref(1), ref(2), ref(900)}),
		spelt("dict-empty", "<<>>", pdf.Dict{}),
		spelt("dict-empty", "<< >>", pdf.Dict{}),
		val("dict", pdf.Dict{"Type": pdf.Name("Foo"), "K": pdf.Integer(3)}),
		spelt("dict-nested", "<</A<</B[<<>><</C()>>]>>/D/E>>", pdf.Dict{"A": pdf.Dict{"B": pdf.Array{pdf.Dict{}, pdf.Dict{"C": pdf.String("")}}}, "D": pdf.Name("E")}),
		val("dict-of-references", pdf.Dict{"Parent": ref(3), "Next": ref(901)}),
		val("reference-to-earlier", ref(1)),
		val("reference-to-later", ref(60)),
		val("reference-to-absent", ref(902)),
		spelt("reference-spelt", "0000001   0 R", ref(1)),
		stm("stream-direct-length", pdf.Dict{"K": pdf.Integer(1)}, "body one", "direct"),
		stm("stream-empty", pdf.Dict{}, "", "direct"),
		stm("stream-length-before", pdf.Dict{"K": pdf.Integer(2)}, "body two\nwith lines", "before"),
		stm("stream-length-after", pdf.Dict{"K": pdf.Integer(3)}, "body three", "after"),
		stm("stream-body-eol-direct", pdf.Dict{"K": pdf.Integer(4)}, "ends in EOL\r\n", "direct"),
		stm("stream-body-endstream-line-before", pdf.Dict{"K": pdf.Integer(5)}, "a\nendstream\nendobj\nq b", "before"),
		stm("stream-nested-dict", pdf.Dict{"P": pdf.Dict{"Q": pdf.Array{nil, pdf.Dict{}}}}, "x", "direct"),
		stm("object-stream", pdf.Dict{"Type": pdf.Name("ObjStm"), "N": pdf.Integer(3), "First": pdf.Integer(18)},
			"950 0 951 5 952 9 null (x) << /A [] >>", "direct"),
	}
}

var headerEOLs = []string{"\n", "\n", "\n", "\r\n", "\r"}
var afterObj = []string{"\n", "\n", " ", "\r\n", "\r", "  "}
var beforeEndobj = []string{"\n", "\n", " ", "\r\n", "\r"}

// kindsDoc lays out a complete file of at least minSize bytes: a comment of pad bytes after
// the header, then the kind items again and again (rotated by rot, so that every kind meets
// every position), small integer objects in between, a classic table and trailer or a
// cross-reference stream.
func (g *generator) kindsDoc(pad, rot, minSize int, fillers int, xrefStream bool) *doc {
	d := g.layoutDoc(kindItems(), pad, rot, minSize, fillers, xrefStream)
	d.class = fmt.Sprintf("value-kinds pad=%d rot=%d xrefstream=%v", pad, rot, xrefStream)
	return d
}

// the bytes a stream's data may end in
var eolTails = []string{"\n", "\r\n", "\r", "\n\n", "\r\n\r\n", "\n\r", "\r\r", " \n", "\r\n\n"}

// eolTailDoc: small streams whose data ends in every combination of end-of-line bytes, with
// /Length in an object before and after the stream (minSize 0: every item once)
func (g *generator) eolTailDoc() *doc {
	var items []item
	for i, tail := range eolTails {
		for _, form := range []string{"before", "after", "direct"} {
			items = append(items, stm("stream-data-ends-in-eol", pdf.Dict{"K": pdf.Integer(i)}, fmt.Sprintf("data %d%s", i, tail), form))
		}
	}
	// three passes, so that every item meets each of the three end-of-line markers in front
	// of endstream (LF, CR LF, CR) the layout cycles through
	d := g.layoutDoc(append(append(items, items[1:]...), items[2:]...), 0, 0, 0, 0, false)
	d.class = "stream-data-ends-in-eol (laid out)"
	return d
}

// eolTailWriterDoc: the Writer, a sink that cannot seek, a body of n bytes + tail
func (g *generator) eolTailWriterDoc(tail string, n int) *doc {
	body := append(g.text(n), tail...)
	if k := n - 1; body[k] == '\n' || body[k] == '\r' {
		body[k] = 'z'
	}
	vals := []pdf.Object{pdf.String("first"), nil, pdf.Name("Third")}
	d := g.writeRaw(pdf.V1_4, n%2 == 0, vals, [][]byte{nil, body, nil}, false)
	d.class = fmt.Sprintf("stream-data-ends-in-eol (Writer) tail=%q", tail)
	return d
}

// layoutDoc: see kindsDoc; minSize 0 lays out every item exactly once
func (g *generator) layoutDoc(items []item, pad, rot, minSize int, fillers int, xrefStream bool) *doc {
	d := &doc{}
	var buf bytes.Buffer
	buf.WriteString("%PDF-1.7\n%\xe2\xe3\xcf\xd3\n")
	if pad > 0 {
		buf.WriteString("%")
		buf.Write(bytes.Repeat([]byte("p"), pad-1))
	}
	// every object begins at the beginning of a line; the EOL before its header varies
	eol := func(i int) { buf.WriteString(headerEOLs[i%len(headerEOLs)]) }
	if pad > 0 {
		eol(pad)
	}
	type placed struct{ num, start int }
	var offs []placed
	num := g.numBase
	counter := 0
	put := func(text string, want string, kind string) *rec {
		num++
		counter++
		start := buf.Len()
		fmt.Fprintf(&buf, "%d 0 obj%s%s%sendobj", num, afterObj[counter%len(afterObj)], text, beforeEndobj[(counter/2)%len(beforeEndobj)])
		rc := &rec{ref: pdf.NewReference(uint32(num), 0), start: start, end: buf.Len(), val: want, objstm: kind == "object-stream"}
		eol(counter)
		d.recs = append(d.recs, rc)
		offs = append(offs, placed{num, start})
		return rc
	}
	putVal := func(it item) {
		if it.body == nil {
			put(it.text, valueDigest(it.expect), it.kind)
			return
		}
		dict := pdf.Dict{}
		for k, v := range it.expect.(pdf.Dict) {
			dict[k] = v
		}
		prefix := "stream" + pdf.AsString(dict)
		want := digest(prefix + string(it.body))
		hdr := func() string {
			eolAfterStream := []string{"\n", "\r\n"}[counter%2]
			return pdf.AsString(dict) + []string{"\n", " ", "\r\n"}[counter%3] + "stream" + eolAfterStream
		}
		tail := []string{"\nendstream", "\r\nendstream", "\rendstream"}[counter%3]
		markerLF := counter%3 == 0
		switch it.length {
		case "direct":
			dict["Length"] = pdf.Integer(len(it.body))
			put(hdr()+string(it.body)+tail, want, it.kind).eolTail(prefix, it.body, markerLF)
		case "before":
			put(fmt.Sprint(len(it.body)), valueDigest(pdf.Integer(len(it.body))), "integer (a /Length)")
			dict["Length"] = pdf.NewReference(uint32(num), 0)
			put(hdr()+string(it.body)+tail, want, it.kind).eolTail(prefix, it.body, markerLF)
		case "after":
			dict["Length"] = pdf.NewReference(uint32(num+2), 0)
			rc := put(hdr()+string(it.body)+tail, want, it.kind)
			rc.eolTail(prefix, it.body, markerLF)
			lrc := put(fmt.Sprint(len(it.body)), valueDigest(pdf.Integer(len(it.body))), "integer (a /Length)")
			rc.lenHdrEnd = lrc.start + len(fmt.Sprintf("%d 0 obj", num))
			rc.lenEnd = lrc.end
		}
	}
	for round := 0; buf.Len() < minSize || (minSize == 0 && round == 0); round++ {
		for i := range items {
			putVal(items[(i+rot+round*7)%len(items)])
			for f := 0; f < fillers; f++ {
				put(fmt.Sprint(counter*37%1000), valueDigest(pdf.Integer(counter*37%1000)), "integer (filler)")
			}
			if minSize > 0 && buf.Len() >= minSize {
				break
			}
		}
	}
	// catalog, page tree, table, trailer
	put("<< /Type /Pages /Kids [] /Count 0 >>", valueDigest(pdf.Dict{"Type": pdf.Name("Pages"), "Kids": pdf.Array{}, "Count": pdf.Integer(0)}), "dict")
	pages := num
	put(fmt.Sprintf("<< /Type /Catalog /Pages %d 0 R >>", pages), valueDigest(pdf.Dict{"Type": pdf.Name("Catalog"), "Pages": pdf.NewReference(uint32(pages), 0)}), "dict")
	root := num
	if b := buf.Bytes(); b[len(b)-1] != '\n' && b[len(b)-1] != '\r' {
		panic("no EOL before xref")
	}
	xpos := buf.Len()
	if xrefStream && g.numBase > 0 {
		panic("numBase needs a classic table")
	}
	if xrefStream {
		// the cross-reference data as an (unfiltered) stream, four bytes per entry
		xnum := num + 1
		body := []byte{0, 0, 0, 255}
		for _, o := range offs {
			body = append(body, 1, byte(o.start>>8), byte(o.start), 0)
		}
		body = append(body, 1, byte(xpos>>8), byte(xpos), 0)
		dict := pdf.Dict{"Type": pdf.Name("XRef"), "Size": pdf.Integer(xnum + 1), "W": pdf.Array{pdf.Integer(1), pdf.Integer(2), pdf.Integer(1)},
			"Root": pdf.NewReference(uint32(root), 0)}
		want := digest("stream" + pdf.AsString(dict) + string(body))
		dict["Length"] = pdf.Integer(len(body))
		fmt.Fprintf(&buf, "%d 0 obj\n%s\nstream\n", xnum, pdf.AsString(dict))
		buf.Write(body)
		buf.WriteString("\nendstream\nendobj")
		d.recs = append(d.recs, &rec{ref: pdf.NewReference(uint32(xnum), 0), start: xpos, end: buf.Len(), val: want})
		d.trailers = []trailerInfo{{completeAt: buf.Len(), rev: 0}}
	} else {
		if g.numBase > 0 {
			fmt.Fprintf(&buf, "xref\n0 1\n0000000000 65535 f \n%d %d\n", g.numBase+1, num-g.numBase)
		} else {
			fmt.Fprintf(&buf, "xref\n0 %d\n0000000000 65535 f \n", num+1)
		}
		for _, o := range offs {
			fmt.Fprintf(&buf, "%010d 00000 n \n", o.start)
		}
		fmt.Fprintf(&buf, "trailer\n<< /Size %d /Root %d 0 R >>", num+1, root)
		d.trailers = []trailerInfo{{completeAt: buf.Len(), rev: 0}}
	}
	fmt.Fprintf(&buf, "\nstartxref\n%d\n%%%%EOF\n", xpos)
	d.data = buf.Bytes()
	return d
}

// which residues modulo the scanner's buffer size do the object headers of the files take?
type residues struct {
	seen [1024]bool
}

func (r *residues) add(d *doc) {
	for _, rc := range d.recs {
		r.seen[rc.start%1024] = true
	}
}

func (r *residues) count() int {
	n := 0
	for _, b := range r.seen {
		if b {
			n++
		}
	}
	return n
}

// compressedDoc: the Writer (PDF 1.7) puts values of every kind into compressed object
// streams; the containers and the cross-reference stream are top-level objects of the file
func (g *generator) compressedDoc(i int) *doc {
	buf := &bytes.Buffer{}
	w, err := pdf.NewWriter(buf, pdf.V1_7, nil)
	if err != nil {
		panic(err)
	}
	d := &doc{}
	items := kindItems()
	var plain []pdf.Reference
	var want []string
	for round := 0; round < 2+i%3; round++ {
		var refs []pdf.Reference
		var objs []pdf.Object
		for j, it := range items {
			if it.body != nil {
				continue
			}
			if _, isRef := it.expect.(pdf.Reference); isRef || (j+i+round)%4 == 0 {
				ref := w.Alloc()
				if err := w.Put(ref, it.expect); err != nil {
					panic(err)
				}
				plain = append(plain, ref)
				want = append(want, valueDigest(it.expect))
				continue
			}
			refs = append(refs, w.Alloc())
			objs = append(objs, it.expect)
		}
		if err := w.WriteCompressed(refs, objs...); err != nil {
			panic(err)
		}
	}
	pages := w.Alloc()
	w.Put(pages, pdf.Dict{"Type": pdf.Name("Pages"), "Kids": pdf.Array{}, "Count": pdf.Integer(0)})
	w.GetMeta().Catalog.Pages = pages
	if err := w.Close(); err != nil {
		panic(err)
	}
	d.data = buf.Bytes()
	find := func(hdr string, from int) int {
		j := bytes.Index(d.data[from:], []byte(hdr))
		if j < 0 {
			panic("not found: " + hdr)
		}
		return from + j
	}
	for k, ref := range plain {
		start := find(fmt.Sprintf("\n%d 0 obj", ref.Number()), 0) + 1
		d.recs = append(d.recs, &rec{ref: ref, start: start, end: find("\nendobj", start) + 7, val: want[k]})
	}
	// the containers
	for at := 0; ; {
		j := bytes.Index(d.data[at:], []byte("ObjStm"))
		if j < 0 {
			break
		}
		at += j + 6
		h := bytes.LastIndex(d.data[:at], []byte(" 0 obj"))
		ls := bytes.LastIndexAny(d.data[:h], "\r\n") + 1
		var n int
		if _, err := fmt.Sscanf(string(d.data[ls:h]), "%d", &n); err != nil {
			panic("object stream header not understood")
		}
		end := find("\nendobj", find("endstream", at)) + 7
		d.recs = append(d.recs, &rec{ref: pdf.NewReference(uint32(n), 0), start: ls, end: end, objstm: true, noVal: true})
	}
	objstms := 0
	for _, rc := range d.recs {
		if rc.objstm {
			objstms++
		}
	}
	if objstms == 0 {
		panic("the Writer made no object stream")
	}
	d.class = fmt.Sprintf("compressed-object-streams %d", i)
	return d
}

// intObjects: the H-parse instance.  The Coq reader IntObjects.parse_int is compared with
// scanner.ReadIndirectObject on objects `N G obj LF digits LF endobj`: on the complete text,
// on every proper prefix, and with nothing or LF + arbitrary bytes appended (what can follow
// a chunk in a file).
func (t *runner) intObjects() {
	e := t.e
	type io struct {
		num, gen int
		val      string
	}
	objs := []io{{1, 0, "0"}, {12, 0, "345"}, {7, 3, "2147483647"}, {123456, 65535, "00012"}, {9, 0, "7"}, {10, 1, "10"}}
	for i := 0; i < e.Pick(20, 400); i++ {
		objs = append(objs, io{1 + e.Rand.IntN(8000000), e.Rand.IntN(3) * e.Rand.IntN(30000), fmt.Sprint(e.Rand.IntN(1 << 30))})
	}
	suffixes := []string{"", "\n", "\nxref\n", "\n1 0 obj\n", "\n%%EOF\n", "\nendobj\n", "\n\x00\xff"}
	n := 0
	run := func(num, gen int, data []byte, class string) {
		n++
		id := fmt.Sprintf("i%d", n)
		fi := &pdf.FileInfo{R: bytes.NewReader(data), FileSize: int64(len(data))}
		x, err := safeParse(fi, &pdf.FileObject{ObjStart: 0, Reference: pdf.NewReference(uint32(num), uint16(gen))})
		obs := "fail"
		if err == nil {
			if v, ok := x.(pdf.Integer); ok {
				obs = fmt.Sprintf("ok:%d", int64(v))
			} else {
				obs = "ok:other"
			}
		}
		e.Line("cases.txt", "%s I %s", id, common.Hex(data))
		e.Line("impl.obs", "%s %s", id, obs)
		e.Count(true, "int "+string(data), class)
	}
	for _, o := range objs {
		text := fmt.Sprintf("%d %d obj\n%s\nendobj", o.num, o.gen, o.val)
		for k := 0; k < len(text); k++ {
			run(o.num, o.gen, []byte(text[:k]), "integer object: proper prefix")
		}
		for _, sfx := range suffixes {
			run(o.num, o.gen, []byte(text+sfx), "integer object: complete, bytes appended")
		}
	}
}
