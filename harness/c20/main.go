// C20 harness: a truncated or xref-damaged file still gives up every object
// completely written.
//
// Documents are written with the real Writer (plain objects and streams; with
// compressed object streams and a cross-reference stream in the PDF 1.7 family)
// or laid out by hand (kinds.go: every kind of value as the top-level value of
// an indirect object, in files of several scanner windows).  For every
// truncation offset 0..len (all enumerated, evaluated by a few workers) and for
// every single-section corruption of the cross-reference data the harness
//   - runs SequentialScan / FileInfo.Read / MakeReader and records the
//     observation (reference, offset, Broken, value) in impl.obs,
//   - runs the property's oracle directly (every object whose endobj lies within
//     the available bytes is listed at its true offset, not broken, with the
//     written value; the scan does not fail when a complete object exists),
//   - writes the case for the Coq model: the bytes, the cut, and the outcome of
//     the real object parser at every located candidate (the model does not
//     contain an object parser; it decides what is located, what is Broken, when
//     the scan aborts, the index and the rebuilt xref table).
package main

import (
	"bytes"
	"crypto/sha256"
	"encoding/hex"
	"errors"
	"fmt"
	"io"
	"os"
	"regexp"
	"runtime"
	"runtime/debug"
	"sort"
	"strings"
	"sync"
	"sync/atomic"
	"time"

	"seehuhn.de/go/pdf"
	"seehuhn.de/go/pdf/verifharness/common"
)

type rec struct {
	ref   pdf.Reference
	start int // offset of "N G obj"
	end   int // offset just after "endobj"
	val   string
	// for a stream whose /Length is an indirect reference: where the header of the
	// length object ends and where the length object ends
	lenHdrEnd, lenEnd int
	// an object stream: has to be listed in the section's ObjectStreams
	objstm bool
	// no expected value (container written by the Writer with a filter)
	noVal bool
	// a stream whose data ends in an end-of-line: the digests of the value with that
	// end-of-line cut off (LF, CR: one byte; CR LF: one and two bytes), and whether the last
	// byte is a CR (CR + the Writer's LF cannot be told from a CR LF end-of-line marker
	// without /Length)
	shortVals map[string]bool
	endsCR    bool
}

// eolTail fills shortVals / endsCR for a stream with this digest prefix and body
func (rc *rec) eolTail(prefix string, body []byte, markerLF bool) {
	n := len(body)
	if n == 0 || (body[n-1] != '\n' && body[n-1] != '\r') {
		return
	}
	rc.shortVals = map[string]bool{digest(prefix + string(body[:n-1])): true}
	if n >= 2 && body[n-2] == '\r' && body[n-1] == '\n' {
		rc.shortVals[digest(prefix+string(body[:n-2]))] = true
	}
	rc.endsCR = body[n-1] == '\r' && markerLF
}

var indirectLength = regexp.MustCompile(`/Length ([0-9]+) 0 R`)

func digest(s string) string {
	h := sha256.Sum256([]byte(s))
	return hex.EncodeToString(h[:6])
}

func valueDigest(o pdf.Object) (res string) {
	defer func() {
		if r := recover(); r != nil {
			res = "panic"
		}
	}()
	switch x := o.(type) {
	case *pdf.Stream:
		data, err := io.ReadAll(x.NewReader())
		if err != nil {
			return "readerr"
		}
		d := pdf.Dict{}
		for k, v := range x.Dict {
			if k != "Length" {
				d[k] = v
			}
		}
		return digest("stream" + pdf.AsString(d) + string(data))
	case nil:
		return digest("null")
	}
	return digest(pdf.AsString(o))
}

func errClass(err error) string {
	switch {
	case err == nil:
		return "ok"
	case pdf.IsMalformed(err):
		return "malformed"
	case errors.Is(err, io.EOF) || errors.Is(err, io.ErrUnexpectedEOF):
		return "eof"
	default:
		return "other"
	}
}

type doc struct {
	data  []byte
	recs  []*rec
	class string
	// the trailers of the file, oldest first: where each is complete (the byte after the
	// dictionary's ">>", or after the endobj of an xref stream) and its /XX_Rev marker
	// (0 for the Writer's own trailer); nil = the trailer oracle is not run
	trailers []trailerInfo
}

type trailerInfo struct {
	completeAt int
	rev        int
}

var words = []string{"hello", "(world)", "obj", "endobj", "stream", "xref", "trailer", "1 0 obj", "startxref", "%%EOF", "a\\b", "R", "<<", ">>"}

func (g *generator) text(n int) []byte {
	r := g.e.Rand
	var b []byte
	for len(b) < n {
		switch r.IntN(8) {
		case 0:
			b = append(b, ' ')
		case 1:
			b = append(b, byte('0'+r.IntN(10)))
		case 2:
			// a word that looks like syntax, never at the beginning of a line
			b = append(b, 'x')
			b = append(b, words[r.IntN(len(words))]...)
		case 3:
			if len(b) > 0 && r.IntN(3) == 0 {
				// a line break followed by something that is not a marker
				b = append(b, "\nq "...)
			}
		default:
			b = append(b, byte('a'+r.IntN(26)))
		}
	}
	return b[:n]
}

type generator struct {
	e *common.Env
	// numBase: layoutDoc numbers its objects numBase+1, numBase+2, ... (long object headers)
	numBase int
}

// object makes a random value; strings may contain raw line breaks followed by harmless text
func (g *generator) object(depth int, self pdf.Reference) pdf.Object {
	r := g.e.Rand
	k := r.IntN(8)
	if depth > 1 && k >= 6 {
		k = r.IntN(6)
	}
	switch k {
	case 0:
		return pdf.Integer(r.IntN(100000) - 500)
	case 1:
		return pdf.Name([]string{"N", "Type", "obj", "A#B", "x y"}[r.IntN(5)])
	case 2:
		return pdf.String(g.text(r.IntN(40)))
	case 3:
		return pdf.Boolean(r.IntN(2) == 0)
	case 4:
		return pdf.Real(float64(r.IntN(1000)) / 8)
	case 5:
		return self
	case 6:
		n := r.IntN(4)
		a := pdf.Array{}
		for i := 0; i < n; i++ {
			a = append(a, g.object(depth+1, self))
		}
		return a
	default:
		n := r.IntN(4)
		d := pdf.Dict{}
		for i := 0; i < n; i++ {
			d[pdf.Name(fmt.Sprintf("K%d", r.IntN(6)))] = g.object(depth+1, self)
		}
		return d
	}
}

// write builds one document.  bodies[i] != nil makes object i a stream with that body.
func (g *generator) write(v pdf.Version, hr bool, vals []pdf.Object, bodies [][]byte) *doc {
	return g.writeRaw(v, hr, vals, bodies, true)
}

// directLengths: give bodies that only /Length can delimit a direct /Length
func (g *generator) writeRaw(v pdf.Version, hr bool, vals []pdf.Object, bodies [][]byte, directLengths bool) *doc {
	buf := &bytes.Buffer{}
	w, err := pdf.NewWriter(buf, v, &pdf.WriterOptions{HumanReadable: hr})
	if err != nil {
		panic(err)
	}
	d := &doc{}
	for i := range vals {
		ref := w.Alloc()
		rc := &rec{ref: ref}
		if bodies[i] != nil {
			dict := pdf.Dict{"K": pdf.Integer(i)}
			if directLengths && needsDirectLength(bodies[i]) {
				dict["Length"] = pdf.Integer(len(bodies[i]))
			}
			ws, err := w.OpenStream(ref, dict)
			if err != nil {
				panic(err)
			}
			ws.Write(bodies[i])
			if err := ws.Close(); err != nil {
				panic(err)
			}
			rc.val = digest("stream" + pdf.AsString(pdf.Dict{"K": pdf.Integer(i)}) + string(bodies[i]))
			rc.eolTail("stream"+pdf.AsString(pdf.Dict{"K": pdf.Integer(i)}), bodies[i], true)
		} else {
			o := vals[i]
			if o == nil {
				o = pdf.Integer(i)
			}
			if rf, ok := o.(pdf.Reference); ok && rf == 0 {
				o = ref
			}
			if err := w.Put(ref, o); err != nil {
				panic(err)
			}
			rc.val = digest(pdf.AsString(o))
		}
		d.recs = append(d.recs, rc)
	}
	pages := w.Alloc()
	w.Put(pages, pdf.Dict{"Type": pdf.Name("Pages"), "Kids": pdf.Array{}, "Count": pdf.Integer(0)})
	w.GetMeta().Catalog.Pages = pages
	if err := w.Close(); err != nil {
		panic(err)
	}
	d.data = buf.Bytes()
	for ri, rc := range d.recs {
		hdr := []byte(fmt.Sprintf("\n%d %d obj", rc.ref.Number(), rc.ref.Generation()))
		i := bytes.Index(d.data, hdr)
		if i < 0 {
			panic("object header not found")
		}
		rc.start = i + 1
		// the end: generated text never has "endobj" at the beginning of a line, so the first
		// line-initial endobj after the header closes the object (independent of the scanner)
		// (for a stream: the first one after its body, which may itself contain such a line)
		after := rc.start
		if bi := bytes.Index(d.data[rc.start:], bodies[ri]); bodies[ri] != nil && bi >= 0 {
			after = rc.start + bi + len(bodies[ri])
		}
		j := bytes.Index(d.data[after:], []byte("\nendobj"))
		if j < 0 {
			panic("endobj not found")
		}
		rc.end = after + j + 7
		if m := indirectLength.FindSubmatch(d.data[rc.start:rc.end]); m != nil {
			hdr := []byte(fmt.Sprintf("\n%s 0 obj", m[1]))
			if j := bytes.Index(d.data, hdr); j >= 0 {
				rc.lenHdrEnd = j + len(hdr)
				if k := bytes.Index(d.data[j+1:], []byte("\nendobj")); k >= 0 {
					rc.lenEnd = j + 1 + k + 7
				}
			}
		}
	}
	d.class = fmt.Sprintf("v%s hr=%v", v, hr)
	return d
}

// a body that ends in an EOL or contains a line "endstream" cannot be delimited without its
// /Length; when the Writer would put the length into a later object (large bodies), a cut
// between the two makes the value unrecoverable by any reader, so these get a direct /Length
func needsDirectLength(b []byte) bool {
	n := len(b)
	return n > 0 && (b[n-1] == '\n' || b[n-1] == '\r') ||
		bytes.Contains(b, []byte("\nendstream")) || bytes.Contains(b, []byte("\rendstream"))
}

func (g *generator) randomDoc() *doc {
	r := g.e.Rand
	v := []pdf.Version{pdf.V1_0, pdf.V1_1, pdf.V1_2, pdf.V1_3, pdf.V1_4}[r.IntN(5)]
	hr := r.IntN(2) == 0
	n := 1 + r.IntN(6)
	vals := make([]pdf.Object, n)
	bodies := make([][]byte, n)
	for i := range vals {
		if r.IntN(3) == 0 {
			size := []int{0, 1, 5, 100, 700, 1100, 2100}[r.IntN(7)]
			bodies[i] = g.text(size)
			if bodies[i] == nil {
				bodies[i] = []byte{}
			}
			// bodies that only a correct /Length delimits: a trailing EOL, a line "endstream";
			// such a stream is written with a direct /Length (see write)
			switch r.IntN(8) {
			case 0:
				bodies[i] = append(bodies[i], '\n')
			case 1:
				bodies[i] = append(bodies[i], '\r', '\n')
			case 2:
				bodies[i] = append(bodies[i], '\r')
			case 3:
				bodies[i] = append(append(append([]byte{}, bodies[i]...), "\nendstream\nq "...), g.text(r.IntN(30))...)
			}
		} else {
			vals[i] = g.object(0, 0)
		}
	}
	return g.write(v, hr, vals, bodies)
}

// sweepDoc: a small object, a stream of n bytes (no trailing EOL, no line "endstream") whose
// /Length the Writer has to put into a later object, a small object
func (g *generator) sweepDoc(n int) *doc {
	body := make([]byte, n)
	for i := range body {
		body[i] = byte('a' + i%26)
		if i%71 == 70 && i+3 < n {
			body[i] = '\n'
		}
	}
	vals := []pdf.Object{pdf.String("first"), nil, pdf.Name("Third")}
	d := g.write(pdf.V1_4, n%2 == 0, vals, [][]byte{nil, body, nil})
	d.class = "length-sweep"
	return d
}

// manyStreamsDoc: k streams of about 1100 bytes whose /Length the Writer puts into a later
// object; stream j has lines that begin with endstream / endobj
func (g *generator) manyStreamsDoc(k, j int) *doc {
	vals := make([]pdf.Object, k)
	bodies := make([][]byte, k)
	for i := range bodies {
		b := g.text(1100 + 3*i)
		if n := len(b); b[n-1] == '\n' || b[n-1] == '\r' {
			b[n-1] = 'z'
		}
		if i == j && j%3 != 2 {
			// a line "endstream" that is NOT followed by endobj
			copy(b[200:], "\nendstream\nq zz\nendstream x\nq ")
			copy(b[700:], "\rendstream\r\nq ")
		} else if i == j {
			// ... and one that is
			copy(b[200:], "\nendstream\nendobj\nq ")
		}
		bodies[i] = b
	}
	d := g.writeRaw(pdf.V1_4, j%2 == 0, vals, bodies, false)
	d.class = fmt.Sprintf("many-streams k=%d", k)
	return d
}

// windowDoc places marker text (not preceded by an EOL) where scanner.Find starts a
// new search window: finding "marker-text-at-find-window-start"
func (g *generator) windowDoc(marker string, at int) *doc {
	body := bytes.Repeat([]byte("a"), 1500)
	vals := []pdf.Object{pdf.String("first"), nil, pdf.String("third")}
	d0 := g.write(pdf.V1_4, true, vals, [][]byte{nil, body, nil})
	// where does the body start?
	bs := bytes.Index(d0.data, body[:100])
	body2 := append([]byte{}, body...)
	copy(body2[at-bs:], marker)
	d := g.write(pdf.V1_4, true, vals, [][]byte{nil, body2, nil})
	d.class = "window"
	return d
}

type runner struct {
	e      *common.Env
	nextID int
}

// observe runs the real scan on data and returns (observation, case fields for the model)
// errScanPanics stands for a panic of SequentialScan / FileInfo.Read
var errScanPanics = errors.New("panic")

func safeParse(loc *pdf.FileInfo, o *pdf.FileObject) (x pdf.Object, err error) {
	defer func() {
		if r := recover(); r != nil {
			x, err = nil, errScanPanics
		}
	}()
	x, _, err = loc.VerifParse(o)
	return x, err
}

func safeScan(data []byte) (fi *pdf.FileInfo, err error) {
	defer func() {
		if r := recover(); r != nil {
			fi, err = nil, fmt.Errorf("%w: %v", errScanPanics, r)
		}
	}()
	return pdf.SequentialScan(bytes.NewReader(data), int64(len(data)))
}

func observe(data []byte, withXRef bool) (obs string, pcs string, fi *pdf.FileInfo, scanErr error, spurious bool) {
	defer func() {
		if r := recover(); r != nil {
			obs = fmt.Sprintf("panic:%v", r)
			fi, scanErr = nil, fmt.Errorf("%w: %v", errScanPanics, r)
		}
	}()
	// parse outcomes at the candidates the implementation locates
	var pp []string
	if loc, err := pdf.VerifLocate(bytes.NewReader(data), int64(len(data))); err == nil {
		for _, sec := range loc.Sections {
			for _, o := range sec.Objects {
				x, err := safeParse(loc, o)
				cls := errClass(err)
				if errors.Is(err, errScanPanics) {
					cls = "panic"
				}
				val := "-"
				if err == nil {
					val = valueDigest(x)
				}
				pp = append(pp, fmt.Sprintf("%d:%s:%s", o.ObjStart, cls, val))
				// a candidate that is not at the beginning of a line (and not where the search began)
				if p := int(o.ObjStart); p > 0 && p <= len(data) && data[p-1] != '\n' && data[p-1] != '\r' {
					spurious = true
				}
			}
		}
	}
	pcs = fmt.Sprintf("%d %s", len(pp), strings.Join(pp, " "))
	pcs += " X 0 T 0" // replaced below when the scan succeeds

	fi, scanErr = safeScan(data)
	if scanErr != nil {
		cls := errClass(scanErr)
		if errors.Is(scanErr, errScanPanics) {
			cls = "panic"
		}
		return "fail-" + cls, pcs, nil, scanErr, spurious
	}
	var parts []string
	for _, sec := range fi.Sections {
		for _, o := range sec.Objects {
			s := fmt.Sprintf("%d.%d@%d:", o.Number(), o.Generation(), o.ObjStart)
			if o.Broken {
				s += "B"
			} else {
				x, err := fi.Read(o)
				if err != nil {
					s += "readerr"
				} else {
					s += "v" + valueDigest(x)
				}
			}
			parts = append(parts, s)
		}
	}
	obs = "objs[" + strings.Join(parts, " ") + "]"
	if withXRef {
		x := fi.VerifXRef()
		var nums []int
		for n := range x {
			nums = append(nums, int(n))
		}
		sort.Ints(nums)
		var xs []string
		for _, n := range nums {
			xs = append(xs, fmt.Sprintf("%d=%d.%d", n, x[uint32(n)][0], x[uint32(n)][1]))
		}
		obs += " xref[" + strings.Join(xs, " ") + "]"
	}
	// getTrailer: what the implementation chooses, and what it sees in each section
	tcls := func(err error) string {
		switch {
		case err == nil:
			return "ok"
		case pdf.VerifIsSourceFailure(err):
			return "source"
		default:
			return "bad"
		}
	}
	var xs, ts []string
	for _, sec := range fi.Sections {
		for _, o := range sec.Objects {
			if o.Type == "Stream" && o.Subtype == "XRef" {
				x, err := fi.Read(o)
				root, dig := "0", "-"
				if stm, ok := x.(*pdf.Stream); err == nil && ok {
					if stm.Dict["Root"] != nil {
						root = "1"
					}
					dig = valueDigest(stm.Dict)
				}
				xs = append(xs, fmt.Sprintf("%d:%s:%s:%s", o.ObjStart, tcls(err), root, dig))
			}
		}
		if sec.TrailerPos != 0 {
			d, err := fi.VerifReadTrailer(sec)
			dig := "-"
			if err == nil {
				dig = valueDigest(d)
			}
			ts = append(ts, fmt.Sprintf("%d:%s:%s", sec.TrailerPos, tcls(err), dig))
		}
	}
	pcs = strings.TrimSuffix(pcs, " X 0 T 0") + fmt.Sprintf(" X %d %s T %d %s", len(xs), strings.Join(xs, " "), len(ts), strings.Join(ts, " "))
	if td, terr := fi.VerifGetTrailer(); terr == nil {
		obs += " trailer[" + valueDigest(td) + "]"
	} else if pdf.VerifIsSourceFailure(terr) && terr.Error() != "no trailer found" {
		obs += " trailer[source]"
	} else {
		obs += " trailer[none]"
	}
	return obs, pcs, fi, nil, spurious
}

// oracle: every object whose endobj lies within the available bytes
// emit receives the failures (signature, text, case); the callers pass them to failCapped in
// the order of the cuts
type emitFn func(signature, what string, c any)

func (t *runner) oracle(d *doc, data []byte, avail int, fi *pdf.FileInfo, scanErr error, what string, id string, spurious bool, emit emitFn) {
	anyComplete := false
	for _, rc := range d.recs {
		if rc.end <= avail {
			anyComplete = true
		}
	}
	fail := func(sig, msg string) {
		if spurious {
			// the implementation located marker text that is not at the beginning of a line (fixed: F24)
			sig = "marker-text-located-without-preceding-eol"
		}
		emit(sig, msg, map[string]any{"id": id, "what": what, "available_bytes": avail, "file_hex": hex.EncodeToString(data), "doc": d.class})
	}
	if errors.Is(scanErr, errScanPanics) {
		// a panic is never acceptable, whatever the bytes
		emit("scan-panics", "SequentialScan / FileInfo.Read panics on these bytes: "+scanErr.Error(),
			map[string]any{"id": id, "what": what, "available_bytes": avail, "file_hex": hex.EncodeToString(data), "doc": d.class})
		return
	}
	if scanErr != nil {
		if anyComplete {
			fail("scan-fails-although-complete-object-present", "SequentialScan fails outright ("+errClass(scanErr)+") although a complete object is present")
		}
		return
	}
	for _, rc := range d.recs {
		if rc.end > avail {
			continue
		}
		var found *pdf.FileObject
		for _, sec := range fi.Sections {
			for _, o := range sec.Objects {
				if o.Reference == rc.ref && int(o.ObjStart) == rc.start {
					found = o
				}
			}
		}
		switch {
		case found == nil:
			fail("complete-object-not-listed", fmt.Sprintf("object %v (complete at %d) is not listed at its offset %d", rc.ref, rc.end, rc.start))
		case found.Broken && rc.lenHdrEnd > 0 && rc.lenHdrEnd <= avail && avail < rc.lenEnd && !spurious:
			// the stream is complete but the object holding its /Length is cut off (fixed: F25)
			emit("complete-stream-broken-when-its-indirect-length-object-is-cut-off",
				fmt.Sprintf("stream %v (complete at %d) is marked broken: the cut at %d falls inside its /Length object", rc.ref, rc.end, avail),
				map[string]any{"id": id, "what": what, "available_bytes": avail, "file_hex": hex.EncodeToString(data), "doc": d.class})
		case found.Broken:
			fail("complete-object-marked-broken", fmt.Sprintf("object %v (complete at %d) is marked broken", rc.ref, rc.end))
		default:
			o, err := fi.Read(found)
			if err != nil {
				fail("complete-object-unreadable", fmt.Sprintf("object %v: %v", rc.ref, err))
			} else if got := valueDigest(o); !rc.noVal && got != rc.val {
				// the /Length object of this stream is not (completely) within the bytes: the
				// extent is recovered by searching for endstream
				unresolved := rc.lenEnd > 0 && avail < rc.lenEnd
				switch {
				case unresolved && rc.endsCR && rc.shortVals[got]:
					// data ending in CR, followed by the Writer's LF: without /Length nothing
					// tells this from a CR LF end-of-line marker; not a failure
				case unresolved && rc.shortVals[got] && !spurious:
					emit("stream-data-loses-trailing-eol-when-length-is-unresolved",
						fmt.Sprintf("stream %v (complete at %d, /Length object cut off at %d): the data read lacks its trailing end-of-line although exactly one end-of-line marker precedes endstream", rc.ref, rc.end, avail),
						map[string]any{"id": id, "what": what, "available_bytes": avail, "file_hex": hex.EncodeToString(data), "doc": d.class})
				default:
					fail("complete-object-wrong-value", fmt.Sprintf("object %v reads back with a different value", rc.ref))
				}
			}
			if rc.objstm {
				listed := false
				for _, sec := range fi.Sections {
					for _, os := range sec.ObjectStreams {
						listed = listed || os == found
					}
				}
				if !listed {
					fail("complete-object-stream-not-listed", fmt.Sprintf("object stream %v (complete at %d) is not among the section's ObjectStreams", rc.ref, rc.end))
				}
			}
			// what the index (last definition wins) gives for this reference
			if found2 := lastDef(fi, rc.ref); found2 != found {
				fail("index-prefers-spurious-definition", fmt.Sprintf("a later candidate at %d shadows object %v in the index", found2.ObjStart, rc.ref))
			}
		}
	}
}

func lastDef(fi *pdf.FileInfo, ref pdf.Reference) *pdf.FileObject {
	var res *pdf.FileObject
	for _, sec := range fi.Sections {
		for _, o := range sec.Objects {
			if o.Reference == ref {
				res = o
			}
		}
	}
	return res
}

type failRec struct {
	sig, what string
	c         any
}

type cutResult struct {
	obs, pcs string
	fails    []failRec
}

// allCuts evaluates every prefix of the file.  The prefixes are independent of each other:
// they are evaluated by a few workers and reported in the order of the cuts.
func (t *runner) allCuts(d *doc) {
	e := t.e
	t.nextID++
	id := fmt.Sprintf("d%d", t.nextID)
	e.Line("cases.txt", "%s F %s", id, common.Hex(d.data))
	n := len(d.data) + 1
	results := make([]cutResult, n)
	var wg sync.WaitGroup
	var next atomic.Int64
	workers := min(8, runtime.NumCPU())
	for w := 0; w < workers; w++ {
		wg.Add(1)
		go func() {
			defer wg.Done()
			for {
				cut := int(next.Add(1)) - 1
				if cut >= n {
					return
				}
				r := &results[cut]
				emit := func(sig, what string, c any) { r.fails = append(r.fails, failRec{sig, what, c}) }
				data := d.data[:cut]
				cid := fmt.Sprintf("%s.%d", id, cut)
				obs, pcs, fi, err, spur := observe(data, true)
				r.obs, r.pcs = obs, pcs
				t.oracle(d, data, cut, fi, err, "truncation", cid, spur, emit)
				t.trailerOracle(d, data, cut, fi, cid, emit)
			}
		}()
	}
	wg.Wait()
	for cut := 0; cut < n; cut++ {
		data := d.data[:cut]
		r := &results[cut]
		cid := fmt.Sprintf("%s.%d", id, cut)
		e.Line("cases.txt", "%s C %d x %s", cid, cut, r.pcs)
		e.Line("impl.obs", "%s %s", cid, r.obs)
		for _, f := range r.fails {
			failCapped(e, f.sig, f.what, f.c)
		}
		complete := 0
		for _, rc := range d.recs {
			if rc.end <= cut {
				complete++
			}
		}
		cls := "cut: no complete object"
		if complete > 0 && complete < len(d.recs) {
			cls = "cut: some objects complete"
		} else if complete == len(d.recs) {
			cls = "cut: all objects complete"
		}
		e.Count(complete > 0, cid+string(data[max(0, cut-40):]), cls)
	}
	e.Sample(2, map[string]any{"id": id, "class": d.class, "bytes": len(d.data), "objects": len(d.recs)})
}

// trailerOracle: getTrailer chooses the newest trailer that is completely inside the bytes
func (t *runner) trailerOracle(d *doc, data []byte, avail int, fi *pdf.FileInfo, id string, emit emitFn) {
	if d.trailers == nil || fi == nil {
		return
	}
	want := -1
	for _, ti := range d.trailers {
		if ti.completeAt <= avail {
			want = ti.rev
		}
	}
	got := -1
	if td, err := fi.VerifGetTrailer(); err == nil {
		got = 0
		if v, ok := td["XX_Rev"].(pdf.Integer); ok {
			got = int(v)
		}
	}
	if got != want {
		emit("trailer-is-not-the-newest-complete-one",
			fmt.Sprintf("getTrailer chose revision %d, the newest complete trailer is that of revision %d (-1: none)", got, want),
			map[string]any{"id": id, "available_bytes": avail, "file_hex": hex.EncodeToString(data), "doc": d.class})
	}
}

var rootRe = regexp.MustCompile(`/Root ([0-9]+) 0 R`)

// updateDoc: a Writer document followed by hand-written incremental updates: a classic
// section, a section whose cross-reference data is an (unfiltered) xref stream, and another
// classic section; every trailer carries /XX_Rev
func (g *generator) updateDoc() *doc {
	r := g.e.Rand
	n := 1 + r.IntN(3)
	vals := make([]pdf.Object, n)
	for i := range vals {
		vals[i] = g.object(0, 0)
	}
	d := g.write(pdf.V1_4, r.IntN(2) == 0, vals, make([][]byte, n))
	d.class = "updates"
	m := rootRe.FindSubmatch(d.data)
	if m == nil {
		panic("no /Root in the trailer")
	}
	root := string(m[1])
	var buf bytes.Buffer
	buf.Write(d.data)
	it := bytes.LastIndex(d.data, []byte("\ntrailer\n"))
	d.trailers = append(d.trailers, trailerInfo{completeAt: it + bytes.Index(d.data[it:], []byte(">>")) + 2, rev: 0})
	prev := bytes.LastIndex(d.data, []byte("\nxref\n")) + 1
	num := 40
	addObj := func(val string) (int, int) {
		num++
		start := buf.Len()
		fmt.Fprintf(&buf, "%d 0 obj\n%s\nendobj\n", num, val)
		d.recs = append(d.recs, &rec{ref: pdf.NewReference(uint32(num), 0), start: start, end: buf.Len() - 1, val: ""})
		return num, start
	}
	kinds := []string{"table", "stream", "table"}
	if r.IntN(2) == 0 {
		kinds = []string{"stream", "table", "stream"}
	}
	for k, kind := range kinds {
		rev := k + 1
		onum, ostart := addObj(fmt.Sprintf("(update %d)", rev))
		d.recs[len(d.recs)-1].val = digest(pdf.AsString(pdf.String(fmt.Sprintf("update %d", rev))))
		xpos := buf.Len()
		switch kind {
		case "table":
			fmt.Fprintf(&buf, "xref\n0 1\n0000000000 65535 f \n%d 1\n%010d 00000 n \ntrailer\n<< /Size 60 /Root %s 0 R /Prev %d /XX_Rev %d >>", onum, ostart, root, prev, rev)
			d.trailers = append(d.trailers, trailerInfo{completeAt: buf.Len(), rev: rev})
			buf.WriteString("\n")
		case "stream":
			num++
			xnum := num
			body := []byte{1, byte(ostart >> 8), byte(ostart), 0, 1, byte(xpos >> 8), byte(xpos), 0}
			fmt.Fprintf(&buf, "%d 0 obj\n<< /Type /XRef /Size 60 /W [1 2 1] /Index [%d 1 %d 1] /Root %s 0 R /Prev %d /XX_Rev %d /Length %d >>\nstream\n", xnum, onum, xnum, root, prev, rev, len(body))
			buf.Write(body)
			buf.WriteString("\nendstream\nendobj")
			d.trailers = append(d.trailers, trailerInfo{completeAt: buf.Len(), rev: rev})
			buf.WriteString("\n")
		}
		fmt.Fprintf(&buf, "startxref\n%d\n%%%%EOF\n", xpos)
		prev = xpos
	}
	d.data = buf.Bytes()
	return d
}

func (t *runner) corruptions(d *doc) {
	e := t.e
	r := e.Rand
	data := d.data
	ix := bytes.LastIndex(data, []byte("\nxref\n"))
	it := bytes.LastIndex(data, []byte("\ntrailer\n"))
	is := bytes.LastIndex(data, []byte("\nstartxref\n"))
	ie := bytes.LastIndex(data, []byte("\n%%EOF"))
	if ix < 0 || it < ix || is < it || ie < is {
		return
	}
	type region struct {
		name     string
		from, to int
		trailer  bool // trailer dictionary intact
	}
	regions := []region{
		{"table", ix + 1, it, true},
		{"trailer", it + 1, is, false},
		{"startxref", is + 1, ie, true},
		{"startxref-number", is + 11, ie, true},
		{"eof", ie + 1, len(data), true},
		{"all", ix + 1, len(data), false},
		{"table-lines", ix + 6, it, true},
	}
	for _, rg := range regions {
		for _, fill := range []string{"x", " ", "letters", "digits"} {
			mut := append([]byte{}, data...)
			for i := rg.from; i < rg.to; i++ {
				switch fill {
				case "x":
					mut[i] = 'x'
				case " ":
					mut[i] = ' '
				case "letters":
					mut[i] = byte('a' + r.IntN(26))
				case "digits":
					// keep line structure, replace digits
					if mut[i] >= '0' && mut[i] <= '9' {
						mut[i] = byte('0' + r.IntN(10))
					} else if rg.name == "table" || rg.name == "all" || rg.name == "trailer" || rg.name == "startxref" || rg.name == "eof" {
						if mut[i] != '\n' && mut[i] != '\r' && mut[i] != ' ' {
							mut[i] = 'z'
						}
					}
				}
			}
			t.nextID++
			id := fmt.Sprintf("x%d", t.nextID)
			obs, pcs, fi, err, spur := observe(mut, true)
			e.Line("cases.txt", "%s F %s", id, common.Hex(mut))
			e.Line("cases.txt", "%s.%d C %d x %s", id, len(mut), len(mut), pcs)
			cid := fmt.Sprintf("%s.%d", id, len(mut))
			e.Line("impl.obs", "%s %s", cid, obs)
			what := "xref corruption " + rg.name + "/" + fill
			t.oracle(d, mut, len(mut), fi, err, what, cid, spur, t.direct)
			// the located objects must be those of the intact file
			obs0, _, _, _, _ := observe(data, false)
			if err == nil {
				objsOf := func(o string) string {
					o = strings.SplitN(o, " xref[", 2)[0]
					return strings.SplitN(o, " trailer[", 2)[0]
				}
				if got, obs0 := objsOf(obs), objsOf(obs0); got != obs0 {
					failCapped(e, "xref-damage-changes-located-objects", "overwriting "+rg.name+" changes the located objects or their values",
						map[string]any{"id": cid, "what": what, "intact": obs0, "damaged": got, "file_hex": hex.EncodeToString(mut)})
				}
			}
			// with the trailer dictionary intact the rebuilt reader gives every object
			if err == nil && rg.trailer {
				func() {
					defer func() {
						if rr := recover(); rr != nil {
							failCapped(e, "makereader-panics", fmt.Sprint(rr), map[string]any{"id": cid, "what": what})
						}
					}()
					rd, err := fi.MakeReader(nil)
					if err != nil {
						failCapped(e, "makereader-fails-with-intact-trailer", "MakeReader: "+err.Error(), map[string]any{"id": cid, "what": what, "file_hex": hex.EncodeToString(mut)})
						return
					}
					for _, rc := range d.recs {
						o, err := rd.Get(rc.ref, true)
						if err != nil || valueDigest(o) != rc.val {
							failCapped(e, "rebuilt-reader-wrong-value", fmt.Sprintf("Reader.Get(%v) after MakeReader differs from what was written (%v)", rc.ref, err),
								map[string]any{"id": cid, "what": what, "file_hex": hex.EncodeToString(mut)})
						}
					}
				}()
			}
			e.Count(true, string(mut), "xref corruption "+rg.name)
		}
	}
}

// common.Env keeps at most 200 failing cases per process; a frequent known finding must not
// crowd out a different failure, so each signature is recorded at most 25 times
var failCount = map[string]int{}

func failCapped(e *common.Env, signature, what string, c any) {
	failCount[signature]++
	if failCount[signature] <= 25 {
		e.Fail(signature, what, c)
	}
}

func main() {
	e := common.New(20)
	g := &generator{e: e}
	t := &runner{e: e}
	// the live heap is tiny and the scans allocate a buffer per object: collect when 512 MB
	// have been allocated, not after every few MB
	debug.SetGCPercent(-1)
	debug.SetMemoryLimit(512 << 20)
	t0 := time.Now()
	lap := func(what string) {
		fmt.Fprintf(os.Stderr, "c20 harness: %-28s %5.1fs\n", what, time.Since(t0).Seconds())
		t0 = time.Now()
	}

	// corpus: marker text (no EOL before it) where Find opens a new window
	for _, m := range []string{"2 0 obj (two) endobj ", "7 0 obj (spurious) endobj ", "trailer ", "xref "} {
		d := g.windowDoc(m, 960)
		t.allCutsSparse(d, []int{len(d.data), len(d.data) - 1, 1100, 1000, 990})
	}

	// long object headers (seven-digit object numbers: an EOL + header of 14..15 bytes) at
	// every alignment to the scanner's buffer: the header text that straddles the end of a
	// search window of scanner.Find must survive the refill (regexpOverlap)
	{
		step := e.Pick(2, 1)
		for pad := 2; pad < 1030; pad += step {
			g.numBase = 1000000
			d := g.layoutDoc(kindItems(), pad, pad%7, 2100, 1, false)
			g.numBase = 0
			d.class = "long-headers"
			t.allCutsSparse(d, []int{len(d.data)})
		}
	}
	lap("long headers")

	lap("window corpus")
	// streams >= 1024 bytes written to a sink that cannot seek get an indirect /Length whose
	// object follows the stream: between the stream's endobj and the length object's endobj
	// the extent has to be recovered by searching for endstream.  Sweep the body length so that
	// the keyword lies at every alignment relative to the scanner's 1024-byte buffer.
	for n := 1024; n <= 1024+1040; n++ {
		d := g.sweepDoc(n)
		rc := d.recs[1]
		if rc.lenEnd == 0 {
			panic("sweep document without an indirect /Length")
		}
		var cuts []int
		if e.Thorough {
			for c := rc.end; c < rc.lenEnd+2 && c <= len(d.data); c++ {
				cuts = append(cuts, c)
			}
		} else {
			cuts = []int{rc.end, rc.end + 1, rc.lenHdrEnd - 1, rc.lenHdrEnd + 1, rc.lenEnd - 1, rc.lenEnd}
		}
		t.allCutsSparse(d, cuts)
	}
	lap("length sweep")
	// the same family under the enumeration of all cuts
	for _, n := range []int{1024 + 977, 1024 + 1500}[:e.Pick(1, 2)] {
		t.allCuts(g.sweepDoc(n))
	}

	lap("length sweep, all cuts")
	// many streams with an indirect /Length (>= 1024 bytes each, sink that cannot seek), one of
	// them with hostile lines (`endstream`, `endobj` at the beginning of a line): only the
	// resolved /Length delimits it.  The full file and cuts where its length object is present.
	for _, k := range []int{14, 40}[:e.Pick(1, 2)] {
		for j := 0; j < k; j++ {
			d := g.manyStreamsDoc(k, j)
			rc := d.recs[j]
			if rc.lenEnd == 0 {
				panic("stream without an indirect /Length")
			}
			n := len(d.data)
			t.allCutsSparse(d, []int{n, n - 1, n - 30, rc.lenEnd, rc.lenEnd + 1, rc.start - 1, rc.start + 20})
		}
	}

	lap("many streams")
	// every kind of value as the top-level value of an indirect object (null, the empty
	// composites, references, nested composites, streams with every form of /Length, object
	// streams), in files of several scanner windows with many small objects: ALL cuts
	res := &residues{}
	type kd struct {
		pad, rot, size, fillers int
		xstm                    bool
	}
	kds := []kd{{0, 0, 2200, 1, false}, {37, 11, 3300, 0, true}, {333, 23, 3000, 2, true}}
	if e.Thorough {
		for p := 1; p <= 32; p++ {
			kds = append(kds, kd{p * 32, p * 5, 2300 + 29*p, p % 4, p%2 == 0})
		}
	}
	for _, k := range kds {
		d := g.kindsDoc(k.pad, k.rot, k.size, k.fillers, k.xstm)
		res.add(d)
		t.allCuts(d)
	}
	lap("value kinds, all cuts")
	// stream data ending in every combination of end-of-line bytes x /Length in an object
	// before / after the stream: hand-laid-out (all cuts), and written by the Writer to a sink
	// that cannot seek with bodies of more than one scanner window (the cuts around the window
	// in which the stream is complete and its /Length object is not; all cuts when thorough)
	t.allCuts(g.eolTailDoc())
	for i, tail := range eolTails {
		d := g.eolTailWriterDoc(tail, 1024+97*i)
		rc := d.recs[1]
		if rc.lenEnd == 0 {
			panic("stream without an indirect /Length")
		}
		if e.Thorough {
			t.allCuts(d)
			continue
		}
		var cuts []int
		for c := rc.end - 2; c <= rc.lenEnd+1; c++ {
			cuts = append(cuts, c)
		}
		t.allCutsSparse(d, append(cuts, len(d.data), len(d.data)-1, rc.start+30))
	}
	lap("stream data ending in EOLs")
	// the same kinds written by the Writer into compressed object streams (PDF 1.5+)
	for i := 0; i < e.Pick(2, 12); i++ {
		d := g.compressedDoc(i)
		res.add(d)
		t.allCuts(d)
	}
	e.Sample(3, map[string]any{"value-kind files": len(kds), "residues of object headers modulo 1024 covered": res.count()})

	lap("compressed, all cuts")
	t.intObjects()
	lap("integer objects (H-parse)")
	// incremental updates (hand-written after a Writer document): which trailer MakeReader uses
	for i := 0; i < e.Pick(2, 40); i++ {
		t.allCuts(g.updateDoc())
	}

	lap("updates, all cuts")
	nDocs := e.Pick(10, 400)
	for i := 0; i < nDocs; i++ {
		d := g.randomDoc()
		t.allCuts(d)
		t.corruptions(d)
	}
	lap("random documents")
	e.Finish("a case is non-trivial when at least one object is complete within the available bytes (truncations) or always (xref corruptions); distinct by the last 40 available bytes / by file", nil)
}

func (t *runner) direct(sig, what string, c any) { failCapped(t.e, sig, what, c) }

// allCutsSparse runs the listed cuts only (corpus cases)
func (t *runner) allCutsSparse(d *doc, cuts []int) {
	e := t.e
	t.nextID++
	id := fmt.Sprintf("k%d", t.nextID)
	e.Line("cases.txt", "%s F %s", id, common.Hex(d.data))
	for _, cut := range cuts {
		if cut < 0 || cut > len(d.data) {
			continue
		}
		data := d.data[:cut]
		obs, pcs, fi, err, spur := observe(data, true)
		cid := fmt.Sprintf("%s.%d", id, cut)
		e.Line("cases.txt", "%s C %d x %s", cid, cut, pcs)
		e.Line("impl.obs", "%s %s", cid, obs)
		t.oracle(d, data, cut, fi, err, "truncation (corpus: "+d.class+")", cid, spur, t.direct)
		e.Count(true, cid, "corpus "+d.class)
	}
}
