package main

// C18: independent Readers and Writers do not interfere through package-level
// state - a DETERMINISTIC oracle (no race detector needed, single-goroutine
// interleaving plus a barrier variant with goroutines).
//
// For every filter chain over {Flate, LZW, ASCII85, ASCIIHex, RunLength} of
// length 1..3 (every stage is closed by DecodeStream's chain and possibly by the
// stage above it) a stream is decoded and closed - once after reading to EOF and
// once after reading only a part.  After each such decode N Flate and N LZW
// streams of N independent Readers are OPEN AT THE SAME TIME and read
// interleaved; each must deliver what it delivers alone.  A (de)compressor that
// was returned to a package-level pool twice, or is still referenced by a closed
// stage, shows up as stream A delivering stream B's data.
//
// The garbage collector is switched off during the phase (it empties
// sync.Pool) and the pools are emptied explicitly (two collections) before every
// chain, so every chain is judged in isolation and the run is repeatable.

import (
	"bytes"
	"fmt"
	"io"
	"runtime"
	"runtime/debug"
	"strings"
	"sync"

	"seehuhn.de/go/pdf"
	"seehuhn.de/go/pdf/verifharness/common"
)

type poolFile struct {
	rd   *pdf.Reader
	ref  pdf.Reference
	want []byte
}

func poolContent(tag string, n int) []byte {
	var b bytes.Buffer
	for i := 0; b.Len() < n; i++ {
		fmt.Fprintf(&b, "%s line %05d of stream %s %d\n", tag, i, tag, i*i%977)
	}
	return b.Bytes()[:n]
}

var poolFilters = []struct {
	name string
	f    pdf.Filter
}{
	{"Flate", pdf.FilterFlate{}},
	{"LZW", pdf.FilterLZW{}},
	{"A85", pdf.FilterASCII85{}},
	{"AHx", pdf.FilterASCIIHex{}},
	{"RL", pdf.FilterRunLength{}},
}

// one file with one stream written through the given filters
func poolBuild(content []byte, filters []pdf.Filter) (*poolFile, error) {
	buf := &bytes.Buffer{}
	w, err := pdf.NewWriter(buf, pdf.V1_7, nil)
	if err != nil {
		return nil, err
	}
	ref := w.Alloc()
	out, err := w.OpenStream(ref, pdf.Dict{}, filters...)
	if err != nil {
		return nil, err
	}
	if _, err := out.Write(content); err != nil {
		return nil, err
	}
	if err := out.Close(); err != nil {
		return nil, err
	}
	pages := w.Alloc()
	if err := w.Put(pages, pdf.Dict{"Type": pdf.Name("Pages"), "Kids": pdf.Array{}, "Count": pdf.Integer(0)}); err != nil {
		return nil, err
	}
	w.GetMeta().Catalog.Pages = pages
	if err := w.Close(); err != nil {
		return nil, err
	}
	data := buf.Bytes()
	rd, err := pdf.NewReader(bytes.NewReader(data), int64(len(data)), nil)
	if err != nil {
		return nil, err
	}
	return &poolFile{rd: rd, ref: ref, want: content}, nil
}

func (f *poolFile) open() (io.ReadCloser, error) {
	obj, err := f.rd.Get(f.ref, true)
	if err != nil {
		return nil, err
	}
	stm, ok := obj.(*pdf.Stream)
	if !ok {
		return nil, fmt.Errorf("object is %T, not a stream", obj)
	}
	return pdf.DecodeStream(f.rd, nil, stm)
}

// probeInterleaved opens all streams, then reads them round-robin in one goroutine
func probeInterleaved(files []*poolFile) (bad []string) {
	defer func() {
		if r := recover(); r != nil {
			bad = append(bad, fmt.Sprintf("reading %d streams that are open at the same time panics: %v", len(files), r))
		}
	}()
	rs := make([]io.ReadCloser, len(files))
	got := make([][]byte, len(files))
	done := make([]bool, len(files))
	for i, f := range files {
		r, err := f.open()
		if err != nil {
			bad = append(bad, fmt.Sprintf("stream %d: open: %v", i, err))
			done[i] = true
			continue
		}
		rs[i] = r
	}
	chunk := make([]byte, 1500)
	for left := len(files); left > 0; {
		left = 0
		for i := range files {
			if done[i] {
				continue
			}
			n, err := rs[i].Read(chunk)
			got[i] = append(got[i], chunk[:n]...)
			if err != nil {
				done[i] = true
				if err != io.EOF {
					bad = append(bad, fmt.Sprintf("stream %d: read error after %d bytes: %v", i, len(got[i]), err))
				}
				continue
			}
			if len(got[i]) > len(files[i].want)+1<<16 {
				done[i] = true
				bad = append(bad, fmt.Sprintf("stream %d: delivers more than %d bytes", i, len(got[i])))
				continue
			}
			left++
		}
	}
	for i := range files {
		if rs[i] != nil {
			rs[i].Close()
		}
		if !bytes.Equal(got[i], files[i].want) && len(bad) < 8 {
			bad = append(bad, fmt.Sprintf("stream %d (open together with %d others) delivers %d bytes that differ from the %d bytes it delivers alone (first difference at %d)",
				i, len(files)-1, len(got[i]), len(files[i].want), firstDiff(got[i], files[i].want)))
		}
	}
	return bad
}

func firstDiff(a, b []byte) int {
	n := min(len(a), len(b))
	for i := 0; i < n; i++ {
		if a[i] != b[i] {
			return i
		}
	}
	return n
}

// probeBarrier: one goroutine per stream; all streams are open before anybody reads
func probeBarrier(files []*poolFile) []string {
	var mu sync.Mutex
	var bad []string
	var opened, finished sync.WaitGroup
	opened.Add(len(files))
	finished.Add(len(files))
	for i, f := range files {
		go func(i int, f *poolFile) {
			defer finished.Done()
			defer func() {
				if r := recover(); r != nil {
					mu.Lock()
					bad = append(bad, fmt.Sprintf("stream %d (goroutine, open together with %d others): reading panics: %v", i, len(files)-1, r))
					mu.Unlock()
				}
			}()
			r, err := f.open()
			opened.Done()
			if err != nil {
				mu.Lock()
				bad = append(bad, fmt.Sprintf("stream %d: open: %v", i, err))
				mu.Unlock()
				return
			}
			opened.Wait()
			got, err := io.ReadAll(io.LimitReader(r, int64(len(f.want))+1<<16))
			r.Close()
			if err != nil || !bytes.Equal(got, f.want) {
				mu.Lock()
				bad = append(bad, fmt.Sprintf("stream %d (goroutine, open together with %d others) delivers %d bytes (err %v) instead of the %d bytes it delivers alone",
					i, len(files)-1, len(got), err, len(f.want)))
				mu.Unlock()
			}
		}(i, f)
	}
	finished.Wait()
	return bad
}

func emptyPools() {
	runtime.GC()
	runtime.GC()
}

// poolPhase returns statistics for the evidence file
func poolPhase(e *common.Env, maxLen int) map[string]any {
	defer debug.SetGCPercent(debug.SetGCPercent(-1))

	const nProbe = 3
	var probes []*poolFile
	for i := 0; i < 2*nProbe; i++ {
		var flt pdf.Filter = pdf.FilterFlate{}
		tag := fmt.Sprintf("F%d", i)
		if i >= nProbe {
			flt = pdf.FilterLZW{}
			tag = fmt.Sprintf("L%d", i)
		}
		f, err := poolBuild(poolContent(tag, 30000+1000*i), []pdf.Filter{flt})
		if err != nil {
			panic(err)
		}
		probes = append(probes, f)
	}
	emptyPools()
	if bad := probeInterleaved(probes); len(bad) > 0 {
		e.Fail("pool-interference", "with empty pools: "+bad[0], map[string]any{"chain": "-", "problems": bad})
	}

	// a stream that was read to its end and is still open must go on reporting io.EOF while other
	// streams are opened and read (a decompressor handed back to the pool too early would be shared)
	for i := 0; i < 2*nProbe; i++ {
		emptyPools()
		a, b := probes[i], probes[(i+1)%nProbe+(i/nProbe)*nProbe]
		var problems []string
		func() {
			defer func() {
				if r := recover(); r != nil {
					problems = append(problems, fmt.Sprintf("panic: %v", r))
				}
			}()
			ra, err := a.open()
			if err != nil {
				problems = append(problems, "open: "+err.Error())
				return
			}
			defer ra.Close()
			gotA, err := io.ReadAll(ra)
			if err != nil || !bytes.Equal(gotA, a.want) {
				problems = append(problems, fmt.Sprintf("first stream: %d bytes, err %v", len(gotA), err))
				return
			}
			rb, err := b.open()
			if err != nil {
				problems = append(problems, "open second: "+err.Error())
				return
			}
			defer rb.Close()
			buf := make([]byte, 512)
			half, _ := io.ReadFull(rb, buf)
			for k := 0; k < 3; k++ {
				if n, err := ra.Read(make([]byte, 256)); n != 0 || err != io.EOF {
					problems = append(problems, fmt.Sprintf("the first stream, read again after its end while a second stream is open, delivers %d bytes (err %v) instead of (0, EOF)", n, err))
					break
				}
			}
			rest, err := io.ReadAll(rb)
			gotB := append(buf[:half:half], rest...)
			if err != nil || !bytes.Equal(gotB, b.want) {
				problems = append(problems, fmt.Sprintf("the second stream delivers %d bytes (err %v) that differ from the %d bytes it delivers alone (first difference at %d)", len(gotB), err, len(b.want), firstDiff(gotB, b.want)))
			}
		}()
		e.Count(true, fmt.Sprintf("pool:eof-poll:%d", i), "pool: a finished but still open stream is polled while another stream is open")
		if len(problems) > 0 {
			e.Fail("pool-interference", "a stream read to its end and still open, and a second stream opened afterwards: "+problems[0], map[string]any{"chain": "eof-poll", "streams": []int{i, (i+1)%nProbe + (i/nProbe)*nProbe}, "problems": problems})
			emptyPools()
		}
	}

	var chains [][]int
	var rec func(c []int)
	rec = func(c []int) {
		if len(c) > 0 {
			chains = append(chains, append([]int{}, c...))
		}
		if len(c) == maxLen {
			return
		}
		for i := range poolFilters {
			rec(append(c, i))
		}
	}
	rec(nil)

	nfail, ndecodes := 0, 0
	for ci, c := range chains {
		var names []string
		var filters []pdf.Filter
		for _, i := range c {
			names = append(names, poolFilters[i].name)
			filters = append(filters, poolFilters[i].f)
		}
		chain := strings.Join(names, ",")
		content := poolContent(fmt.Sprintf("C%d", ci), 5000+37*ci)
		f, err := poolBuild(content, filters)
		if err != nil {
			e.Fail("pool-interference", fmt.Sprintf("a stream with the filter chain [%s] cannot be written: %v", chain, err), map[string]any{"chain": chain})
			continue
		}
		emptyPools()
		for _, mode := range []string{"read to EOF, close", "read a part, close", "two streams of the chain open at once"} {
			var problems []string
			switch mode {
			case "read to EOF, close":
				r, err := f.open()
				if err != nil {
					problems = append(problems, "open: "+err.Error())
					break
				}
				got, err := io.ReadAll(r)
				cerr := r.Close()
				if err != nil || cerr != nil || !bytes.Equal(got, content) {
					problems = append(problems, fmt.Sprintf("the stream itself decodes to %d bytes (read error %v, close error %v), expected %d", len(got), err, cerr, len(content)))
				}
			case "read a part, close":
				r, err := f.open()
				if err != nil {
					problems = append(problems, "open: "+err.Error())
					break
				}
				part := make([]byte, 700)
				n, _ := io.ReadFull(r, part)
				r.Close()
				if !bytes.Equal(part[:n], content[:n]) {
					problems = append(problems, "the first bytes of the stream are wrong")
				}
			default:
				problems = append(problems, probeInterleaved([]*poolFile{f, f})...)
			}
			ndecodes++
			// now several Flate/LZW streams of independent Readers are open at the same time
			problems = append(problems, probeInterleaved(probes)...)
			problems = append(problems, probeBarrier(probes)...)
			key := "pool:" + chain + ":" + mode
			e.Count(true, key, "pool: decode+close a chain, then "+fmt.Sprint(2*nProbe)+" Flate/LZW streams open at once")
			if len(problems) > 0 {
				nfail++
				e.Fail("pool-interference",
					fmt.Sprintf("after decoding a stream with /Filter [%s] (%s): %s", chain, mode, problems[0]),
					map[string]any{"chain": chain, "mode": mode, "problems": problems})
				emptyPools() // do not let this chain's damage reach the next mode
			}
		}
	}

	// two independent Writers compressing at the same time (zlib writer pool)
	emptyPools()
	for round := 0; round < 3; round++ {
		type wr struct {
			buf  *bytes.Buffer
			w    *pdf.Writer
			ref  pdf.Reference
			out  io.WriteCloser
			data []byte
		}
		var ws []*wr
		for i := 0; i < 3; i++ {
			x := &wr{buf: &bytes.Buffer{}, data: poolContent(fmt.Sprintf("W%d.%d", round, i), 20000+777*i)}
			var err error
			if x.w, err = pdf.NewWriter(x.buf, pdf.V1_7, nil); err != nil {
				panic(err)
			}
			x.ref = x.w.Alloc()
			if x.out, err = x.w.OpenStream(x.ref, pdf.Dict{}, pdf.FilterFlate{}); err != nil {
				panic(err)
			}
			ws = append(ws, x)
		}
		for off := 0; off < 30000; off += 900 {
			for _, x := range ws {
				if off < len(x.data) {
					x.out.Write(x.data[off:min(off+900, len(x.data))])
				}
			}
		}
		var problems []string
		for i, x := range ws {
			if err := x.out.Close(); err != nil {
				problems = append(problems, fmt.Sprintf("writer %d: %v", i, err))
				continue
			}
			pages := x.w.Alloc()
			x.w.Put(pages, pdf.Dict{"Type": pdf.Name("Pages"), "Kids": pdf.Array{}, "Count": pdf.Integer(0)})
			x.w.GetMeta().Catalog.Pages = pages
			if err := x.w.Close(); err != nil {
				problems = append(problems, fmt.Sprintf("writer %d: %v", i, err))
				continue
			}
			rd, err := pdf.NewReader(bytes.NewReader(x.buf.Bytes()), int64(x.buf.Len()), nil)
			if err != nil {
				problems = append(problems, fmt.Sprintf("writer %d: output unreadable: %v", i, err))
				continue
			}
			pf := &poolFile{rd: rd, ref: x.ref, want: x.data}
			r, err := pf.open()
			if err != nil {
				problems = append(problems, fmt.Sprintf("writer %d: %v", i, err))
				continue
			}
			got, err := io.ReadAll(r)
			r.Close()
			if err != nil || !bytes.Equal(got, x.data) {
				problems = append(problems, fmt.Sprintf("the stream written by Writer %d while %d other Writers were compressing reads back as %d bytes (err %v), written were %d", i, len(ws)-1, len(got), err, len(x.data)))
			}
		}
		e.Count(true, fmt.Sprintf("pool:writers:%d", round), "pool: 3 independent Writers compressing interleaved")
		if len(problems) > 0 {
			nfail++
			e.Fail("pool-interference", problems[0], map[string]any{"chain": "writers", "problems": problems})
		}
	}
	return map[string]any{"pool_filter_chains": len(chains), "pool_chain_decodes": ndecodes, "pool_failures": nfail,
		"pool_probe": fmt.Sprintf("%d Flate + %d LZW streams of independent Readers open at once, read interleaved (one goroutine, 1500-byte turns) and from goroutines behind a barrier", nProbe, nProbe)}
}
