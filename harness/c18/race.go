package main

// C18, second half: random mixes under the real Go scheduler, meant to be run
// from a binary built with -race.  The race detector's verdict (stderr,
// "WARNING: DATA RACE") is read by checks/c18.py; this file contributes the
// functional oracle (each call returns what it returns alone; one Go value per
// object and type; exclusive decoders run once; nothing panics) and the load:
//
//   - one shared Reader/Extractor: Reader.Get, DecodeStream (ReadAll), Decode,
//     DecodeExclusive, StoreOrLoadPair over a file with shared objects, alias
//     chains, a reference loop, mutually referential objects, compressed
//     streams and object streams;
//   - independent Writers and Readers in different goroutines (zlib pools),
//     predefined CMaps (font/cmap) and CID text mappings (font/mapping).

import (
	"bytes"
	"fmt"
	"io"
	"math/rand/v2"
	"sync"
	"sync/atomic"

	"seehuhn.de/go/pdf"
	"seehuhn.de/go/pdf/font/cmap"
	"seehuhn.de/go/pdf/font/mapping"
	"seehuhn.de/go/pdf/verifharness/common"
)

type raceFile struct {
	data    []byte
	rd      *pdf.Reader
	refs    []pdf.Reference
	next    map[int]int
	kids    map[int][]int
	streams map[int][]byte // expected decoded contents
	nobj    int
}

func streamBody(i int) []byte {
	var b bytes.Buffer
	for k := 0; k < 40+i*7; k++ {
		fmt.Fprintf(&b, "%d %d m %d %d l S\n", i, k, k*i, k+i)
	}
	return b.Bytes()
}

func buildRaceFile(rng *rand.Rand, version pdf.Version) *raceFile {
	f := &raceFile{next: map[int]int{}, kids: map[int][]int{}, streams: map[int][]byte{}}
	buf := &bytes.Buffer{}
	w, err := pdf.NewWriter(buf, version, nil)
	if err != nil {
		panic(err)
	}
	const n = 24
	f.nobj = n
	f.refs = make([]pdf.Reference, n+1)
	for i := 1; i <= n; i++ {
		f.refs[i] = w.Alloc()
	}
	// 1..8 dictionaries with kids (5<->6 mutually referential, 7 refers to itself),
	// 9..12 alias chain 9->10->11->1, 13<->14 alias loop, 15..20 streams,
	// 21..24 small dictionaries (written into an object stream when possible)
	f.next[9], f.next[10], f.next[11] = 10, 11, 1
	f.next[13], f.next[14] = 14, 13
	f.kids[1] = []int{2, 3, 9}
	f.kids[2] = []int{4, 21}
	f.kids[3] = []int{4, 10, 22}
	f.kids[5] = []int{6}
	f.kids[6] = []int{5, 1}
	f.kids[7] = []int{7, 23}
	f.kids[8] = []int{13, 24, 2}
	var small []pdf.Reference
	var smallObj []pdf.Object
	for i := 1; i <= n; i++ {
		switch {
		case f.next[i] != 0:
			if err := w.Put(f.refs[i], f.refs[f.next[i]]); err != nil {
				panic(err)
			}
		case i >= 15 && i <= 20:
			body := streamBody(i)
			f.streams[i] = body
			var filters []pdf.Filter
			if i%3 != 0 {
				filters = append(filters, pdf.FilterFlate{})
			}
			if i%3 == 2 {
				filters = append(filters, pdf.FilterASCIIHex{})
			}
			out, err := w.OpenStream(f.refs[i], pdf.Dict{"ID": pdf.Integer(i)}, filters...)
			if err != nil {
				panic(err)
			}
			if _, err := out.Write(body); err != nil {
				panic(err)
			}
			if err := out.Close(); err != nil {
				panic(err)
			}
		default:
			d := pdf.Dict{"ID": pdf.Integer(i)}
			var a pdf.Array
			for _, k := range f.kids[i] {
				a = append(a, f.refs[k])
			}
			if len(a) > 0 {
				d["Kids"] = a
			}
			if i >= 21 && version >= pdf.V1_5 {
				small = append(small, f.refs[i])
				smallObj = append(smallObj, d)
			} else if err := w.Put(f.refs[i], d); err != nil {
				panic(err)
			}
		}
	}
	if len(small) > 0 {
		if err := w.WriteCompressed(small, smallObj...); err != nil {
			panic(err)
		}
	}
	pages := w.Alloc()
	if err := w.Put(pages, pdf.Dict{"Type": pdf.Name("Pages"), "Kids": pdf.Array{}, "Count": pdf.Integer(0)}); err != nil {
		panic(err)
	}
	w.GetMeta().Catalog.Pages = pages
	if err := w.Close(); err != nil {
		panic(err)
	}
	f.data = buf.Bytes()
	rd, err := pdf.NewReader(bytes.NewReader(f.data), int64(len(f.data)), nil)
	if err != nil {
		panic(err)
	}
	f.rd = rd
	return f
}

func (f *raceFile) chainEnd(r int) int {
	for i := 0; i <= f.nobj; i++ {
		n, ok := f.next[r]
		if !ok {
			return r
		}
		r = n
	}
	return -1
}

type node struct {
	e    int
	kids []*node
}
type nodeB struct{ e int }

type raceRun struct {
	f     *raceFile
	x     *pdf.Extractor
	mu    sync.Mutex
	vals  map[[2]int]any // first value seen per (object, type)
	bad   []string
	xruns map[int]*atomic.Int32
	ops   atomic.Int64
}

func (rr *raceRun) fail(format string, a ...any) {
	rr.mu.Lock()
	if len(rr.bad) < 20 {
		rr.bad = append(rr.bad, fmt.Sprintf(format, a...))
	}
	rr.mu.Unlock()
}

func (rr *raceRun) seen(r, t int, v any) {
	e := rr.f.chainEnd(r)
	rr.mu.Lock()
	k := [2]int{e, t}
	if old, ok := rr.vals[k]; ok {
		if old != v {
			if len(rr.bad) < 20 {
				rr.bad = append(rr.bad, fmt.Sprintf("agree: two different Go values for object %d type %d (via reference %d)", e, t, r))
			}
		}
	} else {
		rr.vals[k] = v
	}
	rr.mu.Unlock()
}

// decodeNode is a decoder that follows /Kids recursively through the cache
func (rr *raceRun) decodeNode(excl bool) func(c pdf.Cursor, obj pdf.Object, direct bool) (*node, error) {
	var dec func(c pdf.Cursor, obj pdf.Object, direct bool) (*node, error)
	dec = func(c pdf.Cursor, obj pdf.Object, direct bool) (*node, error) {
		e := objID(obj)
		if excl {
			if cnt := rr.xruns[e]; cnt != nil {
				cnt.Add(1)
			}
		}
		nd := &node{e: e}
		var kids pdf.Array
		if d, ok := obj.(pdf.Dict); ok {
			kids, _ = c.Array(d["Kids"])
		} else if s, ok := obj.(*pdf.Stream); ok {
			nd.e = objID(s.Dict)
		}
		for _, k := range kids {
			kid, err := pdf.Decode(c, k, rr.decodeNode(false))
			if err == nil {
				nd.kids = append(nd.kids, kid)
				if ref, ok := k.(pdf.Reference); ok {
					rr.seen(int(ref.Number()), 0, any(kid))
				}
			}
		}
		return nd, nil
	}
	return dec
}

func (rr *raceRun) worker(seed uint64, id int, nops int) {
	defer func() {
		if r := recover(); r != nil {
			rr.fail("panic: goroutine %d: %v", id, r)
		}
	}()
	rng := rand.New(rand.NewPCG(seed, uint64(id)))
	f := rr.f
	for i := 0; i < nops; i++ {
		rr.ops.Add(1)
		r := 1 + rng.IntN(f.nobj)
		ref := f.refs[r]
		switch rng.IntN(7) {
		case 0: // Reader.Get
			obj, err := f.rd.Get(ref, true)
			if err != nil {
				rr.fail("seq: Get(%d): %v", r, err)
				continue
			}
			if nx, ok := f.next[r]; ok {
				if got, ok := obj.(pdf.Reference); !ok || got != f.refs[nx] {
					rr.fail("seq: Get(%d) returned %v instead of the reference to %d", r, obj, nx)
				}
			} else if s, ok := obj.(*pdf.Stream); ok {
				if objID(s.Dict) != r {
					rr.fail("seq: Get(%d) returned stream %d", r, objID(s.Dict))
				}
			} else if objID(obj) != r {
				rr.fail("seq: Get(%d) returned object %d", r, objID(obj))
			}
		case 1: // DecodeStream
			s := 15 + rng.IntN(6)
			obj, err := f.rd.Get(f.refs[s], true)
			stm, ok := obj.(*pdf.Stream)
			if err != nil || !ok {
				rr.fail("seq: Get(stream %d): %v", s, err)
				continue
			}
			in, err := pdf.DecodeStream(f.rd, nil, stm)
			if err != nil {
				rr.fail("seq: DecodeStream(%d): %v", s, err)
				continue
			}
			got, err := io.ReadAll(in)
			in.Close()
			if err != nil || !bytes.Equal(got, f.streams[s]) {
				rr.fail("seq: DecodeStream(%d) returned %d bytes (err %v), alone it returns %d", s, len(got), err, len(f.streams[s]))
			}
		case 2, 3: // Decode
			v, err := pdf.Decode(pdf.CursorAt(rr.x, nil), ref, rr.decodeNode(false))
			if e := f.chainEnd(r); e < 0 {
				if err == nil {
					rr.fail("seq: Decode(%d) through a reference loop succeeded", r)
				}
			} else if err != nil {
				rr.fail("seq: Decode(%d): %v", r, err)
			} else {
				if v.e != e {
					rr.fail("seq: Decode(%d) returned object %d instead of %d", r, v.e, e)
				}
				rr.seen(r, 0, any(v))
			}
		case 4: // DecodeExclusive on the sinks 2, 4 and the chain 11 -> 1 (decoders never use DecodeExclusive)
			xs := []int{2, 4, 11, 21}
			r = xs[rng.IntN(len(xs))]
			v, err := pdf.DecodeExclusive(pdf.CursorAt(rr.x, nil), f.refs[r], rr.decodeNode(true))
			if err != nil {
				rr.fail("seq: DecodeExclusive(%d): %v", r, err)
			} else {
				rr.seen(r, 0, any(v))
			}
		case 5: // StoreOrLoadPair on objects 22..24 with types nodeB / *int views
			r = 22 + rng.IntN(3)
			a, b := pdf.StoreOrLoadPair(rr.x, f.refs[r], &nodeB{r}, &thingB{r})
			rr.seen(r, 1, any(a))
			rr.seen(r, 2, any(b))
		case 6: // Decode with the second type of a pair
			r = 22 + rng.IntN(3)
			v, err := pdf.Decode(pdf.CursorAt(rr.x, nil), f.refs[r], func(c pdf.Cursor, obj pdf.Object, direct bool) (*nodeB, error) {
				return &nodeB{objID(obj)}, nil
			})
			if err != nil {
				rr.fail("seq: Decode[*nodeB](%d): %v", r, err)
			} else {
				rr.seen(r, 1, any(v))
			}
		}
	}
}

var cmapNames = []string{"H", "V", "90ms-RKSJ-H", "UniJIS-UTF16-H", "GBK-EUC-H", "B5-H", "Adobe-Japan1-2", "UniGB-UCS2-H", "KSC-EUC-H", "UniKS-UTF16-V"}
var orderings = []string{"Japan1", "GB1", "CNS1", "Korea1", "KR"}

// independent: own Writer, own Reader, package-level caches
func independent(seed uint64, id int, rounds int, bad *[]string, mu *sync.Mutex, ops *atomic.Int64) {
	fail := func(format string, a ...any) {
		mu.Lock()
		if len(*bad) < 20 {
			*bad = append(*bad, fmt.Sprintf(format, a...))
		}
		mu.Unlock()
	}
	defer func() {
		if r := recover(); r != nil {
			fail("panic: independent goroutine %d: %v", id, r)
		}
	}()
	rng := rand.New(rand.NewPCG(seed, 1000+uint64(id)))
	for i := 0; i < rounds; i++ {
		ops.Add(1)
		v := pdf.V1_7
		if rng.IntN(2) == 0 {
			v = pdf.V1_4
		}
		f := buildRaceFile(rng, v) // Writer + compressors, then a Reader of its own
		for s := 15; s <= 20; s++ {
			obj, err := f.rd.Get(f.refs[s], true)
			stm, ok := obj.(*pdf.Stream)
			if err != nil || !ok {
				fail("independent: Get(stream %d): %v", s, err)
				continue
			}
			got, err := pdf.ReadAll(f.rd, nil, stm, 1<<20)
			if err != nil || !bytes.Equal(got, f.streams[s]) {
				fail("independent: a Reader of its own returned %d bytes for stream %d (err %v), expected %d", len(got), s, err, len(f.streams[s]))
			}
		}
		for s := 21; s <= 24; s++ {
			obj, err := f.rd.Get(f.refs[s], true)
			if err != nil || objID(obj) != s {
				fail("independent: Get(%d) = object %d, err %v", s, objID(obj), err)
			}
		}
		name := cmapNames[rng.IntN(len(cmapNames))]
		c1, err1 := cmap.Predefined(name)
		c2, err2 := cmap.Predefined(name)
		if err1 != nil || err2 != nil || c1 != c2 {
			fail("independent: cmap.Predefined(%q) twice: %v %v same=%v", name, err1, err2, c1 == c2)
		}
		ord := orderings[rng.IntN(len(orderings))]
		m1, err1 := mapping.GetCIDTextMapping("Adobe", ord)
		m2, err2 := mapping.GetCIDTextMapping("Adobe", ord)
		if err1 != nil || err2 != nil || len(m1) == 0 || len(m1) != len(m2) {
			fail("independent: GetCIDTextMapping(Adobe,%s): %v %v %d %d", ord, err1, err2, len(m1), len(m2))
		}
		if _, err := mapping.GetTextToCIDMapping("Adobe", ord); err != nil {
			fail("independent: GetTextToCIDMapping(Adobe,%s): %v", ord, err)
		}
		// failing calls on a Reader of its own, while the other goroutines do the same on theirs
		ops.Add(int64(errMix(id, 2, fail)))
	}
}

func raceMain() {
	e := common.New(1818)
	// first uses of predefined CMaps: before anything else in this process touches font/cmap
	stress := map[string]any{"cmap": cmapStress(e, e.Pick(30, 120))}
	rounds := e.Pick(8, 300)
	workers := 8
	nops := e.Pick(60, 120)
	var totalOps atomic.Int64
	nfail := 0
	for round := 0; round < rounds; round++ {
		seed := e.Rand.Uint64()
		v := pdf.V1_7
		if round%3 == 0 {
			v = pdf.V1_4
		}
		f := buildRaceFile(e.Rand, v)
		rr := &raceRun{f: f, x: pdf.NewExtractor(f.rd), vals: map[[2]int]any{}, xruns: map[int]*atomic.Int32{}}
		for _, r := range []int{1, 2, 4, 21} {
			rr.xruns[r] = &atomic.Int32{}
		}
		var wg sync.WaitGroup
		var imu sync.Mutex
		var ibad []string
		for w := 0; w < workers; w++ {
			wg.Add(1)
			go func(w int) {
				defer wg.Done()
				rr.worker(seed, w, nops)
			}(w)
		}
		nind := 3
		for w := 0; w < nind; w++ {
			wg.Add(1)
			go func(w int) {
				defer wg.Done()
				independent(seed, w, 2, &ibad, &imu, &totalOps)
			}(w)
		}
		wg.Wait()
		totalOps.Add(rr.ops.Load())
		for r, cnt := range rr.xruns {
			if cnt.Load() > 1 {
				rr.bad = append(rr.bad, fmt.Sprintf("exclusive-once: the exclusive decoder ran %d times on object %d", cnt.Load(), r))
			}
		}
		e.Sample(2, map[string]any{"race_round": round, "round_seed": seed, "goroutines": workers + nind, "operations": rr.ops.Load(), "failures": len(rr.bad) + len(ibad)})
		e.Count(true, fmt.Sprintf("race-round-%d-%d", seed, round), "race mix: 8 goroutines on one Extractor + 3 independent Reader/Writer goroutines")
		for _, m := range append(rr.bad, ibad...) {
			sig := "race-mix"
			for _, p := range []string{"agree", "panic", "exclusive-once", "seq", "independent"} {
				if len(m) > len(p) && m[:len(p)] == p {
					sig = "race-mix:" + p
				}
			}
			nfail++
			e.Fail(sig, m, map[string]any{"seed": e.Seed, "round": round, "round_seed": seed})
		}
	}
	stress["exclusive"] = exclStress(e, e.Pick(8000, 80000))
	pool := poolPhase(e, e.Pick(2, 3)) // sync.Pool drops items at random in a race build: the plain build is the deterministic one
	e.Finish("random mixes of Reader.Get / DecodeStream / Decode / DecodeExclusive / StoreOrLoadPair from 8 goroutines on one Extractor, plus independent Writers/Readers, cmap.Predefined and mapping.Get*Mapping in 3 more goroutines, under the Go scheduler in a -race build (a TEST: sampled schedules)",
		map[string]any{"race_rounds": rounds, "race_operations": totalOps.Load(), "race_functional_failures": nfail, "pool_in_race_build": pool, "errors_in_race_build": errPhase(e), "concurrent_reads_in_race_build": cryptPhase(e, e.Pick(8, 100)), "stress_in_race_build": stress})
	fmt.Printf("race mode: %d rounds, %d operations, %d functional failures\n", rounds, totalOps.Load(), nfail)
}
