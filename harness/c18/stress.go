package main

// C18: two windows that the cooperative schedule enumerator cannot reach (they
// contain no scheduling point) are exercised under real preemption, with
// barriers and enough repetitions that a loaded machine still hits them.  Both
// run in the plain and in the -race build.  They are TESTS.
//
//   - cmapStress: FIRST lookups of one predefined CMap name.  For each of a few
//     dozen names that this process has not used yet (a fresh subset per seed),
//     16 goroutines behind a barrier call cmap.Predefined / cmap.Extract(Name);
//     all must receive the identical *cmap.File and IsPredefined() must hold.
//     The window is the whole gunzip+parse of the CMap (milliseconds).
//   - exclStress: the single-flight guarantee of DecodeExclusive.  Per round a
//     FRESH Extractor, 8 goroutines released by a spinning barrier, all calling
//     DecodeExclusive for one reference; the decode function counts its runs.

import (
	"fmt"
	"os"
	"path/filepath"
	"runtime"
	"runtime/debug"
	"sort"
	"strings"
	"sync"
	"sync/atomic"

	"seehuhn.de/go/pdf"
	"seehuhn.de/go/pdf/font/cmap"
	"seehuhn.de/go/pdf/verifharness/common"
)

func predefinedNames() []string {
	root := os.Getenv("VERIF_REPO")
	if root == "" {
		root = "/repo"
	}
	files, _ := filepath.Glob(filepath.Join(root, "font", "cmap", "predefined", "*.gz"))
	var names []string
	for _, f := range files {
		names = append(names, strings.TrimSuffix(filepath.Base(f), ".gz"))
	}
	sort.Strings(names)
	return names
}

// spinBarrier releases n goroutines as simultaneously as the scheduler allows
type spinBarrier struct {
	arrived atomic.Int32
	open    atomic.Bool
}

func (b *spinBarrier) wait() {
	b.arrived.Add(1)
	for !b.open.Load() {
		runtime.Gosched()
	}
}

func (b *spinBarrier) release(n int) {
	for int(b.arrived.Load()) < n {
		runtime.Gosched()
	}
	b.open.Store(true)
}

func cmapStress(e *common.Env, nNames int) map[string]any {
	if runtime.GOMAXPROCS(0) < 4 {
		defer runtime.GOMAXPROCS(runtime.GOMAXPROCS(4))
	}
	used := map[string]bool{}
	for _, n := range cmapNames { // names the race mix uses later
		used[n] = true
	}
	var names []string
	for _, n := range predefinedNames() {
		if !used[n] {
			names = append(names, n)
		}
	}
	e.Rand.Shuffle(len(names), func(i, j int) { names[i], names[j] = names[j], names[i] })
	if len(names) > nNames {
		names = names[:nNames]
	}
	sh := mk("cmap", 1, true)
	sh.build()
	const G = 16
	nfail := 0
	for _, name := range names {
		res := make([]*cmap.File, G)
		errs := make([]error, G)
		var b spinBarrier
		var wg sync.WaitGroup
		for g := 0; g < G; g++ {
			wg.Add(1)
			go func(g int) {
				defer wg.Done()
				defer func() {
					if r := recover(); r != nil {
						errs[g] = fmt.Errorf("panic: %v", r)
					}
				}()
				b.wait()
				if g%2 == 0 {
					res[g], errs[g] = cmap.Predefined(name)
				} else {
					res[g], errs[g] = cmap.Extract(pdf.NewCursor(sh.rd), pdf.Name(name), true)
				}
			}(g)
		}
		b.release(G)
		wg.Wait()
		e.Count(true, "cmap:"+name, "stress: 16 goroutines make the first lookup of one predefined CMap")
		problem := ""
		distinct := map[*cmap.File]bool{}
		for g := 0; g < G; g++ {
			if errs[g] != nil {
				problem = fmt.Sprintf("goroutine %d: %v", g, errs[g])
				break
			}
			distinct[res[g]] = true
			if !res[g].IsPredefined() {
				problem = fmt.Sprintf("goroutine %d received a *cmap.File for which IsPredefined() is false", g)
			}
		}
		if problem == "" && len(distinct) != 1 {
			problem = fmt.Sprintf("the 16 concurrent first lookups returned %d different *cmap.File objects", len(distinct))
		}
		if problem != "" {
			nfail++
			e.Fail("cmap-shared", fmt.Sprintf("cmap.Predefined(%q), first use from 16 goroutines at once: %s (alone every call returns the one cached object)", name, problem),
				map[string]any{"name": name, "goroutines": G, "distinct_objects": len(distinct)})
		}
	}
	return map[string]any{"cmap_names": len(names), "goroutines_per_name": G, "failures": nfail}
}

func exclStress(e *common.Env, rounds int) map[string]any {
	if runtime.GOMAXPROCS(0) < 4 {
		defer runtime.GOMAXPROCS(runtime.GOMAXPROCS(4)) // real preemption between OS threads even on few CPUs
	}
	sh := mk("stress", 4, true)
	sh.next[1] = 2 // reference 1 is an alias of 2
	sh.build()
	const G = 8
	// keep the garbage collector marking all the time: an allocation inside DecodeExclusive then has to
	// assist (and may be descheduled there), which opens windows between its critical sections that
	// a quiet machine never shows - on any number of CPUs
	defer debug.SetGCPercent(debug.SetGCPercent(1))
	stop := make(chan struct{})
	var garbage sync.WaitGroup
	for i := 0; i < 3; i++ {
		garbage.Add(1)
		go func() {
			defer garbage.Done()
			var keep [][]byte
			for {
				select {
				case <-stop:
					return
				default:
				}
				keep = append(keep, make([]byte, 4096))
				if len(keep) > 256 {
					keep = keep[:0]
				}
				runtime.Gosched()
			}
		}()
	}
	defer func() { close(stop); garbage.Wait() }()
	extra, badRounds := 0, 0
	var first map[string]any
	for round := 0; round < rounds; round++ {
		x := pdf.NewExtractor(sh.rd)
		ref := sh.refs[1+round%4]
		var runs atomic.Int32
		res := make([]*thingA, G)
		var b spinBarrier
		var wg sync.WaitGroup
		for g := 0; g < G; g++ {
			wg.Add(1)
			go func(g int) {
				defer wg.Done()
				b.wait()
				res[g], _ = pdf.DecodeExclusive(pdf.CursorAt(x, nil), ref, func(c pdf.Cursor, obj pdf.Object, direct bool) (*thingA, error) {
					runs.Add(1)
					return &thingA{objID(obj)}, nil
				})
			}(g)
		}
		b.release(G)
		wg.Wait()
		same := true
		for g := 1; g < G; g++ {
			same = same && res[g] == res[0] && res[g] != nil
		}
		if n := int(runs.Load()); n != 1 || !same {
			extra += n - 1
			badRounds++
			if first == nil {
				first = map[string]any{"round": round, "reference": 1 + round%4, "decoder_runs": n, "all_results_identical": same}
			}
		}
	}
	e.Count(true, fmt.Sprintf("excl-stress:%d", rounds), "stress: 8 goroutines DecodeExclusive one reference on a fresh Extractor, per round")
	if badRounds > 0 {
		e.Fail("exclusive-once", fmt.Sprintf("under the Go scheduler: in %d of %d rounds (8 goroutines released together on a fresh Extractor) the decode function of DecodeExclusive ran more than once or the callers received different values (%d extra runs)", badRounds, rounds, extra), first)
	}
	return map[string]any{"rounds": rounds, "goroutines": G, "gomaxprocs": runtime.GOMAXPROCS(0), "rounds_with_more_than_one_run": badRounds}
}

