// C18 harness: the extractor cache protocol under ALL interleavings.
//
// A cooperative controller (installed through pdf.VerifSchedHook, build tag
// verif) runs the goroutines of a small program one hook-to-hook step at a
// time on the real pdf.Decode / pdf.DecodeExclusive / pdf.StoreOrLoadPair.
// For two goroutines every schedule is enumerated (stateless depth-first
// search, re-executing from a fresh Extractor); for three goroutines a fixed
// budget of random schedules is sampled.  Every explored schedule is
//
//   - judged directly (property oracle on the implementation: pointer identity
//     of all results for one object and type, exclusive decode ran once, no
//     deadlock, no panic, mutex held in every critical section, a later
//     sequential Decode returns the same pointer)  -> fails.jsonl
//   - written to cases.txt / impl.obs for the replay in the extracted Coq
//     model coq/C18/Cache.v (same thread choice sequence).
//
// With C18_MODE=race (binary built with -race) the harness instead runs random
// mixes under the Go scheduler; see race.go.
package main

import (
	"bytes"
	"errors"
	"fmt"
	"os"
	"runtime"
	"sort"
	"strconv"
	"strings"
	"sync"
	"time"

	"seehuhn.de/go/pdf"
	"seehuhn.de/go/pdf/verifharness/common"
)

// ---------------------------------------------------------------- programs

type op struct {
	kind byte // 'D' Decode, 'X' DecodeExclusive, 'P' StoreOrLoadPair
	np   bool // fresh cursor (CursorAt(x, nil)) instead of the decoder's cursor
	r    int
	t    int // type (for P: type of the first view)
	tb   int // P: type of the second view
}

func (o op) String() string {
	if o.kind == 'P' {
		return fmt.Sprintf("P.%d.%d.%d", o.r, o.t, o.tb)
	}
	np := 0
	if o.np {
		np = 1
	}
	return fmt.Sprintf("%c%d.%d.%d", o.kind, np, o.r, o.t)
}

func opsString(ops []op) string {
	if len(ops) == 0 {
		return "-"
	}
	s := make([]string, len(ops))
	for i, o := range ops {
		s[i] = o.String()
	}
	return strings.Join(s, ";")
}

func D(r, t int) op  { return op{kind: 'D', np: true, r: r, t: t} }
func X(r, t int) op  { return op{kind: 'X', np: true, r: r, t: t} }
func Dc(r, t int) op { return op{kind: 'D', r: r, t: t} } // inherits the decoder's cursor
func Xc(r, t int) op { return op{kind: 'X', r: r, t: t} }
func P(r, ta, tb int) op {
	return op{kind: 'P', r: r, t: ta, tb: tb}
}

// shape: a file (reference graph) and its decoders
type shape struct {
	name  string
	nobj  int
	next  map[int]int       // object a is the reference b
	body  map[[2]int][]op   // what the decoder of type t does on object e
	fails map[[2]int]bool   // decoder returns an error
	nilv  map[[2]int]bool   // decoder returns a nil interface value
	errKind int             // flavour of the failing decoders' error: 0 plain, 1 malformed, 2 wraps pdf.ErrCycle
	sink  bool              // the exclusive-dependency relation of the decoders is well-founded (no_deadlock_ranked applies): a deadlock is a failure
	rd    *pdf.Reader
	refs  []pdf.Reference // refs[i] = reference of object i (1-based)
	spec  string
}

func (s *shape) build() {
	buf := &bytes.Buffer{}
	w, err := pdf.NewWriter(buf, pdf.V1_4, nil)
	if err != nil {
		panic(err)
	}
	s.refs = make([]pdf.Reference, s.nobj+1)
	for i := 1; i <= s.nobj; i++ {
		s.refs[i] = w.Alloc()
		if int(s.refs[i].Number()) != i {
			panic("unexpected object numbering")
		}
	}
	for i := 1; i <= s.nobj; i++ {
		if j, ok := s.next[i]; ok {
			err = w.Put(s.refs[i], s.refs[j])
		} else {
			err = w.Put(s.refs[i], pdf.Dict{"ID": pdf.Integer(i)})
		}
		if err != nil {
			panic(err)
		}
	}
	pages := w.Alloc()
	if err := w.Put(pages, pdf.Dict{"Type": pdf.Name("Pages"), "Kids": pdf.Array{}, "Count": pdf.Integer(0)}); err != nil {
		panic(err)
	}
	w.GetMeta().Catalog.Pages = pages
	if err := w.Close(); err != nil {
		panic(err)
	}
	rd, err := pdf.NewReader(bytes.NewReader(buf.Bytes()), int64(buf.Len()), nil)
	if err != nil {
		panic(err)
	}
	s.rd = rd

	var nx, bd, fl, nl []string
	for a := 1; a <= s.nobj; a++ {
		if b, ok := s.next[a]; ok {
			nx = append(nx, fmt.Sprintf("%d:%d", a, b))
		}
	}
	keys := func(m map[[2]int]bool) []string {
		var r []string
		for k, v := range m {
			if v {
				r = append(r, fmt.Sprintf("%d.%d", k[0], k[1]))
			}
		}
		sort.Strings(r)
		return r
	}
	var bk [][2]int
	for k := range s.body {
		bk = append(bk, k)
	}
	sort.Slice(bk, func(i, j int) bool { return bk[i][0] < bk[j][0] || bk[i][0] == bk[j][0] && bk[i][1] < bk[j][1] })
	for _, k := range bk {
		if len(s.body[k]) > 0 {
			bd = append(bd, fmt.Sprintf("%d.%d:%s", k[0], k[1], opsString(s.body[k])))
		}
	}
	fl, nl = keys(s.fails), keys(s.nilv)
	j := func(l []string, sep string) string {
		if len(l) == 0 {
			return "-"
		}
		return strings.Join(l, sep)
	}
	s.spec = fmt.Sprintf("next=%s body=%s fails=%s nil=%s md=256", j(nx, ","), j(bd, "/"), j(fl, ","), j(nl, ","))
}

// chainEnd follows alias objects; -1 for a reference loop
func (s *shape) chainEnd(r int) int {
	for i := 0; i <= s.nobj; i++ {
		n, ok := s.next[r]
		if !ok {
			return r
		}
		r = n
	}
	return -1
}

// ---------------------------------------------------------------- values

type thingA struct{ e int }
type thingB struct{ e int }
type thingC struct{ e int }
type ifc interface{ isIfc() }

func (*thingC) isIfc() {}

var errDecode = errors.New("harness decoder failure")

// decErr: the error a failing harness decoder returns - a distinct value per run, in three flavours
type decErr struct {
	id    int
	inner error
}

func (d *decErr) Error() string { return fmt.Sprintf("decoder run %d: %v", d.id, d.inner) }
func (d *decErr) Unwrap() error { return d.inner }

func newDecErr(id, kind int) *decErr {
	switch kind % 3 {
	case 1:
		return &decErr{id, &pdf.MalformedFileError{Err: errDecode}}
	case 2:
		return &decErr{id, fmt.Errorf("decoder: %w", pdf.ErrCycle)} // looks like a cycle error, is the decoder's
	}
	return &decErr{id, errDecode}
}

type outc struct {
	err    string // "" = value
	ptr    any
	waited bool  // the (exclusive) call waited for a leader
	errp   error // the error value itself
}

type event struct {
	kind     byte // 'R' decoder entered, 'D', 'X', 'P' call returned, '!' panic
	tid      int
	r, e, t  int
	tb       int
	ex       bool
	o1, o2   outc
	panicMsg string
}

// ---------------------------------------------------------------- controller

type arrival struct {
	tid  int
	done <-chan struct{}
	fin  bool
}

type controller struct {
	onWait func(tid int) // a goroutine is about to wait for a pending exclusive decode
	mu     sync.Mutex
	tids   map[int64]int
	arrive chan arrival
	resume []chan struct{}
	abort  chan struct{}
}

func goid() int64 {
	var buf [64]byte
	n := runtime.Stack(buf[:], false)
	// "goroutine 123 ["
	s := buf[len("goroutine "):n]
	var id int64
	for _, c := range s {
		if c < '0' || c > '9' {
			break
		}
		id = id*10 + int64(c-'0')
	}
	return id
}

func (c *controller) hook(point string, done <-chan struct{}) {
	c.mu.Lock()
	tid, ok := c.tids[goid()]
	c.mu.Unlock()
	if !ok {
		return
	}
	if done != nil && c.onWait != nil {
		c.onWait(tid)
	}
	c.park(tid, done)
}

func (c *controller) park(tid int, done <-chan struct{}) {
	select {
	case c.arrive <- arrival{tid: tid, done: done}:
	case <-c.abort:
		runtime.Goexit()
	}
	select {
	case <-c.resume[tid]:
	case <-c.abort:
		runtime.Goexit()
	}
}

// one execution of a program under a schedule
type runResult struct {
	taken    []int
	alts     [][]int
	statuses []string
	events   []event
	deadlock bool
	stuck    string
	lockViol []string
	epilogue []string // failures of the sequential re-decode
	decErrs    map[*decErr]int
	waiterRuns []string
}

type runCtx struct {
	sh     *shape
	x      *pdf.Extractor
	mu     sync.Mutex
	events []event
	quiet  bool

	waited     map[int]bool    // per goroutine: its current exclusive call has waited for a leader
	decErrs    map[*decErr]int // error values made by decoder runs -> goroutine
	nDecErr    int
	waiterRuns []string // a call that had waited ran the decode function itself
}

func (rc *runCtx) setWaited(tid int, v bool) (old bool) {
	rc.mu.Lock()
	old = rc.waited[tid]
	rc.waited[tid] = v
	rc.mu.Unlock()
	return old
}

func (rc *runCtx) log(e event) {
	rc.mu.Lock()
	if !rc.quiet {
		rc.events = append(rc.events, e)
	}
	rc.mu.Unlock()
}

func errClass(err error) string {
	var de *decErr
	if errors.As(err, &de) {
		return "eX"
	}
	switch {
	case errors.Is(err, pdf.ErrCycle):
		return "eC"
	case errors.Is(err, pdf.ErrDepth):
		return "eD"
	case errors.Is(err, errDecode):
		return "eX"
	}
	return "e?" + strings.ReplaceAll(err.Error(), " ", "_")
}

func objID(obj pdf.Object) int {
	if d, ok := obj.(pdf.Dict); ok {
		if n, ok := d["ID"].(pdf.Integer); ok {
			return int(n)
		}
	}
	return -1
}

func callT[T any](rc *runCtx, tid int, cur pdf.Cursor, o op, mk func(e int) T) outc {
	excl := o.kind == 'X'
	dec := func(c pdf.Cursor, obj pdf.Object, direct bool) (T, error) {
		var zero T
		e := objID(obj)
		rc.log(event{kind: 'R', tid: tid, r: o.r, e: e, t: o.t, ex: excl})
		if excl {
			rc.mu.Lock()
			if rc.waited[tid] && !rc.quiet {
				rc.waiterRuns = append(rc.waiterRuns, fmt.Sprintf("goroutine %d, DecodeExclusive(%d, type %d)", tid, o.r, o.t))
			}
			rc.mu.Unlock()
		}
		for _, k := range rc.sh.body[[2]int{e, o.t}] {
			rc.exec(tid, c, k)
		}
		if rc.sh.fails[[2]int{e, o.t}] {
			rc.mu.Lock()
			rc.nDecErr++
			de := newDecErr(rc.nDecErr, rc.sh.errKind)
			rc.decErrs[de] = tid
			rc.mu.Unlock()
			return zero, de
		}
		return mk(e), nil
	}
	c := cur
	if o.np {
		c = pdf.CursorAt(rc.x, nil)
	}
	var v T
	var err error
	waited := false
	if excl {
		saved := rc.setWaited(tid, false)
		v, err = pdf.DecodeExclusive(c, rc.sh.refs[o.r], dec)
		waited = rc.setWaited(tid, saved)
	} else {
		v, err = pdf.Decode(c, rc.sh.refs[o.r], dec)
	}
	if err != nil {
		return outc{err: errClass(err), waited: waited, errp: err}
	}
	return outc{ptr: any(v), waited: waited}
}

func (rc *runCtx) call(tid int, cur pdf.Cursor, o op) outc {
	switch o.t {
	case 0:
		return callT(rc, tid, cur, o, func(e int) *thingA { return &thingA{e} })
	case 1:
		return callT(rc, tid, cur, o, func(e int) *thingB { return &thingB{e} })
	case 2:
		return callT(rc, tid, cur, o, func(e int) ifc {
			if rc.sh.nilv[[2]int{e, 2}] {
				return nil
			}
			return &thingC{e}
		})
	}
	panic("unknown type")
}

func (rc *runCtx) exec(tid int, cur pdf.Cursor, o op) {
	switch o.kind {
	case 'D', 'X':
		res := rc.call(tid, cur, o)
		rc.log(event{kind: o.kind, tid: tid, r: o.r, t: o.t, o1: res})
	case 'P':
		ref := rc.sh.refs[o.r]
		var a, b any
		switch [2]int{o.t, o.tb} {
		case [2]int{0, 1}:
			a, b = pdf.StoreOrLoadPair(rc.x, ref, &thingA{o.r}, &thingB{o.r})
		case [2]int{1, 0}:
			a, b = pdf.StoreOrLoadPair(rc.x, ref, &thingB{o.r}, &thingA{o.r})
		case [2]int{0, 0}:
			a, b = pdf.StoreOrLoadPair(rc.x, ref, &thingA{o.r}, &thingA{o.r})
		default:
			panic("unsupported pair types")
		}
		rc.log(event{kind: 'P', tid: tid, r: o.r, t: o.t, tb: o.tb, o1: outc{ptr: a}, o2: outc{ptr: b}})
	}
}

var stepTimeout = 15 * time.Second

// no program of this harness needs more than ~1600 steps (the chain of 260)
const maxSteps = 4000

// runOnce executes prog; the first len(prefix) choices are prescribed, later
// ones are made by choose (nil: lowest enabled goroutine).
func runOnce(sh *shape, prog [][]op, prefix []int, choose func(enabled []int) int) *runResult {
	n := len(prog)
	res := &runResult{}
	c := &controller{tids: map[int64]int{}, arrive: make(chan arrival), resume: make([]chan struct{}, n), abort: make(chan struct{})}
	for i := range c.resume {
		c.resume[i] = make(chan struct{})
	}
	rc := &runCtx{sh: sh, x: pdf.NewExtractor(sh.rd), waited: map[int]bool{}, decErrs: map[*decErr]int{}}
	c.onWait = func(tid int) { rc.setWaited(tid, true) }
	var lmu sync.Mutex
	pdf.VerifSchedHook = c.hook
	pdf.VerifLockHook = func(where string) {
		lmu.Lock()
		res.lockViol = append(res.lockViol, where)
		lmu.Unlock()
	}
	defer func() {
		pdf.VerifSchedHook = nil
		pdf.VerifLockHook = nil
	}()

	var reg sync.WaitGroup
	reg.Add(n)
	for i := range prog {
		go func(i int) {
			c.mu.Lock()
			c.tids[goid()] = i
			c.mu.Unlock()
			reg.Done()
			defer func() {
				if r := recover(); r != nil {
					rc.log(event{kind: '!', tid: i, panicMsg: fmt.Sprint(r)})
					select {
					case c.arrive <- arrival{tid: i, fin: true}:
					case <-c.abort:
					}
				}
			}()
			c.park(i, nil) // "start"
			for _, o := range prog[i] {
				rc.exec(i, pdf.CursorAt(rc.x, nil), o)
			}
			select {
			case c.arrive <- arrival{tid: i, fin: true}:
			case <-c.abort:
			}
		}(i)
	}
	reg.Wait()

	parked := map[int]arrival{}
	fin := make([]bool, n)
	finished := 0
	timer := time.NewTimer(stepTimeout)
	defer timer.Stop()
	wait := func() (arrival, bool) {
		if !timer.Stop() {
			select {
			case <-timer.C:
			default:
			}
		}
		timer.Reset(stepTimeout)
		select {
		case a := <-c.arrive:
			return a, true
		case <-timer.C:
			return arrival{}, false
		}
	}
	for len(parked) < n {
		a, ok := wait()
		if !ok {
			res.stuck = "goroutines did not reach their start point"
			close(c.abort)
			return res
		}
		parked[a.tid] = a
	}
	step := 0
	for {
		var enabled []int
		st := make([]byte, n)
		for tid := 0; tid < n; tid++ {
			if fin[tid] {
				st[tid] = '0'
				continue
			}
			a := parked[tid]
			if a.done != nil {
				select {
				case <-a.done:
				default:
					st[tid] = '2'
					continue
				}
			}
			st[tid] = '1'
			enabled = append(enabled, tid)
		}
		res.statuses = append(res.statuses, string(st))
		if finished == n {
			break
		}
		if len(enabled) == 0 {
			res.deadlock = true
			break
		}
		if step >= maxSteps {
			res.stuck = fmt.Sprintf("the run does not terminate: %d steps and goroutines are still running (unbounded recursion or livelock)", step)
			break
		}
		choice := enabled[0]
		if step < len(prefix) {
			choice = prefix[step]
			ok := false
			for _, e := range enabled {
				ok = ok || e == choice
			}
			if !ok {
				res.stuck = fmt.Sprintf("prescribed goroutine %d is not enabled at step %d", choice, step)
				break
			}
		} else if choose != nil {
			choice = choose(enabled)
		}
		res.taken = append(res.taken, choice)
		res.alts = append(res.alts, enabled)
		step++
		delete(parked, choice)
		c.resume[choice] <- struct{}{}
		a, ok := wait()
		if !ok {
			res.stuck = fmt.Sprintf("goroutine %d neither reached a scheduling point nor finished within %v (step %d)", choice, stepTimeout, step)
			break
		}
		if a.fin {
			fin[a.tid] = true
			finished++
		} else {
			parked[a.tid] = a
		}
	}
	close(c.abort)
	pdf.VerifSchedHook = nil
	rc.mu.Lock()
	res.events = append([]event(nil), rc.events...)
	res.decErrs = map[*decErr]int{}
	for k, v := range rc.decErrs {
		res.decErrs[k] = v
	}
	res.waiterRuns = append([]string(nil), rc.waiterRuns...)
	rc.quiet = true
	rc.mu.Unlock()

	// sequential epilogue: every Decode/DecodeExclusive result of a top-level
	// call must be what a later Decode, running alone, returns
	if !res.deadlock && res.stuck == "" {
		seen := map[[2]int]bool{}
		for _, ev := range res.events {
			if (ev.kind == 'D' || ev.kind == 'X') && ev.o1.err == "" && !seen[[2]int{ev.r, ev.t}] {
				seen[[2]int{ev.r, ev.t}] = true
				func() {
					defer func() {
						if r := recover(); r != nil {
							res.epilogue = append(res.epilogue, fmt.Sprintf("sequential Decode(%d, type %d) after the run panics: %v", ev.r, ev.t, r))
						}
					}()
					again := rc.call(-1, pdf.CursorAt(rc.x, nil), op{kind: 'D', np: true, r: ev.r, t: ev.t})
					if again.err != "" || again.ptr != ev.o1.ptr {
						res.epilogue = append(res.epilogue, fmt.Sprintf("sequential Decode(%d, type %d) after the run returns a different value than the concurrent call did", ev.r, ev.t))
					}
				}()
			}
		}
	}
	return res
}

// inspect returns the object a returned value was made for and whether it is a nil pointer / nil interface
func inspect(ptr any) (e int, isNil bool) {
	switch p := ptr.(type) {
	case nil:
		return -1, true
	case *thingA:
		if p == nil {
			return -1, true
		}
		return p.e, false
	case *thingB:
		if p == nil {
			return -1, true
		}
		return p.e, false
	case *thingC:
		if p == nil {
			return -1, true
		}
		return p.e, false
	}
	return -2, false
}

// ---------------------------------------------------------------- observations

func formatObs(res *runResult) string {
	names := map[any]string{}
	name := func(o outc) string {
		if o.err != "" {
			return o.err
		}
		if _, isNil := inspect(o.ptr); isNil {
			return "v0"
		}
		if s, ok := names[o.ptr]; ok {
			return s
		}
		s := "v" + strconv.Itoa(len(names)+1)
		names[o.ptr] = s
		return s
	}
	var evs []string
	for _, ev := range res.events {
		switch ev.kind {
		case 'R':
			x := 0
			if ev.ex {
				x = 1
			}
			evs = append(evs, fmt.Sprintf("R%d:%d:%d:%d:%d", ev.tid, ev.r, ev.e, ev.t, x))
		case 'D', 'X':
			evs = append(evs, fmt.Sprintf("%c%d:%d:%d:%s", ev.kind, ev.tid, ev.r, ev.t, name(ev.o1)))
		case 'P':
			a := name(ev.o1)
			b := name(ev.o2)
			evs = append(evs, fmt.Sprintf("P%d:%d:%d:%d:%s:%s", ev.tid, ev.r, ev.t, ev.tb, a, b))
		case '!':
			evs = append(evs, fmt.Sprintf("PANIC%d", ev.tid))
		}
	}
	l := "-"
	if len(evs) > 0 {
		l = strings.Join(evs, ",")
	}
	return fmt.Sprintf("ok=1 st=%s log=%s", strings.Join(res.statuses, "|"), l)
}

// oracle: the property judged directly on what the implementation did
func oracle(sh *shape, prog [][]op, res *runResult) (sig, what string) {
	for _, ev := range res.events {
		if ev.kind == '!' {
			return "panic", fmt.Sprintf("goroutine %d panics: %s", ev.tid, ev.panicMsg)
		}
	}
	if res.stuck != "" {
		return "stuck", res.stuck
	}
	if len(res.lockViol) > 0 {
		return "lock", "critical section entered without Extractor.mu held: " + strings.Join(res.lockViol, ",")
	}
	if len(res.waiterRuns) > 0 {
		return "exclusive-once", "a DecodeExclusive call that had waited for the leader of its key ran the decode function itself instead of sharing the leader's outcome: " + res.waiterRuns[0]
	}
	for _, ev := range res.events {
		if ev.kind == 'X' && ev.o1.waited && ev.o1.errp != nil {
			var de *decErr
			if !errors.As(ev.o1.errp, &de) {
				continue
			}
			if who, ok := res.decErrs[de]; !ok || who == ev.tid {
				return "exclusive-once", fmt.Sprintf("goroutine %d waited for the leader of DecodeExclusive(%d, type %d) but did not receive the leader's error value (it returned %q)", ev.tid, ev.r, ev.t, ev.o1.errp.Error())
			}
		}
	}
	if res.deadlock && sh.sink {
		return "deadlock", "all unfinished goroutines wait for each other: statuses " + strings.Join(res.statuses, "|")
	}
	// agreement: one value per (object, type)
	first := map[[2]int]any{}
	have := map[[2]int]bool{}
	check := func(r, t int, o outc) string {
		if o.err != "" {
			return ""
		}
		e := sh.chainEnd(r)
		k := [2]int{e, t}
		// what the call returns alone: a value its own decode function made for object e
		ve, isNil := inspect(o.ptr)
		if isNil != sh.nilv[k] || !isNil && ve != e {
			return fmt.Sprintf("own-value: a call for reference %d, type %d returned no error and a value that no decode function of that type made for object %d (nil=%v, made for object %d)", r, t, e, isNil, ve)
		}
		if !have[k] {
			have[k] = true
			first[k] = o.ptr
			return ""
		}
		if first[k] != o.ptr {
			return fmt.Sprintf("two different Go values were returned for object %d (type %d); reference %d", e, t, r)
		}
		return ""
	}
	runs := map[[2]int]int{}
	for _, ev := range res.events {
		var m string
		switch ev.kind {
		case 'D', 'X':
			m = check(ev.r, ev.t, ev.o1)
		case 'P':
			m = check(ev.r, ev.t, ev.o1)
			if m == "" {
				m = check(ev.r, ev.tb, ev.o2)
			}
		case 'R':
			if ev.ex {
				runs[[2]int{ev.r, ev.t}]++
			}
		}
		if strings.HasPrefix(m, "own-value: ") {
			return "own-value", m[len("own-value: "):]
		}
		if m != "" {
			return "agree", m
		}
	}
	for k, n := range runs {
		e := sh.chainEnd(k[0])
		if n > 1 && e >= 0 && !sh.fails[[2]int{e, k[1]}] {
			return "exclusive-once", fmt.Sprintf("the decode function of DecodeExclusive(%d, type %d) ran %d times", k[0], k[1], n)
		}
	}
	if len(res.epilogue) > 0 {
		return "sequential", res.epilogue[0]
	}
	return "", ""
}

// ---------------------------------------------------------------- enumeration

type program struct {
	sh   *shape
	name string
	prog [][]op
}

func (p *program) progString() string {
	s := make([]string, len(p.prog))
	for i, ops := range p.prog {
		s[i] = opsString(ops)
	}
	return strings.Join(s, "|")
}

type explorer struct {
	e       *common.Env
	nsched  int
	perProg map[string]int
	failed  map[string]int
}

func schedString(s []int) string {
	if len(s) == 0 {
		return "-"
	}
	b := make([]string, len(s))
	for i, t := range s {
		b[i] = strconv.Itoa(t)
	}
	return strings.Join(b, ",")
}

func (x *explorer) record(p *program, res *runResult, how string) {
	id := fmt.Sprintf("%s/%s/%d", p.sh.name, p.name, x.perProg[p.sh.name+"/"+p.name])
	id = strings.ReplaceAll(id, " ", "_")
	x.perProg[p.sh.name+"/"+p.name]++
	x.nsched++
	caseLine := fmt.Sprintf("%s progs=%s sched=%s", p.sh.spec, p.progString(), schedString(res.taken))
	x.e.Line("cases.txt", "%s %s", id, caseLine)
	x.e.Line("impl.obs", "%s %s", id, formatObs(res))
	switches := 0
	for i := 1; i < len(res.taken); i++ {
		if res.taken[i] != res.taken[i-1] {
			switches++
		}
	}
	x.e.Count(len(p.prog) > 1 && switches > len(p.prog), caseLine, p.sh.name+": "+p.name+" ["+how+"]")
	if sig, what := oracle(p.sh, p.prog, res); sig != "" {
		x.failed[sig]++
		x.e.Fail(sig, what, map[string]any{"shape": p.sh.name, "file": p.sh.spec, "program": p.progString(), "schedule": schedString(res.taken), "observed": formatObs(res)})
	}
	x.e.Sample(6, map[string]any{"id": id, "case": caseLine, "observed": formatObs(res)})
}

// all schedules (the start steps of the goroutines are thread-local and are
// taken in the fixed order 0,1,..)
func (x *explorer) exhaustive(p *program, limit int) bool {
	n := len(p.prog)
	base := make([]int, n)
	for i := range base {
		base[i] = i
	}
	stack := [][]int{base}
	count, stuck := 0, 0
	for len(stack) > 0 {
		prefix := stack[len(stack)-1]
		stack = stack[:len(stack)-1]
		res := runOnce(p.sh, p.prog, prefix, nil)
		x.record(p, res, "all schedules")
		count++
		if count >= limit {
			return false
		}
		if res.stuck != "" {
			// already reported as a failing input; its continuations are not explored
			stuck++
			if stuck >= 3 {
				return false
			}
			continue
		}
		for s := len(prefix); s < len(res.taken); s++ {
			for _, a := range res.alts[s] {
				if a != res.taken[s] {
					np := append(append([]int{}, res.taken[:s]...), a)
					stack = append(stack, np)
				}
			}
		}
	}
	return true
}

func (x *explorer) sampled(p *program, budget int) {
	n := len(p.prog)
	base := make([]int, n)
	for i := range base {
		base[i] = i
	}
	seen := map[string]bool{}
	for i := 0; i < budget; i++ {
		// random schedules with a bias towards long runs of one goroutine
		last := -1
		stay := x.e.Rand.IntN(4)
		res := runOnce(p.sh, p.prog, base, func(enabled []int) int {
			if last >= 0 && x.e.Rand.IntN(4) < stay {
				for _, t := range enabled {
					if t == last {
						return t
					}
				}
			}
			last = enabled[x.e.Rand.IntN(len(enabled))]
			return last
		})
		k := schedString(res.taken)
		if seen[k] {
			continue
		}
		seen[k] = true
		x.record(p, res, "sampled schedules")
	}
}

func main() {
	if os.Getenv("C18_MODE") == "race" {
		raceMain()
		return
	}
	e := common.New(18)
	x := &explorer{e: e, perProg: map[string]int{}, failed: map[string]int{}}
	two, three := programs(e.Thorough)
	if only := os.Getenv("C18_ONLY"); only != "" { // replay/debug: restrict to programs whose name contains the string
		f := func(l []*program) []*program {
			var r []*program
			for _, p := range l {
				if strings.Contains(p.sh.name+"/"+p.name, only) {
					r = append(r, p)
				}
			}
			return r
		}
		two, three = f(two), f(three)
	}
	complete := 0
	var truncated []string
	limit := e.Pick(6000, 400000)
	for _, p := range two {
		if x.exhaustive(p, limit) {
			complete++
		} else {
			truncated = append(truncated, p.sh.name+"/"+p.name)
		}
	}
	budget := e.Pick(500, 20000)
	for _, p := range three {
		x.sampled(p, budget)
	}
	pool := poolPhase(e, 3)
	errs := errPhase(e)
	crypt := cryptPhase(e, e.Pick(25, 400))
	stress := map[string]any{"cmap": cmapStress(e, e.Pick(30, 120)), "exclusive": exclStress(e, e.Pick(30000, 400000))}
	e.Finish("every schedule of every listed program with <= 2 goroutines on the real Decode/DecodeExclusive/StoreOrLoadPair (stateless DFS over the verif scheduling points); programs with 3 goroutines: a fixed budget of random schedules (sampling, not exhaustive); oracle: pointer identity per (object,type), one exclusive decoder run, no deadlock/panic/unlocked critical section, later sequential Decode returns the same pointer, every successful call returns a value made by a decode function of its own type for its own object; every schedule replayed in the extracted Coq model. Pool oracle and error-value oracle (deterministic): see coverage.pool, coverage.errors",
		map[string]any{
			"schedules_explored":              x.nsched,
			"programs_enumerated_exhaustively": complete,
			"programs_truncated_at_limit":      truncated,
			"programs_sampled_3_goroutines":    len(three),
			"sample_budget_per_program":        budget,
			"schedules_per_program":            x.perProg,
			"oracle_failures_by_signature":     x.failed,
			"pool":                             pool,
			"errors":                           errs,
			"concurrent_reads":                 crypt,
			"stress":                           stress,
		})
}
