package main

// The reference shapes and the programs run over them.

func mk(name string, nobj int, sink bool) *shape {
	return &shape{name: name, nobj: nobj, sink: sink, next: map[int]int{}, body: map[[2]int][]op{}, fails: map[[2]int]bool{}, nilv: map[[2]int]bool{}}
}

func programs(thorough bool) (two, three []*program) {
	add := func(l *[]*program, sh *shape, name string, prog ...[]op) {
		*l = append(*l, &program{sh: sh, name: name, prog: prog})
	}
	T := func(ops ...op) []op { return ops }

	// --- a single object
	single := mk("single", 1, true)
	single.build()
	add(&two, single, "Decode alone", T(D(1, 0), D(1, 0)))
	add(&two, single, "Decode||Decode", T(D(1, 0)), T(D(1, 0)))
	add(&two, single, "Excl||Excl", T(X(1, 0)), T(X(1, 0)))
	add(&two, single, "Excl||Decode", T(X(1, 0)), T(D(1, 0)))
	add(&two, single, "Decode(T0)||Decode(T1)", T(D(1, 0)), T(D(1, 1)))
	add(&two, single, "Excl;Excl||Excl", T(X(1, 0), X(1, 0)), T(X(1, 0)))
	add(&two, single, "Pair||Pair", T(P(1, 0, 1)), T(P(1, 0, 1)))
	add(&two, single, "Pair||Decode", T(P(1, 0, 1)), T(D(1, 0)))
	add(&two, single, "Pair||Decode(T1);Decode(T0)", T(P(1, 0, 1)), T(D(1, 1), D(1, 0)))
	add(&two, single, "Pair||Pair swapped", T(P(1, 0, 1)), T(P(1, 1, 0)))
	add(&two, single, "Pair same type||Decode", T(P(1, 0, 0)), T(D(1, 0)))
	add(&two, single, "Pair||Excl", T(P(1, 0, 1)), T(X(1, 1)))

	// --- one reference, TWO result types: the calls are independent (keys are (reference, type))
	add(&two, single, "Excl(T0)||Excl(T1)", T(X(1, 0)), T(X(1, 1)))
	add(&two, single, "Decode(T0)||Excl(T1)", T(D(1, 0)), T(X(1, 1)))
	add(&two, single, "Excl(T0);Excl(T1)||Excl(T1)", T(X(1, 0), X(1, 1)), T(X(1, 1)))
	add(&two, single, "Pair(T0,T1)||Excl(T0)", T(P(1, 0, 1)), T(X(1, 0)))
	add(&two, single, "Pair(T0,T1)||Excl(T1);Excl(T0)", T(P(1, 0, 1)), T(X(1, 1), X(1, 0)))
	add(&two, single, "Excl(T0)||Excl(T2)", T(X(1, 0)), T(X(1, 2)))

	// the decode function of type T0 exclusively decodes the same reference as type T1
	cross := mk("cross-type", 1, true)
	cross.body[[2]int{1, 0}] = T(X(1, 1))
	cross.build()
	add(&two, cross, "Excl(T0) alone", T(X(1, 0)))
	add(&two, cross, "Excl(T0)||Excl(T1)", T(X(1, 0)), T(X(1, 1)))
	add(&two, cross, "Excl(T0)||Decode(T1)", T(X(1, 0)), T(D(1, 1)))

	// two page decoders exclusively decode object 3 under different types
	twoviews := mk("two views of 3", 3, true)
	twoviews.body[[2]int{1, 0}] = T(X(3, 0))
	twoviews.body[[2]int{2, 0}] = T(X(3, 1))
	twoviews.build()
	add(&three, twoviews, "Decode(1)||Decode(2) (2 goroutines, sampled)", T(D(1, 0)), T(D(2, 0)))

	// --- nil interface results (F19) and failing decoders
	nilres := mk("nil-result", 1, true)
	nilres.nilv[[2]int{1, 2}] = true
	nilres.build()
	add(&two, nilres, "Excl;Excl alone", T(X(1, 2), X(1, 2)))
	add(&two, nilres, "Excl||Excl", T(X(1, 2)), T(X(1, 2)))
	add(&two, nilres, "Excl||Decode", T(X(1, 2)), T(D(1, 2)))
	add(&two, nilres, "Decode||Decode;Excl", T(D(1, 2)), T(D(1, 2), X(1, 2)))

	failing := mk("failing-decoder", 1, true)
	failing.fails[[2]int{1, 0}] = true
	failing.build()
	add(&two, failing, "Excl||Excl", T(X(1, 0)), T(X(1, 0)))
	add(&two, failing, "Excl;Excl||Excl", T(X(1, 0), X(1, 0)), T(X(1, 0)))
	add(&two, failing, "Decode||Excl", T(D(1, 0)), T(X(1, 0)))
	add(&two, failing, "Decode(T1)||Excl(T0)", T(D(1, 1)), T(X(1, 0)))
	add(&two, failing, "Excl(T0 fails)||Excl(T1)", T(X(1, 0)), T(X(1, 1)))
	// the same with the other flavours of decoder errors: a *MalformedFileError, an error that wraps ErrCycle
	for kind, name := range map[int]string{1: "failing-decoder (malformed error)", 2: "failing-decoder (wraps ErrCycle)"} {
		fk := mk(name, 2, true)
		fk.errKind = kind
		fk.fails[[2]int{1, 0}] = true
		fk.fails[[2]int{2, 0}] = true
		fk.next[2] = 1 // 2 is an alias of 1
		fk.build()
		add(&two, fk, "Excl||Excl", T(X(1, 0)), T(X(1, 0)))
		add(&two, fk, "Excl;Excl||Excl", T(X(1, 0), X(1, 0)), T(X(1, 0)))
		add(&two, fk, "Excl(alias)||Excl(alias)", T(X(2, 0)), T(X(2, 0)))
		add(&three, fk, "Excl||Excl||Excl", T(X(1, 0)), T(X(1, 0)), T(X(1, 0)))
	}

	// --- chain 1 -> 2 (F14)
	chain := mk("chain 1->2", 2, true)
	chain.next[1] = 2
	chain.build()
	add(&two, chain, "Decode(1)||Decode(2)", T(D(1, 0)), T(D(2, 0)))
	add(&two, chain, "Decode(1)||Decode(1)", T(D(1, 0)), T(D(1, 0)))
	add(&two, chain, "Decode(1)||Decode(2);Decode(1)", T(D(1, 0)), T(D(2, 0), D(1, 0)))
	add(&two, chain, "Excl(1)||Decode(2)", T(X(1, 0)), T(D(2, 0)))
	add(&two, chain, "Excl(2)||Decode(1)", T(X(2, 0)), T(D(1, 0)))
	add(&two, chain, "Pair(2)||Decode(1)", T(P(2, 0, 1)), T(D(1, 0)))
	add(&two, chain, "Excl(1,T0)||Excl(2,T1)", T(X(1, 0)), T(X(2, 1)))
	if thorough {
		add(&two, chain, "Excl(1)||Excl(2)", T(X(1, 0)), T(X(2, 0)))
		add(&two, chain, "Excl(1)||Excl(1)", T(X(1, 0)), T(X(1, 0)))
	}

	chain3 := mk("chain 1->2->3", 3, true)
	chain3.next[1] = 2
	chain3.next[2] = 3
	chain3.build()
	add(&two, chain3, "Decode(1)||Decode(3)", T(D(1, 0)), T(D(3, 0)))
	if thorough {
		add(&two, chain3, "Decode(1)||Decode(2)", T(D(1, 0)), T(D(2, 0)))
		add(&two, chain3, "Excl(1)||Decode(2);Decode(3)", T(X(1, 0)), T(D(2, 0), D(3, 0)))
	}

	// --- two unrelated objects
	disjoint := mk("disjoint", 2, true)
	disjoint.build()
	add(&two, disjoint, "Decode(1)||Decode(2)", T(D(1, 0)), T(D(2, 0)))
	add(&two, disjoint, "Excl(1)||Excl(2)", T(X(1, 0)), T(X(2, 0)))

	// --- mutually referential objects, decoded recursively (the nested call
	// inherits the decoder's cursor, so the cycle is cut by ErrCycle)
	mutual := mk("mutual 1<->2", 2, true)
	mutual.body[[2]int{1, 0}] = T(Dc(2, 0))
	mutual.body[[2]int{2, 0}] = T(Dc(1, 0))
	mutual.build()
	add(&two, mutual, "Decode(1) alone", T(D(1, 0), D(2, 0)))
	if thorough {
		// 48 620 schedules each
		add(&two, mutual, "Decode(1)||Decode(2)", T(D(1, 0)), T(D(2, 0)))
		add(&two, mutual, "Decode(1)||Decode(1)", T(D(1, 0)), T(D(1, 0)))
		add(&three, mutual, "Excl(1)||Decode(2) (2 goroutines, sampled)", T(X(1, 0)), T(D(2, 0)))
	} else {
		add(&three, mutual, "Decode(1)||Decode(2) (2 goroutines, sampled)", T(D(1, 0)), T(D(2, 0)))
		add(&three, mutual, "Decode(1)||Decode(1) (2 goroutines, sampled)", T(D(1, 0)), T(D(1, 0)))
		add(&three, mutual, "Excl(1)||Decode(2) (2 goroutines, sampled)", T(X(1, 0)), T(D(2, 0)))
	}
	// two exclusive leaders on different references whose decode functions follow the link to the
	// other object with the plain Decode (F <-> G), and the three-party ring: plain Decode never waits
	add(&three, mutual, "Excl(1)||Excl(2) (2 goroutines, sampled)", T(X(1, 0)), T(X(2, 0)))
	ring := mk("ring 1->2->3->1", 3, true)
	ring.body[[2]int{1, 0}] = T(Dc(2, 0))
	ring.body[[2]int{2, 0}] = T(Dc(3, 0))
	ring.body[[2]int{3, 0}] = T(Dc(1, 0))
	ring.build()
	add(&three, ring, "Excl(1)||Excl(2)||Excl(3)", T(X(1, 0)), T(X(2, 0)), T(X(3, 0)))
	add(&three, ring, "Excl(1)||Excl(2)||Decode(3)", T(X(1, 0)), T(X(2, 0)), T(D(3, 0)))
	// one-sided: only the decoder of 1 refers to 2 (small enough for all schedules)
	half := mk("nested 1->2", 2, true)
	half.body[[2]int{1, 0}] = T(Dc(2, 0))
	half.build()
	add(&two, half, "Decode(1)||Decode(2)", T(D(1, 0)), T(D(2, 0)))
	add(&two, half, "Excl(1)||Decode(2)", T(X(1, 0)), T(D(2, 0)))

	// --- a loop of alias objects
	loop := mk("alias loop 1->2->1", 2, true)
	loop.next[1] = 2
	loop.next[2] = 1
	loop.build()
	add(&two, loop, "Decode(1)||Decode(2)", T(D(1, 0)), T(D(2, 0)))
	add(&two, loop, "Excl(1)||Excl(1)", T(X(1, 0)), T(X(1, 0)))

	// --- the documented use of DecodeExclusive: page decoders (objects 1, 2)
	// decode their widget (4, 5) and then the form (3) exclusively with a fresh
	// cursor; the form decoder walks the widgets
	form := mk("pages+form", 5, true)
	form.body[[2]int{1, 0}] = T(Dc(4, 1), X(3, 0))
	form.body[[2]int{2, 0}] = T(Dc(5, 1), X(3, 0))
	form.body[[2]int{3, 0}] = T(Dc(4, 1), Dc(5, 1))
	form.build()
	// (more than 400 000 schedules: sampled in both tiers)
	add(&three, form, "Decode(page1)||Decode(page2) (2 goroutines, sampled)", T(D(1, 0)), T(D(2, 0)))

	// --- control: DecodeExclusive used against its documentation (the decoder
	// of 1 exclusively decodes 2 and vice versa) - the model predicts the
	// deadlocks the implementation shows
	nosink := mk("non-sink control", 2, false)
	nosink.body[[2]int{1, 0}] = T(X(2, 0))
	nosink.body[[2]int{2, 0}] = T(X(1, 0))
	nosink.build()
	add(&two, nosink, "Excl(1)||Excl(2)", T(X(1, 0)), T(X(2, 0)))

	// --- an over-deep chain (sequential: the depth limit, and a cache hit masking it)
	deep := mk("chain of 260", 260, true)
	for i := 1; i < 260; i++ {
		deep.next[i] = i + 1
	}
	deep.build()
	add(&two, deep, "Decode(1) alone", T(D(1, 0)))
	add(&two, deep, "Decode(10);Decode(1) alone", T(D(10, 0), D(1, 0)))
	add(&two, deep, "Decode(4) alone: 257 references, one too many", T(D(4, 0)))
	add(&two, deep, "Decode(5) alone: 256 references, just allowed", T(D(5, 0)))

	// --- three goroutines (sampled)
	add(&three, chain, "Decode(1)||Decode(2)||Decode(2)", T(D(1, 0)), T(D(2, 0)), T(D(2, 0)))
	add(&three, single, "Excl||Excl||Excl", T(X(1, 0)), T(X(1, 0)), T(X(1, 0)))
	add(&three, single, "Excl||Decode||Pair", T(X(1, 0)), T(D(1, 0)), T(P(1, 0, 1)))
	add(&three, chain, "Excl(1)||Excl(2)||Decode(1)", T(X(1, 0)), T(X(2, 0)), T(D(1, 0)))
	add(&three, mutual, "Decode(1)||Decode(2)||Excl(1)", T(D(1, 0)), T(D(2, 0)), T(X(1, 0)))
	add(&three, failing, "Excl||Excl||Excl", T(X(1, 0)), T(X(1, 0)), T(X(1, 0)))
	add(&three, form, "page1||page2||form", T(D(1, 0)), T(D(2, 0)), T(X(3, 0)))
	add(&three, nilres, "Excl||Excl||Decode", T(X(1, 2)), T(X(1, 2)), T(D(1, 2)))
	add(&three, single, "Excl(T0)||Excl(T1)||Excl(T1)", T(X(1, 0)), T(X(1, 1)), T(X(1, 1)))
	return two, three
}
