package main

// C18: independent Readers/Writers do not interfere through package-level state
// - the ERROR values.  A deterministic oracle: a catalogue of failing calls
// (object-stream member read with canObjStm=false, /Filter in an object stream,
// wrong type, reference loop, over-deep chain, unknown filter, corrupt Flate
// data, corrupt object, invalid date, ...) is run
//
//	1. on Reader A alone, three times each,
//	2. on Reader B (a different file, different object numbers) alone,
//	3. interleaved A, B, A, B, ... ,
//
// and every call's observation - err.Error() TEXT, IsMalformed, errors.Is for
// the exported sentinels, the chain of dynamic types and the location list of
// the *MalformedFileError - must equal that call's run-alone observation.  An
// error value shared at package level and modified in place (pdf.Wrap appends to
// MalformedFileError.Loc) shows as a text that grows from call to call.
//
// staticSentinels is a diagnostic scan (go/ast) for package-level variables that
// hold a *MalformedFileError: candidates for exactly that defect.

import (
	"bytes"
	"errors"
	"fmt"
	"go/ast"
	"go/parser"
	"go/token"
	"io"
	"io/fs"
	"os"
	"path/filepath"
	"sort"
	"strings"

	"seehuhn.de/go/pdf"
	"seehuhn.de/go/pdf/internal/debug/memfile"
	"seehuhn.de/go/pdf/verifharness/common"
)

type errFile struct {
	rd       *pdf.Reader
	w        *pdf.Writer // a Writer that is still open (its own get path)
	wMember  pdf.Reference
	member   pdf.Reference // lives in an object stream
	dict     pdf.Reference
	integer  pdf.Reference
	loop     pdf.Reference
	deep     pdf.Reference
	badDate  pdf.Reference
	corrupt  pdf.Reference
	unknownF *pdf.Stream
	badFlate *pdf.Stream
	inObjStm *pdf.Stream
}

func buildErrFile(skip int) *errFile {
	f := &errFile{}
	buf := &bytes.Buffer{}
	w, err := pdf.NewWriter(buf, pdf.V1_7, nil)
	must := func(err error) {
		if err != nil {
			panic(err)
		}
	}
	must(err)
	for i := 0; i < skip; i++ {
		w.Alloc()
	}
	f.member = w.Alloc()
	must(w.WriteCompressed([]pdf.Reference{f.member}, pdf.Name("ASCIIHexDecode")))
	f.dict = w.Alloc()
	must(w.Put(f.dict, pdf.Dict{"ID": pdf.Integer(1)}))
	f.integer = w.Alloc()
	must(w.Put(f.integer, pdf.Integer(7)))
	a, b := w.Alloc(), w.Alloc()
	must(w.Put(a, b))
	must(w.Put(b, a))
	f.loop = a
	refs := make([]pdf.Reference, 261)
	for i := range refs {
		refs[i] = w.Alloc()
	}
	for i := 0; i < 260; i++ {
		must(w.Put(refs[i], refs[i+1]))
	}
	must(w.Put(refs[260], pdf.Dict{"ID": pdf.Integer(2)}))
	f.deep = refs[0]
	f.badDate = w.Alloc()
	must(w.Put(f.badDate, pdf.String("not a date")))
	f.corrupt = w.Alloc()
	must(w.Put(f.corrupt, pdf.Dict{"K": pdf.String("CORRUPTME"), "L": pdf.Integer(1)}))
	pages := w.Alloc()
	must(w.Put(pages, pdf.Dict{"Type": pdf.Name("Pages"), "Kids": pdf.Array{}, "Count": pdf.Integer(0)}))
	w.GetMeta().Catalog.Pages = pages
	must(w.Close())
	data := buf.Bytes()
	// damage the object with the marker: its dictionary is never closed
	if i := bytes.Index(data, []byte("CORRUPTME")); i >= 0 {
		if j := bytes.Index(data[i:], []byte(">>")); j >= 0 {
			data[i+j], data[i+j+1] = '(', '('
		}
	}
	f.rd, err = pdf.NewReader(bytes.NewReader(data), int64(len(data)), nil)
	must(err)
	f.unknownF = pdf.NewStream(pdf.Dict{"Filter": pdf.Name("NoSuchFilter")}, []byte("abc"))
	f.badFlate = pdf.NewStream(pdf.Dict{"Filter": pdf.Name("FlateDecode")}, []byte("this is not zlib data at all, really not"))
	f.inObjStm = pdf.NewStream(pdf.Dict{"Filter": f.member}, []byte("41>"))

	// an open Writer with an object-stream member of its own
	f.w, err = pdf.NewWriter(memfile.New(), pdf.V1_7, nil)
	must(err)
	for i := 0; i < skip+3; i++ {
		f.w.Alloc()
	}
	f.wMember = f.w.Alloc()
	must(f.w.WriteCompressed([]pdf.Reference{f.wMember}, pdf.Dict{"W": pdf.Integer(1)}))
	return f
}

type errCall struct {
	name string
	sig  string // "" = error-interference
	run  func(f *errFile) error
}

func readAll(g pdf.Getter, s *pdf.Stream) error {
	r, err := pdf.DecodeStream(g, nil, s)
	if err != nil {
		return err
	}
	_, err = io.ReadAll(r)
	cerr := r.Close()
	if err == nil {
		err = cerr
	}
	return err
}

var errCatalogue = []errCall{
	{"Reader.Get(object-stream member, canObjStm=false)", "", func(f *errFile) error { _, err := f.rd.Get(f.member, false); return err }},
	{"DecodeStream(/Filter is a reference into an object stream)", "", func(f *errFile) error { return readAll(f.rd, f.inObjStm) }},
	{"Writer.Get(object-stream member, canObjStm=false)", "", func(f *errFile) error { _, err := f.w.Get(f.wMember, false); return err }},
	{"Cursor.Integer(dictionary)", "", func(f *errFile) error { _, err := pdf.NewCursor(f.rd).Integer(f.dict); return err }},
	{"Cursor.Dict(integer)", "", func(f *errFile) error { _, err := pdf.NewCursor(f.rd).Dict(f.integer); return err }},
	{"Cursor.Resolve(reference loop)", "", func(f *errFile) error { _, err := pdf.NewCursor(f.rd).Resolve(f.loop); return err }},
	{"Decode(reference loop)", "", func(f *errFile) error {
		_, err := pdf.Decode(pdf.NewCursor(f.rd), f.loop, func(c pdf.Cursor, o pdf.Object, d bool) (*thingA, error) { return &thingA{}, nil })
		return err
	}},
	{"Cursor.Resolve(chain of 260 references)", "", func(f *errFile) error { _, err := pdf.NewCursor(f.rd).Resolve(f.deep); return err }},
	{"DecodeStream(unknown filter)", "", func(f *errFile) error { return readAll(f.rd, f.unknownF) }},
	{"DecodeStream(corrupt Flate data)", "", func(f *errFile) error { return readAll(f.rd, f.badFlate) }},
	{"Reader.Get(corrupt object)", "", func(f *errFile) error { _, err := f.rd.Get(f.corrupt, true); return err }},
	{"Cursor.Array(corrupt object)", "", func(f *errFile) error { _, err := pdf.NewCursor(f.rd).Array(f.corrupt); return err }},
	{"Reader.Get(unallocated object)", "", func(f *errFile) error { _, err := f.rd.Get(pdf.NewReference(9999, 0), true); return err }},
	{"Cursor.Date(invalid date string)", "", func(f *errFile) error { _, err := pdf.NewCursor(f.rd).Date(f.badDate); return err }},
	{"Cursor.Rectangle(integer)", "", func(f *errFile) error { _, err := pdf.NewCursor(f.rd).Rectangle(f.integer); return err }},
	// the caller adds its location with the exported pdf.Wrap, as the library's own decoders do
	{"Cursor.Date(invalid date string), wrapped by the caller with pdf.Wrap", "", func(f *errFile) error {
		_, err := pdf.NewCursor(f.rd).Date(f.badDate)
		return pdf.Wrap(err, "ModDate")
	}},
	// the sentinel reached through fmt.Errorf("%w") before the caller-side Wrap
	{"Cursor.Date(invalid date string), wrapped with fmt.Errorf(%w) and then with pdf.Wrap", "", func(f *errFile) error {
		_, err := pdf.NewCursor(f.rd).Date(f.badDate)
		return pdf.Wrap(fmt.Errorf("info dict: %w", err), "ModDate")
	}},
	{"Reader.Get(object-stream member, false), wrapped by the caller with pdf.Wrap", "", func(f *errFile) error {
		_, err := f.rd.Get(f.member, false)
		return pdf.Wrap(err, "Filter")
	}},
}

func observeErr(err error) string {
	if err == nil {
		return "<nil>"
	}
	var chain []string
	for e := err; e != nil; e = errors.Unwrap(e) {
		chain = append(chain, fmt.Sprintf("%T", e))
		if len(chain) > 12 {
			break
		}
	}
	loc := "-"
	var m *pdf.MalformedFileError
	if errors.As(err, &m) {
		loc = strings.Join(m.Loc, "|")
	}
	return fmt.Sprintf("text=%q malformed=%v cycle=%v depth=%v types=%s loc=%q",
		err.Error(), pdf.IsMalformed(err), errors.Is(err, pdf.ErrCycle), errors.Is(err, pdf.ErrDepth), strings.Join(chain, ">"), loc)
}

func runErrCall(c errCall, f *errFile) (obs string) {
	defer func() {
		if r := recover(); r != nil {
			obs = fmt.Sprintf("PANIC %v", r)
		}
	}()
	return observeErr(c.run(f))
}

// errPhase: the deterministic cross-Reader oracle for error values
func errPhase(e *common.Env) map[string]any {
	fa, fb := buildErrFile(0), buildErrFile(5)
	nfail := 0
	failed := map[string]bool{}
	report := func(c errCall, who, phase, alone, got string) {
		if failed[c.name] {
			return
		}
		failed[c.name] = true
		nfail++
		sig := c.sig
		if sig == "" {
			sig = "error-interference"
		}
		e.Fail(sig, fmt.Sprintf("%s on Reader %s returns a different error %s than it returned when it first ran alone: the error value is shared package-level state", c.name, who, phase),
			map[string]any{"call": c.name, "reader": who, "phase": phase, "alone": alone, "now": got})
	}
	baseA := make([]string, len(errCatalogue))
	baseB := make([]string, len(errCatalogue))
	nerr := 0
	for i, c := range errCatalogue {
		if c.sig != "" {
			continue // entries that reproduce a listed finding run last, so that they cannot disturb the others
		}
		baseA[i] = runErrCall(c, fa)
		if baseA[i] != "<nil>" {
			nerr++
		}
		for rep := 1; rep < 3; rep++ {
			if got := runErrCall(c, fa); got != baseA[i] {
				report(c, "A", fmt.Sprintf("when repeated (call %d, no other Reader involved)", rep+1), baseA[i], got)
			}
		}
		e.Count(true, "err:"+c.name, "errors: failing call alone x3, then interleaved with a second Reader")
	}
	for i, c := range errCatalogue {
		if c.sig != "" {
			continue
		}
		baseB[i] = runErrCall(c, fb)
		for rep := 1; rep < 3; rep++ {
			if got := runErrCall(c, fb); got != baseB[i] {
				report(c, "B", fmt.Sprintf("when repeated (call %d)", rep+1), baseB[i], got)
			}
		}
	}
	for rep := 0; rep < 3; rep++ {
		for i, c := range errCatalogue {
			if c.sig != "" {
				continue
			}
			if got := runErrCall(c, fa); got != baseA[i] {
				report(c, "A", "after calls on the independent Reader B", baseA[i], got)
			}
			if got := runErrCall(c, fb); got != baseB[i] {
				report(c, "B", "after calls on the independent Reader A", baseB[i], got)
			}
		}
	}
	for i, c := range errCatalogue {
		if c.sig == "" {
			continue
		}
		baseA[i] = runErrCall(c, fa)
		nerr++
		e.Count(true, "err:"+c.name, "errors: failing call alone x3, then interleaved with a second Reader")
		if got := runErrCall(c, fb); got != baseA[i] {
			report(c, "B", "after the same call on the independent Reader A", baseA[i], got)
		}
		if got := runErrCall(c, fa); got != baseA[i] {
			report(c, "A", "when repeated", baseA[i], got)
		}
	}
	var sample []string
	for i, c := range errCatalogue {
		if i < 4 {
			sample = append(sample, c.name+" => "+baseA[i])
		}
	}
	e.Sample(8, map[string]any{"error_catalogue_sample": sample})
	return map[string]any{"error_calls": len(errCatalogue), "error_calls_that_fail": nerr, "error_interference_failures": nfail,
		"shared_malformed_error_sentinels (diagnostic static scan)": staticSentinels()}
}

// errMix runs the catalogue on a Reader of its own (used from several goroutines at once in the -race mix)
func errMix(id, rounds int, fail func(format string, a ...any)) int {
	f := buildErrFile(id)
	base := make([]string, len(errCatalogue))
	for i, c := range errCatalogue {
		if c.sig == "" { // the entries that reproduce a listed finding are left to errPhase
			base[i] = runErrCall(c, f)
		}
	}
	n := 0
	for r := 0; r < rounds; r++ {
		for i, c := range errCatalogue {
			n++
			if c.sig != "" {
				continue
			}
			if got := runErrCall(c, f); got != base[i] {
				fail("independent: %s on a Reader of its own returns %s, its first result was %s", c.name, got, base[i])
				return n
			}
		}
	}
	return n
}

// staticSentinels lists package-level variables of the library that hold a *pdf.MalformedFileError
func staticSentinels() []string {
	root := os.Getenv("VERIF_REPO")
	if root == "" {
		root = "/repo"
	}
	var res []string
	fset := token.NewFileSet()
	isMal := func(x ast.Expr) bool {
		switch v := x.(type) {
		case *ast.CallExpr:
			name := ""
			switch fn := v.Fun.(type) {
			case *ast.Ident:
				name = fn.Name
			case *ast.SelectorExpr:
				if id, ok := fn.X.(*ast.Ident); ok && id.Name == "pdf" {
					name = fn.Sel.Name
				}
			}
			return name == "Error" || name == "Errorf"
		case *ast.UnaryExpr:
			if cl, ok := v.X.(*ast.CompositeLit); ok && v.Op == token.AND {
				switch t := cl.Type.(type) {
				case *ast.Ident:
					return t.Name == "MalformedFileError"
				case *ast.SelectorExpr:
					return t.Sel.Name == "MalformedFileError"
				}
			}
		}
		return false
	}
	filepath.WalkDir(root, func(path string, d fs.DirEntry, err error) error {
		if err != nil {
			return nil
		}
		if d.IsDir() {
			n := d.Name()
			if path != root && (strings.HasPrefix(n, ".") || n == "testdata" || n == "examples" || n == "viewer-tests") {
				return filepath.SkipDir
			}
			return nil
		}
		if !strings.HasSuffix(path, ".go") || strings.HasSuffix(path, "_test.go") {
			return nil
		}
		src, err := os.ReadFile(path)
		if err != nil || !bytes.Contains(src, []byte("Error")) {
			return nil
		}
		file, err := parser.ParseFile(fset, path, src, parser.SkipObjectResolution)
		if err != nil {
			return nil
		}
		for _, decl := range file.Decls {
			gd, ok := decl.(*ast.GenDecl)
			if !ok || gd.Tok != token.VAR {
				continue
			}
			for _, sp := range gd.Specs {
				vs := sp.(*ast.ValueSpec)
				for i, v := range vs.Values {
					if i < len(vs.Names) && isMal(v) {
						rel, _ := filepath.Rel(root, path)
						res = append(res, rel+": "+vs.Names[i].Name)
					}
				}
			}
		}
		return nil
	})
	sort.Strings(res)
	return res
}
