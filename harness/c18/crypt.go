package main

// C18: the concurrent workload over every reader configuration that has
// per-call derived state: encrypted files of every cipher the Writer produces
// (RC4-40, RC4-128, AESV2, AESV3; per-object keys are derived for every string
// and stream), cross-reference tables and streams, object streams, and the three
// error-handling modes of the Reader.
//
// For every configuration the file is read sequentially first (and compared with
// what was written); then six goroutines read all objects at the same time -
// Reader.Get of dictionaries with encrypted strings, DecodeStream of encrypted
// and compressed streams, members of object streams - in different orders from
// three Readers (one per error-handling mode) plus one shared Reader, and every
// concurrent result must equal the sequential one.  In the -race build the race
// detector judges the same runs.  Under the plain Go scheduler this is a TEST
// over sampled interleavings.

import (
	"bytes"
	"crypto/sha256"
	"fmt"
	"io"
	"sync"

	"seehuhn.de/go/pdf"
	"seehuhn.de/go/pdf/verifharness/common"
)

type cryptCfg struct {
	name      string
	v         pdf.Version
	human     bool
	encrypted bool
}

var cryptCfgs = []cryptCfg{
	{"RC4, 40-bit key (PDF 1.3, V=1 R=2), cross-reference table", pdf.V1_3, false, true},
	{"RC4, 40-bit key (PDF 1.3), human-readable", pdf.V1_3, true, true},
	{"RC4, 128-bit key (PDF 1.4, V=2 R=3), cross-reference table", pdf.V1_4, false, true},
	{"RC4, 128-bit key (PDF 1.5), cross-reference stream + object streams", pdf.V1_5, false, true},
	{"AESV2 (PDF 1.7, V=4 R=4), cross-reference stream + object streams", pdf.V1_7, false, true},
	{"AESV2 (PDF 1.7), human-readable: cross-reference table, no object streams", pdf.V1_7, true, true},
	{"AESV3 (PDF 2.0, V=5 R=6), cross-reference stream + object streams", pdf.V2_0, false, true},
	{"no encryption (PDF 1.7), cross-reference stream + object streams", pdf.V1_7, false, false},
}

type cryptFile struct {
	data []byte
	refs []pdf.Reference
	want []string // rendering of what was written
}

func cryptText(i, n int) []byte {
	var b bytes.Buffer
	for k := 0; b.Len() < n; k++ {
		fmt.Fprintf(&b, "object %d line %d: %d\n", i, k, (i*7919+k*104729)%9973)
	}
	return b.Bytes()[:n]
}

func renderWritten(i int, isStream bool) string {
	s := fmt.Sprintf("S=%q T=%q", cryptText(i, 20+3*i), cryptText(i+100, 7+i))
	if isStream {
		s += fmt.Sprintf(" data=%x", sha256.Sum256(cryptText(i+200, 2500+97*i)))
	}
	return s
}

func buildCryptFile(cfg cryptCfg) (*cryptFile, error) {
	f := &cryptFile{}
	buf := &bytes.Buffer{}
	opt := &pdf.WriterOptions{HumanReadable: cfg.human}
	if cfg.encrypted {
		opt.OwnerPassword = "owner"
		opt.UserPermissions = pdf.PermAll
	}
	w, err := pdf.NewWriter(buf, cfg.v, opt)
	if err != nil {
		return nil, err
	}
	const n = 12
	var crefs []pdf.Reference
	var cobjs []pdf.Object
	for i := 0; i < n; i++ {
		ref := w.Alloc()
		f.refs = append(f.refs, ref)
		d := pdf.Dict{"S": pdf.String(cryptText(i, 20+3*i)), "T": pdf.String(cryptText(i+100, 7+i))}
		switch i % 3 {
		case 0:
			f.want = append(f.want, renderWritten(i, true))
			var filters []pdf.Filter
			if i%2 == 0 {
				filters = append(filters, pdf.FilterFlate{})
			}
			out, err := w.OpenStream(ref, d, filters...)
			if err != nil {
				return nil, err
			}
			if _, err := out.Write(cryptText(i+200, 2500+97*i)); err != nil {
				return nil, err
			}
			if err := out.Close(); err != nil {
				return nil, err
			}
		case 1:
			f.want = append(f.want, renderWritten(i, false))
			if err := w.Put(ref, d); err != nil {
				return nil, err
			}
		default:
			f.want = append(f.want, renderWritten(i, false))
			if cfg.v >= pdf.V1_5 && !cfg.human {
				crefs = append(crefs, ref)
				cobjs = append(cobjs, d)
			} else if err := w.Put(ref, d); err != nil {
				return nil, err
			}
		}
	}
	if len(crefs) > 0 {
		if err := w.WriteCompressed(crefs, cobjs...); err != nil {
			return nil, err
		}
	}
	pages := w.Alloc()
	if err := w.Put(pages, pdf.Dict{"Type": pdf.Name("Pages"), "Kids": pdf.Array{}, "Count": pdf.Integer(0)}); err != nil {
		return nil, err
	}
	w.GetMeta().Catalog.Pages = pages
	if err := w.Close(); err != nil {
		return nil, err
	}
	f.data = buf.Bytes()
	return f, nil
}

// renderRead: what a reader delivers for one object
func renderRead(rd *pdf.Reader, ref pdf.Reference) (res string) {
	defer func() {
		if r := recover(); r != nil {
			res = fmt.Sprintf("PANIC %v", r)
		}
	}()
	obj, err := rd.Get(ref, true)
	if err != nil {
		return "Get error: " + err.Error()
	}
	var d pdf.Dict
	var stm *pdf.Stream
	switch o := obj.(type) {
	case pdf.Dict:
		d = o
	case *pdf.Stream:
		d, stm = o.Dict, o
	default:
		return fmt.Sprintf("unexpected %T", obj)
	}
	s, _ := d["S"].(pdf.String)
	t, _ := d["T"].(pdf.String)
	out := fmt.Sprintf("S=%q T=%q", []byte(s), []byte(t))
	if stm != nil {
		r, err := pdf.DecodeStream(rd, nil, stm)
		if err != nil {
			return out + " DecodeStream error: " + err.Error()
		}
		data, err := io.ReadAll(r)
		r.Close()
		if err != nil {
			return out + " read error: " + err.Error()
		}
		out += fmt.Sprintf(" data=%x", sha256.Sum256(data))
	}
	return out
}

func cryptPhase(e *common.Env, passes int) map[string]any {
	nfail, nops := 0, 0
	modes := []pdf.ReaderErrorHandling{pdf.ErrorHandlingRecover, pdf.ErrorHandlingReport, pdf.ErrorHandlingStop}
	for _, cfg := range cryptCfgs {
		f, err := buildCryptFile(cfg)
		if err != nil {
			nfail++
			e.Fail("concurrent-read", fmt.Sprintf("%s: the file cannot be written: %v", cfg.name, err), map[string]any{"config": cfg.name})
			continue
		}
		var readers []*pdf.Reader
		for _, m := range modes {
			rd, err := pdf.NewReader(bytes.NewReader(f.data), int64(len(f.data)), &pdf.ReaderOptions{ErrorHandling: m})
			if err != nil {
				nfail++
				e.Fail("concurrent-read", fmt.Sprintf("%s: the file cannot be opened (error handling mode %d): %v", cfg.name, m, err), map[string]any{"config": cfg.name})
				break
			}
			readers = append(readers, rd)
		}
		if len(readers) < len(modes) {
			continue
		}
		// sequential: every reader alone
		seq := make([]string, len(f.refs))
		bad := ""
		for ri, rd := range readers {
			for i, ref := range f.refs {
				got := renderRead(rd, ref)
				nops++
				if ri == 0 {
					seq[i] = got
				}
				if got != f.want[i] && bad == "" {
					bad = fmt.Sprintf("read sequentially (error handling mode %d), object %d is %.120s, written was %.120s", ri, i, got, f.want[i])
				}
			}
		}
		if bad != "" {
			nfail++
			e.Fail("concurrent-read", cfg.name+": "+bad, map[string]any{"config": cfg.name, "phase": "sequential"})
			continue
		}
		// concurrent: 6 goroutines, readers[g%3]; goroutines 0..2 and 3..5 share a Reader pairwise
		var mu sync.Mutex
		var problems []string
		var wg sync.WaitGroup
		start := make(chan struct{})
		const G = 6
		for g := 0; g < G; g++ {
			wg.Add(1)
			go func(g int) {
				defer wg.Done()
				rd := readers[g%len(readers)]
				<-start
				for p := 0; p < passes; p++ {
					for k := range f.refs {
						i := (k*(g+1) + g + p) % len(f.refs)
						if g%2 == 1 {
							i = len(f.refs) - 1 - i
						}
						if got := renderRead(rd, f.refs[i]); got != seq[i] {
							mu.Lock()
							if len(problems) < 5 {
								problems = append(problems, fmt.Sprintf("goroutine %d, pass %d: object %d read concurrently is %.160s; read alone it is %.160s", g, p, i, got, seq[i]))
							}
							mu.Unlock()
							return
						}
					}
				}
			}(g)
		}
		close(start)
		wg.Wait()
		nops += G * passes * len(f.refs)
		e.Count(true, "crypt:"+cfg.name, "concurrent reads of one file: 6 goroutines x 3 error-handling modes, compared with the sequential result")
		if len(problems) > 0 {
			nfail++
			e.Fail("concurrent-read", cfg.name+": "+problems[0], map[string]any{"config": cfg.name, "phase": "6 goroutines reading all objects at once", "problems": problems})
		}
	}
	return map[string]any{"configurations": len(cryptCfgs), "reads": nops, "passes_per_goroutine": passes, "failures": nfail}
}
