// Package common holds what every property harness shares: the single seeded
// random source, the output directory protocol (cases, observations, failing
// cases, statistics) and small encoders for the text wire format.
package common

import (
	"bufio"
	"crypto/sha256"
	"encoding/hex"
	"encoding/json"
	"fmt"
	"math/rand/v2"
	"os"
	"path/filepath"
	"strconv"
	"strings"
)

// Env is the run context of a harness invocation.
type Env struct {
	Seed     uint64
	Thorough bool
	Dir      string
	Rand     *rand.Rand

	files map[string]*bufio.Writer
	raw   []*os.File

	Evaluations int
	distinct    map[[16]byte]struct{}
	Samples     []any
	Dist        map[string]int
	nfail       int
}

// New reads VERIF_SEED / VERIF_TIER and uses the current directory for output.
func New(stream uint64) *Env {
	seed, _ := strconv.ParseUint(os.Getenv("VERIF_SEED"), 10, 64)
	if seed == 0 {
		seed = 1
	}
	dir := "."
	if len(os.Args) > 2 && os.Args[1] == "-dir" {
		dir = os.Args[2]
	}
	return &Env{
		Seed:     seed,
		Thorough: os.Getenv("VERIF_TIER") == "thorough",
		Dir:      dir,
		Rand:     rand.New(rand.NewPCG(seed, stream)),
		files:    map[string]*bufio.Writer{},
		distinct: map[[16]byte]struct{}{},
		Dist:     map[string]int{},
	}
}

// Pick returns quick or thorough depending on the tier.
func (e *Env) Pick(quick, thorough int) int {
	if e.Thorough {
		return thorough
	}
	return quick
}

func (e *Env) out(name string) *bufio.Writer {
	if w, ok := e.files[name]; ok {
		return w
	}
	f, err := os.Create(filepath.Join(e.Dir, name))
	if err != nil {
		panic(err)
	}
	e.raw = append(e.raw, f)
	w := bufio.NewWriterSize(f, 1<<20)
	e.files[name] = w
	return w
}

// Line writes one line to the named output file.
func (e *Env) Line(name string, format string, a ...any) {
	fmt.Fprintf(e.out(name), format+"\n", a...)
}

// Count records one evaluated case; nontrivial cases are counted once per
// distinct key.
func (e *Env) Count(nontrivial bool, key string, class string) {
	e.Evaluations++
	if class != "" {
		e.Dist[class]++
	}
	if nontrivial {
		h := sha256.Sum256([]byte(key))
		var k [16]byte
		copy(k[:], h[:16])
		e.distinct[k] = struct{}{}
	}
}

// Sample keeps up to n cases for the evidence file.
func (e *Env) Sample(n int, v any) {
	if len(e.Samples) < n {
		e.Samples = append(e.Samples, v)
	}
}

// Fail records a concrete failing input of the property on the implementation.
func (e *Env) Fail(signature, what string, c any) {
	e.nfail++
	if e.nfail > 200 {
		return
	}
	b, _ := json.Marshal(map[string]any{"signature": signature, "what": what, "case": c})
	e.Line("fails.jsonl", "%s", b)
}

// Finish writes stats.json and flushes everything.
func (e *Env) Finish(rule string, extra map[string]any) {
	st := map[string]any{
		"evaluations":         e.Evaluations,
		"distinct_nontrivial": len(e.distinct),
		"rule":                rule,
		"samples":             e.Samples,
		"input_distribution":  e.Dist,
		"impl_failing_cases":  e.nfail,
	}
	for k, v := range extra {
		st[k] = v
	}
	b, _ := json.MarshalIndent(st, "", " ")
	if err := os.WriteFile(filepath.Join(e.Dir, "stats.json"), b, 0o644); err != nil {
		panic(err)
	}
	e.out("fails.jsonl") // make sure the file exists
	for _, w := range e.files {
		w.Flush()
	}
	for _, f := range e.raw {
		f.Close()
	}
}

// Hex encodes a byte string for the wire ("-" for empty).
func Hex(b []byte) string {
	if len(b) == 0 {
		return "-"
	}
	return hex.EncodeToString(b)
}

// UnHex decodes a wire byte string.
func UnHex(s string) []byte {
	if s == "-" {
		return nil
	}
	b, err := hex.DecodeString(s)
	if err != nil {
		panic(err)
	}
	return b
}

// ReadLines reads a file of `<id> <fields...>` lines.
func ReadLines(path string) [][]string {
	f, err := os.Open(path)
	if err != nil {
		panic(err)
	}
	defer f.Close()
	var res [][]string
	sc := bufio.NewScanner(f)
	sc.Buffer(make([]byte, 1<<20), 1<<28)
	for sc.Scan() {
		fs := strings.Fields(sc.Text())
		if len(fs) > 0 {
			res = append(res, fs)
		}
	}
	return res
}
