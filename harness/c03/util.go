package main

import (
	"bytes"
	"io"

	"seehuhn.de/go/pdf"
)

func newBytesReader(b []byte) *bytes.Reader { return bytes.NewReader(b) }

// rawStreams lists (raw, decoded) for the stream objects among refs whose decoding needs go-pdf's filters.
func rawStreams(r *pdf.Reader, refs []pdf.Reference) [][2][]byte {
	var res [][2][]byte
	for _, ref := range refs {
		obj, err := r.Get(ref, true)
		if err != nil || obj == nil {
			continue
		}
		stm, ok := obj.(*pdf.Stream)
		if !ok || stm.Dict["Filter"] == nil {
			continue // unfiltered: its own decoding; the table is keyed by raw bytes and must not be ambiguous
		}
		raw, _ := io.ReadAll(stm.NewReader())
		rd, err := pdf.DecodeStream(r, nil, stm)
		if err != nil {
			continue
		}
		dec, err := io.ReadAll(rd)
		if err != nil {
			continue
		}
		res = append(res, [2][]byte{raw, dec})
	}
	return res
}
