package main

import (
	"bytes"
	"io"

	"seehuhn.de/go/pdf"
)

func newBytesReader(b []byte) *bytes.Reader { return bytes.NewReader(b) }

// rawStreams lists (raw, decoded) for every stream object the reader delivers.
func rawStreams(r *pdf.Reader, data []byte, maxNum uint32) [][2][]byte {
	var res [][2][]byte
	for n := uint32(1); n <= maxNum; n++ {
		for g := uint16(0); g < 3; g++ {
			obj, err := r.Get(pdf.NewReference(n, g), true)
			if err != nil || obj == nil {
				continue
			}
			stm, ok := obj.(*pdf.Stream)
			if !ok {
				continue
			}
			raw, _ := io.ReadAll(stm.NewReader())
			rd, err := pdf.DecodeStream(r, nil, stm)
			if err != nil {
				continue
			}
			dec, err := io.ReadAll(rd)
			if err != nil {
				continue
			}
			res = append(res, [2][]byte{raw, dec})
		}
	}
	return res
}
