// C03 harness: every file the real Writer produces goes through the extracted
// strict validator (build/ocaml/C03/driver.exe); this program produces the
// files, the oracle tables for compressed / encrypted stream data (Go's
// compress/zlib, and go-pdf's own decoders only where other filters or a cipher
// are involved) and the expected observations (what was written).
//
//	c03                 real files -> cases.txt, impl.obs, progs.txt (programs for the model writer), expect_m.txt
//	c03 -oracle f       f: "<id> <hex>" files written by the model writer -> cases2.txt, impl2.obs
package main

import (
	"bufio"
	"fmt"
	"os"
	"sort"
	"strings"

	"seehuhn.de/go/pdf"
	"seehuhn.de/go/pdf/verifharness/c02/prog"
	"seehuhn.de/go/pdf/verifharness/common"
)

func expected(res *prog.Result, rb *prog.ReadBack, mask bool) (qs []pdf.Reference, obs map[pdf.Reference]string, meta string) {
	obs = map[pdf.Reference]string{}
	want := map[pdf.Reference]*prog.Want{}
	for k, v := range res.Want {
		want[k] = v
	}
	// the catalog and info objects: their numbers are the writer's choice; take them from the
	// real Reader if it opened the file (they are then also checked against the validator's trailer)
	root, info := "-", "-"
	if rb.OpenErr == nil {
		if rb.Root != 0 {
			want[rb.Root] = &prog.Want{Obj: prog.Norm(res.CatDict)}
			root = fmt.Sprintf("%d.%d", rb.Root.Number(), rb.Root.Generation())
		}
		if rb.InfoRef != 0 && res.InfoDict != nil {
			want[rb.InfoRef] = &prog.Want{Obj: prog.Norm(res.InfoDict)}
			info = fmt.Sprintf("%d.%d", rb.InfoRef.Number(), rb.InfoRef.Generation())
		}
	}
	ids := "-"
	if len(res.ID) == 2 {
		ids = common.Hex(res.ID[0]) + "," + common.Hex(res.ID[1])
	}
	meta = fmt.Sprintf("meta %d root=%s info=%s id=%s", res.Cfg.VIdx, root, info, ids)
	seen := map[pdf.Reference]bool{}
	add := func(ref pdf.Reference) {
		if seen[ref] {
			return
		}
		seen[ref] = true
		w := want[ref]
		switch {
		case w == nil && res.UnsureRefs[ref]:
			// a Put under a number picked blindly was refused: the number may belong to an object
			// the Writer made for itself (an indirect /Length)
			return
		case w == nil:
			obs[ref] = "null"
		case w.IsStream && w.KindOnly:
			// a chain only declared in the caller's dictionary that no reader decodes: no oracle for the data
			return
		case w.IsStream && rb.OpenErr != nil:
			// decoding filter chains is go-pdf's business (the oracle comes from its reader),
			// and the reader refused this file (F18)
			return
		case w.IsStream:
			obs[ref] = "T " + prog.WireString(w.Obj, mask) + " " + common.Hex(w.Data)
		case w.Obj == nil:
			obs[ref] = "null"
		default:
			obs[ref] = "V " + prog.WireString(w.Obj, mask)
		}
		qs = append(qs, ref)
	}
	var refs []pdf.Reference
	for ref := range want {
		refs = append(refs, ref)
	}
	for _, ref := range res.UserRefs {
		refs = append(refs, ref)
	}
	sort.Slice(refs, func(i, j int) bool { return refs[i] < refs[j] })
	for _, ref := range refs {
		add(ref)
	}
	// a wrong generation and an unknown number
	if len(refs) > 0 {
		r0 := refs[0]
		add(pdf.NewReference(r0.Number(), r0.Generation()+1))
		// a number nobody uses: beyond every user reference and every object the writer
		// allocates itself (fewer than two per operation)
		maxNum := uint32(0)
		for _, r := range refs {
			if r.Number() > maxNum {
				maxNum = r.Number()
			}
		}
		add(pdf.NewReference(maxNum+uint32(2*res.NOps)+50, 0))
	}
	return
}

func emitCase(line func(name, f string, a ...any), file string, id string, data []byte, enc bool, oracle [][2][]byte, qs []pdf.Reference) {
	e := 0
	if enc {
		e = 1
	}
	line(file, "%s F %d %s", id, e, common.Hex(data))
	seen := map[string]bool{}
	for _, o := range oracle {
		k := string(o[0])
		if seen[k] {
			continue
		}
		seen[k] = true
		line(file, "%s O %s %s", id, common.Hex(o[0]), common.Hex(o[1]))
	}
	for _, q := range qs {
		line(file, "%s Q %d %d", id, q.Number(), q.Generation())
	}
	line(file, "%s E", id)
}

func main() {
	if len(os.Args) > 2 && os.Args[1] == "-oracle" {
		oracle(os.Args[2])
		return
	}
	e := common.New(5)
	n := e.Pick(450, 6000)
	// planned programs behind the random ones: every filter chain pattern (length 1..8, every
	// pattern of filters with and without parameters) and every shape of a chain declared in the
	// caller's dictionary under 0, 1, 2 filters of OpenStream
	specials := prog.ChainSpecials()
	// ... and the sweeps along the reader's limits: whatever the Writer accepts there and closes
	// must be a valid file, with nothing left of the calls it refused
	for _, sp := range prog.LimitSpecials(e.Thorough) {
		if !sp.Plan.NoModel && (sp.Plan.Limit <= 5 || sp.Plan.Limit == 10) {
			specials = append(specials, sp)
		}
	}
	for i := 0; i < n+len(specials); i++ {
		id := fmt.Sprintf("f%d", i)
		k := i
		cfg := prog.Config{}
		cfg.VIdx = k % 9
		k /= 9
		cfg.HR = k%2 == 1
		k /= 2
		cfg.Seek = k%2 == 1
		k /= 2
		cfg.Encrypt = k%2 == 1
		if cfg.Encrypt && e.Rand.IntN(2) == 0 {
			cfg.UserPw = "u"
		}
		cfg.NumID = []int{0, 0, 1, 2}[e.Rand.IntN(4)]
		var plan prog.Plan
		switch r := e.Rand.IntN(40); {
		case r < 2 && i%5 == 0:
			plan.Sparse = true
			plan.SparseHigh = e.Thorough && e.Rand.IntN(6) == 0
		case r < 4:
			plan.ZeroCompressed = true
		case r < 8:
			plan.PreFilter = true
		case r < 10:
			plan.DeferredStream = true
		}
		if i < 4 {
			cfg = prog.Config{VIdx: 5 + i%4, Seek: i%2 == 0}
			plan = prog.Plan{Sparse: true, SparseHigh: i < 2, MaxOps: 1 + i%2}
		}
		if i >= 4 && i < 4+len(prog.BatchSizes)+3 {
			// every batch size in a plain program with several WriteCompressed calls, three of them
			// also after a high sparse object number
			j := i - 4
			cfg.VIdx = 5 + j%4
			cfg.HR = false
			plan = prog.Plan{Batch: prog.BatchSizes[j%len(prog.BatchSizes)], MaxOps: 4}
			if j >= len(prog.BatchSizes) {
				plan.Batch = []int{33, 101, 257}[j-len(prog.BatchSizes)]
				plan.Sparse, plan.SparseHigh = true, true
				if plan.Batch == 1000 {
					plan.Batch = 300
				}
			}
		}
		if i >= n {
			cfg, plan = specials[i-n].Cfg, specials[i-n].Plan
		}
		res := prog.Run(e.Rand, cfg, plan)
		if res.ErrIdx != -1 || res.File == nil {
			e.Count(false, "", "rejected-program")
			continue
		}
		rb := prog.Check(res)
		enc := cfg.Encrypt
		if enc && rb.OpenErr != nil {
			// the decryption oracle comes from go-pdf's reader, which refused this file (F18, a C02 finding)
			e.Count(false, "", "skipped:encrypted-file-refused-by-reader")
			continue
		}
		qs, obs, meta := expected(res, rb, enc)
		// streams whose decoding needs more than zlib (filter chains, ciphers): what go-pdf's
		// reader makes of them; everything that is a plain zlib stream: compress/zlib.  For a
		// body that is both, the two agree.
		orc := append([][2][]byte{}, rb.RawStreams...)
		orc = append(orc, prog.ZlibOracle(res.File)...)
		emitCase(e.Line, "cases.txt", id, res.File, enc, orc, qs)
		e.Line("impl.obs", "%s verdict ok", id)
		if rb.OpenErr == nil {
			e.Line("impl.obs", "%s %s", id, meta)
		}
		for _, q := range qs {
			e.Line("impl.obs", "%s.%d.%d %s", id, q.Number(), q.Generation(), obs[q])
		}
		if rb.OpenErr != nil {
			// the validator's meta line cannot be predicted without the reader: drop it from the comparison
			e.Line("nometa.txt", "%s", id)
		}
		// the same program for the model writer (no cipher in the model instance that is run)
		if !enc && !res.Sparse {
			e.Line("cases.txt", "%sm %s", id, res.CaseLine())
			e.Line("expect_m.txt", "%sm verdict ok", id)
			if rb.OpenErr == nil {
				e.Line("expect_m.txt", "%sm %s", id, meta)
			}
			for _, q := range qs {
				e.Line("expect_m.txt", "%sm.%d.%d %s", id, q.Number(), q.Generation(), obs[q])
			}
		}
		class := fmt.Sprintf("v%d hr=%v seek=%v cipher=%d", cfg.VIdx, cfg.HR, cfg.Seek, cfg.Cipher())
		e.Count(true, res.CaseLine(), class)
		e.Sample(3, map[string]any{"config": cfg.String(), "ops": res.Desc, "file_bytes": len(res.File), "oracle_entries": len(orc)})
	}
	e.Finish("one evaluation = one file produced by the real Writer and judged by the extracted validator (verdict, every written reference, trailer); nontrivial = distinct programs", nil)
}

// oracle builds validator cases for the files the model writer produced.
func oracle(path string) {
	expect := map[string][]string{}
	for _, fs := range common.ReadLines("expect_m.txt") {
		id := fs[0]
		if i := strings.IndexByte(id, '.'); i >= 0 {
			id = id[:i]
		}
		expect[id] = append(expect[id], strings.Join(fs, " "))
	}
	files := map[string]*bufio.Writer{}
	var raw []*os.File
	line := func(name, f string, a ...any) {
		w, ok := files[name]
		if !ok {
			fd, err := os.Create(name)
			if err != nil {
				panic(err)
			}
			raw = append(raw, fd)
			w = bufio.NewWriterSize(fd, 1<<20)
			files[name] = w
		}
		fmt.Fprintf(w, f+"\n", a...)
	}
	for _, fs := range common.ReadLines(path) {
		id := fs[0]
		data := common.UnHex(fs[1])
		var orc [][2][]byte
		var qs []pdf.Reference
		for _, l := range expect[id] {
			f := strings.Fields(l)
			parts := strings.Split(f[0], ".")
			if len(parts) == 3 {
				var n, g int
				fmt.Sscan(parts[1], &n)
				fmt.Sscan(parts[2], &g)
				qs = append(qs, pdf.NewReference(uint32(n), uint16(g)))
			}
			line("impl2.obs", "%s", l)
		}
		// other filters: go-pdf's decoders, through the real Reader
		if r, err := pdf.NewReader(newBytesReader(data), int64(len(data)), nil); err == nil {
			orc = append(orc, rawStreams(r, qs)...)
		}
		orc = append(orc, prog.ZlibOracle(data)...)
		emitCase(line, "cases2.txt", id, data, false, orc, qs)
	}
	for _, w := range files {
		w.Flush()
	}
	for _, f := range raw {
		f.Close()
	}
}
