package main

// Read side of C19: a fault-injecting io.ReaderAt, the operations run against
// it (open in the three error-handling modes, SequentialScan+MakeReader, Get of
// every object, DecodeStream drain, typed decodes, page tree walks), the
// enumeration of every fault index in both fault modes, and the labelling of
// every ReadAt call with the phase / kind it belongs to (runtime.Callers).

import (
	"bufio"
	"bytes"
	"errors"
	"fmt"
	"io"
	"os"
	"runtime"
	"sort"
	"strings"
	"sync"
	"time"

	"seehuhn.de/go/pdf"
	"seehuhn.de/go/pdf/pagetree"
)

// errInj is the error the byte source currently fails with; it is one of the
// shapes below.  The outcome `io` demands errors.Is(err, errInj) and
// !pdf.IsMalformed(err) whatever the shape.
var errInj error = errPlain

var errPlain = errors.New("injected read fault")

// lookalikeErr prints like a malformed-file error without being one.
type lookalikeErr struct{}

func (lookalikeErr) Error() string { return "invalid PDF: unexpected EOF while reading Dict" }

// eofIsErr answers errors.Is(err, io.EOF) with true through an Is method.
type eofIsErr struct{}

func (eofIsErr) Error() string        { return "range request aborted" }
func (eofIsErr) Is(target error) bool { return target == io.EOF }

// timeoutErr is a net.Error-like deadline error.
type timeoutErr struct{}

func (timeoutErr) Error() string   { return "i/o timeout" }
func (timeoutErr) Timeout() bool   { return true }
func (timeoutErr) Temporary() bool { return true }
func (timeoutErr) Is(target error) bool {
	return target == os.ErrDeadlineExceeded
}

type faultShape struct {
	name string
	err  error
}

// the family of fault errors; the first is the one used for the full enumeration
var faultShapes = []faultShape{
	{"plain", errPlain},
	{"wrapEOF", fmt.Errorf("connection lost: %w", io.EOF)},
	{"wrapUEOF", fmt.Errorf("connection lost: %w", io.ErrUnexpectedEOF)},
	{"lookalike", &lookalikeErr{}},
	{"isEOF", &eofIsErr{}},
	{"timeout", &timeoutErr{}},
}

// state of the enumeration: the shape in use, the id prefix of its case lines
// and the fault modes enumerated with it
var (
	curShape    = faultShapes[0]
	activeModes = fmodes
)

func docID(di int) string {
	if curShape.name == "plain" {
		return fmt.Sprintf("d%d", di)
	}
	return fmt.Sprintf("d%d.%s", di, curShape.name)
}

// faultSrc is the wrapped byte source.
type faultSrc struct {
	data   []byte
	n      int  // calls so far
	failK  int   // 0: never
	mode   fmode // which calls fail and what a failing call returns
	fired  bool
	labels *[]label // if non-nil, every call is labelled
	reqs   *[][2]int64 // if non-nil, (offset, length) of every call
	prefixN int       // fmPrefix: bytes the failing call delivers
}

type label struct {
	phase string // NewReader/MakeReader phase ("" outside open)
	kind  byte   // 'r' scanner refill, 'p' raw probe, 'b' stream body through DecodeStream, 'l' refill while resolving an indirect /Length, 'c' scanner Discard copy, 'u' unclassified
}

// fault modes: the property's two (fail from the k-th call on / only the k-th
// call, returning (0, err)) and three one-shot modes in which the failing call
// delivers data together with the error, as the io.ReaderAt contract allows
type fmode int

const (
	fmFrom fmode = iota // calls k, k+1, ... return (0, err)
	fmOnly              // call k returns (0, err)
	fmHalf              // call k returns half of the bytes and err
	fmFull              // call k returns all the bytes and err
	fmOne               // call k returns one byte and err
	fmPrefix            // call k returns the first faultSrc.prefixN bytes and err
)

var fmodes = []fmode{fmFrom, fmOnly, fmHalf, fmFull, fmOne}

func (m fmode) String() string { return [...]string{"from", "only", "half", "full", "one", "prefix"}[m] }

func (f *faultSrc) arm(k int, m fmode) { f.n, f.failK, f.mode, f.fired = 0, k, m, false }

func (f *faultSrc) ReadAt(p []byte, off int64) (int, error) {
	f.n++
	if f.labels != nil {
		*f.labels = append(*f.labels, classifyCaller())
	}
	if f.reqs != nil {
		*f.reqs = append(*f.reqs, [2]int64{off, int64(len(p))})
	}
	if f.failK > 0 && (f.n == f.failK || (f.mode == fmFrom && f.n > f.failK)) {
		f.fired = true
		avail := 0
		if off >= 0 && off < int64(len(f.data)) {
			avail = min(len(p), len(f.data)-int(off))
		}
		n := 0
		switch f.mode {
		case fmHalf:
			n = avail / 2
		case fmFull:
			n = avail
		case fmOne:
			n = min(1, avail)
		case fmPrefix:
			n = min(f.prefixN, avail)
		}
		copy(p[:n], f.data[off:])
		return n, errInj
	}
	if off < 0 || off >= int64(len(f.data)) {
		return 0, io.EOF
	}
	n := copy(p, f.data[off:])
	if n < len(p) {
		return n, io.EOF
	}
	return n, nil
}

// ---------------------------------------------------------------------------
// labelling

var (
	srcLines   = map[string][]string{}
	srcLinesMu sync.Mutex
)

// repoFile maps a file name from the debug information to the source tree under
// test: the harness is built with -trimpath, which turns the directory of the
// replaced module into "seehuhn.de/go/pdf@v0.0.0/".
func repoFile(file string) string {
	if _, err := os.Stat(file); err == nil {
		return file
	}
	const mod = "seehuhn.de/go/pdf"
	if i := strings.Index(file, mod); i >= 0 {
		rest := file[i+len(mod):]
		if j := strings.Index(rest, "/"); j >= 0 {
			root := os.Getenv("VERIF_REPO")
			if root == "" {
				root = "/repo"
			}
			return root + rest[j:]
		}
	}
	return file
}

func sourceLine(file string, line int) string {
	file = repoFile(file)
	srcLinesMu.Lock()
	defer srcLinesMu.Unlock()
	ls, ok := srcLines[file]
	if !ok {
		if fd, err := os.Open(file); err == nil {
			sc := bufio.NewScanner(fd)
			sc.Buffer(make([]byte, 1<<16), 1<<22)
			for sc.Scan() {
				ls = append(ls, sc.Text())
			}
			fd.Close()
		}
		srcLines[file] = ls
	}
	if line-1 < len(ls) && line >= 1 {
		return ls[line-1]
	}
	return ""
}

// phaseKeywords maps text on the call-site line inside NewReader / MakeReader
// to the phase name.  Order matters (first match wins).
var phaseKeywords = []struct{ kw, phase string }{
	{"findHeaderOffset", "hdr"},
	{"ReadHeaderVersion", "hdr"},
	{"readXRef", "xref"},
	{"getTrailer", "xref"},
	{"parseEncryptDict", "enc"},
	{"getID", "id"},
	{"DecodeCatalog", "cat"},
	{"ExtractInfo", "info"},
	{`trailer["Root"]`, "catd"},
}

func classifyCaller() label {
	var pcs [64]uintptr
	n := runtime.Callers(3, pcs[:])
	frames := runtime.CallersFrames(pcs[:n])
	var l label
	kind := byte(0)
	lengthCtx := false
	inChk := false
	for {
		fr, more := frames.Next()
		fn := fr.Function
		switch {
		case strings.HasSuffix(fn, "pdf.endstreamAt"), strings.HasSuffix(fn, "pdf.trimTrailingEOL"),
			strings.HasSuffix(fn, "pdf.findHeaderOffset"), strings.HasSuffix(fn, "pdf.(*Reader).lastOccurence"):
			if kind == 0 {
				kind = 'p'
			}
		case strings.HasSuffix(fn, "pdf.(*streamReader).Read"):
			if kind == 0 {
				kind = 'x'
			}
		case strings.HasSuffix(fn, "pdf.(*sourceErrChecker).Read"):
			inChk = true
		case strings.HasSuffix(fn, "pdf.(*scanner).refill"):
			if kind == 0 {
				kind = 'r'
			}
		case strings.HasSuffix(fn, "pdf.(*scanner).Discard"):
			if kind == 0 {
				kind = 'c'
			}
		case strings.Contains(fn, "pdf.safeGetInteger.func1"), strings.Contains(fn, "pdf.(*FileInfo).makeSafeGetInt.func1"):
			lengthCtx = true
		case strings.HasSuffix(fn, "pdf.NewReader"), strings.HasSuffix(fn, "pdf.(*FileInfo).MakeReader"):
			if l.phase == "" {
				txt := sourceLine(fr.File, fr.Line)
				for _, pk := range phaseKeywords {
					if strings.Contains(txt, pk.kw) {
						l.phase = pk.phase
						break
					}
				}
				if l.phase == "" {
					l.phase = "?"
				}
			}
		case strings.HasSuffix(fn, "pdf.SequentialScan"):
			if l.phase == "" {
				l.phase = "scan"
			}
		}
		if !more {
			break
		}
	}
	if kind == 'x' && inChk {
		kind = 'b'
	}
	if kind == 'r' && lengthCtx {
		kind = 'l'
	}
	if kind == 0 {
		kind = 'u'
	}
	l.kind = kind
	return l
}

// ---------------------------------------------------------------------------
// operations

// An op runs one public entry point against an opened Reader and returns a
// canonical rendering of the data it produced.
type op struct {
	name string
	kind byte // 'G' get, 'D' decode-stream drain, 'T' typed decode / page walks
	run  func(r *pdf.Reader) (string, error)
}

func render(o pdf.Object) string {
	switch x := o.(type) {
	case nil:
		return "null"
	case *pdf.Stream:
		return "stream" + pdf.AsString(x.Dict) + fmt.Sprintf("len=%d", streamLength(x))
	default:
		return pdf.AsString(o)
	}
}

func streamLength(x *pdf.Stream) int64 { return x.Length() }

func opsFor(d *doc, streams map[pdf.Reference]*pdf.Stream, pages []pdf.Reference) []op {
	var ops []op
	for _, ref := range d.refs {
		ref := ref
		ops = append(ops, op{name: "get:" + ref.String(), kind: 'G', run: func(r *pdf.Reader) (string, error) {
			o, err := r.Get(ref, true)
			if err != nil {
				return "", err
			}
			return render(o), nil
		}})
	}
	var srefs []pdf.Reference
	for ref := range streams {
		srefs = append(srefs, ref)
	}
	sort.Slice(srefs, func(i, j int) bool { return srefs[i] < srefs[j] })
	for _, ref := range srefs {
		stm := streams[ref]
		ops = append(ops, op{name: "drain:" + ref.String(), kind: 'D', run: func(r *pdf.Reader) (string, error) {
			rd, err := pdf.DecodeStream(r, nil, stm)
			if err != nil {
				return "", err
			}
			b, err := io.ReadAll(rd)
			e2 := rd.Close()
			if err != nil {
				return "", err
			}
			if e2 != nil {
				return "", e2
			}
			return fmt.Sprintf("%x", b), nil
		}})
	}
	ops = append(ops, op{name: "catalog", kind: 'T', run: func(r *pdf.Reader) (string, error) {
		x := pdf.NewExtractor(r)
		cat, err := pdf.Decode(pdf.CursorAt(x, nil), r.GetMeta().Trailer["Root"], pdf.DecodeCatalog)
		if err != nil {
			return "", err
		}
		if cat == nil {
			return "nil", nil
		}
		return fmt.Sprintf("pages=%v version=%v", cat.Pages, cat.Version), nil
	}})
	ops = append(ops, op{name: "info", kind: 'T', run: func(r *pdf.Reader) (string, error) {
		x := pdf.NewExtractor(r)
		info, err := pdf.Decode(pdf.CursorAt(x, nil), r.GetMeta().Trailer["Info"], pdf.ExtractInfo)
		if err != nil {
			return "", err
		}
		if info == nil {
			return "nil", nil
		}
		return fmt.Sprintf("title=%q author=%q", info.Title, info.Author), nil
	}})
	ops = append(ops, op{name: "findpages", kind: 'T', run: func(r *pdf.Reader) (string, error) {
		ps, err := pagetree.FindPages(r)
		if err != nil {
			return "", err
		}
		return fmt.Sprint(ps), nil
	}})
	ops = append(ops, op{name: "iterpages", kind: 'T', run: func(r *pdf.Reader) (string, error) {
		it := pagetree.NewIterator(r)
		var sb strings.Builder
		for ref, dict := range it.All() {
			fmt.Fprintf(&sb, "%v=%s;", ref, pdf.AsString(dict))
		}
		if it.Err != nil {
			return "", it.Err
		}
		return sb.String(), nil
	}})
	ops = append(ops, op{name: "numpages", kind: 'T', run: func(r *pdf.Reader) (string, error) {
		n, err := pagetree.NumPages(r)
		if err != nil {
			return "", err
		}
		return fmt.Sprint(n), nil
	}})
	for _, pg := range pages {
		pg := pg
		ops = append(ops, op{name: "content:" + pg.String(), kind: 'T', run: func(r *pdf.Reader) (string, error) {
			rd, err := pagetree.ContentStream(r, pg)
			if err != nil {
				return "", err
			}
			b, err := io.ReadAll(rd)
			e2 := rd.Close()
			if err != nil {
				return "", err
			}
			if e2 != nil {
				return "", e2
			}
			return fmt.Sprintf("%x", b), nil
		}})
	}
	return ops
}

// ---------------------------------------------------------------------------
// outcomes

// outcome letters: s same, i io(injected), m malformed, d different-data,
// o other error (does not carry the source's), t timeout, p panic
func classify(clean result, got result) byte {
	switch {
	case got.timeout:
		return 't'
	case got.panicked != "":
		return 'p'
	case got.err == nil && clean.err == nil && got.data == clean.data:
		return 's'
	case got.err != nil && clean.err != nil && got.err.Error() == clean.err.Error() && pdf.IsMalformed(got.err) == pdf.IsMalformed(clean.err):
		return 's'
	case got.err == nil:
		return 'd'
	case pdf.IsMalformed(got.err):
		return 'm'
	case errors.Is(got.err, errInj):
		return 'i'
	default:
		return 'o'
	}
}

type result struct {
	data     string
	err      error
	timeout  bool
	panicked string
	reads    int
	fired    bool
	skipped  bool // not run: the run was abandoned after too many watchdog timeouts
}

// aborted: spinning goroutines of earlier timeouts eat the machine; after a
// few of them the enumeration is abandoned (the timeouts are already recorded
// as failing inputs).
func aborted() bool { return hangs >= maxHangs }

var hangs int

const maxHangs = 3

// guarded runs fn under a watchdog and recovers panics.
func guarded(limit time.Duration, fn func() (string, error)) result {
	if aborted() {
		return result{skipped: true}
	}
	ch := make(chan result, 1)
	go func() {
		var res result
		defer func() {
			if p := recover(); p != nil {
				res.panicked = fmt.Sprint(p)
			}
			ch <- res
		}()
		res.data, res.err = fn()
	}()
	select {
	case r := <-ch:
		return r
	case <-time.After(limit):
		hangs++
		return result{timeout: true}
	}
}

var modes = []struct {
	name string
	m    pdf.ReaderErrorHandling
}{{"recover", pdf.ErrorHandlingRecover}, {"report", pdf.ErrorHandlingReport}, {"stop", pdf.ErrorHandlingStop}}

func metaString(r *pdf.Reader) string {
	m := r.GetMeta()
	var sb strings.Builder
	fmt.Fprintf(&sb, "version=%v;", m.Version)
	fmt.Fprintf(&sb, "id=%x;", m.ID)
	if m.Catalog != nil {
		fmt.Fprintf(&sb, "pages=%v;", m.Catalog.Pages)
	} else {
		sb.WriteString("catalog=nil;")
	}
	if m.Info != nil {
		fmt.Fprintf(&sb, "title=%q;", m.Info.Title)
	} else {
		sb.WriteString("info=nil;")
	}
	var keys []string
	for k := range m.Trailer {
		keys = append(keys, string(k))
	}
	sort.Strings(keys)
	fmt.Fprintf(&sb, "trailer=%v;", keys)
	fmt.Fprintf(&sb, "errors=%d;", len(r.Errors))
	fmt.Fprintf(&sb, "perm=%v;enc=%v", m.Permissions, m.Encryption != nil)
	return sb.String()
}

func kindsString(ls []label) string {
	var b bytes.Buffer
	for _, l := range ls {
		b.WriteByte(l.kind)
	}
	if b.Len() == 0 {
		return "-"
	}
	return b.String()
}
