package main

// Sink side of C19: Writer programs run against a sink that fails at every
// index of its Write/Seek calls (from k on, and only k), on seekable and
// non-seekable sinks.  Oracle: some Writer call no later than Close returns an
// error with errors.Is(err, injected).
//
// Tie to coq/C19/Sink.v: the same program is run once against a sink that
// implements Flush (NewWriter then uses it in place of its bufio.Writer), which
// exposes the operation sequence at the bufio boundary (buffered writes,
// flushes, raw seeks and raw writes of Placeholder.Set); the model turns that
// sequence into the sequence of sink calls a 4096-byte bufio.Writer makes and
// into a verdict for every fault index; both are compared with the real run.

import (
	"errors"
	"fmt"
	"io"
	"math/rand/v2"
	"runtime"
	"strings"

	"seehuhn.de/go/pdf"
)

var errSink = errors.New("injected sink fault")

type fsink struct {
	pos, size int
	n         int
	failK     int
	only      bool
	fired     bool
	calls     []string
	record    bool
}

func (s *fsink) tick(what string) error {
	s.n++
	if s.record {
		s.calls = append(s.calls, what)
	}
	if s.failK > 0 && (s.n == s.failK || (!s.only && s.n > s.failK)) {
		s.fired = true
		return errSink
	}
	return nil
}

func (s *fsink) Write(p []byte) (int, error) {
	if err := s.tick(fmt.Sprintf("W%d", len(p))); err != nil {
		return 0, err
	}
	s.pos += len(p)
	if s.pos > s.size {
		s.size = s.pos
	}
	return len(p), nil
}

type fseeksink struct{ fsink }

func (s *fseeksink) Seek(off int64, wh int) (int64, error) {
	if err := s.tick("S"); err != nil {
		return 0, err
	}
	switch wh {
	case io.SeekStart:
		s.pos = int(off)
	case io.SeekCurrent:
		s.pos += int(off)
	case io.SeekEnd:
		s.pos = s.size + int(off)
	}
	return int64(s.pos), nil
}

// recSink implements Write+Flush (and Seek in the seekable variant), so the
// Writer uses it directly instead of wrapping the sink in a bufio.Writer.
type recSink struct {
	ops       []string
	pos, size int
}

func inPlaceholderSet() bool {
	var pcs [24]uintptr
	n := runtime.Callers(3, pcs[:])
	frames := runtime.CallersFrames(pcs[:n])
	for {
		fr, more := frames.Next()
		if strings.HasSuffix(fr.Function, "pdf.(*Placeholder).Set") {
			return true
		}
		if !more {
			return false
		}
	}
}

func (s *recSink) Write(p []byte) (int, error) {
	if inPlaceholderSet() {
		s.ops = append(s.ops, fmt.Sprintf("r%d", len(p)))
	} else {
		s.ops = append(s.ops, fmt.Sprintf("w%d", len(p)))
	}
	s.pos += len(p)
	if s.pos > s.size {
		s.size = s.pos
	}
	return len(p), nil
}

func (s *recSink) Flush() error {
	if inPlaceholderSet() {
		s.ops = append(s.ops, "f")
	} else {
		s.ops = append(s.ops, "F")
	}
	return nil
}

type recSeekSink struct{ recSink }

func (s *recSeekSink) Seek(off int64, wh int) (int64, error) {
	s.ops = append(s.ops, "s")
	switch wh {
	case io.SeekStart:
		s.pos = int(off)
	case io.SeekCurrent:
		s.pos += int(off)
	case io.SeekEnd:
		s.pos = s.size + int(off)
	}
	return int64(s.pos), nil
}

// A wprog is a deterministic Writer program.
type wstep struct {
	kind  int // 0 Put small, 1 Put large, 2 small stream, 3 large stream, 4 WriteCompressed
	size  int
	seed  uint64
	chunk int
}

type wprog struct {
	v     pdf.Version
	human bool
	pw    string
	steps []wstep
}

func (p wprog) String() string {
	var ks []string
	for _, s := range p.steps {
		ks = append(ks, fmt.Sprintf("%d:%d", s.kind, s.size))
	}
	return fmt.Sprintf("v=%v human=%v enc=%v steps=[%s]", p.v, p.human, p.pw != "", strings.Join(ks, " "))
}

// runProg runs the program, continuing after errors, and returns every error
// any Writer call returned, in order.
func runProg(w io.Writer, p wprog) (errs []error) {
	note := func(err error) {
		if err != nil {
			errs = append(errs, err)
		}
	}
	opt := &pdf.WriterOptions{HumanReadable: p.human,
		ID: [][]byte{[]byte("0123456789abcdef"), []byte("fedcba9876543210")}}
	if p.pw != "" {
		opt.UserPassword, opt.OwnerPassword = p.pw, "o"
	}
	out, err := pdf.NewWriter(w, p.v, opt)
	if err != nil {
		return []error{err}
	}
	for _, s := range p.steps {
		R := rand.New(rand.NewPCG(s.seed, 7))
		switch s.kind {
		case 0, 1:
			note(out.Put(out.Alloc(), pdf.Dict{"A": pdf.String(strings.Repeat("x", s.size))}))
		case 2, 3:
			ref := out.Alloc()
			var fs []pdf.Filter
			if s.seed%2 == 0 {
				fs = append(fs, pdf.FilterFlate{})
			}
			ws, err := out.OpenStream(ref, pdf.Dict{}, fs...)
			note(err)
			if err != nil {
				continue
			}
			body := make([]byte, s.size)
			for i := range body {
				body[i] = byte(R.IntN(256))
			}
			for len(body) > 0 {
				n := min(len(body), s.chunk)
				_, err = ws.Write(body[:n])
				note(err)
				body = body[n:]
			}
			note(ws.Close())
		case 4:
			note(out.WriteCompressed([]pdf.Reference{out.Alloc(), out.Alloc()}, pdf.Integer(5), pdf.String(strings.Repeat("y", s.size))))
		}
	}
	pages := out.Alloc()
	note(out.Put(pages, pdf.Dict{"Type": pdf.Name("Pages"), "Kids": pdf.Array{}, "Count": pdf.Integer(0)}))
	out.GetMeta().Catalog.Pages = pages
	out.GetMeta().Info.Title = "t"
	note(out.Close())
	return errs
}

func genProg(R *rand.Rand, i int) wprog {
	vs := []pdf.Version{pdf.V1_4, pdf.V1_7, pdf.V2_0}
	p := wprog{v: vs[i%3], human: i%7 == 3}
	if i%4 == 3 {
		p.pw = "u"
	}
	n := 2 + R.IntN(5)
	for j := 0; j < n; j++ {
		s := wstep{kind: R.IntN(5), seed: R.Uint64(), chunk: 1 + R.IntN(6000)}
		switch s.kind {
		case 0:
			s.size = 1 + R.IntN(200)
		case 1:
			s.size = 3000 + R.IntN(9000)
		case 2:
			s.size = R.IntN(900)
		case 3:
			s.size = 1024 + R.IntN(20000)
		case 4:
			s.size = 1 + R.IntN(6000)
		}
		p.steps = append(p.steps, s)
	}
	if i < 2 {
		// fixed seed corpus: the shape of the design-round probe
		p.steps = []wstep{{kind: 1, size: 7000, seed: 1, chunk: 9000}, {kind: 3, size: 9000, seed: 2, chunk: 100000},
			{kind: 1, size: 7000, seed: 3, chunk: 9000}, {kind: 3, size: 27000, seed: 5, chunk: 4096}, {kind: 4, size: 3, seed: 6}}
	}
	return p
}

func sinkSide(R *rand.Rand) {
	nprog := e.Pick(24, 400)
	for i := 0; i < nprog; i++ {
		p := genProg(R, i)
		for _, seekable := range []bool{false, true} {
			mk := func(k int, only, record bool) (io.Writer, *fsink) {
				if seekable {
					s := &fseeksink{fsink{failK: k, only: only, record: record}}
					return s, &s.fsink
				}
				s := &fsink{failK: k, only: only, record: record}
				return s, s
			}
			w, s := mk(0, false, true)
			if errs := runProg(w, p); len(errs) > 0 {
				panic(fmt.Sprintf("sink program %v fails without a fault: %v", p, errs[0]))
			}
			total := s.n
			calls := s.calls
			id := fmt.Sprintf("w%d.%v", i, seekable)
			deterministic := p.pw == ""
			var ops []string
			if deterministic {
				if seekable {
					rs := &recSeekSink{}
					runProg(rs, p)
					ops = rs.ops
				} else {
					rs := &recSink{}
					runProg(rs, p)
					ops = rs.ops
				}
				e.Line("cases.txt", "%s.calls S %s", id, strings.Join(ops, " "))
				e.Line("impl.obs", "%s.calls %s", id, strings.Join(calls, " "))
			}
			for _, only := range []bool{false, true} {
				letters := make([]byte, 0, total)
				for k := 1; k <= total; k++ {
					w, s := mk(k, only, false)
					var errs []error
					got := guarded(watchdog, func() (string, error) { errs = runProg(w, p); return "", nil })
					if got.skipped {
						return
					}
					surfaced := false
					for _, err := range errs {
						if errors.Is(err, errSink) {
							surfaced = true
						}
					}
					what := strings.TrimRight(calls[k-1], "0123456789")
					cls := "surfaced"
					letter := byte('y')
					switch {
					case got.timeout:
						cls, letter = "timeout", 't'
					case got.panicked != "":
						cls, letter = "panic", 'p'
					case !surfaced && len(errs) > 0:
						cls, letter = "error-without-cause", 'o'
					case !surfaced:
						cls, letter = "swallowed", 'n'
					}
					e.Count(s.fired, fmt.Sprintf("sink|%d|%v|%d|%v", i, seekable, k, only), fmt.Sprintf("sink/%s/%s", what, cls))
					letters = append(letters, letter)
					if letter != 'y' {
						c := map[string]any{"program": p.String(), "seekable": seekable, "k": k, "sink_calls_in_clean_run": total,
							"fault": fmName(only), "failing_sink_call": calls[k-1], "errors_returned": len(errs)}
						if len(errs) > 0 {
							c["first_error"] = errs[0].Error()
						}
						if got.panicked != "" {
							c["panic"] = got.panicked
						}
						e.Fail(fmt.Sprintf("sink:%s:%s:seekable=%v", cls, what, seekable),
							fmt.Sprintf("Writer program on a %s sink failing %s at sink call #%d/%d (%s): no Writer call up to Close returned an error carrying the sink's (%s)",
								map[bool]string{true: "seekable", false: "non-seekable"}[seekable], fmName(only), k, total, calls[k-1], cls), c)
					}
				}
				if deterministic {
					e.Line("cases.txt", "%s.%s K %s %s", id, fmName(only), fmName(only), strings.Join(ops, " "))
					e.Line("impl.obs", "%s.%s %s", id, fmName(only), dash(string(letters)))
				}
			}
			if i < 4 {
				e.Sample(12, map[string]any{"sink_program": p.String(), "seekable": seekable, "sink_calls": total})
			}
		}
	}
}
