package main

// Sink side of C19: Writer programs run against a sink that fails at every
// index of its calls (Write and Seek; on seekable sinks also the Read and
// ReadAt calls of read-backs), from k on and only k, on seekable and
// non-seekable sinks.  The programs contain plain and large objects, small
// streams, large streams (placeholders), object streams, objects put while a
// stream is open, and - on seekable sinks - read-backs through the Writer:
// Writer.Get of plain objects, of members of object streams and of streams,
// and OpenStream with /Filter and /DecodeParms given as references that the
// Writer resolves.
//
// Oracle: some Writer call no later than Close returns an error with
// errors.Is(err, injected); if no call reports any error, the bytes produced
// and the values read back must be those of the fault-free run.
//
// Tie to coq/C19/Sink.v: the same program is run once against a sink that
// implements Flush (NewWriter then uses it in place of its bufio.Writer), which
// exposes the operation sequence at the bufio boundary (buffered writes,
// flushes, raw seeks, raw writes, raw reads); the model turns that sequence into
// the sequence of sink calls a 4096-byte bufio.Writer makes and into a verdict
// for every fault index; both are compared with the real run.

import (
	"bytes"
	"errors"
	"fmt"
	"io"
	"math/rand/v2"
	"runtime"
	"strings"

	"seehuhn.de/go/pdf"
)

var errSink = errors.New("injected sink fault")

// mem is the storage shared by all sink variants.
type mem struct {
	buf []byte
	pos int
}

func (m *mem) write(p []byte) {
	end := m.pos + len(p)
	if end > len(m.buf) {
		m.buf = append(m.buf, make([]byte, end-len(m.buf))...)
	}
	copy(m.buf[m.pos:], p)
	m.pos = end
}

func (m *mem) seek(off int64, wh int) int64 {
	switch wh {
	case io.SeekStart:
		m.pos = int(off)
	case io.SeekCurrent:
		m.pos += int(off)
	case io.SeekEnd:
		m.pos = len(m.buf) + int(off)
	}
	return int64(m.pos)
}

func (m *mem) read(p []byte) (int, error) {
	if m.pos >= len(m.buf) {
		return 0, io.EOF
	}
	n := copy(p, m.buf[m.pos:])
	m.pos += n
	return n, nil
}

func (m *mem) readAt(p []byte, off int64) (int, error) {
	if off < 0 || off >= int64(len(m.buf)) {
		return 0, io.EOF
	}
	n := copy(p, m.buf[off:])
	if n < len(p) {
		return n, io.EOF
	}
	return n, nil
}

// fsink is the failing sink (Write only).
type fsink struct {
	mem
	n      int
	failK  int
	only   bool
	fired  bool
	calls  []string
	record bool

	beforeClose int
}

func (s *fsink) tick(what string) error {
	s.n++
	if s.record {
		s.calls = append(s.calls, what)
	}
	if s.failK > 0 && (s.n == s.failK || (!s.only && s.n > s.failK)) {
		s.fired = true
		return errSink
	}
	return nil
}

func (s *fsink) Write(p []byte) (int, error) {
	if err := s.tick(fmt.Sprintf("W%d", len(p))); err != nil {
		return 0, err
	}
	s.write(p)
	return len(p), nil
}

// Close is the sink's own Close, reached when the Writer owns the sink.
func (s *fsink) Close() error { return s.tick("C") }

// markClose remembers how many calls were made before Writer.Close.
func (s *fsink) markClose() { s.beforeClose = s.n }

// fseeksink adds Seek, Read and ReadAt (what an *os.File opened read-write offers).
type fseeksink struct{ fsink }

func (s *fseeksink) Seek(off int64, wh int) (int64, error) {
	if err := s.tick("S"); err != nil {
		return 0, err
	}
	return s.seek(off, wh), nil
}

func (s *fseeksink) Read(p []byte) (int, error) {
	if err := s.tick(fmt.Sprintf("R%d", len(p))); err != nil {
		return 0, err
	}
	return s.read(p)
}

func (s *fseeksink) ReadAt(p []byte, off int64) (int, error) {
	if err := s.tick(fmt.Sprintf("A%d", len(p))); err != nil {
		return 0, err
	}
	return s.readAt(p, off)
}

// recSink implements Write+Flush (and Seek/Read/ReadAt in the seekable
// variant), so the Writer uses it directly instead of wrapping the sink in a
// bufio.Writer.
type recSink struct {
	mem
	ops []string
}

func callerHas(suffix string) bool {
	var pcs [32]uintptr
	n := runtime.Callers(3, pcs[:])
	frames := runtime.CallersFrames(pcs[:n])
	for {
		fr, more := frames.Next()
		if strings.HasSuffix(fr.Function, suffix) {
			return true
		}
		if !more {
			return false
		}
	}
}

func (s *recSink) Write(p []byte) (int, error) {
	if callerHas("pdf.(*Placeholder).Set") {
		s.ops = append(s.ops, fmt.Sprintf("r%d", len(p)))
	} else {
		s.ops = append(s.ops, fmt.Sprintf("w%d", len(p)))
	}
	s.write(p)
	return len(p), nil
}

func (s *recSink) Flush() error {
	switch {
	case callerHas("pdf.(*Placeholder).Set"):
		s.ops = append(s.ops, "f") // result dropped
	case callerHas("pdf.(*Writer).get"):
		s.ops = append(s.ops, "G") // result returned by Writer.Get
	default:
		s.ops = append(s.ops, "F") // result returned by Writer.Close
	}
	return nil
}

func (s *recSink) Close() error { s.ops = append(s.ops, "c"); return nil }

func (s *recSink) markClose() { s.ops = append(s.ops, "|") }

type recSeekSink struct{ recSink }

func (s *recSeekSink) Seek(off int64, wh int) (int64, error) {
	s.ops = append(s.ops, "s")
	return s.seek(off, wh), nil
}

func (s *recSeekSink) Read(p []byte) (int, error) {
	s.ops = append(s.ops, fmt.Sprintf("d%d", len(p)))
	return s.read(p)
}

func (s *recSeekSink) ReadAt(p []byte, off int64) (int, error) {
	s.ops = append(s.ops, fmt.Sprintf("a%d", len(p)))
	return s.readAt(p, off)
}

// A wprog is a deterministic Writer program.
type wstep struct {
	// 0 Put small, 1 Put large, 2 small stream, 3 large stream, 4 WriteCompressed,
	// 5 Get of a plain object, 6 Get of a member of an object stream, 7 OpenStream
	// with /Filter and /DecodeParms given as references, 8 Put while a stream is
	// open, 9 Get of a stream and decode of its body
	kind  int
	size  int
	seed  uint64
	chunk int
}

type wprog struct {
	v     pdf.Version
	human bool
	pw    string
	owns  bool // Writer.Close also closes the sink (as after pdf.Create)
	steps []wstep
}

func (p wprog) String() string {
	var ks []string
	for _, s := range p.steps {
		ks = append(ks, fmt.Sprintf("%d:%d", s.kind, s.size))
	}
	return fmt.Sprintf("v=%v human=%v enc=%v owns_sink=%v steps=[%s]", p.v, p.human, p.pw != "", p.owns, strings.Join(ks, " "))
}

// runProg runs the program, continuing after errors, and returns every error
// any Writer call returned, in order, and a rendering of everything read back.
func runProg(w io.Writer, p wprog) (errs []error, readBack string, closeErr error, strict []string) {
	_, seekable := w.(io.ReadSeeker)
	var rb strings.Builder
	note := func(err error) {
		if err != nil {
			errs = append(errs, err)
		}
	}
	// Writer.err in strict form: once a call that records (Put, WriteCompressed,
	// the Write or Close of a stream: 'P', 'C', 'w', 'c') has returned an error
	// carrying the sink's, every later Put, OpenStream, WriteCompressed and
	// Close ('P', 'O', 'C', 'X') must return an error carrying it, too
	sticky := false
	ncall := 0
	noteK := func(kind byte, err error) {
		ncall++
		if sticky && strings.IndexByte("POCX", kind) >= 0 && !errors.Is(err, errSink) {
			strict = append(strict, fmt.Sprintf("call #%d (%s) returned %v", ncall,
				map[byte]string{'P': "Put", 'O': "OpenStream", 'C': "WriteCompressed", 'X': "Close"}[kind], err))
		}
		if strings.IndexByte("PCwc", kind) >= 0 && errors.Is(err, errSink) {
			sticky = true
		}
		note(err)
	}
	opt := &pdf.WriterOptions{HumanReadable: p.human,
		ID: [][]byte{[]byte("0123456789abcdef"), []byte("fedcba9876543210")}}
	if p.pw != "" {
		opt.UserPassword, opt.OwnerPassword = p.pw, "o"
	}
	out, err := pdf.NewWriter(w, p.v, opt)
	if err != nil {
		return []error{err}, "", nil, nil
	}
	if p.owns {
		pdf.VerifCloseUnderlying(out)
	}
	var plain, members, streams []pdf.Reference
	pick := func(l []pdf.Reference, seed uint64) (pdf.Reference, bool) {
		if len(l) == 0 {
			return 0, false
		}
		return l[int(seed%uint64(len(l)))], true
	}
	get := func(ref pdf.Reference) pdf.Native {
		o, err := out.Get(ref, true)
		note(err)
		if err != nil {
			return nil
		}
		if stm, ok := o.(*pdf.Stream); ok {
			fmt.Fprintf(&rb, "%v=stream%s;", ref, pdf.AsString(stm.Dict))
		} else {
			fmt.Fprintf(&rb, "%v=%s;", ref, pdf.AsString(o))
		}
		return o
	}
	writeBody := func(ws io.WriteCloser, s wstep) {
		R := rand.New(rand.NewPCG(s.seed, 7))
		body := make([]byte, s.size)
		for i := range body {
			body[i] = byte(R.IntN(256))
		}
		for len(body) > 0 {
			n := min(len(body), max(s.chunk, 1))
			_, err := ws.Write(body[:n])
			noteK('w', err)
			body = body[n:]
		}
	}
	for _, s := range p.steps {
		switch s.kind {
		case 0, 1:
			ref := out.Alloc()
			noteK('P', out.Put(ref, pdf.Dict{"A": pdf.String(strings.Repeat("x", s.size))}))
			plain = append(plain, ref)
		case 2, 3:
			ref := out.Alloc()
			var fs []pdf.Filter
			if s.seed%2 == 0 {
				fs = append(fs, pdf.FilterFlate{})
			}
			ws, err := out.OpenStream(ref, pdf.Dict{}, fs...)
			noteK('O', err)
			if err != nil {
				continue
			}
			writeBody(ws, s)
			noteK('c', ws.Close())
			streams = append(streams, ref)
		case 4:
			r1, r2 := out.Alloc(), out.Alloc()
			noteK('C', out.WriteCompressed([]pdf.Reference{r1, r2}, pdf.Integer(5), pdf.String(strings.Repeat("y", s.size))))
			members = append(members, r1, r2)
		case 5:
			if ref, ok := pick(plain, s.seed); ok && seekable {
				get(ref)
			}
		case 6:
			if ref, ok := pick(members, s.seed); ok && seekable {
				get(ref)
			}
		case 7:
			if !seekable {
				continue
			}
			fref, pref := out.Alloc(), out.Alloc()
			noteK('P', out.Put(fref, pdf.Array{pdf.Name("ASCIIHexDecode")}))
			noteK('P', out.Put(pref, pdf.Array{nil}))
			plain = append(plain, fref)
			ref := out.Alloc()
			ws, err := out.OpenStream(ref, pdf.Dict{"Filter": fref, "DecodeParms": pref})
			noteK('O', err)
			if err != nil {
				continue
			}
			_, err = ws.Write([]byte(strings.Repeat("48656c6c6f", 1+s.size%300) + ">"))
			noteK('w', err)
			noteK('c', ws.Close())
			streams = append(streams, ref)
		case 8:
			ref, late := out.Alloc(), out.Alloc()
			ws, err := out.OpenStream(ref, pdf.Dict{"Late": late})
			noteK('O', err)
			if err != nil {
				continue
			}
			noteK('P', out.Put(late, pdf.Dict{"PutWhileStreamOpen": pdf.Boolean(true)}))
			writeBody(ws, s)
			noteK('c', ws.Close())
			streams = append(streams, ref)
			plain = append(plain, late)
		case 9:
			if ref, ok := pick(streams, s.seed); ok && seekable {
				if stm, ok := get(ref).(*pdf.Stream); ok {
					rd, err := pdf.DecodeStream(out, nil, stm)
					note(err)
					if err == nil {
						b, err := io.ReadAll(rd)
						note(err)
						note(rd.Close())
						if err == nil {
							fmt.Fprintf(&rb, "body=%x;", b)
						}
					}
				}
			}
		}
	}
	pages := out.Alloc()
	noteK('P', out.Put(pages, pdf.Dict{"Type": pdf.Name("Pages"), "Kids": pdf.Array{}, "Count": pdf.Integer(0)}))
	out.GetMeta().Catalog.Pages = pages
	out.GetMeta().Info.Title = "t"
	if m, ok := w.(interface{ markClose() }); ok {
		m.markClose()
	}
	closeErr = out.Close()
	noteK('X', closeErr)
	return errs, rb.String(), closeErr, strict
}

func genProg(R *rand.Rand, i int) wprog {
	vs := []pdf.Version{pdf.V1_4, pdf.V1_7, pdf.V2_0}
	p := wprog{v: vs[i%3], human: i%7 == 3, owns: i%2 == 0}
	if i%4 == 3 {
		p.pw = "u"
	}
	n := 3 + R.IntN(6)
	for j := 0; j < n; j++ {
		s := wstep{kind: R.IntN(10), seed: R.Uint64(), chunk: 1 + R.IntN(6000)}
		switch s.kind {
		case 0:
			s.size = 1 + R.IntN(200)
		case 1:
			s.size = 3000 + R.IntN(9000)
		case 2:
			s.size = R.IntN(900)
		case 3:
			s.size = 1024 + R.IntN(20000)
		case 4:
			s.size = 1 + R.IntN(6000)
		case 7:
			s.size = R.IntN(1000)
		case 8:
			s.size = R.IntN(3000)
		}
		p.steps = append(p.steps, s)
	}
	switch i {
	case 0:
		// fixed corpus: the shape of the design-round probe
		p.steps = []wstep{{kind: 1, size: 7000, seed: 1, chunk: 9000}, {kind: 3, size: 9000, seed: 2, chunk: 100000},
			{kind: 1, size: 7000, seed: 3, chunk: 9000}, {kind: 3, size: 27000, seed: 5, chunk: 4096}, {kind: 4, size: 3, seed: 6}}
	case 1:
		// fixed corpus: a read-back of a plain object between two writes (human
		// readable 1.7: no object streams), then more output and Close
		p.v, p.human, p.pw = pdf.V1_7, true, ""
		p.steps = []wstep{{kind: 0, size: 20, seed: 1}, {kind: 1, size: 3000, seed: 2}, {kind: 5, seed: 0},
			{kind: 1, size: 3000, seed: 3}, {kind: 0, size: 10, seed: 4}}
	case 2:
		// fixed corpus: every kind of read-back in one program
		p.v, p.human, p.pw = pdf.V1_7, false, ""
		p.steps = []wstep{{kind: 0, size: 30, seed: 1}, {kind: 4, size: 200, seed: 2}, {kind: 3, size: 3000, seed: 4, chunk: 700},
			{kind: 6, seed: 1}, {kind: 7, size: 40, seed: 3}, {kind: 9, seed: 0}, {kind: 8, size: 1500, seed: 5, chunk: 500},
			{kind: 5, seed: 2}, {kind: 9, seed: 1}, {kind: 1, size: 5000, seed: 6}}
	}
	return p
}

// evalSinkProgram enumerates every sink call index of one program on one kind
// of sink, in both fault modes; it returns the number of sink calls and the
// number of bytes of the fault-free output.
func evalSinkProgram(id string, p wprog, seekable, withModel bool) (int, int) {
	mk := func(k int, only, record bool) (io.Writer, *fsink) {
		if seekable {
			s := &fseeksink{fsink{failK: k, only: only, record: record}}
			return s, &s.fsink
		}
		s := &fsink{failK: k, only: only, record: record}
		return s, s
	}
	w, s := mk(0, false, true)
	cleanErrs, cleanRB, _, _ := runProg(w, p)
	if len(cleanErrs) > 0 {
		panic(fmt.Sprintf("sink program %v fails without a fault: %v", p, cleanErrs[0]))
	}
	total := s.n
	calls := s.calls
	beforeClose := s.beforeClose
	cleanBytes := s.buf
	
	deterministic := p.pw == "" && withModel
	var ops []string
	if deterministic {
		if seekable {
			rs := &recSeekSink{}
			runProg(rs, p)
			ops = rs.ops
		} else {
			rs := &recSink{}
			runProg(rs, p)
			ops = rs.ops
		}
		e.Line("cases.txt", "%s.calls S %s", id, strings.Join(ops, " "))
		e.Line("impl.obs", "%s.calls %s", id, strings.Join(calls, " "))
	}
	for _, only := range []bool{false, true} {
		letters := make([]byte, 0, total)
		var closeLetters []byte
		for k := 1; k <= total; k++ {
			w, s := mk(k, only, false)
			var errs []error
			var rb string
			var closeErr error
			var strictV []string
			got := guarded(watchdog, func() (string, error) { errs, rb, closeErr, strictV = runProg(w, p); return "", nil })
			if got.skipped {
				return total, len(cleanBytes)
			}
			surfaced := false
			for _, err := range errs {
				if errors.Is(err, errSink) {
					surfaced = true
				}
			}
			what := strings.TrimRight(calls[k-1], "0123456789")
			cls := "surfaced"
			letter := byte('y')
			switch {
			case got.timeout:
				cls, letter = "timeout", 't'
			case got.panicked != "":
				cls, letter = "panic", 'p'
			case !surfaced && len(errs) > 0:
				cls, letter = "error-without-cause", 'o'
			case !surfaced && ((deterministic && !bytes.Equal(s.buf, cleanBytes)) || rb != cleanRB):
				cls, letter = "swallowed-different-output", 'n'
			case !surfaced && (what == "R" || what == "A"):
				// a failed read of a read-back that nobody needed (the scanner's
				// read-ahead): same values read back, same bytes produced
				cls, letter = "read-fault-same-result", 's'
			case !surfaced:
				cls, letter = "swallowed", 'n'
			}
			e.Count(s.fired, fmt.Sprintf("sink|%s|%d|%v", id, k, only), fmt.Sprintf("sink/%s/%s", what, cls))
			if len(strictV) > 0 && !got.timeout && got.panicked == "" {
				failCapped(fmt.Sprintf("sink:later-call-lacks-first-error:seekable=%v", seekable),
					fmt.Sprintf("Writer program on a %s sink failing %s at sink call #%d/%d (%s): a Put / WriteCompressed / stream Write or Close returned the sink's error, but a later %s",
						map[bool]string{true: "seekable", false: "non-seekable"}[seekable], fmName(only), k, total, calls[k-1], strictV[0]),
					map[string]any{"program": p.String(), "seekable": seekable, "k": k, "fault": fmName(only),
						"failing_sink_call": calls[k-1], "later_calls_without_the_error": strictV})
			}
			if what == "W" || what == "S" || what == "C" {
				// the model's fault index counts Write, Seek and Close calls only
				letters = append(letters, letter)
			}
			if k > beforeClose && !got.timeout && got.panicked == "" {
				// a call made by Writer.Close itself: Close must return the error
				cl := byte('y')
				if !errors.Is(closeErr, errSink) {
					cl = 'n'
					failCapped(fmt.Sprintf("sink:close-result-lacks-sink-error:%s:seekable=%v", what, seekable),
						fmt.Sprintf("Writer.Close on a %s sink failing %s at sink call #%d/%d (%s), a call made by Close itself: the result of Close does not carry the sink's error (%v)",
							map[bool]string{true: "seekable", false: "non-seekable"}[seekable], fmName(only), k, total, calls[k-1], closeErr),
						map[string]any{"program": p.String(), "seekable": seekable, "k": k, "first_call_of_close": beforeClose + 1,
							"sink_calls_in_clean_run": total, "fault": fmName(only), "failing_sink_call": calls[k-1], "owns_sink": p.owns})
				}
				closeLetters = append(closeLetters, cl)
			}
			if letter != 'y' && letter != 's' {
				c := map[string]any{"program": p.String(), "seekable": seekable, "k": k, "sink_calls_in_clean_run": total,
					"fault": fmName(only), "failing_sink_call": calls[k-1], "errors_returned": len(errs),
					"output_equals_fault_free_output": bytes.Equal(s.buf, cleanBytes), "read_back_equals_fault_free": rb == cleanRB}
				if k >= 2 {
					c["sink_calls_before"] = strings.Join(calls[max(0, k-6):k-1], " ")
				}
				if len(errs) > 0 {
					c["first_error"] = errs[0].Error()
				}
				if got.panicked != "" {
					c["panic"] = got.panicked
				}
				failCapped(fmt.Sprintf("sink:%s:%s:seekable=%v", cls, what, seekable),
					fmt.Sprintf("Writer program on a %s sink failing %s at sink call #%d/%d (%s): no Writer call up to Close returned an error carrying the sink's (%s)",
						map[bool]string{true: "seekable", false: "non-seekable"}[seekable], fmName(only), k, total, calls[k-1], cls), c)
			}
		}
		if deterministic {
			e.Line("cases.txt", "%s.%s K %s %s", id, fmName(only), fmName(only), strings.Join(ops, " "))
			e.Line("impl.obs", "%s.%s %s", id, fmName(only), dash(string(letters)))
			e.Line("cases.txt", "%s.close.%s L %s %s", id, fmName(only), fmName(only), strings.Join(ops, " "))
			e.Line("impl.obs", "%s.close.%s %s", id, fmName(only), dash(string(closeLetters)))
		}
	}
	return total, len(cleanBytes)
}

func sinkSide(R *rand.Rand) {
	nprog := e.Pick(24, 300)
	for i := 0; i < nprog; i++ {
		p := genProg(R, i)
		for _, seekable := range []bool{false, true} {
			total, _ := evalSinkProgram(fmt.Sprintf("w%d.%v", i, seekable), p, seekable, true)
			if aborted() {
				return
			}
			if i < 4 {
				e.Sample(12, map[string]any{"sink_program": p.String(), "seekable": seekable, "sink_calls": total})
			}
		}
	}
}

// sweepSide moves every 4096-byte boundary of the Writer's output buffer
// through every offset of what Writer.Close emits (catalog, Info, cross-reference
// table or stream object, trailer): one small document per shape, padded by
// 0, 1, 2, ... bytes until the total length has crossed a buffer boundary by
// more than the length of the unpadded document.  Each padded program has a
// handful of sink calls; all of them are enumerated in both fault modes.
func sweepSide() {
	type shape struct {
		v     pdf.Version
		human bool
		pw    string
		owns  bool
	}
	shapes := []shape{
		{pdf.V1_4, false, "", false}, // cross-reference table
		{pdf.V1_7, false, "", true},  // cross-reference stream, object streams
		{pdf.V2_0, false, "", false}, // the same with /ID and UTF-8 strings
		{pdf.V1_7, true, "", false},  // human readable: table, no object streams
	}
	if e.Thorough {
		shapes = append(shapes, shape{pdf.V1_7, false, "u", false}, shape{pdf.V1_3, false, "", true}, shape{pdf.V2_0, true, "", true})
	}
	for si, sh := range shapes {
		mkProg := func(pad int) wprog {
			return wprog{v: sh.v, human: sh.human, pw: sh.pw, owns: sh.owns,
				steps: []wstep{{kind: 0, size: 1 + pad, seed: 1}, {kind: 2, size: 40, seed: 3, chunk: 64}}}
		}
		for _, seekable := range []bool{false, true} {
			// length of the unpadded document
			var base int
			{
				w := &fsink{}
				runProg(w, mkProg(0))
				base = len(w.buf)
			}
			first := 4096 - base - 8
			if first < 0 {
				first = 0
			}
			n := base + 24
			step := 1
			for d := 0; d < n; d += step {
				pad := first + d
				id := fmt.Sprintf("sw%d.%v.%d", si, seekable, pad)
				evalSinkProgram(id, mkProg(pad), seekable, d%16 == 0)
				if aborted() {
					return
				}
			}
			e.Sample(16, map[string]any{"sweep_shape": fmt.Sprintf("v=%v human=%v enc=%v owns=%v seekable=%v", sh.v, sh.human, sh.pw != "", sh.owns, seekable),
				"unpadded_bytes": base, "paddings": n})
		}
	}
}
