package main

// The error-handling policy of NewReader / MakeReader is a closure
// (`shouldExit := func(err error) bool {...}`), which the translator of
// /verif/translate (top-level, loop-free integer functions) cannot reach.  This
// file reads the closure from the source of the repository under test on every
// run and evaluates it symbolically over
//
//	mode in {Recover, Report, Stop} x err in {nil, malformed, not malformed}
//
// in a small statement subset (if / return / the append to r.Errors; conditions
// built from err == nil, IsMalformed(err), errors.As(err, &e), comparisons of
// opt.ErrorHandling with the mode constants, !, &&, ||).  The resulting decision
// table is written as cases for the extracted Coq function ErrFlow.should_exit.
// Source outside the subset gives the observation "untranslatable", which breaks
// the tie instead of guessing.

import (
	"fmt"
	"go/ast"
	"go/parser"
	"go/token"
	"reflect"
	"runtime"

	"seehuhn.de/go/pdf"
)

type polEnv struct {
	errNil, malformed bool
	mode              int
	recorded          bool
}

type polErr struct{ msg string }

func polFail(fset *token.FileSet, n ast.Node, what string) {
	panic(polErr{fmt.Sprintf("%s: %s", fset.Position(n.Pos()), what)})
}

var modeConst = map[string]int{
	"ErrorHandlingRecover": int(pdf.ErrorHandlingRecover),
	"ErrorHandlingReport":  int(pdf.ErrorHandlingReport),
	"ErrorHandlingStop":    int(pdf.ErrorHandlingStop),
}

func isIdent(e ast.Expr, name string) bool {
	id, ok := e.(*ast.Ident)
	return ok && id.Name == name
}

func (env *polEnv) evalBool(fset *token.FileSet, e ast.Expr) bool {
	switch x := e.(type) {
	case *ast.ParenExpr:
		return env.evalBool(fset, x.X)
	case *ast.Ident:
		if x.Name == "true" {
			return true
		}
		if x.Name == "false" {
			return false
		}
	case *ast.UnaryExpr:
		if x.Op == token.NOT {
			return !env.evalBool(fset, x.X)
		}
	case *ast.BinaryExpr:
		switch x.Op {
		case token.LAND:
			return env.evalBool(fset, x.X) && env.evalBool(fset, x.Y)
		case token.LOR:
			return env.evalBool(fset, x.X) || env.evalBool(fset, x.Y)
		case token.EQL, token.NEQ:
			var eq bool
			switch {
			case isIdent(x.X, "err") && isIdent(x.Y, "nil"):
				eq = env.errNil
			case isModeSelector(x.X):
				id, ok := x.Y.(*ast.Ident)
				v, known := 0, false
				if ok {
					v, known = modeConst[id.Name]
				}
				if !known {
					polFail(fset, x, "comparison of the mode with something that is not a mode constant")
				}
				eq = env.mode == v
			default:
				polFail(fset, x, "comparison outside the subset")
			}
			if x.Op == token.NEQ {
				return !eq
			}
			return eq
		}
	case *ast.CallExpr:
		if isIdent(x.Fun, "IsMalformed") && len(x.Args) == 1 && isIdent(x.Args[0], "err") {
			return !env.errNil && env.malformed
		}
		if sel, ok := x.Fun.(*ast.SelectorExpr); ok && isIdent(sel.X, "errors") && sel.Sel.Name == "As" &&
			len(x.Args) == 2 && isIdent(x.Args[0], "err") {
			// errors.As(err, &e) with e *MalformedFileError
			return !env.errNil && env.malformed
		}
	}
	polFail(fset, e, "condition outside the subset")
	return false
}

func isModeSelector(e ast.Expr) bool {
	sel, ok := e.(*ast.SelectorExpr)
	return ok && sel.Sel.Name == "ErrorHandling" && isIdent(sel.X, "opt")
}

// exec returns (returned, value).
func (env *polEnv) exec(fset *token.FileSet, stmts []ast.Stmt) (bool, bool) {
	for _, st := range stmts {
		switch x := st.(type) {
		case *ast.ReturnStmt:
			if len(x.Results) != 1 {
				polFail(fset, x, "return with other than one result")
			}
			return true, env.evalBool(fset, x.Results[0])
		case *ast.IfStmt:
			if x.Init != nil {
				polFail(fset, x, "if with an init statement")
			}
			if env.evalBool(fset, x.Cond) {
				if done, v := env.exec(fset, x.Body.List); done {
					return true, v
				}
			} else if x.Else != nil {
				blk, ok := x.Else.(*ast.BlockStmt)
				if !ok {
					blk = &ast.BlockStmt{List: []ast.Stmt{x.Else}}
				}
				if done, v := env.exec(fset, blk.List); done {
					return true, v
				}
			}
		case *ast.DeclStmt:
			// var e *MalformedFileError
		case *ast.AssignStmt:
			// r.Errors = append(r.Errors, e)
			ok := len(x.Lhs) == 1 && len(x.Rhs) == 1
			if ok {
				sel, isSel := x.Lhs[0].(*ast.SelectorExpr)
				call, isCall := x.Rhs[0].(*ast.CallExpr)
				ok = isSel && isCall && sel.Sel.Name == "Errors" && isIdent(call.Fun, "append")
			}
			if !ok {
				polFail(fset, x, "assignment other than the append to r.Errors")
			}
			env.recorded = true
		default:
			polFail(fset, st, fmt.Sprintf("statement %T outside the subset", st))
		}
	}
	return false, false
}

func findShouldExit(file string, funcName string) (*token.FileSet, *ast.FuncLit, error) {
	fset := token.NewFileSet()
	f, err := parser.ParseFile(fset, file, nil, 0)
	if err != nil {
		return nil, nil, err
	}
	var lit *ast.FuncLit
	for _, d := range f.Decls {
		fd, ok := d.(*ast.FuncDecl)
		if !ok || fd.Name.Name != funcName || fd.Body == nil {
			continue
		}
		ast.Inspect(fd.Body, func(n ast.Node) bool {
			as, ok := n.(*ast.AssignStmt)
			if ok && len(as.Lhs) == 1 && len(as.Rhs) == 1 && isIdent(as.Lhs[0], "shouldExit") {
				if fl, ok := as.Rhs[0].(*ast.FuncLit); ok {
					lit = fl
				}
			}
			return true
		})
	}
	if lit == nil {
		return nil, nil, fmt.Errorf("no `shouldExit := func(...)` in %s", funcName)
	}
	return fset, lit, nil
}

func policySide() {
	type target struct {
		name string
		fn   any
	}
	for _, t := range []target{{"NewReader", pdf.NewReader}, {"MakeReader", (*pdf.FileInfo).MakeReader}} {
		file, _ := runtime.FuncForPC(reflect.ValueOf(t.fn).Pointer()).FileLine(reflect.ValueOf(t.fn).Pointer())
		file = repoFile(file)
		fset, lit, err := findShouldExit(file, t.name)
		for mode := 0; mode <= 2; mode++ {
			for _, cls := range []string{"nil", "malformed", "other"} {
				id := fmt.Sprintf("pol.%s.%d.%s", t.name, mode, cls)
				e.Line("cases.txt", "%s X %d %s", id, mode, cls)
				obs := ""
				if err != nil {
					obs = "untranslatable"
					e.Sample(20, map[string]any{"policy_source_not_found": err.Error(), "file": file})
				} else {
					func() {
						defer func() {
							if p := recover(); p != nil {
								if pe, ok := p.(polErr); ok {
									obs = "untranslatable"
									e.Sample(20, map[string]any{"policy_source_outside_subset": pe.msg})
									return
								}
								panic(p)
							}
						}()
						env := &polEnv{errNil: cls == "nil", malformed: cls == "malformed", mode: mode}
						done, v := env.exec(fset, lit.Body.List)
						switch {
						case !done:
							obs = "untranslatable"
						case v && !env.recorded:
							obs = "exit"
						case v:
							obs = "exit+record"
						case env.recorded:
							obs = "record"
						case cls == "nil":
							obs = "go-on"
						default:
							obs = "ignore"
						}
					}()
				}
				e.Line("impl.obs", "%s %s", id, obs)
				e.Count(true, id, "policy-source/"+obs)
			}
		}
	}
}
