package main

// Document generators for the C19 harness.
//
// Two families:
//   - writer-made documents (pdf.Writer): xref tables / xref streams, object
//     streams (small and > one bufio chunk), filters (Flate with predictors,
//     LZW, ASCII85, ASCIIHex, RunLength, chains), encryption (RC4, AES-128,
//     AES-256), direct and indirect /Length (seekable / non-seekable sink),
//     stream bodies containing EOL+"endstream", a small page tree with
//     inherited attributes and content streams, an Info dictionary;
//   - hand-written documents (textDoc): /Prev chains, indirect /ID, hybrid
//     /XRefStm, and the "policy" documents in which exactly one phase of
//     NewReader meets malformed content.

import (
	"bytes"
	"encoding/hex"
	"fmt"
	"io"
	"math/rand/v2"
	"strings"

	"seehuhn.de/go/pdf"
)

type doc struct {
	name  string
	class string
	data  []byte
	pw    string
	refs  []pdf.Reference
	// policy documents: the phase of NewReader that meets malformed content
	// ("" for none) and whether the file has version 2.0 with a short /ID
	bad string
	// light: only the Get of the listed objects is explored (placement sweeps:
	// many near-identical documents)
	light bool
	// seqOnly: a damaged file; only SequentialScan+MakeReader is explored
	seqOnly bool
}

// memSink is an in-memory sink; the seekable variant lets the Writer fill
// /Length placeholders in place (direct /Length), the plain one forces an
// indirect /Length object.
type memSink struct {
	buf []byte
	pos int
}

func (s *memSink) Write(p []byte) (int, error) {
	end := s.pos + len(p)
	if end > len(s.buf) {
		s.buf = append(s.buf, make([]byte, end-len(s.buf))...)
	}
	copy(s.buf[s.pos:], p)
	s.pos = end
	return len(p), nil
}

type memSeekSink struct{ memSink }

func (s *memSeekSink) Seek(off int64, wh int) (int64, error) {
	switch wh {
	case io.SeekStart:
		s.pos = int(off)
	case io.SeekCurrent:
		s.pos += int(off)
	case io.SeekEnd:
		s.pos = len(s.buf) + int(off)
	}
	return int64(s.pos), nil
}

type wcfg struct {
	v        pdf.Version
	human    bool
	encrypt  bool
	seekable bool
	bigStm   bool // object stream larger than one 4096-byte read
	nPages   int
	filters  int // how many of the filter configurations to include
}

func (c wcfg) String() string {
	return fmt.Sprintf("v=%v human=%v enc=%v seek=%v big=%v pages=%d filters=%d", c.v, c.human, c.encrypt, c.seekable, c.bigStm, c.nPages, c.filters)
}

func incompressible(R *rand.Rand, n int) []byte {
	b := make([]byte, n)
	for i := range b {
		b[i] = byte(R.IntN(256))
	}
	return b
}

// filterConfigs lists (name, filters) pairs; the body written through them is
// chosen by the caller.
func filterConfigs(v pdf.Version) []struct {
	name string
	f    []pdf.Filter
} {
	res := []struct {
		name string
		f    []pdf.Filter
	}{
		{"flate", []pdf.Filter{pdf.FilterFlate{}}},
		{"flate-png", []pdf.Filter{pdf.FilterFlate{Predictor: pdf.FlatePredictorPNGUp, Colors: 1, BitsPerComponent: 8, Columns: 16}}},
		{"a85", []pdf.Filter{pdf.FilterASCII85{}}},
		{"ahx", []pdf.Filter{pdf.FilterASCIIHex{}}},
		{"rl", []pdf.Filter{pdf.FilterRunLength{}}},
		{"lzw", []pdf.Filter{pdf.FilterLZW{OffByOne: true}}},
		{"flate-tiff", []pdf.Filter{pdf.FilterFlate{Predictor: pdf.FlatePredictorTIFF, Colors: 3, BitsPerComponent: 8, Columns: 8}}},
		{"a85+flate", []pdf.Filter{pdf.FilterFlate{}, pdf.FilterASCII85{}}},
	}
	if v < pdf.V1_2 {
		return res[2:6]
	}
	return res
}

// writerDoc builds one document with the pdf.Writer.
func writerDoc(R *rand.Rand, c wcfg, idx int) (*doc, error) {
	opt := &pdf.WriterOptions{HumanReadable: c.human}
	pw := ""
	if c.encrypt {
		opt.UserPassword, opt.OwnerPassword, pw = "u", "o", "u"
	}
	var sink io.Writer
	var get func() []byte
	if c.seekable {
		s := &memSeekSink{}
		sink, get = s, func() []byte { return s.buf }
	} else {
		s := &memSink{}
		sink, get = s, func() []byte { return s.buf }
	}
	w, err := pdf.NewWriter(sink, c.v, opt)
	if err != nil {
		return nil, err
	}
	w.GetMeta().Info.Title = "title"
	var refs []pdf.Reference
	note := func(err error) {
		if err != nil {
			panic(fmt.Sprintf("writerDoc %v: %v", c, err))
		}
	}

	// plain objects of every syntactic kind
	a := w.Alloc()
	note(w.Put(a, pdf.Dict{"A": pdf.String("hello (world)"), "N": pdf.Integer(7), "R": pdf.Real(1.5), "B": pdf.Boolean(true), "Z": nil, "Nm": pdf.Name("x y")}))
	b := w.Alloc()
	note(w.Put(b, pdf.Array{pdf.Integer(1), a, pdf.String(incompressible(R, 40)), pdf.Name("N"), pdf.Array{}, pdf.Dict{}}))
	cc := w.Alloc()
	note(w.Put(cc, pdf.Integer(12345)))
	d := w.Alloc()
	note(w.Put(d, a)) // "N G obj 1 0 R endobj"
	refs = append(refs, a, b, cc, d)

	// composite objects longer than the scanner buffer (1024 bytes) and of sizes
	// that make their ends straddle buffer boundaries: refills happen in the
	// middle of a dictionary, an array, a string
	bigN := 1
	if idx >= 5 && !e.Thorough {
		bigN = 4 // quick tier: full size in the first documents only
	}
	bigDict := pdf.Dict{}
	for i := 0; i < (60+R.IntN(40))/bigN; i++ {
		bigDict[pdf.Name(fmt.Sprintf("Key%03d", i))] = pdf.Array{pdf.Integer(i), pdf.Name("Value"), pdf.String(fmt.Sprintf("entry %d of a long dictionary", i)), pdf.Boolean(i%2 == 0), nil}
	}
	bd := w.Alloc()
	note(w.Put(bd, bigDict))
	var bigArr pdf.Array
	for i := 0; i < (150+R.IntN(200))/bigN; i++ {
		switch i % 5 {
		case 0:
			bigArr = append(bigArr, pdf.Integer(i*7919))
		case 1:
			bigArr = append(bigArr, pdf.Dict{"I": pdf.Integer(i), "T": pdf.Boolean(true)})
		case 2:
			bigArr = append(bigArr, pdf.Name("false"))
		case 3:
			bigArr = append(bigArr, pdf.Boolean(false), nil)
		default:
			bigArr = append(bigArr, pdf.Real(0.5), a)
		}
	}
	ba := w.Alloc()
	note(w.Put(ba, bigArr))
	bs := w.Alloc()
	note(w.Put(bs, pdf.Dict{"Long": pdf.String(incompressible(R, (1500+R.IntN(800))/bigN)), "After": pdf.Array{pdf.Integer(1), pdf.Integer(2)}}))
	refs = append(refs, bd, ba, bs)

	// streams without filter whose raw body contains EOL+"endstream"
	for i, body := range [][]byte{
		[]byte("abc\nendstream\nXYZ and more data after the fake terminator\n"),
		append(append(incompressible(R, 600), []byte("\r\nendstream\r\nendobj\n")...), incompressible(R, 700)...),
		append([]byte("\nendstream"), incompressible(R, 1500)...),
	} {
		if c.encrypt && i > 0 {
			// the on-disk body is ciphertext; keep one for the record
			continue
		}
		ref := w.Alloc()
		ws, err := w.OpenStream(ref, pdf.Dict{"K": pdf.Integer(i)})
		note(err)
		_, err = ws.Write(body)
		note(err)
		note(ws.Close())
		refs = append(refs, ref)
	}

	// filtered streams, small (length known when the dictionary is written)
	// and large (placeholder: filled in place or indirect /Length)
	fcs := filterConfigs(c.v)
	for i := 0; i < c.filters && i < len(fcs); i++ {
		fc := fcs[(i+idx)%len(fcs)]
		for _, size := range []int{96, 3000 + 16*R.IntN(200)} {
			ref := w.Alloc()
			ws, err := w.OpenStream(ref, pdf.Dict{"F": pdf.Name(fc.name)}, fc.f...)
			note(err)
			body := incompressible(R, size)
			copy(body[10:], "\nendstream\n")
			_, err = ws.Write(body)
			note(err)
			note(ws.Close())
			refs = append(refs, ref)
		}
	}

	// object streams (written as plain objects where unavailable)
	var crefs []pdf.Reference
	var cobjs []pdf.Object
	for i := 0; i < 6; i++ {
		crefs = append(crefs, w.Alloc())
	}
	cobjs = append(cobjs,
		pdf.Array{pdf.Integer(1), pdf.String("compressed")},
		pdf.Boolean(true), pdf.Name("Nm"), pdf.Integer(-3),
		pdf.Dict{"X": a, "Y": pdf.Real(0.25)}, pdf.Boolean(false))
	note(w.WriteCompressed(crefs, cobjs...))
	refs = append(refs, crefs...)
	if c.bigStm {
		var r2 []pdf.Reference
		var o2 []pdf.Object
		for i := 0; i < 9; i++ {
			r2 = append(r2, w.Alloc())
			switch i % 3 {
			case 0:
				o2 = append(o2, pdf.String(incompressible(R, 900+R.IntN(300))))
			case 1:
				o2 = append(o2, pdf.Dict{"S": pdf.String(incompressible(R, 700)), "T": pdf.Boolean(true), "U": nil, "V": pdf.Name("false")})
			default:
				o2 = append(o2, pdf.Boolean(i%2 == 0))
			}
		}
		note(w.WriteCompressed(r2, o2...))
		refs = append(refs, r2...)
	}

	// page tree: root with an inheritable attribute, a nested node, content streams
	root := w.Alloc()
	var kids pdf.Array
	inner := w.Alloc()
	var innerKids pdf.Array
	for i := 0; i < c.nPages; i++ {
		pg := w.Alloc()
		ct := w.Alloc()
		ws, err := w.OpenStream(ct, nil, pdf.FilterCompress{})
		note(err)
		_, err = fmt.Fprintf(ws, "q %d 0 0 %d 0 0 cm BT /F1 12 Tf (page %d) Tj ET Q\n", i+1, i+1, i)
		note(err)
		if i == 0 {
			_, err = ws.Write([]byte(strings.Repeat("0 0 m 1 1 l S\n", 20+R.IntN(200))))
			note(err)
		}
		note(ws.Close())
		parent := root
		if i >= 1 {
			parent = inner
		}
		pd := pdf.Dict{"Type": pdf.Name("Page"), "Parent": parent, "Contents": ct}
		if i == 0 {
			pd["MediaBox"] = pdf.Array{pdf.Integer(0), pdf.Integer(0), pdf.Integer(100), pdf.Integer(100)}
		}
		note(w.Put(pg, pd))
		if i >= 1 {
			innerKids = append(innerKids, pg)
		} else {
			kids = append(kids, pg)
		}
		refs = append(refs, pg, ct)
	}
	if len(innerKids) > 0 {
		note(w.Put(inner, pdf.Dict{"Type": pdf.Name("Pages"), "Parent": root, "Kids": innerKids, "Count": pdf.Integer(len(innerKids)), "Rotate": pdf.Integer(90)}))
		kids = append(kids, inner)
		refs = append(refs, inner)
	}
	note(w.Put(root, pdf.Dict{"Type": pdf.Name("Pages"), "Kids": kids, "Count": pdf.Integer(c.nPages),
		"MediaBox": pdf.Array{pdf.Integer(0), pdf.Integer(0), pdf.Integer(612), pdf.Integer(792)}}))
	refs = append(refs, root)
	w.GetMeta().Catalog.Pages = root
	note(w.Close())

	class := "xreftable"
	if c.v >= pdf.V1_5 && !c.human {
		class = "xrefstream+objstm"
	}
	if c.encrypt {
		class += "+enc"
	}
	if c.seekable {
		class += "+directlen"
	} else {
		class += "+indirectlen"
	}
	if c.bigStm && c.v >= pdf.V1_5 && !c.human {
		class += "+bigobjstm"
	}
	return &doc{name: fmt.Sprintf("w%d[%v]", idx, c), class: class, data: get(), pw: pw, refs: refs}, nil
}

// ---------------------------------------------------------------------------
// hand-written documents

type textDoc struct {
	buf   bytes.Buffer
	offs  map[int]int
	order []int
}

func newTextDoc(version string) *textDoc {
	t := &textDoc{offs: map[int]int{}}
	t.buf.WriteString("%PDF-" + version + "\n%\xe2\xe3\xcf\xd3\n")
	return t
}

func (t *textDoc) obj(n int, body string) {
	t.offs[n] = t.buf.Len()
	t.order = append(t.order, n)
	fmt.Fprintf(&t.buf, "%d 0 obj\n%s\nendobj\n", n, body)
}

func (t *textDoc) stream(n int, dict string, body []byte) {
	t.offs[n] = t.buf.Len()
	t.order = append(t.order, n)
	fmt.Fprintf(&t.buf, "%d 0 obj\n<< %s /Length %d >>\nstream\n", n, dict, len(body))
	t.buf.Write(body)
	t.buf.WriteString("\nendstream\nendobj\n")
}

// xref writes a classical xref section for the objects written since the last
// section (objects 0..max in one subsection when contiguous from 0, else one
// subsection per object) and the trailer.
func (t *textDoc) xref(size int, trailer string, nums []int, withZero bool) int {
	pos := t.buf.Len()
	t.buf.WriteString("xref\n")
	if withZero {
		t.buf.WriteString("0 1\n0000000000 65535 f \n")
	}
	for _, n := range nums {
		fmt.Fprintf(&t.buf, "%d 1\n%010d 00000 n \n", n, t.offs[n])
	}
	fmt.Fprintf(&t.buf, "trailer\n<< /Size %d %s >>\nstartxref\n%d\n%%%%EOF\n", size, trailer, pos)
	return pos
}

const pagesObj = "<< /Type /Pages /Kids [] /Count 0 >>"

// handDocs returns the hand-written structural variants.
func handDocs() []*doc {
	var res []*doc
	R := func(ns ...int) []pdf.Reference {
		var r []pdf.Reference
		for _, n := range ns {
			r = append(r, pdf.NewReference(uint32(n), 0))
		}
		return r
	}

	{ // two revisions linked by /Prev; object 3 redefined; indirect /ID
		t := newTextDoc("1.4")
		t.obj(1, "<< /Type /Catalog /Pages 2 0 R >>")
		t.obj(2, pagesObj)
		t.obj(3, "(old value)")
		t.obj(4, "<< /Title (first) >>")
		p1 := t.xref(5, "/Root 1 0 R /Info 4 0 R", []int{1, 2, 3, 4}, true)
		t.obj(3, "(new value)")
		t.obj(5, "[ (0123456789abcdef) (0123456789abcdef) ]")
		t.obj(6, "[ 1 2 3 0 R ]")
		t.xref(7, fmt.Sprintf("/Root 1 0 R /Info 4 0 R /ID 5 0 R /Prev %d", p1), []int{3, 5, 6}, false)
		res = append(res, &doc{name: "hand-prev-indirectid", class: "hand:prev+indirect-id", data: t.buf.Bytes(), refs: R(1, 2, 3, 4, 5, 6)})
	}
	{ // stream with indirect /Length whose body contains EOL+endstream; the
		// length object comes after the stream
		t := newTextDoc("1.7")
		t.obj(1, "<< /Type /Catalog /Pages 2 0 R >>")
		t.obj(2, pagesObj)
		body := []byte("first part\nendstream\nendobj\nsecond part of the body 0123456789")
		t.offs[3] = t.buf.Len()
		fmt.Fprintf(&t.buf, "3 0 obj\n<< /Length 4 0 R >>\nstream\n")
		t.buf.Write(body)
		t.buf.WriteString("\nendstream\nendobj\n")
		t.obj(4, fmt.Sprint(len(body)))
		t.offs[5] = t.buf.Len()
		fmt.Fprintf(&t.buf, "5 0 obj\n<< /Length %d >>\nstream\r\n", len(body))
		t.buf.Write(body)
		t.buf.WriteString("\r\nendstream\nendobj\n")
		t.xref(6, "/Root 1 0 R", []int{1, 2, 3, 4, 5}, true)
		res = append(res, &doc{name: "hand-indirect-length", class: "hand:indirect-length+endstream-in-body", data: t.buf.Bytes(), refs: R(1, 2, 3, 4, 5)})
	}
	{ // stream whose /Length is wrong: extent recovered by scanning (trimTrailingEOL probe)
		t := newTextDoc("1.7")
		t.obj(1, "<< /Type /Catalog /Pages 2 0 R >>")
		t.obj(2, pagesObj)
		t.offs[3] = t.buf.Len()
		t.buf.WriteString("3 0 obj\n<< /Length 5 >>\nstream\nthe real body is longer than five bytes\r\nendstream\nendobj\n")
		t.offs[4] = t.buf.Len()
		t.buf.WriteString("4 0 obj\n<< >>\nstream\nno length at all\nendstream\nendobj\n")
		t.xref(5, "/Root 1 0 R", []int{1, 2, 3, 4}, true)
		res = append(res, &doc{name: "hand-wrong-length", class: "hand:wrong-length-recovery", data: t.buf.Bytes(), refs: R(1, 2, 3, 4)})
	}
	{ // two complete revisions whose trailers name different Info dictionaries:
		// a reader that falls back to the older trailer reports the wrong title
		t := newTextDoc("1.4")
		t.obj(1, "<< /Type /Catalog /Pages 2 0 R >>")
		t.obj(2, pagesObj)
		t.obj(3, "<< /Title (first revision) >>")
		p1 := t.xref(4, "/Root 1 0 R /Info 3 0 R", []int{1, 2, 3}, true)
		t.obj(4, "<< /Title (second revision) >>")
		t.xref(5, fmt.Sprintf("/Root 1 0 R /Info 4 0 R /Prev %d", p1), []int{4}, false)
		res = append(res, &doc{name: "hand-two-infos", class: "hand:prev+two-infos", data: t.buf.Bytes(), refs: R(1, 2, 3, 4)})
	}
	{ // cross-reference stream without filter and without object streams
		t := newTextDoc("1.5")
		t.obj(1, "<< /Type /Catalog /Pages 2 0 R >>")
		t.obj(2, pagesObj)
		t.obj(3, "(payload)")
		t.stream(5, "/K 1", []byte("body of a plain stream"))
		xpos := t.buf.Len()
		t.offs[4] = xpos
		var body []byte
		body = append(body, 0, 0, 0, 255)
		for _, n := range []int{1, 2, 3, 4, 5} {
			body = append(body, 1, byte(t.offs[n]>>8), byte(t.offs[n]), 0)
		}
		fmt.Fprintf(&t.buf, "4 0 obj\n<< /Type /XRef /Size 6 /W [ 1 2 1 ] /Root 1 0 R /Length %d >>\nstream\n", len(body))
		t.buf.Write(body)
		fmt.Fprintf(&t.buf, "\nendstream\nendobj\nstartxref\n%d\n%%%%EOF\n", xpos)
		res = append(res, &doc{name: "hand-xrefstream", class: "hand:xrefstream-plain", data: t.buf.Bytes(), refs: R(1, 2, 3, 5)})
	}
	{ // unfiltered object stream, larger than the scanner buffer, in a file with
		// an unfiltered cross-reference stream: no sticky decoder between the
		// scanner and the byte source
		t := newTextDoc("1.5")
		t.obj(1, "<< /Type /Catalog /Pages 2 0 R >>")
		t.obj(2, pagesObj)
		var hdr, body strings.Builder
		members := []string{
			"(" + strings.Repeat("a", 500) + ")", "<< /K (" + strings.Repeat("b", 450) + ") /V true >>",
			"[ 1 2 (" + strings.Repeat("c", 480) + ") ]", "(" + strings.Repeat("d", 300) + ")", "12345", "/Name",
		}
		for i, m := range members {
			fmt.Fprintf(&hdr, "%d %d ", 6+i, body.Len())
			body.WriteString(m + "\n")
		}
		t.stream(12, fmt.Sprintf("/Type /ObjStm /N %d /First %d", len(members), hdr.Len()), []byte(hdr.String()+body.String()))
		xpos := t.buf.Len()
		var xb []byte
		xb = append(xb, 0, 0, 0, 255)
		for n := 1; n <= 13; n++ {
			switch {
			case n >= 6 && n <= 11:
				xb = append(xb, 2, 0, 12, byte(n-6))
			case n == 13:
				xb = append(xb, 1, byte(xpos>>8), byte(xpos), 0)
			default:
				off, ok := t.offs[n]
				if !ok {
					xb = append(xb, 0, 0, 0, 0)
				} else {
					xb = append(xb, 1, byte(off>>8), byte(off), 0)
				}
			}
		}
		fmt.Fprintf(&t.buf, "13 0 obj\n<< /Type /XRef /Size 14 /W [ 1 2 1 ] /Root 1 0 R /Length %d >>\nstream\n", len(xb))
		t.buf.Write(xb)
		fmt.Fprintf(&t.buf, "\nendstream\nendobj\nstartxref\n%d\n%%%%EOF\n", xpos)
		res = append(res, &doc{name: "hand-objstm-plain", class: "hand:objstm-unfiltered+xrefstream", data: t.buf.Bytes(), refs: R(1, 2, 6, 7, 8, 9, 10, 11, 12)})
	}
	{ // long dictionary, long array and a stream whose dictionary is long: every
		// kind of composite object is being read when the scanner refills
		t := newTextDoc("1.4")
		t.obj(1, "<< /Type /Catalog /Pages 2 0 R >>")
		t.obj(2, pagesObj)
		var sb strings.Builder
		sb.WriteString("<<")
		for i := 0; i < 90; i++ {
			fmt.Fprintf(&sb, " /K%02d [ %d true null (value %d) /N%d ]", i, i*13, i, i)
		}
		sb.WriteString(" >>")
		t.obj(3, sb.String())
		sb.Reset()
		sb.WriteString("[")
		for i := 0; i < 400; i++ {
			fmt.Fprintf(&sb, " %d false /Nm << /A %d >>", i, i)
		}
		sb.WriteString(" ]")
		t.obj(4, sb.String())
		sb.Reset()
		for i := 0; i < 80; i++ {
			fmt.Fprintf(&sb, "/Pad%02d (0123456789) ", i)
		}
		t.stream(5, sb.String(), []byte("body after a long stream dictionary\nendstream\nmore"))
		t.xref(6, "/Root 1 0 R", []int{1, 2, 3, 4, 5}, true)
		res = append(res, &doc{name: "hand-big-composites", class: "hand:composites-longer-than-the-scanner-buffer", data: t.buf.Bytes(), refs: R(1, 2, 3, 4, 5)})
	}
	{ // three short revisions: the last 1024 bytes of the file contain several
		// startxref / %%EOF / trailer keywords, each revision changes object 3 and
		// the Info dictionary
		t := newTextDoc("1.4")
		t.obj(1, "<< /Type /Catalog /Pages 2 0 R >>")
		t.obj(2, pagesObj)
		t.obj(3, "(rev 1)")
		t.obj(4, "<< /Title (one) >>")
		p1 := t.xref(5, "/Root 1 0 R /Info 4 0 R", []int{1, 2, 3, 4}, true)
		t.obj(3, "(rev 2)")
		t.obj(5, "<< /Title (two) >>")
		p2 := t.xref(6, fmt.Sprintf("/Root 1 0 R /Info 5 0 R /Prev %d", p1), []int{3, 5}, false)
		t.obj(3, "(rev 3)")
		t.obj(6, "<< /Title (three) >>")
		t.xref(7, fmt.Sprintf("/Root 1 0 R /Info 6 0 R /Prev %d", p2), []int{3, 6}, false)
		res = append(res, &doc{name: "hand-three-revisions", class: "hand:three-short-revisions", data: append([]byte(nil), t.buf.Bytes()...), refs: R(1, 2, 3, 4, 5, 6)})
	}
	return res
}

// policyDocs: for each phase of NewReader that consults the error-handling
// policy, one document whose content is malformed in exactly that phase, and
// one clean reference document per shape.
func policyDocs() []*doc {
	var res []*doc
	R := func(ns ...int) []pdf.Reference {
		var r []pdf.Reference
		for _, n := range ns {
			r = append(r, pdf.NewReference(uint32(n), 0))
		}
		return r
	}
	type variant struct {
		bad, version, catalog, info, idobj, trailerExtra string
	}
	good := variant{bad: "", version: "1.7", catalog: "<< /Type /Catalog /Pages 2 0 R >>", info: "<< /Title (t) >>",
		idobj: "[ (0123456789abcdef) (0123456789abcdef) ]", trailerExtra: "/ID 5 0 R"}
	vs := []variant{good}
	v := good
	v.bad, v.idobj = "id", "[ (0123456789abcdef) (0123456789abcdef) (x) ]"
	vs = append(vs, v)
	v = good
	v.bad, v.version, v.trailerExtra = "idlen", "2.0", "/ID [ (short) (short) ]"
	vs = append(vs, v)
	v = good
	v.bad, v.catalog = "catd", "(not a dictionary)"
	vs = append(vs, v)
	v = good
	v.bad, v.catalog = "cat", "<< /Type /Catalog >>"
	vs = append(vs, v)
	v = good
	v.bad, v.info = "info", "[ 1 2 3 ]"
	vs = append(vs, v)
	for _, v := range vs {
		t := newTextDoc(v.version)
		t.obj(1, v.catalog)
		t.obj(2, pagesObj)
		t.obj(3, "(payload)")
		t.obj(4, v.info)
		t.obj(5, v.idobj)
		t.xref(6, "/Root 1 0 R /Info 4 0 R "+v.trailerExtra, []int{1, 2, 3, 4, 5}, true)
		name := "policy-" + v.bad
		if v.bad == "" {
			name = "policy-clean"
		}
		res = append(res, &doc{name: name, class: "policy:" + v.bad, data: append([]byte(nil), t.buf.Bytes()...), refs: R(1, 2, 3, 4, 5), bad: v.bad})
	}
	return res
}

// lookaheadDocs places tokens that the scanner recognises by looking ahead -
// "n g R" versus an integer, as a member of an object stream, inside an array
// and as a whole indirect object - so that the look-ahead straddles the
// scanner's 1024-byte buffer: the refill, and with it a fault, happens between
// the integer and what decides its meaning.
func lookaheadDocs() []*doc {
	var res []*doc
	R := func(ns ...int) []pdf.Reference {
		var r []pdf.Reference
		for _, n := range ns {
			r = append(r, pdf.NewReference(uint32(n), 0))
		}
		return r
	}
	step := 1
	if !e.Thorough {
		step = 2
	}
	// (a) members of an unfiltered object stream: the member "12   0 R" starts at
	// offset p of the decoded stream, p = 1000 .. 1030; an array with references
	// and an integer follow it
	for p := 1000; p <= 1030; p += step {
		t := newTextDoc("1.5")
		t.obj(1, "<< /Type /Catalog /Pages 2 0 R >>")
		t.obj(2, pagesObj)
		t.obj(12, "(target)")
		members := []string{"", "12   0 R", "[ 12 0 R 34 5 12 0 R 6 ]", "77", "<< /A 12 0 R /B 12 /C [ 1 2 ] >>"}
		// the index has fixed width, so the first member's length places the second
		hdrLen := 0
		build := func(fill int) (string, string) {
			members[0] = "(" + strings.Repeat("f", fill) + ")"
			var hdr, body strings.Builder
			for i, m := range members {
				fmt.Fprintf(&hdr, "%d %05d ", 20+i, body.Len())
				body.WriteString(m + "\n")
			}
			return hdr.String(), body.String()
		}
		h0, _ := build(0)
		hdrLen = len(h0)
		fill := p - hdrLen - 3 // "(" + fill + ")" + "\n"
		hdr, body := build(fill)
		if strings.Index(hdr+body, "12   0 R") != p {
			panic("lookaheadDocs: layout")
		}
		t.stream(9, fmt.Sprintf("/Type /ObjStm /N %d /First %d", len(members), len(hdr)), []byte(hdr+body))
		xpos := t.buf.Len()
		var xb []byte
		row := func(tp byte, a, b int) { xb = append(xb, tp, byte(a>>8), byte(a), byte(b)) }
		for n := 0; n <= 25; n++ {
			switch {
			case n == 0:
				row(0, 0, 255)
			case n >= 20 && n <= 24:
				row(2, 9, n-20)
			case n == 25:
				row(1, xpos, 0)
			default:
				if off, ok := t.offs[n]; ok {
					row(1, off, 0)
				} else {
					row(0, 0, 0)
				}
			}
		}
		fmt.Fprintf(&t.buf, "25 0 obj\n<< /Type /XRef /Size 26 /W [ 1 2 1 ] /Root 1 0 R /Length %d >>\nstream\n", len(xb))
		t.buf.Write(xb)
		fmt.Fprintf(&t.buf, "\nendstream\nendobj\nstartxref\n%d\n%%%%EOF\n", xpos)
		res = append(res, &doc{name: fmt.Sprintf("lookahead-objstm-%d", p), class: "hand:lookahead-straddles-buffer:objstm-member",
			data: append([]byte(nil), t.buf.Bytes()...), refs: R(21, 22, 23, 24), light: true})
	}
	// (b) top level: arrays "[ (filler) 12   0 R 34 56 ]" and whole objects
	// "% filler\n12   0 R" whose reference starts p bytes after "N 0 obj"
	{
		t := newTextDoc("1.4")
		t.obj(1, "<< /Type /Catalog /Pages 2 0 R >>")
		t.obj(2, pagesObj)
		t.obj(12, "(target)")
		var nums []int
		n := 30
		for p := 990; p <= 1030; p += step {
			head := fmt.Sprintf("%d 0 obj\n", n)
			fill := p - len(head) - len("[ () ")
			t.obj(n, "[ ("+strings.Repeat("a", fill)+") 12   0 R 34 56 12 0 R ]")
			nums = append(nums, n)
			n++
			head = fmt.Sprintf("%d 0 obj\n", n)
			fill = p - len(head) - len("%\n")
			t.obj(n, "%"+strings.Repeat("c", fill)+"\n12   0 R")
			nums = append(nums, n)
			n++
			head = fmt.Sprintf("%d 0 obj\n", n)
			fill = p - len(head) - len("<< /F () /R ")
			t.obj(n, "<< /F ("+strings.Repeat("d", fill)+") /R 12   0 R /I 12 /J 0 >>")
			nums = append(nums, n)
			n++
		}
		all := append([]int{1, 2, 12}, nums...)
		t.xref(n, "/Root 1 0 R", all, true)
		res = append(res, &doc{name: "lookahead-toplevel", class: "hand:lookahead-straddles-buffer:top-level",
			data: append([]byte(nil), t.buf.Bytes()...), refs: R(nums...), light: true})
	}
	return res
}

type nopWC struct{ *bytes.Buffer }

func (nopWC) Close() error { return nil }

func encodeWith(v pdf.Version, f pdf.Filter, body []byte) []byte {
	buf := &bytes.Buffer{}
	w, err := f.Encode(v, nopWC{buf})
	if err != nil {
		panic(err)
	}
	if _, err := w.Write(body); err != nil {
		panic(err)
	}
	if err := w.Close(); err != nil {
		panic(err)
	}
	return buf.Bytes()
}

// indirectParmDocs: stream dictionaries whose /Filter, /DecodeParms (the whole
// value and single array elements) and /Length are indirect references that
// DecodeStream / Get resolve, with parameters that change the decoded bytes
// (PNG predictor, TIFF predictor, LZW EarlyChange): a parameter object that is
// lost to a read fault must not silently become "no parameters".
func indirectParmDocs() []*doc {
	R := func(ns ...int) []pdf.Reference {
		var r []pdf.Reference
		for _, n := range ns {
			r = append(r, pdf.NewReference(uint32(n), 0))
		}
		return r
	}
	body := make([]byte, 160)
	for i := range body {
		body[i] = byte(i*7 + i/16)
	}
	png := encodeWith(pdf.V1_7, pdf.FilterFlate{Predictor: pdf.FlatePredictorPNGUp, Colors: 1, BitsPerComponent: 8, Columns: 4}, body)
	tiff := encodeWith(pdf.V1_7, pdf.FilterFlate{Predictor: pdf.FlatePredictorTIFF, Colors: 1, BitsPerComponent: 8, Columns: 8}, body)
	lzw0 := encodeWith(pdf.V1_7, pdf.FilterLZW{OffByOne: false}, bytes.Repeat(body, 4))
	hexpng := []byte(hex.EncodeToString(png) + ">")

	t := newTextDoc("1.7")
	t.obj(1, "<< /Type /Catalog /Pages 2 0 R >>")
	t.obj(2, pagesObj)
	// array form, the parameter dictionary of the only filter is a reference
	t.stream(3, "/Filter [ /FlateDecode ] /DecodeParms [ 4 0 R ]", png)
	t.obj(4, "<< /Predictor 12 /Columns 4 >>")
	// name form, both values are references
	t.stream(5, "/Filter 6 0 R /DecodeParms 7 0 R", tiff)
	t.obj(6, "/FlateDecode")
	t.obj(7, "<< /Predictor 2 /Columns 8 >>")
	// the arrays themselves and their elements are references
	t.stream(8, "/Filter 9 0 R /DecodeParms 10 0 R", lzw0)
	t.obj(9, "[ 11 0 R ]")
	t.obj(10, "[ 12 0 R ]")
	t.obj(11, "/LZWDecode")
	t.obj(12, "<< /EarlyChange 0 >>")
	// two filters: null for the first, a reference for the second
	t.stream(13, "/Filter [ /ASCIIHexDecode 6 0 R ] /DecodeParms [ null 4 0 R ]", hexpng)
	// indirect /Length on top of indirect parameters, the length object comes later
	t.offs[14] = t.buf.Len()
	fmt.Fprintf(&t.buf, "14 0 obj\n<< /Filter /FlateDecode /DecodeParms 4 0 R /Length 15 0 R >>\nstream\n")
	t.buf.Write(png)
	t.buf.WriteString("\nendstream\nendobj\n")
	t.obj(15, fmt.Sprint(len(png)))
	t.xref(16, "/Root 1 0 R", []int{1, 2, 3, 4, 5, 6, 7, 8, 9, 10, 11, 12, 13, 14, 15}, true)
	return []*doc{{name: "hand-indirect-filter-parameters", class: "hand:indirect-Filter-DecodeParms-Length",
		data: append([]byte(nil), t.buf.Bytes()...), refs: R(3, 5, 8, 13, 14)}}
}

// damagedDocs: the multi-revision documents with one structural keyword
// overwritten (same length), each keyword of each revision in turn - the files
// SequentialScan+MakeReader exists for.  The fault-free result on the damaged
// file is the reference.
func damagedDocs(base []*doc) []*doc {
	var res []*doc
	for _, b := range base {
		if b.name != "hand-two-infos" && b.name != "hand-three-revisions" && b.name != "hand-prev-indirectid" && b.name != "hand-xrefstream" {
			continue
		}
		for _, kw := range []string{"\nxref\n", "\ntrailer\n", "\nstartxref\n", "%%EOF", "/XRef"} {
			from := 0
			occ := 0
			for {
				i := bytes.Index(b.data[from:], []byte(kw))
				if i < 0 {
					break
				}
				i += from
				from = i + 1
				occ++
				data := append([]byte(nil), b.data...)
				for j := i; j < i+len(kw); j++ {
					if data[j] != '\n' {
						data[j] = 'q'
					}
				}
				res = append(res, &doc{name: fmt.Sprintf("%s-damaged-%s-%d", b.name, strings.Trim(kw, "\n%/"), occ),
					class: "damaged:" + strings.TrimPrefix(b.class, "hand:") + ":" + strings.Trim(kw, "\n") + " overwritten",
					data: data, refs: b.refs, seqOnly: true})
			}
		}
	}
	return res
}
