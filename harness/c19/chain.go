package main

// Correspondence for coq/C19/Chain.v: the real sourceErrChecker and
// sourceAwareReader (wired by the verif hook pdf.VerifSourceAwareChain exactly
// as DecodeStream wires them) are driven with table-defined layer stacks that
// swallow, delay, reclassify or turn into EOF whatever the source reports, over
// scripted sources.  The same (source script, table) pairs are run through the
// extracted model.  Direct oracle (`promote`): whenever the chain reports any
// error, EOF included, after the source has returned a non-EOF error, the
// consumer must see the first such source error itself.

import (
	"errors"
	"fmt"
	"io"
	"math/rand/v2"
	"strings"

	"seehuhn.de/go/pdf"
)

var (
	errSrcX = errors.New("injected source error X")
	errSrcY = errors.New("injected source error Y")
)

// scripted source: items d<k> data, e EOF, x / y errors, b<k> data+X, g<k> data+EOF
type scriptSrc struct {
	items []string
	i     int
	first error // first non-EOF error returned so far
}

func (s *scriptSrc) Read(p []byte) (int, error) {
	if s.i >= len(s.items) {
		return 0, io.EOF
	}
	it := s.items[s.i]
	fill := byte(s.i)
	s.i++
	n := 0
	var err error
	switch it[0] {
	case 'd', 'b', 'g':
		fmt.Sscanf(it[1:], "%d", &n)
		if n > len(p) {
			n = len(p)
		}
		for j := 0; j < n; j++ {
			p[j] = fill
		}
		if it[0] == 'b' {
			err = errSrcX
		} else if it[0] == 'g' {
			err = io.EOF
		}
	case 'e':
		err = io.EOF
	case 'x':
		err = errSrcX
	case 'y':
		err = errSrcY
	}
	if err != nil && err != io.EOF && s.first == nil {
		s.first = err
	}
	return n, err
}

// tableLayer mirrors Chain.layer_table.
type tableLayer struct {
	src     io.Reader
	tbl     []string // "<n><mode>", mode in P N E M D
	pending error
}

func modeErr(mode byte, e error) error {
	if e == nil {
		return nil
	}
	switch mode {
	case 'P':
		return e
	case 'N', 'D':
		return nil
	case 'E':
		return io.EOF
	case 'M':
		if e == io.EOF || pdf.IsMalformed(e) {
			return e
		}
		return &pdf.MalformedFileError{Err: e}
	}
	panic("bad mode")
}

func (l *tableLayer) Read(p []byte) (int, error) {
	if len(l.tbl) == 0 {
		l.pending = nil
		return 0, io.EOF
	}
	item := l.tbl[0]
	l.tbl = l.tbl[1:]
	n := int(item[0] - '0')
	mode := item[1]
	if l.pending != nil {
		e := l.pending
		l.pending = nil
		if mode == 'D' {
			return 0, e
		}
		return 0, modeErr(mode, e)
	}
	total := 0
	var first error
	for i := 0; i < n; i++ {
		k, err := l.src.Read(p[total:min(len(p), total+16)])
		total += k
		if err != nil && first == nil {
			first = err
		}
	}
	if mode == 'D' {
		l.pending = first
	}
	return total, modeErr(mode, first)
}

func (l *tableLayer) Close() error { return nil }

func errLetter(err error) string {
	switch {
	case err == nil:
		return "-"
	case err == io.EOF:
		return "E"
	case pdf.IsMalformed(err):
		return "M"
	case err == errSrcX:
		return "X"
	case err == errSrcY:
		return "Y"
	default:
		return "O"
	}
}

func chainCase(id string, items, tbl []string, ncalls int) {
	src := &scriptSrc{items: items}
	rd := pdf.VerifSourceAwareChain(src, func(r io.Reader) io.ReadCloser {
		return &tableLayer{src: r, tbl: append([]string(nil), tbl...)}
	})
	e.Line("cases.txt", "%s C %d %s | %s", id, ncalls, strings.Join(items, " "), strings.Join(tbl, " "))
	var obs []string
	buf := make([]byte, 256)
	sawErr := false
	for j := 0; j < ncalls; j++ {
		n, err := rd.Read(buf)
		obs = append(obs, fmt.Sprintf("%d:%s", n, errLetter(err)))
		if err != nil && src.first != nil {
			sawErr = true
			if err != src.first {
				failCapped("chain:source-error-not-promoted",
					fmt.Sprintf("sourceAwareReader.Read reported %q although the source had failed with %q", err, src.first),
					map[string]any{"source": items, "layer_table": tbl, "call": j + 1})
			}
		}
	}
	e.Line("impl.obs", "%s %s", id, strings.Join(obs, " "))
	cls := "no-source-error"
	if src.first != nil {
		cls = "source-error-unreported"
		if sawErr {
			cls = "source-error-promoted"
		}
	}
	e.Count(src.first != nil, id+strings.Join(items, " ")+"|"+strings.Join(tbl, " "), "chain/"+cls)
}

func chainSide(R *rand.Rand) {
	srcAlphabet := []string{"d1", "d3", "e", "x", "y", "b2", "g2", "d2", "x"}
	modes := "PNEMD"
	// fixed corpus: the behaviours named in the design
	fixed := []struct {
		items, tbl []string
	}{
		{[]string{"d2", "x"}, []string{"1P", "1E", "1P"}},       // error taken for end of data
		{[]string{"d2", "x", "d1"}, []string{"2D", "0P", "1P"}}, // held back, delivered later
		{[]string{"x", "y"}, []string{"1N", "1M", "1E"}},        // first error wins
		{[]string{"b2", "e"}, []string{"1M", "1P"}},             // data together with the error
		{[]string{"d1", "e", "x"}, []string{"2P", "1P"}},        // EOF is not a source error
	}
	for i, f := range fixed {
		chainCase(fmt.Sprintf("c.fixed%d", i), f.items, f.tbl, len(f.tbl)+1)
	}
	n := e.Pick(3000, 60000)
	for i := 0; i < n; i++ {
		var items, tbl []string
		for j, k := 0, R.IntN(5); j < k; j++ {
			items = append(items, srcAlphabet[R.IntN(len(srcAlphabet))])
		}
		for j, k := 0, 1+R.IntN(4); j < k; j++ {
			tbl = append(tbl, fmt.Sprintf("%d%c", R.IntN(3), modes[R.IntN(len(modes))]))
		}
		chainCase(fmt.Sprintf("c.%d", i), items, tbl, len(tbl)+1)
	}
	// DecodeStream failing while the chain is built
	for i := 0; i < e.Pick(200, 2000); i++ {
		var items []string
		for j, k := 0, R.IntN(4); j < k; j++ {
			items = append(items, srcAlphabet[R.IntN(len(srcAlphabet))])
		}
		reads := R.IntN(4)
		src := &scriptSrc{items: items}
		ctorErr := error(&pdf.MalformedFileError{Err: errors.New("bad filter header")})
		got := pdf.VerifPromote(src, reads, ctorErr)
		id := fmt.Sprintf("c.p%d", i)
		e.Line("cases.txt", "%s P %d %s", id, reads, strings.Join(items, " "))
		e.Line("impl.obs", "%s %s", id, errLetter(got))
		if src.first != nil && got != src.first {
			failCapped("chain:constructor-error-not-promoted", fmt.Sprintf("promote returned %q although the source had failed with %q", got, src.first),
				map[string]any{"source": items, "reads": reads})
		}
		e.Count(src.first != nil, id+strings.Join(items, " "), "chain/ctor")
	}
}
