// C19 harness: I/O failures surface as I/O failures.
//
// Read side: every generated document is opened (three error-handling modes,
// and through SequentialScan+MakeReader), every object is fetched, every stream
// drained, catalog / Info / page tree decoded, with the byte source failing at
// EVERY ReadAt index k, both "from k on" and "only k".  Each faulted call is
// judged directly (the oracle: same result, or an error that carries the
// injected error and is not malformed-classified) and its outcome letter is
// written to impl.obs next to the case line from which the extracted Coq
// program (coq/C19/ErrFlow.v) computes its prediction.
//
// Sink side: see sink.go.
package main

import (
	"crypto/sha256"
	"fmt"
	"math/rand/v2"
	"os"
	"strings"
	"time"

	"seehuhn.de/go/pdf"
	"seehuhn.de/go/pdf/pagetree"
	"seehuhn.de/go/pdf/verifharness/common"
)

var e *common.Env

var watchdog = 20 * time.Second

var outcomeNames = map[byte]string{'s': "same", 'i': "io", 'm': "malformed", 'd': "different-data", 'o': "error-without-cause", 't': "timeout", 'p': "panic"}

func caseInfo(d *doc, what string, k, total int, fm fmode, l label, got result) map[string]any {
	c := map[string]any{
		"doc": d.name, "doc_class": d.class, "call": what, "k": k, "reads_in_clean_run": total,
		"fault_error_shape": curShape.name, "fault_error_text": errInj.Error(),
		"fault": fm.String() + "-k",
		"read_phase": l.phase, "read_kind": string(l.kind),
		"doc_sha256": fmt.Sprintf("%x", sha256.Sum256(d.data)), "doc_len": len(d.data),
		"password": d.pw,
	}
	if got.err != nil {
		c["error"] = got.err.Error()
		c["is_malformed"] = pdf.IsMalformed(got.err)
	}
	if got.data != "" && len(got.data) < 300 {
		c["returned"] = got.data
	}
	if len(d.data) <= 2048 {
		c["doc_hex"] = common.Hex(d.data)
	}
	return c
}

// judge records one faulted call.
func judge(d *doc, what string, opKind string, k, total int, fm fmode, l label, clean, got result) byte {
	o := classify(clean, got)
	nontrivial := got.fired || got.timeout
	cls := fmt.Sprintf("%s/%c/%s", opKind, l.kind, outcomeNames[o])
	if curShape.name != "plain" {
		cls = "shape:" + curShape.name + "/" + outcomeNames[o]
	}
	e.Count(nontrivial, fmt.Sprintf("%s|%s|%d|%v|%s", d.name, what, k, fm, curShape.name), cls)
	if o != 's' && o != 'i' {
		ph := l.phase
		if ph == "" {
			ph = "-"
		}
		sig := fmt.Sprintf("read:%s:%s:%s:%c", outcomeNames[o], opKind, ph, l.kind)
		if fm == fmPrefix {
			sig = fmt.Sprintf("read:%s:%s:%s:%c:delivered-prefix-with-error", outcomeNames[o], opKind, ph, l.kind)
		} else if fm == fmOne {
			// one cause whatever the call: scanner.PeekN hands out a short view
			// without the error its refill has just latched
			sig = fmt.Sprintf("read:%s:one-byte-read-with-error", outcomeNames[o])
		} else if opKind == "seqopen" && ph == "xref" {
			// MakeReader's getTrailer: one cause whatever kind of read fails
			sig = fmt.Sprintf("read:%s:MakeReader.getTrailer", outcomeNames[o])
		}
		if curShape.name == "wrapEOF" || curShape.name == "isEOF" {
			// one cause whatever the call: errors.Is(err, io.EOF) where == is meant
			sig = fmt.Sprintf("read:%s:source-error-wrapping-EOF", outcomeNames[o])
		} else if curShape.name != "plain" {
			sig += ":fault-error=" + curShape.name
		}
		msg := fmt.Sprintf("%s of %s with the byte source failing %s (error shape %s: %q) at ReadAt #%d/%d (%s/%c): %s",
			what, d.class, fm.String(), curShape.name, errInj.Error(), k, total, l.phase, l.kind, outcomeNames[o])
		if got.err != nil {
			msg += ": " + trunc(got.err.Error(), 120)
		}
		failCapped(sig, msg, caseInfo(d, what, k, total, fm, l, got))
	}
	return o
}

// failCapped records at most a few failing inputs per signature: the common
// library keeps 200 records per run, and one open finding must not crowd out a
// different failure found later in the run.
var failsPerSig = map[string]int{}

func failCapped(sig, what string, c any) {
	failsPerSig[sig]++
	if failsPerSig[sig] <= 6 {
		e.Fail(sig, what, c)
	}
}

// corrLine writes a line of the model correspondence.  The extracted programs
// do not depend on what the injected error looks like, so only the runs with
// the plain sentinel are compared with them; the other error shapes are judged
// by the direct oracle.
var noModel bool

func corrLine(name, format string, a ...any) {
	if curShape.name == "plain" && !noModel {
		e.Line(name, format, a...)
	}
}

func trunc(s string, n int) string {
	if len(s) > n {
		return s[:n] + "..."
	}
	return s
}

func fmName(only bool) string { // sink side: two modes
	if only {
		return "only"
	}
	return "from"
}

// groupsString renders a labelled trace as "phase:kinds phase:kinds ...".
func groupsString(ls []label) string {
	var parts []string
	cur := ""
	var kinds []byte
	flush := func() {
		if len(kinds) > 0 {
			parts = append(parts, cur+":"+string(kinds))
		}
		kinds = nil
	}
	for _, l := range ls {
		ph := l.phase
		if ph == "?" {
			// a call site inside NewReader/MakeReader that the keyword table does
			// not know: keep the read in the phase it follows
			ph = cur
			if ph == "" {
				ph = "hdr"
			}
		}
		if ph != cur {
			flush()
			cur = ph
		}
		kinds = append(kinds, l.kind)
	}
	flush()
	if len(parts) == 0 {
		return "-"
	}
	return strings.Join(parts, " ")
}

func openWith(src *faultSrc, d *doc, m pdf.ReaderErrorHandling) (*pdf.Reader, error) {
	return pdf.NewReader(src, int64(len(src.data)), &pdf.ReaderOptions{ErrorHandling: m, Password: d.pw})
}

func cleanClass(r result) string {
	switch {
	case r.err == nil:
		return "ok"
	case pdf.IsMalformed(r.err):
		return "malformed"
	default:
		return "other"
	}
}

// exploreOpen enumerates every fault index of NewReader in one mode.
func exploreOpen(di int, d *doc, mi int) {
	m := modes[mi]
	var labels []label
	src := &faultSrc{data: d.data, labels: &labels}
	var nerr int
	clean := guarded(watchdog, func() (string, error) {
		r, err := openWith(src, d, m.m)
		if err != nil {
			return "", err
		}
		nerr = len(r.Errors)
		return metaString(r), nil
	})
	total := src.n
	if clean.skipped {
		return
	}
	if clean.timeout || clean.panicked != "" {
		failCapped("read:clean-run-broken", "fault-free NewReader hangs or panics on "+d.class, caseInfo(d, "NewReader/"+m.name, 0, total, fmFrom, label{}, clean))
		return
	}
	if clean.err != nil && d.bad == "" {
		panic(fmt.Sprintf("generated document %s does not open: %v", d.name, clean.err))
	}
	rec := "-"
	if clean.err == nil {
		rec = fmt.Sprint(nerr)
	}
	for _, fm := range activeModes {
		id := fmt.Sprintf("%s.open.%s.%s", docID(di), m.name, fm.String())
		bad := d.bad
		if bad == "" {
			bad = "-"
		}
		corrLine("cases.txt", "%s O %d %s %s %s", id, int(m.m), fm.String(), bad, groupsString(labels))
		letters := make([]byte, 0, total)
		for k := 1; k <= total; k++ {
			fs := &faultSrc{data: d.data}
			fs.arm(k, fm)
			got := guarded(watchdog, func() (string, error) {
				r, err := openWith(fs, d, m.m)
				if err != nil {
					return "", err
				}
				return metaString(r), nil
			})
			if got.skipped {
				return
			}
			got.fired = fs.fired
			letters = append(letters, judge(d, "NewReader/"+m.name, "open", k, total, fm, labels[k-1], clean, got))
		}
		corrLine("impl.obs", "%s %s clean=%s rec=%s", id, dash(string(letters)), cleanClass(clean), rec)
	}
}

// prefixGrid: the numbers of bytes a failing call may deliver before the error.
// Thorough tier: every n; quick tier: a grid, plus the positions just before, at
// and after the end of every structural keyword in the requested range.
// prefixAllN: thorough tier, hand-written documents: every n
var prefixAllN bool

func prefixGrid(data []byte, off, length int64) []int {
	avail := 0
	if off >= 0 && off < int64(len(data)) {
		avail = int(min(length, int64(len(data))-off))
	}
	seen := map[int]bool{}
	var res []int
	add := func(n int) {
		if n >= 0 && n < avail && !seen[n] {
			seen[n] = true
			res = append(res, n)
		}
	}
	if (e.Thorough && prefixAllN) || avail <= 48 {
		for n := 0; n < avail; n++ {
			add(n)
		}
		return res
	}
	for n := 0; n < avail; n += 37 {
		add(n)
	}
	add(avail - 1)
	win := data[off : off+int64(avail)]
	for _, kw := range []string{"startxref", "%%EOF", "trailer", "xref", "endobj", "endstream", " obj", "/Prev", "/Root", "%PDF-"} {
		from := 0
		for {
			i := strings.Index(string(win[from:]), kw)
			if i < 0 {
				break
			}
			i += from
			for _, n := range []int{i, i + 1, i + len(kw) - 1, i + len(kw), i + len(kw) + 1, i + len(kw) + 8} {
				add(n)
			}
			from = i + 1
		}
	}
	return res
}

// exploreOpenPrefix: for every ReadAt of NewReader, every delivered-prefix
// length of the grid, the call returning those bytes together with the error.
func exploreOpenPrefix(di int, d *doc, mi int) {
	m := modes[mi]
	var labels []label
	var reqs [][2]int64
	src := &faultSrc{data: d.data, labels: &labels, reqs: &reqs}
	clean := guarded(watchdog, func() (string, error) {
		r, err := openWith(src, d, m.m)
		if err != nil {
			return "", err
		}
		return metaString(r), nil
	})
	total := src.n
	if clean.skipped || clean.timeout || clean.panicked != "" {
		return
	}
	for k := 1; k <= total; k++ {
		for _, n := range prefixGrid(d.data, reqs[k-1][0], reqs[k-1][1]) {
			fs := &faultSrc{data: d.data, prefixN: n}
			fs.arm(k, fmPrefix)
			got := guarded(watchdog, func() (string, error) {
				r, err := openWith(fs, d, m.m)
				if err != nil {
					return "", err
				}
				return metaString(r), nil
			})
			if got.skipped {
				return
			}
			got.fired = fs.fired
			judge(d, fmt.Sprintf("NewReader/%s [failing call delivers %d of %d bytes]", m.name, n, reqs[k-1][1]), "open", k, total, fmPrefix, labels[k-1], clean, got)
		}
	}
}

func dash(s string) string {
	if s == "" {
		return "-"
	}
	return s
}

// exploreOps: Get / DecodeStream / typed decodes on a Reader opened without
// faults; every fault index local to the call.
func exploreOps(di int, d *doc, allModes bool) {
	src := &faultSrc{data: d.data}
	r, err := openWith(src, d, pdf.ErrorHandlingRecover)
	if err != nil {
		if d.bad == "" {
			panic(err)
		}
		r, err = openWith(src, d, pdf.ErrorHandlingReport)
		if err != nil {
			return
		}
	}
	// the data-with-error modes triple the work: in the quick tier they are
	// enumerated for every open path of every document, and for the Get / drain /
	// decode calls of the hand-written documents and the first writer-made ones
	opModes := activeModes
	if !allModes && len(opModes) > 2 && curShape.name == "plain" {
		opModes = fmodes[:2]
	}
	streams := map[pdf.Reference]*pdf.Stream{}
	for _, ref := range d.refs {
		o, err := r.Get(ref, true)
		if err != nil {
			continue
		}
		if stm, ok := o.(*pdf.Stream); ok {
			streams[ref] = stm
		}
	}
	var pages []pdf.Reference
	if r.GetMeta().Catalog != nil && r.GetMeta().Catalog.Pages != 0 {
		pages, _ = pagetree.FindPages(r)
	}
	for j, o := range opsFor(d, streams, pages) {
		var labels []label
		src.arm(0, fmFrom)
		src.labels = &labels
		clean := guarded(watchdog, func() (string, error) { return o.run(r) })
		src.labels = nil
		total := src.n
		if clean.skipped {
			return
		}
		if clean.timeout || clean.panicked != "" {
			failCapped("read:clean-run-broken", "fault-free "+o.name+" hangs or panics on "+d.class, caseInfo(d, o.name, 0, total, fmFrom, label{}, clean))
			continue
		}
		cb := 0
		if clean.err != nil {
			cb = 1
		}
		for _, fm := range opModes {
			id := fmt.Sprintf("%s.op%d.%s", docID(di), j, fm.String())
			corrLine("cases.txt", "%s %c %s %d %s", id, o.kind, fm.String(), cb, kindsString(labels))
			letters := make([]byte, 0, total)
			for k := 1; k <= total; k++ {
				src.arm(k, fm)
				got := guarded(watchdog, func() (string, error) { return o.run(r) })
				if got.skipped {
					return
				}
				got.fired = src.fired
				letters = append(letters, judge(d, o.name, opKindName(o.kind), k, total, fm, labels[k-1], clean, got))
				if got.timeout {
					// the source may still be in use by the stuck goroutine
					src = &faultSrc{data: d.data}
					r, err = openWith(src, d, pdf.ErrorHandlingRecover)
					if err != nil {
						return
					}
					continue
				}
				if fm != fmFrom {
					// the fault is over: the same call must again give the clean result
					src.arm(0, fmFrom)
					again := guarded(watchdog, func() (string, error) { return o.run(r) })
					if again.skipped {
						return
					}
					if c := classify(clean, again); c != 's' {
						failCapped("read:poisoned-after-one-shot-fault:"+opKindName(o.kind),
							fmt.Sprintf("%s of %s: after a one-shot fault at ReadAt #%d the fault-free repeat of the call is %s", o.name, d.class, k, outcomeNames[c]),
							caseInfo(d, o.name, k, total, fm, labels[k-1], again))
					}
				}
			}
			corrLine("impl.obs", "%s %s", id, dash(string(letters)))
		}
	}
}

func opKindName(k byte) string {
	switch k {
	case 'G':
		return "get"
	case 'D':
		return "drain"
	default:
		return "decode"
	}
}

// exploreSeq: SequentialScan + MakeReader + Get of every object as one call.
func exploreSeq(di int, d *doc, mi int) {
	m := modes[mi]
	run := func(src *faultSrc) (string, error) {
		fi, err := pdf.SequentialScan(src, int64(len(src.data)))
		if err != nil {
			return "", err
		}
		// what the scan found: every object with its position, type and Broken flag
		var sb strings.Builder
		for si, sec := range fi.Sections {
			for _, o := range sec.Objects {
				fmt.Fprintf(&sb, "s%d:%v@%d-%d:%s/%s:broken=%v;", si, o.Reference, o.ObjStart, o.ObjEnd, o.Type, o.Subtype, o.Broken)
			}
		}
		r, err := fi.MakeReader(&pdf.ReaderOptions{ErrorHandling: m.m, Password: d.pw})
		if err != nil {
			return "", err
		}
		return sb.String() + metaString(r), nil
	}
	var labels []label
	src := &faultSrc{data: d.data, labels: &labels}
	clean := guarded(watchdog, func() (string, error) { return run(src) })
	total := src.n
	if clean.skipped {
		return
	}
	if clean.timeout || clean.panicked != "" {
		failCapped("read:clean-run-broken", "fault-free SequentialScan/MakeReader hangs or panics on "+d.class, caseInfo(d, "SequentialScan+MakeReader/"+m.name, 0, total, fmFrom, label{}, clean))
		return
	}
	for _, fm := range activeModes {
		id := fmt.Sprintf("%s.seq.%s.%s", docID(di), m.name, fm.String())
		bad := d.bad
		if bad == "" {
			bad = "-"
		}
		corrLine("cases.txt", "%s Q %d %s %s %s", id, int(m.m), fm.String(), bad, groupsString(labels))
		letters := make([]byte, 0, total)
		for k := 1; k <= total; k++ {
			fs := &faultSrc{data: d.data}
			fs.arm(k, fm)
			got := guarded(watchdog, func() (string, error) { return run(fs) })
			if got.skipped {
				return
			}
			got.fired = fs.fired
			letters = append(letters, judge(d, "SequentialScan+MakeReader/"+m.name, "seqopen", k, total, fm, labels[k-1], clean, got))
		}
		corrLine("impl.obs", "%s %s", id, dash(string(letters)))
	}
}

func main() {
	e = common.New(19)
	R := rand.New(rand.NewPCG(e.Seed, 1919))
	var docs []*doc
	docs = append(docs, handDocs()...)
	docs = append(docs, indirectParmDocs()...)
	docs = append(docs, policyDocs()...)
	nFixed := len(docs)
	docs = append(docs, lookaheadDocs()...)
	docs = append(docs, damagedDocs(docs[:nFixed])...)
	nLook := len(docs) - nFixed
	versions := []pdf.Version{pdf.V1_4, pdf.V1_7, pdf.V2_0, pdf.V1_7, pdf.V1_3, pdf.V1_6}
	nw := e.Pick(14, 70)
	for i := 0; i < nw; i++ {
		c := wcfg{
			v:        versions[i%len(versions)],
			human:    i%5 == 4,
			encrypt:  i%3 == 2 && (i < 6 || (e.Thorough && i < 30)), // AES reads 16 bytes at a time: the costliest documents
			seekable: i%2 == 1,
			bigStm:   i%4 == 1 || i%4 == 2,
			nPages:   1 + i%3,
			filters:  2 + i%3,
		}
		if e.Thorough {
			c.filters = 3 + R.IntN(6)
			c.nPages = 1 + R.IntN(4)
		}
		d, err := writerDoc(R, c, i)
		if err != nil {
			panic(err)
		}
		docs = append(docs, d)
	}

	only := os.Getenv("C19_ONLY") // debugging aid: substring of the document name
	timing := map[string]float64{}
	t0 := time.Now()
	lap := func(what string) { timing[what] += time.Since(t0).Seconds(); t0 = time.Now() }
	for di, d := range docs {
		if only != "" && !strings.Contains(d.name, only) {
			continue
		}
		e.Sample(6, map[string]any{"doc": d.name, "class": d.class, "bytes": len(d.data), "objects": len(d.refs)})
		if d.seqOnly {
			// damaged file: SequentialScan+MakeReader in Recover mode; judged by the
			// direct oracle against the fault-free result on the same damaged file
			noModel, activeModes = true, []fmode{fmFrom, fmOnly, fmHalf}
			exploreSeq(di, d, 0)
			noModel, activeModes = false, fmodes
			lap("doc:damaged")
			if aborted() {
				break
			}
			continue
		}
		if d.light {
			exploreOps(di, d, true)
			lap("doc:lookahead")
			if aborted() {
				break
			}
			continue
		}
		wi := di - nFixed - nLook // index among the writer-made documents (negative: hand-written)
		for si, shape := range faultShapes {
			// the plain sentinel: everything.  The other shapes of the fault error
			// (wrapping io.EOF / io.ErrUnexpectedEOF, a malformed look-alike, an Is
			// method claiming io.EOF, a timeout): the one-shot modes `only` and
			// `half` - in the quick tier on the hand-written documents and the
			// first writer-made ones
			if si > 0 && !(wi < 1 || (e.Thorough && wi < 14)) {
				break
			}
			curShape, errInj, activeModes = shape, shape.err, fmodes
			if si > 0 {
				activeModes = []fmode{fmOnly, fmHalf}
				if wi >= 0 && !(e.Thorough && wi < 3) {
					activeModes = []fmode{fmOnly}
				}
			}
			for mi := range modes {
				if si > 0 && mi == 1 && !e.Thorough {
					continue // Report mode differs from Recover only in what is recorded
				}
				exploreOpen(di, d, mi)
				// delivered-prefix enumeration: quick - the grid, Recover mode, hand-written
				// documents; thorough - every n in all modes on the hand-written
				// documents, the grid in Recover mode on the first writer-made ones
				if si == 0 && d.bad == "" && ((di < nFixed && (mi == 0 || e.Thorough)) || (e.Thorough && wi >= 0 && wi < 24 && mi == 0)) {
					prefixAllN = di < nFixed
					exploreOpenPrefix(di, d, mi)
				}
			}
			exploreOps(di, d, wi < 5 || (e.Thorough && wi < 32))
			if !strings.Contains(d.class, "objstm") {
				for mi := range modes {
					if si > 0 && mi > 0 && !e.Thorough {
						continue
					}
					// SequentialScan re-reads the whole file for every fault index: in
					// the quick tier the writer-made documents get all fault modes in
					// Recover mode, from/only in Stop mode; the hand-written and policy
					// documents get everything
					saved := activeModes
					if wi >= 0 && si == 0 && !(e.Thorough && wi < 24) {
						if mi == 1 {
							continue
						}
						if mi == 2 {
							activeModes = fmodes[:2]
						}
					}
					exploreSeq(di, d, mi)
					activeModes = saved
				}
			}
			if aborted() {
				break
			}
		}
		curShape, errInj, activeModes = faultShapes[0], errPlain, fmodes
		lap("doc:" + strings.SplitN(d.name, "[", 2)[0])
		if aborted() {
			break
		}
	}

	if !aborted() {
		sinkSide(R)
	}
	lap("sink programs")
	if !aborted() && only == "" {
		sweepSide()
	}
	lap("sink sweep")
	if only == "" {
		chainSide(R)
		policySide()
	}
	lap("chain+policy")

	e.Finish("one evaluation = one public call (NewReader in a given mode, SequentialScan+MakeReader, Get, DecodeStream+ReadAll, a typed decode or page walk) run with the byte source failing at one ReadAt index in one fault mode, or one Writer program run with the sink failing at one Write/Seek index; non-trivial = the injected fault actually fired during the call; all indices of every call are enumerated",
		map[string]any{"documents": len(docs), "watchdog_timeouts": hangs, "failing_cases_by_signature": failsPerSig, "seconds": timing})
}
