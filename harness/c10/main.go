// C10 harness: encrypted files follow the standard algorithms and leak no plaintext.
//
// Phase 1 (default): documents written by the real Writer (all versions, both output
// styles, metadata modes, high object numbers, non-zero generations, equal plaintexts
// in different objects).  For each file
//   - the raw bytes are scanned for every plaintext marker outside the documented exemptions,
//   - equal plaintexts in different objects must have different ciphertexts, AES IVs must not repeat,
//   - every stored string and stream of every object is handed (as stored) to the extracted Coq
//     model of the standard security handler, which must authenticate on the file's /Encrypt
//     dictionary and decrypt each one to the value that was written (cases.txt / impl.obs),
//   - the entries of /Encrypt and the set of objects left unencrypted are compared with the model.
// It also writes the plan of phase 2: files to be encrypted BY THE MODEL (lines "F").
//
// Phase 2 (-phase 2, after the model has run): assembles those files from model.obs and opens
// them with the real Reader: passwords, permissions, every string and stream.
package main

import (
	"bytes"
	"compress/zlib"
	"encoding/hex"
	"errors"
	"fmt"
	"io"
	"os"
	"path/filepath"
	"sort"
	"strings"
	"time"

	"seehuhn.de/go/pdf"
	"seehuhn.de/go/pdf/verifharness/common"
)

func closePerm(p pdf.Perm) pdf.Perm {
	if p&pdf.PermPrint != 0 {
		p |= pdf.PermPrintDegraded
	}
	if p&pdf.PermAnnotate != 0 {
		p |= pdf.PermForms
	}
	if p&pdf.PermModify != 0 {
		p |= pdf.PermAssemble
	}
	return p
}

func randBytes(e *common.Env, n int) []byte {
	b := make([]byte, n)
	for i := range b {
		b[i] = byte(e.Rand.IntN(256))
	}
	return b
}

var markerCount int

func marker(e *common.Env, tag string) []byte {
	markerCount++
	return []byte(fmt.Sprintf("PLAIN-%s-%d-%08x-TEXT", tag, markerCount, e.Rand.Uint32()))
}

func collectStrings(obj pdf.Object, out *[][]byte) {
	switch x := obj.(type) {
	case pdf.TextString, pdf.Date, renderStr, renderNest:
		collectStrings(x.(pdf.Object).AsPDF(0), out) // the strings of an object are those of its rendering
	case pdf.String:
		*out = append(*out, []byte(x))
	case pdf.Array:
		for _, y := range x {
			collectStrings(y, out)
		}
	case pdf.Dict:
		keys := make([]string, 0, len(x))
		for k := range x {
			keys = append(keys, string(k))
		}
		sort.Strings(keys)
		for _, k := range keys {
			collectStrings(x[pdf.Name(k)], out)
		}
	case *pdf.Stream:
		collectStrings(x.Dict, out)
	}
}

func str(d pdf.Dict, k pdf.Name) []byte {
	s, _ := d[k].(pdf.String)
	return []byte(s)
}

func boolInt(b bool) int {
	if b {
		return 1
	}
	return 0
}

func rawPrep(R int, pw string) ([]byte, bool) {
	if R <= 4 {
		b, ok := pdf.PDFDocEncode(pw)
		return []byte(b), ok
	}
	s, ok := pdf.VerifSASLprep(pw)
	return []byte(s), ok
}

// ---- phase 1 ------------------------------------------------------------------------------

type config struct {
	version   pdf.Version
	user      string
	owner     string
	perm      pdf.Perm
	withMeta  bool
	plainMeta bool
	human     bool
	// forceModel: hand the file to the model even when the R6 ration is used up
	forceModel bool
}

func (c config) String() string {
	return fmt.Sprintf("v=%s u=%q o=%q perm=%d meta=%v plainMeta=%v human=%v", c.version, clipS(c.user), clipS(c.owner), int(c.perm), c.withMeta, c.plainMeta, c.human)
}

type written struct {
	ref    pdf.Reference
	obj    func() pdf.Object // fresh copy of what was written (dictionary for streams)
	body   []byte            // stream data (nil for non-streams)
	stream bool
	member bool
}

type run struct {
	e       *common.Env
	id      int
	r6model int
	fileIdx int
	plan    []string
}

func (rn *run) nextID(p string) string {
	rn.id++
	return fmt.Sprintf("%s%d", p, rn.id)
}


// ---- objects that are not Native but render as PDF strings ---------------------------------------------------

// renderStr / renderNest are Objects defined outside the library: all the Writer knows about them is AsPDF
type renderStr struct{ b []byte }

func (r renderStr) AsPDF(pdf.OutputOptions) pdf.Native { return pdf.String(append([]byte{}, r.b...)) }

type renderNest struct{ b []byte }

func (r renderNest) AsPDF(pdf.OutputOptions) pdf.Native {
	return pdf.Array{pdf.String(append([]byte{}, r.b...)), pdf.Dict{"W": renderStr{r.b}}, pdf.TextString("t-" + string(r.b))}
}

func freshS(b []byte) pdf.String { return pdf.String(append([]byte{}, b...)) }

func printableASCII(b []byte) bool {
	for _, c := range b {
		if c < 0x20 || c > 0x7e {
			return false
		}
	}
	return len(b) > 0
}

// fresh returns an object which renders as (or, for renderNest, contains) the string b: a pdf.String, or one of the
// typed wrappers - pdf.TextString, an Object whose AsPDF yields a String, one whose AsPDF yields an array with a
// string, a dictionary with a wrapped string and a TextString.  The choice depends on b only, so that the value
// written and the value expected are built alike.
func fresh(b []byte) pdf.Object {
	h := 0
	for _, c := range b {
		h = (h*31 + int(c)) % 1000003
	}
	switch h % 7 {
	case 3:
		if printableASCII(b) {
			return pdf.TextString(string(b))
		}
	case 4:
		return renderStr{append([]byte{}, b...)}
	case 5:
		if printableASCII(b) {
			return renderNest{append([]byte{}, b...)}
		}
	}
	return freshS(b)
}

func (rn *run) checkFile(cfg config) {
	e := rn.e
	info := map[string]any{"config": cfg.String()}
	tableMode := cfg.human || cfg.version < pdf.V1_5

	var markers [][]byte // every plaintext that must not be visible in the file
	mk := func(tag string) []byte {
		m := marker(e, tag)
		markers = append(markers, m)
		return m
	}
	var objs []*written
	id0, id1 := randBytes(e, 16), randBytes(e, 16)
	opt := &pdf.WriterOptions{ID: [][]byte{id0, id1}, UserPassword: cfg.user, OwnerPassword: cfg.owner,
		UserPermissions: cfg.perm, HumanReadable: cfg.human}
	metaTitle := string(marker(e, "metatitle"))
	if cfg.withMeta {
		ms, err := pdf.VerifNewMetadata(metaTitle, cfg.plainMeta)
		if err != nil {
			panic(err)
		}
		opt.DocumentMetadata = ms
		if !cfg.plainMeta {
			markers = append(markers, []byte(metaTitle))
		}
	}
	buf := &bytes.Buffer{}
	w, err := pdf.NewWriter(buf, cfg.version, opt)
	if err != nil {
		e.Fail("writer-refuses", fmt.Sprintf("Writer refuses a valid configuration: %v", err), info)
		return
	}
	title := mk("title")
	w.GetMeta().Info.Title = pdf.TextString(title)

	// shared plaintexts: the same string / the same stream body in different objects
	same := mk("same")
	sameBody := bytes.Repeat(mk("samebody"), 3)

	put := func(ref pdf.Reference, f func() pdf.Object) {
		if err := w.Put(ref, f()); err != nil {
			e.Fail("writer-error", err.Error(), info)
		}
		objs = append(objs, &written{ref: ref, obj: f})
	}
	putStream := func(ref pdf.Reference, f func() pdf.Object, body []byte) {
		ws, err := w.OpenStream(ref, f().(pdf.Dict))
		if err != nil {
			e.Fail("writer-error", err.Error(), info)
			return
		}
		rest := body
		for len(rest) > 0 {
			k := 1 + e.Rand.IntN(60)
			if k > len(rest) {
				k = len(rest)
			}
			ws.Write(rest[:k])
			rest = rest[k:]
		}
		if err := ws.Close(); err != nil {
			e.Fail("writer-error", err.Error(), info)
		}
		objs = append(objs, &written{ref: ref, obj: f, body: body, stream: true})
	}

	{
		s, a, x, tw := mk("s"), mk("a"), mk("x"), mk("tw")
		bin := randBytes(e, 1+e.Rand.IntN(30))
		put(w.Alloc(), func() pdf.Object {
			t := freshS(tw) // one String value used twice in the same object
			return pdf.Dict{"S": fresh(s), "Arr": pdf.Array{fresh(a), pdf.Dict{"X": fresh(x)}}, "Same": fresh(same),
				"Empty": pdf.String(""), "Bin": fresh(bin), "Twice": pdf.Array{t, t}}
		})
	}
	{
		s2 := mk("s2")
		put(w.Alloc(), func() pdf.Object { return pdf.Array{fresh(same), fresh(s2), fresh(same)} })
	}
	for i := 0; i < 2; i++ {
		d := mk("d")
		i := i
		putStream(w.Alloc(), func() pdf.Object { return pdf.Dict{"D": fresh(d), "Same": fresh(same), "I": pdf.Integer(i)} }, sameBody)
	}
	{
		d := mk("d3")
		size := []int{0, 1, 15, 16, 17, 31, 32, 33, 100, 1000}[rn.fileIdx%10]
		body := bytes.Repeat(mk("body"), 1+size/20)[:max(size, 0)]
		if size >= 24 {
			markers = append(markers, body[:24])
		}
		putStream(w.Alloc(), func() pdf.Object { return pdf.Dict{"D": fresh(d)} }, body)
	}
	// look-alikes: ordinary objects whose dictionaries look like the exempt ones (metadata stream, cross-reference
	// stream, object stream, embedded file, /Encrypt dictionary, /ID, signature): all must be stored encrypted
	{
		m1, m2, m3, m4, m5, m6, m7 := mk("lookmeta"), mk("lookxref"), mk("lookobjstm"), mk("lookef"), mk("lookenc"), mk("looksig"), mk("lookid")
		o32 := append(append([]byte{}, m5...), make([]byte, 32)...)[:32]
		xmp := []byte("<?xpacket begin='' id='W5M0MpCehiHzreSzNTczkc9d'?><x:xmpmeta xmlns:x='adobe:ns:meta/'>" + string(m1) + "</x:xmpmeta><?xpacket end='w'?>")
		putStream(w.Alloc(), func() pdf.Object {
			return pdf.Dict{"Type": pdf.Name("Metadata"), "Subtype": pdf.Name("XML"), "LK": fresh(m1)}
		}, xmp)
		putStream(w.Alloc(), func() pdf.Object {
			return pdf.Dict{"Type": pdf.Name("XRef"), "Size": pdf.Integer(1), "W": pdf.Array{pdf.Integer(1), pdf.Integer(1), pdf.Integer(1)}, "LK": fresh(m2)}
		}, append([]byte{0, 0, 0}, m2...))
		putStream(w.Alloc(), func() pdf.Object {
			return pdf.Dict{"Type": pdf.Name("ObjStm"), "N": pdf.Integer(0), "First": pdf.Integer(0), "LK": fresh(m3)}
		}, append([]byte{}, m3...))
		putStream(w.Alloc(), func() pdf.Object {
			return pdf.Dict{"Type": pdf.Name("EmbeddedFile"), "Params": pdf.Dict{"CheckSum": fresh(m4)}}
		}, append([]byte{}, m4...))
		put(w.Alloc(), func() pdf.Object {
			return pdf.Dict{"Filter": pdf.Name("Standard"), "V": pdf.Integer(4), "R": pdf.Integer(4), "O": fresh(o32), "U": fresh(o32), "P": pdf.Integer(-3),
				"Sig": pdf.Dict{"Type": pdf.Name("Sig"), "Filter": pdf.Name("Adobe.PPKLite"), "Contents": fresh(m6), "ByteRange": pdf.Array{pdf.Integer(0), pdf.Integer(1)}},
				"ID": pdf.Array{fresh(id0), fresh(id0), fresh(m7)}}
		})
	}

	// empty streams (written through OpenStream with no Write at all, with a zero-length Write, and as a stream
	// object) and empty strings in every placement
	{
		d1, d2, d3 := mk("e1"), mk("e2"), mk("e3")
		putStreamRaw := func(f func() pdf.Object, zeroWrite bool) {
			ref := w.Alloc()
			ws, err := w.OpenStream(ref, f().(pdf.Dict))
			if err != nil {
				e.Fail("writer-error", err.Error(), info)
				return
			}
			if zeroWrite {
				ws.Write(nil)
			}
			if err := ws.Close(); err != nil {
				e.Fail("writer-error", err.Error(), info)
			}
			objs = append(objs, &written{ref: ref, obj: f, body: []byte{}, stream: true})
		}
		putStreamRaw(func() pdf.Object { return pdf.Dict{"D": fresh(d1), "E": pdf.String(""), "EA": pdf.Array{pdf.String(""), pdf.String("")}} }, false)
		putStreamRaw(func() pdf.Object { return pdf.Dict{"D": fresh(d2)} }, true)
		{
			ref := w.Alloc()
			f := func() pdf.Object { return pdf.Dict{"D": fresh(d3), "E": pdf.String("")} }
			if err := w.Put(ref, pdf.NewStream(f().(pdf.Dict), nil)); err != nil {
				e.Fail("writer-error", err.Error(), info)
			}
			objs = append(objs, &written{ref: ref, obj: f, body: []byte{}, stream: true})
		}
		put(w.Alloc(), func() pdf.Object { return pdf.Array{pdf.String(""), pdf.Dict{"E": pdf.String("")}, pdf.Array{pdf.String("")}} })
	}

	// long containers: arrays of 1 .. 1000 elements (flat, nested, dictionaries inside long arrays, long arrays
	// inside dictionaries inside arrays), dictionaries and strings whose formatted size crosses 64/512/1024/4096
	// bytes - in direct objects, stream dictionaries and object streams
	idx := rn.fileIdx
	rn.fileIdx++
	mkLong := func(tag string, n, shape int) func() pdf.Object {
		m := mk(tag)
		elem := func(i int) pdf.Object { return fresh(append(append([]byte{}, m...), []byte(fmt.Sprintf("-%d", i))...)) }
		return func() pdf.Object {
			flat := make(pdf.Array, n)
			for i := range flat {
				flat[i] = elem(i)
			}
			switch shape % 5 {
			case 0:
				return flat
			case 1: // a long array inside a short one
				return pdf.Array{pdf.Integer(1), flat, elem(n)}
			case 2: // strings as dictionary values inside a long array
				a := make(pdf.Array, n)
				for i := range a {
					a[i] = pdf.Dict{"V": elem(i), "N": pdf.Integer(i)}
				}
				return a
			case 3: // a long array inside a dictionary inside an array
				return pdf.Array{pdf.Dict{"In": flat, "S": elem(n)}, pdf.Name("x")}
			default: // long array of short arrays
				a := make(pdf.Array, n)
				for i := range a {
					a[i] = pdf.Array{elem(i), pdf.Integer(i)}
				}
				return a
			}
		}
	}
	{
		f := mkLong("la", arraySizes[idx%7], idx)
		put(w.Alloc(), func() pdf.Object { return pdf.Dict{"Long": f()} })
	}
	put(w.Alloc(), mkLongOnce(mkLong("lb", arraySizes[(idx+3)%7], idx+2)))
	{
		f := mkLongOnce(mkLong("lc", arraySizes[(idx+5)%7], idx+1))
		d := mk("ld")
		putStream(w.Alloc(), func() pdf.Object { return pdf.Dict{"D": fresh(d), "Long": f()} }, sameBody)
	}
	{
		// a dictionary with many entries and one long string
		nEnt := []int{3, 20, 40, 150}[idx%4]
		strLen := []int{60, 500, 1020, 4090, 5000}[idx%5]
		bm, lm := mk("bd"), mk("ls")
		put(w.Alloc(), func() pdf.Object {
			d := pdf.Dict{}
			for i := 0; i < nEnt; i++ {
				d[pdf.Name(fmt.Sprintf("K%d", i))] = fresh(append(append([]byte{}, bm...), []byte(fmt.Sprintf("-%d", i))...))
			}
			d["LongString"] = fresh(append(append([]byte{}, lm...), bytes.Repeat([]byte("x"), strLen)...))
			return d
		})
	}
	longMember := mkLongOnce(mkLong("lm", arraySizes[(idx+1)%7], idx+3))

	// an operation sequence: objects Put while a stream with strings in its dictionary is open (they are deferred);
	// the amounts written around the Put vary across the Writer's 1024-byte start buffer
	{
		sm, qm, tm := mk("seqS"), mk("seqQ"), mk("seqT")
		before := []int{0, 1, 100, 1000, 1023, 1024, 1025, 1500, 3000}[idx%9]
		after := []int{0, 1, 30, 1024, 2000}[idx%5]
		sbody := randBytes(e, before+after)
		tbody := randBytes(e, []int{0, 5, 16, 1100}[idx%4])
		refS, refQ, refT := w.Alloc(), w.Alloc(), w.Alloc()
		mkS := func() pdf.Object { return pdf.Dict{"SD": fresh(sm), "SA": pdf.Array{fresh(sm), pdf.Integer(2)}} }
		mkQ := func() pdf.Object { return pdf.Dict{"Q": fresh(qm), "QA": pdf.Array{fresh(qm)}} }
		mkT := func() pdf.Object { return pdf.Dict{"TD": fresh(tm)} }
		ws, err := w.OpenStream(refS, mkS().(pdf.Dict))
		if err != nil {
			e.Fail("writer-error", err.Error(), info)
		} else {
			ws.Write(sbody[:before])
			if err := w.Put(refQ, mkQ()); err != nil {
				e.Fail("writer-error", err.Error(), info)
			}
			objs = append(objs, &written{ref: refQ, obj: mkQ})
			if idx%2 == 0 {
				if err := w.Put(refT, pdf.NewStream(mkT().(pdf.Dict), append([]byte{}, tbody...))); err != nil {
					e.Fail("writer-error", err.Error(), info)
				}
				objs = append(objs, &written{ref: refT, obj: mkT, body: tbody, stream: true})
			}
			ws.Write(sbody[before:])
			if err := ws.Close(); err != nil {
				e.Fail("writer-error", err.Error(), info)
			}
			objs = append(objs, &written{ref: refS, obj: mkS, body: sbody, stream: true})
		}
	}

	// high object numbers and non-zero generations
	nHigh := 2 + e.Rand.IntN(3)
	used := map[uint32]bool{}
	for i := 0; i < nHigh; i++ {
		var num uint32
		if tableMode && i == 0 && e.Rand.IntN(3) == 0 {
			num = 65536 + uint32(e.Rand.IntN(9000)) // exercises the third key byte (xref table output only, see F18)
		} else {
			num = 200 + uint32(e.Rand.IntN(3000))
			if e.Rand.IntN(2) == 0 {
				num = []uint32{255, 256, 257, 511, 512}[e.Rand.IntN(5)]
			}
		}
		if used[num] {
			continue
		}
		used[num] = true
		gen := uint16([]int{0, 1, 2, 255, 256, 257, 65535}[e.Rand.IntN(7)])
		if e.Rand.IntN(3) == 0 {
			gen = uint16(e.Rand.IntN(65536))
		}
		h := mk("high")
		ref := pdf.NewReference(num, gen)
		if e.Rand.IntN(2) == 0 {
			put(ref, func() pdf.Object { return pdf.Dict{"H": fresh(h), "Same": fresh(same)} })
		} else {
			putStream(ref, func() pdf.Object { return pdf.Dict{"H": fresh(h)} }, sameBody)
		}
	}
	// object stream members
	cm1, cm2 := mk("cm1"), mk("cm2")
	crefs := []pdf.Reference{w.Alloc(), w.Alloc(), w.Alloc()}
	cobjs := []func() pdf.Object{
		func() pdf.Object { return pdf.Dict{"CS": fresh(cm1), "Same": fresh(same)} },
		func() pdf.Object { return pdf.Array{fresh(cm2), pdf.String("")} },
		longMember,
	}
	if err := w.WriteCompressed(crefs, cobjs[0](), cobjs[1](), cobjs[2]()); err != nil {
		e.Fail("writer-error", err.Error(), info)
	}
	for i := range crefs {
		objs = append(objs, &written{ref: crefs[i], obj: cobjs[i], member: true})
	}

	pages := w.Alloc()
	w.Put(pages, pdf.Dict{"Type": pdf.Name("Pages"), "Kids": pdf.Array{}, "Count": pdf.Integer(0)})
	w.GetMeta().Catalog.Pages = pages
	encDict, _ := w.GetMeta().Trailer["Encrypt"].(pdf.Dict)
	fileKey := pdf.VerifWriterFileKey(w)
	if err := w.Close(); err != nil {
		e.Fail("writer-error", err.Error(), info)
		return
	}
	data := buf.Bytes()
	if encDict == nil {
		e.Fail("not-encrypted", "no /Encrypt dictionary", info)
		return
	}
	Rint, _ := encDict["R"].(pdf.Integer)
	R := int(Rint)
	V, _ := encDict["V"].(pdf.Integer)
	aes := V >= 4
	class := fmt.Sprintf("R%d/%s", R, map[bool]string{true: "table", false: "xrefstream"}[tableMode])

	// (1) plaintext scan of the raw bytes: literal and hexadecimal spellings
	lower := bytes.ToLower(data)
	for _, m := range markers {
		hx := []byte(hex.EncodeToString(m))
		if bytes.Contains(data, m) || bytes.Contains(lower, hx) {
			e.Fail("plaintext-in-file", fmt.Sprintf("plaintext %q is visible in the encrypted file", clip(m)), info)
		}
		e.Count(true, cfg.String()+string(m), "scan/"+class)
	}

	// open with the owner (or user) password
	pw := cfg.owner
	if pw == "" {
		pw = cfg.user
	}
	r, err := pdf.NewReader(bytes.NewReader(data), int64(len(data)), &pdf.ReaderOptions{Password: pw})
	if err != nil {
		sig := "reader-rejects-writer-output"
		if !tableMode && strings.Contains(err.Error(), "cross-reference") {
			sig = "F18-xref-size"
		}
		e.Fail(sig, fmt.Sprintf("Reader cannot open the Writer's file: %v", err), info)
		return
	}
	e.Sample(4, map[string]any{"config": cfg.String(), "bytes": len(data), "R": R})

	// (2) every object: stored form -> model; exemptions; ciphertext statistics
	refs, inStm := pdf.VerifRefs(r)
	byRef := map[pdf.Reference]*written{}
	for _, o := range objs {
		byRef[o.ref] = o
	}
	type item struct {
		ref   pdf.Reference
		kind  string
		raw   []byte
		plain []byte
	}
	var items []item
	var metaRef pdf.Reference
	if c, ok := r.GetMeta().Trailer["Root"].(pdf.Reference); ok {
		if cat, err := pdf.VerifRawObject(r, c); err == nil {
			if d, ok := cat.(pdf.Dict); ok {
				metaRef, _ = d["Metadata"].(pdf.Reference)
			}
		}
	}
	wobs := map[string]string{} // observed exemption facts: "<kind> <plain> <s|t>" -> 0/1
	observe := func(kind string, part string, encrypted bool) {
		k := fmt.Sprintf("%s %d %s", kind, boolInt(cfg.plainMeta && cfg.withMeta), part)
		v := fmt.Sprint(boolInt(encrypted))
		if old, ok := wobs[k]; ok && old != v {
			e.Fail("exemption-inconsistent", "objects of the same kind are treated differently: "+k, info)
		}
		wobs[k] = v
	}
	containers := map[pdf.Reference]bool{}
	for _, c := range inStm {
		if c != 0 {
			containers[c] = true
		}
	}
	for i, ref := range refs {
		o := byRef[ref]
		if inStm[i] != 0 {
			if o == nil || !o.member {
				e.Fail("unexpected-member", fmt.Sprintf("object %v is in an object stream", ref), info)
			}
			continue
		}
		rawObj, err := pdf.VerifRawObject(r, ref)
		if err != nil {
			e.Fail("raw-read", fmt.Sprintf("%v: %v", ref, err), info)
			continue
		}
		var rawS [][]byte
		collectStrings(rawObj, &rawS)
		stm, isStream := rawObj.(*pdf.Stream)
		// the kind of an object is a matter of its IDENTITY (is it the container some cross-reference entry
		// points into, is it the catalog's /Metadata), never of what its dictionary looks like; the
		// cross-reference stream is not listed in itself and is located through startxref below
		kind := "direct"
		if isStream && containers[ref] {
			kind = "container"
		}
		if ref == metaRef && metaRef != 0 {
			kind = "metadata"
		}
		if kind == "xref" {
			// its dictionary is the trailer: /ID must be readable as written
			for _, s := range rawS {
				if bytes.Equal(s, id0) {
					observe("id", "s", false)
				}
			}
			if o, u := str(encDict, "O"), str(encDict, "U"); len(o) > 0 {
				found := 0
				for _, s := range rawS {
					if bytes.Equal(s, o) || bytes.Equal(s, u) {
						found++
					}
				}
				observe("encrypt", "s", found < 2)
			}
			raw, _ := io.ReadAll(stm.NewReader())
			_, zerr := inflate(raw)
			observe("xref", "t", zerr != nil)
			continue
		}
		// plaintexts: for objects the harness wrote, the written values; for objects the Writer creates itself
		// (catalog, Info, object stream container, metadata), what the real handler decrypts
		var plainS [][]byte
		if o != nil {
			collectStrings(o.obj(), &plainS)
			if len(plainS) != len(rawS) {
				e.Fail("string-count", fmt.Sprintf("%v: %d strings stored, %d written", ref, len(rawS), len(plainS)), info)
				continue
			}
		} else {
			for _, s := range rawS {
				d, err := pdf.VerifDecryptBytes(r, ref, s)
				if err != nil {
					e.Fail("decrypt", fmt.Sprintf("%v: %v", ref, err), info)
				}
				plainS = append(plainS, d)
			}
		}
		for j, s := range rawS {
			items = append(items, item{ref, "s", s, plainS[j]})
			if len(plainS[j]) > 0 && kind != "metadata" {
				observe(kind, "s", !bytes.Equal(s, plainS[j]))
			}
		}
		if isStream {
			raw, _ := io.ReadAll(stm.NewReader())
			var plain []byte
			switch {
			case o != nil:
				plain = o.body
			case kind == "metadata" && cfg.plainMeta:
				plain = raw
				if !bytes.Contains(raw, []byte(metaTitle)) {
					e.Fail("plain-metadata-unreadable", "plaintext metadata requested but the stream is not readable as stored", info)
				}
				observe(kind, "t", false)
				continue // not encrypted: nothing for the model to decrypt
			default:
				rd, err := pdf.VerifDecryptStream(r, ref, bytes.NewReader(raw))
				if err == nil {
					plain, err = io.ReadAll(rd)
				}
				if err != nil {
					e.Fail("decrypt", fmt.Sprintf("%v: %v", ref, err), info)
					continue
				}
				// the decrypted container must inflate to text that shows the members unencrypted
				if kind == "container" {
					txt, zerr := inflate(plain)
					if zerr != nil {
						e.Fail("container", "decrypted object stream does not inflate", info)
					}
					memberPlain := bytes.Contains(txt, cm1) && bytes.Contains(txt, cm2)
					observe("member", "s", !memberPlain)
				}
				if kind == "metadata" {
					txt := plain
					if t2, zerr := inflate(plain); zerr == nil {
						txt = t2
					}
					if !bytes.Contains(txt, []byte(metaTitle)) {
						e.Fail("metadata", "decrypted metadata stream does not contain the title", info)
					}
				}
			}
			items = append(items, item{ref, "t", raw, plain})
			if len(plain) > 0 {
				observe(kind, "t", !bytes.Equal(raw, plain))
			}
		}
	}
	if !tableMode {
		// the cross-reference stream is not listed in itself: locate it through startxref
		if i := bytes.LastIndex(data, []byte("startxref")); i >= 0 {
			var pos int
			fmt.Sscan(string(data[i+9:]), &pos)
			if pos > 0 && pos < len(data) {
				seg := data[pos:]
				if j := bytes.Index(seg, []byte("stream")); j >= 0 && bytes.Contains(seg[:j], []byte("/XRef")) {
					body := bytes.TrimLeft(seg[j+6:], "\r\n")
					_, zerr := inflate(body)
					observe("xref", "t", zerr != nil)
				}
			}
		}
	}
	// trailer in table mode: the Reader hands back /Encrypt and /ID undecrypted
	if d, ok := r.GetMeta().Trailer["Encrypt"].(pdf.Dict); ok {
		observe("encrypt", "s", !(bytes.Equal(str(d, "O"), str(encDict, "O")) && bytes.Equal(str(d, "U"), str(encDict, "U"))))
	} else if tableMode {
		e.Fail("encrypt-dict", "trailer /Encrypt is not a direct dictionary", info)
	}
	if ids := r.GetMeta().ID; len(ids) == 2 {
		observe("id", "s", !bytes.Equal(ids[0], id0))
	}
	for k, v := range wobs {
		id := rn.nextID("w")
		f := strings.Fields(k)
		e.Line("cases.txt", "%s W %s %s %s", id, f[0], f[1], f[2])
		e.Line("impl.obs", "%s %s", id, v)
	}

	// (3) equal plaintexts in different objects give different ciphertexts; IVs never repeat
	seenIV := map[string]pdf.Reference{}
	byPlain := map[string][]item{}
	for _, it := range items {
		if aes && len(it.raw) >= 16 {
			iv := string(it.raw[:16])
			if prev, dup := seenIV[iv]; dup {
				e.Fail("iv-repeated", fmt.Sprintf("the same IV is used in %v and %v", prev, it.ref), info)
			}
			seenIV[iv] = it.ref
		}
		if len(it.plain) >= 8 {
			byPlain[it.kind+string(it.plain)] = append(byPlain[it.kind+string(it.plain)], it)
		}
	}
	for _, group := range byPlain {
		for i := range group {
			for j := i + 1; j < len(group); j++ {
				if group[i].ref != group[j].ref && bytes.Equal(group[i].raw, group[j].raw) {
					e.Fail("equal-ciphertexts", fmt.Sprintf("equal plaintexts in %v and %v have equal ciphertexts", group[i].ref, group[j].ref), info)
				}
				if aes && bytes.Equal(group[i].raw, group[j].raw) {
					e.Fail("equal-ciphertexts", fmt.Sprintf("AES: equal plaintexts in %v have equal ciphertexts (IV reuse)", group[i].ref), info)
				}
			}
		}
		e.Count(true, cfg.String()+string(group[0].plain), "ciphertexts/"+class)
	}

	// (4) the /Encrypt dictionary: entry names and V against the model of AsDict
	{
		keys := make([]string, 0, len(encDict))
		for k := range encDict {
			keys = append(keys, string(k))
		}
		sort.Strings(keys)
		bits := map[pdf.Integer]int{1: 40, 2: 128, 4: 128, 5: 256}[V]
		id := rn.nextID("d")
		e.Line("cases.txt", "%s D %d %d %d %d %d", id, boolInt(aes), bits, int(cfg.version)-int(pdf.V1_0), R, boolInt(cfg.plainMeta && cfg.withMeta))
		e.Line("impl.obs", "%s V=%d keys=%s", id, int(V), strings.Join(keys, ","))
		P, _ := encDict["P"].(pdf.Integer)
		if int64(P) != int64(int32(uint32(P))) || P >= 0 {
			e.Fail("P-not-signed-32", fmt.Sprintf("/P = %d is not a negative 32-bit value", int64(P)), info)
		}
	}

	// (5) the independent implementation on every stored string and stream
	if R >= 5 && !cfg.forceModel {
		if rn.r6model <= 0 {
			e.Count(true, cfg.String(), "model-skipped/"+class)
			return
		}
		rn.r6model--
	}
	keyBytes := map[pdf.Integer]int{1: 5, 2: 16, 4: 16, 5: 32}[V]
	if l, ok := encDict["Length"].(pdf.Integer); ok && V == 2 {
		keyBytes = int(l) / 8
	}
	P, _ := encDict["P"].(pdf.Integer)
	rawPw, _ := rawPrep(R, pw)
	id := rn.nextID("a")
	line := fmt.Sprintf("%s A %d %d %d %d %s %s %s %s %s %s %d %s %d %d", id, R, keyBytes, uint32(int32(P)),
		boolInt(cfg.plainMeta && cfg.withMeta), common.Hex(id0), common.Hex(str(encDict, "O")), common.Hex(str(encDict, "U")),
		common.Hex(str(encDict, "OE")), common.Hex(str(encDict, "UE")), common.Hex(str(encDict, "Perms")),
		boolInt(pw != ""), common.Hex(rawPw), boolInt(aes), len(items))
	for _, it := range items {
		line += fmt.Sprintf(" %d %d %s %s", it.ref.Number(), it.ref.Generation(), it.kind, common.Hex(it.raw))
	}
	e.Line("cases.txt", "%s", line)
	e.Line("ameta.txt", "%s R=%d password=%q %s", id, R, clipS(pw), cfg.String())
	e.Line("impl.obs", "%s ok %d %s", id, int(r.GetMeta().Permissions), common.Hex(fileKey))
	for i, it := range items {
		e.Line("impl.obs", "%s.%d %s", id, i, common.Hex(it.plain))
		e.Count(true, fmt.Sprintf("%s|%v|%d", cfg.String(), it.ref, i), "model-decrypt/"+class)
	}
}

var arraySizes = []int{1, 2, 63, 64, 65, 200, 1000}

// mkLongOnce makes sure the generator is deterministic across calls (it is: the marker is drawn once)
func mkLongOnce(f func() pdf.Object) func() pdf.Object { return f }

func clipS(s string) string {
	if len(s) > 16 {
		return fmt.Sprintf("%s..(%d bytes)", s[:16], len(s))
	}
	return s
}

// straddlePasswords: passwords whose prepared UTF-8 form is longer than 127 bytes with a 2-, 3- or 4-byte
// character across byte 127 (Algorithm 2.A: the first 127 bytes are used, whatever they are)
func straddlePasswords(e *common.Env) []string {
	var res []string
	for _, c := range []struct {
		ch  string
		off int
	}{{"\u20ac", 2}, {"\u00e9", 1}, {"\U0001D11E", 3}, {"\u20ac", 1}, {"\U0001D11E", 1}, {"\U0001D11E", 2}} {
		if p, ok := pdf.VerifSASLprep(c.ch); !ok || p != c.ch {
			continue
		}
		b := make([]byte, 127-c.off)
		for i := range b {
			b[i] = byte('a' + e.Rand.IntN(26))
		}
		res = append(res, string(b)+c.ch+"tail")
	}
	return res
}

func inflate(b []byte) ([]byte, error) {
	zr, err := zlib.NewReader(bytes.NewReader(b))
	if err != nil {
		return nil, err
	}
	return io.ReadAll(zr)
}

func clip(b []byte) string {
	if len(b) > 40 {
		return string(b[:40]) + "..."
	}
	return string(b)
}

// ---- streams that declare a /Crypt filter, placeholders ------------------------------------------------------

// cryptCases: streams whose dictionary (or filter list) declares /Filter /Crypt with every kind of /Name, written with
// OpenStream and with Put(*Stream), at every version.  Each must either be refused, or be readable with the password
// AND leave no plaintext in the file - except for the documented exemption: a stream that selects the Identity crypt
// filter in a document with crypt filters (V >= 4) is stored unencrypted on purpose.
func (rn *run) cryptCases() {
	e := rn.e
	type variant struct {
		name     string
		dict     func(w *pdf.Writer) pdf.Dict
		filters  []pdf.Filter
		identity bool // selects the Identity filter (explicitly or by default)
	}
	variants := []variant{
		{"dict-identity", func(*pdf.Writer) pdf.Dict {
			return pdf.Dict{"Filter": pdf.Name("Crypt"), "DecodeParms": pdf.Dict{"Name": pdf.Name("Identity")}}
		}, nil, true},
		{"dict-identity-typed", func(*pdf.Writer) pdf.Dict {
			return pdf.Dict{"Filter": pdf.Name("Crypt"), "DecodeParms": pdf.Dict{"Type": pdf.Name("CryptFilterDecodeParms"), "Name": pdf.Name("Identity")}}
		}, nil, true},
		{"dict-stdcf", func(*pdf.Writer) pdf.Dict {
			return pdf.Dict{"Filter": pdf.Name("Crypt"), "DecodeParms": pdf.Dict{"Name": pdf.Name("StdCF")}}
		}, nil, false},
		{"dict-unknown", func(*pdf.Writer) pdf.Dict {
			return pdf.Dict{"Filter": pdf.Name("Crypt"), "DecodeParms": pdf.Dict{"Name": pdf.Name("MyFilter")}}
		}, nil, false},
		{"dict-noname", func(*pdf.Writer) pdf.Dict { return pdf.Dict{"Filter": pdf.Name("Crypt")} }, nil, true},
		{"dict-emptyparms", func(*pdf.Writer) pdf.Dict { return pdf.Dict{"Filter": pdf.Name("Crypt"), "DecodeParms": pdf.Dict{}} }, nil, true},
		{"dict-array", func(*pdf.Writer) pdf.Dict {
			return pdf.Dict{"Filter": pdf.Array{pdf.Name("Crypt")}, "DecodeParms": pdf.Array{pdf.Dict{"Name": pdf.Name("Identity")}}}
		}, nil, true},
		{"dict-array-stdcf", func(*pdf.Writer) pdf.Dict {
			return pdf.Dict{"Filter": pdf.Array{pdf.Name("Crypt")}, "DecodeParms": pdf.Array{pdf.Dict{"Name": pdf.Name("StdCF")}}}
		}, nil, false},
		{"dict-array-null", func(*pdf.Writer) pdf.Dict {
			return pdf.Dict{"Filter": pdf.Array{pdf.Name("Crypt")}, "DecodeParms": pdf.Array{nil}}
		}, nil, true},
		{"dict-parms-ref", func(w *pdf.Writer) pdf.Dict {
			ref := w.Alloc()
			w.Put(ref, pdf.Dict{"Name": pdf.Name("StdCF")})
			return pdf.Dict{"Filter": pdf.Name("Crypt"), "DecodeParms": ref}
		}, nil, false},
		{"dict-parms-ref-identity", func(w *pdf.Writer) pdf.Dict {
			ref := w.Alloc()
			w.Put(ref, pdf.Dict{"Name": pdf.Name("Identity")})
			return pdf.Dict{"Filter": pdf.Name("Crypt"), "DecodeParms": ref}
		}, nil, true},
		{"dict-crypt-second", func(*pdf.Writer) pdf.Dict {
			return pdf.Dict{"Filter": pdf.Array{pdf.Name("ASCIIHexDecode"), pdf.Name("Crypt")}}
		}, nil, false},
		{"arg-identity", func(*pdf.Writer) pdf.Dict { return pdf.Dict{} }, []pdf.Filter{pdf.FilterCryptIdentity{}}, true},
	}
	for _, v := range []pdf.Version{pdf.V1_3, pdf.V1_4, pdf.V1_5, pdf.V1_6, pdf.V1_7, pdf.V2_0} {
		for _, va := range variants {
			for _, api := range []string{"OpenStream", "Put"} {
				if api == "Put" && va.filters != nil {
					continue
				}
				info := map[string]any{"version": fmt.Sprint(v), "variant": va.name, "api": api}
				key := fmt.Sprintf("crypt|%v|%s|%s", v, va.name, api)
				dm, bm := marker(e, "cryptdict"), marker(e, "cryptbody")
				body := bytes.Repeat(bm, 1+e.Rand.IntN(3))
				if va.name == "dict-crypt-second" {
					body = []byte(hex.EncodeToString(body) + ">")
				}
				buf := &bytes.Buffer{}
				w, err := pdf.NewWriter(buf, v, &pdf.WriterOptions{UserPassword: "u", OwnerPassword: "o"})
				if err != nil {
					e.Fail("writer-refuses", err.Error(), info)
					continue
				}
				ref := w.Alloc()
				d := va.dict(w)
				d["S"] = pdf.String(append([]byte{}, dm...))
				var werr error
				if api == "OpenStream" {
					var ws io.WriteCloser
					ws, werr = w.OpenStream(ref, d, va.filters...)
					if werr == nil {
						ws.Write(body)
						werr = ws.Close()
					}
				} else {
					werr = w.Put(ref, pdf.NewStream(d, append([]byte{}, body...)))
				}
				if werr != nil {
					e.Count(true, key, "crypt-declared/refused")
					continue
				}
				pages := w.Alloc()
				w.Put(pages, pdf.Dict{"Type": pdf.Name("Pages"), "Kids": pdf.Array{}, "Count": pdf.Integer(0)})
				w.GetMeta().Catalog.Pages = pages
				encDict, _ := w.GetMeta().Trailer["Encrypt"].(pdf.Dict)
				V, _ := encDict["V"].(pdf.Integer)
				if err := w.Close(); err != nil {
					e.Count(true, key, "crypt-declared/refused-at-close")
					continue
				}
				data := buf.Bytes()
				bodyVisible := bytes.Contains(data, bm)
				dictVisible := bytes.Contains(data, dm) || bytes.Contains(bytes.ToLower(data), []byte(hex.EncodeToString(dm)))
				if dictVisible {
					e.Fail("plaintext-in-file", fmt.Sprintf("a string in the dictionary of a stream declaring a Crypt filter (%s) is stored in plaintext", va.name), info)
				}
				switch {
				case bodyVisible && va.identity && V >= 4:
					// the documented exemption; the model's exemption predicate must agree
					id := rn.nextID("w")
					e.Line("cases.txt", "%s W identity 0 t", id)
					e.Line("impl.obs", "%s 0", id)
					id = rn.nextID("w")
					e.Line("cases.txt", "%s W identity 0 s", id)
					e.Line("impl.obs", "%s %d", id, boolInt(!dictVisible))
				case bodyVisible && va.identity:
					e.Fail("crypt-identity-below-V4", fmt.Sprintf("a stream selecting the Identity crypt filter is stored in plaintext in a /V %d document: crypt filters exist from V 4 on, a reader following ISO 32000 applies Algorithm 1 to every stream of such a file", int(V)), info)
				case bodyVisible:
					e.Fail("plaintext-in-file", fmt.Sprintf("the data of a stream declaring a non-Identity Crypt filter (%s) is stored in plaintext", va.name), info)
				}
				r, err := pdf.NewReader(bytes.NewReader(data), int64(len(data)), &pdf.ReaderOptions{Password: "o"})
				if err != nil {
					e.Fail("crypt-declared-unreadable", fmt.Sprintf("file with a stream declaring a Crypt filter cannot be opened: %v", err), info)
					continue
				}
				obj, err := r.Get(ref, true)
				stm, ok := obj.(*pdf.Stream)
				if err != nil || !ok {
					e.Fail("crypt-declared-unreadable", fmt.Sprintf("stream not readable: %v", err), info)
					continue
				}
				if got, _ := stm.Dict["S"].(pdf.String); !bytes.Equal(got, dm) {
					e.Fail("crypt-declared-unreadable", "dictionary string of the stream does not decrypt", info)
				}
				if va.name != "dict-crypt-second" {
					got, err := pdf.ReadAll(r, nil, stm, 1<<20)
					if err != nil || !bytes.Equal(got, body) {
						e.Fail("crypt-declared-unreadable", fmt.Sprintf("the Writer accepted the stream but its data does not read back (%v)", err), info)
					}
				}
				e.Count(true, key, fmt.Sprintf("crypt-declared/accepted/V%d/plaintext=%v", int(V), bodyVisible))
			}
		}
	}
}

// placeholderCases: a pdf.Placeholder holding a String, set before or after the object is written, on seekable
// and non-seekable output: the string is part of an encrypted document like any other
func (rn *run) placeholderCases() {
	e := rn.e
	for _, v := range []pdf.Version{pdf.V1_1, pdf.V1_3, pdf.V1_4, pdf.V1_5, pdf.V1_6, pdf.V1_7, pdf.V2_0} {
		for _, seek := range []bool{true, false} {
			for _, early := range []bool{true, false} {
				for _, valueKind := range []string{"string", "array-string", "array-textstring", "dict-date", "wrapper", "array-wrapper", "textstring"} {
					info := map[string]any{"version": fmt.Sprint(v), "seekable": seek, "set_before_put": early, "value": valueKind}
					key := fmt.Sprintf("placeholder|%v|%v|%v|%s", v, seek, early, valueKind)
					m := marker(e, "placeholder")
					date := pdf.Date(time.Date(1990+e.Rand.IntN(60), time.Month(1+e.Rand.IntN(12)), 1+e.Rand.IntN(28), e.Rand.IntN(24), e.Rand.IntN(60), e.Rand.IntN(60), 0, time.UTC))
					if valueKind == "dict-date" {
						m = []byte(date.AsPDF(0).(pdf.String)) // the text that must not be visible
					}
					value := func() pdf.Native {
						switch valueKind {
						case "array-string":
							return pdf.Array{pdf.Integer(1), pdf.String(append([]byte{}, m...))}
						case "array-textstring":
							return pdf.Array{pdf.Integer(1), pdf.TextString(string(m))}
						case "dict-date":
							return pdf.Dict{"ModDate": date}
						case "wrapper":
							return renderStr{m}.AsPDF(0)
						case "array-wrapper":
							return pdf.Array{renderStr{m}, pdf.Integer(2)}
						case "textstring":
							return pdf.TextString(string(m)).AsPDF(0)
						}
						return pdf.String(append([]byte{}, m...))
					}
					mf := &seekBuf{}
					var out io.Writer = mf
					if !seek {
						out = struct{ io.Writer }{mf}
					}
					w, err := pdf.NewWriter(out, v, &pdf.WriterOptions{UserPassword: "u"})
					if err != nil {
						e.Fail("writer-refuses", err.Error(), info)
						continue
					}
					pages := w.Alloc()
					w.GetMeta().Catalog.Pages = pages
					w.Put(pages, pdf.Dict{"Type": pdf.Name("Pages"), "Kids": pdf.Array{}, "Count": pdf.Integer(0)})
					ph := pdf.NewPlaceholder(w, len(m)+12)
					refused := false
					if early {
						refused = ph.Set(value()) != nil
					}
					ref := w.Alloc()
					if !refused {
						if err := w.Put(ref, pdf.Dict{"S": ph, "T": pdf.String("other")}); err != nil {
							refused = true
						}
					}
					if !refused && !early {
						refused = ph.Set(value()) != nil
					}
					if !refused && w.Close() != nil {
						refused = true
					}
					if refused {
						e.Count(true, key, "placeholder-string/refused")
						continue
					}
					data := mf.data
					if bytes.Contains(data, m) || bytes.Contains(bytes.ToLower(data), []byte(hex.EncodeToString(m))) {
						e.Fail("placeholder-string-plaintext", "a String held by a pdf.Placeholder is written in plaintext into an encrypted file", info)
						continue
					}
					r, err := pdf.NewReader(bytes.NewReader(data), int64(len(data)), &pdf.ReaderOptions{Password: "u"})
					if err != nil {
						e.Fail("placeholder-unreadable", err.Error(), info)
						continue
					}
					obj, _ := r.Get(ref, true)
					d, _ := obj.(pdf.Dict)
					s, _ := pdf.Resolve(r, d["S"])
					var found [][]byte
					collectStrings(s, &found)
					if len(found) != 1 || !bytes.Equal(found[0], m) {
						e.Fail("placeholder-unreadable", "the placeholder's string does not read back", info)
						continue
					}
					e.Count(true, key, "placeholder-string/encrypted-and-readable")
				}
			}
		}
	}
}

// seekBuf is an in-memory io.WriteSeeker
type seekBuf struct {
	data []byte
	pos  int
}

func (b *seekBuf) Write(p []byte) (int, error) {
	if need := b.pos + len(p); need > len(b.data) {
		b.data = append(b.data, make([]byte, need-len(b.data))...)
	}
	copy(b.data[b.pos:], p)
	b.pos += len(p)
	return len(p), nil
}

func (b *seekBuf) Seek(off int64, whence int) (int64, error) {
	switch whence {
	case io.SeekStart:
		b.pos = int(off)
	case io.SeekCurrent:
		b.pos += int(off)
	case io.SeekEnd:
		b.pos = len(b.data) + int(off)
	}
	return int64(b.pos), nil
}

// idOps: the file identifier is replaced / cleared / shortened between NewWriter and Close (the key of revisions
// below 6 was derived from ID[0] at NewWriter time).  Either Close refuses, or the file is a file the Writer
// produced: the real Reader and - for revisions up to 4, where it is cheap - the independent handler must
// authenticate on the /Encrypt dictionary and the /ID actually written, with both passwords.
func (rn *run) idOps() {
	e := rn.e
	muts := []string{"none", "replace-first", "replace-both", "replace-second", "clear", "shorten-first", "one-element", "swap", "same-bytes-new-slice"}
	for _, v := range versions {
		for _, mut := range muts {
			if !e.Thorough && mut != "replace-first" && mut != "replace-both" && e.Rand.IntN(2) == 0 {
				continue
			}
			user, owner := "u-"+string(marker(e, "pw")[6:12]), "o-"+string(marker(e, "pw")[6:12])
			buf := &bytes.Buffer{}
			w, err := pdf.NewWriter(buf, v, &pdf.WriterOptions{UserPassword: user, OwnerPassword: owner, UserPermissions: pdf.PermCopy,
				ID: [][]byte{randBytes(e, 16), randBytes(e, 16)}})
			if err != nil {
				e.Fail("writer-refuses", err.Error(), fmt.Sprint(v))
				continue
			}
			m := marker(e, "idop")
			ref := w.Alloc()
			w.Put(ref, pdf.Dict{"S": pdf.String(append([]byte{}, m...))})
			pages := w.Alloc()
			w.Put(pages, pdf.Dict{"Type": pdf.Name("Pages"), "Kids": pdf.Array{}, "Count": pdf.Integer(0)})
			w.GetMeta().Catalog.Pages = pages
			encDict, _ := w.GetMeta().Trailer["Encrypt"].(pdf.Dict)
			fileKey := pdf.VerifWriterFileKey(w)
			meta := w.GetMeta()
			switch mut {
			case "replace-first":
				meta.ID = [][]byte{randBytes(e, 16), meta.ID[1]}
			case "replace-both":
				meta.ID = [][]byte{randBytes(e, 16), randBytes(e, 16)}
			case "replace-second":
				meta.ID = [][]byte{meta.ID[0], randBytes(e, 16)}
			case "clear":
				meta.ID = nil
			case "shorten-first":
				meta.ID = [][]byte{meta.ID[0][:8], meta.ID[1]}
			case "one-element":
				meta.ID = meta.ID[:1]
			case "swap":
				meta.ID = [][]byte{meta.ID[1], meta.ID[0]}
			case "same-bytes-new-slice":
				meta.ID = [][]byte{append([]byte{}, meta.ID[0]...), append([]byte{}, meta.ID[1]...)}
			}
			info := map[string]any{"version": fmt.Sprint(v), "mutation": mut}
			key := fmt.Sprintf("idop|%v|%s", v, mut)
			closeErr, panicked := func() (err error, p any) {
				defer func() { p = recover() }()
				return w.Close(), nil
			}()
			if panicked != nil {
				e.Fail("close-panics", fmt.Sprintf("Writer.Close panics after GetMeta().ID was changed (%s): %v", mut, panicked), info)
				continue
			}
			if closeErr != nil {
				if mut == "none" || mut == "same-bytes-new-slice" {
					e.Fail("close-refuses-unchanged-id", closeErr.Error(), info)
				}
				e.Count(true, key, "id-ops/refused")
				continue
			}
			data := buf.Bytes()
			var written [][]byte
			opened := true
			for _, pw := range []string{user, owner} {
				r, err := pdf.NewReader(bytes.NewReader(data), int64(len(data)), &pdf.ReaderOptions{Password: pw})
				if err != nil {
					e.Fail("id-changed-before-close", fmt.Sprintf("Close accepted a changed file identifier but the file cannot be opened with its password: %v", err), info)
					opened = false
					break
				}
				written = r.GetMeta().ID
			}
			if !opened {
				continue
			}
			e.Count(true, key, "id-ops/accepted")
			// the independent handler on what is in the file
			Rint, _ := encDict["R"].(pdf.Integer)
			R := int(Rint)
			if R >= 5 || len(written) != 2 {
				continue
			}
			V, _ := encDict["V"].(pdf.Integer)
			keyBytes := map[pdf.Integer]int{1: 5, 2: 16, 4: 16}[V]
			if l, ok := encDict["Length"].(pdf.Integer); ok && V == 2 {
				keyBytes = int(l) / 8
			}
			P, _ := encDict["P"].(pdf.Integer)
			for _, pw := range []string{user, owner} {
				rawPw, _ := rawPrep(R, pw)
				id := rn.nextID("a")
				e.Line("cases.txt", "%s A %d %d %d 0 %s %s %s - - - 1 %s %d 0", id, R, keyBytes, uint32(int32(P)), common.Hex(written[0]),
					common.Hex(str(encDict, "O")), common.Hex(str(encDict, "U")), common.Hex(rawPw), boolInt(V >= 4))
				e.Line("ameta.txt", "%s R=%d id-mutation=%s version=%v password=%q", id, R, mut, v, pw)
				perm := pdf.PermAll
				if pw == user {
					perm = pdf.PermCopy
				}
				e.Line("impl.obs", "%s ok %d %s", id, int(perm), common.Hex(fileKey))
			}
		}
	}
}

// ---- phase 2: files encrypted by the model ----------------------------------------------------

type planItem struct {
	num    uint32
	gen    uint16
	kind   string
	plain  []byte
	chunks [][]byte
}

type planFile struct {
	id        string
	V         int
	bits      int
	perm      pdf.Perm
	plainMeta bool
	id0       []byte
	user      string
	owner     string
	aes       bool
	items     []planItem
}

// user validation salts for which Algorithm 2.B (password "correct horse", no user key) stops exactly at the
// boundary of its termination rule: after 64 rounds, and after 77 rounds
var boundarySalts = []string{"000000000000002c", "00000000000000a8"}

var edgeNums = []uint32{3, 255, 256, 257, 65535, 65536, 65537, 1<<24 - 1, 1<<24 - 2, 70000, 1 << 16, 1 << 23}
var edgeGens = []uint16{0, 1, 255, 256, 257, 65535, 65534}

func (rn *run) planPhase2() {
	e := rn.e
	type kind struct {
		V, bits int
		aes     bool
	}
	kinds := []kind{{1, 40, false}, {2, 128, false}, {2, 64, false}, {2, 40, false}, {2, 104, false}, {4, 128, true}}
	n := e.Pick(3, 12)
	var files []kind
	for i := 0; i < n; i++ {
		files = append(files, kinds...)
	}
	for i := 0; i < e.Pick(1, 6); i++ {
		files = append(files, kind{5, 256, true})
	}
	// revision 5 (Adobe extension level 3, read-only in the library): bits 255 marks it for the model
	for i := 0; i < e.Pick(3, 20); i++ {
		files = append(files, kind{5, 255, true})
	}
	pws := []string{"", "user", "pässwörd", strings.Repeat("x", 40), "owner-password", strings.Repeat("Long", 33)}
	f, err := os.Create(filepath.Join(e.Dir, "plan2.txt"))
	if err != nil {
		panic(err)
	}
	defer f.Close()
	r6seen := 0
	for _, k := range files {
		u := pws[e.Rand.IntN(len(pws))]
		o := pws[1+e.Rand.IntN(len(pws)-1)]
		perm := pdf.Perm(e.Rand.IntN(128))
		if k.V == 1 && e.Rand.IntN(2) == 0 {
			// a permission set revision 2 can express
			if perm&pdf.PermPrint == 0 {
				perm &^= pdf.PermPrintDegraded
			}
			if perm&pdf.PermAnnotate == 0 {
				perm &^= pdf.PermForms
			}
			if perm&pdf.PermModify == 0 {
				perm &^= pdf.PermAssemble
			}
		}
		id0 := randBytes(e, 16)
		id := rn.nextID("f")
		R := 3
		switch {
		case k.V == 1 && r2CanExpress(perm):
			R = 2
		case k.V == 4:
			R = 4
		case k.V == 5:
			R = 6
		}
		rawU, _ := rawPrep(R, u)
		rawO, _ := rawPrep(R, o)
		plain := k.V >= 4 && e.Rand.IntN(3) == 0
		rnd := "- - - -"
		if k.V == 5 {
			usalt := randBytes(e, 16)
			if k.bits == 256 && r6seen < len(boundarySalts) {
				// corpus: Algorithm 2.B ends exactly in the boundary case of step (e)/(f) (last byte of E equal to
				// round number - 32) for this password and user validation salt
				u = "correct horse"
				rawU, _ = rawPrep(R, u)
				copy(usalt, common.UnHex(boundarySalts[r6seen]))
			}
			if k.bits == 256 {
				r6seen++
			}
			rnd = fmt.Sprintf("%s %s %s %s", common.Hex(randBytes(e, 32)), common.Hex(usalt), common.Hex(randBytes(e, 16)), common.Hex(randBytes(e, 4)))
		}
		nobj := 2 + e.Rand.IntN(4)
		used := map[uint32]bool{1: true, 2: true}
		var items []planItem
		for j := 0; j < nobj; j++ {
			num := edgeNums[e.Rand.IntN(len(edgeNums))]
			if e.Rand.IntN(3) == 0 {
				num = 3 + uint32(e.Rand.IntN(1<<24-4))
			}
			if used[num] {
				continue
			}
			used[num] = true
			gen := edgeGens[e.Rand.IntN(len(edgeGens))]
			if e.Rand.IntN(3) == 0 {
				gen = uint16(e.Rand.IntN(65536))
			}
			ns := 1 + e.Rand.IntN(2)
			for s := 0; s < ns; s++ {
				items = append(items, planItem{num: num, gen: gen, kind: "s", plain: randText(e)})
			}
			if e.Rand.IntN(2) == 0 {
				body := randBytes(e, []int{0, 1, 15, 16, 17, 32, 33, 200}[e.Rand.IntN(8)])
				var chunks [][]byte
				rest := body
				for len(rest) > 0 {
					c := 1 + e.Rand.IntN(20)
					if c > len(rest) {
						c = len(rest)
					}
					chunks = append(chunks, rest[:c])
					rest = rest[c:]
				}
				items = append(items, planItem{num: num, gen: gen, kind: "t", plain: body, chunks: chunks})
			}
		}
		line := fmt.Sprintf("%s F %d %d %d %d %s %s %s %s %d %d", id, k.V, int(perm), k.bits, boolInt(plain), common.Hex(id0),
			common.Hex(rawU), common.Hex(rawO), rnd, boolInt(k.aes), len(items))
		for _, it := range items {
			iv := randBytes(e, 16)
			if it.kind == "s" {
				line += fmt.Sprintf(" %d %d s %s 1 %s", it.num, it.gen, common.Hex(iv), common.Hex(it.plain))
			} else {
				line += fmt.Sprintf(" %d %d t %s %d", it.num, it.gen, common.Hex(iv), len(it.chunks))
				for _, c := range it.chunks {
					line += " " + common.Hex(c)
				}
			}
		}
		e.Line("cases.txt", "%s", line)
		// the plan: what phase 2 needs to know
		fmt.Fprintf(f, "%s %d %d %d %d %s %s %s %d %d", id, k.V, k.bits, int(perm), boolInt(plain), common.Hex(id0),
			common.Hex([]byte(u)), common.Hex([]byte(o)), boolInt(k.aes), len(items))
		for _, it := range items {
			fmt.Fprintf(f, " %d %d %s %s", it.num, it.gen, it.kind, common.Hex(it.plain))
		}
		fmt.Fprintln(f)
	}
}

func r2CanExpress(p pdf.Perm) bool {
	return !(p&pdf.PermPrintDegraded != 0 && p&pdf.PermPrint == 0) &&
		!(p&pdf.PermForms != 0 && p&pdf.PermAnnotate == 0) &&
		!(p&pdf.PermAssemble != 0 && p&pdf.PermModify == 0)
}

func randText(e *common.Env) []byte {
	n := []int{0, 1, 5, 15, 16, 17, 31, 32, 40}[e.Rand.IntN(9)]
	return randBytes(e, n)
}

func kv(s string) map[string]string {
	m := map[string]string{}
	for _, f := range strings.Fields(s) {
		if i := strings.IndexByte(f, '='); i > 0 {
			m[f[:i]] = f[i+1:]
		}
	}
	return m
}

func phase2() {
	e := common.New(10)
	model := map[string]string{}
	for _, f := range common.ReadLines(filepath.Join(e.Dir, "model.obs")) {
		model[f[0]] = strings.Join(f[1:], " ")
	}
	for _, f := range common.ReadLines(filepath.Join(e.Dir, "plan2.txt")) {
		id := f[0]
		var V, bits, perm, plain, aes, n int
		fmt.Sscan(f[1], &V)
		fmt.Sscan(f[2], &bits)
		fmt.Sscan(f[3], &perm)
		fmt.Sscan(f[4], &plain)
		id0 := common.UnHex(f[5])
		user, owner := string(common.UnHex(f[6])), string(common.UnHex(f[7]))
		fmt.Sscan(f[8], &aes)
		fmt.Sscan(f[9], &n)
		info := map[string]any{"file": id, "V": V, "bits": bits, "perm": perm, "user": user, "owner": owner}
		h := kv(model[id])
		if h["R"] == "" {
			e.Fail("model-encrypt", "the model produced no handler: "+model[id], info)
			continue
		}
		var R int
		fmt.Sscan(h["R"], &R)
		var P uint32
		fmt.Sscan(h["P"], &P)
		// assemble the file
		var out bytes.Buffer
		offsets := map[uint32]int{}
		gens := map[uint32]uint16{}
		ver := "1.7"
		if V == 5 {
			ver = "2.0"
		}
		fmt.Fprintf(&out, "%%PDF-%s\n%%\x80\x80\x80\x80\n", ver)
		offsets[1] = out.Len()
		out.WriteString("1 0 obj\n<< /Type /Catalog /Pages 2 0 R >>\nendobj\n")
		offsets[2] = out.Len()
		out.WriteString("2 0 obj\n<< /Type /Pages /Kids [] /Count 0 >>\nendobj\n")
		type obj struct {
			num     uint32
			gen     uint16
			strs    [][]byte // ciphertexts
			plains  [][]byte
			body    []byte
			bplain  []byte
			hasBody bool
		}
		var order []uint32
		objs := map[uint32]*obj{}
		bad := false
		for i := 0; i < n; i++ {
			var num uint32
			var gen uint16
			fmt.Sscan(f[10+4*i], &num)
			fmt.Sscan(f[11+4*i], &gen)
			kind := f[12+4*i]
			plainB := common.UnHex(f[13+4*i])
			c, ok := model[fmt.Sprintf("%s.%d", id, i)]
			if !ok || c == "badcase" {
				bad = true
				break
			}
			cipher := common.UnHex(c)
			o := objs[num]
			if o == nil {
				o = &obj{num: num, gen: gen}
				objs[num] = o
				order = append(order, num)
			}
			if kind == "s" {
				o.strs = append(o.strs, cipher)
				o.plains = append(o.plains, plainB)
			} else {
				o.body, o.bplain, o.hasBody = cipher, plainB, true
			}
		}
		if bad {
			e.Fail("model-encrypt", "the model did not encrypt every item", info)
			continue
		}
		for _, num := range order {
			o := objs[num]
			offsets[num] = out.Len()
			gens[num] = o.gen
			fmt.Fprintf(&out, "%d %d obj\n<< /K [", o.num, o.gen)
			for _, s := range o.strs {
				fmt.Fprintf(&out, " <%s>", hex.EncodeToString(s))
			}
			out.WriteString(" ]")
			if o.hasBody {
				fmt.Fprintf(&out, " /Length %d >>\nstream\n", len(o.body))
				out.Write(o.body)
				out.WriteString("\nendstream\nendobj\n")
			} else {
				out.WriteString(" >>\nendobj\n")
			}
		}
		xrefPos := out.Len()
		nums := []uint32{1, 2}
		nums = append(nums, order...)
		sort.Slice(nums, func(i, j int) bool { return nums[i] < nums[j] })
		out.WriteString("xref\n0 1\n0000000000 65535 f \n")
		maxNum := uint32(0)
		for i := 0; i < len(nums); {
			j := i
			for j+1 < len(nums) && nums[j+1] == nums[j]+1 {
				j++
			}
			fmt.Fprintf(&out, "%d %d\n", nums[i], j-i+1)
			for k := i; k <= j; k++ {
				fmt.Fprintf(&out, "%010d %05d n \n", offsets[nums[k]], gens[nums[k]])
				if nums[k] > maxNum {
					maxNum = nums[k]
				}
			}
			i = j + 1
		}
		hs := func(k string) string {
			v := h[k]
			if v == "-" {
				return ""
			}
			return v
		}
		enc := fmt.Sprintf("<< /Filter /Standard /V %d /R %d /O <%s> /U <%s> /P %d", V, R, hs("O"), hs("U"), int32(P))
		switch V {
		case 2:
			enc += fmt.Sprintf(" /Length %d", bits)
		case 4:
			enc += " /CF << /StdCF << /CFM /AESV2 /AuthEvent /DocOpen /Length 16 >> >> /StmF /StdCF /StrF /StdCF"
		case 5:
			enc += fmt.Sprintf(" /CF << /StdCF << /CFM /AESV3 /AuthEvent /DocOpen /Length 32 >> >> /StmF /StdCF /StrF /StdCF /OE <%s> /UE <%s> /Perms <%s>", hs("OE"), hs("UE"), hs("Perms"))
		}
		if plain == 1 {
			enc += " /EncryptMetadata false"
		}
		enc += " >>"
		fmt.Fprintf(&out, "trailer\n<< /Size %d /Root 1 0 R /Encrypt %s /ID [<%s> <%s>] >>\nstartxref\n%d\n%%%%EOF\n",
			maxNum+1, enc, hex.EncodeToString(id0), hex.EncodeToString(id0), xrefPos)
		data := out.Bytes()

		ownerEff := owner
		if ownerEff == "" {
			ownerEff = user
		}
		try := func(label, pw string, wantPerm pdf.Perm) {
			e.Count(true, id+label, fmt.Sprintf("model-file/R%d/%s", R, label))
			r, err := pdf.NewReader(bytes.NewReader(data), int64(len(data)), &pdf.ReaderOptions{Password: pw})
			ci := map[string]any{"file": info, "password": pw, "label": label}
			if err != nil {
				e.Fail("reader-rejects-model-file", fmt.Sprintf("the Reader cannot open a file encrypted by the independent implementation (%s password): %v", label, err), ci)
				return
			}
			if got := r.GetMeta().Permissions; got != wantPerm {
				e.Fail("model-file-permissions", fmt.Sprintf("permissions %07b, expected %07b", int(got), int(wantPerm)), ci)
			}
			if k := pdf.VerifReaderFileKey(r); common.Hex(k) != h["key"] {
				e.Fail("model-file-key", "Reader and model disagree on the file key", ci)
			}
			for _, num := range order {
				o := objs[num]
				ref := pdf.NewReference(o.num, o.gen)
				got, err := r.Get(ref, true)
				if err != nil {
					e.Fail("model-file-object", fmt.Sprintf("%v: %v", ref, err), ci)
					continue
				}
				var d pdf.Dict
				switch x := got.(type) {
				case pdf.Dict:
					d = x
				case *pdf.Stream:
					d = x.Dict
					body, err := pdf.ReadAll(r, nil, x, 1<<20)
					if err != nil || !bytes.Equal(body, o.bplain) {
						e.Fail("model-file-stream", fmt.Sprintf("%v: stream data not recovered (%v)", ref, err), ci)
					}
				default:
					e.Fail("model-file-object", fmt.Sprintf("%v: unexpected %T", ref, got), ci)
					continue
				}
				arr, _ := d["K"].(pdf.Array)
				if len(arr) != len(o.plains) {
					e.Fail("model-file-object", fmt.Sprintf("%v: %d strings", ref, len(arr)), ci)
					continue
				}
				for i, x := range arr {
					s, _ := x.(pdf.String)
					if !bytes.Equal([]byte(s), o.plains[i]) {
						e.Fail("model-file-string", fmt.Sprintf("%v: string %d read as %x, encrypted from %x", ref, i, []byte(s), o.plains[i]), ci)
					}
				}
			}
		}
		up, _ := rawPrep(R, user)
		op, _ := rawPrep(R, ownerEff)
		emptyUser := user == ""
		samePw := bytes.Equal(prep(R, up), prep(R, op))
		userPerm := closePerm(pdf.Perm(perm))
		if samePw {
			userPerm = pdf.PermAll
		}
		try("user", user, userPerm)
		ownerPerm := pdf.PermAll
		if emptyUser && !samePw {
			ownerPerm = userPerm // the empty password opens the file first
		}
		try("owner", ownerEff, ownerPerm)
		if !emptyUser {
			wrong := "definitely-wrong"
			_, err := pdf.NewReader(bytes.NewReader(data), int64(len(data)), &pdf.ReaderOptions{Password: wrong})
			var ae *pdf.AuthenticationError
			if err == nil || !errors.As(err, &ae) {
				e.Fail("model-file-wrong-password", fmt.Sprintf("wrong password on a model-encrypted file: %v", err), info)
			}
			e.Count(true, id+"wrong", fmt.Sprintf("model-file/R%d/wrong", R))
		}
		e.Sample(3, map[string]any{"model_encrypted_file": id, "R": R, "objects": len(order), "bytes": len(data)})
	}
	e.Finish("phase 2: one evaluation per (model-encrypted file, password)", nil)
	os.Rename(filepath.Join(e.Dir, "stats.json"), filepath.Join(e.Dir, "stats2.json"))
}

func prep(R int, raw []byte) []byte {
	if R <= 4 {
		pad := []byte{0x28, 0xBF, 0x4E, 0x5E, 0x4E, 0x75, 0x8A, 0x41, 0x64, 0x00, 0x4E, 0x56, 0xFF, 0xFA, 0x01, 0x08,
			0x2E, 0x2E, 0x00, 0xB6, 0xD0, 0x68, 0x3E, 0x80, 0x2F, 0x0C, 0xA9, 0xFE, 0x64, 0x53, 0x69, 0x7A}
		p := append(append([]byte{}, raw...), pad...)
		return p[:32]
	}
	if len(raw) > 127 {
		return raw[:127]
	}
	return raw
}

var versions = []pdf.Version{pdf.V1_1, pdf.V1_2, pdf.V1_3, pdf.V1_4, pdf.V1_5, pdf.V1_6, pdf.V1_7, pdf.V2_0}

func main() {
	for i, a := range os.Args {
		if a == "-phase" && i+1 < len(os.Args) && os.Args[i+1] == "2" {
			phase2()
			return
		}
	}
	e := common.New(10)
	rn := &run{e: e, r6model: e.Pick(1, 12)}
	pws := []string{"", "u", "user pw", "pässwörd", strings.Repeat("p", 33)}
	rounds := e.Pick(2, 30)
	perm := 0
	for round := 0; round < rounds; round++ {
		for _, v := range versions {
			for _, human := range []bool{false, true} {
				u := pws[e.Rand.IntN(len(pws))]
				o := pws[1+e.Rand.IntN(len(pws)-1)]
				if round == 0 && v == pdf.V2_0 {
					u = "" // the cheapest R6 authentication for the rationed model runs
				}
				perm = (perm + 41) % 128
				cfg := config{version: v, user: u, owner: o, perm: pdf.Perm(perm), human: human}
				if v >= pdf.V1_4 {
					cfg.withMeta = e.Rand.IntN(3) != 0
					cfg.plainMeta = cfg.withMeta && v >= pdf.V1_6 && e.Rand.IntN(2) == 0
				}
				rn.checkFile(cfg)
			}
		}
	}
	// revision 6 with a password cut inside a multi-byte character: the owner variant needs the fewest hashes
	for i, pw := range straddlePasswords(e) {
		if i >= e.Pick(1, 6) {
			break
		}
		rn.checkFile(config{version: pdf.V2_0, user: "u", owner: pw, perm: pdf.PermCopy, human: i%2 == 1, forceModel: true})
	}
	rn.idOps()
	rn.cryptCases()
	rn.placeholderCases()
	rn.planPhase2()
	e.Finish("nontrivial = distinct (file configuration, object, string/stream) handed to the model, plaintext markers scanned for, groups of equal plaintexts compared", nil)
}
