package main

import (
	"fmt"
	"sort"
	"strings"

	"seehuhn.de/go/postscript/type1/names"

	"seehuhn.de/go/pdf"
	"seehuhn.de/go/pdf/font/encoding"
	"seehuhn.de/go/pdf/font/pdfenc"
)

// The /Encoding entry of simple font dictionaries: encoding.Simple.AsPDFSimple /
// ExtractSimple (Type 1, TrueType) and AsPDFType3 / ExtractType3, against
// coq/C14/Encoding.v.

var encCursor pdf.Cursor

func encodingSetup() {
	r, _, err := writeFile(pdf.V1_7, func(w *pdf.Writer, rm *pdf.ResourceManager) (pdf.Object, error) { return nil, nil })
	if err != nil {
		panic(err)
	}
	encCursor = pdf.NewCursor(r)
	for _, t := range []struct {
		name string
		enc  *pdfenc.Encoding
	}{{"win", &pdfenc.WinAnsi}, {"mac", &pdfenc.MacRoman}, {"expert", &pdfenc.MacExpert}, {"std", &pdfenc.Standard}} {
		var sb strings.Builder
		for c := 0; c < 256; c++ {
			fmt.Fprintf(&sb, " %s:%s", thex(t.enc.Encoding[c]), v01(t.enc.Encoding[c]))
		}
		id := nextID()
		e.Line("cases.txt", "%s EB %s%s", id, t.name, sb.String())
		e.Line("impl.obs", "%s table", id)
	}
}

func v01(name string) string { return b01(names.IsValid(name)) }

func showItems(r pdf.Getter, arr pdf.Array, withValid bool) (string, int) {
	var parts []string
	for _, o := range arr {
		o, _ = pdf.Resolve(r, o)
		switch x := o.(type) {
		case pdf.Integer:
			parts = append(parts, fmt.Sprintf("I%d", x))
		case pdf.Name:
			if withValid {
				parts = append(parts, fmt.Sprintf("N%s:%s", thex(string(x)), v01(string(x))))
			} else {
				parts = append(parts, fmt.Sprintf("N%s:1", thex(string(x))))
			}
		}
	}
	return strings.Join(parts, " "), len(parts)
}

// encObjWire serialises an /Encoding object of a Type 1 / TrueType dictionary.
func encObjWire(r pdf.Getter, obj pdf.Object) (string, bool) {
	obj, err := pdf.Resolve(r, obj)
	if err != nil {
		return "", false
	}
	switch x := obj.(type) {
	case nil:
		return "nil", true
	case pdf.Name:
		switch x {
		case "WinAnsiEncoding":
			return "named win", true
		case "MacRomanEncoding":
			return "named mac", true
		case "MacExpertEncoding":
			return "named expert", true
		}
		return "nil", true
	case pdf.Dict:
		base := "-"
		if b, _ := pdf.Resolve(r, x["BaseEncoding"]); b != nil {
			switch b {
			case pdf.Name("WinAnsiEncoding"):
				base = "win"
			case pdf.Name("MacRomanEncoding"):
				base = "mac"
			case pdf.Name("MacExpertEncoding"):
				base = "expert"
			}
		}
		arr, _ := getArray(r, x["Differences"])
		items, n := showItems(r, arr, true)
		return strings.TrimSpace(fmt.Sprintf("dict %s %d %s", base, n, items)), true
	}
	return "", false
}

var customNames = []string{"g12", "uni0411", "afii10018", "A.alt1", "orn001", "fi", "Euro", "a_b", "f_f_i", "x.sc", "Lslash", "bullet"}

func randEncoding(i int) (func(byte) string, []int, bool) {
	tab := map[int]string{}
	tables := []*pdfenc.Encoding{&pdfenc.WinAnsi, &pdfenc.MacRoman, &pdfenc.MacExpert, &pdfenc.Standard}
	mode := i % 9
	base := tables[e.Rand.IntN(4)]
	n := 1 + e.Rand.IntN(40)
	if i%13 == 0 {
		n = 200 + e.Rand.IntN(57)
	}
	valid := true
	for k := 0; k < n; k++ {
		c := e.Rand.IntN(256)
		switch {
		case mode <= 3: // a subset of a base table, sometimes with a few differences
			name := tables[mode].Encoding[c]
			if name == ".notdef" || name == "" {
				continue
			}
			tab[c] = name
			if e.Rand.IntN(12) == 0 && i%2 == 0 {
				tab[c] = customNames[e.Rand.IntN(len(customNames))]
			}
		case mode == 4: // mostly differences, in runs
			for j := 0; j < 1+e.Rand.IntN(5) && c+j < 256; j++ {
				tab[c+j] = customNames[e.Rand.IntN(len(customNames))]
			}
		case mode == 5: // built-in only
			tab[c] = encoding.UseBuiltin
		case mode == 6: // built-in mixed with names
			if e.Rand.IntN(2) == 0 {
				tab[c] = encoding.UseBuiltin
			} else {
				tab[c] = customNames[e.Rand.IntN(len(customNames))]
			}
		case mode == 7: // names of one table at the codes of another
			name := base.Encoding[(c+1)%256]
			if name != ".notdef" && name != "" {
				tab[c] = name
			}
		default: // some names which are not valid glyph names
			tab[c] = []string{"A", "!bad", "9lives", ".hidden", "ok_name", "sp ace"}[e.Rand.IntN(6)]
			if !names.IsValid(tab[c]) {
				valid = false
			}
		}
	}
	if len(tab) == 0 {
		tab[65] = "A"
	}
	if e.Rand.IntN(3) == 0 {
		tab[32] = "space"
	}
	var codes []int
	for c := range tab {
		codes = append(codes, c)
	}
	sort.Ints(codes)
	return func(c byte) string { return tab[int(c)] }, codes, valid
}

func encodingCases() {
	n := e.Pick(250, 5000)
	for i := 0; i < n; i++ {
		simpleEncodingCase(i)
		rawEncodingCase(i)
		type3EncodingCase(i)
	}
}

func simpleEncodingCase(i int) {
	enc, codes, valid := randEncoding(i)
	bis := e.Rand.IntN(3) == 0
	var sb strings.Builder
	var desc []string
	for _, c := range codes {
		fmt.Fprintf(&sb, " %d %s %s", c, thex(enc(byte(c))), v01(enc(byte(c))))
		desc = append(desc, fmt.Sprintf("%d:%s", c, enc(byte(c))))
	}
	caseInfo := map[string]any{"encoding": strings.Join(desc, " "), "baseIsStd": bis, "seed": e.Seed}
	id := nextID()
	e.Line("cases.txt", "%s EW %s %d%s", id, b01(bis), len(codes), sb.String())
	obj, err := encoding.Simple(enc).AsPDFSimple(bis, 0)
	class := "encoding:simple:error"
	if err != nil {
		e.Line("impl.obs", "%s error", id)
		e.Line("impl.obs", "%s.soft error", id)
	} else {
		wire, ok := encObjWire(nil, obj)
		if !ok {
			fail("encoding:malformed", fmt.Sprintf("AsPDFSimple returned %T", obj), caseInfo)
			return
		}
		class = "encoding:simple:" + strings.Fields(wire)[0]
		dec, err := encoding.ExtractSimple(encCursor, obj, bis)
		if err != nil {
			fail("encoding:extract", err.Error(), caseInfo)
			return
		}
		var parts []string
		for _, c := range codes {
			parts = append(parts, fmt.Sprintf("%d:%s", c, thex(dec(byte(c)))))
			if valid && dec(byte(c)) != enc(byte(c)) {
				fail("encoding:name-lost", fmt.Sprintf("code %d: glyph name %q reads back as %q (baseIsStd=%v, /Encoding %s)", c, enc(byte(c)), dec(byte(c)), bis, pdf.AsString(obj)), caseInfo)
				break
			}
		}
		e.Line("impl.obs", "%s %s", id, strings.Join(parts, ","))
		e.Line("impl.obs", "%s.soft %s", id, wire)
		// the implementation's object, decoded by the model
		id2 := nextID()
		var cs strings.Builder
		for _, c := range codes {
			fmt.Fprintf(&cs, " %d", c)
		}
		e.Line("cases.txt", "%s ER %s %s %d%s", id2, b01(bis), wire, len(codes), cs.String())
		e.Line("impl.obs", "%s %s", id2, strings.Join(parts, ","))
	}
	e.Count(true, "EW|"+strings.Join(desc, " ")+b01(bis), class)
}

// rawEncodingCase: arbitrary /Encoding objects, decoded by both sides.
func rawEncodingCase(i int) {
	d := pdf.Dict{}
	switch e.Rand.IntN(5) {
	case 0:
		d["BaseEncoding"] = pdf.Name("WinAnsiEncoding")
	case 1:
		d["BaseEncoding"] = pdf.Name("MacRomanEncoding")
	case 2:
		d["BaseEncoding"] = pdf.Name("MacExpertEncoding")
	}
	if e.Rand.IntN(2) == 0 {
		d["Type"] = pdf.Name("Encoding")
	}
	var arr pdf.Array
	touched := map[int]bool{32: true, 65: true, 255: true, 0: true}
	cur := -1
	for k := 0; k < e.Rand.IntN(12); k++ {
		if e.Rand.IntN(3) == 0 || (k == 0 && e.Rand.IntN(6) > 0) {
			cur = []int{e.Rand.IntN(256), e.Rand.IntN(256), 254, 255, 256, 300, -1, 0}[e.Rand.IntN(8)]
			arr = append(arr, pdf.Integer(cur))
		} else {
			name := []string{"A", "B", "space", "Euro", "g12", "!bad", "9x", ".notdef", "uni0411", "a.b"}[e.Rand.IntN(10)]
			arr = append(arr, pdf.Name(name))
			if cur >= 0 && cur < 256 {
				touched[cur] = true
				cur++
			}
		}
	}
	if len(arr) > 0 || e.Rand.IntN(2) == 0 {
		d["Differences"] = arr
	}
	var obj pdf.Object = d
	if e.Rand.IntN(10) == 0 {
		obj = []pdf.Object{pdf.Name("WinAnsiEncoding"), pdf.Name("MacRomanEncoding"), pdf.Name("MacExpertEncoding"), nil}[e.Rand.IntN(4)]
	}
	nse := e.Rand.IntN(2) == 0
	wire, ok := encObjWire(nil, obj)
	if !ok {
		return
	}
	var codes []int
	for c := range touched {
		codes = append(codes, c)
	}
	sort.Ints(codes)
	dec, err := encoding.ExtractSimple(encCursor, obj, nse)
	e.Count(true, "ER|"+wire+b01(nse), "encoding:raw")
	if err != nil {
		return
	}
	var parts []string
	var cs strings.Builder
	for _, c := range codes {
		parts = append(parts, fmt.Sprintf("%d:%s", c, thex(dec(byte(c)))))
		fmt.Fprintf(&cs, " %d", c)
	}
	id := nextID()
	e.Line("cases.txt", "%s ER %s %s %d%s", id, b01(nse), wire, len(codes), cs.String())
	e.Line("impl.obs", "%s %s", id, strings.Join(parts, ","))
}

func all256(dec func(byte) string) string {
	parts := make([]string, 256)
	for c := 0; c < 256; c++ {
		parts[c] = fmt.Sprintf("%d:%s", c, thex(dec(byte(c))))
	}
	return strings.Join(parts, ",")
}

func type3EncodingCase(i int) {
	enc, codes, _ := randEncoding(4 + i%2*4) // names only
	for _, c := range codes {
		if enc(byte(c)) == encoding.UseBuiltin {
			return
		}
	}
	var sb strings.Builder
	var desc []string
	for _, c := range codes {
		fmt.Fprintf(&sb, " %d %s", c, thex(enc(byte(c))))
		desc = append(desc, fmt.Sprintf("%d:%s", c, enc(byte(c))))
	}
	caseInfo := map[string]any{"encoding": strings.Join(desc, " "), "type3": true, "seed": e.Seed}
	e.Count(true, "E3|"+strings.Join(desc, " "), "encoding:type3")
	obj, err := encoding.Simple(enc).AsPDFType3(0)
	if err != nil {
		fail("encoding:type3:write", err.Error(), caseInfo)
		return
	}
	dec, err := encoding.ExtractType3(encCursor, obj, false)
	if err != nil {
		fail("encoding:type3:extract", err.Error(), caseInfo)
		return
	}
	for c := 0; c < 256; c++ {
		if dec(byte(c)) != enc(byte(c)) {
			fail("encoding:name-lost", fmt.Sprintf("Type 3: code %d: glyph name %q reads back as %q", c, enc(byte(c)), dec(byte(c))), caseInfo)
			break
		}
	}
	id := nextID()
	e.Line("cases.txt", "%s E3W %d%s", id, len(codes), sb.String())
	e.Line("impl.obs", "%s %s", id, all256(dec))
	d, _ := obj.(pdf.Dict)
	arr, _ := d["Differences"].(pdf.Array)
	items, n := showItems(nil, arr, false)
	e.Line("impl.obs", "%s.soft %d %s", id, n, items)
	id = nextID()
	e.Line("cases.txt", "%s E3R %d %s", id, n, items)
	e.Line("impl.obs", "%s %s", id, all256(dec))
}
