package main

import (
	"seehuhn.de/go/pdf"
)

func kindIndex(label string) int {
	for i, k := range kinds {
		if k.label == label {
			return i
		}
	}
	panic("no font kind " + label)
}

// corpus: past failures first.
func corpus() {
	// F17: symbolic simple glyf fonts lost all text once a non-Latin glyph was shown
	for _, l := range []string{"TrueTypeSimple", "OpenTypeGlyfSimple", "Go5/simple"} {
		for _, v := range []pdf.Version{pdf.V1_7, pdf.V2_0} {
			runDocument(docPlan{kinds: []int{kindIndex(l)}, version: v, nStr: 1, class: 1, fixed: []string{"AбB"}}, "corpus:F17")
			runDocument(docPlan{kinds: []int{kindIndex(l)}, version: v, nStr: 2, class: 1, fixed: []string{"Hello", "мир αβγ"}}, "corpus:F17")
		}
	}
	// identity encoder: one code per CID (known finding)
	runDocument(docPlan{kinds: []int{kindIndex("TrueTypeComposite/identity")}, version: pdf.V1_7, nStr: 2, class: 3, fixed: []string{"fi", "ﬁ"}}, "corpus:identity-share")
	// the same with the UTF-8 encoder and a simple font: two codes
	runDocument(docPlan{kinds: []int{kindIndex("TrueTypeComposite/utf8")}, version: pdf.V1_7, nStr: 2, class: 3, fixed: []string{"fi", "ﬁ"}}, "corpus:ligature")
	runDocument(docPlan{kinds: []int{kindIndex("CFFSimple1")}, version: pdf.V1_7, nStr: 2, class: 3, fixed: []string{"fi", "ﬁ"}}, "corpus:ligature")
	// same glyph, different text: space / no-break space, hyphen / soft hyphen, micro / mu
	for _, l := range []string{"Type1a", "Type3", "Std-Helvetica", "OpenTypeCFFSimple1", "CFFComposite2/utf8", "Go0/identity"} {
		runDocument(docPlan{kinds: []int{kindIndex(l)}, version: pdf.V1_7, nStr: 1, class: 1, fixed: []string{"a b c-­µμ"}}, "corpus:lookalikes")
	}
}

func documents() {
	// every kind on its own, with each text class
	per := e.Pick(2, 25)
	for ki := range kinds {
		for rep := 0; rep < per; rep++ {
			for class := 0; class < 4; class++ {
				if !e.Thorough && (ki+rep+class)%4 == 3 {
					continue // quick tier: three of the four text classes per font kind and repetition
				}
				runDocument(docPlan{kinds: []int{ki}, version: versions[e.Rand.IntN(len(versions))], nStr: 1 + e.Rand.IntN(5), class: class}, "single")
			}
		}
	}
	// towards and beyond the 256-code limit of simple fonts
	nWide := e.Pick(30, 600)
	for i := 0; i < nWide; i++ {
		ki := e.Rand.IntN(len(kinds))
		for kinds[ki].composite && e.Rand.IntN(4) > 0 {
			ki = e.Rand.IntN(len(kinds))
		}
		class := 4
		if i%3 == 2 {
			class = 5
		}
		runDocument(docPlan{kinds: []int{ki}, version: []pdf.Version{pdf.V1_7, pdf.V2_0}[e.Rand.IntN(2)], nStr: 60, class: class}, "wide")
	}
	// several fonts per page
	nMulti := e.Pick(130, 6000)
	for i := 0; i < nMulti; i++ {
		n := 2 + e.Rand.IntN(2)
		var ks []int
		for j := 0; j < n; j++ {
			ki := e.Rand.IntN(len(kinds))
			ks = append(ks, ki)
		}
		if e.Rand.IntN(5) == 0 {
			ks[1] = ks[0] // two instances of the same font kind on one page
		}
		v := versions[2+e.Rand.IntN(len(versions)-2)]
		runDocument(docPlan{kinds: ks, version: v, nStr: 2 + e.Rand.IntN(8), class: e.Rand.IntN(4)}, "multi")
	}
}
