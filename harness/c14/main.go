// C14 harness: text shown with any font reads back with the same codes,
// widths and text.
//
//  1. trace refinement: every GetCode/Encode the real encoders perform
//     (directly driven encoders, and the encoders inside every font kind while
//     documents are laid out) is written to cases.txt with the implementation's
//     answer in impl.obs; the extracted Coq model (SimpleEnc/CidEnc/Widths)
//     replays the trace, taking the implementation's code choice as angelic
//     input, and must accept every step and agree on every lookup.
//  2. failing-input search on the implementation: documents with several fonts
//     are written, closed, reopened and read with reader.Reader; every PDF
//     string must decode into as many codes as glyphs were shown, each with
//     the glyph's advance width and text; writer-side and reader-side decoding
//     agree; distinct (glyph, text) pairs never share a code.
package main

import (
	"bytes"
	"errors"
	"fmt"
	"math"
	"os"
	"reflect"
	"regexp"
	"slices"
	"sort"
	"strings"
	"time"

	"seehuhn.de/go/postscript/type1/names"
	"seehuhn.de/go/sfnt/glyph"

	"seehuhn.de/go/pdf"
	"seehuhn.de/go/pdf/document"
	"seehuhn.de/go/pdf/font"
	"seehuhn.de/go/pdf/font/charcode"
	"seehuhn.de/go/pdf/font/cmap"
	"seehuhn.de/go/pdf/font/dict"
	"seehuhn.de/go/pdf/font/subset"
	"seehuhn.de/go/pdf/page"
	"seehuhn.de/go/pdf/pagetree"
	"seehuhn.de/go/pdf/reader"
	"seehuhn.de/go/pdf/verifharness/common"
)

const (
	sigShare  = "identity-cid-encoder:same-glyph-different-text"
	sigRecode = "cidenc-fromcmap:code-remapped-by-child-cmap"
	sigParent = "cmap-with-parent:codespace-of-parent-ignored"
	sigTJ     = "textshowglyphs:tj-array-overwritten-after-rise-change"
	widthTol  = 0.0005 + 1e-9 // widths are rounded to 1/1000 text space unit
	agreeTol  = 1e-9
	sigPrefix = "c14:"
)

var (
	e      *common.Env
	kinds  []kind
	seqNo  int
	instNo int
)

func nextID() string {
	seqNo++
	return fmt.Sprintf("t%07d", seqNo)
}

func newTracer() *tracer {
	instNo++
	return &tracer{e: e, inst: fmt.Sprintf("i%d", instNo), seq: &seqNo}
}

// ---------------------------------------------------------------------------
// repertoire

var candidates = func() []rune {
	var rr []rune
	add := func(lo, hi rune) {
		for r := lo; r <= hi; r++ {
			rr = append(rr, r)
		}
	}
	add(0x20, 0x7E)
	add(0xA0, 0xFF)
	add(0x100, 0x17F)
	add(0x391, 0x3A1)
	add(0x3A3, 0x3A9)
	add(0x3B1, 0x3C9)
	add(0x400, 0x45F)
	add(0x2010, 0x2026)
	rr = append(rr, 0x20AC, 0x2122, 0x2030, 0x2039, 0x203A, 0xFB01, 0xFB02, 0x2212, 0x221A, 0x2260)
	return rr
}()

type repertoire struct {
	latin, other []rune // runes the font maps to a single glyph other than .notdef
	ligs         []string
}

var repCache = map[string]*repertoire{}

func repertoireOf(k kind, F font.Layouter) *repertoire {
	label := k.label
	if r, ok := repCache[label]; ok {
		return r
	}
	r := &repertoire{}
	// fonts encoded through a predefined CMap only reach the glyphs of the character
	// collection: probe with a separate, untraced instance
	var probe font.Layouter
	if k.enc == "cmap" {
		probe = k.make(&tracer{mute: true})
	}
	encodable := func(g font.Glyph) bool {
		if probe == nil {
			return true
		}
		code, ok := probe.Encode(g.GID, g.Text)
		if !ok {
			return false
		}
		for c := range probe.Codes(probe.Codec().AppendCode(nil, code)) {
			if c.CID == 0 {
				return false
			}
		}
		return true
	}
	for _, c := range candidates {
		seq := F.Layout(nil, 10, string(c))
		if len(seq.Seq) != 1 || seq.Seq[0].GID == 0 || !encodable(seq.Seq[0]) {
			continue
		}
		if c < 0x7F {
			r.latin = append(r.latin, c)
		} else {
			r.other = append(r.other, c)
		}
	}
	for _, s := range []string{"fi", "fl", "ffi", "ffl", "ﬁ", "ﬂ"} {
		ok := true
		for _, g := range F.Layout(nil, 10, s).Seq {
			if g.GID == 0 || !encodable(g) {
				ok = false
			}
		}
		if ok {
			r.ligs = append(r.ligs, s)
		}
	}
	if os.Getenv("C14_DEBUG") != "" {
		fmt.Fprintf(os.Stderr, "repertoire %s: latin %d other %d ligs %d\n", label, len(r.latin), len(r.other), len(r.ligs))
	}
	repCache[label] = r
	return r
}

func (r *repertoire) text(class int, n int) string {
	if len(r.latin) == 0 {
		// e.g. 90ms-RKSJ-H reaches only the half-width and full-width forms of the collection
		r = &repertoire{latin: r.other, other: r.other, ligs: r.ligs}
	}
	var sb strings.Builder
	for i := 0; i < n; i++ {
		switch {
		case class == 0 || len(r.other) == 0: // plain Latin
			sb.WriteRune(r.latin[e.Rand.IntN(len(r.latin))])
		case class == 1: // mixed
			if e.Rand.IntN(3) == 0 {
				sb.WriteRune(r.other[e.Rand.IntN(len(r.other))])
			} else {
				sb.WriteRune(r.latin[e.Rand.IntN(len(r.latin))])
			}
		case class == 2: // non-Latin scripts, punctuation
			sb.WriteRune(r.other[e.Rand.IntN(len(r.other))])
		default: // ligatures between letters
			if len(r.ligs) > 0 && e.Rand.IntN(2) == 0 {
				sb.WriteString(r.ligs[e.Rand.IntN(len(r.ligs))])
			} else {
				sb.WriteRune(r.latin[e.Rand.IntN(len(r.latin))])
			}
		}
	}
	return sb.String()
}

// ---------------------------------------------------------------------------
// a font in use

type gkey struct {
	gid  glyph.ID
	text string
}

type shown struct {
	font    int
	gid     glyph.ID
	text    string
	code    string // code bytes
	share   bool   // the code is already owned by the same glyph with another text (identity encoder)
	recoded bool   // NewFromCMap returned a code which the CMap maps to another CID
	outside bool   // a glyph outside the character collection of a predefined CMap (CID 0): outside the property
}

type liveFont struct {
	k            kind
	F            font.Layouter
	tr           *tracer
	api          simpleAPI
	rep          *repertoire
	keys         map[gkey]string
	owner        map[string]gkey
	overflow     bool
	size         float64
	shared       map[gkey]bool
	cidw         *tracedCID // composite fonts: the tracing encoder
	recodedCodes map[string]bool
}

func cidWrapperOf(F font.Layouter) *tracedCID {
	v := reflect.ValueOf(F)
	for v.Kind() == reflect.Pointer || v.Kind() == reflect.Interface {
		v = v.Elem()
	}
	f := v.FieldByName("CIDEncoder")
	if !f.IsValid() {
		return nil
	}
	w, _ := f.Interface().(*tracedCID)
	return w
}

func newLiveFont(k kind) *liveFont {
	tr := newTracer()
	F := k.make(tr)
	lf := &liveFont{k: k, F: F, tr: tr, keys: map[gkey]string{}, owner: map[string]gkey{}, shared: map[gkey]bool{}, recodedCodes: map[string]bool{}, size: float64(6 + e.Rand.IntN(18))}
	lf.rep = repertoireOf(k, F)
	lf.cidw = cidWrapperOf(F)
	if !k.composite {
		lf.api = encoderOf(F)
		id := nextID()
		e.Line("cases.txt", "%s SN %s %s", id, tr.inst, wbits(lf.api.Width(0)))
		e.Line("impl.obs", "%s new", id)
	}
	return lf
}

// failShare records the known identity-encoder finding; only a few records per
// run, so that they do not use up the harness's limit on recorded failures.
var nShare int

func failShare(what string, c any) {
	nShare++
	if nShare <= 6 {
		fail(sigShare, what, c)
	}
}

var nRecode int

func failRecode(what string, c any) {
	nRecode++
	if nRecode <= 6 {
		fail(sigRecode, what, c)
	}
}

var riseDocs int

func fail(sig, what string, c any) {
	e.Fail(sigPrefix+sig, what, c)
}

// encode performs (and traces) what the embedders do for one shown glyph.
func (lf *liveFont) encode(g font.Glyph, fontIdx int) (shown, bool) {
	var code charcode.Code
	var ok bool
	if lf.api != nil {
		pre, found := lf.api.GetCode(g.GID, g.Text)
		id := nextID()
		e.Line("cases.txt", "%s SG %s %d %s", id, lf.tr.inst, g.GID, thex(g.Text))
		if found {
			e.Line("impl.obs", "%s %d", id, pre)
		} else {
			e.Line("impl.obs", "%s none", id)
		}
		c, k := lf.F.Encode(g.GID, g.Text)
		code, ok = c, k
		switch {
		case found && (!ok || byte(c) != pre):
			fail("simple:getcode-encode-disagree", fmt.Sprintf("%s: GetCode=%d, Encode=(%d,%v)", lf.k.label, pre, c, ok),
				map[string]any{"font": lf.k.label, "gid": g.GID, "text": g.Text})
		case !found:
			id := nextID()
			if ok {
				e.Line("cases.txt", "%s SE %s %d %s %s %d", id, lf.tr.inst, g.GID, thex(g.Text), wbits(lf.api.Width(byte(c))), c)
				e.Line("impl.obs", "%s ok %d", id, c)
			} else {
				e.Line("cases.txt", "%s SE %s %d %s 0 0", id, lf.tr.inst, g.GID, thex(g.Text))
				e.Line("impl.obs", "%s overflow", id)
				lf.overflow = true
				if lf.api.CodesRemaining() != 0 {
					fail("simple:encode-fails-with-free-codes", fmt.Sprintf("%s: Encode failed with %d codes remaining", lf.k.label, lf.api.CodesRemaining()),
						map[string]any{"font": lf.k.label, "gid": g.GID, "text": g.Text})
				}
			}
		}
	} else {
		if lf.cidw != nil {
			lf.cidw.recoded = false
		}
		c, k := lf.F.Encode(g.GID, g.Text) // traced by the wrapped encoder
		code, ok = c, k
	}
	if !ok {
		return shown{}, false
	}
	cb := string(lf.F.Codec().AppendCode(nil, code))
	sh := shown{font: fontIdx, gid: g.GID, text: g.Text, code: cb}
	if lf.cidw != nil && lf.cidw.mode == 'G' && lf.cidw.lastCID == 0 && g.GID != 0 {
		// NewGIDToCIDFromROS has no CID for this glyph (e.g. a ligature the collection lacks): the
		// embedder shows it as CID 0; like .notdef this is outside the property
		sh.outside = true
		e.Dist["doc:glyph-outside-character-collection"]++
		return sh, true
	}
	if lf.cidw != nil && lf.cidw.mode == 'G' {
		if lf.cidw.recoded {
			lf.recodedCodes[cb] = true
			failRecode(fmt.Sprintf("%s: glyph %d (text %q) is written with code %x, which the CMap maps to another CID", lf.k.label, g.GID, g.Text, cb),
				map[string]any{"font": lf.k.label, "gid": g.GID, "text": g.Text, "code": fmt.Sprintf("%x", cb)})
		}
		sh.recoded = lf.recodedCodes[cb]
	}
	key := gkey{g.GID, g.Text}
	if old, seen := lf.keys[key]; seen {
		sh.share = lf.shared[key]
		if old != cb {
			fail("code-changed", fmt.Sprintf("%s: glyph %d text %q had code %x, now %x", lf.k.label, g.GID, g.Text, old, cb),
				map[string]any{"font": lf.k.label, "gid": g.GID, "text": g.Text})
		}
	} else {
		if ow, taken := lf.owner[cb]; taken && ow != key {
			c := map[string]any{"font": lf.k.label, "gid": g.GID, "text": g.Text, "first_gid": ow.gid, "first_text": ow.text, "code": fmt.Sprintf("%x", cb)}
			switch {
			case (lf.k.enc == "identity" || lf.k.enc == "cmap") && ow.gid == g.GID && g.GID != 0:
				sh.share = true
				lf.shared[key] = true
				failShare(fmt.Sprintf("%s: glyph %d shown with text %q and %q has the single code %x", lf.k.label, g.GID, ow.text, g.Text, cb), c)
			case g.GID == 0 && ow.gid == 0:
				// .notdef shown for characters outside the font's repertoire: outside the property
				sh.share = true
				lf.shared[key] = true
			default:
				fail("code-shared", fmt.Sprintf("%s: (%d,%q) and (%d,%q) share code %x", lf.k.label, ow.gid, ow.text, g.GID, g.Text, cb), c)
			}
		} else {
			lf.owner[cb] = key
		}
		lf.keys[key] = cb
	}
	return sh, true
}

// retext gives some glyphs of a laid-out sequence another text, as a caller may do
// (font.Glyph.Text is the caller's): several runes, combining sequences, characters
// outside the BMP.  These travel through ToUnicode as UTF-16 with surrogate pairs.
var exoticTexts = []string{"\U0001F600", "a\u0301", "ffi", "\U0001D49C\U0001D4B7", "x\u200dy", "\uFFFC", "e\u0301\u0323", "\U0010FFFD", "\ufb03"}

func retext(lf *liveFont, seq *font.GlyphSeq, nearLimit bool) {
	if nearLimit || e.Rand.IntN(6) != 0 {
		return
	}
	for i := range seq.Seq {
		if seq.Seq[i].GID != 0 && e.Rand.IntN(3) == 0 {
			seq.Seq[i].Text = exoticTexts[e.Rand.IntN(len(exoticTexts))]
		}
	}
}

// ---------------------------------------------------------------------------
// documents

var versions = []pdf.Version{pdf.V1_2, pdf.V1_3, pdf.V1_4, pdf.V1_5, pdf.V1_6, pdf.V1_7, pdf.V1_7, pdf.V2_0, pdf.V2_0}

type docPlan struct {
	kinds   []int
	version pdf.Version
	nStr    int
	class   int // text class; 4 = wide (towards the code limit); 5 = beyond the limit
	fixed   []string
}

func runDocument(p docPlan, label string) {
	buf := &bytes.Buffer{}
	doc, err := document.WriteSinglePage(buf, document.A4, p.version, nil)
	if err != nil {
		panic(err)
	}
	fonts := make([]*liveFont, len(p.kinds))
	for i, ki := range p.kinds {
		fonts[i] = newLiveFont(kinds[ki])
	}
	var labels []string
	for _, lf := range fonts {
		labels = append(labels, lf.k.label)
	}
	caseInfo := map[string]any{"fonts": labels, "version": p.version.String(), "class": p.class, "seed": e.Seed, "doc": label}

	var expect []shown
	var texts []string
	type pending struct {
		f   int
		seq *font.GlyphSeq
	}
	doc.TextBegin()
	doc.TextFirstLine(36, 800)
	// kerning and rise: a quarter of the documents adjust advances (TJ arrays with
	// numbers), another quarter also change the text rise inside a sequence, so that
	// one TextShowGlyphs call emits several TJ operators
	var scratch []byte
	layoutMode := e.Rand.IntN(5)
	shared := &font.GlyphSeq{} // mode 4: one glyph sequence, re-used for every string
	if len(p.fixed) > 0 {
		layoutMode = 3
	}
	if p.class >= 4 && layoutMode == 4 {
		layoutMode = 3
	}
	caseInfo["layout"] = layoutMode
	show := func(pd pending) {
		lf := fonts[pd.f]
		if (layoutMode <= 1 || layoutMode == 4 && e.Rand.IntN(2) == 0) && len(pd.seq.Seq) > 0 {
			kerned := false
			for i := range pd.seq.Seq {
				if e.Rand.IntN(2) == 0 {
					pd.seq.Seq[i].Advance += float64(e.Rand.IntN(25)-10) / 10
					kerned = true
				}
			}
			if layoutMode != 1 && len(pd.seq.Seq) > 1 {
				rise := []float64{0, 0, 2, -1}[e.Rand.IntN(4)] // also the first glyph may be raised
				changes := 0
				for i := range pd.seq.Seq {
					if i > 0 && e.Rand.IntN(3) == 0 {
						rise = float64(e.Rand.IntN(7) - 2)
					}
					if i > 0 && rise != pd.seq.Seq[i-1].Rise {
						changes++
					}
					pd.seq.Seq[i].Rise = rise
				}
				// (the fonts' own kerning also puts numbers into the TJ array)
				_ = kerned
				if changes > 0 {
					riseDocs++ // several TJ operators from one TextShowGlyphs call (F49)
				}
			}
		}
		if layoutMode == 2 {
			// the raw text operators, called the way a caller with its own buffer would:
			// the byte slices handed over are re-used (overwritten) right after the call
			doc.TextSetFont(lf.F, lf.size)
			var cuts []int
			scratch = scratch[:0]
			for _, g := range pd.seq.Seq {
				if sh, ok := lf.encode(g, pd.f); ok {
					expect = append(expect, sh)
					scratch = append(scratch, sh.code...)
					cuts = append(cuts, len(scratch))
				}
			}
			if len(cuts) > 0 {
				switch e.Rand.IntN(4) {
				case 0:
					doc.TextShowRaw(pdf.String(scratch))
				case 1:
					doc.TextShowNextLineRaw(pdf.String(scratch))
				case 2:
					doc.TextShowSpacedRaw(float64(e.Rand.IntN(3)), float64(e.Rand.IntN(2)), pdf.String(scratch))
				default:
					var args []pdf.Object
					start := 0
					for i, c := range cuts {
						if i == len(cuts)-1 || e.Rand.IntN(3) == 0 {
							args = append(args, pdf.String(scratch[start:c]))
							start = c
							if i < len(cuts)-1 {
								args = append(args, pdf.Integer(e.Rand.IntN(200)-100))
							}
						}
					}
					argsBefore := fmt.Sprint(args)
					doc.TextShowKernedRaw(args...)
					if fmt.Sprint(args) != argsBefore {
						fail("aliasing:textshowkernedraw-changed-arguments", fmt.Sprintf("%s: TextShowKernedRaw modified its arguments", lf.k.label), caseInfo)
					}
					for i := range args {
						args[i] = pdf.Integer(0) // the caller's argument slice is re-used as well
					}
				}
				for i := range scratch {
					scratch[i] = 0xAA
				}
			}
			doc.TextSecondLine(0, -3)
			return
		}
		for _, g := range pd.seq.Seq {
			if sh, ok := lf.encode(g, pd.f); ok {
				expect = append(expect, sh)
			}
		}
		doc.TextSetFont(lf.F, lf.size)
		before := font.GlyphSeq{Skip: pd.seq.Skip, Seq: append([]font.Glyph(nil), pd.seq.Seq...)}
		doc.TextShowGlyphs(pd.seq)
		if before.Skip != pd.seq.Skip || !slices.Equal(before.Seq, pd.seq.Seq) {
			fail("aliasing:textshowglyphs-changed-sequence", fmt.Sprintf("%s: TextShowGlyphs modified the caller's glyph sequence", lf.k.label), caseInfo)
		}
		doc.TextSecondLine(0, -3)
	}
	var queue []pending
	for s := 0; s < p.nStr; s++ {
		fi := e.Rand.IntN(len(fonts))
		lf := fonts[fi]
		var text string
		switch {
		case s < len(p.fixed):
			text = p.fixed[s]
		case p.class >= 4:
			text = lf.rep.text(1+e.Rand.IntN(2), 8+e.Rand.IntN(24))
		default:
			cl := p.class
			if e.Rand.IntN(4) == 0 {
				cl = e.Rand.IntN(4)
			}
			text = lf.rep.text(cl, 1+e.Rand.IntN(12))
		}
		if p.class == 4 && lf.api != nil && lf.api.CodesRemaining() < 40 {
			// fill the table up to exactly 256 codes without passing the limit:
			// re-use what is allocated, plus at most one new character per string
			var rr []rune
			for k := range lf.keys {
				if r := []rune(k.text); len(r) == 1 && k.gid != 0 {
					rr = append(rr, r[0])
				}
			}
			sort.Slice(rr, func(i, j int) bool { return rr[i] < rr[j] })
			if len(rr) == 0 {
				continue
			}
			var sb strings.Builder
			for k := 0; k < 1+e.Rand.IntN(6); k++ {
				sb.WriteRune(rr[e.Rand.IntN(len(rr))])
			}
			if lf.api.CodesRemaining() > 0 {
				sb.WriteRune(lf.rep.other[e.Rand.IntN(len(lf.rep.other))])
			}
			text = sb.String()
		}
		texts = append(texts, text)
		// interleave Layout and Encode: some strings are laid out early and shown later
		nearLimit := p.class >= 4
		pd := pending{fi, lf.F.Layout(nil, lf.size, text)}
		if layoutMode != 4 {
			retext(lf, pd.seq, nearLimit)
		}
		nearLimit = p.class == 4 && lf.api != nil && lf.api.CodesRemaining() < 60
		if layoutMode == 4 {
			// caller-owned sequence: Layout appends to it, TextShowGlyphs must neither keep nor change it
			shared.Reset()
			var prefix []font.Glyph
			if e.Rand.IntN(3) == 0 {
				lf.F.Layout(shared, lf.size, lf.rep.text(0, 1+e.Rand.IntN(3)))
				prefix = append(prefix, shared.Seq...)
			}
			lf.F.Layout(shared, lf.size, text)
			for i, g := range prefix {
				if shared.Seq[i].GID != g.GID || shared.Seq[i].Text != g.Text {
					fail("aliasing:layout-changed-existing-glyphs", fmt.Sprintf("%s: Layout onto a non-empty sequence changed glyph %d from (%d,%q) to (%d,%q)", lf.k.label, i, g.GID, g.Text, shared.Seq[i].GID, shared.Seq[i].Text), caseInfo)
				}
			}
			retext(lf, shared, nearLimit)
			show(pending{fi, shared})
			for i := range shared.Seq {
				shared.Seq[i] = font.Glyph{GID: 0, Text: "\x00", Advance: 1e6, Rise: 99}
			}
			continue
		}
		if e.Rand.IntN(3) == 0 && !nearLimit {
			queue = append(queue, pd)
			continue
		}
		show(pd)
		if len(queue) > 0 && e.Rand.IntN(2) == 0 {
			j := e.Rand.IntN(len(queue))
			show(queue[j])
			queue = append(queue[:j], queue[j+1:]...)
		}
	}
	for _, pd := range queue {
		show(pd)
	}
	doc.TextEnd()
	caseInfo["texts"] = texts
	err = doc.Close()

	anyOverflow := false
	for _, lf := range fonts {
		if lf.overflow {
			anyOverflow = true
		}
		lf.dumpSimple()
	}
	for _, lf := range fonts {
		if lf.api != nil && lf.api.CodesRemaining() == 0 && !lf.overflow {
			e.Dist["doc:simple-font-with-all-256-codes-used"]++
		}
	}
	e.Dist[[]string{"doc:layout:kerning+rise-changes", "doc:layout:kerning", "doc:layout:raw-operators-reused-buffer", "doc:layout:plain", "doc:layout:reused-glyph-sequence"}[layoutMode]]++
	class := fmt.Sprintf("doc:%s:n=%d", map[int]string{0: "latin", 1: "mixed", 2: "nonlatin", 3: "ligatures", 4: "wide", 5: "overflow"}[p.class], len(fonts))
	key := fmt.Sprintf("%v|%v|%v", labels, p.version, texts)
	if err != nil {
		switch {
		case anyOverflow:
			e.Count(true, key, class+":overflow-reported")
		case isVersionError(err):
			e.Count(false, key, "doc:version-rejected")
		default:
			e.Count(true, key, class)
			fail("document-not-written", fmt.Sprintf("%v: %v", labels, err), caseInfo)
		}
		return
	}
	if anyOverflow {
		e.Count(true, key, class)
		fail("simple:overflow-not-reported", fmt.Sprintf("%v: a glyph could not be encoded but the document was written", labels), caseInfo)
		return
	}
	e.Count(len(expect) > 0, key, class)
	e.Sample(4, map[string]any{"fonts": labels, "version": p.version.String(), "texts": texts, "glyphs": len(expect)})
	readBack(buf.Bytes(), fonts, expect, caseInfo)
}

func isVersionError(err error) bool {
	var ve *pdf.VersionError
	return errors.As(err, &ve)
}

// dumpSimple records the final table of a simple encoder for the model comparison.
func (lf *liveFont) dumpSimple() {
	if lf.api == nil {
		return
	}
	id := nextID()
	e.Line("cases.txt", "%s SI %s", id, lf.tr.inst)
	e.Line("impl.obs", "%s %s", id, simpleDump(lf.api))
	e.Line("impl.obs", "%s.soft dw=%s", id, wbits(lf.api.DefaultWidth()))
}

func simpleDump(api simpleAPI) string {
	used := map[byte]bool{}
	text := map[byte]string{}
	n := 0
	for c, info := range api.MappedCodes() {
		used[c] = true
		text[c] = info.Text
		n++
	}
	var sb strings.Builder
	fmt.Fprintf(&sb, "used=%d err=%s ", n, b01(api.Error() != nil))
	for c := 0; c < 256; c++ {
		if c > 0 {
			sb.WriteByte(',')
		}
		fmt.Fprintf(&sb, "%d:%s:%s", api.GID(byte(c)), wbits(api.Width(byte(c))), thex(text[byte(c)]))
	}
	return sb.String()
}

func b01(b bool) string {
	if b {
		return "1"
	}
	return "0"
}

// readBack reopens the file and compares what the reader sees with what was shown.
func readBack(data []byte, fonts []*liveFont, expect []shown, caseInfo map[string]any) {
	labels := caseInfo["fonts"]
	r, err := pdf.NewReader(bytes.NewReader(data), int64(len(data)), nil)
	if err != nil {
		fail("reopen", fmt.Sprintf("%v: %v", labels, err), caseInfo)
		return
	}
	_, pageDict, err := pagetree.GetPage(r, 0)
	if err != nil {
		fail("reopen", fmt.Sprintf("%v: %v", labels, err), caseInfo)
		return
	}
	x := pdf.NewExtractor(r)
	pg, err := pdf.Decode(pdf.CursorAt(x, nil), pageDict, page.Decode)
	if err != nil {
		fail("reopen", fmt.Sprintf("%v: %v", labels, err), caseInfo)
		return
	}
	rd := reader.New(x)
	nChar := 0
	rd.Character = func(c font.Code) error {
		nChar++
		return nil
	}
	pos := 0
	bad := false
	seenFont := map[int]font.Instance{}
	resName := map[int]pdf.Name{}
	var curName pdf.Name
	compare := func(s pdf.String) {
		if bad {
			return
		}
		G := rd.State.GState.TextFont
		if G == nil {
			bad = true
			fail("no-font", fmt.Sprintf("%v: text shown without a font", labels), caseInfo)
			return
		}
		var rc []font.Code
		sCopy := append(pdf.String(nil), s...)
		for c := range G.Codes(s) {
			rc = append(rc, c)
		}
		if !bytes.Equal(sCopy, s) {
			fail("aliasing:codes-changed-string", fmt.Sprintf("%v: Codes modified the PDF string", labels), caseInfo)
		}
		if pos+len(rc) > len(expect) {
			bad = true
			fail("count", fmt.Sprintf("%v: the reader decodes more codes than glyphs were shown (%d)", labels, len(expect)), caseInfo)
			return
		}
		want := expect[pos : pos+len(rc)]
		pos += len(rc)
		if len(want) == 0 {
			return
		}
		fi := want[0].font
		var codes []byte
		for _, sh := range want {
			if sh.font != fi {
				bad = true
				fail("count", fmt.Sprintf("%v: a PDF string decodes into a number of codes that crosses a font change", labels), caseInfo)
				return
			}
			codes = append(codes, sh.code...)
		}
		lf := fonts[fi]
		seenFont[fi] = G
		resName[fi] = curName
		if !bytes.Equal(codes, s) {
			bad = true
			fail("count", fmt.Sprintf("%s: PDF string %x is not the codes of the glyphs shown %x", lf.k.label, []byte(s), codes), caseInfo)
			return
		}
		var wc []font.Code
		for c := range lf.F.Codes(s) {
			wc = append(wc, c)
		}
		if len(wc) != len(rc) {
			bad = true
			fail("count", fmt.Sprintf("%s: string %x: writer decodes %d codes, reader %d, glyphs %d", lf.k.label, []byte(s), len(wc), len(rc), len(want)), caseInfo)
			return
		}
		widths := lf.F.GetGeometry().Widths
		for i, sh := range want {
			ci := map[string]any{"font": lf.k.label, "gid": sh.gid, "text": sh.text, "code": fmt.Sprintf("%x", sh.code), "doc": caseInfo}
			if sh.outside {
				continue
			}
			if sh.recoded {
				// known finding: the code belongs to another CID; width and text of this glyph are not what is read back
				if math.Abs(rc[i].Width-widths[sh.gid]) > widthTol || rc[i].Text != sh.text {
					failRecode(fmt.Sprintf("%s: glyph %d (text %q, advance %g) reads back through code %x as text %q, width %g", lf.k.label, sh.gid, sh.text, widths[sh.gid], sh.code, rc[i].Text, rc[i].Width), ci)
				}
				continue
			}
			if math.Abs(rc[i].Width-wc[i].Width) > agreeTol {
				fail("writer-reader-width", fmt.Sprintf("%s: code %x: writer width %g, reader width %g", lf.k.label, sh.code, wc[i].Width, rc[i].Width), ci)
			}
			if rc[i].Text != wc[i].Text {
				fail("writer-reader-text", fmt.Sprintf("%s: code %x: writer text %q, reader text %q (glyph text %q)", lf.k.label, sh.code, wc[i].Text, rc[i].Text, sh.text), ci)
			}
			tol := widthTol
			if lf.k.t3scale != 0 {
				// glyph space of the font: widths are rounded to whole glyph space units
				tol = 0.5*lf.k.t3scale + 1e-9
				if want := math.Round(widths[sh.gid]/lf.k.t3scale) * lf.k.t3scale; math.Abs(rc[i].Width-want) > 1e-9 {
					fail("type3-width-scaling", fmt.Sprintf("%s: glyph %d: width %g in text space, expected round(%g/%g)*%g = %g", lf.k.label, sh.gid, rc[i].Width, widths[sh.gid], lf.k.t3scale, lf.k.t3scale, want), ci)
				}
			}
			if int(sh.gid) < len(widths) && math.Abs(rc[i].Width-widths[sh.gid]) > tol {
				fail("width", fmt.Sprintf("%s: glyph %d advance %g reads back as %g", lf.k.label, sh.gid, widths[sh.gid], rc[i].Width), ci)
			}
			switch {
			case sh.gid == 0:
				// text of .notdef: characters outside the repertoire are outside the property
			case rc[i].Text == sh.text:
			case sh.share && lf.owner[sh.code].text == rc[i].Text:
				failShare(fmt.Sprintf("%s: glyph %d shown with text %q reads back with text %q", lf.k.label, sh.gid, sh.text, rc[i].Text), ci)
			default:
				fail("text", fmt.Sprintf("%s: glyph %d shown with text %q reads back with text %q", lf.k.label, sh.gid, sh.text, rc[i].Text), ci)
			}
		}
	}
	rd.EveryOp = func(op string, args []pdf.Object) error {
		switch op {
		case "Tf":
			if len(args) > 0 {
				curName, _ = args[0].(pdf.Name)
			}
		case "Tj", "'", "\"":
			if len(args) > 0 {
				if s, ok := args[len(args)-1].(pdf.String); ok {
					compare(s)
				}
			}
		case "TJ":
			if len(args) > 0 {
				if a, ok := args[0].(pdf.Array); ok {
					for _, o := range a {
						if s, ok := o.(pdf.String); ok {
							compare(s)
						}
					}
				}
			}
		}
		return nil
	}
	if err := rd.ProcessPage(pg); err != nil {
		fail("read-page", fmt.Sprintf("%v: %v", labels, err), caseInfo)
		return
	}
	if !bad && (pos != len(expect) || nChar != len(expect)) {
		fail("count", fmt.Sprintf("%v: %d glyphs shown, %d codes in the PDF strings, %d Character callbacks", labels, len(expect), pos, nChar), caseInfo)
	}
	// the text a reader derives, per used code, against the model of SimpleTextMap
	var fontRes pdf.Dict
	if pd, err := getDict(r, pageDict); err == nil {
		if res, err := getDict(r, pd["Resources"]); err == nil {
			fontRes, _ = getDict(r, res["Font"])
		}
	}
	for fi, G := range seenFont {
		fonts[fi].textCase(G)
		if raw, err := getDict(r, fontRes[resName[fi]]); err == nil {
			fonts[fi].encodingCase(r, G, raw, caseInfo)
			fonts[fi].toUnicodeCase(r, G, raw, caseInfo)
		}
	}
}

// textCase writes the TX case of a simple font: the glyph names' implied text
// as data, the dictionary shape as read back, and the reader's text per code.
func (lf *liveFont) textCase(G font.Instance) {
	if lf.api == nil {
		return
	}
	gd, ok := G.(interface{ GetDict() dict.Dict })
	if !ok {
		return
	}
	shape := "W"
	var tu map[byte]bool
	switch d := gd.GetDict().(type) {
	case *dict.TrueType:
		if d.Descriptor != nil && d.Descriptor.IsSymbolic && d.Encoding(65) == "@" {
			shape = "B"
		}
		tu = tuCodes(d.ToUnicode)
	case *dict.Type1:
		tu = tuCodes(d.ToUnicode)
	case *dict.Type3:
		tu = tuCodes(d.ToUnicode)
	default:
		return
	}
	_, psName := subset.Split(lf.F.PostScriptName())
	var gids []int
	seen := map[glyph.ID]bool{}
	var used []int
	for c := range lf.api.MappedCodes() {
		used = append(used, int(c))
		g := lf.api.GID(c)
		if !seen[g] {
			seen[g] = true
			gids = append(gids, int(g))
		}
	}
	sort.Ints(gids)
	sort.Ints(used)
	var sb strings.Builder
	for _, g := range gids {
		fmt.Fprintf(&sb, " %d %s", g, thex(names.ToUnicode(lf.api.GlyphName(glyph.ID(g)), psName)))
	}
	id := nextID()
	e.Line("cases.txt", "%s TX %s %s %d%s", id, lf.tr.inst, shape, len(gids), sb.String())
	var parts, soft []string
	for _, c := range used {
		var t string
		for code := range G.Codes(pdf.String{byte(c)}) {
			t = code.Text
		}
		parts = append(parts, fmt.Sprintf("%d:%s", c, thex(t)))
		if tu[byte(c)] {
			soft = append(soft, fmt.Sprint(c))
		}
	}
	e.Line("impl.obs", "%s %s", id, dash(strings.Join(parts, ",")))
	e.Line("impl.obs", "%s.soft tu=%s", id, dash(strings.Join(soft, ",")))
}

func tuCodes(tu *cmap.ToUnicodeFile) map[byte]bool {
	res := map[byte]bool{}
	if tu == nil {
		return res
	}
	codec, _ := charcode.NewCodec(charcode.Simple)
	for code, text := range tu.All(codec) {
		if text != "" {
			res[byte(code)] = true
		}
	}
	return res
}

func dash(s string) string {
	if s == "" {
		return "-"
	}
	return s
}

func main() {
	e = common.New(14)
	kinds = allKinds()
	encodingSetup()
	stage := func(name string, f func()) {
		t0 := time.Now()
		f()
		if os.Getenv("C14_DEBUG") != "" {
			fmt.Fprintf(os.Stderr, "stage %s: %v\n", name, time.Since(t0))
		}
	}
	stage("corpus", corpus)
	stage("encoders", encoderLevel)
	stage("widths", widthTables)
	stage("encodings", encodingCases)
	stage("documents", documents)
	e.Finish(
		"trace refinement: every GetCode/Encode of the real simple/UTF-8/identity encoders (driven directly and inside every font kind while documents are laid out) replayed by the extracted model with the implementation's code as angelic choice; width tables: /W and /Widths written by font/dict decoded by the model and by graphics/extract; end to end: documents with 1-3 fonts written, reopened, read with reader.Reader and compared glyph by glyph (count, width, text, writer vs reader, code sharing)",
		map[string]any{"font_kinds": len(kinds)},
	)
}

// encodingCase: the /Encoding object of the font dictionary in the file, decoded by the
// model and by the implementation; the reader's glyph name of every used code must be
// the name the writer chose.
func (lf *liveFont) encodingCase(r pdf.Getter, G font.Instance, raw pdf.Dict, caseInfo map[string]any) {
	if lf.api == nil {
		return
	}
	gd, ok := G.(interface{ GetDict() dict.Dict })
	if !ok {
		return
	}
	var enc func(byte) string
	var width []float64
	missing := 0.0
	nse := false
	type3 := false
	switch d := gd.GetDict().(type) {
	case *dict.TrueType:
		enc = d.Encoding
		nse = d.Descriptor != nil && !d.Descriptor.IsSymbolic && d.FontFile == nil
		width = d.Width[:]
		if d.Descriptor != nil {
			missing = d.Descriptor.MissingWidth
		}
	case *dict.Type1:
		enc = d.Encoding
		nse = d.Descriptor != nil && !d.Descriptor.IsSymbolic && d.FontFile == nil
		width = d.Width[:]
		if d.Descriptor != nil {
			missing = d.Descriptor.MissingWidth
		}
	case *dict.Type3:
		enc = d.Encoding
		type3 = true
		width = d.Width[:]
		if d.Descriptor != nil {
			missing = d.Descriptor.MissingWidth
		}
	default:
		return
	}
	var used []int
	for c := range lf.api.MappedCodes() {
		used = append(used, int(c))
	}
	sort.Ints(used)
	builtin := true
	for _, c := range used {
		if enc(byte(c)) != "@" {
			builtin = false
		}
	}
	for _, c := range used {
		want := lf.api.GlyphName(lf.api.GID(byte(c)))
		if !builtin && enc(byte(c)) != want {
			fail("encoding:glyph-name", fmt.Sprintf("%s: code %d shows glyph %q, the reader's encoding names %q", lf.k.label, c, want, enc(byte(c))), caseInfo)
			break
		}
	}
	e.Dist["encoding:real-dictionary"]++
	// the width table of the dictionary: the model builds /FirstChar /Widths from its own encoder
	// state with the MissingWidth the reader found, and reads every used code back
	{
		var parts []string
		for _, c := range used {
			parts = append(parts, fmt.Sprintf("%d:%s", c, wbits(width[c])))
			if want := lf.api.Width(byte(c)); width[c] != want {
				fail("widths:simple:real-dictionary", fmt.Sprintf("%s: code %d: width %g in the encoder, %g in the extracted dictionary", lf.k.label, c, want, width[c]), caseInfo)
				break
			}
		}
		id := nextID()
		shape := "W"
		if builtin {
			shape = "B"
		}
		first, ok1 := num(r, raw["FirstChar"])
		last, ok2 := num(r, raw["LastChar"])
		arr, err := getArray(r, raw["Widths"])
		if err != nil || !ok1 || !ok2 {
			shape = "N"
		}
		e.Line("cases.txt", "%s SW %s %s %s", id, lf.tr.inst, wbits(missing), shape)
		e.Line("impl.obs", "%s %s", id, dash(strings.Join(parts, ",")))
		if shape == "N" {
			e.Line("impl.obs", "%s.soft absent", id)
		} else {
			e.Line("impl.obs", "%s.soft %d %d %d", id, int(first), int(last), len(arr))
		}
	}
	if type3 {
		encObj, _ := getDict(r, raw["Encoding"])
		arr, _ := getArray(r, encObj["Differences"])
		items, n := showItems(r, arr, false)
		id := nextID()
		e.Line("cases.txt", "%s E3R %d %s", id, n, items)
		e.Line("impl.obs", "%s %s", id, all256(enc))
		return
	}
	wire, ok := encObjWire(r, raw["Encoding"])
	if !ok {
		return
	}
	var parts []string
	var cs strings.Builder
	for _, c := range used {
		parts = append(parts, fmt.Sprintf("%d:%s", c, thex(enc(byte(c)))))
		fmt.Fprintf(&cs, " %d", c)
	}
	id := nextID()
	e.Line("cases.txt", "%s ER %s %s %d%s", id, b01(nse), wire, len(used), cs.String())
	e.Line("impl.obs", "%s %s", id, dash(strings.Join(parts, ",")))
}

var (
	reBlock = regexp.MustCompile(`(?s)begin(bfchar|bfrange)(.*?)endbf`)
	reHex   = regexp.MustCompile(`<([0-9a-fA-F]*)>|\[|\]`)
)

// toUnicodeCase: the text values in the /ToUnicode stream of the file.  For every code the
// stream lists: the model's decode16 of the UTF-16 units in the file against the text the
// reader reports, and the model's encode16 of the writer's text against the units in the file.
func (lf *liveFont) toUnicodeCase(r pdf.Getter, G font.Instance, raw pdf.Dict, caseInfo map[string]any) {
	obj, err := pdf.Resolve(r, raw["ToUnicode"])
	if err != nil {
		return
	}
	stm, ok := obj.(*pdf.Stream)
	if !ok {
		return
	}
	data, err := pdf.ReadAll(r, nil, stm, 1<<22)
	if err != nil {
		return
	}
	type entry struct {
		code  []byte
		units []uint16
	}
	var entries []entry
	units := func(h string) []uint16 {
		var us []uint16
		for i := 0; i+4 <= len(h); i += 4 {
			var u uint16
			fmt.Sscanf(h[i:i+4], "%04x", &u)
			us = append(us, u)
		}
		return us
	}
	for _, blk := range reBlock.FindAllStringSubmatch(string(data), -1) {
		toks := reHex.FindAllStringSubmatch(blk[2], -1)
		if blk[1] == "bfchar" {
			for i := 0; i+1 < len(toks); i += 2 {
				entries = append(entries, entry{common.UnHex(dash(toks[i][1])), units(toks[i+1][1])})
			}
			continue
		}
		for i := 0; i+2 < len(toks); {
			lo := common.UnHex(dash(toks[i][1]))
			if toks[i+2][0] == "[" {
				j := i + 3
				for k := 0; j < len(toks) && toks[j][0] != "]"; j, k = j+1, k+1 {
					c := append([]byte(nil), lo...)
					c[len(c)-1] += byte(k)
					entries = append(entries, entry{c, units(toks[j][1])})
				}
				i = j + 1
			} else {
				entries = append(entries, entry{lo, units(toks[i+2][1])}) // only the first code of the range
				i += 3
			}
		}
	}
	e.Dist["text:tounicode-stream"]++
	n := 0
	for _, en := range entries {
		if _, mine := lf.owner[string(en.code)]; !mine || len(en.units) == 0 {
			continue
		}
		if n++; n > 12 {
			break
		}
		var us, rtext, wtext []string
		for _, u := range en.units {
			us = append(us, fmt.Sprint(u))
		}
		for c := range G.Codes(pdf.String(en.code)) {
			for _, rn := range c.Text {
				rtext = append(rtext, fmt.Sprint(int(rn)))
			}
		}
		for c := range lf.F.Codes(pdf.String(en.code)) {
			for _, rn := range c.Text {
				wtext = append(wtext, fmt.Sprint(int(rn)))
			}
		}
		id := nextID()
		e.Line("cases.txt", "%s XD %s", id, strings.Join(us, " "))
		e.Line("impl.obs", "%s %s", id, dash(strings.Join(rtext, " ")))
		id = nextID()
		e.Line("cases.txt", "%s XE %s", id, strings.Join(wtext, " "))
		e.Line("impl.obs", "%s %s", id, dash(strings.Join(us, " ")))
	}
}
