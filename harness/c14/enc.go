package main

import (
	"fmt"
	"math"
	"sort"
	"strings"

	"seehuhn.de/go/postscript/type1/names"

	"seehuhn.de/go/postscript/cid"
	"seehuhn.de/go/sfnt/glyph"

	"seehuhn.de/go/pdf"
	"seehuhn.de/go/pdf/font/charcode"
	"seehuhn.de/go/pdf/font/cmap"
	"seehuhn.de/go/pdf/font/dict"
	"seehuhn.de/go/pdf/font/encoding"
	"seehuhn.de/go/pdf/font/encoding/cidenc"
	"seehuhn.de/go/pdf/font/encoding/simpleenc"
	"seehuhn.de/go/pdf/font/pdfenc"
	"seehuhn.de/go/pdf/font/subset"
	"seehuhn.de/go/pdf/verifharness/common"
)

// Directly driven encoders: random histories of Encode/GetCode, up to and
// beyond the limits, each step traced for the model and checked on the spot.

var textPool = []string{
	"A", "B", "a", "z", " ", "\u00a0", "-", "\u00ad", "\u00e9", "e\u0301", "A\u030a", "\u00c5", "\u212b", "\u00df", "fi", "\ufb01", "fl", "ffi",
	"\u0411", "\u0431", "\u0416", "\u03b1", "\u03a9", "\u2126", "\u03bc", "\u00b5", "\u20ac", "\u2013", "\u2014", "\u201c", "\u2026", "\u2022", "",
	"\xff", "\U0001f600", "AB", "\u4e2d", "\ue000", "\ue001", "\U000f0000",
}

var namePool = []string{
	"", "A", "B", "a", "z", "space", "hyphen", "eacute", "germandbls", "fi", "fl", "Euro", "endash",
	"afii10018", "uni0411", "alpha", "Omega", "mu", "bullet", "ellipsis", "quotedblleft", "g12", "!bad name", "A.alt1", "orn001",
}

var baseEncs = []*pdfenc.Encoding{&pdfenc.WinAnsi, &pdfenc.Standard, &pdfenc.MacRoman, &pdfenc.MacRomanAlt, &pdfenc.PDFDoc}

type sinfo struct {
	gid   glyph.ID
	width float64
	text  string
}

func encoderLevel() {
	nSimple := e.Pick(150, 4000)
	for i := 0; i < nSimple; i++ {
		simpleHistory(i)
	}
	nCID := e.Pick(150, 4000)
	for i := 0; i < nCID; i++ {
		utf8History(i)
		identityHistory(i)
	}
	nCMap := e.Pick(36, 500)
	for i := 0; i < nCMap; i++ {
		fromCMapHistory(i)
	}
}

func simpleHistory(i int) {
	nw := float64(e.Rand.IntN(4) * 250)
	base := baseEncs[e.Rand.IntN(len(baseEncs))]
	fontName := []string{"Test", "ABCDEF+Test", "ZapfDingbats", "Symbol", "ABCDEF+ZapfDingbats"}[e.Rand.IntN(5)]
	enc := simpleenc.NewSimple(nw, fontName, base)
	tr := newTracer()
	id := nextID()
	e.Line("cases.txt", "%s SN %s %s", id, tr.inst, wbits(nw))
	e.Line("impl.obs", "%s new", id)

	var nOps, nGid int
	switch i % 4 {
	case 0:
		nOps, nGid = 1+e.Rand.IntN(20), 8
	case 1:
		nOps, nGid = 50+e.Rand.IntN(150), 60
	case 2:
		nOps, nGid = 500+e.Rand.IntN(300), 400 // reaches and passes the 256-code limit
	default:
		nOps, nGid = 380+e.Rand.IntN(80), 300 // around the limit
	}
	keys := map[gkey]byte{}
	info := map[byte]sinfo{}
	var alloc []gkey
	overflowed := false
	caseInfo := map[string]any{"history": "simpleenc", "n": i, "seed": e.Seed}
	for k := 0; k < nOps; k++ {
		g := glyph.ID(e.Rand.IntN(nGid))
		text := textPool[e.Rand.IntN(len(textPool))]
		if e.Rand.IntN(3) > 0 {
			text = string(rune(0x21 + int(g)%0x250))
		}
		isGet := e.Rand.IntN(4) == 0
		if len(alloc) > 0 && (isGet && e.Rand.IntN(2) == 0 || !isGet && e.Rand.IntN(8) == 0) {
			k := alloc[e.Rand.IntN(len(alloc))]
			g, text = k.gid, k.text
		}
		key := gkey{g, text}
		id := nextID()
		if isGet {
			c, ok := enc.GetCode(g, text)
			e.Line("cases.txt", "%s SG %s %d %s", id, tr.inst, g, thex(text))
			if ok {
				e.Line("impl.obs", "%s %d", id, c)
			} else {
				e.Line("impl.obs", "%s none", id)
			}
			if want, have := keys[key]; have != ok || (ok && want != c) {
				fail("simpleenc:getcode", fmt.Sprintf("GetCode(%d,%q)=(%d,%v), allocated %v as %d", g, text, c, ok, have, want), caseInfo)
			}
			continue
		}
		w := float64(e.Rand.IntN(5) * 125)
		if e.Rand.IntN(8) == 0 {
			w = math.Round(e.Rand.Float64()*100000) / 100
		}
		name := namePool[e.Rand.IntN(len(namePool))]
		c, err := enc.Encode(g, name, text, w)
		_, dup := keys[key]
		switch {
		case err == nil:
			e.Line("cases.txt", "%s SE %s %d %s %s %d", id, tr.inst, g, thex(text), wbits(w), c)
			e.Line("impl.obs", "%s ok %d", id, c)
			if old, used := info[c]; used {
				fail("simpleenc:code-reused", fmt.Sprintf("Encode(%d,%q) returned code %d which holds (%d,%q)", g, text, c, old.gid, old.text), caseInfo)
			}
			if dup {
				fail("simpleenc:duplicate-accepted", fmt.Sprintf("Encode(%d,%q) twice", g, text), caseInfo)
			}
			if len(info) >= 256 {
				fail("simpleenc:more-than-256", "a 257th code was allocated", caseInfo)
			}
			keys[key] = c
			info[c] = sinfo{g, w, text}
			alloc = append(alloc, key)
		case err == simpleenc.ErrDuplicateCode:
			e.Line("cases.txt", "%s SE %s %d %s %s 0", id, tr.inst, g, thex(text), wbits(w))
			e.Line("impl.obs", "%s dup", id)
			if !dup {
				fail("simpleenc:spurious-duplicate", fmt.Sprintf("Encode(%d,%q) reports a duplicate", g, text), caseInfo)
			}
		case err == simpleenc.ErrOverflow:
			e.Line("cases.txt", "%s SE %s %d %s %s 0", id, tr.inst, g, thex(text), wbits(w))
			e.Line("impl.obs", "%s overflow", id)
			overflowed = true
			if len(info) != 256 {
				fail("simpleenc:early-overflow", fmt.Sprintf("overflow reported with %d codes in use", len(info)), caseInfo)
			}
		default:
			e.Line("cases.txt", "%s SE %s %d %s %s 0", id, tr.inst, g, thex(text), wbits(w))
			e.Line("impl.obs", "%s error", id)
			fail("simpleenc:unknown-error", err.Error(), caseInfo)
		}
		if e.Rand.IntN(60) == 0 {
			id := nextID()
			e.Line("cases.txt", "%s SI %s", id, tr.inst)
			e.Line("impl.obs", "%s %s", id, simpleDump(enc))
			e.Line("impl.obs", "%s.soft dw=%s", id, wbits(enc.DefaultWidth()))
		}
	}
	// the table as the encoder reports it
	for c := 0; c < 256; c++ {
		want, used := info[byte(c)]
		if !used {
			want = sinfo{0, nw, ""}
		}
		if enc.GID(byte(c)) != want.gid || enc.Width(byte(c)) != want.width {
			fail("simpleenc:info", fmt.Sprintf("code %d: (%d,%g), expected (%d,%g)", c, enc.GID(byte(c)), enc.Width(byte(c)), want.gid, want.width), caseInfo)
		}
	}
	if (enc.Error() != nil) != overflowed {
		fail("simpleenc:error-flag", fmt.Sprintf("Error()=%v, overflow seen=%v", enc.Error(), overflowed), caseInfo)
	}
	if enc.CodesRemaining() != 256-len(info) {
		fail("simpleenc:codes-remaining", fmt.Sprintf("CodesRemaining()=%d with %d codes in use", enc.CodesRemaining(), len(info)), caseInfo)
	}
	id = nextID()
	e.Line("cases.txt", "%s SI %s", id, tr.inst)
	e.Line("impl.obs", "%s %s", id, simpleDump(enc))
	e.Line("impl.obs", "%s.soft dw=%s", id, wbits(enc.DefaultWidth()))
	simpleText(enc, tr, fontName, info, caseInfo)
	// Codes of a random string
	n := e.Rand.IntN(12)
	str := make(pdf.String, n)
	for j := range str {
		str[j] = byte(e.Rand.IntN(256))
	}
	var parts []string
	j := 0
	for code := range enc.Codes(str) {
		parts = append(parts, fmt.Sprintf("%d:%s", code.CID, thex(code.Text)))
		want, used := info[str[j]]
		if !used {
			want = sinfo{0, nw, ""}
		}
		if code.Text != want.text || code.Width != want.width/1000 {
			fail("simpleenc:codes", fmt.Sprintf("Codes: byte %d gives (%q,%g), expected (%q,%g)", str[j], code.Text, code.Width, want.text, want.width/1000), caseInfo)
		}
		j++
	}
	if j != n {
		fail("simpleenc:codes", fmt.Sprintf("Codes yields %d elements for %d bytes", j, n), caseInfo)
	}
	id = nextID()
	e.Line("cases.txt", "%s SC %s %s", id, tr.inst, common.Hex(str))
	e.Line("impl.obs", "%s %d %s", id, j, strings.Join(parts, ","))
	e.Count(true, fmt.Sprintf("simple|%d|%d|%d", i, nOps, len(info)), fmt.Sprintf("history:simpleenc:%s", sizeClass(len(info), overflowed)))
	e.Sample(6, map[string]any{"history": "simpleenc", "ops": nOps, "codes": len(info), "overflow": overflowed})
}

func sizeClass(n int, overflow bool) string {
	switch {
	case overflow:
		return "overflow"
	case n == 256:
		return "full"
	case n > 200:
		return "200+"
	case n > 20:
		return "20+"
	}
	return "small"
}

type cinfoT struct {
	cid   cid.CID
	width float64
	text  string
}

func cidDump(enc cidenc.CIDEncoder) string {
	var ents []string
	for code, info := range enc.MappedCodes() {
		ents = append(ents, fmt.Sprintf("%s:%d:%s:%s", common.Hex(enc.Codec().AppendCode(nil, code)), info.CID, wbits(info.Width), thex(info.Text)))
	}
	sortStrings(ents)
	return fmt.Sprintf("%d %s", len(ents), strings.Join(ents, ","))
}

func utf8History(i int) {
	w0 := float64(e.Rand.IntN(4) * 250)
	enc := wrapEncoder(newTracer(), true)(w0, 0).(*tracedCID)
	nOps := 1 + e.Rand.IntN(e.Pick(120, 400))
	nCID := 4 + e.Rand.IntN(200)
	keys := map[string]string{}
	info := map[string]cinfoT{}
	var ualloc []gkey
	var order []string
	caseInfo := map[string]any{"history": "cidenc-utf8", "n": i, "seed": e.Seed}
	for k := 0; k < nOps; k++ {
		c := cid.CID(e.Rand.IntN(nCID))
		text := textPool[e.Rand.IntN(len(textPool))]
		if e.Rand.IntN(2) == 0 {
			text = string(rune(0x21 + int(c)*7%0x2000))
		}
		isGet := e.Rand.IntN(4) == 0
		if len(ualloc) > 0 && (isGet && e.Rand.IntN(2) == 0 || !isGet && e.Rand.IntN(8) == 0) {
			k := ualloc[e.Rand.IntN(len(ualloc))]
			c, text = cid.CID(k.gid), k.text
		}
		key := fmt.Sprintf("%d|%s", c, text)
		if isGet {
			code, ok := enc.GetCode(c, text)
			want, have := keys[key]
			if have != ok || (ok && want != enc.codeHex(code)) {
				fail("cidenc-utf8:getcode", fmt.Sprintf("GetCode(%d,%q)=(%x,%v), allocated %v as %s", c, text, code, ok, have, want), caseInfo)
			}
			continue
		}
		w := float64(e.Rand.IntN(5) * 125)
		code, err := enc.Encode(c, text, w)
		_, dup := keys[key]
		switch {
		case err == nil:
			h := enc.codeHex(code)
			if old, used := info[h]; used {
				fail("cidenc-utf8:code-reused", fmt.Sprintf("Encode(%d,%q) returned code %s which holds (%d,%q)", c, text, h, old.cid, old.text), caseInfo)
			}
			if dup {
				fail("cidenc-utf8:duplicate-accepted", fmt.Sprintf("Encode(%d,%q) twice", c, text), caseInfo)
			}
			b := common.UnHex(h)
			if _, n, valid := enc.Codec().Decode(b); !valid || n != len(b) {
				fail("cidenc-utf8:code-outside-codespace", fmt.Sprintf("Encode(%d,%q) returned %s", c, text, h), caseInfo)
			}
			keys[key] = h
			info[h] = cinfoT{c, w, text}
			ualloc = append(ualloc, gkey{glyph.ID(c), text})
			order = append(order, h)
		case err == cidenc.ErrDuplicateCode:
			if !dup {
				fail("cidenc-utf8:spurious-duplicate", fmt.Sprintf("Encode(%d,%q)", c, text), caseInfo)
			}
		default:
			fail("cidenc-utf8:error", err.Error(), caseInfo)
		}
	}
	id := nextID()
	e.Line("cases.txt", "%s UI %s", id, enc.t.inst)
	e.Line("impl.obs", "%s %s", id, cidDump(enc.CIDEncoder))
	// a string of allocated codes decodes into exactly those codes
	if len(order) > 0 {
		var str pdf.String
		var want []cinfoT
		for j := 0; j < 1+e.Rand.IntN(10); j++ {
			h := order[e.Rand.IntN(len(order))]
			str = append(str, common.UnHex(h)...)
			want = append(want, info[h])
		}
		var parts []string
		j := 0
		for code := range enc.Codes(str) {
			parts = append(parts, fmt.Sprintf("%d:%s:%s", code.CID, wbits(code.Width*1000), thex(code.Text)))
			if j < len(want) && (code.CID != want[j].cid || code.Text != want[j].text || code.Width != want[j].width/1000) {
				fail("cidenc-utf8:codes", fmt.Sprintf("string %x element %d: (%d,%q,%g), expected (%d,%q,%g)", []byte(str), j, code.CID, code.Text, code.Width, want[j].cid, want[j].text, want[j].width/1000), caseInfo)
			}
			j++
		}
		if j != len(want) {
			fail("cidenc-utf8:codes", fmt.Sprintf("string %x of %d codes decodes into %d", []byte(str), len(want), j), caseInfo)
		}
		id := nextID()
		e.Line("cases.txt", "%s UC %s %s", id, enc.t.inst, common.Hex(str))
		// widths: compare the stored width (Codes divides by 1000)
		var mp []string
		for _, x := range want {
			mp = append(mp, fmt.Sprintf("%d:%s:%s", x.cid, wbits(x.width), thex(x.text)))
		}
		_ = parts
		e.Line("impl.obs", "%s %d %s", id, j, strings.Join(mp, ","))
	}
	e.Count(true, fmt.Sprintf("utf8|%d|%d|%d", i, nOps, len(info)), "history:cidenc-utf8:"+sizeClass(len(info), false))
}

func identityHistory(i int) {
	w0 := float64(e.Rand.IntN(4) * 250)
	enc := wrapEncoder(newTracer(), false)(w0, 0).(*tracedCID)
	nOps := 1 + e.Rand.IntN(e.Pick(120, 400))
	nCID := 4 + e.Rand.IntN(200)
	width := map[cid.CID]float64{0: w0}
	text := map[cid.CID]string{}
	hasText := map[cid.CID]bool{}
	var order []cid.CID
	caseInfo := map[string]any{"history": "cidenc-identity", "n": i, "seed": e.Seed}
	for k := 0; k < nOps; k++ {
		c := cid.CID(e.Rand.IntN(nCID))
		switch e.Rand.IntN(40) {
		case 0:
			c = 65535
		case 1:
			c = 65536 + cid.CID(e.Rand.IntN(10)) // not in Identity-H
		case 2:
			c = cid.CID(0x100 * (1 + e.Rand.IntN(255)))
		}
		t := string(rune(0x21 + int(c)*7%0x2000))
		if e.Rand.IntN(6) == 0 {
			t = textPool[e.Rand.IntN(len(textPool))] // a second text for the same CID
		}
		w := float64((int(c)*37)%9) * 125
		if e.Rand.IntN(12) == 0 {
			w += 1 // conflicting width
		}
		if e.Rand.IntN(3) == 0 {
			code, ok := enc.GetCode(c, t)
			_, have := width[c]
			if ok != have || (ok && c < 65536 && enc.codeHex(code) != fmt.Sprintf("%04x", c)) {
				fail("cidenc-identity:getcode", fmt.Sprintf("GetCode(%d)=(%x,%v), width known: %v", c, code, ok, have), caseInfo)
			}
			continue
		}
		code, err := enc.Encode(c, t, w)
		wantOK := c < 65536
		if old, have := width[c]; wantOK && have && old != w {
			wantOK = false
		} else if wantOK && !have {
			width[c] = w
		}
		if wantOK {
			if hasText[c] && text[c] != t {
				wantOK = false
			} else if !hasText[c] {
				hasText[c], text[c] = true, t
				order = append(order, c)
			}
		}
		if (err == nil) != wantOK || (err == nil && enc.codeHex(code) != fmt.Sprintf("%04x", c)) {
			fail("cidenc-identity:encode", fmt.Sprintf("Encode(%d,%q,%g)=(%x,%v), expected success=%v", c, t, w, code, err, wantOK), caseInfo)
		}
	}
	if len(order) > 0 {
		var str pdf.String
		var mp []string
		n := 0
		for j := 0; j < 1+e.Rand.IntN(10); j++ {
			c := order[e.Rand.IntN(len(order))]
			str = append(str, byte(c>>8), byte(c))
			mp = append(mp, fmt.Sprintf("%d:%s:%s", c, wbits(width[c]), thex(text[c])))
		}
		j := 0
		for code := range enc.Codes(str) {
			c := cid.CID(str[2*j])<<8 | cid.CID(str[2*j+1])
			if code.CID != c || code.Text != text[c] || code.Width != width[c]/1000 {
				fail("cidenc-identity:codes", fmt.Sprintf("string %x element %d: (%d,%q,%g), expected (%d,%q,%g)", []byte(str), j, code.CID, code.Text, code.Width, c, text[c], width[c]/1000), caseInfo)
			}
			j++
			n++
		}
		if 2*n != len(str) {
			fail("cidenc-identity:codes", fmt.Sprintf("string %x decodes into %d codes", []byte(str), n), caseInfo)
		}
		id := nextID()
		e.Line("cases.txt", "%s FC %s %s", id, enc.t.inst, common.Hex(str))
		e.Line("impl.obs", "%s %d %s", id, n, strings.Join(mp, ","))
	}
	e.Count(true, fmt.Sprintf("identity|%d|%d|%d", i, nOps, len(order)), "history:cidenc-identity:"+sizeClass(len(order), false))
}

// simpleText: the text a reader derives (dict.SimpleTextMap, the function every
// extracted simple font uses) from what the encoder hands to the font
// dictionary, for both dictionary shapes: /Encoding + ToUnicode(), and the
// built-in encoding + ToUnicodeBuiltin().
func simpleText(enc *simpleenc.Simple, tr *tracer, fontName string, info map[byte]sinfo, caseInfo map[string]any) {
	_, psName := subset.Split(fontName)
	var used []int
	for c := range info {
		used = append(used, int(c))
	}
	sort.Ints(used)
	seen := map[glyph.ID]bool{}
	var tbl strings.Builder
	n := 0
	for _, c := range used {
		g := info[byte(c)].gid
		if !seen[g] {
			seen[g] = true
			n++
			fmt.Fprintf(&tbl, " %d %s", g, thex(names.ToUnicode(enc.GlyphName(g), psName)))
		}
	}
	for _, shape := range []string{"W", "B"} {
		var m map[byte]string
		var tu map[byte]bool
		if shape == "W" {
			m = dict.SimpleTextMap(psName, enc.Encoding(), enc.ToUnicode())
			tu = tuCodes(enc.ToUnicode())
		} else {
			// looked up dynamically: a tree without ToUnicodeBuiltin (before fix F17) must still build,
			// so that the end-to-end run can show the failing input
			b, ok := any(enc).(interface{ ToUnicodeBuiltin() *cmap.ToUnicodeFile })
			if !ok {
				e.Dist["history:simpleenc:no-ToUnicodeBuiltin"]++
				continue
			}
			m = dict.SimpleTextMap(psName, encoding.Builtin, b.ToUnicodeBuiltin())
			tu = tuCodes(b.ToUnicodeBuiltin())
		}
		var parts, soft []string
		for _, c := range used {
			parts = append(parts, fmt.Sprintf("%d:%s", c, thex(m[byte(c)])))
			if tu[byte(c)] {
				soft = append(soft, fmt.Sprint(c))
			}
			want := info[byte(c)]
			implied := names.ToUnicode(enc.GlyphName(want.gid), psName)
			if want.text == "" && implied != "" && shape == "W" {
				continue // empty text with a telling glyph name: outside the property (see assumptions)
			}
			if m[byte(c)] != want.text {
				fail("simpleenc:text-not-derivable", fmt.Sprintf("shape %s: code %d (glyph %d, name %q) has text %q, a reader derives %q",
					shape, c, want.gid, enc.GlyphName(want.gid), want.text, m[byte(c)]), caseInfo)
			}
		}
		id := nextID()
		e.Line("cases.txt", "%s TX %s %s %d%s", id, tr.inst, shape, n, tbl.String())
		e.Line("impl.obs", "%s %s", id, dash(strings.Join(parts, ",")))
		e.Line("impl.obs", "%s.soft tu=%s", id, dash(strings.Join(soft, ",")))
	}
}

// NewFromCMap with predefined CMaps (one- to four-byte codes, with and without
// a parent chain) and with CMaps built here.
var predefinedNames = []string{
	"Adobe-Japan1-7", "H", "V", "90ms-RKSJ-H", "90ms-RKSJ-V", "EUC-H", "UniJIS-UCS2-H", "UniJIS-UCS2-HW-H", "UniJIS-UCS2-V",
	"UniJIS-UTF16-H", "UniJIS-UTF8-H", "UniJIS-UTF8-V", "UniJIS-UTF32-H", "UniGB-UCS2-H", "UniGB-UTF16-V", "GBK-EUC-H",
	"UniCNS-UTF16-H", "B5pc-H", "UniKS-UTF16-H", "KSC-EUC-V", "Adobe-GB1-5", "Adobe-Korea1-2", "Hankaku",
}

var customNo int

// customCMap builds a CMap with two-byte codes; with a parent (probability 1/2)
// whose codes the child partly re-maps.
func customCMap() (string, *cmap.File) {
	customNo++
	name := fmt.Sprintf("Custom-%d", customNo)
	mk := func(base int, n int) *cmap.File {
		f := &cmap.File{
			Name:           name,
			ROS:            &cid.SystemInfo{Registry: "Verif", Ordering: "Custom", Supplement: 0},
			CodeSpaceRange: charcode.UCS2,
		}
		used := map[int]bool{}
		for k := 0; k < n; k++ {
			lo := base + e.Rand.IntN(600)
			if e.Rand.IntN(2) == 0 {
				ln := 1 + e.Rand.IntN(20)
				ok := true
				for x := lo; x < lo+ln; x++ {
					if used[x] || x&0xff < lo&0xff {
						ok = false
					}
				}
				if !ok {
					continue
				}
				for x := lo; x < lo+ln; x++ {
					used[x] = true
				}
				f.CIDRanges = append(f.CIDRanges, cmap.Range{
					First: []byte{byte(lo >> 8), byte(lo)}, Last: []byte{byte((lo + ln - 1) >> 8), byte(lo + ln - 1)},
					Value: cid.CID(1 + e.Rand.IntN(400)),
				})
			} else if !used[lo] {
				used[lo] = true
				f.CIDSingles = append(f.CIDSingles, cmap.Single{Code: []byte{byte(lo >> 8), byte(lo)}, Value: cid.CID(e.Rand.IntN(400))})
			}
		}
		return f
	}
	child := mk(0x100, 3+e.Rand.IntN(12))
	if e.Rand.IntN(2) == 0 {
		child.Parent = mk(0x100, 3+e.Rand.IntN(12))
	}
	return name, child
}

func fromCMapHistory(i int) {
	var name string
	var cm *cmap.File
	if i%3 == 0 {
		name, cm = customCMap()
	} else {
		name = predefinedNames[e.Rand.IntN(len(predefinedNames))]
		var err error
		cm, err = cmap.Predefined(name)
		if err != nil {
			panic(err)
		}
	}
	w0 := float64(e.Rand.IntN(4) * 250)
	enc := wrapFromCMap(newTracer(), name, cm)(w0, cm.WMode).(*tracedCID)
	cids := make([]cid.CID, 0, len(enc.cids))
	for c := range enc.cids {
		cids = append(cids, c)
	}
	if len(cids) == 0 {
		return
	}
	sortCIDs(cids)
	pool := make([]cid.CID, 0, 40)
	for k := 0; k < 8+e.Rand.IntN(30); k++ {
		pool = append(pool, cids[e.Rand.IntN(len(cids))])
	}
	// the CIDs whose code a child CMap re-maps are the interesting ones
	if rc := recodedCIDs(name, cm, cids); len(rc) > 0 {
		for k := 0; k < 8; k++ {
			pool = append(pool, rc[e.Rand.IntN(len(rc))])
		}
	}
	pool = append(pool, 0, cid.CID(70000+e.Rand.IntN(100)))
	caseInfo := map[string]any{"history": "cidenc-fromcmap", "cmap": name, "n": i, "seed": e.Seed}
	type rec struct {
		code  string
		width float64
		text  string
	}
	first := map[cid.CID]rec{}
	var order []cid.CID
	nOps := 1 + e.Rand.IntN(80)
	recodedSeen := false
	for k := 0; k < nOps; k++ {
		c := pool[e.Rand.IntN(len(pool))]
		t := string(rune(0x21 + int(c)*7%0x2000))
		w := float64((int(c)*37)%9) * 125
		if e.Rand.IntN(3) == 0 {
			enc.GetCode(c, t)
			continue
		}
		code, err := enc.Encode(c, t, w)
		if err != nil {
			continue
		}
		b := enc.Codec().AppendCode(nil, code)
		// the writer-side decoding must be the CMap's: the code -> CID table is the CMap read backwards
		for fc := range enc.Codes(pdf.String(b)) {
			if fc.CID != cm.LookupCID(b) {
				fail("cidenc-fromcmap:codes-disagree-with-cmap", fmt.Sprintf("CMap %s: code %x decodes as CID %d, the CMap maps it to CID %d", name, b, fc.CID, cm.LookupCID(b)), caseInfo)
			}
		}
		if cm.LookupCID(b) != c {
			recodedSeen = true
			failRecode(fmt.Sprintf("CMap %s: Encode(CID %d) returns code %x, which the CMap maps to CID %d", name, c, b, cm.LookupCID(b)), caseInfo)
			continue
		}
		if _, seen := first[c]; !seen && c != 0 {
			first[c] = rec{enc.codeHex(code), w, t}
			order = append(order, c)
		}
	}
	// every CID shown (with a code that is its own) reads back with its first width and text
	_ = recodedSeen
	if len(order) > 0 {
		var str pdf.String
		var toks, mp []string
		var want []cid.CID
		for j := 0; j < 1+e.Rand.IntN(8); j++ {
			c := order[e.Rand.IntN(len(order))]
			str = append(str, common.UnHex(first[c].code)...)
			toks = append(toks, first[c].code)
			mp = append(mp, fmt.Sprintf("%d:%s:%s", c, wbits(first[c].width), thex(first[c].text)))
			want = append(want, c)
		}
		j := 0
		for code := range enc.Codes(str) {
			if j < len(want) {
				r := first[want[j]]
				if code.CID != want[j] || code.Text != r.text || code.Width != r.width/1000 {
					fail("cidenc-fromcmap:codes", fmt.Sprintf("CMap %s: string %x element %d: (%d,%q,%g), expected (%d,%q,%g)", name, []byte(str), j, code.CID, code.Text, code.Width, want[j], r.text, r.width/1000), caseInfo)
				}
			}
			j++
		}
		if j != len(want) {
			fail("cidenc-fromcmap:codes", fmt.Sprintf("CMap %s: string %x of %d codes decodes into %d", name, []byte(str), len(want), j), caseInfo)
		}
		id := nextID()
		e.Line("cases.txt", "%s GC %s %s", id, enc.t.inst, strings.Join(toks, " "))
		e.Line("impl.obs", "%s %d %s", id, len(want), strings.Join(mp, ","))
	}
	class := "predefined"
	if i%3 == 0 {
		class = "custom"
	}
	if cm.Parent != nil {
		class += "+parent"
	}
	e.Count(true, fmt.Sprintf("fromcmap|%s|%d|%d", name, i, nOps), "history:cidenc-fromcmap:"+class)
}

func sortCIDs(c []cid.CID) { sort.Slice(c, func(i, j int) bool { return c[i] < c[j] }) }

var recodedCache = map[string][]cid.CID{}

// recodedCIDs: the CIDs for which NewFromCMap returns a code the CMap maps elsewhere
// (found with a separate encoder, once per CMap).
func recodedCIDs(name string, cm *cmap.File, cids []cid.CID) []cid.CID {
	if rc, ok := recodedCache[name]; ok {
		return rc
	}
	var rc []cid.CID
	if cm.Parent != nil {
		probe, _ := cidenc.NewFromCMap(cm, 0)
		for _, c := range cids {
			if code, err := probe.Encode(c, "", 0); err == nil {
				for fc := range probe.Codes(probe.Codec().AppendCode(nil, code)) {
					if fc.CID != c {
						rc = append(rc, c)
					}
				}
			}
		}
	}
	recodedCache[name] = rc
	return rc
}
