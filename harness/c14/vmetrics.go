package main

import (
	"fmt"
	"sort"
	"strings"
	"unicode/utf16"

	"seehuhn.de/go/postscript/cid"

	"seehuhn.de/go/pdf"
	"seehuhn.de/go/pdf/font/dict"
	"seehuhn.de/go/pdf/graphics/extract"
)

// Vertical metrics (/W2, /DW2) through font/dict and graphics/extract, against
// coq/C14/VMetrics.v; utf16.Encode/Decode (the text values of ToUnicode CMaps)
// against coq/C14/Utf16.v.

func randVM() dict.VMetrics {
	return dict.VMetrics{
		DeltaY: []float64{-1000, -1000, -900, -500.5}[e.Rand.IntN(4)],
		OffsX:  []float64{500, 250, 300, 0}[e.Rand.IntN(4)],
		OffsY:  []float64{880, 880, 800, 700}[e.Rand.IntN(4)],
	}
}

func svm(v dict.VMetrics) string {
	return fmt.Sprintf("%s/%s/%s", wbits(v.DeltaY), wbits(v.OffsX), wbits(v.OffsY))
}

func showVMap(m map[cid.CID]dict.VMetrics) string {
	keys := make([]int, 0, len(m))
	for c := range m {
		keys = append(keys, int(c))
	}
	sort.Ints(keys)
	parts := make([]string, len(keys))
	for i, c := range keys {
		parts[i] = fmt.Sprintf("%d:%s", c, svm(m[cid.CID(c)]))
	}
	return dash(strings.Join(parts, ","))
}

// vItems serialises a raw /W2 array for the model.
func vItems(r pdf.Getter, obj pdf.Object) (string, bool) {
	arr, err := getArray(r, obj)
	if err != nil {
		return "", false
	}
	var sb strings.Builder
	for len(arr) > 1 {
		c0, ok := num(r, arr[0])
		if !ok {
			return "", false
		}
		o1, err := pdf.Resolve(r, arr[1])
		if err != nil {
			return "", false
		}
		if a, isArr := o1.(pdf.Array); isArr {
			if len(a)%3 != 0 {
				return "", false
			}
			fmt.Fprintf(&sb, " L %d %d", int64(c0), len(a)/3)
			for _, x := range a {
				w, ok := num(r, x)
				if !ok {
					return "", false
				}
				fmt.Fprintf(&sb, " %s", wbits(w))
			}
			arr = arr[2:]
		} else {
			c1, ok1 := num(r, o1)
			if len(arr) < 5 || !ok1 {
				return "", false
			}
			fmt.Fprintf(&sb, " R %d %d", int64(c0), int64(c1))
			for _, x := range arr[2:5] {
				w, ok := num(r, x)
				if !ok {
					return "", false
				}
				fmt.Fprintf(&sb, " %s", wbits(w))
			}
			arr = arr[5:]
		}
	}
	if len(arr) != 0 {
		return "", false
	}
	return sb.String(), true
}

func vmetricsCase(i int) {
	m := map[cid.CID]dict.VMetrics{}
	c := cid.CID(e.Rand.IntN(5))
	n := e.Rand.IntN(30)
	if i%9 == 0 {
		n = e.Rand.IntN(300)
	}
	var prev dict.VMetrics
	for k := 0; k < n; k++ {
		switch e.Rand.IntN(6) {
		case 0:
			c += cid.CID(2 + e.Rand.IntN(40))
		case 1:
			c += 2
		default:
			c++
		}
		if i%11 == 0 && k == n-1 {
			c = 65535
		}
		if c > 65535 {
			break
		}
		v := randVM()
		if k > 0 && e.Rand.IntN(2) == 0 {
			v = prev
		}
		m[c] = v
		prev = v
	}
	dv := dict.DefaultVMetricsDefault
	switch e.Rand.IntN(4) {
	case 0:
		dv = dict.DefaultVMetrics{OffsY: 800, DeltaY: -900}
	case 1:
		dv = dict.DefaultVMetrics{OffsY: 880, DeltaY: -500}
	}
	caseInfo := map[string]any{"table": "W2", "metrics": showVMap(m), "dw2": fmt.Sprint(dv), "seed": e.Seed}
	e.Count(len(m) > 0, "W2|"+showVMap(m)+fmt.Sprint(dv), "widths:W2:"+sizeClass(len(m), false))
	r, ref, err := writeFile(pdf.V1_7, func(w *pdf.Writer, rm *pdf.ResourceManager) (pdf.Object, error) {
		d := cidFontDict(map[cid.CID]float64{1: 500}, 1000)
		d.VMetrics = m
		d.DefaultVMetrics = dv
		return rm.Embed(d)
	})
	if err != nil {
		fail("widths:W2:write", err.Error(), caseInfo)
		return
	}
	keys := make([]int, 0, len(m))
	for c := range m {
		keys = append(keys, int(c))
	}
	sort.Ints(keys)
	var sb strings.Builder
	for _, c := range keys {
		v := m[cid.CID(c)]
		fmt.Fprintf(&sb, " %d %s %s %s", c, wbits(v.DeltaY), wbits(v.OffsX), wbits(v.OffsY))
	}
	veID := nextID()
	e.Line("cases.txt", "%s VE %d%s", veID, len(keys), sb.String())
	e.Line("impl.obs", "%s %s", veID, showVMap(m))
	vxID := nextID()
	// /DW2 travels as plain integers: the model knows the default 880 -1000 as numbers
	e.Line("cases.txt", "%s VX %d %d", vxID, int64(dv.OffsY), int64(dv.DeltaY))

	fd, err := getDict(r, ref)
	if err != nil {
		fail("widths:W2:read", err.Error(), caseInfo)
		return
	}
	desc, _ := getArray(r, fd["DescendantFonts"])
	if len(desc) != 1 {
		fail("widths:W2:read", "no descendant font", caseInfo)
		return
	}
	cf, _ := getDict(r, desc[0])
	items, ok := "", true
	if cf["W2"] != nil {
		items, ok = vItems(r, cf["W2"])
	}
	if !ok {
		fail("widths:W2:malformed", "the /W2 array written by font/dict is not of the form c [dy ox oy ...] / c0 c1 dy ox oy", caseInfo)
		return
	}
	id := nextID()
	e.Line("cases.txt", "%s VD%s", id, items)
	e.Line("impl.obs", "%s %s", id, showVMap(m))
	e.Line("impl.obs", "%s.soft %s", veID, dash(strings.TrimSpace(items)))
	var dw2 []string
	if a, err := getArray(r, cf["DW2"]); err == nil {
		for _, x := range a {
			v, _ := num(r, x)
			dw2 = append(dw2, fmt.Sprint(int64(v)))
		}
	}
	e.Line("impl.obs", "%s.soft %s", vxID, dash(strings.Join(dw2, " ")))
	id = nextID()
	e.Line("cases.txt", "%s VW %d %s", id, len(dw2), strings.Join(dw2, " "))
	x := pdf.NewExtractor(r)
	d, err := extract.Dict(pdf.CursorAt(x, nil), ref, false)
	if err != nil {
		fail("widths:W2:extract", err.Error(), caseInfo)
		return
	}
	d2, ok := d.(*dict.CIDFontType2)
	if !ok {
		fail("widths:W2:extract", fmt.Sprintf("extracted %T", d), caseInfo)
		return
	}
	e.Line("impl.obs", "%s %d %d", vxID, int64(d2.DefaultVMetrics.OffsY), int64(d2.DefaultVMetrics.DeltaY))
	e.Line("impl.obs", "%s %d %d", id, int64(d2.DefaultVMetrics.OffsY), int64(d2.DefaultVMetrics.DeltaY))
	if len(d2.VMetrics) != len(m) {
		fail("widths:W2:lossy", fmt.Sprintf("%d vertical metrics written, %d read", len(m), len(d2.VMetrics)), caseInfo)
	}
	for c, v := range m {
		if d2.VMetrics[c] != v {
			fail("widths:W2:lossy", fmt.Sprintf("CID %d: vertical metrics %v read back as %v", c, v, d2.VMetrics[c]), caseInfo)
			break
		}
	}
	if d2.DefaultVMetrics != dv {
		fail("widths:W2:lossy", fmt.Sprintf("DW2 %v reads back as %v", dv, d2.DefaultVMetrics), caseInfo)
	}
}

// rawW2: arbitrary (also malformed) /W2 arrays decoded by the implementation and by the model.
func rawW2(i int) {
	var arr pdf.Array
	var sb strings.Builder
	n := 1 + e.Rand.IntN(5)
	pick := func() int64 {
		switch e.Rand.IntN(12) {
		case 0:
			return 65535
		case 1:
			return 65536
		case 2:
			return 65530 + int64(e.Rand.IntN(10))
		}
		return int64(e.Rand.IntN(300))
	}
	for k := 0; k < n; k++ {
		c0 := pick()
		if e.Rand.IntN(2) == 0 {
			c1 := c0 + int64(e.Rand.IntN(20)) - 2
			if e.Rand.IntN(10) == 0 {
				c1 = pick()
			}
			if c1 < 0 {
				c1 = 0
			}
			v := randVM()
			arr = append(arr, pdf.Integer(c0), pdf.Integer(c1), pdf.Number(v.DeltaY), pdf.Number(v.OffsX), pdf.Number(v.OffsY))
			fmt.Fprintf(&sb, " R %d %d %s %s %s", c0, c1, wbits(v.DeltaY), wbits(v.OffsX), wbits(v.OffsY))
		} else {
			m := e.Rand.IntN(6)
			vs := pdf.Array{}
			fmt.Fprintf(&sb, " L %d %d", c0, m)
			for j := 0; j < m; j++ {
				v := randVM()
				vs = append(vs, pdf.Number(v.DeltaY), pdf.Number(v.OffsX), pdf.Number(v.OffsY))
				fmt.Fprintf(&sb, " %s %s %s", wbits(v.DeltaY), wbits(v.OffsX), wbits(v.OffsY))
			}
			arr = append(arr, pdf.Integer(c0), vs)
		}
	}
	r, ref, err := writeFile(pdf.V1_7, func(w *pdf.Writer, rm *pdf.ResourceManager) (pdf.Object, error) {
		ref := w.Alloc()
		cfRef := w.Alloc()
		fdRef := w.Alloc()
		w.Put(ref, pdf.Dict{"Type": pdf.Name("Font"), "Subtype": pdf.Name("Type0"), "BaseFont": pdf.Name("VerifFont"),
			"Encoding": pdf.Name("Identity-V"), "DescendantFonts": pdf.Array{cfRef}})
		w.Put(cfRef, pdf.Dict{"Type": pdf.Name("Font"), "Subtype": pdf.Name("CIDFontType2"), "BaseFont": pdf.Name("VerifFont"),
			"CIDSystemInfo":  pdf.Dict{"Registry": pdf.String("Adobe"), "Ordering": pdf.String("Identity"), "Supplement": pdf.Integer(0)},
			"FontDescriptor": fdRef, "W2": arr})
		w.Put(fdRef, pdf.Dict{"Type": pdf.Name("FontDescriptor"), "FontName": pdf.Name("VerifFont"), "Flags": pdf.Integer(4),
			"FontBBox":    pdf.Array{pdf.Integer(0), pdf.Integer(0), pdf.Integer(1000), pdf.Integer(1000)},
			"ItalicAngle": pdf.Integer(0), "Ascent": pdf.Integer(800), "Descent": pdf.Integer(-200), "CapHeight": pdf.Integer(700), "StemV": pdf.Integer(80)})
		return ref, nil
	})
	e.Count(true, "rawW2|"+sb.String(), "widths:rawW2")
	if err != nil {
		fail("widths:rawW2:write", err.Error(), map[string]any{"array": sb.String()})
		return
	}
	x := pdf.NewExtractor(r)
	d, err := extract.Dict(pdf.CursorAt(x, nil), ref, false)
	id := nextID()
	e.Line("cases.txt", "%s VD%s", id, sb.String())
	if err != nil {
		e.Line("impl.obs", "%s err", id)
		return
	}
	d2, ok := d.(*dict.CIDFontType2)
	if !ok {
		e.Line("impl.obs", "%s err", id)
		return
	}
	e.Line("impl.obs", "%s %s", id, showVMap(d2.VMetrics))
}

// utf16Cases: unicode/utf16, which hexString/toString of font/cmap/tounicode.go use, against the model.
func utf16Cases(n int) {
	pickRune := func() rune {
		switch e.Rand.IntN(8) {
		case 0:
			return rune(0xD800 + e.Rand.IntN(0x800)) // surrogate: not a scalar value
		case 1:
			return rune(0x10000 + e.Rand.IntN(0x100000))
		case 2:
			return []rune{0xFFFF, 0x10000, 0x10FFFF, 0x110000, 0xD7FF, 0xE000, 0xFFFD, 0}[e.Rand.IntN(8)]
		case 3:
			return rune(0x300 + e.Rand.IntN(0x70))
		}
		return rune(0x20 + e.Rand.IntN(0x3000))
	}
	for i := 0; i < n; i++ {
		rr := make([]rune, e.Rand.IntN(6))
		var in, out []string
		for j := range rr {
			rr[j] = pickRune()
			in = append(in, fmt.Sprint(rr[j]))
		}
		for _, u := range utf16.Encode(rr) {
			out = append(out, fmt.Sprint(u))
		}
		id := nextID()
		e.Line("cases.txt", "%s XE %s", id, strings.Join(in, " "))
		e.Line("impl.obs", "%s %s", id, dash(strings.Join(out, " ")))

		us := make([]uint16, e.Rand.IntN(6))
		in, out = nil, nil
		for j := range us {
			switch e.Rand.IntN(4) {
			case 0:
				us[j] = uint16(0xD800 + e.Rand.IntN(0x400))
			case 1:
				us[j] = uint16(0xDC00 + e.Rand.IntN(0x400))
			default:
				us[j] = uint16(e.Rand.IntN(0x10000))
			}
			in = append(in, fmt.Sprint(us[j]))
		}
		for _, r := range utf16.Decode(us) {
			out = append(out, fmt.Sprint(r))
		}
		id = nextID()
		e.Line("cases.txt", "%s XD %s", id, strings.Join(in, " "))
		e.Line("impl.obs", "%s %s", id, dash(strings.Join(out, " ")))
		e.Count(true, fmt.Sprint("utf16|", rr, us), "text:utf16")
	}
}
