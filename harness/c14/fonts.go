package main

import (
	"bytes"
	"fmt"
	"math"
	"reflect"
	"strconv"
	"strings"

	"golang.org/x/image/font/gofont/goregular"
	"seehuhn.de/go/postscript/cid"
	"seehuhn.de/go/sfnt"
	"seehuhn.de/go/sfnt/parser"

	"seehuhn.de/go/pdf/font"
	"seehuhn.de/go/pdf/font/cff"
	"seehuhn.de/go/pdf/font/charcode"
	"seehuhn.de/go/pdf/font/cmap"
	"seehuhn.de/go/pdf/font/encoding/cidenc"
	"seehuhn.de/go/pdf/font/encoding/simpleenc"
	"seehuhn.de/go/pdf/font/gofont"
	"seehuhn.de/go/pdf/font/opentype"
	"seehuhn.de/go/pdf/font/standard"
	"seehuhn.de/go/pdf/font/truetype"
	"seehuhn.de/go/pdf/internal/debug/makefont"
	"seehuhn.de/go/pdf/internal/fonttypes"
	"seehuhn.de/go/pdf/verifharness/common"
)

// wbits is the wire form of a width: the model compares widths for equality
// only, so the bit pattern of the float64 is a faithful stand-in.
func wbits(w float64) string {
	if w == 0 {
		w = 0 // -0 -> +0
	}
	return strconv.FormatInt(int64(math.Float64bits(w)), 10)
}

func thex(s string) string { return common.Hex([]byte(s)) }

// simpleAPI is the encoder of a simple font.
type simpleAPI = *simpleenc.Simple

// encoderOf returns the *simpleenc.Simple every simple embedder embeds (an
// exported field, also in the unexported Type 3 instance type).
func encoderOf(F font.Layouter) *simpleenc.Simple {
	v := reflect.ValueOf(F)
	for v.Kind() == reflect.Pointer || v.Kind() == reflect.Interface {
		v = v.Elem()
	}
	f := v.FieldByName("Simple")
	if !f.IsValid() {
		panic(fmt.Sprintf("%T has no simple encoder", F))
	}
	return f.Interface().(*simpleenc.Simple)
}

// kind describes one way of making a font.
type kind struct {
	label      string
	composite  bool
	parentCMap bool    // the font's CMap uses another CMap
	t3scale    float64 // Type 3 fonts made here: FontMatrix[0]
	enc        string  // "simple", "identity", "utf8"
	make       func(t *tracer) font.Layouter
}

// tracer writes the Encode/GetCode trace of one encoder instance.
type tracer struct {
	e    *common.Env
	inst string
	seq  *int
	mute bool // probing instance: nothing is recorded
}

func (t *tracer) id() string {
	*t.seq++
	return fmt.Sprintf("t%07d", *t.seq)
}

// tracedCID wraps a CIDEncoder and records every GetCode/Encode the embedder performs.
// mode: 'U' UTF-8 encoder, 'F' identity encoder, 'G' NewFromCMap with the CMap table tbl.
type tracedCID struct {
	cidenc.CIDEncoder
	t       *tracer
	mode    byte
	cids    map[cid.CID]bool // 'G': the CIDs the CMap has a code for
	recoded bool             // 'G': the last Encode returned a code which the CMap maps to another CID
	lastCID cid.CID          // the CID of the last GetCode/Encode call
}

func (w *tracedCID) codeHex(c charcode.Code) string {
	return common.Hex(w.CIDEncoder.Codec().AppendCode(nil, c))
}

func (w *tracedCID) GetCode(c cid.CID, text string) (charcode.Code, bool) {
	w.lastCID = c
	code, ok := w.CIDEncoder.GetCode(c, text)
	if w.t.mute {
		return code, ok
	}
	id := w.t.id()
	w.t.e.Line("cases.txt", "%s %cG %s %d %s", id, w.mode, w.t.inst, c, thex(text))
	switch {
	case !ok:
		w.t.e.Line("impl.obs", "%s none", id)
	case w.mode == 'G' && !w.cids[c]:
		w.t.e.Line("impl.obs", "%s zero", id) // a CID without a code: the zero value of charcode.Code
	default:
		w.t.e.Line("impl.obs", "%s %s", id, w.codeHex(code))
	}
	return code, ok
}

func (w *tracedCID) Encode(c cid.CID, text string, width float64) (charcode.Code, error) {
	w.lastCID = c
	code, err := w.CIDEncoder.Encode(c, text, width)
	w.recoded = false
	if w.mode == 'G' && err == nil {
		for fc := range w.CIDEncoder.Codes(w.CIDEncoder.Codec().AppendCode(nil, code)) {
			if fc.CID != c {
				w.recoded = true
			}
		}
	}
	if w.t.mute {
		return code, err
	}
	id := w.t.id()
	if w.mode == 'U' {
		choice := "-"
		obs := ""
		switch err {
		case nil:
			choice = w.codeHex(code)
			obs = "ok " + choice
		case cidenc.ErrOverflow:
			choice = "ovf"
			obs = "overflow"
		case cidenc.ErrDuplicateCode:
			obs = "dup"
		default:
			obs = "error"
		}
		w.t.e.Line("cases.txt", "%s UE %s %d %s %s %s", id, w.t.inst, c, thex(text), wbits(width), choice)
		w.t.e.Line("impl.obs", "%s %s", id, obs)
	} else {
		w.t.e.Line("cases.txt", "%s %cE %s %d %s %s", id, w.mode, w.t.inst, c, thex(text), wbits(width))
		if err == nil {
			w.t.e.Line("impl.obs", "%s ok %s", id, w.codeHex(code))
		} else {
			w.t.e.Line("impl.obs", "%s err", id)
		}
	}
	return code, err
}

func wrapEncoder(t *tracer, utf8 bool) func(float64, font.WritingMode) cidenc.CIDEncoder {
	return func(w0 float64, wm font.WritingMode) cidenc.CIDEncoder {
		var inner cidenc.CIDEncoder
		op := "FN"
		mode := byte('F')
		if utf8 {
			inner = cidenc.NewCompositeUtf8(w0, wm)
			op = "UN"
			mode = 'U'
		} else {
			inner = cidenc.NewCompositeIdentity(w0, wm)
		}
		if !t.mute {
			id := t.id()
			t.e.Line("cases.txt", "%s %s %s %s", id, op, t.inst, wbits(w0))
			t.e.Line("impl.obs", "%s new", id)
		}
		return &tracedCID{CIDEncoder: inner, t: t, mode: mode}
	}
}

// CMap tables: the pairs cmap.All yields, written once per CMap.
var tableCIDs = map[string]map[cid.CID]bool{}

func cmapTable(t *tracer, name string, cm *cmap.File) map[cid.CID]bool {
	if cids, ok := tableCIDs[name]; ok {
		return cids
	}
	codec, err := cm.Codec()
	if err != nil {
		panic(err)
	}
	cids := map[cid.CID]bool{}
	var sb strings.Builder
	n := 0
	for code, c := range cm.All(codec) {
		fmt.Fprintf(&sb, " %s %d", common.Hex(codec.AppendCode(nil, code)), c)
		cids[c] = true
		n++
	}
	id := t.id()
	t.e.Line("cases.txt", "%s GT %s %d%s", id, name, n, sb.String())
	t.e.Line("impl.obs", "%s table", id)
	tableCIDs[name] = cids
	return cids
}

// wrapFromCMap: NewFromCMap with the CMap cm (registered under the table name).
func wrapFromCMap(t *tracer, name string, cm *cmap.File) func(float64, font.WritingMode) cidenc.CIDEncoder {
	return func(w0 float64, wm font.WritingMode) cidenc.CIDEncoder {
		inner, err := cidenc.NewFromCMap(cm, w0)
		if err != nil {
			panic(err)
		}
		w := &tracedCID{CIDEncoder: inner, t: t, mode: 'G'}
		if t.mute {
			return w
		}
		w.cids = cmapTable(t, name, cm)
		id := t.id()
		t.e.Line("cases.txt", "%s GN %s %s %s", id, t.inst, name, wbits(w0))
		t.e.Line("impl.obs", "%s new", id)
		return w
	}
}

func must(f font.Layouter, err error) font.Layouter {
	if err != nil {
		panic(err)
	}
	return f
}

func sfntKinds(label string, info func() *sfnt.Font, how string) []kind {
	var res []kind
	for _, enc := range []string{"identity", "utf8"} {
		enc := enc
		utf8 := enc == "utf8"
		mk := func(t *tracer) font.Layouter {
			switch how {
			case "truetype":
				f, err := truetype.NewComposite(info(), &truetype.OptionsComposite{MakeEncoder: wrapEncoder(t, utf8)})
				return must(f, err)
			case "cff":
				f, err := cff.NewComposite(info(), &cff.OptionsComposite{MakeEncoder: wrapEncoder(t, utf8)})
				return must(f, err)
			default:
				return must(opentype.NewComposite(info(), &opentype.OptionsComposite{MakeEncoder: wrapEncoder(t, utf8)}))
			}
		}
		res = append(res, kind{label: label + "/" + enc, composite: true, enc: enc, make: mk})
	}
	return res
}

// allKinds: the 18 font/embedding kinds of internal/fonttypes (the composite
// ones rebuilt here with a tracing encoder, once with the identity and once
// with the UTF-8 encoder), the 12 Go fonts simple and composite, the 14
// standard fonts.
func allKinds() []kind {
	var res []kind
	for _, s := range fonttypes.All {
		s := s
		if s.Composite {
			continue
		}
		res = append(res, kind{label: s.Label, enc: "simple", make: func(*tracer) font.Layouter { return s.MakeFont() }})
	}
	res = append(res, sfntKinds("CFFComposite1", makefont.OpenType, "cff")...)
	res = append(res, sfntKinds("CFFComposite2", makefont.OpenTypeCID, "cff")...)
	res = append(res, sfntKinds("CFFComposite3", makefont.OpenTypeCID2, "cff")...)
	res = append(res, sfntKinds("OpenTypeCFFComposite1", makefont.OpenType, "opentype")...)
	res = append(res, sfntKinds("OpenTypeCFFComposite2", makefont.OpenTypeCID, "opentype")...)
	res = append(res, sfntKinds("OpenTypeCFFComposite3", makefont.OpenTypeCID2, "opentype")...)
	res = append(res, sfntKinds("TrueTypeComposite", makefont.TrueType, "truetype")...)
	res = append(res, sfntKinds("OpenTypeGlyfComposite", makefont.TrueType, "opentype")...)
	for _, g := range gofont.All {
		g := g
		name := fmt.Sprintf("Go%d", int(g))
		res = append(res, kind{label: name + "/simple", enc: "simple", make: func(*tracer) font.Layouter {
			f, err := g.NewSimple(nil)
			return must(f, err)
		}})
		for _, enc := range []string{"identity", "utf8"} {
			utf8 := enc == "utf8"
			res = append(res, kind{label: name + "/" + enc, composite: true, enc: enc, make: func(t *tracer) font.Layouter {
				f, err := g.NewComposite(&truetype.OptionsComposite{MakeEncoder: wrapEncoder(t, utf8)})
				return must(f, err)
			}})
		}
	}
	for _, name := range predefinedKinds {
		name := name
		cm, err := cmap.Predefined(name)
		if err != nil {
			panic(err)
		}
		res = append(res, kind{label: "Go5/" + name, composite: true, enc: "cmap", parentCMap: cm.Parent != nil, make: func(t *tracer) font.Layouter {
			return goWithCMap(t, name)
		}})
	}
	res = append(res, type3Kinds()...)
	for _, s := range standard.All {
		s := s
		res = append(res, kind{label: "Std-" + s.PostScriptName(), enc: "simple", make: func(*tracer) font.Layouter {
			f, err := s.New()
			return must(f, err)
		}})
	}
	return res
}

// predefinedKinds: Go Regular as a composite font whose encoder is NewFromCMap
// of a predefined CMap (GID -> CID through the character collection's Unicode
// mapping, as in font/cmap/predefinedext_test.go).
var predefinedKinds = []string{"Adobe-Japan1-7", "UniJIS-UTF16-H", "UniJIS-UTF8-H", "90ms-RKSJ-H", "UniGB-UCS2-H", "UniJIS-UCS2-HW-H"}

func goWithCMap(t *tracer, name string) font.Layouter {
	cm, err := cmap.Predefined(name)
	if err != nil {
		panic(err)
	}
	info, err := sfnt.Read(bytes.NewReader(goregular.TTF), parser.NewBudget(int64(len(goregular.TTF))))
	if err != nil {
		panic(err)
	}
	lookup, err := info.CMapTable.GetBest()
	if err != nil {
		panic(err)
	}
	f, err := truetype.NewComposite(info, &truetype.OptionsComposite{
		WritingMode:  cm.WMode,
		MakeGIDToCID: func() cmap.GIDToCID { return cmap.NewGIDToCIDFromROS(cm.ROS, lookup) },
		MakeEncoder:  wrapFromCMap(t, name, cm),
	})
	return must(f, err)
}
