package main

import (
	"fmt"

	"seehuhn.de/go/geom/matrix"

	"seehuhn.de/go/pdf"
	"seehuhn.de/go/pdf/font"
	"seehuhn.de/go/pdf/font/type3"
	"seehuhn.de/go/pdf/graphics/content"
	"seehuhn.de/go/pdf/graphics/content/builder"
)

// Type 3 fonts with different glyph spaces: the widths live in glyph space and
// FontMatrix[0] scales them to text space on both sides (coq/C14/Type3.v).
var type3Scales = []float64{0.001, 1.0 / 2048, 0.01, 0.0005, 1.0 / 64}

var type3Names = []string{
	"space", "A", "B", "C", "D", "E", "F", "G", "H", "I", "J", "K", "L", "M", "N", "O", "P", "Q", "R", "S", "T", "U", "V", "W", "X", "Y", "Z",
	"a", "b", "c", "d", "e", "f", "g", "h", "i", "j", "k", "l", "m", "n", "o", "p", "q", "r", "s", "t", "u", "v", "w", "x", "y", "z",
	"zero", "one", "two", "three", "period", "comma", "hyphen", "Euro", "alpha", "beta", "afii10018", "afii10066",
}

func makeType3(scale float64) font.Layouter {
	em := 1 / scale
	vscale := scale
	if scale == 0.01 {
		vscale = 0.015 // an anisotropic glyph space: only FontMatrix[0] scales widths
	}
	fnt := &type3.Font{
		Glyphs:         []*type3.Glyph{{}},
		PostScriptName: fmt.Sprintf("VerifT3x%d", int(em)),
		FontMatrix:     matrix.Matrix{scale, 0, 0, vscale, 0, 0},
		Ascent:         0.8 * em,
		Descent:        -0.2 * em,
		Leading:        1.2 * em,
		CapHeight:      0.7 * em,
		XHeight:        0.5 * em,
	}
	for i, name := range type3Names {
		// widths that are not whole glyph space units: the encoder rounds them
		w := (0.2 + 0.013*float64(i%61)) * em
		if i%7 == 3 {
			w += 0.37
		}
		if name == "period" {
			w = 0 // a glyph without advance
		}
		b := builder.New(content.Glyph, nil, pdf.V2_0)
		b.Type3UncoloredGlyph(w, 0, 0, 0, 0.5*w, 0.6*em)
		b.Rectangle(0, 0, 0.5*w, 0.6*em)
		b.Fill()
		stream, err := b.Harvest()
		if err != nil {
			panic(err)
		}
		fnt.Glyphs = append(fnt.Glyphs, &type3.Glyph{Name: name, Content: stream})
	}
	F, err := fnt.New()
	if err != nil {
		panic(err)
	}
	return F
}

func type3Kinds() []kind {
	var res []kind
	for _, sc := range type3Scales {
		sc := sc
		res = append(res, kind{label: fmt.Sprintf("Type3/1:%d", int(1/sc+0.5)), enc: "simple", t3scale: sc,
			make: func(*tracer) font.Layouter { return makeType3(sc) }})
	}
	return res
}
