package main

import (
	"bytes"
	"fmt"
	"sort"
	"strings"

	"seehuhn.de/go/postscript/cid"

	"seehuhn.de/go/pdf"
	"seehuhn.de/go/pdf/font"
	"seehuhn.de/go/pdf/font/cmap"
	"seehuhn.de/go/pdf/font/dict"
	"seehuhn.de/go/pdf/graphics/extract"
)

func sortStrings(s []string) { sort.Strings(s) }

// Width tables.  The real writer (font/dict) and the real reader
// (graphics/extract) are driven through their public interface: a font
// dictionary with the given widths is embedded into a PDF file, the raw
// /W resp. /FirstChar /Widths entries are read from the file (for the model's
// decoder) and the dictionary is extracted again (the implementation's decoder).

func writeFile(v pdf.Version, body func(w *pdf.Writer, rm *pdf.ResourceManager) (pdf.Object, error)) (*pdf.Reader, pdf.Object, error) {
	buf := &bytes.Buffer{}
	w, err := pdf.NewWriter(buf, v, nil)
	if err != nil {
		return nil, nil, err
	}
	rm := pdf.NewResourceManager(w)
	ref, err := body(w, rm)
	if err != nil {
		return nil, nil, err
	}
	if err := rm.Close(); err != nil {
		return nil, nil, err
	}
	pages := w.Alloc()
	w.Put(pages, pdf.Dict{"Type": pdf.Name("Pages"), "Kids": pdf.Array{}, "Count": pdf.Integer(0)})
	w.GetMeta().Catalog.Pages = pages
	if err := w.Close(); err != nil {
		return nil, nil, err
	}
	r, err := pdf.NewReader(bytes.NewReader(buf.Bytes()), int64(buf.Len()), nil)
	return r, ref, err
}

func getArray(r pdf.Getter, o pdf.Object) (pdf.Array, error) {
	o, err := pdf.Resolve(r, o)
	if err != nil {
		return nil, err
	}
	a, ok := o.(pdf.Array)
	if !ok {
		return nil, fmt.Errorf("not an array: %T", o)
	}
	return a, nil
}

func getDict(r pdf.Getter, o pdf.Object) (pdf.Dict, error) {
	o, err := pdf.Resolve(r, o)
	if err != nil {
		return nil, err
	}
	d, ok := o.(pdf.Dict)
	if !ok {
		return nil, fmt.Errorf("not a dict: %T", o)
	}
	return d, nil
}

func num(r pdf.Getter, o pdf.Object) (float64, bool) {
	o, err := pdf.Resolve(r, o)
	if err != nil {
		return 0, false
	}
	switch x := o.(type) {
	case pdf.Integer:
		return float64(x), true
	case pdf.Real:
		return float64(x), true
	case pdf.Number:
		return float64(x), true
	}
	return 0, false
}

// wItems serialises a raw /W array for the model.
func wItems(r pdf.Getter, obj pdf.Object) (string, bool) {
	arr, err := getArray(r, obj)
	if err != nil {
		return "", false
	}
	var sb strings.Builder
	for len(arr) > 1 {
		c0, ok := num(r, arr[0])
		if !ok {
			return "", false
		}
		o1, err := pdf.Resolve(r, arr[1])
		if err != nil {
			return "", false
		}
		if a, isArr := o1.(pdf.Array); isArr {
			fmt.Fprintf(&sb, " L %d %d", int64(c0), len(a))
			for _, x := range a {
				w, ok := num(r, x)
				if !ok {
					return "", false
				}
				fmt.Fprintf(&sb, " %s", wbits(w))
			}
			arr = arr[2:]
		} else {
			c1, ok1 := num(r, o1)
			if len(arr) < 3 || !ok1 {
				return "", false
			}
			w, ok := num(r, arr[2])
			if !ok {
				return "", false
			}
			fmt.Fprintf(&sb, " R %d %d %s", int64(c0), int64(c1), wbits(w))
			arr = arr[3:]
		}
	}
	if len(arr) != 0 {
		return "", false
	}
	return sb.String(), true
}

func randWidth() float64 {
	switch e.Rand.IntN(10) {
	case 0:
		return 0
	case 1:
		return 1000
	case 2:
		return float64(e.Rand.IntN(2000)) + 0.5
	}
	return float64(250 * (1 + e.Rand.IntN(4)))
}

func cidFontDict(widths map[cid.CID]float64, dw float64) *dict.CIDFontType2 {
	cm, _ := cmap.Predefined("Identity-H")
	return &dict.CIDFontType2{
		PostScriptName:  "VerifFont",
		Descriptor:      &font.Descriptor{FontName: "VerifFont", IsSymbolic: true},
		ROS:             &cid.SystemInfo{Registry: "Adobe", Ordering: "Identity", Supplement: 0},
		CMap:            cm,
		Width:           widths,
		DefaultWidth:    dw,
		DefaultVMetrics: dict.DefaultVMetricsDefault,
	}
}

func showMap(m map[cid.CID]float64) string {
	keys := make([]int, 0, len(m))
	for c := range m {
		keys = append(keys, int(c))
	}
	sort.Ints(keys)
	parts := make([]string, len(keys))
	for i, c := range keys {
		parts[i] = fmt.Sprintf("%d:%s", c, wbits(m[cid.CID(c)]))
	}
	return dash(strings.Join(parts, ","))
}

func compositeWidths(i int) {
	// a width map with runs of consecutive CIDs and runs of equal widths
	m := map[cid.CID]float64{}
	c := cid.CID(e.Rand.IntN(5))
	n := e.Rand.IntN(40)
	if i%7 == 0 {
		n = e.Rand.IntN(400)
	}
	for k := 0; k < n; k++ {
		switch e.Rand.IntN(6) {
		case 0:
			c += cid.CID(2 + e.Rand.IntN(50))
		case 1:
			c += 2
		default:
			c++
		}
		if i%11 == 0 && k == n-1 {
			c = 65535
		}
		if c > 65535 {
			break
		}
		if len(m) > 0 && e.Rand.IntN(3) > 0 {
			m[c] = m[c-1]
			if _, ok := m[c-1]; !ok {
				m[c] = randWidth()
			}
		} else {
			m[c] = randWidth()
		}
	}
	dw := []float64{1000, 0, 500, 250}[e.Rand.IntN(4)]
	caseInfo := map[string]any{"table": "W", "widths": showMap(m), "dw": dw, "seed": e.Seed}
	v := []pdf.Version{pdf.V1_4, pdf.V1_7, pdf.V2_0}[e.Rand.IntN(3)]
	r, ref, err := writeFile(v, func(w *pdf.Writer, rm *pdf.ResourceManager) (pdf.Object, error) {
		return rm.Embed(cidFontDict(m, dw))
	})
	e.Count(len(m) > 0, "W|"+showMap(m), fmt.Sprintf("widths:W:%s", sizeClass(len(m), false)))
	if err != nil {
		fail("widths:W:write", err.Error(), caseInfo)
		return
	}
	// model encode -> model decode, with the implementation's view as observation
	keys := make([]int, 0, len(m))
	for c := range m {
		keys = append(keys, int(c))
	}
	sort.Ints(keys)
	var sb strings.Builder
	for _, c := range keys {
		fmt.Fprintf(&sb, " %d %s", c, wbits(m[cid.CID(c)]))
	}
	id := nextID()
	weID := id
	e.Line("cases.txt", "%s WE %d%s", id, len(keys), sb.String())
	e.Line("impl.obs", "%s %s", id, showMap(m))

	// implementation encode -> model decode
	fd, err := getDict(r, ref)
	if err != nil {
		fail("widths:W:read", err.Error(), caseInfo)
		return
	}
	desc, _ := getArray(r, fd["DescendantFonts"])
	if len(desc) != 1 {
		fail("widths:W:read", "no descendant font", caseInfo)
		return
	}
	cf, _ := getDict(r, desc[0])
	items, ok := "", true
	if cf["W"] != nil {
		items, ok = wItems(r, cf["W"])
	}
	if !ok {
		fail("widths:W:malformed", "the /W array written by font/dict is not of the form c [w...] / c0 c1 w", caseInfo)
		return
	}
	id = nextID()
	e.Line("cases.txt", "%s WD%s", id, items)
	e.Line("impl.obs", "%s %s", id, showMap(m))
	e.Line("impl.obs", "%s.soft %s", weID, dash(strings.TrimSpace(items)))

	// implementation encode -> implementation decode: the property itself
	x := pdf.NewExtractor(r)
	d, err := extract.Dict(pdf.CursorAt(x, nil), ref, false)
	if err != nil {
		fail("widths:W:extract", err.Error(), caseInfo)
		return
	}
	d2, ok := d.(*dict.CIDFontType2)
	if !ok {
		fail("widths:W:extract", fmt.Sprintf("extracted %T", d), caseInfo)
		return
	}
	// the same map with its entries in random order (the model sorts), read for CIDs in and out of the map
	perm := e.Rand.Perm(len(keys))
	var wm strings.Builder
	for _, j := range perm {
		fmt.Fprintf(&wm, " %d %s", keys[j], wbits(m[cid.CID(keys[j])]))
	}
	var qs, want []string
	for k := 0; k < 8; k++ {
		q := e.Rand.IntN(400)
		if len(keys) > 0 && k%2 == 0 {
			q = keys[e.Rand.IntN(len(keys))]
		}
		qs = append(qs, fmt.Sprint(q))
		wv, ok := d2.Width[cid.CID(q)] // what the implementation reads back
		if !ok {
			wv = d2.DefaultWidth
		}
		want = append(want, fmt.Sprintf("%d:%s", q, wbits(wv)))
	}
	id = nextID()
	e.Line("cases.txt", "%s WM %s %d%s %d %s", id, wbits(dw), len(keys), wm.String(), len(qs), strings.Join(qs, " "))
	e.Line("impl.obs", "%s %s", id, strings.Join(want, ","))

	for c, w := range m {
		got, have := d2.Width[c]
		if !have {
			got = d2.DefaultWidth
		}
		if got != w {
			fail("widths:W:lossy", fmt.Sprintf("CID %d: width %g reads back as %g (DW %g)", c, w, got, d2.DefaultWidth), caseInfo)
			break
		}
	}
	if d2.DefaultWidth != dw {
		fail("widths:W:lossy", fmt.Sprintf("DW %g reads back as %g", dw, d2.DefaultWidth), caseInfo)
	}
}

// rawW: arbitrary (also malformed) /W arrays decoded by the implementation and by the model.
func rawW(i int) {
	var arr pdf.Array
	var sb strings.Builder
	n := 1 + e.Rand.IntN(5)
	pick := func() int64 {
		switch e.Rand.IntN(12) {
		case 0:
			return 65535
		case 1:
			return 65536
		case 2:
			return 65530 + int64(e.Rand.IntN(10))
		}
		return int64(e.Rand.IntN(300))
	}
	for k := 0; k < n; k++ {
		c0 := pick()
		if e.Rand.IntN(2) == 0 {
			c1 := c0 + int64(e.Rand.IntN(20)) - 2
			if e.Rand.IntN(10) == 0 {
				c1 = pick()
			}
			if c1 < 0 {
				c1 = 0 // negative numbers are outside the model's domain (N)
			}
			w := randWidth()
			arr = append(arr, pdf.Integer(c0), pdf.Integer(c1), pdf.Number(w))
			fmt.Fprintf(&sb, " R %d %d %s", c0, c1, wbits(w))
		} else {
			m := e.Rand.IntN(8)
			var ws pdf.Array
			fmt.Fprintf(&sb, " L %d %d", c0, m)
			for j := 0; j < m; j++ {
				w := randWidth()
				ws = append(ws, pdf.Number(w))
				fmt.Fprintf(&sb, " %s", wbits(w))
			}
			arr = append(arr, pdf.Integer(c0), ws)
		}
	}
	caseInfo := map[string]any{"table": "raw W", "array": pdf.AsString(arr), "seed": e.Seed}
	r, ref, err := writeFile(pdf.V1_7, func(w *pdf.Writer, rm *pdf.ResourceManager) (pdf.Object, error) {
		ref := w.Alloc()
		cfRef := w.Alloc()
		fdRef := w.Alloc()
		w.Put(ref, pdf.Dict{"Type": pdf.Name("Font"), "Subtype": pdf.Name("Type0"), "BaseFont": pdf.Name("VerifFont"),
			"Encoding": pdf.Name("Identity-H"), "DescendantFonts": pdf.Array{cfRef}})
		w.Put(cfRef, pdf.Dict{"Type": pdf.Name("Font"), "Subtype": pdf.Name("CIDFontType2"), "BaseFont": pdf.Name("VerifFont"),
			"CIDSystemInfo":  pdf.Dict{"Registry": pdf.String("Adobe"), "Ordering": pdf.String("Identity"), "Supplement": pdf.Integer(0)},
			"FontDescriptor": fdRef, "W": arr, "DW": pdf.Integer(777)})
		w.Put(fdRef, pdf.Dict{"Type": pdf.Name("FontDescriptor"), "FontName": pdf.Name("VerifFont"), "Flags": pdf.Integer(4),
			"FontBBox":    pdf.Array{pdf.Integer(0), pdf.Integer(0), pdf.Integer(1000), pdf.Integer(1000)},
			"ItalicAngle": pdf.Integer(0), "Ascent": pdf.Integer(800), "Descent": pdf.Integer(-200), "CapHeight": pdf.Integer(700), "StemV": pdf.Integer(80)})
		return ref, nil
	})
	e.Count(true, "rawW|"+sb.String(), "widths:rawW")
	if err != nil {
		fail("widths:rawW:write", err.Error(), caseInfo)
		return
	}
	x := pdf.NewExtractor(r)
	d, err := extract.Dict(pdf.CursorAt(x, nil), ref, false)
	id := nextID()
	e.Line("cases.txt", "%s WD%s", id, sb.String())
	if err != nil {
		e.Line("impl.obs", "%s err", id)
		return
	}
	d2, ok := d.(*dict.CIDFontType2)
	if !ok {
		e.Line("impl.obs", "%s err", id)
		return
	}
	e.Line("impl.obs", "%s %s", id, showMap(d2.Width))
}

// simpleWidths: /FirstChar /LastChar /Widths + /MissingWidth.
func simpleWidths(i int) {
	var ww [256]float64
	used := map[int]bool{}
	dw := []float64{0, 250, 500, 1000}[e.Rand.IntN(4)]
	lo, hi := e.Rand.IntN(256), e.Rand.IntN(256)
	if lo > hi {
		lo, hi = hi, lo
	}
	n := 1 + e.Rand.IntN(30)
	if i%5 == 0 {
		n = 200 + e.Rand.IntN(56)
		lo, hi = 0, 255
	}
	for k := 0; k < n; k++ {
		c := lo + e.Rand.IntN(hi-lo+1)
		if i%3 == 0 && k < 4 {
			c = []int{0, 255, 1, 254}[k]
		}
		used[c] = true
		switch e.Rand.IntN(4) {
		case 0:
			ww[c] = dw
		case 1:
			ww[c] = 0
		default:
			ww[c] = randWidth()
		}
	}
	codes := make([]int, 0, len(used))
	for c := range used {
		codes = append(codes, c)
	}
	sort.Ints(codes)
	enc := func(c byte) string {
		if used[int(c)] {
			return fmt.Sprintf("g%d", c)
		}
		return ""
	}
	var want []string
	var pe strings.Builder
	for _, c := range codes {
		want = append(want, fmt.Sprintf("%d:%s", c, wbits(ww[c])))
		fmt.Fprintf(&pe, " %d %s", c, wbits(ww[c]))
	}
	caseInfo := map[string]any{"table": "Widths", "widths": strings.Join(want, ","), "dw": dw, "seed": e.Seed}
	e.Count(true, "PW|"+strings.Join(want, ",")+fmt.Sprint(dw), fmt.Sprintf("widths:simple:%s", sizeClass(len(codes), false)))

	id := nextID()
	e.Line("cases.txt", "%s PE %s %d%s", id, wbits(dw), len(codes), pe.String())
	e.Line("impl.obs", "%s %s", id, strings.Join(want, ","))

	d := &dict.Type1{
		PostScriptName: "VerifFont",
		Descriptor:     &font.Descriptor{FontName: "VerifFont", IsSymbolic: true, MissingWidth: dw},
		Encoding:       enc,
		Width:          ww,
	}
	r, ref, err := writeFile(pdf.V1_7, func(w *pdf.Writer, rm *pdf.ResourceManager) (pdf.Object, error) {
		return rm.Embed(d)
	})
	if err != nil {
		fail("widths:simple:write", err.Error(), caseInfo)
		return
	}
	fd, err := getDict(r, ref)
	if err != nil {
		fail("widths:simple:read", err.Error(), caseInfo)
		return
	}
	first, ok1 := num(r, fd["FirstChar"])
	last, ok2 := num(r, fd["LastChar"])
	arr, err := getArray(r, fd["Widths"])
	if !ok1 || !ok2 || err != nil || int(last-first)+1 != len(arr) {
		fail("widths:simple:malformed", fmt.Sprintf("FirstChar %v LastChar %v, %d widths", fd["FirstChar"], fd["LastChar"], len(arr)), caseInfo)
		return
	}
	var sb strings.Builder
	for _, o := range arr {
		w, _ := num(r, o)
		fmt.Fprintf(&sb, " %s", wbits(w))
	}
	var cs strings.Builder
	for _, c := range codes {
		fmt.Fprintf(&cs, " %d", c)
	}
	e.Line("impl.obs", "%s.soft %d %d %d", id, int(first), int(last), len(arr))
	id = nextID()
	e.Line("cases.txt", "%s PR %s %d %d%s %d%s", id, wbits(dw), int(first), len(arr), sb.String(), len(codes), cs.String())
	e.Line("impl.obs", "%s %s", id, strings.Join(want, ","))

	x := pdf.NewExtractor(r)
	dd, err := extract.Dict(pdf.CursorAt(x, nil), ref, false)
	if err != nil {
		fail("widths:simple:extract", err.Error(), caseInfo)
		return
	}
	d1, ok := dd.(*dict.Type1)
	if !ok {
		fail("widths:simple:extract", fmt.Sprintf("extracted %T", dd), caseInfo)
		return
	}
	for _, c := range codes {
		if d1.Width[c] != ww[c] {
			fail("widths:simple:lossy", fmt.Sprintf("code %d: width %g reads back as %g (MissingWidth %g, FirstChar %d, %d widths)", c, ww[c], d1.Width[c], dw, int(first), len(arr)), caseInfo)
			break
		}
	}
}

func widthTables() {
	n := e.Pick(300, 6000)
	for i := 0; i < n; i++ {
		compositeWidths(i)
		rawW(i)
		simpleWidths(i)
		vmetricsCase(i)
		rawW2(i)
	}
	utf16Cases(e.Pick(300, 20000))
}
